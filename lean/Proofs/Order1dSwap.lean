import Proofs.Order1dPerm
/-!
The kernel `swap_distance`: it computes `n − (number of cycles)`, never leaves its arrays on
permutations, and `n − cycles` is the minimum number of transpositions (C20).  Core Lean only.
-/
namespace Order1d

/-- the function on values given by an array (identity beyond the end) -/
def fOf (xs : List Nat) (v : Nat) : Nat := if h : v < xs.length then xs[v] else v

theorem IsPerm.length {p : List Nat} {n : Nat} (h : IsPerm p n) : p.length = n := by
  simpa using List.Perm.length_eq h

theorem IsPerm.nodup {p : List Nat} {n : Nat} (h : IsPerm p n) : p.Nodup :=
  (List.Perm.nodup_iff h).mpr List.nodup_range

theorem IsPerm.mem_iff {p : List Nat} {n : Nat} (h : IsPerm p n) (v : Nat) : v ∈ p ↔ v < n := by
  rw [List.Perm.mem_iff h]; simp

theorem IsPerm.getElem_lt {p : List Nat} {n : Nat} (h : IsPerm p n) (k : Nat) (hk : k < p.length) :
    p[k] < n := (h.mem_iff _).mp (List.getElem_mem hk)

theorem permN_fOf {xs : List Nat} {n : Nat} (h : IsPerm xs n) : PermN (fOf xs) n := by
  have hl := h.length
  have hinj : ∀ a b (ha : a < xs.length) (hb : b < xs.length), xs[a] = xs[b] → a = b := by
    intro a b ha hb e
    exact (List.getElem_inj h.nodup).mp e
  refine ⟨?_, ?_, ?_⟩
  · intro v hv
    have hv' : v < xs.length := by omega
    simp only [fOf, hv', dite_true]
    exact h.getElem_lt v hv'
  · intro v hv
    have hv' : ¬ v < xs.length := by omega
    simp [fOf, hv']
  · intro a b e
    unfold fOf at e
    by_cases ha : a < xs.length
    · by_cases hb : b < xs.length
      · simp only [ha, hb, dite_true] at e
        exact hinj a b ha hb e
      · simp only [ha, hb, dite_true, dite_false] at e
        have := h.getElem_lt a ha
        omega
    · by_cases hb : b < xs.length
      · simp only [ha, hb, dite_true, dite_false] at e
        have := h.getElem_lt b hb
        omega
      · simpa [ha, hb] using e

/-- `σ(p1[k]) = p2[k]` -/
theorem sigma_getElem {p1 p2 : List Nat} {n : Nat} (h1 : IsPerm p1 n) (k : Nat)
    (hk : k < n) : sigma p1 p2 (p1.getD k 0) = p2.getD k 0 := by
  have hk1 : k < p1.length := by rw [h1.length]; exact hk
  have e : p1.getD k 0 = p1[k] := by simp [List.getD_eq_getElem?_getD, List.getElem?_eq_getElem hk1]
  rw [e]
  unfold sigma
  simp only [List.getElem_mem hk1, if_true]
  rw [List.Nodup.idxOf_getElem h1.nodup]

theorem sigma_lt {p1 p2 : List Nat} {n : Nat} (h1 : IsPerm p1 n) (h2 : IsPerm p2 n) (v : Nat)
    (hv : v < n) : sigma p1 p2 v < n := by
  unfold sigma
  have hm : v ∈ p1 := (h1.mem_iff v).mpr hv
  simp only [hm, if_true]
  have hi := List.idxOf_lt_length_of_mem hm
  have hi2 : p1.idxOf v < p2.length := by rw [h2.length, ← h1.length]; exact hi
  simp only [List.getD_eq_getElem?_getD, List.getElem?_eq_getElem hi2, Option.getD_some]
  exact h2.getElem_lt _ hi2

theorem sigma_ge {p1 p2 : List Nat} {n : Nat} (h1 : IsPerm p1 n) (v : Nat)
    (hv : n ≤ v) : sigma p1 p2 v = v := by
  unfold sigma
  have hm : ¬ v ∈ p1 := fun hm => by have := (h1.mem_iff v).mp hm; omega
  simp [hm]

theorem permN_sigma {p1 p2 : List Nat} {n : Nat} (h1 : IsPerm p1 n) (h2 : IsPerm p2 n) :
    PermN (sigma p1 p2) n := by
  refine ⟨sigma_lt h1 h2, sigma_ge h1, ?_⟩
  have key : ∀ a b, a < n → b < n → sigma p1 p2 a = sigma p1 p2 b → a = b := by
    intro a b ha hb e
    have hma : a ∈ p1 := (h1.mem_iff a).mpr ha
    have hmb : b ∈ p1 := (h1.mem_iff b).mpr hb
    have hia := List.idxOf_lt_length_of_mem hma
    have hib := List.idxOf_lt_length_of_mem hmb
    have hia2 : p1.idxOf a < p2.length := by rw [h2.length, ← h1.length]; exact hia
    have hib2 : p1.idxOf b < p2.length := by rw [h2.length, ← h1.length]; exact hib
    unfold sigma at e
    simp only [hma, hmb, if_true, List.getD_eq_getElem?_getD, List.getElem?_eq_getElem hia2,
      List.getElem?_eq_getElem hib2, Option.getD_some] at e
    have := (List.getElem_inj h2.nodup).mp e
    have ea : p1[p1.idxOf a] = a := List.getElem_idxOf hia
    have eb : p1[p1.idxOf b] = b := List.getElem_idxOf hib
    rw [← ea, ← eb]
    simp only [this]
  intro a b e
  by_cases ha : a < n
  · by_cases hb : b < n
    · exact key a b ha hb e
    · rw [sigma_ge h1 b (by omega)] at e
      have := sigma_lt h1 h2 a ha
      omega
  · by_cases hb : b < n
    · rw [sigma_ge h1 a (by omega)] at e
      have := sigma_lt h1 h2 b hb
      omega
    · rw [sigma_ge h1 a (by omega), sigma_ge h1 b (by omega)] at e
      exact e


/-! ### `x = p2[argsort(p1)]` -/

theorem getD_map_ofNat (p : List Nat) (a : Nat) :
    (p.map Int.ofNat).getD a 0 = ((p.getD a 0 : Nat) : Int) := by
  simp only [List.getD_eq_getElem?_getD, List.getElem?_map]
  cases p[a]? <;> simp

theorem argsort_perm {p1 : List Nat} {n : Nat} (h1 : IsPerm p1 n) :
    argsort (p1.map Int.ofNat) = (List.range n).map (fun v => p1.idxOf v) := by
  have hl := h1.length
  unfold argsort
  simp only [List.length_map, hl]
  generalize hL : (List.range n).mergeSort
    (fun a b => decide ((p1.map Int.ofNat).getD a 0 ≤ (p1.map Int.ofNat).getD b 0)) = L
  have hperm : L.Perm (List.range n) := hL ▸ List.mergeSort_perm _ _
  have hsorted : L.Pairwise (fun a b =>
      decide ((p1.map Int.ofNat).getD a 0 ≤ (p1.map Int.ofNat).getD b 0) = true) := by
    rw [← hL]
    apply List.pairwise_mergeSort
    · intro a b c hab hbc
      simp only [decide_eq_true_eq] at *
      omega
    · intro a b
      simp only [Bool.or_eq_true, decide_eq_true_eq]
      omega
  -- the keys along L are sorted and a permutation of 0..n-1, hence equal to 0..n-1
  have hkeys : L.map (fun a => p1.getD a 0) = List.range n := by
    apply List.Perm.eq_of_pairwise (le := (· ≤ ·))
    · intro a b _ _ h h'; omega
    · rw [List.pairwise_map]
      refine hsorted.imp ?_
      intro a b hab
      simp only [decide_eq_true_eq, getD_map_ofNat] at hab
      omega
    · exact (List.pairwise_lt_range).imp (fun h => Nat.le_of_lt h)
    · have e : (List.range n).map (fun a => p1.getD a 0) = p1 := by
        apply List.ext_getElem
        · simp [hl]
        · intro i h1' h2'
          simp [List.getD_eq_getElem?_getD, List.getElem?_eq_getElem h2']
      have h3 : (L.map (fun a => p1.getD a 0)).Perm ((List.range n).map (fun a => p1.getD a 0)) :=
        hperm.map _
      rw [e] at h3
      exact h3.trans h1
  have hLl : L.length = n := by simpa using hperm.length_eq
  apply List.ext_getElem
  · simp [hLl]
  · intro v hv1 hv2
    simp only [List.getElem_map, List.getElem_range]
    have hvn : v < n := by omega
    have hLv : L[v] < n := by
      have : L[v] ∈ List.range n := hperm.subset (List.getElem_mem hv1)
      simpa using this
    have hLv' : L[v] < p1.length := by omega
    have hk : p1.getD L[v] 0 = v := by
      have := congrArg (fun l => l[v]?) hkeys
      simp only [List.getElem?_map, List.getElem?_eq_getElem hv1, Option.map_some,
        List.getElem?_range hvn] at this
      simpa using this
    have hk' : p1[L[v]] = v := by
      simpa [List.getD_eq_getElem?_getD, List.getElem?_eq_getElem hLv'] using hk
    have := List.Nodup.idxOf_getElem h1.nodup _ hLv'
    rw [hk'] at this
    exact this.symm

theorem mapM_getElem?_some {α} (q : List α) : ∀ (L : List Nat), (∀ k ∈ L, k < q.length) →
    ∀ d, L.mapM (fun k => q[k]?) = some (L.map (fun k => q.getD k d)) := by
  intro L
  induction L with
  | nil => intro _ _; rfl
  | cons a t ih =>
    intro h d
    have ha : a < q.length := h a (by simp)
    rw [List.mapM_cons, ih (fun k hk => h k (by simp [hk])) d]
    simp [List.getElem?_eq_getElem ha, List.getD_eq_getElem?_getD]

/-- the composed array holds `σ` with `σ(p1[k]) = p2[k]` -/
theorem composeX_perm {p1 p2 : List Nat} {n : Nat} (h1 : IsPerm p1 n) (h2 : IsPerm p2 n) :
    composeX (p1.map Int.ofNat) (p2.map Int.ofNat)
      = some (((List.range n).map (sigma p1 p2)).map Int.ofNat) := by
  unfold composeX
  rw [argsort_perm h1]
  rw [mapM_getElem?_some (p2.map Int.ofNat) _ ?_ 0]
  · congr 1
    simp only [List.map_map]
    apply List.map_congr_left
    intro v hv
    have hv : v < n := by simpa using hv
    have hm : v ∈ p1 := (h1.mem_iff v).mpr hv
    have e := getD_map_ofNat p2 (p1.idxOf v)
    simp only [Function.comp_def, sigma, hm, if_true]
    exact e
  · intro k hk
    obtain ⟨v, hv, rfl⟩ := List.mem_map.mp hk
    have hv : v < n := by simpa using hv
    have hm : v ∈ p1 := (h1.mem_iff v).mpr hv
    have := List.idxOf_lt_length_of_mem hm
    simp [h2.length, ← h1.length, this]

theorem fOf_sigma {p1 p2 : List Nat} {n : Nat} (h1 : IsPerm p1 n) (v : Nat) :
    fOf ((List.range n).map (sigma p1 p2)) v = sigma p1 p2 v := by
  unfold fOf
  by_cases hv : v < n
  · simp [hv]
  · simp [hv, sigma_ge h1 v (by omega)]


/-! ### the marking loop -/

/-- mark `j, f j, …, f^(d-1) j` -/
def marks (f : Nat → Nat) : List Bool → Nat → Nat → List Bool
  | u, _, 0 => u
  | u, j, d + 1 => marks f (u.set j false) (f j) d

theorem marks_length (f : Nat → Nat) : ∀ (d : Nat) (u : List Bool) (j : Nat),
    (marks f u j d).length = u.length := by
  intro d
  induction d with
  | zero => intros; rfl
  | succ d ih => intro u j; simp [marks, ih]

theorem marks_getD (f : Nat → Nat) : ∀ (d : Nat) (u : List Bool) (j v : Nat), v < u.length →
    ((marks f u j d).getD v true = false ↔ u.getD v true = false ∨ ∃ s, s < d ∧ iter f s j = v) := by
  intro d
  induction d with
  | zero => intro u j v _; simp [marks]
  | succ d ih =>
    intro u j v hv
    simp only [marks]
    rw [ih (u.set j false) (f j) v (by simpa using hv)]
    have hset : (u.set j false).getD v true = false ↔ (u.getD v true = false ∨ j = v) := by
      simp only [List.getD_eq_getElem?_getD, List.getElem?_set, List.getElem?_eq_getElem hv]
      by_cases e : j = v
      · subst e; simp [hv]
      · simp [e]
    rw [hset]
    constructor
    · rintro (⟨h | h⟩ | ⟨s, hs, e⟩)
      · exact Or.inl h
      · exact Or.inr ⟨0, by omega, h⟩
      · exact Or.inr ⟨s + 1, by omega, e⟩
    · rintro (h | ⟨s, hs, e⟩)
      · exact Or.inl (Or.inl h)
      · cases s with
        | zero => exact Or.inl (Or.inr e)
        | succ s => exact Or.inr ⟨s, by omega, e⟩

theorem wrapIdx_ofNat (n j : Nat) (hj : j < n) : wrapIdx n (j : Int) = some j := by
  unfold wrapIdx
  have : (0 : Int) ≤ (j : Int) ∧ (j : Int) < (n : Int) := ⟨by omega, by omega⟩
  simp [this]

theorem x_getElem? (xs : List Nat) (j : Nat) (hj : j < xs.length) :
    (xs.map Int.ofNat)[j]? = some ((fOf xs j : Nat) : Int) := by
  simp [fOf, hj]

theorem walk_eq (xs : List Nat) (n : Nat) (hl : xs.length = n) (hf : PermN (fOf xs) n) (i : Nat) :
    ∀ (d fuel j : Nat) (u : List Bool), u.length = n → j < n → iter (fOf xs) d j = i →
      (∀ s, s < d → iter (fOf xs) s j ≠ i) → d ≤ fuel →
      walk (xs.map Int.ofNat) i fuel (j : Int) u = .ok (marks (fOf xs) u j d) := by
  intro d
  induction d with
  | zero =>
    intro fuel j u _ _ hd _ _
    simp only [iter] at hd
    subst hd
    unfold walk
    simp [marks]
  | succ d ih =>
    intro fuel j u hu hj hd hne hfuel
    have hji : j ≠ i := hne 0 (by omega)
    have hji' : ¬ ((j : Int) = (i : Int)) := by omega
    unfold walk
    simp only [hji', if_false]
    cases fuel with
    | zero => omega
    | succ fuel =>
      simp only [hu, List.length_map, hl, wrapIdx_ofNat n j hj,
        x_getElem? xs j (by omega)]
      exact ih fuel (fOf xs j) (u.set j false) (by simpa using hu) (hf.lt j hj) hd
        (fun s hs => hne (s + 1) (by omega)) (by omega)

/-- the least period of a point -/
theorem exists_least_period {f : Nat → Nat} {n : Nat} (h : PermN f n) (a : Nat) :
    ∃ m, 1 ≤ m ∧ m ≤ max n 1 ∧ iter f m a = a ∧ ∀ s, 1 ≤ s → s < m → iter f s a ≠ a := by
  obtain ⟨m0, h1, h2, h3⟩ := h.exists_period a
  obtain ⟨m, ⟨hm1, hm2⟩, hm3⟩ := exists_least (fun m => 1 ≤ m ∧ iter f m a = a) m0 ⟨h1, h3⟩
  refine ⟨m, hm1, ?_, hm2, fun s hs1 hs2 e => hm3 s hs2 ⟨hs1, e⟩⟩
  apply Classical.byContradiction
  intro hc
  exact hm3 m0 (by omega) ⟨h1, h3⟩

theorem orb_iff_lt_period {f : Nat → Nat} {m a : Nat} (hm1 : 1 ≤ m) (hm : iter f m a = a) (v : Nat) :
    Orb f a v ↔ ∃ s, s < m ∧ iter f s a = v := by
  constructor
  · rintro ⟨t, rfl⟩
    refine ⟨t % m, Nat.mod_lt t hm1, ?_⟩
    have : t = t % m + (t / m) * m := by
      have := Nat.mod_add_div t m
      rw [Nat.mul_comm] at this; omega
    conv => rhs; rw [this]
    rw [iter_add, iter_period_mul f m a hm]
  · rintro ⟨s, _, e⟩; exact ⟨s, e⟩

theorem loop_spec (xs : List Nat) (n : Nat) (hl : xs.length = n) (hf : PermN (fOf xs) n) :
    ∀ (k i0 : Nat) (u : List Bool) (r : Int), i0 + k = n → u.length = n →
      (∀ v, v < n → (u.getD v true = false ↔ ∃ i', i' < i0 ∧ Orb (fOf xs) i' v)) →
      cyclesLoop (xs.map Int.ofNat) n (List.range' i0 k) u r
        = .ok (r + (((List.range' i0 k).filter fun i => minOnOrbit (fOf xs) i n i).length : Nat)) := by
  intro k
  induction k with
  | zero => intro i0 u r _ _ _; simp [cyclesLoop]
  | succ k ih =>
    intro i0 u r hik hu hinv
    have hi0 : i0 < n := by omega
    have hE := orb_isEquiv hf
    rw [List.range'_succ]
    unfold cyclesLoop
    have hget : u[i0]? = some (u.getD i0 true) := by
      simp [List.getD_eq_getElem?_getD, List.getElem?_eq_getElem (show i0 < u.length by omega)]
    rw [hget]
    have hmin := minOnOrbit_iff_orb hf hi0
    cases hb : u.getD i0 true with
    | false =>
      -- already marked: `i0` lies on the cycle of a smaller element
      obtain ⟨i', hi', ho⟩ := (hinv i0 hi0).mp hb
      have hnm : minOnOrbit (fOf xs) i0 n i0 = false := by
        cases hc : minOnOrbit (fOf xs) i0 n i0 with
        | false => rfl
        | true => exact absurd ho (hmin.mp hc i' hi')
      simp only [List.filter_cons, hnm]
      apply ih (i0 + 1) u r (by omega) hu
      intro v hv
      rw [hinv v hv]
      constructor
      · rintro ⟨i'', h1, h2⟩; exact ⟨i'', by omega, h2⟩
      · rintro ⟨i'', h1, h2⟩
        by_cases e : i'' = i0
        · subst e; exact ⟨i', hi', hE.trans ho h2⟩
        · exact ⟨i'', by omega, h2⟩
    | true =>
      have hmn : minOnOrbit (fOf xs) i0 n i0 = true := by
        apply hmin.mpr
        intro j hj ho
        have := (hinv i0 hi0).mpr ⟨j, hj, ho⟩
        rw [hb] at this
        exact absurd this (by simp)
      simp only [List.filter_cons, hmn, if_true]
      rw [x_getElem? xs i0 (by omega)]
      obtain ⟨m, hm1, hmn', hm, hleast⟩ := exists_least_period hf i0
      have hw := walk_eq xs n hl hf i0 (m - 1) (2 * n) (fOf xs i0) (u.set i0 false)
        (by simpa using hu) (hf.lt i0 hi0)
        (by
          have : iter (fOf xs) (m - 1) (fOf xs i0) = iter (fOf xs) (m - 1 + 1) i0 := rfl
          rw [this, show m - 1 + 1 = m by omega]; exact hm)
        (by
          intro s hs
          have : iter (fOf xs) s (fOf xs i0) = iter (fOf xs) (s + 1) i0 := rfl
          rw [this]
          exact hleast (s + 1) (by omega) (by omega))
        (by omega)
      simp only [hw]
      have hlen : (marks (fOf xs) (u.set i0 false) (fOf xs i0) (m - 1)).length = n := by
        rw [marks_length]; simpa using hu
      rw [ih (i0 + 1) _ (r + 1) (by omega) hlen]
      · congr 1
        simp only [List.length_cons]
        omega
      · intro v hv
        rw [marks_getD _ _ _ _ _ (by simpa [hu] using hv)]
        have hset : (u.set i0 false).getD v true = false ↔ (u.getD v true = false ∨ i0 = v) := by
          have hv' : v < u.length := by omega
          simp only [List.getD_eq_getElem?_getD, List.getElem?_set, List.getElem?_eq_getElem hv']
          by_cases e : i0 = v
          · subst e; simp [hv']
          · simp [e]
        rw [hset, hinv v hv]
        have horb := orb_iff_lt_period hm1 hm v
        constructor
        · rintro ((⟨i', h1, h2⟩ | e) | ⟨s, hs, e⟩)
          · exact ⟨i', by omega, h2⟩
          · subst e; exact ⟨i0, by omega, hE.refl _⟩
          · refine ⟨i0, by omega, ⟨s + 1, e⟩⟩
        · rintro ⟨i', h1, h2⟩
          by_cases e : i' = i0
          · subst e
            obtain ⟨s, hs, e⟩ := horb.mp h2
            cases s with
            | zero => exact Or.inl (Or.inr e)
            | succ s => exact Or.inr ⟨s, by omega, e⟩
          · exact Or.inl (Or.inl ⟨i', by omega, h2⟩)

/-- on permutations the kernel returns `n − cycles`, touching only valid indices -/
theorem swapDistance_perm {p1 p2 : List Nat} {n : Nat} (h1 : IsPerm p1 n) (h2 : IsPerm p2 n) :
    swapDistance (p1.map Int.ofNat) (p2.map Int.ofNat)
      = .ok ((n : Int) - (numCycles (sigma p1 p2) n : Nat)) := by
  unfold swapDistance
  simp only [List.length_map, h1.length, composeX_perm h1 h2]
  have hfe : fOf ((List.range n).map (sigma p1 p2)) = sigma p1 p2 := funext (fOf_sigma h1)
  have hf : PermN (fOf ((List.range n).map (sigma p1 p2))) n := by
    rw [hfe]; exact permN_sigma h1 h2
  have := loop_spec ((List.range n).map (sigma p1 p2)) n (by simp) hf n 0
    (List.replicate n true) 0 (by omega) (by simp)
    (by
      intro v hv
      simp [List.getD_eq_getElem?_getD, hv])
  rw [← List.range_eq_range'] at this
  rw [this, hfe]
  simp [numCycles]


/-! ### transpositions of array positions -/

theorem swapAt_length (p : List Nat) (s : Nat × Nat) : (swapAt p s).length = p.length := by
  simp [swapAt]

theorem getD_eq_getElem (p : List Nat) (k : Nat) (hk : k < p.length) : p.getD k 0 = p[k] := by
  simp [List.getD_eq_getElem?_getD, List.getElem?_eq_getElem hk]

/-- exchanging two positions of a permutation = exchanging the two values everywhere -/
theorem swapAt_eq_map {p : List Nat} {n : Nat} (hp : IsPerm p n) (s : Nat × Nat) (ha : s.1 < n)
    (hb : s.2 < n) : swapAt p s = p.map (sw (p.getD s.1 0) (p.getD s.2 0)) := by
  obtain ⟨a, b⟩ := s
  simp only at ha hb ⊢
  have hl := hp.length
  have ha' : a < p.length := by omega
  have hb' : b < p.length := by omega
  apply List.ext_getElem
  · simp [swapAt]
  · intro k hk1 hk2
    have hk : k < p.length := by simpa [swapAt] using hk1
    simp only [swapAt, List.getElem_set, List.getElem_map, getD_eq_getElem p a ha',
      getD_eq_getElem p b hb']
    have inj : ∀ {x y : Nat} (hx : x < p.length) (hy : y < p.length), p[x] = p[y] ↔ x = y :=
      fun hx hy => List.getElem_inj hp.nodup
    unfold sw
    by_cases h1 : b = k
    · subst h1
      by_cases h2 : a = b
      · subst h2; simp
      · have : ¬ p[b] = p[a] := fun e => h2 ((inj hb' ha').mp e).symm
        simp [this]
    · by_cases h2 : a = k
      · subst h2; simp [h1]
      · have e1 : ¬ p[k] = p[a] := fun e => h2 ((inj hk ha').mp e).symm
        have e2 : ¬ p[k] = p[b] := fun e => h1 ((inj hk hb').mp e).symm
        simp [h1, h2, e1, e2]

theorem sw_inj (u w : Nat) {a b : Nat} (e : sw u w a = sw u w b) : a = b := by
  have := congrArg (sw u w) e
  simpa [sw_sw] using this

theorem isPerm_swapAt {p : List Nat} {n : Nat} (hp : IsPerm p n) (s : Nat × Nat) (ha : s.1 < n)
    (hb : s.2 < n) : IsPerm (swapAt p s) n := by
  rw [swapAt_eq_map hp s ha hb]
  have hl := hp.length
  have hu : p.getD s.1 0 < n := by
    rw [getD_eq_getElem p s.1 (by omega)]; exact hp.getElem_lt _ _
  have hw : p.getD s.2 0 < n := by
    rw [getD_eq_getElem p s.2 (by omega)]; exact hp.getElem_lt _ _
  unfold IsPerm
  rw [List.perm_ext_iff_of_nodup]
  · intro v
    simp only [List.mem_map, List.mem_range]
    constructor
    · rintro ⟨x, hx, rfl⟩
      exact sw_lt hu hw x ((hp.mem_iff x).mp hx)
    · intro hv
      exact ⟨sw _ _ v, (hp.mem_iff _).mpr (sw_lt hu hw v hv), sw_sw _ _ v⟩
  · exact (List.nodup_iff_pairwise_ne.mp hp.nodup).map _ (fun a b hab e => hab (sw_inj _ _ e))
  · exact List.nodup_range

/-- the permutation that remains to be undone after one transposition -/
theorem sigma_swapAt {p p2 : List Nat} {n : Nat} (hp : IsPerm p n)
    (s : Nat × Nat) (ha : s.1 < n) (hb : s.2 < n) :
    sigma (swapAt p s) p2 = fun v => sigma p p2 (sw (p.getD s.1 0) (p.getD s.2 0) v) := by
  have hl := hp.length
  have hp' := isPerm_swapAt hp s ha hb
  have hu : p.getD s.1 0 < n := by
    rw [getD_eq_getElem p s.1 (by omega)]; exact hp.getElem_lt _ _
  have hw : p.getD s.2 0 < n := by
    rw [getD_eq_getElem p s.2 (by omega)]; exact hp.getElem_lt _ _
  funext v
  by_cases hv : v < n
  · have hm : v ∈ swapAt p s := (hp'.mem_iff v).mpr hv
    obtain ⟨k, hk, rfl⟩ := List.mem_iff_getElem.mp hm
    have hkn : k < n := by rw [← hp'.length]; exact hk
    have hkp : k < p.length := by omega
    have e1 := sigma_getElem (p2 := p2) hp' k hkn
    rw [getD_eq_getElem _ k hk] at e1
    rw [e1]
    have e2 : (swapAt p s)[k] = sw (p.getD s.1 0) (p.getD s.2 0) p[k] := by
      simp only [swapAt_eq_map hp s ha hb, List.getElem_map]
    rw [e2, sw_sw]
    have e3 := sigma_getElem (p2 := p2) hp k hkn
    rw [getD_eq_getElem _ k hkp] at e3
    exact e3.symm
  · rw [sigma_ge hp' v (by omega), sw_ge hu hw v (by omega), sigma_ge hp v (by omega)]

theorem numCycles_id (f : Nat → Nat) (n : Nat) (hid : ∀ v, v < n → f v = v) : numCycles f n = n := by
  unfold numCycles
  have : ∀ i k a, a < n → f a = a → minOnOrbit f i k a = (decide (i ≤ a) || decide (k = 0)) := by
    intro i k
    induction k with
    | zero => intros; simp [minOnOrbit]
    | succ k ih =>
      intro a ha hfa
      simp only [minOnOrbit, hfa, ih a ha hfa]
      by_cases h : i ≤ a <;> simp [h]
  have hall : (List.range n).filter (fun i => minOnOrbit f i n i) = List.range n := by
    rw [List.filter_eq_self]
    intro i hi
    have hi : i < n := by simpa using hi
    rw [this i n i hi (hid i hi)]
    simp
  rw [hall]; simp

theorem sigma_self {p : List Nat} {n : Nat} (_hp : IsPerm p n) (v : Nat) : sigma p p v = v := by
  unfold sigma
  by_cases hm : v ∈ p
  · have := List.idxOf_lt_length_of_mem hm
    simp only [hm, if_true]
    rw [getD_eq_getElem p _ this]
    exact List.getElem_idxOf this
  · simp [hm]

/-- all `n` points are cycles of their own only for the identity -/
theorem eq_of_numCycles_eq {p p2 : List Nat} {n : Nat} (hp : IsPerm p n) (h2 : IsPerm p2 n)
    (hc : numCycles (sigma p p2) n = n) : p = p2 := by
  have hf := permN_sigma hp h2
  have hE := orb_isEquiv hf
  have hall : ∀ i, i < n → ∀ j, j < i → ¬ Orb (sigma p p2) j i := by
    intro i hi
    have : ((List.range n).filter fun i => minOnOrbit (sigma p p2) i n i).length
        = (List.range n).length := by simpa [numCycles] using hc
    rw [List.length_filter_eq_length_iff] at this
    exact (minOnOrbit_iff_orb hf hi).mp (this i (by simpa using hi))
  have hid : ∀ v, v < n → sigma p p2 v = v := by
    intro v hv
    have hfv := hf.lt v hv
    rcases Nat.lt_trichotomy (sigma p p2 v) v with h | h | h
    · exact absurd (hE.symm (Orb.step _ v)) (hall v hv _ h)
    · exact h
    · exact absurd (Orb.step _ v) (hall _ hfv v h)
  apply List.ext_getElem
  · rw [hp.length, h2.length]
  · intro k hk1 hk2
    have hkn : k < n := by rw [← hp.length]; exact hk1
    have e := sigma_getElem (p2 := p2) hp k hkn
    rw [getD_eq_getElem _ k hk1, getD_eq_getElem _ k hk2, hid _ (hp.getElem_lt k hk1)] at e
    exact e

/-- **lower bound**: no sequence of transpositions from `p` to `p2` is shorter than `n − cycles` -/
theorem lower_bound {p2 : List Nat} {n : Nat} (h2 : IsPerm p2 n) : ∀ (ss : List (Nat × Nat))
    (p : List Nat), IsPerm p n → (∀ s ∈ ss, s.1 < n ∧ s.2 < n) → applySwaps p ss = p2 →
    n - numCycles (sigma p p2) n ≤ ss.length := by
  intro ss
  induction ss with
  | nil =>
    intro p hp _ h
    simp only [applySwaps, List.foldl_nil] at h
    subst h
    rw [numCycles_id _ n (fun v _ => sigma_self hp v)]
    simp
  | cons s rest ih =>
    intro p hp hs h
    have hs1 := hs s (by simp)
    have hp' := isPerm_swapAt hp s hs1.1 hs1.2
    have hrest := ih (swapAt p s) hp' (fun t ht => hs t (by simp [ht])) (by simpa [applySwaps] using h)
    have hl := hp.length
    have hu : p.getD s.1 0 < n := by
      rw [getD_eq_getElem p s.1 (by omega)]; exact hp.getElem_lt _ _
    have hw : p.getD s.2 0 < n := by
      rw [getD_eq_getElem p s.2 (by omega)]; exact hp.getElem_lt _ _
    have hf := permN_sigma hp h2
    have hcmp := cls_comp_sw_le hf hu hw
    rw [← numCycles_eq_cls hf, ← numCycles_eq_cls (hf.comp_sw hu hw),
      ← sigma_swapAt hp s hs1.1 hs1.2] at hcmp
    simp only [List.length_cons]
    omega

/-- **upper bound**, constructively: `n − cycles` transpositions suffice -/
theorem upper_bound {p2 : List Nat} {n : Nat} (h2 : IsPerm p2 n) : ∀ (d : Nat) (p : List Nat),
    IsPerm p n → n - numCycles (sigma p p2) n = d →
    ∃ ss : List (Nat × Nat), ss.length = d ∧ (∀ s ∈ ss, IsTransp n s) ∧ applySwaps p ss = p2 := by
  intro d
  induction d with
  | zero =>
    intro p hp hd
    have hle := numCycles_le (sigma p p2) n
    have := eq_of_numCycles_eq hp h2 (by omega)
    exact ⟨[], rfl, by simp, by simpa [applySwaps] using this⟩
  | succ d ih =>
    intro p hp hd
    have hl := hp.length
    have hl2 := h2.length
    -- some position is wrong
    have hex : ∃ i, i < n ∧ p.getD i 0 ≠ p2.getD i 0 := by
      apply Classical.byContradiction
      intro hc
      have : p = p2 := by
        apply List.ext_getElem
        · omega
        · intro k hk1 hk2
          have : p.getD k 0 = p2.getD k 0 := by
            apply Classical.byContradiction
            intro hne; exact hc ⟨k, by omega, hne⟩
          rwa [getD_eq_getElem _ k hk1, getD_eq_getElem _ k hk2] at this
      subst this
      rw [numCycles_id _ n (fun v _ => sigma_self hp v)] at hd
      omega
    obtain ⟨i, hi, hne⟩ := hex
    -- bring the right value to position i
    have hwn : p2.getD i 0 < n := by
      rw [getD_eq_getElem p2 i (by omega)]; exact h2.getElem_lt _ _
    have hwm : p2.getD i 0 ∈ p := (hp.mem_iff _).mpr hwn
    have hj := List.idxOf_lt_length_of_mem hwm
    have hpj : p.getD (p.idxOf (p2.getD i 0)) 0 = p2.getD i 0 := by
      rw [getD_eq_getElem _ _ hj]; exact List.getElem_idxOf hj
    have hji : i ≠ p.idxOf (p2.getD i 0) := by
      intro e; rw [← e] at hpj; exact hne hpj
    have hs1 : i < n ∧ p.idxOf (p2.getD i 0) < n := ⟨hi, by omega⟩
    have hp' := isPerm_swapAt hp (i, p.idxOf (p2.getD i 0)) hs1.1 hs1.2
    have hu : p.getD i 0 < n := by
      rw [getD_eq_getElem p i (by omega)]; exact hp.getElem_lt _ _
    have hf := permN_sigma hp h2
    have hsplit := cls_split hf hu hwn (sigma_getElem (p2 := p2) hp i hi) hne
    rw [← numCycles_eq_cls hf, ← numCycles_eq_cls (hf.comp_sw hu hwn)] at hsplit
    have hsig := sigma_swapAt (p2 := p2) hp (i, p.idxOf (p2.getD i 0)) hs1.1 hs1.2
    simp only [hpj] at hsig
    rw [← hsig] at hsplit
    have hle := numCycles_le (sigma (swapAt p (i, p.idxOf (p2.getD i 0))) p2) n
    obtain ⟨ss, hlen, htr, happ⟩ := ih _ hp' (by omega)
    refine ⟨(i, p.idxOf (p2.getD i 0)) :: ss, by simp [hlen], ?_, by simpa [applySwaps] using happ⟩
    intro s hs
    rcases List.mem_cons.mp hs with e | e
    · subst e; exact ⟨hs1.1, hs1.2, hji⟩
    · exact htr s e

theorem swapAt_swapAt {p : List Nat} {n : Nat} (hp : IsPerm p n) (s : Nat × Nat) (ha : s.1 < n)
    (hb : s.2 < n) : swapAt (swapAt p s) s = p := by
  have hl := hp.length
  have hp' := isPerm_swapAt hp s ha hb
  have hu : p.getD s.1 0 < n := by
    rw [getD_eq_getElem p s.1 (by omega)]; exact hp.getElem_lt _ _
  have hw : p.getD s.2 0 < n := by
    rw [getD_eq_getElem p s.2 (by omega)]; exact hp.getElem_lt _ _
  have e := swapAt_eq_map hp s ha hb
  have e' := swapAt_eq_map hp' s ha hb
  -- the values at the two positions are exchanged
  have g1 : (swapAt p s).getD s.1 0 = p.getD s.2 0 := by
    rw [getD_eq_getElem _ _ (by rw [swapAt_length]; omega)]
    simp only [e, List.getElem_map]
    rw [← getD_eq_getElem p s.1 (by omega)]
    unfold sw; simp
  have g2 : (swapAt p s).getD s.2 0 = p.getD s.1 0 := by
    rw [getD_eq_getElem _ _ (by rw [swapAt_length]; omega)]
    simp only [e, List.getElem_map]
    rw [← getD_eq_getElem p s.2 (by omega)]
    unfold sw
    by_cases h : p.getD s.2 0 = p.getD s.1 0 <;> simp
  rw [e', g1, g2, e, List.map_map]
  conv => rhs; rw [← List.map_id p]
  apply List.map_congr_left
  intro v _
  simp only [Function.comp]
  have : sw (p.getD s.2 0) (p.getD s.1 0) = sw (p.getD s.1 0) (p.getD s.2 0) := by
    funext x; unfold sw
    by_cases h1 : x = p.getD s.1 0 <;> by_cases h2 : x = p.getD s.2 0 <;> simp_all
  rw [this, sw_sw]; rfl

theorem applySwaps_reverse {n : Nat} : ∀ (ss : List (Nat × Nat)) (p q : List Nat), IsPerm p n →
    (∀ s ∈ ss, s.1 < n ∧ s.2 < n) → applySwaps p ss = q → applySwaps q ss.reverse = p := by
  intro ss
  induction ss with
  | nil => intro p q _ _ h; simpa [applySwaps] using h.symm
  | cons s rest ih =>
    intro p q hp hs h
    have hs1 := hs s (by simp)
    have hp' := isPerm_swapAt hp s hs1.1 hs1.2
    have := ih (swapAt p s) q hp' (fun t ht => hs t (by simp [ht])) (by simpa [applySwaps] using h)
    simp only [applySwaps, List.reverse_cons, List.foldl_append, List.foldl_cons, List.foldl_nil]
    simp only [applySwaps] at this
    rw [this]
    exact swapAt_swapAt hp s hs1.1 hs1.2

end Order1d
