/-! Small core-only list lemmas used by several proofs. -/
namespace ListLemmas

theorem perm_sum_int {l₁ l₂ : List Int} (h : l₁.Perm l₂) : l₁.sum = l₂.sum := by
  induction h with
  | nil => simp
  | cons _ _ ih => simp [ih]
  | swap => simp [List.sum_cons]; omega
  | trans _ _ ih₁ ih₂ => simp [ih₁, ih₂]

theorem sum_map_le {α} (l : List α) (f g : α → Int) (h : ∀ a ∈ l, f a ≤ g a) :
    (l.map f).sum ≤ (l.map g).sum := by
  induction l with
  | nil => simp
  | cons a t ih =>
    simp only [List.map_cons, List.sum_cons]
    have h1 := h a (by simp)
    have h2 := ih (fun b hb => h b (by simp [hb]))
    omega

theorem sum_map_perm {α} {l₁ l₂ : List α} (f : α → Int) (h : l₁.Perm l₂) :
    (l₁.map f).sum = (l₂.map f).sum := perm_sum_int (h.map f)

theorem sum_map_nonneg {α} (l : List α) (f : α → Int) (h : ∀ a ∈ l, 0 ≤ f a) :
    0 ≤ (l.map f).sum := by
  induction l with
  | nil => simp
  | cons a t ih =>
    simp only [List.map_cons, List.sum_cons]
    have h1 := h a (by simp)
    have h2 := ih (fun b hb => h b (by simp [hb]))
    omega

end ListLemmas
