import Proofs.GameEncTeam
/-!
Helper lemmas for C15, part 5: every team plays `(n-1)*rounds` games; the docstring's fairness rule.
-/
namespace GameEnc

theorem countP_add_congr {α} (l : List α) (p q p' q' : α → Bool)
    (h : ∀ x ∈ l, (if p x = true then 1 else 0) + (if q x = true then 1 else 0)
      = (if p' x = true then 1 else 0) + (if q' x = true then (1 : Nat) else 0)) :
    l.countP p + l.countP q = l.countP p' + l.countP q' := by
  induction l with
  | nil => simp
  | cons a r ih =>
    have := ih (fun x hx => h x (by simp [hx]))
    have := h a (by simp)
    simp only [List.countP_cons]
    omega

theorem sum_range_add_congr (f g f' g' : Nat → Nat) (n : Nat) (h : ∀ i < n, f i + g i = f' i + g' i) :
    ((List.range n).map f).sum + ((List.range n).map g).sum
      = ((List.range n).map f').sum + ((List.range n).map g').sum := by
  induction n with
  | zero => simp
  | succ k ih =>
    have := ih (fun i hi => h i (by omega))
    have := h k (by omega)
    simp only [sum_range_succ]
    omega

theorem tri_add_congr (n : Nat) (P Q P' Q' : Nat → Nat → Bool)
    (h : ∀ i < n, ∀ j < i, (if P i j = true then 1 else 0) + (if Q i j = true then 1 else 0)
      = (if P' i j = true then 1 else 0) + (if Q' i j = true then (1 : Nat) else 0)) :
    tri n P + tri n Q = tri n P' + tri n Q' := by
  unfold tri
  apply sum_range_add_congr
  intro i hi
  apply countP_add_congr
  intro j hj
  exact h i hi j (List.mem_range.mp hj)

theorem triX_eq (t n : Nat) (h : t < n) : triX t n = t := by
  unfold triX tri
  rw [sum_range_congr _ (fun i => if i = t then i else 0) n, sum_range_dirac]
  · simp [h]
  · intro i _
    by_cases hit : i = t
    · subst hit; simp
    · simp [hit]

theorem sum_range_gt (t n : Nat) :
    ((List.range n).map (fun i => if t < i then 1 else 0)).sum = n - 1 - t := by
  induction n with
  | zero => simp
  | succ k ih =>
    rw [sum_range_succ, ih]
    split <;> omega

theorem triY_eq (t n : Nat) : triY t n = n - 1 - t := by
  unfold triY tri
  rw [sum_range_congr _ (fun i => if t < i then 1 else 0) n, sum_range_gt]
  intro i _
  have := countP_range_dirac t i (fun _ => true)
  simp only [Bool.and_true, and_true] at this
  rw [← this]
  apply countP_range_congr
  intro j _
  rw [Bool.eq_iff_iff]; simp

/-- every team plays `(n - 1) * rounds` games -/
theorem pure_home_add_away (n rounds t : Nat) (h : t < n) :
    homeCount n (pureGames n rounds) t + awayCount n (pureGames n rounds) t = rounds * (n - 1) := by
  rw [pure_home, pure_away]
  have : ∀ r < rounds,
      tri n (fun i j => (if orient rounds r i j = true then i else j) == t)
        + tri n (fun i j => (if orient rounds r i j = true then j else i) == t) = (n - 1) + 0 := by
    intro r _
    have e := tri_add_congr n (fun i j => (if orient rounds r i j = true then i else j) == t)
      (fun i j => (if orient rounds r i j = true then j else i) == t) (fun i _ => i == t) (fun _ j => j == t)
      (by intro i _ j _; cases orient rounds r i j <;> simp <;> omega)
    have hx := triX_eq t n h
    have hy := triY_eq t n
    unfold triX at hx
    unfold triY at hy
    omega
  have := sum_range_add_congr _ _ (fun _ => n - 1) (fun _ => 0) rounds this
  rw [this, sum_range_const, sum_range_const]
  simp

theorem pure_home_spread (n rounds t u : Nat) (ht : t < n) (hu : u < n) :
    homeCount n (pureGames n rounds) t ≤ homeCount n (pureGames n rounds) u + 1 := by
  have h1 := pure_home_add_away n rounds t ht
  have h2 := pure_home_add_away n rounds u hu
  have b1 := pure_team_balance n rounds t
  have b2 := pure_team_balance n rounds u
  omega

end GameEnc
