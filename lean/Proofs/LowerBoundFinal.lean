import Proofs.LowerBoundMain
import Proofs.LowerBoundCut
/-! C03 helper lemmas, part 4: squares per bin, transposition, sorting, the maximum over `q`. -/
namespace Pack
namespace LB

/-! ### distributing the squares over the bins -/

theorem filter_or_perm {α} (l : List α) (p q r : α → Bool)
    (h : ∀ a, r a = (p a || q a)) (hd : ∀ a, p a = true → q a = true → False) :
    (l.filter r).Perm (l.filter p ++ l.filter q) := by
  induction l with
  | nil => simp
  | cons x t ih =>
    simp only [List.filter_cons, h x]
    by_cases hp : p x = true
    · have hq : q x = false := by
        cases hqx : q x with
        | false => rfl
        | true => exact absurd hqx (fun hq => hd x hp hq)
      simp [hp, hq]; exact ih
    · by_cases hq : q x = true
      · simp [hp, hq]
        exact (List.Perm.cons x ih).trans List.perm_middle.symm
      · simp [hp, hq]; exact ih

/-- the rows of bin `j+1` -/
def bucket (P : List Row) (j : Nat) : List Row := P.filter (fun a => a.bin = (j : Int) + 1)

theorem perm_buckets_aux (P : List Row) (h : ∀ a ∈ P, 1 ≤ a.bin) (m : Nat) :
    (P.filter (fun a => decide (a.bin ≤ (m : Int)))).Perm ((List.range m).map (bucket P)).flatten := by
  induction m with
  | zero =>
    simp only [List.range_zero, List.map_nil, List.flatten_nil]
    rw [List.filter_eq_nil_iff.mpr]
    intro a ha
    have := h a ha
    simp; omega
  | succ m ih =>
    rw [List.range_succ, List.map_append, List.flatten_append]
    simp only [List.map_cons, List.map_nil, List.flatten_cons, List.flatten_nil, List.append_nil]
    have := filter_or_perm P (fun a => decide (a.bin ≤ (m : Int))) (fun a => decide (a.bin = (m : Int) + 1))
      (fun a => decide (a.bin ≤ ((m + 1 : Nat) : Int)))
      (by intro a; rw [← Bool.decide_or]; apply decide_eq_decide.mpr; push_cast; omega)
      (by intro a h1 h2; simp at h1 h2; omega)
    exact this.trans (List.Perm.append_right _ ih)

theorem perm_buckets (P : List Row) (m : Nat) (h : ∀ a ∈ P, 1 ≤ a.bin ∧ a.bin ≤ (m : Int)) :
    P.Perm ((List.range m).map (bucket P)).flatten := by
  have := perm_buckets_aux P (fun a ha => (h a ha).1) m
  rwa [List.filter_eq_self.mpr (by intro a ha; simpa using (h a ha).2)] at this

theorem bucket_binSquares {W H k : Int} {P : List Row} (hP : SqPacking W H k P) (j : Nat) :
    BinSquares W H (bucket P j) := by
  have hm : ∀ a ∈ bucket P j, a ∈ P ∧ a.bin = (j : Int) + 1 := by
    intro a ha
    have := List.mem_filter.mp ha
    exact ⟨this.1, by simpa using this.2⟩
  refine ⟨fun a ha => hP.square a (hm a ha).1, fun a ha => hP.pos a (hm a ha).1,
    fun a ha => hP.inside a (hm a ha).1, ?_⟩
  have h1 := hP.disj.filter (fun a => decide (a.bin = (j : Int) + 1))
  apply List.Pairwise.imp_of_mem _ h1
  intro a c ha hc hac
  have ha' := (hm a ha).2
  have hc' := (hm c hc).2
  exact hac (by omega)

/-- **`__lb_q` never exceeds the number of bins of a placement of the squares** (frame `H ≤ W`) -/
theorem lbQ_le_of_sqPacking (W H q k : Int) (hH : 1 ≤ H) (hHW : H ≤ W) (hqH : 2 * q ≤ H)
    (hk : 0 ≤ k) (P : List Row) (hP : SqPacking W H k P)
    (sq : List Int) (hs : sq.Pairwise (· ≥ ·)) (hp : sq.Perm (P.map Row.side)) :
    lbQ W H q sq ≤ k := by
  let Ls : List (List Int) := (List.range k.toNat).map (fun j => (bucket P j).map Row.side)
  have hlen : (Ls.length : Int) = k := by simp [Ls]; omega
  have hL : ∀ L ∈ Ls, BinOK W H q L := by
    intro L hLm
    obtain ⟨j, _, rfl⟩ := List.mem_map.mp hLm
    exact binOK_of_squares hH hHW hqH _ (bucket_binSquares hP j)
  have hperm : sq.Perm Ls.flatten := by
    have h1 := perm_buckets P k.toNat (by intro a ha; have := hP.bins a ha; omega)
    have h2 := h1.map Row.side
    rw [List.map_flatten, List.map_map] at h2
    exact hp.trans h2
  have := lbQ_le_of_bins W H q hH hHW hqH Ls hL sq hs hperm
  omega

/-! ### transposition (the orientation swap of `_lower_bound_damv`) -/

def transpose (a : Row) : Row := ⟨a.id, a.bin, a.b, a.l, a.t, a.r⟩

theorem sqPacking_transpose {W H k : Int} {P : List Row} (hP : SqPacking W H k P) :
    SqPacking H W k (P.map transpose) ∧ (P.map transpose).map Row.side = P.map Row.side := by
  constructor
  · refine ⟨?_, ?_, ?_, ?_, ?_⟩
    · intro x hx; obtain ⟨a, ha, rfl⟩ := List.mem_map.mp hx
      have := hP.square a ha; simp only [transpose]; omega
    · intro x hx; obtain ⟨a, ha, rfl⟩ := List.mem_map.mp hx
      have := hP.square a ha; have := hP.pos a ha; simp only [transpose]; omega
    · intro x hx; obtain ⟨a, ha, rfl⟩ := List.mem_map.mp hx
      have := hP.inside a ha; simp only [transpose]; omega
    · intro x hx; obtain ⟨a, ha, rfl⟩ := List.mem_map.mp hx
      exact hP.bins a ha
    · rw [List.pairwise_map]
      apply hP.disj.imp
      intro a c h hb
      have := h hb
      unfold Row.Disjoint at this ⊢
      simp only [transpose]
      omega
  · rw [List.map_map]
    apply List.map_congr_left
    intro a ha
    have := hP.square a ha
    simp only [Function.comp, transpose, Row.side]; omega

/-! ### sorting -/

theorem insertDesc_perm (x : Int) (l : List Int) : (insertDesc x l).Perm (x :: l) := by
  induction l with
  | nil => simp [insertDesc]
  | cons y ys ih =>
    simp only [insertDesc]
    split
    · exact List.Perm.refl _
    · exact (List.Perm.cons y ih).trans (List.Perm.swap x y ys)

theorem insertDesc_sorted (x : Int) (l : List Int) (h : l.Pairwise (· ≥ ·)) :
    (insertDesc x l).Pairwise (· ≥ ·) := by
  induction l with
  | nil => simp [insertDesc]
  | cons y ys ih =>
    have hp := List.pairwise_cons.mp h
    simp only [insertDesc]
    split
    · rename_i hxy
      apply List.pairwise_cons.mpr
      refine ⟨?_, h⟩
      intro z hz
      rcases List.mem_cons.mp hz with rfl | hz
      · exact hxy
      · have := hp.1 z hz; omega
    · rename_i hxy
      apply List.pairwise_cons.mpr
      refine ⟨?_, ih hp.2⟩
      intro z hz
      rcases List.mem_cons.mp ((insertDesc_perm x ys).mem_iff.mp hz) with rfl | hz
      · omega
      · exact hp.1 z hz

theorem sortDesc_perm (l : List Int) : (sortDesc l).Perm l := by
  induction l with
  | nil => exact List.Perm.refl _
  | cons x t ih =>
    show (insertDesc x (sortDesc t)).Perm (x :: t)
    exact (insertDesc_perm x _).trans (List.Perm.cons x ih)

theorem sortDesc_sorted (l : List Int) : (sortDesc l).Pairwise (· ≥ ·) := by
  induction l with
  | nil => exact List.Pairwise.nil
  | cons x t ih => exact insertDesc_sorted x _ ih

/-! ### the maximum over `q` -/

theorem foldl_max_le (l : List Int) (init k : Int) (hi : init ≤ k) (h : ∀ x ∈ l, x ≤ k) :
    l.foldl max init ≤ k := by
  induction l generalizing init with
  | nil => simpa
  | cons x t ih =>
    simp only [List.foldl_cons]
    apply ih
    · have := h x (by simp); omega
    · intro y hy; exact h y (by simp [hy])

theorem maxOf_le (l : List Int) (k : Int) (hk : 0 ≤ k) (h : ∀ x ∈ l, x ≤ k) : maxOf l ≤ k := by
  unfold maxOf
  apply foldl_max_le _ _ _ _ h
  cases l with
  | nil => simpa
  | cons x t => simpa using h x (by simp)

theorem mem_qRange {H q : Int} (h : q ∈ qRange H) : 0 ≤ q ∧ 2 * q ≤ H := by
  unfold qRange at h
  obtain ⟨n, hn, rfl⟩ := List.mem_map.mp h
  have := List.mem_range.mp hn
  omega

end LB
end Pack
