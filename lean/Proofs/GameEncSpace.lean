import Proofs.GameEncSpread
/-!
Helper lemmas for C15, part 6: code range, length, the sorted blueprint is a permutation of the
explicit list, and the exact acceptance condition of `search_space_for_n_and_rounds`.
-/
namespace GameEnc

theorem pure_codes (n rounds : Nat) : CodesValid n (pureGames n rounds) := by
  intro g hg
  unfold pureGames roundGames at hg
  simp only [List.mem_flatMap, List.mem_map, List.mem_range] at hg
  obtain ⟨r, _, i, hi, j, hj, rfl⟩ := hg
  unfold gcode
  split
  · exact enc_range n i j hi (by omega) (by omega)
  · exact enc_range n j i (by omega) hi (by omega)

theorem sum_range_id (n : Nat) : ((List.range n).map (fun i => i)).sum * 2 = n * (n - 1) := by
  induction n with
  | zero => simp
  | succ k ih =>
    rw [sum_range_succ, Nat.add_mul, ih]
    cases k with
    | zero => simp
    | succ m =>
      simp only [Nat.add_sub_cancel]
      rw [Nat.mul_comm (m + 1 + 1) (m + 1), Nat.mul_succ (m + 1) (m + 1), Nat.mul_succ (m + 1) m]
      omega

theorem pure_length (n rounds : Nat) : (pureGames n rounds).length * 2 = rounds * (n * (n - 1)) := by
  unfold pureGames roundGames
  rw [List.length_flatMap]
  have : ∀ r < rounds, ((List.range n).flatMap fun i => (List.range i).map
      fun j => gcode n (orient rounds r i j) i j).length = ((List.range n).map (fun i => i)).sum := by
    intro r _
    rw [List.length_flatMap]
    simp
  rw [sum_range_congr _ _ rounds this, sum_range_const, Nat.mul_assoc, sum_range_id]

/-- the blueprint is a permutation of the explicit list -/
theorem sorted_perm (n rounds : Nat) (hn : 2 ≤ n) :
    (sortInts (rawGames n rounds)).Perm (pureGames n rounds) := by
  unfold sortInts
  rw [← rawGames_eq n rounds hn]
  exact List.mergeSort_perm _ _

theorem searchSpace?_some (n rounds : Nat) (bp : List Int) (h : searchSpace? n rounds = some bp) :
    2 ≤ n ∧ n ≤ 100000 ∧ bp = sortInts (rawGames n rounds) ∧ bp.Perm (pureGames n rounds) := by
  unfold searchSpace? at h
  split at h
  · simp at h
  · rename_i hn
    have hn2 : 2 ≤ n := by omega
    split at h
    · simp at h
    · rename_i a rest heq
      split at h
      · simp at h
      · simp only [Option.some.injEq] at h
        subst h
        refine ⟨hn2, by omega, heq.symm, ?_⟩
        rw [← heq]
        exact sorted_perm n rounds hn2

/-- a list whose elements all equal `a` satisfies a predicate everywhere or nowhere -/
theorem countP_all_eq (l : List Int) (a : Int) (P : Int → Bool) (h : ∀ x ∈ l, x = a) (hpos : 0 < l.countP P) :
    P a = true := by
  obtain ⟨x, hx, hp⟩ := List.countP_pos_iff.mp hpos
  rw [← h x hx]; exact hp

/-- the acceptance condition of `search_space_for_n_and_rounds` -/
theorem searchSpace?_isSome (n rounds : Nat) (hn : 2 ≤ n) (hn' : n ≤ 100000) (hr : 1 ≤ rounds)
    (hne : ¬ (n = 2 ∧ rounds = 1)) : searchSpace? n rounds = some (sortInts (rawGames n rounds)) := by
  have hperm := sorted_perm n rounds hn
  unfold searchSpace?
  rw [if_neg (by omega)]
  split
  · rename_i heq
    have := hperm.length_eq
    rw [heq] at this
    have hl := pure_length n rounds
    rw [← this] at hl
    have hpos : 0 < rounds * (n * (n - 1)) :=
      Nat.mul_pos (by omega) (Nat.mul_pos (by omega) (by omega))
    simp only [List.length_nil] at hl
    omega
  · rename_i a rest heq
    rw [heq] at hperm
    split
    · rename_i hall
      exfalso
      have hall' : ∀ x ∈ a :: rest, x = a := by
        intro x hx
        rcases List.mem_cons.mp hx with h | h
        · exact h
        · have := List.all_eq_true.mp hall x h
          simpa using this
      by_cases h3 : 3 ≤ n
      · have c1 := pure_pairs n rounds 1 0 (by omega) (by omega)
        have c2 := pure_pairs n rounds 2 0 (by omega) (by omega)
        rw [← hperm.countP_eq] at c1 c2
        have p1 := countP_all_eq _ a _ hall' (by omega : 0 < (a :: rest).countP (IsPairing n 1 0))
        have p2 := countP_all_eq _ a _ hall' (by omega : 0 < (a :: rest).countP (IsPairing n 2 0))
        simp only [IsPairing, IsGame, Bool.or_eq_true, Bool.and_eq_true, beq_iff_eq] at p1 p2
        omega
      · have hn2 : n = 2 := by omega
        subst hn2
        obtain ⟨x, hx, c1, c2⟩ := pure_pair_counts 2 rounds 1 0 (by omega) (by omega)
        rw [← hperm.countP_eq] at c1 c2
        have hr2 : 2 ≤ rounds := by omega
        have p1 := countP_all_eq _ a _ hall' (by omega : 0 < (a :: rest).countP (IsGame 2 1 0))
        have p2 := countP_all_eq _ a _ hall' (by omega : 0 < (a :: rest).countP (IsGame 2 0 1))
        simp only [IsGame, Bool.and_eq_true, beq_iff_eq] at p1 p2
        omega
    · rw [heq]

theorem searchSpace?_none_small (n rounds : Nat) (h : n < 2 ∨ 100000 < n ∨ rounds = 0 ∨ (n = 2 ∧ rounds = 1)) :
    searchSpace? n rounds = none := by
  unfold searchSpace?
  split
  · rfl
  · rename_i hn
    have hn2 : 2 ≤ n := by omega
    have hperm := sorted_perm n rounds hn2
    have hl := pure_length n rounds
    rw [← hperm.length_eq] at hl
    split
    · rfl
    · rename_i a rest heq
      rw [heq] at hl
      rcases h with h | h | h | h
      · omega
      · omega
      · subst h; simp at hl
      · obtain ⟨rfl, rfl⟩ := h
        simp at hl
        have : rest = [] := List.eq_nil_of_length_eq_zero (by omega)
        subst this
        simp

end GameEnc
