import Proofs.GameEncSchedule
import Proofs.GameEncCount
namespace GameEnc

theorem countP_le_one_unique {α} (l : List α) (p : α → Bool) (h : l.countP p ≤ 1)
    (x y : α) (hx : x ∈ l) (px : p x = true) (hy : y ∈ l) (py : p y = true) : x = y := by
  induction l with
  | nil => cases hx
  | cons a r ih =>
    rw [List.countP_cons] at h
    rcases List.mem_cons.mp hx with rfl | hx' <;> rcases List.mem_cons.mp hy with rfl | hy'
    · rfl
    · have : 0 < r.countP p := List.countP_pos_iff.mpr ⟨y, hy', py⟩
      simp only [px, if_true] at h; omega
    · have : 0 < r.countP p := List.countP_pos_iff.mpr ⟨x, hx', px⟩
      simp only [py, if_true] at h; omega
    · exact ih (by omega) hx' hy'

/-- the first slot of `(d, t)` is *the* slot of `(d, t)` -/
theorem find_of_mem (S : List Slot) (days n : Nat) (ok : SlotsOK S days n) (s : Slot) (hs : s ∈ S) (t : Nat)
    (ht : s.has t = true) : S.find? (fun s' => s'.day == s.day && s'.has t) = some s := by
  have hsome : (S.find? (fun s' => s'.day == s.day && s'.has t)).isSome = true :=
    List.find?_isSome.mpr ⟨s, hs, by simp [ht]⟩
  obtain ⟨s0, h0⟩ := Option.isSome_iff_exists.mp hsome
  have p0 := List.find?_some h0
  have m0 := List.mem_of_find?_eq_some h0
  rw [h0, countP_le_one_unique S _ (ok.2 s.day t) s0 s m0 p0 hs (by simp [ht])]

theorem cell_home_iff (S : List Slot) (days n : Nat) (ok : SlotsOK S days n) (d h a : Nat) :
    cellOf S d h = (a : Int) + 1 ↔ { day := d, home := h, away := a } ∈ S := by
  constructor
  · intro hc
    unfold cellOf at hc
    cases hf : S.find? (fun s => s.day == d && s.has h) with
    | none => rw [hf] at hc; simp only [] at hc; omega
    | some s =>
      rw [hf] at hc
      simp only [] at hc
      have p := List.find?_some hf
      have m := List.mem_of_find?_eq_some hf
      simp only [Bool.and_eq_true, beq_iff_eq] at p
      split at hc
      · rename_i hh
        have : s = { day := d, home := h, away := a } := by
          cases s; simp only [Slot.mk.injEq] at *; omega
        rw [← this]; exact m
      · omega
  · intro hm
    have := find_of_mem S days n ok _ hm h (by simp [Slot.has])
    unfold cellOf
    simp only [] at this
    rw [this]
    simp

theorem cell_away_iff (S : List Slot) (days n : Nat) (ok : SlotsOK S days n) (d h a : Nat) :
    cellOf S d a = -((h : Int) + 1) ↔ { day := d, home := h, away := a } ∈ S := by
  constructor
  · intro hc
    unfold cellOf at hc
    cases hf : S.find? (fun s => s.day == d && s.has a) with
    | none => rw [hf] at hc; simp only [] at hc; omega
    | some s =>
      rw [hf] at hc
      simp only [] at hc
      have p := List.find?_some hf
      have m := List.mem_of_find?_eq_some hf
      simp only [Slot.has, Bool.and_eq_true, beq_iff_eq, Bool.or_eq_true] at p
      split at hc
      · omega
      · rename_i hh
        have : s = { day := d, home := h, away := a } := by
          cases s; simp only [Slot.mk.injEq] at *; omega
        rw [← this]; exact m
  · intro hm
    have hne := (ok.1 _ hm).2.2.2
    have := find_of_mem S days n ok _ hm a (by simp [Slot.has])
    unfold cellOf
    simp only [] at this hne
    rw [this]
    simp [hne]

theorem renders_consistent (y : Plan) (S : List Slot) (days n : Nat) (hr : Renders y S days n)
    (ok : SlotsOK S days n) : Consistent y days n := by
  intro d hd h hh a ha
  rw [hr.2 d hd h hh, hr.2 d hd a ha, cell_home_iff S days n ok, cell_away_iff S days n ok]

theorem renders_noSelfPlay (y : Plan) (S : List Slot) (days n : Nat) (hr : Renders y S days n)
    (ok : SlotsOK S days n) : NoSelfPlay y days n := by
  intro d hd t ht
  rw [hr.2 d hd t ht]
  constructor
  · intro h
    have := (ok.1 _ ((cell_home_iff S days n ok d t t).mp h)).2.2.2
    simp at this
  · intro h
    have := (ok.1 _ ((cell_away_iff S days n ok d t t).mp h)).2.2.2
    simp at this

theorem renders_inRange (y : Plan) (S : List Slot) (days n : Nat) (hr : Renders y S days n)
    (ok : SlotsOK S days n) : InRange y days n := by
  intro d hd t ht
  rw [hr.2 d hd t ht]
  unfold cellOf
  cases hf : S.find? (fun s => s.day == d && s.has t) with
  | none => simp only []; omega
  | some s =>
    have := ok.1 s (List.mem_of_find?_eq_some hf)
    simp only []
    split <;> omega

theorem renders_oncePerDay (y : Plan) (S : List Slot) (days n : Nat) (hr : Renders y S days n)
    (ok : SlotsOK S days n) : OncePerDay y days n := by
  intro d hd t ht u hu v hv h
  simp only [Bool.and_eq_true, refs, Bool.or_eq_true, beq_iff_eq] at h
  rw [hr.2 d hd u hu, hr.2 d hd v hv] at h
  obtain ⟨h1, h2⟩ := h
  -- each reference to `t` is a slot of `(d, t)`; there is only one such slot
  have key : ∀ w, (cellOf S d w = (t : Int) + 1 ∨ cellOf S d w = -((t : Int) + 1)) →
      ∃ s ∈ S, s.day = d ∧ s.has t = true ∧ (s.home = w ∨ s.away = w) ∧ (s.home = t ∨ s.away = t) ∧
        (s.home = w → s.away = t) ∧ (s.away = w → s.home = t) := by
    intro w hw
    rcases hw with hw | hw
    · exact ⟨_, (cell_home_iff S days n ok d w t).mp hw, rfl, by simp [Slot.has], Or.inl rfl, Or.inr rfl,
        fun _ => rfl, fun h => h.symm⟩
    · exact ⟨_, (cell_away_iff S days n ok d t w).mp hw, rfl, by simp [Slot.has], Or.inr rfl, Or.inl rfl,
        fun h => h.symm, fun _ => rfl⟩
  obtain ⟨s1, m1, d1, t1, w1, _, a1, b1⟩ := key u h1
  obtain ⟨s2, m2, d2, t2, w2, _, a2, b2⟩ := key v h2
  have := countP_le_one_unique S _ (ok.2 d t) s1 s2 m1 (by simp [d1, t1]) m2 (by simp [d2, t2])
  subst this
  have hne := (ok.1 _ m1).2.2.2
  simp only [Slot.has, Bool.or_eq_true, beq_iff_eq] at t1
  omega

/-- the days on which `h` hosts `a` are at most as many as the slots `(·, h, a)` -/
theorem days_le_slots (S : List Slot) (days h a : Nat) :
    (List.range days).countP (fun d => decide ({ day := d, home := h, away := a } ∈ S))
      ≤ S.countP (fun s => s.home == h && s.away == a) := by
  induction S with
  | nil => simp
  | cons s r ih =>
    have hsplit : (List.range days).countP (fun d => decide ({ day := d, home := h, away := a } ∈ s :: r))
        ≤ (List.range days).countP (fun d => decide (d = s.day) && (s.home == h && s.away == a))
          + (List.range days).countP (fun d => decide ({ day := d, home := h, away := a } ∈ r)) := by
      generalize List.range days = l
      induction l with
      | nil => simp
      | cons d l ihl =>
        simp only [List.countP_cons]
        have : (if decide ({ day := d, home := h, away := a } ∈ s :: r) = true then 1 else 0)
            ≤ (if (decide (d = s.day) && (s.home == h && s.away == a)) = true then 1 else 0)
              + (if decide ({ day := d, home := h, away := a } ∈ r) = true then 1 else 0) := by
          by_cases hm : ({ day := d, home := h, away := a } : Slot) ∈ r
          · simp [hm]
          · by_cases he : ({ day := d, home := h, away := a } : Slot) = s
            · subst he; simp
            · have : ¬ ({ day := d, home := h, away := a } : Slot) ∈ s :: r := by
                simp [he, hm]
              simp [this]
        omega
    rw [countP_range_dirac] at hsplit
    rw [List.countP_cons]
    have : (if (s.day < days ∧ (s.home == h && s.away == a) = true) then 1 else 0)
        ≤ (if (s.home == h && s.away == a) = true then 1 else 0) := by
      split <;> split <;> simp_all
    omega

theorem renders_notMoreOften (n days : Nat) (x : List Int) (y : Plan) (S : List Slot)
    (he : EarliestSlot n days x S) (hr : Renders y S days n) (ok : SlotsOK S days n) :
    NotMoreOften n days x y := by
  intro h hh a _
  unfold timesScheduled
  have : (List.range days).countP (fun d => entry y d h == (a : Int) + 1)
      = (List.range days).countP (fun d => decide ({ day := d, home := h, away := a } ∈ S)) := by
    apply countP_range_congr
    intro d hd
    rw [hr.2 d hd h hh, Bool.eq_iff_iff]
    simp only [beq_iff_eq, decide_eq_true_eq]
    exact cell_home_iff S days n ok d h a
  rw [this]
  exact Nat.le_trans (days_le_slots S days h a) (earliest_count n days x S he h a)

end GameEnc
