import Model.Fom
/-!
Helper lemmas for C11 (`Props/C11.lean`): what the loop of `evaluate` does to the buffer and
the collection lists, the invariant of reachable objects, and the simulation of the object
(`Fom.step`) by the documented machine (`Fom.astep`).  Core tactics only.
-/
namespace Fom

variable {V R X E : Type}

theorem setAt?_append (pre suf : List V) (a v : V) :
    setAt? (pre ++ a :: suf) pre.length v = some (pre ++ v :: suf) := by
  induction pre with
  | nil => rfl
  | cons h t ih => simp [setAt?, ih]

theorem setAt?_length : ∀ (l : List V) (i : Nat) (v : V) (l' : List V),
    setAt? l i v = some l' → l'.length = l.length := by
  intro l
  induction l with
  | nil => intro i v l' h; simp [setAt?] at h
  | cons h t ih =>
    intro i v l' hs
    cases i with
    | zero => simp [setAt?] at hs; subst hs; rfl
    | succ i =>
      simp only [setAt?, Option.map_eq_some_iff] at hs
      obtain ⟨t', ht', rfl⟩ := hs
      simp [ih i v t' ht']

/-- What the loop over the training cases `i, …, i+k-1` does, when the buffer has exactly one
slot per case: every slot it reads later has been overwritten; it stops at the first
out-of-range value; it appends the batches of the cases before that one iff `coll`. -/
theorem loop_spec (env : Env V R X E) (e : E) (x : X) (coll : Bool) :
    ∀ (k i : Nat) (pre suf : List V) (sc df : Option (List (List R))),
      pre.length = i → suf.length = k →
      (coll = true → sc.isSome = true ∧ df.isSome = true) →
      ((loop env e x coll i k ⟨pre ++ suf, sc, df⟩).1 =
          if (List.range' i k).all (fun j => env.ok (env.J e x j)) then .done else .failed) ∧
      (loop env e x coll i k ⟨pre ++ suf, sc, df⟩).2.sc =
          (if coll then sc.map (· ++ ((List.range' i k).takeWhile
              (fun j => env.ok (env.J e x j))).map (fun j => (env.diff e x j).1)) else sc) ∧
      (loop env e x coll i k ⟨pre ++ suf, sc, df⟩).2.df =
          (if coll then df.map (· ++ ((List.range' i k).takeWhile
              (fun j => env.ok (env.J e x j))).map (fun j => (env.diff e x j).2)) else df) ∧
      (loop env e x coll i k ⟨pre ++ suf, sc, df⟩).2.res.length = (pre ++ suf).length ∧
      ((List.range' i k).all (fun j => env.ok (env.J e x j)) = true →
        (loop env e x coll i k ⟨pre ++ suf, sc, df⟩).2.res
          = pre ++ (List.range' i k).map (env.J e x)) := by
  intro k
  induction k with
  | zero =>
    intro i pre suf sc df hp hs hc
    have : suf = [] := List.eq_nil_of_length_eq_zero hs
    subst this
    cases coll <;> cases sc <;> cases df <;> simp [loop]
  | succ k ih =>
    intro i pre suf sc df hp hs hc
    cases suf with
    | nil => simp at hs
    | cons a suf =>
      have hs' : suf.length = k := by simpa using hs
      have hset : setAt? (pre ++ a :: suf) i (env.J e x i) = some (pre ++ env.J e x i :: suf) := by
        rw [← hp]; exact setAt?_append pre suf a _
      have hpre : (pre ++ [env.J e x i]).length = i + 1 := by simp [hp]
      have happ : pre ++ env.J e x i :: suf = (pre ++ [env.J e x i]) ++ suf := by simp
      rw [List.range'_succ]
      by_cases hok : env.ok (env.J e x i) = true
      · -- the case is in range: continue
        cases coll with
        | false =>
          have := ih (i + 1) (pre ++ [env.J e x i]) suf sc df hpre hs' (by simp)
          simp only [loop, hset, hok, happ, List.all_cons, Bool.true_and, List.takeWhile_cons,
            List.map_cons] at this ⊢
          simpa using this
        | true =>
          obtain ⟨h1, h2⟩ := hc rfl
          obtain ⟨l, rfl⟩ := Option.isSome_iff_exists.mp h1
          obtain ⟨d, rfl⟩ := Option.isSome_iff_exists.mp h2
          have := ih (i + 1) (pre ++ [env.J e x i]) suf
            (some (l ++ [(env.diff e x i).1])) (some (d ++ [(env.diff e x i).2])) hpre hs' (by simp)
          simp only [loop, hset, hok, happ, List.all_cons, Bool.true_and, List.takeWhile_cons,
            List.map_cons] at this ⊢
          simpa using this
      · -- out of range: early return, nothing appended, later slots untouched
        have hok' : env.ok (env.J e x i) = false := by simpa using hok
        cases coll <;> cases sc <;> cases df <;>
          simp [loop, hset, hok']

/-- The invariant of every object reachable from the constructor: one buffer slot per training
case, both collection lists exist or neither, collecting only when they exist, and they hold
the same number of arrays. -/
structure WF (env : Env V R X E) (s : St V R E) : Prop where
  len : s.results.length = env.n
  both : s.sc.isSome = s.df.isSome
  coll : s.collect = true → s.sc.isSome = true
  lens : (s.sc.getD []).length = (s.df.getD []).length

theorem init_WF (env : Env V R X E) (sup : Bool) (g : List V) (hg : g.length = env.n) :
    WF env (init env sup g) := by
  cases sup <;> constructor <;> simp [init, hg]

/-- `evaluate` on a well-formed object: the value is the documented one — a function of the
current equations and `x` only —, and the only other effect is that the batches of the cases
before the first failing one are appended iff `__collect`. -/
theorem evaluate_spec (env : Env V R X E) (s : St V R E) (x : X) (h : WF env s) :
    (evaluate env s x).2 = .value (specValue env s.eq x) ∧
    (evaluate env s x).1.eq = s.eq ∧
    (evaluate env s x).1.collect = s.collect ∧
    (evaluate env s x).1.results.length = env.n ∧
    (evaluate env s x).1.sc = (if s.collect then s.sc.map
        (· ++ (goodCases env s.eq x).map (fun j => (env.diff s.eq x j).1)) else s.sc) ∧
    (evaluate env s x).1.df = (if s.collect then s.df.map
        (· ++ (goodCases env s.eq x).map (fun j => (env.diff s.eq x j).2)) else s.df) := by
  have hc : s.collect = true → s.sc.isSome = true ∧ s.df.isSome = true := by
    intro hc; have := h.coll hc; exact ⟨this, by rw [← h.both]; exact this⟩
  obtain ⟨h1, h2, h3, h4, h5⟩ :=
    loop_spec env s.eq x s.collect env.n 0 [] s.results s.sc s.df rfl h.len hc
  simp only [List.nil_append] at h1 h2 h3 h4 h5
  unfold evaluate specValue caseValues goodCases
  rw [List.range_eq_range']
  cases hL : loop env s.eq x s.collect 0 env.n ⟨s.results, s.sc, s.df⟩ with
  | mk st a =>
    rw [hL] at h1 h2 h3 h4 h5
    simp only at h1 h2 h3 h4 h5
    by_cases hall : (List.range' 0 env.n).all (fun j => env.ok (env.J s.eq x j)) = true
    · have hres := h5 hall
      have hst : st = .done := by simpa [hall] using h1
      subst hst
      have hall' : (List.map (env.J s.eq x) (List.range' 0 env.n)).all env.ok = true := by
        simpa [List.all_map] using hall
      refine ⟨?_, rfl, rfl, ?_, h2, h3⟩
      · simp only [hall', if_true]; rw [hres]
      · simp [h4, h.len]
    · have hst : st = .failed := by simpa [hall] using h1
      subst hst
      have hall' : ¬ (List.map (env.J s.eq x) (List.range' 0 env.n)).all env.ok = true := by
        simpa [List.all_map] using hall
      refine ⟨?_, rfl, rfl, ?_, h2, h3⟩
      · simp only [hall']; rfl
      · simp [h4, h.len]

/-- The object `s` implements the state `a` of the documented machine. -/
structure Rel (env : Env V R X E) (sup : Bool) (s : St V R E) (a : Abs R E) : Prop where
  wf : WF env s
  sup_sc : s.sc.isSome = sup
  mode : match a.model with
         | none => s.eq = env.raw ∧ s.collect = sup
         | some m => s.eq = m ∧ s.collect = false ∧ sup = true
  sc : dataSc s = a.sc
  df : dataDf s = a.df
  any : a.any = !(s.sc.getD []).isEmpty

theorem init_Rel (env : Env V R X E) (sup : Bool) (g : List V) (hg : g.length = env.n) :
    Rel env sup (init env sup g) ainit := by
  refine ⟨init_WF env sup g hg, ?_, ?_, ?_, ?_, ?_⟩ <;> cases sup <;>
    simp [init, ainit, dataSc, dataDf]

theorem Rel_evaluate (env : Env V R X E) (sup : Bool) (s : St V R E) (a : Abs R E) (x : X)
    (h : Rel env sup s a) :
    Rel env sup (evaluate env s x).1 (astep env sup a (.evaluate x)).1 ∧
    (evaluate env s x).2 = (astep env sup a (.evaluate x)).2 := by
  obtain ⟨hv, he, hc, hl, hsc, hdf⟩ := evaluate_spec env s x h.wf
  obtain ⟨⟨wl, wb, wc, wn⟩, hsup, hmode, hdsc, hddf, hany⟩ := h
  have heq : a.model.getD env.raw = s.eq := by
    cases hm : a.model <;> simp [hm] at hmode ⊢ <;> simp [hmode]
  have hrec : (sup && a.model.isNone) = s.collect := by
    cases hm : a.model <;> simp [hm] at hmode ⊢ <;> simp [hmode]
  refine ⟨?_, ?_⟩
  · simp only [astep, heq, hrec]
    cases hcoll : s.collect with
    | false =>
      simp only [hcoll, Bool.false_eq_true, if_false] at hsc hdf ⊢
      refine ⟨⟨hl, by rw [hsc, hdf]; exact wb, by rw [hc, hcoll]; simp, by rw [hsc, hdf]; exact wn⟩,
        by rw [hsc]; exact hsup, ?_, ?_, ?_, ?_⟩
      · cases hm : a.model <;> simp [hm] at hmode ⊢ <;> simp [he, hc, hmode]
      · simp only [dataSc, hsc]; exact hdsc
      · simp only [dataDf, hdf]; exact hddf
      · rw [hsc]; exact hany
    | true =>
      simp only [hcoll, if_true] at hsc hdf ⊢
      have hs1 : s.sc.isSome = true := wc hcoll
      have hs2 : s.df.isSome = true := by rw [← wb]; exact hs1
      obtain ⟨l, hl'⟩ := Option.isSome_iff_exists.mp hs1
      obtain ⟨d, hd'⟩ := Option.isSome_iff_exists.mp hs2
      rw [hl'] at hsc; rw [hd'] at hdf
      simp only [Option.map_some] at hsc hdf
      simp only [hl', hd', Option.getD_some] at wn
      refine ⟨⟨hl, by rw [hsc, hdf]; rfl, by intro _; rw [hsc]; rfl,
          by rw [hsc, hdf]; simp [wn]⟩, by rw [hsc, ← hsup, hl']; rfl, ?_, ?_, ?_, ?_⟩
      · cases hm : a.model <;> simp [hm] at hmode ⊢ <;> simp [he, hc, hmode]
      · simp only [dataSc, hsc, Option.getD_some, List.flatten_append]
        simp only [dataSc, hl', Option.getD_some] at hdsc
        rw [hdsc]
      · simp only [dataDf, hdf, Option.getD_some, List.flatten_append]
        simp only [dataDf, hd', Option.getD_some] at hddf
        rw [hddf]
      · simp only [hsc, Option.getD_some, hany, hl']
        cases l <;> cases goodCases env s.eq x <;> simp
  · rw [hv]; simp [astep, heq]

theorem Rel_initialise (env : Env V R X E) (sup : Bool) (s : St V R E) (a : Abs R E)
    (h : Rel env sup s a) : Rel env sup (initialise env s) ainit := by
  obtain ⟨⟨wl, wb, wc, wn⟩, hsup, -, -, -, -⟩ := h
  cases hs : s.sc <;> cases hd : s.df <;> simp [hs, hd] at wb hsup wn ⊢ <;>
    subst hsup <;>
    refine ⟨⟨?_, ?_, ?_, ?_⟩, ?_, ?_, ?_, ?_, ?_⟩ <;>
    simp [initialise, setRaw, ainit, dataSc, dataDf, hs, hd, wl]

theorem Rel_setRaw (env : Env V R X E) (sup : Bool) (s : St V R E) (a : Abs R E)
    (h : Rel env sup s a) : Rel env sup (setRaw env s) { a with model := none } := by
  obtain ⟨⟨wl, wb, wc, wn⟩, hsup, -, hsc, hdf, hany⟩ := h
  exact ⟨⟨wl, wb, fun h => h, wn⟩, hsup, ⟨rfl, hsup⟩, hsc, hdf, hany⟩

theorem Rel_setModel (env : Env V R X E) (sup : Bool) (s : St V R E) (a : Abs R E) (m : E)
    (h : Rel env sup s a) :
    Rel env sup (setModel s m).1 (astep (V := V) (X := X) env sup a (.setModel m)).1 ∧
    (setModel (V := V) s m).2 = (astep env sup a (.setModel m)).2 := by
  have h0 := h
  obtain ⟨⟨wl, wb, wc, wn⟩, hsup, hmode, hsc, hdf, hany⟩ := h
  cases hs : s.sc with
  | none =>
    have : sup = false := by rw [← hsup, hs]; rfl
    subst this
    simp only [setModel, hs, astep]
    exact ⟨h0, rfl⟩
  | some l =>
    have : sup = true := by rw [← hsup, hs]; rfl
    subst this
    simp only [setModel, hs, astep, if_true]
    refine ⟨⟨⟨wl, ?_, ?_, ?_⟩, ?_, ?_, ?_, ?_, ?_⟩, trivial⟩
    · simpa [hs] using wb
    · intro hh; simp at hh
    · simpa [hs] using wn
    · simp
    · exact ⟨rfl, rfl, rfl⟩
    · simpa [dataSc, hs] using hsc
    · simpa [dataDf] using hdf
    · simpa [hs] using hany

theorem Rel_getDifferentials (env : Env V R X E) (sup : Bool) (s : St V R E) (a : Abs R E)
    (h : Rel env sup s a) :
    Rel env sup (getDifferentials s).1 a ∧
    (getDifferentials (V := V) s).2
      = (astep (V := V) (X := X) env sup a .getDifferentials).2 := by
  have h0 := h
  obtain ⟨⟨wl, wb, wc, wn⟩, hsup, hmode, hsc, hdf, hany⟩ := h
  cases hs : s.sc with
  | none =>
    have : sup = false := by rw [← hsup, hs]; rfl
    subst this
    simp only [getDifferentials, hs, astep]
    exact ⟨h0, by simp⟩
  | some l =>
    have hsupt : sup = true := by rw [← hsup, hs]; rfl
    subst hsupt
    have hd2 : s.df.isSome = true := by rw [← wb, hs]; rfl
    obtain ⟨d, hd⟩ := Option.isSome_iff_exists.mp hd2
    simp only [hs, hd, Option.getD_some] at wn hany
    simp only [dataSc, hs, Option.getD_some] at hsc
    simp only [dataDf, hd, Option.getD_some] at hdf
    match l, d, wn with
    | [], [], _ =>
      simp only [getDifferentials, hs, astep, hany]
      exact ⟨h0, by simp⟩
    | [b], [c], _ =>
      simp only [getDifferentials, hs, hd, astep, hany]
      refine ⟨h0, ?_⟩
      simp at hsc hdf
      simp [hsc, hdf]
    | b1 :: b2 :: l', c1 :: c2 :: d', hlen =>
      simp only [getDifferentials, hs, hd, astep, hany]
      refine ⟨⟨⟨wl, ?_, ?_, ?_⟩, ?_, ?_, ?_, ?_, ?_⟩, ?_⟩
      · simp
      · simp
      · simp
      · simp
      · simpa using hmode
      · simpa [dataSc] using hsc
      · simpa [dataDf] using hdf
      · simpa using hany
      · simp [hsc, hdf]

/-- One method call: the object and the documented machine return the same thing and stay
related. -/
theorem Rel_step (env : Env V R X E) (sup : Bool) (s : St V R E) (a : Abs R E) (op : Op X E)
    (h : Rel env sup s a) :
    Rel env sup (step env s op).1 (astep env sup a op).1 ∧
    (step env s op).2 = (astep env sup a op).2 := by
  cases op with
  | evaluate x => exact Rel_evaluate env sup s a x h
  | initialise => exact ⟨Rel_initialise env sup s a h, rfl⟩
  | setRaw => exact ⟨Rel_setRaw env sup s a h, rfl⟩
  | setModel m => exact Rel_setModel env sup s a m h
  | getDifferentials =>
    have ha : (astep (V := V) env sup a (.getDifferentials : Op X E)).1 = a := by
      simp only [astep]; split <;> rfl
    rw [ha]
    exact Rel_getDifferentials env sup s a h

theorem Rel_run (env : Env V R X E) (sup : Bool) (ops : List (Op X E)) :
    ∀ (s : St V R E) (a : Abs R E), Rel env sup s a →
      Rel env sup (run env s ops) (arun env sup a ops) ∧
      outputs env s ops = aoutputs env sup a ops := by
  induction ops with
  | nil => intro s a h; exact ⟨h, rfl⟩
  | cons op ops ih =>
    intro s a h
    obtain ⟨h1, h2⟩ := Rel_step env sup s a op h
    obtain ⟨h3, h4⟩ := ih _ _ h1
    exact ⟨h3, by simp only [outputs, aoutputs, h2, h4]⟩

end Fom
