import Proofs.Area
/-! The trivial upper bound of 2D bin packing: putting every single item into a bin of its own
is a feasible packing with `nItems` bins, for every instance the constructor accepts. -/
namespace Pack

/-- item `it` (id `id`) placed in the lower-left corner of bin `bin`, rotated iff it does not fit
unrotated -/
def place (I : Inst) (it : Item) (id bin : Int) : Row :=
  if it.w ≤ I.W ∧ it.h ≤ I.H then ⟨id, bin, 0, 0, it.w, it.h⟩ else ⟨id, bin, 0, 0, it.h, it.w⟩

/-- items `its` get the ids `id, id+1, …`; bins are numbered consecutively starting at `bin` -/
def onePerBin (I : Inst) : Int → Int → List Item → List Row
  | _, _, [] => []
  | id, bin, it :: rest =>
    (List.range it.rep.toNat).map (fun (j : Nat) => place I it id (bin + (j : Int)))
      ++ onePerBin I (id + 1) (bin + it.rep) rest

@[simp] theorem place_id (I : Inst) (it : Item) (id bin : Int) : (place I it id bin).id = id := by
  unfold place; split <;> rfl

@[simp] theorem place_bin (I : Inst) (it : Item) (id bin : Int) :
    (place I it id bin).bin = bin := by
  unfold place; split <;> rfl

theorem place_hasDims (I : Inst) (it : Item) (id bin : Int) : (place I it id bin).HasDims it := by
  unfold place Row.HasDims; split <;> simp

/-- an item of a valid instance fits into the bin in one of the two orientations -/
def Fits (I : Inst) (it : Item) : Prop :=
  (it.w ≤ I.W ∧ it.h ≤ I.H) ∨ (it.h ≤ I.W ∧ it.w ≤ I.H)

theorem place_inside (I : Inst) (it : Item) (id bin : Int) (hf : Fits I it) :
    0 ≤ (place I it id bin).l ∧ 0 ≤ (place I it id bin).b ∧
      (place I it id bin).r ≤ I.W ∧ (place I it id bin).t ≤ I.H := by
  unfold Fits at hf
  unfold place; split <;> simp <;> omega

theorem fits_of_valid (I : Inst) (hv : I.Valid) (it : Item) (h : it ∈ I.items) : Fits I it := by
  obtain ⟨hW, _, hH, _, _, _, hitems, _⟩ := hv
  have := hitems it h
  unfold Inst.maxDim Inst.minDim at this
  unfold Fits
  omega

theorem onePerBin_length (I : Inst) (its : List Item) (hrep : ∀ it ∈ its, 0 ≤ it.rep)
    (id bin : Int) : ((onePerBin I id bin its).length : Int) = (its.map (·.rep)).sum := by
  induction its generalizing id bin with
  | nil => simp [onePerBin]
  | cons it rest ih =>
    have h0 := hrep it (by simp)
    have := ih (fun b hb => hrep b (by simp [hb])) (id + 1) (bin + it.rep)
    simp only [onePerBin, List.length_append, List.length_map, List.length_range, List.map_cons,
      List.sum_cons]
    push_cast
    omega

theorem onePerBin_bin_range (I : Inst) (its : List Item) (hrep : ∀ it ∈ its, 0 ≤ it.rep)
    (id bin : Int) :
    ∀ a ∈ onePerBin I id bin its, bin ≤ a.bin ∧ a.bin < bin + (its.map (·.rep)).sum := by
  induction its generalizing id bin with
  | nil => simp [onePerBin]
  | cons it rest ih =>
    have h0 := hrep it (by simp)
    have hs := ListLemmas.sum_map_nonneg rest (·.rep) (fun b hb => hrep b (by simp [hb]))
    have ih' := ih (fun b hb => hrep b (by simp [hb])) (id + 1) (bin + it.rep)
    intro a ha
    simp only [onePerBin, List.mem_append, List.mem_map, List.mem_range] at ha
    simp only [List.map_cons, List.sum_cons]
    rcases ha with ⟨j, hj, rfl⟩ | ha
    · simp only [place_bin]; omega
    · have := ih' a ha; omega

theorem onePerBin_pairwise (I : Inst) (its : List Item) (hrep : ∀ it ∈ its, 0 ≤ it.rep)
    (id bin : Int) : (onePerBin I id bin its).Pairwise (fun a c => a.bin < c.bin) := by
  induction its generalizing id bin with
  | nil => simp [onePerBin]
  | cons it rest ih =>
    have h0 := hrep it (by simp)
    have hrest : ∀ b ∈ rest, 0 ≤ b.rep := fun b hb => hrep b (by simp [hb])
    simp only [onePerBin, List.pairwise_append, List.pairwise_map, place_bin]
    refine ⟨?_, ih hrest _ _, ?_⟩
    · have : (List.range it.rep.toNat).Pairwise (fun a b => a < b) := List.pairwise_lt_range
      exact this.imp (by intro a b h; omega)
    · intro a ha c hc
      simp only [List.mem_map, List.mem_range] at ha
      obtain ⟨j, hj, rfl⟩ := ha
      have := onePerBin_bin_range I rest hrest _ _ c hc
      simp only [place_bin]; omega

theorem onePerBin_surj (I : Inst) (its : List Item) (hrep : ∀ it ∈ its, 0 ≤ it.rep)
    (id bin : Int) (j : Nat) (hj : (j : Int) < (its.map (·.rep)).sum) :
    ∃ a ∈ onePerBin I id bin its, a.bin = bin + j := by
  induction its generalizing id bin j with
  | nil => simp at hj; omega
  | cons it rest ih =>
    have h0 := hrep it (by simp)
    have hrest : ∀ b ∈ rest, 0 ≤ b.rep := fun b hb => hrep b (by simp [hb])
    simp only [List.map_cons, List.sum_cons] at hj
    by_cases hlt : (j : Int) < it.rep
    · refine ⟨place I it id (bin + j), ?_, by simp⟩
      simp only [onePerBin, List.mem_append, List.mem_map, List.mem_range]
      exact Or.inl ⟨j, by omega, rfl⟩
    · obtain ⟨a, ha, hb⟩ := ih hrest (id + 1) (bin + it.rep) (j - it.rep.toNat) (by omega)
      refine ⟨a, ?_, by omega⟩
      simp only [onePerBin, List.mem_append]
      exact Or.inr ha

/-- every row is the placement of the item at some position `p`, carrying the id `id + p` -/
theorem onePerBin_mem (I : Inst) (its : List Item) (id bin : Int) :
    ∀ a ∈ onePerBin I id bin its, ∃ (p : Nat) (it : Item), its[p]? = some it ∧
      a = place I it (id + p) a.bin := by
  induction its generalizing id bin with
  | nil => simp [onePerBin]
  | cons it rest ih =>
    intro a ha
    simp only [onePerBin, List.mem_append, List.mem_map, List.mem_range] at ha
    rcases ha with ⟨j, hj, rfl⟩ | ha
    · exact ⟨0, it, by simp, by simp⟩
    · obtain ⟨p, it', h1, h2⟩ := ih (id + 1) (bin + it.rep) a ha
      refine ⟨p + 1, it', by simpa using h1, ?_⟩
      rw [h2]; simp only [place_bin]; congr 1; push_cast; omega

theorem onePerBin_id_ge (I : Inst) (its : List Item) (id bin : Int) :
    ∀ a ∈ onePerBin I id bin its, id ≤ a.id := by
  intro a ha
  obtain ⟨p, it, _, h⟩ := onePerBin_mem I its id bin a ha
  rw [h]; simp

theorem onePerBin_count (I : Inst) (its : List Item) (hrep : ∀ it ∈ its, 0 ≤ it.rep)
    (id bin : Int) (p : Nat) (hp : p < its.length) :
    (((onePerBin I id bin its).filter (fun a => a.id = id + (p : Int))).length : Int)
      = (its.getD p default).rep := by
  induction its generalizing id bin p with
  | nil => simp at hp
  | cons it rest ih =>
    have h0 := hrep it (by simp)
    have hrest : ∀ b ∈ rest, 0 ≤ b.rep := fun b hb => hrep b (by simp [hb])
    simp only [onePerBin, List.filter_append, List.length_append]
    cases p with
    | zero =>
      have h1 : ((List.range it.rep.toNat).map (fun (j : Nat) => place I it id (bin + (j : Int)))).filter
          (fun a => a.id = id + ((0 : Nat) : Int)) =
          (List.range it.rep.toNat).map (fun (j : Nat) => place I it id (bin + (j : Int))) := by
        apply List.filter_eq_self.mpr
        intro a ha
        simp only [List.mem_map] at ha
        obtain ⟨j, _, rfl⟩ := ha
        simp
      have h2 : (onePerBin I (id + 1) (bin + it.rep) rest).filter
          (fun a => a.id = id + ((0 : Nat) : Int)) = [] := by
        apply List.filter_eq_nil_iff.mpr
        intro a ha
        have := onePerBin_id_ge I rest _ _ a ha
        simp; omega
      rw [h1, h2]
      simp
      omega
    | succ p =>
      have h1 : ((List.range it.rep.toNat).map (fun (j : Nat) => place I it id (bin + (j : Int)))).filter
          (fun a => a.id = id + ((p + 1 : Nat) : Int)) = [] := by
        apply List.filter_eq_nil_iff.mpr
        intro a ha
        simp only [List.mem_map] at ha
        obtain ⟨j, _, rfl⟩ := ha
        simp; omega
      have h2 := ih hrest (id + 1) (bin + it.rep) p (by simpa using hp)
      have h3 : (fun a : Row => decide (a.id = id + ((p + 1 : Nat) : Int)))
          = (fun a : Row => decide (a.id = id + 1 + (p : Int))) := by
        funext a; congr 1; push_cast; apply propext; constructor <;> intro h <;> omega
      rw [h1, h3]
      simp only [List.length_nil, zero_add, List.getD_cons_succ]
      simpa using h2

/-- **trivial upper bound**: one bin per item is a feasible packing with `nItems` bins -/
theorem exists_onePerBin (I : Inst) (hv : I.Valid) : ∃ rows : List Row, Feasible I rows I.nItems := by
  have hitems := hv.2.2.2.2.2.2.1
  have hrep : ∀ it ∈ I.items, 0 ≤ it.rep := fun it h => by
    have := (hitems it h).2.2.2.2.1; omega
  refine ⟨onePerBin I 1 1 I.items, ?_, ?_, ?_, ?_, ?_, ?_, ?_⟩
  · exact onePerBin_length I I.items hrep 1 1
  · intro a ha
    obtain ⟨p, it, h1, h2⟩ := onePerBin_mem I I.items 1 1 a ha
    refine ⟨it, ?_, by rw [h2]; exact place_hasDims _ _ _ _⟩
    have hid : a.id = 1 + (p : Int) := by rw [h2]; simp
    unfold Inst.item?
    rw [hid, if_neg (by omega)]
    have : (1 + (p : Int) - 1).toNat = p := by omega
    rw [this]; exact h1
  · intro a ha
    obtain ⟨p, it, h1, h2⟩ := onePerBin_mem I I.items 1 1 a ha
    rw [h2]
    exact place_inside I it _ _ (fits_of_valid I hv it (List.mem_of_getElem? h1))
  · intro i hi
    have hi' : i < I.items.length := by simpa [Inst.nTypes] using hi
    have := onePerBin_count I I.items hrep 1 1 i hi'
    have h3 : (fun a : Row => decide (a.id = (i : Int) + 1))
        = (fun a : Row => decide (a.id = 1 + (i : Int))) := by
      funext a; congr 1; apply propext; constructor <;> intro h <;> omega
    rw [h3]; exact this
  · exact (onePerBin_pairwise I I.items hrep 1 1).imp (by intro a c h1 h2; omega)
  · intro a ha
    have := onePerBin_bin_range I I.items hrep 1 1 a ha
    unfold Inst.nItems; omega
  · intro j hj
    have hj' := List.mem_range.mp hj
    have hpos := Inst.nItems_pos I hv
    obtain ⟨a, ha, hb⟩ := onePerBin_surj I I.items hrep 1 1 j (by unfold Inst.nItems at hj' hpos; omega)
    exact ⟨a, ha, by omega⟩

end Pack
