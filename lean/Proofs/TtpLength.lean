import Model.TtpLength
import Proofs.ListLemmas
/-! Helper lemmas for C08 (core tactics only). -/
namespace TtpLength
open Base Tsp ListLemmas

/-! ### accessors -/

theorem entry?_eq_some (m : List (List Int)) (i j : Nat) (hi : i < m.length)
    (hj : j < (m.getD i []).length) : entry? m i j = some (entry m i j) := by
  have hrow : m.getD i [] = m[i] := by simp [List.getD_eq_getElem?_getD, List.getElem?_eq_getElem hi]
  rw [hrow] at hj
  simp [entry?, entry, List.getElem?_eq_getElem hi, List.getD_eq_getElem?_getD,
    List.getElem?_eq_getElem hj]

theorem getD_mem (m : List (List Int)) (i : Nat) (hi : i < m.length) : m.getD i [] ∈ m := by
  have : m.getD i [] = m[i] := by simp [List.getD_eq_getElem?_getD, List.getElem?_eq_getElem hi]
  rw [this]; exact List.getElem_mem hi

theorem entry_mem (m : List (List Int)) (i j : Nat) (_hi : i < m.length)
    (hj : j < (m.getD i []).length) : entry m i j ∈ m.getD i [] := by
  have : entry m i j = (m.getD i [])[j] := by
    unfold entry
    generalize m.getD i [] = row at hj ⊢
    simp [List.getD_eq_getElem?_getD, List.getElem?_eq_getElem hj]
  rw [this]; exact List.getElem_mem hj

/-- reading column `team` day by day is the column of the specification -/
theorem map_entry_range (y : Plan) (team : Nat) :
    (List.range y.length).map (fun day => entry y day team) = column y team := by
  apply List.ext_getElem
  · simp [column]
  · intro i h1 h2
    simp at h1
    simp [column, entry, List.getD_eq_getElem?_getD, List.getElem?_eq_getElem h1]

/-! ### the day loop as a loop over the column -/

/-- the day loop on the list of values it reads -/
def colLoop (d : Matrix) (pen : Int) (team : Nat) : List Int → Int → Nat → Int × Nat
  | [], len, cur => (len, cur)
  | v :: rest, len, cur =>
    match nextLoc? team v with
    | none => colLoop d pen team rest (len + pen) cur
    | some nxt =>
      if cur = nxt then colLoop d pen team rest len cur
      else colLoop d pen team rest (len + entry d cur nxt) nxt

theorem dayLoop_eq_colLoop (y : Plan) (d : Matrix) (pen : Int) (team : Nat) (l : List Nat)
    (len : Int) (cur : Nat) :
    dayLoop y d pen team l len cur = colLoop d pen team (l.map fun day => entry y day team) len cur := by
  induction l generalizing len cur with
  | nil => rfl
  | cons day rest ih =>
    simp only [dayLoop, List.map_cons, colLoop]
    cases nextLoc? team (entry y day team) with
    | none => exact ih _ _
    | some nxt =>
      simp only []
      split <;> exact ih _ _

theorem nextLoc?_zero (t : Nat) : nextLoc? t 0 = none := by simp [nextLoc?]

theorem nextLoc?_ne (t : Nat) (v : Int) (h : v ≠ 0) : nextLoc? t v = some (venue t v) := by
  unfold nextLoc? venue
  split
  · rfl
  · rw [if_pos (by omega)]

/-- cost of the remaining days of a team that currently is at `s` (specification side) -/
def restCost (d : Matrix) (pen : Int) (t : Nat) (s : Nat) (col : List Int) : Int :=
  travel d (s :: ((games col).map (venue t) ++ [t])) + pen * byes col

theorem teamCost_eq_restCost (d : Matrix) (pen : Int) (t : Nat) (col : List Int) :
    teamCost d pen t col = restCost d pen t t col := rfl

theorem restCost_nil (d : Matrix) (pen : Int) (t s : Nat) : restCost d pen t s [] = leg d s t := by
  simp [restCost, games, byes, travel]

theorem restCost_bye (d : Matrix) (pen : Int) (t s : Nat) (rest : List Int) :
    restCost d pen t s (0 :: rest) = pen + restCost d pen t s rest := by
  simp only [restCost, games, byes, List.filter_cons, List.count_cons]
  simp
  rw [Int.mul_add]; omega

theorem restCost_game (d : Matrix) (pen : Int) (t s : Nat) (v : Int) (rest : List Int) (hv : v ≠ 0) :
    restCost d pen t s (v :: rest) = leg d s (venue t v) + restCost d pen t (venue t v) rest := by
  have hc : (v == 0) = false := by simp [hv]
  simp only [restCost, games, byes, List.filter_cons, List.count_cons]
  simp [hv, hc, travel]
  omega

/-- the loop over a column followed by the return leg pays exactly the specified cost -/
theorem colLoop_cost (d : Matrix) (pen : Int) (t : Nat) (col : List Int) (len : Int) (cur : Nat) :
    (let r := colLoop d pen t col len cur
     if r.2 ≠ t then r.1 + entry d r.2 t else r.1) = len + restCost d pen t cur col := by
  induction col generalizing len cur with
  | nil =>
    simp only [colLoop, restCost_nil, leg]
    split <;> simp_all
  | cons v rest ih =>
    by_cases hv : v = 0
    · subst hv
      simp only [colLoop, nextLoc?_zero, restCost_bye]
      rw [ih]; omega
    · simp only [colLoop, nextLoc?_ne t v hv, restCost_game d pen t cur v rest hv]
      split
      · rename_i h
        rw [ih, ← h]; simp [leg]
      · rename_i h
        rw [ih]; simp [leg, h]; omega

theorem teamWalk_eq (y : Plan) (d : Matrix) (pen : Int) (team : Nat) (len : Int) :
    teamWalk y d pen y.length team len = len + teamCost d pen team (column y team) := by
  unfold teamWalk
  rw [dayLoop_eq_colLoop, map_entry_range, teamCost_eq_restCost]
  exact colLoop_cost d pen team (column y team) len team

theorem teamsLoop_eq (y : Plan) (d : Matrix) (pen : Int) (l : List Nat) (len : Int) :
    teamsLoop y d pen y.length l len
      = len + (l.map fun t => teamCost d pen t (column y t)).sum := by
  induction l generalizing len with
  | nil => simp [teamsLoop]
  | cons t rest ih =>
    simp only [teamsLoop, List.map_cons, List.sum_cons]
    rw [ih, teamWalk_eq]; omega

/-! ### no access outside the arrays -/

theorem nextLoc?_lt (n team : Nat) (v : Int) (nxt : Nat) (ht : team < n) (h1 : -(n : Int) ≤ v)
    (h : nextLoc? team v = some nxt) : nxt < n := by
  unfold nextLoc? at h
  split at h
  · simp at h; omega
  · split at h
    · simp at h; omega
    · simp at h

theorem dayLoop?_noOOB (y : Plan) (d : Matrix) (pen : Int) (n team : Nat) (hd : Square d n)
    (hy : ∀ r ∈ y, r.length = n ∧ ∀ v ∈ r, -(n : Int) ≤ v ∧ v ≤ n) (ht : team < n)
    (l : List Nat) (hl : ∀ day ∈ l, day < y.length) (len : Int) (cur : Nat) (hc : cur < n) :
    dayLoop? y d pen team l len cur = some (dayLoop y d pen team l len cur)
      ∧ (dayLoop y d pen team l len cur).2 < n := by
  induction l generalizing len cur with
  | nil => exact ⟨rfl, hc⟩
  | cons day rest ih =>
    have hday : day < y.length := hl day (by simp)
    have hrest : ∀ day ∈ rest, day < y.length := fun x hx => hl x (by simp [hx])
    have hrow := hy _ (getD_mem y day hday)
    have he : entry? y day team = some (entry y day team) :=
      entry?_eq_some y day team hday (by omega)
    have hv := hrow.2 _ (entry_mem y day team hday (by omega))
    simp only [dayLoop?, he, dayLoop]
    cases hn : nextLoc? team (entry y day team) with
    | none => exact ih hrest _ _ hc
    | some nxt =>
      have hnx : nxt < n := nextLoc?_lt n team _ nxt ht hv.1 hn
      simp only []
      split
      · exact ih hrest _ _ hc
      · have hcl : cur < d.length := by rw [hd.1]; exact hc
        have hr := hd.2 _ (getD_mem d cur hcl)
        rw [entry?_eq_some d cur nxt hcl (by omega)]
        exact ih hrest _ _ hnx

theorem teamWalk?_noOOB (y : Plan) (d : Matrix) (pen : Int) (n team : Nat) (hd : Square d n)
    (hy : ∀ r ∈ y, r.length = n ∧ ∀ v ∈ r, -(n : Int) ≤ v ∧ v ≤ n) (ht : team < n) (len : Int) :
    teamWalk? y d pen y.length team len = some (teamWalk y d pen y.length team len) := by
  obtain ⟨h1, h2⟩ := dayLoop?_noOOB y d pen n team hd hy ht (List.range y.length)
    (fun day h => by simpa using h) len team ht
  simp only [teamWalk?, h1, teamWalk]
  split
  · have hcl : (dayLoop y d pen team (List.range y.length) len team).2 < d.length := by
      rw [hd.1]; exact h2
    have hr := hd.2 _ (getD_mem d _ hcl)
    rw [entry?_eq_some d _ team hcl (by omega)]
  · rfl

theorem teamsLoop?_noOOB (y : Plan) (d : Matrix) (pen : Int) (n : Nat) (hd : Square d n)
    (hy : ∀ r ∈ y, r.length = n ∧ ∀ v ∈ r, -(n : Int) ≤ v ∧ v ≤ n)
    (l : List Nat) (hl : ∀ t ∈ l, t < n) (len : Int) :
    teamsLoop? y d pen y.length l len = some (teamsLoop y d pen y.length l len) := by
  induction l generalizing len with
  | nil => rfl
  | cons t rest ih =>
    simp only [teamsLoop?, teamWalk?_noOOB y d pen n t hd hy (hl t (by simp)), teamsLoop]
    exact ih (fun x hx => hl x (by simp [hx])) _

/-! ### what the TSP constructor (which the TTP constructor calls) guarantees -/

theorem mkInstance_facts (lbG : Int) (M : Matrix) (mult : Int) (I : Tsp.Inst)
    (h : mkInstance lbG M mult = some I) :
    I.stored = M ∧ 2 ≤ M.length ∧ Square M M.length ∧ (∀ r ∈ M, ∀ v ∈ r, 0 ≤ v) := by
  unfold mkInstance at h
  simp only [] at h
  repeat' split at h
  all_goals try (simp at h; done)
  simp at h
  subst h
  simp_all [Square]
  exact ⟨by omega, by assumption⟩

/-! ### the largest entry -/

theorem foldl_max_ge (r : List Int) (a : Int) : a ≤ r.foldl max a ∧ ∀ x ∈ r, x ≤ r.foldl max a := by
  induction r generalizing a with
  | nil => simp
  | cons b t ih =>
    simp only [List.foldl_cons, List.mem_cons]
    obtain ⟨h1, h2⟩ := ih (max a b)
    refine ⟨by omega, ?_⟩
    intro x hx
    rcases hx with hx | hx
    · subst hx; omega
    · exact h2 x hx

theorem maxEntry_ge (d : Matrix) (M : Int) (h : maxEntry d = some M) :
    ∀ r ∈ d, ∀ v ∈ r, v ≤ M := by
  intro r hr v hv
  have hm : v ∈ d.flatten := List.mem_flatten.mpr ⟨r, hr, hv⟩
  unfold maxEntry at h
  split at h
  · rename_i he; rw [he] at hm; simp at hm
  · rename_i a t he
    rw [he] at hm
    simp at h
    subst h
    obtain ⟨h1, h2⟩ := foldl_max_ge t a
    rcases List.mem_cons.mp hm with hx | hx
    · subst hx; exact h1
    · exact h2 v hx

/-- total `entry` is one of the matrix entries or `0` -/
theorem entry_cases (d : Matrix) (i j : Nat) :
    entry d i j = 0 ∨ ∃ r ∈ d, entry d i j ∈ r := by
  by_cases hi : i < d.length
  · by_cases hj : j < (d.getD i []).length
    · exact Or.inr ⟨_, getD_mem d i hi, entry_mem d i j hi hj⟩
    · left
      simp [entry, List.getD_eq_getElem?_getD] at hj ⊢
      simp [List.getElem?_eq_none_iff.mpr hj]
  · left
    have : d.getD i [] = [] := by
      simp [List.getD_eq_getElem?_getD, List.getElem?_eq_none_iff.mpr (by omega : d.length ≤ i)]
    unfold entry; rw [this]; simp

theorem leg_bounds (d : Matrix) (M : Int) (hM : 0 ≤ M) (hle : ∀ r ∈ d, ∀ v ∈ r, v ≤ M)
    (hnn : ∀ r ∈ d, ∀ v ∈ r, 0 ≤ v) (a b : Nat) : 0 ≤ leg d a b ∧ leg d a b ≤ M := by
  unfold leg
  split
  · omega
  · rcases entry_cases d a b with h | ⟨r, hr, hv⟩
    · omega
    · exact ⟨hnn r hr _ hv, hle r hr _ hv⟩

theorem leg_le (d : Matrix) (M : Int) (hM : 0 ≤ M) (hle : ∀ r ∈ d, ∀ v ∈ r, v ≤ M)
    (a b : Nat) : leg d a b ≤ M := by
  unfold leg
  split
  · omega
  · rcases entry_cases d a b with h | ⟨r, hr, hv⟩
    · omega
    · exact hle r hr _ hv

/-! ### bounds of one team's cost -/

theorem natCast_succ_mul (k : Nat) (p : Int) : ((k + 1 : Nat) : Int) * p = (k : Int) * p + p := by
  rw [Int.natCast_add, Int.add_mul]; simp

/-- upper bound; only `leg ≤ M` is used (no sign assumption on the matrix) -/
theorem restCost_le (d : Matrix) (M : Int) (hM : 0 ≤ M) (hleg : ∀ a b, leg d a b ≤ M)
    (t : Nat) (col : List Int) (s : Nat) :
    restCost d (byePenalty M) t s col
      ≤ (col.length : Int) * byePenalty M + (if s = t then 0 else M) := by
  induction col generalizing s with
  | nil =>
    rw [restCost_nil]
    have := hleg s t
    unfold leg at *
    split <;> simp_all
  | cons v rest ih =>
    rw [List.length_cons, natCast_succ_mul]
    by_cases hv : v = 0
    · subst hv
      rw [restCost_bye]
      have := ih s
      omega
    · rw [restCost_game d _ t s v rest hv]
      have h1 := ih (venue t v)
      have h2 := hleg s (venue t v)
      have h3 : (if venue t v = t then (0 : Int) else M) ≤ M := by split <;> omega
      have h4 : (0 : Int) ≤ if s = t then 0 else M := by split <;> omega
      unfold byePenalty at *
      omega

theorem restCost_nonneg (d : Matrix) (pen : Int) (hp : 0 ≤ pen) (hleg : ∀ a b, 0 ≤ leg d a b)
    (t : Nat) (col : List Int) (s : Nat) : 0 ≤ restCost d pen t s col := by
  induction col generalizing s with
  | nil => rw [restCost_nil]; exact hleg s t
  | cons v rest ih =>
    by_cases hv : v = 0
    · subst hv; rw [restCost_bye]; have := ih s; omega
    · rw [restCost_game d _ t s v rest hv]
      have := ih (venue t v); have := hleg s (venue t v); omega

theorem sum_map_le_const {α} (l : List α) (f : α → Int) (c : Int) (h : ∀ a ∈ l, f a ≤ c) :
    (l.map f).sum ≤ (l.length : Int) * c := by
  induction l with
  | nil => simp
  | cons a t ih =>
    rw [List.length_cons, natCast_succ_mul]
    simp only [List.map_cons, List.sum_cons]
    have h1 := h a (by simp)
    have h2 := ih (fun b hb => h b (by simp [hb]))
    omega

theorem sum_map_const {α} (l : List α) (c : Int) : (l.map fun _ => c).sum = (l.length : Int) * c := by
  induction l with
  | nil => simp
  | cons a t ih =>
    rw [List.length_cons, natCast_succ_mul]
    simp only [List.map_cons, List.sum_cons, ih]
    omega

/-! ### replacing a game by a bye -/

/-- removing one stop `b` from an itinerary saves at most two legs -/
theorem travel_remove (d : Matrix) (M : Int) (hleg : ∀ a b, 0 ≤ leg d a b ∧ leg d a b ≤ M)
    (A : List Nat) (s b : Nat) (C : List Nat) (e : Nat) :
    travel d (s :: (A ++ b :: (C ++ [e]))) + 1
      ≤ travel d (s :: (A ++ (C ++ [e]))) + byePenalty M := by
  induction A generalizing s with
  | nil =>
    cases C with
    | nil =>
      simp only [List.nil_append, travel]
      have := hleg s e; have := hleg s b; have := hleg b e
      unfold byePenalty; omega
    | cons c C' =>
      simp only [List.nil_append, List.cons_append, travel]
      have := hleg s c; have := hleg s b; have := hleg b c
      unfold byePenalty; omega
  | cons a A' ih =>
    simp only [List.cons_append, travel]
    have := ih a
    omega

theorem games_append (a b : List Int) : games (a ++ b) = games a ++ games b := by
  simp [games]

theorem byes_append (a b : List Int) : byes (a ++ b) = byes a + byes b := by
  simp [byes]

/-- at the level of one column: a game replaced by a bye costs at least one unit more -/
theorem teamCost_bye (d : Matrix) (M : Int) (hleg : ∀ a b, 0 ≤ leg d a b ∧ leg d a b ≤ M)
    (t : Nat) (pre post : List Int) (v : Int) (hv : v ≠ 0) :
    teamCost d (byePenalty M) t (pre ++ v :: post) + 1
      ≤ teamCost d (byePenalty M) t (pre ++ 0 :: post) := by
  have hg1 : games (pre ++ v :: post) = games pre ++ v :: games post := by
    rw [games_append]; simp [games, hv]
  have hg0 : games (pre ++ 0 :: post) = games pre ++ games post := by
    rw [games_append]; simp [games]
  have hb1 : byes (pre ++ v :: post) = byes pre + byes post := by
    rw [byes_append]; simp [byes, hv]
  have hb0 : byes (pre ++ 0 :: post) = byes pre + byes post + 1 := by
    rw [byes_append]; simp [byes]; omega
  unfold teamCost itinerary
  rw [hg1, hg0, hb1, hb0]
  have key := travel_remove d M hleg ((games pre).map (venue t)) t (venue t v)
    ((games post).map (venue t)) t
  simp only [List.map_append, List.map_cons, List.append_assoc, List.cons_append] at key ⊢
  have : byePenalty M * ((byes pre + byes post + 1 : Nat) : Int)
      = byePenalty M * ((byes pre + byes post : Nat) : Int) + byePenalty M := by
    rw [Int.natCast_add, Int.mul_add]; simp
  rw [this]
  omega

/-- a list split at a valid index -/
theorem split_at (l : List Int) (k : Nat) (h : k < l.length) :
    l = l.take k ++ l[k] :: l.drop (k + 1) ∧ l.set k 0 = l.take k ++ 0 :: l.drop (k + 1) := by
  constructor
  · simp
  · rw [List.set_eq_take_append_cons_drop]; simp [h]

theorem column_setBye_other (y : Plan) (day team t : Nat) (ht : t ≠ team) :
    column (setBye y day team) t = column y t := by
  unfold column setBye
  apply List.ext_getElem
  · simp
  · intro i h1 h2
    simp at h1
    simp only [List.getElem_map, List.getElem_set]
    split
    · rename_i h
      subst h
      simp [List.getD_eq_getElem?_getD, List.getElem?_set, List.getElem?_eq_getElem h1]
      split
      · omega
      · rfl
    · rfl

theorem column_setBye_same (y : Plan) (day team : Nat) (_hd : day < y.length)
    (ht : team < (y.getD day []).length) :
    column (setBye y day team) team = (column y team).set day 0 := by
  unfold column setBye
  apply List.ext_getElem
  · simp
  · intro i h1 h2
    simp at h1
    simp only [List.getElem_map, List.getElem_set]
    split
    · generalize y.getD day [] = row at ht ⊢
      simp [List.getD_eq_getElem?_getD, ht]
    · rfl

theorem sum_map_strict {α} (l : List α) (f g : α → Int) (hle : ∀ a ∈ l, f a ≤ g a)
    (x : α) (hx : x ∈ l) (hlt : f x + 1 ≤ g x) : (l.map f).sum + 1 ≤ (l.map g).sum := by
  induction l with
  | nil => simp at hx
  | cons a t ih =>
    simp only [List.map_cons, List.sum_cons]
    rcases List.mem_cons.mp hx with h | h
    · subst h
      have := sum_map_le t f g (fun b hb => hle b (by simp [hb]))
      omega
    · have := ih (fun b hb => hle b (by simp [hb])) h
      have := hle a (by simp)
      omega

/-! ### partial sums of the accumulator -/

theorem colLoop_mono (d : Matrix) (pen : Int) (hp : 0 ≤ pen) (hnn : ∀ i j, 0 ≤ entry d i j)
    (t : Nat) (col : List Int) (len : Int) (cur : Nat) : len ≤ (colLoop d pen t col len cur).1 := by
  induction col generalizing len cur with
  | nil => simp [colLoop]
  | cons v rest ih =>
    simp only [colLoop]
    split
    · have := ih (len + pen) cur; omega
    · split
      · exact ih _ _
      · rename_i nxt _ _
        have := ih (len + entry d cur nxt) nxt; have := hnn cur nxt; omega

theorem dayPartials_bounded (y : Plan) (d : Matrix) (pen : Int) (hp : 0 ≤ pen)
    (hnn : ∀ i j, 0 ≤ entry d i j) (team : Nat) (l : List Nat) (len : Int) (cur : Nat) :
    ∀ p ∈ dayPartials y d pen team l len cur,
      len ≤ p ∧ p ≤ (dayLoop y d pen team l len cur).1 := by
  induction l generalizing len cur with
  | nil => simp [dayPartials]
  | cons day rest ih =>
    intro p hp'
    have mono : ∀ len cur, len ≤ (dayLoop y d pen team rest len cur).1 := by
      intro len cur
      rw [dayLoop_eq_colLoop]
      exact colLoop_mono d pen hp hnn team _ len cur
    simp only [dayPartials, dayLoop] at hp' ⊢
    cases hn : nextLoc? team (entry y day team) with
    | none =>
      simp only [hn] at hp' ⊢
      rcases List.mem_cons.mp hp' with h | h
      · subst h; have := mono (len + pen) cur; omega
      · have := ih (len + pen) cur p h; omega
    | some nxt =>
      simp only [hn] at hp' ⊢
      by_cases hc : cur = nxt
      · rw [if_pos hc] at hp' ⊢
        exact ih len cur p hp'
      · rw [if_neg hc] at hp' ⊢
        have h0 := hnn cur nxt
        rcases List.mem_cons.mp hp' with h | h
        · subst h; have := mono (len + entry d cur nxt) nxt; omega
        · have := ih (len + entry d cur nxt) nxt p h; omega

end TtpLength
