import Proofs.GameEncPlan
namespace GameEnc

theorem earliest_nil_inv (n days : Nat) (S : List Slot) (h : EarliestSlot n days [] S) : S = [] := by
  generalize hx : ([] : List Int) = xs at h
  cases h with
  | nil => rfl
  | placed g d _ _ _ _ _ => simp at hx
  | dropped g _ _ => simp at hx

theorem earliest_snoc_inv (n days : Nat) (x : List Int) (g : Int) (S : List Slot)
    (h : EarliestSlot n days (x ++ [g]) S) :
    (∃ S0 d, EarliestSlot n days x S0 ∧ d < days ∧ free S0 d (homeOf n g) = true ∧
        free S0 d (awayOf n g) = true ∧
        (∀ d' < d, free S0 d' (homeOf n g) = false ∨ free S0 d' (awayOf n g) = false) ∧
        S = S0 ++ [{ day := d, home := homeOf n g, away := awayOf n g }]) ∨
    (EarliestSlot n days x S ∧ ∀ d < days, free S d (homeOf n g) = false ∨ free S d (awayOf n g) = false) := by
  generalize hx : x ++ [g] = xs at h
  cases h with
  | nil => simp at hx
  | @placed x' S' g' d h' hd fh fa hmin =>
    obtain ⟨rfl, hg⟩ := List.append_inj' hx rfl
    simp only [List.cons.injEq, and_true] at hg
    subst hg
    exact Or.inl ⟨S', d, h', hd, fh, fa, hmin, rfl⟩
  | @dropped x' S' g' h' hno =>
    obtain ⟨rfl, hg⟩ := List.append_inj' hx rfl
    simp only [List.cons.injEq, and_true] at hg
    subst hg
    exact Or.inr ⟨h', hno⟩

/-- the documented rule determines the schedule -/
theorem earliest_unique (n days : Nat) (x : List Int) (S S' : List Slot)
    (h : EarliestSlot n days x S) (h' : EarliestSlot n days x S') : S = S' := by
  induction h generalizing S' with
  | nil => exact (earliest_nil_inv n days S' h').symm
  | @placed x0 S0 g d _ hd fh fa hmin ih =>
    rcases earliest_snoc_inv n days x0 g S' h' with ⟨S1, d1, e1, hd1, fh1, fa1, hmin1, rfl⟩ | ⟨e1, hno⟩
    · have := ih S1 e1
      subst this
      have : d = d1 := by
        by_cases hlt : d < d1
        · rcases hmin1 d hlt with h | h
          · rw [fh] at h; cases h
          · rw [fa] at h; cases h
        · by_cases hgt : d1 < d
          · rcases hmin d1 hgt with h | h
            · rw [fh1] at h; cases h
            · rw [fa1] at h; cases h
          · omega
      subst this; rfl
    · have := ih S' e1
      subst this
      rcases hno d hd with h | h
      · rw [fh] at h; cases h
      · rw [fa] at h; cases h
  | @dropped x0 S0 g _ hno ih =>
    rcases earliest_snoc_inv n days x0 g S' h' with ⟨S1, d1, e1, hd1, fh1, fa1, _, rfl⟩ | ⟨e1, _⟩
    · have := ih S1 e1
      subst this
      rcases hno d1 hd1 with h | h
      · rw [fh1] at h; cases h
      · rw [fa1] at h; cases h
    · exact ih S' e1

/-- `y.fill(0)` erases the prior content -/
theorem fill0_eq (y0 : Plan) (days n : Nat) (hs : Shape y0 days n) :
    fill0 y0 = List.replicate days (List.replicate n 0) := by
  unfold fill0
  have : ∀ row ∈ y0, (row.map fun _ => (0 : Int)) = List.replicate n 0 := by
    intro row hrow
    rw [List.map_const', hs.2 row hrow]
  rw [List.map_congr_left this, List.map_const', hs.1]

/-- with fewer than two teams the first game raises `ZeroDivisionError` -/
theorem gameLoop_zdiv (days n : Nat) (hn : n < 2) (g : Int) (xs : List Int) (y : Plan) :
    gameLoop days (n : Int) (g :: xs) y = .error .zdiv := by
  have : n = 0 ∨ n = 1 := by omega
  rcases this with rfl | rfl <;> simp [gameLoop, floorDiv, pyMod, bind, Except.bind]



theorem renders_eq_render (y : Plan) (S : List Slot) (days n : Nat) (hr : Renders y S days n) :
    y = render S days n := by
  apply List.ext_getElem
  · simp [render, hr.1.1]
  · intro d h1 h2
    have hd : d < days := by rw [← hr.1.1]; exact h1
    have hrow : (y[d]).length = n := hr.1.2 _ (List.getElem_mem h1)
    apply List.ext_getElem
    · simp [render, hrow]
    · intro t g1 g2
      have ht : t < n := by rw [← hrow]; exact g1
      have := hr.2 d hd t ht
      unfold entry at this
      simp only [List.getD_eq_getElem?_getD, List.getElem?_eq_getElem h1, Option.getD_some,
        List.getElem?_eq_getElem g1] at this
      simp [render, this]

theorem render_renders (S : List Slot) (days n : Nat) : Renders (render S days n) S days n := by
  refine ⟨⟨by simp [render], ?_⟩, ?_⟩
  · intro row hrow
    simp only [render, List.mem_map, List.mem_range] at hrow
    obtain ⟨d, _, rfl⟩ := hrow
    simp
  · intro d hd t ht
    simp [entry, render, List.getD_eq_getElem?_getD, hd, ht]


end GameEnc
