import Model.Base
/-! Lemmas about the storage types and `dtypeFor` (core only). -/
namespace Base

theorem wrap_range (t : DType) (v : Int) : t.lo ≤ t.wrap v ∧ t.wrap v ≤ t.hi := by
  cases t <;> simp only [DType.wrap, DType.bits, DType.lo, DType.hi] <;> (try split) <;> omega

theorem wrap_id (t : DType) (v : Int) (h1 : t.lo ≤ v) (h2 : v ≤ t.hi) : t.wrap v = v := by
  cases t <;> simp only [DType.wrap, DType.bits, DType.lo, DType.hi] at * <;> (try split) <;> omega

theorem dtypeFor_sound (lo hi : Int) (t : DType) (h : dtypeFor lo hi = some t) :
    t.lo ≤ lo ∧ hi ≤ t.hi := by
  unfold dtypeFor at h
  split at h
  · simp at h
  · simp at h
    have := List.find?_some h
    simp at this
    omega

theorem dtypeFor_complete (lo hi : Int) (h1 : lo ≤ hi) (h2 : -9223372036854775808 ≤ lo)
    (h3 : hi ≤ 9223372036854775807) : ∃ t, dtypeFor lo hi = some t := by
  unfold dtypeFor
  simp only [show ¬ (lo > hi) by omega, if_false]
  rw [← Option.isSome_iff_exists, List.find?_isSome]
  exact ⟨DType.int64, by simp [DType.all], by simp [DType.lo, DType.hi, h2, h3]⟩
end Base
