import Model.Tsplib
import Proofs.Tsp
import Proofs.TsplibPerm
import Props.C05
/-! Helper lemmas for C18 (core Lean only). -/
namespace Tsplib
open Tsp Base

/-! ## matrices -/

theorem entry_eq (m : Matrix) (a b : Nat) : entry m a b = ((m[a]?).getD []).getD b 0 := by
  simp [entry, List.getD_eq_getElem?_getD]

theorem square_ext {A B : Matrix} {n : Nat} (hA : Square A n) (hB : Square B n)
    (h : ∀ a < n, ∀ b < n, entry A a b = entry B a b) : A = B := by
  obtain ⟨hA1, hA2⟩ := hA
  obtain ⟨hB1, hB2⟩ := hB
  apply List.ext_getElem (by omega)
  intro a h1 h2
  have ra : (A[a]).length = n := hA2 _ (List.getElem_mem h1)
  have rb : (B[a]).length = n := hB2 _ (List.getElem_mem h2)
  apply List.ext_getElem (by omega)
  intro b h3 h4
  have := h a (by omega) b (by omega)
  simpa [entry_eq, List.getElem?_eq_getElem h1, List.getElem?_eq_getElem h2,
    List.getElem?_eq_getElem h3, List.getElem?_eq_getElem h4] using this

theorem square_zeros (n : Nat) : Square (zeros n) n := by
  constructor
  · simp [zeros]
  · intro r hr
    simp [zeros] at hr
    obtain ⟨_, rfl⟩ := hr
    simp

theorem entry_zeros (n a b : Nat) : entry (zeros n) a b = 0 := by
  simp only [entry_eq, zeros]
  by_cases ha : a < n
  · by_cases hb : b < n
    · simp [ha, hb]
    · simp [ha, hb]
  · simp [ha]

theorem set2?_spec {m : Matrix} {n r c : Nat} {v : Int} (hm : Square m n) (hr : r < n) (hc : c < n) :
    ∃ m', set2? m r c v = some m' ∧ Square m' n ∧
      ∀ a b, entry m' a b = if a = r ∧ b = c then v else entry m a b := by
  obtain ⟨h1, h2⟩ := hm
  have hr' : r < m.length := by omega
  have hrow : (m[r]).length = n := h2 _ (List.getElem_mem hr')
  refine ⟨m.set r ((m[r]).set c v), ?_, ⟨by simp [h1], ?_⟩, ?_⟩
  · simp [set2?, List.getElem?_eq_getElem hr', hrow, hc]
  · intro row hrow'
    rcases List.mem_or_eq_of_mem_set hrow' with h | h
    · exact h2 _ h
    · simp [h, hrow]
  · intro a b
    simp only [entry_eq, List.getElem?_set]
    by_cases har : a = r
    · subst har
      simp only [hr', if_true, true_and, Option.getD_some]
      by_cases hbc : b = c
      · subst hbc; simp [hrow, hc]
      · have : ¬ c = b := fun h => hbc h.symm
        simp [this, hbc, List.getElem?_eq_getElem hr']
    · have : ¬ r = a := fun h => har h.symm
      simp [this, har]

theorem symSet?_spec {m : Matrix} {n j i : Nat} {v : Int} (hm : Square m n) (hj : j < n) (hi : i < n)
    (hv : inInt64 v = true) :
    ∃ m', symSet? m j i v = some m' ∧ Square m' n ∧
      ∀ a b, entry m' a b = if (a = j ∧ b = i) ∨ (a = i ∧ b = j) then v else entry m a b := by
  obtain ⟨m1, h1, s1, e1⟩ := set2?_spec (v := v) hm hj hi
  obtain ⟨m2, h2, s2, e2⟩ := set2?_spec (v := v) s1 hi hj
  refine ⟨m2, by simp [symSet?, hv, h1, h2], s2, ?_⟩
  intro a b
  rw [e2, e1]
  by_cases h : a = i ∧ b = j
  · simp [h]
  · by_cases h' : a = j ∧ b = i
    · simp [h']
    · simp [h, h']

/-! ## the generic index walker -/

/-- the walker meets an abstract description: `suffix s` = the tokens still to come in state `s`,
`cov s a b` = the pair `{a, b}` has been written before state `s` -/
theorem walk_correct (guard : Bool) (next : Nat × Nat → Nat × Nat) (n : Nat) (M : Matrix)
    (hM : Square M n) (hsym : Symmetric M n) (hz : ZeroDiag M n)
    (h64 : ∀ a b, inInt64 (entry M a b) = true)
    (valid : Nat × Nat → Prop) (suffix : Nat × Nat → List Int) (cov : Nat × Nat → Nat → Nat → Prop)
    (step : ∀ s, valid s → suffix s = [] ∨
      (s.1 < n ∧ s.2 < n ∧ suffix s = entry M s.2 s.1 :: suffix (next s) ∧ valid (next s) ∧
        ∀ a < n, ∀ b < n, a ≠ b →
          (cov (next s) a b ↔ cov s a b ∨ (a = s.2 ∧ b = s.1) ∨ (a = s.1 ∧ b = s.2))))
    (fin : ∀ s, valid s → suffix s = [] → ∀ a < n, ∀ b < n, a ≠ b → cov s a b) :
    ∀ (l : List Int) (s : Nat × Nat) (res : Matrix), l = suffix s → valid s → Square res n →
      (∀ a < n, ∀ b < n, ∀ [Decidable (cov s a b)],
        entry res a b = if a ≠ b ∧ cov s a b then entry M a b else 0) →
      walk guard next res s l = some M := by
  classical
  intro l
  induction l with
  | nil =>
    intro s res hl hv hsq hinv
    simp only [walk]
    congr 1
    apply square_ext hsq hM
    intro a ha b hb
    rw [hinv a ha b hb]
    by_cases hab : a = b
    · subst hab; simp [hz a ha]
    · simp [hab, fin s hv hl.symm a ha b hb hab]
  | cons v vs ih =>
    intro s res hl hv hsq hinv
    obtain ⟨i, j⟩ := s
    rcases step (i, j) hv with h | ⟨hi, hj, hsuf, hvn, hcov⟩
    · rw [h] at hl; cases hl
    · simp only at hi hj hsuf hcov
      rw [hsuf] at hl
      obtain ⟨hv', hvs⟩ := List.cons.inj hl
      subst hv'
      simp only [walk]
      by_cases hg : (guard && i == j) = true
      · -- diagonal entry skipped
        simp only [hg, if_true]
        have hij : i = j := by simp at hg; exact hg.2
        apply ih _ _ hvs hvn hsq
        intro a ha b hb _
        rw [hinv a ha b hb]
        by_cases hab : a = b
        · simp [hab]
        · have := hcov a ha b hb hab
          have hne : ¬ ((a = j ∧ b = i) ∨ (a = i ∧ b = j)) := by
            rintro (⟨h1, h2⟩ | ⟨h1, h2⟩) <;> omega
          simp only [hab, ne_eq, not_false_eq_true, true_and]
          have hiff : cov (next (i, j)) a b ↔ cov (i, j) a b := by
            rw [this]; constructor
            · rintro (h | h | h)
              · exact h
              · exact absurd (Or.inl h) hne
              · exact absurd (Or.inr h) hne
            · exact Or.inl
          simp [hiff]
      · simp only [hg, Bool.false_eq_true, if_false]
        obtain ⟨m', hm', hsq', hent⟩ := symSet?_spec (v := entry M j i) hsq hj hi (h64 j i)
        simp only [hm']
        apply ih _ _ hvs hvn hsq'
        intro a ha b hb _
        rw [hent a b]
        by_cases hab : a = b
        · subst hab
          by_cases hw : (a = j ∧ a = i) ∨ (a = i ∧ a = j)
          · have : i = j := by rcases hw with ⟨h1, h2⟩ | ⟨h1, h2⟩ <;> omega
            subst this
            have : a = i := by rcases hw with ⟨h1, _⟩ | ⟨h1, _⟩ <;> exact h1
            subst this
            simp [hz a ha]
          · simp only [hw, if_false]
            rw [hinv a ha a hb]; simp
        · have hc := hcov a ha b hb hab
          by_cases hw : (a = j ∧ b = i) ∨ (a = i ∧ b = j)
          · have hcn : cov (next (i, j)) a b := hc.mpr (Or.inr hw)
            simp only [hw, if_true, hab, ne_eq, not_false_eq_true, true_and, hcn]
            rcases hw with ⟨h1, h2⟩ | ⟨h1, h2⟩
            · subst h1 h2; rfl
            · subst h1 h2; exact hsym _ hj _ hi
          · simp only [hw, if_false]
            rw [hinv a ha b hb]
            have hiff : cov (next (i, j)) a b ↔ cov (i, j) a b := by
              rw [hc]; constructor
              · rintro (h | h)
                · exact h
                · exact absurd h hw
              · exact Or.inl
            simp [hiff]

/-! ## the three listings as row recursions, and the walker instances -/

def rowsBy (piece : Nat → List Int → List Int) : Nat → Matrix → List Int
  | _, [] => []
  | r, row :: rest => piece r row ++ rowsBy piece (r + 1) rest

theorem mapIdx_flatten_rowsBy (piece : Nat → List Int → List Int) (M : Matrix) (k : Nat) :
    (M.mapIdx fun r row => piece (r + k) row).flatten = rowsBy piece k M := by
  induction M generalizing k with
  | nil => simp [rowsBy]
  | cons row rest ih =>
    rw [List.mapIdx_cons]
    simp only [List.flatten_cons, rowsBy, Nat.zero_add]
    congr 1
    have := ih (k + 1)
    simpa [Nat.add_assoc, Nat.add_comm 1 k] using this

theorem rowsBy_drop (piece : Nat → List Int → List Int) (M : Matrix) (j : Nat) (hj : j < M.length) :
    rowsBy piece j (M.drop j) = piece j M[j] ++ rowsBy piece (j + 1) (M.drop (j + 1)) := by
  rw [List.drop_eq_getElem_cons hj]; rfl

theorem rowsBy_drop_ge (piece : Nat → List Int → List Int) (M : Matrix) (j : Nat) (hj : M.length ≤ j) :
    rowsBy piece j (M.drop j) = [] := by
  simp [List.drop_of_length_le hj, rowsBy]

theorem getD_row {M : Matrix} {n j : Nat} (hM : Square M n) (hj : j < n) :
    ∃ h : j < M.length, M[j]? = some M[j] ∧ (M[j]).length = n := by
  obtain ⟨h1, h2⟩ := hM
  have h : j < M.length := by omega
  exact ⟨h, List.getElem?_eq_getElem h, h2 _ (List.getElem_mem h)⟩

theorem entry_getElem {M : Matrix} {j i : Nat} (hj : j < M.length) (hi : i < (M[j]).length) :
    entry M j i = (M[j])[i] := by
  simp [entry_eq, List.getElem?_eq_getElem hj, List.getElem?_eq_getElem hi]

theorem getD_ge {M : Matrix} {j : Nat} (hj : M.length ≤ j) : M[j]? = none :=
  List.getElem?_eq_none hj

def pieceUR (r : Nat) (row : List Int) : List Int := row.drop (r + 1)
def pieceLD (r : Nat) (row : List Int) : List Int := row.take (r + 1)
def pieceUD (r : Nat) (row : List Int) : List Int := row.drop r

theorem listUpperRow_eq (M : Matrix) : listUpperRow M = rowsBy pieceUR 0 M := by
  simpa [listUpperRow, pieceUR] using mapIdx_flatten_rowsBy pieceUR M 0
theorem listLowerDiag_eq (M : Matrix) : listLowerDiag M = rowsBy pieceLD 0 M := by
  simpa [listLowerDiag, pieceLD] using mapIdx_flatten_rowsBy pieceLD M 0
theorem listUpperDiag_eq (M : Matrix) : listUpperDiag M = rowsBy pieceUD 0 M := by
  simpa [listUpperDiag, pieceUD] using mapIdx_flatten_rowsBy pieceUD M 0

section walkers
variable {M : Matrix} {n : Nat} (hM : Square M n) (hsym : Symmetric M n) (hz : ZeroDiag M n)
  (h64 : ∀ a b, inInt64 (entry M a b) = true)
include hM hsym hz h64

theorem walk_upperRow : walk false (nextUR n) (zeros n) (1, 0) (listUpperRow M) = some M := by
  have hlen : M.length = n := hM.1
  let suffix : Nat × Nat → List Int := fun s =>
    ((M[s.2]?).getD []).drop s.1 ++ rowsBy pieceUR (s.2 + 1) (M.drop (s.2 + 1))
  apply walk_correct false (nextUR n) n M hM hsym hz h64
    (fun s => s.2 < s.1 ∧ (s.1 < n ∨ n ≤ s.2 + 1)) suffix
    (fun s a b => min a b < s.2 ∨ (min a b = s.2 ∧ max a b < s.1))
  · -- step
    rintro ⟨i, j⟩ ⟨hji, hv⟩
    simp only at hji hv
    by_cases hi : i < n
    · right
      have hj : j < n := by omega
      obtain ⟨hjl, hget, hrow⟩ := getD_row hM hj
      have hdrop : (M[j]).drop i = (M[j])[i] :: (M[j]).drop (i + 1) :=
        List.drop_eq_getElem_cons (by omega)
      refine ⟨hi, hj, ?_, ?_, ?_⟩
      · simp only [suffix, hget, Option.getD_some, hdrop, entry_getElem hjl (show i < (M[j]).length by omega), nextUR]
        by_cases hin : i + 1 ≥ n
        · have hj1 : j + 1 < M.length := by omega
          simp only [hin, if_true]
          rw [List.drop_of_length_le (by omega), rowsBy_drop pieceUR M (j + 1) hj1]
          obtain ⟨_, hget', _⟩ := getD_row hM (show j + 1 < n by omega)
          simp [hget', pieceUR]
        · simp only [hin, if_false, hget, Option.getD_some]
          first | rfl | (rw [hdrop]; rfl)
      · simp only [nextUR]
        by_cases hin : i + 1 ≥ n
        · simp only [hin, if_true]; omega
        · simp only [hin, if_false]; omega
      · intro a ha b hb hab
        simp only [nextUR]
        by_cases hin : i + 1 ≥ n
        · simp only [hin, if_true]; omega
        · simp only [hin, if_false]; omega
    · left
      have hj : n ≤ j + 1 := by omega
      simp only [suffix]
      rw [rowsBy_drop_ge pieceUR M (j + 1) (by omega)]
      by_cases hjn : j < n
      · obtain ⟨_, hget, hrow⟩ := getD_row hM hjn
        simp [hget, List.drop_of_length_le (show (M[j]).length ≤ i by omega)]
      · simp [getD_ge (show M.length ≤ j by omega)]
  · -- fin
    rintro ⟨i, j⟩ ⟨hji, hv⟩ hs a ha b hb hab
    simp only at hji hv hs ⊢
    by_cases hi : i < n
    · exfalso
      have hj : j < n := by omega
      obtain ⟨hjl, hget, hrow⟩ := getD_row hM hj
      simp only [suffix, hget, Option.getD_some] at hs
      have : ((M[j]).drop i).length = 0 := by
        have := congrArg List.length hs; simp at this; omega
      simp at this; omega
    · omega
  · -- the listing is the suffix of the start state
    rw [listUpperRow_eq]
    simp only [suffix]
    by_cases h0 : 0 < M.length
    · rw [← List.drop_zero (l := M), rowsBy_drop pieceUR M 0 h0]
      obtain ⟨_, hget, _⟩ := getD_row hM (show 0 < n by omega)
      simp [hget, pieceUR]
    · have : M = [] := by cases M with | nil => rfl | cons _ _ => simp at h0
      subst this; simp [rowsBy]
  · simp only; omega
  · exact square_zeros n
  · intro a ha b hb _
    rw [entry_zeros]
    split
    · next h => exfalso; simp only at h; omega
    · rfl

theorem walk_upperDiag : walk true (nextUD n) (zeros n) (0, 0) (listUpperDiag M) = some M := by
  have hlen : M.length = n := hM.1
  let suffix : Nat × Nat → List Int := fun s =>
    ((M[s.2]?).getD []).drop s.1 ++ rowsBy pieceUD (s.2 + 1) (M.drop (s.2 + 1))
  apply walk_correct true (nextUD n) n M hM hsym hz h64
    (fun s => s.2 ≤ s.1 ∧ (s.1 < n ∨ n ≤ s.2)) suffix
    (fun s a b => min a b < s.2 ∨ (min a b = s.2 ∧ max a b < s.1))
  · rintro ⟨i, j⟩ ⟨hji, hv⟩
    simp only at hji hv
    by_cases hi : i < n
    · right
      have hj : j < n := by omega
      obtain ⟨hjl, hget, hrow⟩ := getD_row hM hj
      have hdrop : (M[j]).drop i = (M[j])[i] :: (M[j]).drop (i + 1) :=
        List.drop_eq_getElem_cons (by omega)
      refine ⟨hi, hj, ?_, ?_, ?_⟩
      · simp only [suffix, hget, Option.getD_some, hdrop, entry_getElem hjl (show i < (M[j]).length by omega), nextUD]
        by_cases hin : i + 1 ≥ n
        · simp only [hin, if_true]
          rw [List.drop_of_length_le (by omega)]
          by_cases hj1 : j + 1 < M.length
          · rw [rowsBy_drop pieceUD M (j + 1) hj1]
            obtain ⟨_, hget', _⟩ := getD_row hM (show j + 1 < n by omega)
            simp [hget', pieceUD]
          · rw [rowsBy_drop_ge pieceUD M (j + 1) (by omega), rowsBy_drop_ge pieceUD M (j + 1 + 1) (by omega)]
            simp [getD_ge (show M.length ≤ j + 1 by omega)]
        · simp only [hin, if_false, hget, Option.getD_some]
          first | rfl | (rw [hdrop]; rfl)
      · simp only [nextUD]
        by_cases hin : i + 1 ≥ n
        · simp only [hin, if_true]; omega
        · simp only [hin, if_false]; omega
      · intro a ha b hb hab
        simp only [nextUD]
        by_cases hin : i + 1 ≥ n
        · simp only [hin, if_true]; omega
        · simp only [hin, if_false]; omega
    · left
      have hj : n ≤ j := by omega
      simp only [suffix]
      rw [rowsBy_drop_ge pieceUD M (j + 1) (by omega)]
      simp [getD_ge (show M.length ≤ j by omega)]
  · rintro ⟨i, j⟩ ⟨hji, hv⟩ hs a ha b hb hab
    simp only at hji hv hs ⊢
    by_cases hi : i < n
    · exfalso
      have hj : j < n := by omega
      obtain ⟨hjl, hget, hrow⟩ := getD_row hM hj
      simp only [suffix, hget, Option.getD_some] at hs
      have : ((M[j]).drop i).length = 0 := by
        have := congrArg List.length hs; simp at this; omega
      simp at this; omega
    · omega
  · rw [listUpperDiag_eq]
    simp only [suffix]
    by_cases h0 : 0 < M.length
    · rw [← List.drop_zero (l := M), rowsBy_drop pieceUD M 0 h0]
      obtain ⟨_, hget, _⟩ := getD_row hM (show 0 < n by omega)
      simp [hget, pieceUD]
    · have : M = [] := by cases M with | nil => rfl | cons _ _ => simp at h0
      subst this; simp [rowsBy]
  · simp only; omega
  · exact square_zeros n
  · intro a ha b hb _
    rw [entry_zeros]
    split
    · next h => exfalso; simp only at h; omega
    · rfl

theorem walk_lowerDiag : walk true nextLD (zeros n) (0, 0) (listLowerDiag M) = some M := by
  have hlen : M.length = n := hM.1
  let suffix : Nat × Nat → List Int := fun s =>
    (((M[s.2]?).getD []).take (s.2 + 1)).drop s.1 ++ rowsBy pieceLD (s.2 + 1) (M.drop (s.2 + 1))
  apply walk_correct true nextLD n M hM hsym hz h64
    (fun s => s.1 ≤ s.2) suffix
    (fun s a b => max a b < s.2 ∨ (max a b = s.2 ∧ min a b < s.1))
  · rintro ⟨i, j⟩ hij
    simp only at hij
    by_cases hj : j < n
    · right
      obtain ⟨hjl, hget, hrow⟩ := getD_row hM hj
      have htl : ((M[j]).take (j + 1)).length = j + 1 := by simp; omega
      have hdrop : ((M[j]).take (j + 1)).drop i = (M[j])[i] :: ((M[j]).take (j + 1)).drop (i + 1) := by
        rw [List.drop_eq_getElem_cons (by omega)]
        simp
      refine ⟨by omega, hj, ?_, ?_, ?_⟩
      · simp only [suffix, hget, Option.getD_some, hdrop, entry_getElem hjl (show i < (M[j]).length by omega), nextLD]
        by_cases hin : i + 1 > j
        · simp only [hin, if_true]
          rw [List.drop_of_length_le (by omega)]
          by_cases hj1 : j + 1 < M.length
          · rw [rowsBy_drop pieceLD M (j + 1) hj1]
            obtain ⟨_, hget', _⟩ := getD_row hM (show j + 1 < n by omega)
            simp [hget', pieceLD]
          · rw [rowsBy_drop_ge pieceLD M (j + 1) (by omega), rowsBy_drop_ge pieceLD M (j + 1 + 1) (by omega)]
            simp [getD_ge (show M.length ≤ j + 1 by omega)]
        · simp only [hin, if_false, hget, Option.getD_some]
          first | rfl | (rw [hdrop]; rfl)
      · simp only [nextLD]
        by_cases hin : i + 1 > j
        · simp only [hin, if_true]; omega
        · simp only [hin, if_false]; omega
      · intro a ha b hb hab
        simp only [nextLD]
        by_cases hin : i + 1 > j
        · simp only [hin, if_true]; omega
        · simp only [hin, if_false]; omega
    · left
      simp only [suffix]
      rw [rowsBy_drop_ge pieceLD M (j + 1) (by omega)]
      simp [getD_ge (show M.length ≤ j by omega)]
  · rintro ⟨i, j⟩ hij hs a ha b hb hab
    simp only at hij hs ⊢
    by_cases hj : j < n
    · exfalso
      obtain ⟨hjl, hget, hrow⟩ := getD_row hM hj
      simp only [suffix, hget, Option.getD_some] at hs
      have : (((M[j]).take (j + 1)).drop i).length = 0 := by
        have := congrArg List.length hs; simp at this; omega
      simp at this; omega
    · omega
  · rw [listLowerDiag_eq]
    simp only [suffix]
    by_cases h0 : 0 < M.length
    · rw [← List.drop_zero (l := M), rowsBy_drop pieceLD M 0 h0]
      obtain ⟨_, hget, _⟩ := getD_row hM (show 0 < n by omega)
      simp [hget, pieceLD]
    · have : M = [] := by cases M with | nil => rfl | cons _ _ => simp at h0
      subst this; simp [rowsBy]
  · simp only; omega
  · exact square_zeros n
  · intro a ha b hb _
    rw [entry_zeros]
    split
    · next h => exfalso; simp only at h; omega
    · rfl

end walkers

/-! ## FULL_MATRIX -/

theorem chunk_flatten (n : Nat) (M : Matrix) (h : ∀ row ∈ M, row.length = n) :
    chunk n M.length M.flatten = M := by
  induction M with
  | nil => rfl
  | cons row rest ih =>
    have hr : row.length = n := h row (by simp)
    simp only [List.length_cons, chunk, List.flatten_cons]
    rw [List.take_left' hr, List.drop_left' hr, ih (fun r hr' => h r (by simp [hr']))]

theorem zeroDiag_eq {M : Matrix} {n : Nat} (hM : Square M n) (hz : ZeroDiag M n) : zeroDiag M = M := by
  have hsq : Square (zeroDiag M) n := by
    constructor
    · simp [zeroDiag, hM.1]
    · intro row hrow
      simp only [zeroDiag, List.mem_mapIdx] at hrow
      obtain ⟨i, hi, rfl⟩ := hrow
      simp [hM.2 _ (List.getElem_mem hi)]
  apply square_ext hsq hM
  intro a ha b hb
  obtain ⟨hal, hget, hrow⟩ := getD_row hM ha
  simp only [entry_eq, zeroDiag, List.getElem?_mapIdx, hget, Option.map_some, Option.getD_some,
    List.getElem?_set]
  by_cases hab : a = b
  · subst hab
    have := hz a ha
    rw [entry_getElem hal (by omega)] at this
    simp [hrow, ha, this, List.getElem?_eq_getElem (show a < (M[a]).length by omega)]
  · simp [hab]

theorem build_full {M : Matrix} {n : Nat} (hM : Square M n) (hz : ZeroDiag M n)
    (h64 : ∀ a b, inInt64 (entry M a b) = true) : buildMatrix .full n (listFull M) = some M := by
  have hall : (listFull M).all inInt64 = true := by
    simp only [listFull, List.all_eq_true, List.mem_flatten]
    rintro v ⟨row, hrow, hv⟩
    obtain ⟨a, ha, rfl⟩ := List.getElem_of_mem hrow
    obtain ⟨b, hb, rfl⟩ := List.getElem_of_mem hv
    have := h64 a b
    rwa [entry_getElem ha hb] at this
  simp only [buildMatrix, hall, if_true]
  have : chunk n n (listFull M) = M := by
    have := chunk_flatten n M hM.2
    rwa [hM.1] at this
  rw [this, zeroDiag_eq hM hz]

/-! ## character level -/

theorem digit_range {c : Char} (h : c.isDigit = true) : 48 ≤ c.toNat ∧ c.toNat ≤ 57 := by
  simp only [Char.isDigit, Bool.and_eq_true, decide_eq_true_eq] at h
  have h1 : (48 : UInt32) ≤ c.val := h.1
  have h2 : c.val ≤ (57 : UInt32) := h.2
  rw [UInt32.le_iff_toNat_le] at h1 h2
  exact ⟨h1, h2⟩

theorem toNat_ne {c d : Char} (h : c.toNat ≠ d.toNat) : c ≠ d := fun e => h (by rw [e])

theorem digit_not_ws {c : Char} (h : c.isDigit = true) : isWs c = false := by
  obtain ⟨h1, h2⟩ := digit_range h
  simp only [isWs, Bool.or_eq_false_iff, Bool.and_eq_false_iff, decide_eq_false_iff_not,
    beq_eq_false_iff_ne, ne_eq]
  omega

theorem isWs_space : isWs ' ' = true := by decide
theorem isWs_minus : isWs '-' = false := by decide

theorem strip_nil : strip [] = [] := by simp [strip, lstrip, rstrip]

theorem lstrip_cons_not_ws {c : Char} {cs : Line} (h : isWs c = false) : lstrip (c :: cs) = c :: cs := by
  simp [lstrip, h]

theorem rstrip_concat_not_ws {l : Line} {c : Char} (h : isWs c = false) : rstrip (l ++ [c]) = l ++ [c] := by
  simp [rstrip, h]

theorem strip_eq_self {l : Line} (hh : ∀ c, l.head? = some c → isWs c = false)
    (hl : ∀ c, l.getLast? = some c → isWs c = false) : strip l = l := by
  cases l with
  | nil => exact strip_nil
  | cons c cs =>
    unfold strip
    rw [lstrip_cons_not_ws (hh c rfl)]
    rcases List.eq_nil_or_concat (c :: cs) with h | ⟨l', b, hb⟩
    · simp at h
    · rw [List.concat_eq_append] at hb
      rw [hb]
      apply rstrip_concat_not_ws
      apply hl
      rw [hb]; simp

theorem stripBy_eq_self (p : Char → Bool) {l : Line} (hh : ∀ c, l.head? = some c → p c = false)
    (hl : ∀ c, l.getLast? = some c → p c = false) : stripBy p l = l := by
  cases l with
  | nil => simp [stripBy]
  | cons c cs =>
    unfold stripBy
    have h1 : (c :: cs).dropWhile p = c :: cs := by simp [hh c rfl]
    rw [h1]
    rcases List.eq_nil_or_concat (c :: cs) with h | ⟨l', b, hb⟩
    · simp at h
    · rw [List.concat_eq_append] at hb
      have hbp : p b = false := hl b (by rw [hb]; simp)
      rw [hb]
      simp [hbp]

theorem isWsNum_false_of_isWs_false {c : Char} (h : isWs c = false) : isWsNum c = false := by
  simp [isWsNum, h]

theorem strip_ws_cons {c : Char} {l : Line} (h : isWs c = true) : strip (c :: l) = strip l := by
  simp [strip, lstrip, h]

/-- `rstrip x` is a prefix of `x` -/
theorem rstrip_prefix (x : Line) : ∃ w, x = rstrip x ++ w := by
  refine ⟨(x.reverse.takeWhile isWs).reverse, ?_⟩
  have := List.takeWhile_append_dropWhile (p := isWs) (l := x.reverse)
  have h2 := congrArg List.reverse this
  simp only [List.reverse_append, List.reverse_reverse] at h2
  exact h2.symm

theorem strip_head_not_ws (l : Line) : ∀ c, (strip l).head? = some c → isWs c = false := by
  intro c hc
  obtain ⟨w, hw⟩ := rstrip_prefix (lstrip l)
  have hne : strip l ≠ [] := by intro h; rw [h] at hc; simp at hc
  have hc' : (lstrip l).head? = some c := by
    rw [hw]
    unfold strip at hc hne
    cases hr : rstrip (lstrip l) with
    | nil => exact absurd hr hne
    | cons a t => rw [hr] at hc; simpa using hc
  unfold lstrip at hc'
  have hne' : l.dropWhile isWs ≠ [] := by intro h; rw [h] at hc'; simp at hc'
  have := List.head_dropWhile_not isWs hne'
  rw [List.head?_eq_some_head hne'] at hc'
  simp only [Option.some.injEq] at hc'
  rw [← hc']; exact this

theorem strip_last_not_ws (l : Line) : ∀ c, (strip l).getLast? = some c → isWs c = false := by
  intro c hc
  unfold strip rstrip at hc
  rw [List.getLast?_reverse] at hc
  have hne : (lstrip l).reverse.dropWhile isWs ≠ [] := by intro h; rw [h] at hc; simp at hc
  have := List.head_dropWhile_not isWs hne
  rw [List.head?_eq_some_head hne] at hc
  simp only [Option.some.injEq] at hc
  rw [← hc]; exact this

theorem strip_strip (l : Line) : strip (strip l) = strip l :=
  strip_eq_self (strip_head_not_ws l) (strip_last_not_ws l)

/-! ### splitting -/

theorem splitOn_ne_nil (p : Char → Bool) (l : Line) : splitOn p l ≠ [] := by
  cases l with
  | nil => simp [splitOn]
  | cons c cs =>
    simp only [splitOn]
    split
    · simp
    · split <;> simp

theorem splitOn_no_sep (p : Char → Bool) (l : Line) (h : ∀ c ∈ l, p c = false) : splitOn p l = [l] := by
  induction l with
  | nil => rfl
  | cons c cs ih =>
    have hc : p c = false := h c (by simp)
    simp [splitOn, hc, ih (fun d hd => h d (by simp [hd]))]

theorem splitOn_append_sep (p : Char → Bool) (a b : Line) (c : Char) (ha : ∀ d ∈ a, p d = false)
    (hc : p c = true) : splitOn p (a ++ c :: b) = a :: splitOn p b := by
  induction a with
  | nil => simp [splitOn, hc]
  | cons d ds ih =>
    have hd : p d = false := ha d (by simp)
    simp [splitOn, hd, ih (fun e he => ha e (by simp [he]))]

theorem fieldsOf_cons_not_sep (p : Char → Bool) (c : Char) (cs : Line) (hc : p c = false) :
    fieldsOf p (c :: cs) ≠ [] := by
  simp only [fieldsOf, splitOn, hc, Bool.false_eq_true, if_false]
  cases h : splitOn p cs with
  | nil => simp
  | cons t ts => simp

theorem fieldsOf_joinSp (ts : List Line) (h : ∀ t ∈ ts, t ≠ [] ∧ ∀ c ∈ t, c ≠ ' ') :
    fieldsOf (· = ' ') (joinSp ts) = ts := by
  induction ts with
  | nil => simp [joinSp, fieldsOf, splitOn]
  | cons t rest ih =>
    obtain ⟨htne, htsp⟩ := h t (by simp)
    have hno : ∀ d ∈ t, (decide (d = ' ')) = false := fun d hd => by simpa using htsp d hd
    have hpos : (!t.isEmpty) = true := by cases t with
      | nil => exact absurd rfl htne
      | cons _ _ => rfl
    cases rest with
    | nil =>
      simp only [joinSp, fieldsOf]
      rw [splitOn_no_sep _ t hno, List.filter_cons]
      simp [hpos]
    | cons u rest' =>
      have ih' : fieldsOf (· = ' ') (joinSp (u :: rest')) = u :: rest' :=
        ih (fun x hx => h x (by simp [hx]))
      show fieldsOf (· = ' ') (t ++ ' ' :: joinSp (u :: rest')) = _
      unfold fieldsOf at ih' ⊢
      rw [splitOn_append_sep _ t _ ' ' hno (by simp), List.filter_cons, ih']
      simp [hpos]

theorem joinSp_ne_nil (t : Line) (ts : List Line) (ht : t ≠ []) : joinSp (t :: ts) ≠ [] := by
  cases ts with
  | nil => simpa [joinSp] using ht
  | cons u r => cases t with
    | nil => exact absurd rfl ht
    | cons c cs => simp [joinSp]

theorem joinSp_head? (ts : List Line) (t : Line) (ht : t ≠ []) : (joinSp (t :: ts)).head? = t.head? := by
  cases ts with
  | nil => rfl
  | cons u r => cases t with
    | nil => exact absurd rfl ht
    | cons c cs => simp [joinSp]

theorem joinSp_getLast? (ts : List Line) (h : ∀ t ∈ ts, t ≠ []) (hne : ts ≠ []) :
    ∃ t, t ∈ ts ∧ (joinSp ts).getLast? = t.getLast? := by
  induction ts with
  | nil => exact absurd rfl hne
  | cons t rest ih =>
    cases rest with
    | nil => exact ⟨t, by simp, rfl⟩
    | cons u r =>
      obtain ⟨x, hx1, hx2⟩ := ih (fun y hy => h y (by simp [hy])) (by simp)
      refine ⟨x, by simp only [List.mem_cons] at hx1 ⊢; exact Or.inr hx1, ?_⟩
      have hne' : joinSp (u :: r) ≠ [] := joinSp_ne_nil u r (h u (by simp))
      rcases List.eq_nil_or_concat (joinSp (u :: r)) with h0 | ⟨J, z, hJ⟩
      · exact absurd h0 hne'
      · rw [List.concat_eq_append] at hJ
        show (t ++ ' ' :: joinSp (u :: r)).getLast? = _
        rw [← hx2, hJ]
        rw [show t ++ ' ' :: (J ++ [z]) = (t ++ ' ' :: J) ++ [z] by simp]
        rw [List.getLast?_append, List.getLast?_append]
        simp

/-! ### decimal text of integers -/

theorem mapM_some_map {α β : Type} (f : α → Option β) (g : α → β) (l : List α)
    (h : ∀ a ∈ l, f a = some (g a)) : l.mapM f = some (l.map g) := by
  induction l with
  | nil => rfl
  | cons a t ih =>
    rw [List.mapM_cons, h a (by simp), ih (fun b hb => h b (by simp [hb]))]
    rfl

theorem mapM_eq_some_nil {α β : Type} (f : α → Option β) (l : List α) (h : l.mapM f = some []) : l = [] := by
  cases l with
  | nil => rfl
  | cons a t =>
    rw [List.mapM_cons] at h
    cases ha : f a with
    | none => simp [ha] at h
    | some b =>
      cases ht : t.mapM f with
      | none => simp [ha, ht] at h
      | some bs => simp [ha, ht] at h

theorem showNat_digits (m : Nat) : ∀ c ∈ showNat m, c.isDigit = true :=
  fun _ hc => Nat.isDigit_of_mem_toDigits (by decide) (by decide) hc

theorem showNat_ne_nil (m : Nat) : showNat m ≠ [] := Nat.toDigits_ne_nil

theorem pyDigits_digits (ds : Line) (hne : ds ≠ []) (h : ∀ c ∈ ds, c.isDigit = true) :
    pyDigits ds = some ds := by
  induction ds with
  | nil => exact absurd rfl hne
  | cons c cs ih =>
    have hc : c.isDigit = true := h c (by simp)
    unfold pyDigits
    simp only [hc, Bool.not_true, Bool.false_eq_true, if_false]
    cases cs with
    | nil => rfl
    | cons d ds =>
      have hd : d.isDigit = true := h d (by simp)
      have hd' : d ≠ '_' := by
        intro e; subst e; simp [Char.isDigit] at hd
      simp only [hd', if_false]
      rw [ih (by simp) (fun x hx => h x (by simp [hx]))]
      rfl

theorem natOfDigits_showNat (m : Nat) : natOfDigits (showNat m) = m := Nat.ofDigitChars_ten_toDigits

/-- every character of the decimal text of an integer is a digit or `-` -/
theorem showInt_chars (v : Int) : ∀ c ∈ showInt v, c.isDigit = true ∨ c = '-' := by
  intro c hc
  cases v with
  | ofNat m => exact Or.inl (showNat_digits m c hc)
  | negSucc m =>
    simp only [showInt, List.mem_cons] at hc
    rcases hc with h | h
    · exact Or.inr h
    · exact Or.inl (showNat_digits _ c h)

theorem showInt_ne_nil (v : Int) : showInt v ≠ [] := by
  cases v with
  | ofNat m => exact showNat_ne_nil m
  | negSucc m => simp [showInt]

theorem showInt_char_not_ws (v : Int) : ∀ c ∈ showInt v, isWs c = false := by
  intro c hc
  rcases showInt_chars v c hc with h | h
  · exact digit_not_ws h
  · subst h; exact isWs_minus

theorem strip_showInt (v : Int) : strip (showInt v) = showInt v :=
  strip_eq_self (fun c hc => showInt_char_not_ws v c (List.mem_of_mem_head? hc))
    (fun c hc => showInt_char_not_ws v c (List.mem_of_getLast? hc))

theorem stripNum_showInt (v : Int) : stripBy isWsNum (showInt v) = showInt v :=
  stripBy_eq_self isWsNum
    (fun c hc => isWsNum_false_of_isWs_false (showInt_char_not_ws v c (List.mem_of_mem_head? hc)))
    (fun c hc => isWsNum_false_of_isWs_false (showInt_char_not_ws v c (List.mem_of_getLast? hc)))

theorem pyInt?_showInt (v : Int) : pyInt? (showInt v) = some v := by
  unfold pyInt?
  rw [stripNum_showInt]
  cases v with
  | ofNat m =>
    obtain ⟨d, ds, hd⟩ : ∃ d ds, showNat m = d :: ds := by
      cases h : showNat m with
      | nil => exact absurd h (showNat_ne_nil m)
      | cons d ds => exact ⟨d, ds, rfl⟩
    have hdig : d.isDigit = true := showNat_digits m d (by rw [hd]; simp)
    have h1 : d ≠ '-' := by intro e; subst e; simp [Char.isDigit] at hdig
    have h2 : d ≠ '+' := by intro e; subst e; simp [Char.isDigit] at hdig
    simp only [showInt, hd, splitSign, h1, h2, if_false]
    rw [← hd, pyDigits_digits _ (showNat_ne_nil m) (showNat_digits m)]
    simp [natOfDigits_showNat]
  | negSucc m =>
    simp only [showInt, splitSign, if_true]
    rw [pyDigits_digits _ (showNat_ne_nil _) (showNat_digits _)]
    simp [natOfDigits_showNat, Int.negSucc_eq]

theorem tokNum?_showInt (v : Int) (hv : -LIMTOK ≤ v ∧ v ≤ LIMTOK) : tokNum? (showInt v) = some (.int v) := by
  have hany : (showInt v).any (fun c => c = '.' || c = 'E' || c = 'e') = false := by
    rw [List.any_eq_false]
    intro c hc
    rcases showInt_chars v c hc with h | h
    · have := digit_range h
      have e1 : c ≠ '.' := toNat_ne (by simp; omega)
      have e2 : c ≠ 'E' := toNat_ne (by simp; omega)
      have e3 : c ≠ 'e' := toNat_ne (by simp; omega)
      simp [e1, e2, e3]
    · subst h; decide
  simp only [tokNum?, hany, Bool.false_eq_true, if_false, pyIntRange?, pyInt?_showInt, hv, and_self, if_true,
    Option.map_some]

/-- character-level tokeniser round trip: the blank-joined decimal texts of integers within the token
limit tokenise to exactly these integers -/
theorem lineInts?_joinSp (vs : List Int) (hv : ∀ v ∈ vs, -LIMTOK ≤ v ∧ v ≤ LIMTOK) :
    lineInts? (joinSp (vs.map showInt)) = some vs := by
  have hstrip : strip (joinSp (vs.map showInt)) = joinSp (vs.map showInt) := by
    cases vs with
    | nil => exact strip_nil
    | cons v rest =>
      apply strip_eq_self
      · intro c hc
        rw [List.map_cons, joinSp_head? _ _ (showInt_ne_nil v)] at hc
        exact showInt_char_not_ws v c (List.mem_of_mem_head? hc)
      · intro c hc
        obtain ⟨t, ht, hlast⟩ := joinSp_getLast? ((v :: rest).map showInt)
          (by intro t ht; simp only [List.mem_map] at ht; obtain ⟨w, _, rfl⟩ := ht; exact showInt_ne_nil w)
          (by simp)
        rw [hlast] at hc
        simp only [List.mem_map] at ht
        obtain ⟨w, _, rfl⟩ := ht
        exact showInt_char_not_ws w c (List.mem_of_getLast? hc)
  have hfields : fieldsOf (· = ' ') (joinSp (vs.map showInt)) = vs.map showInt := by
    apply fieldsOf_joinSp
    intro t ht
    simp only [List.mem_map] at ht
    obtain ⟨w, _, rfl⟩ := ht
    refine ⟨showInt_ne_nil w, ?_⟩
    intro c hc e
    have := showInt_char_not_ws w c hc
    rw [e, isWs_space] at this
    cases this
  unfold lineInts? lineNums?
  rw [hstrip, hfields]
  have h2 : (vs.map showInt).mapM tokNum? = some (vs.map Num.int) := by
    have := mapM_some_map (fun v => tokNum? (showInt v)) Num.int vs (fun v hvm => tokNum?_showInt v (hv v hvm))
    rw [List.mapM_map]
    simpa [Function.comp_def] using this
  rw [h2]
  simp only [Option.bind_some]
  have := mapM_some_map (fun x => Num.toInt? (Num.int x)) id vs (fun v _ => rfl)
  rw [List.mapM_map]
  simpa [Function.comp_def] using this

/-- a line without tokens is blank -/
theorem strip_nil_of_lineInts?_nil (l : Line) (h : lineInts? l = some []) : strip l = [] := by
  unfold lineInts? at h
  cases hn : lineNums? l with
  | none => simp [hn] at h
  | some ns =>
    simp only [hn, Option.bind_some] at h
    have hns : ns = [] := mapM_eq_some_nil _ _ h
    subst hns
    unfold lineNums? at hn
    have hf := mapM_eq_some_nil _ _ hn
    cases hs : strip l with
    | nil => rfl
    | cons c cs =>
      exfalso
      have hc : isWs c = false := strip_head_not_ws l c (by rw [hs]; rfl)
      have hsp : (decide (c = ' ')) = false := by
        simp only [decide_eq_false_iff_not]
        intro e; subst e; rw [isWs_space] at hc; cases hc
      rw [hs] at hf
      exact fieldsOf_cons_not_sep _ c cs hsp hf

/-! ## the reader: blank lines, `__read_n_ints` inside `_from_stream` -/

theorem mapM_cons_eq_some {α β : Type} (f : α → Option β) (a : α) (l : List α) (r : List β)
    (h : (a :: l).mapM f = some r) : ∃ b bs, f a = some b ∧ l.mapM f = some bs ∧ r = b :: bs := by
  rw [List.mapM_cons] at h
  cases ha : f a with
  | none => simp [ha] at h
  | some b =>
    cases ht : l.mapM f with
    | none => simp [ha, ht] at h
    | some bs =>
      simp [ha, ht] at h
      exact ⟨b, bs, rfl, rfl, h.symm⟩

theorem mapM_mem {α β : Type} (f : α → Option β) (l : List α) (r : List β) (h : l.mapM f = some r) :
    ∀ a ∈ l, ∃ b ∈ r, f a = some b := by
  induction l generalizing r with
  | nil => simp
  | cons x t ih =>
    obtain ⟨b, bs, hb, hbs, rfl⟩ := mapM_cons_eq_some f x t r h
    intro a ha
    simp only [List.mem_cons] at ha
    rcases ha with rfl | ha
    · exact ⟨b, by simp, hb⟩
    · obtain ⟨c, hc, hfc⟩ := ih bs hbs a ha
      exact ⟨c, by simp [hc], hfc⟩

theorem loop_hdr_blank (cfg : Cfg) (h : Hdr) (raw : Line) (rest : List Line) (hb : strip raw = []) :
    loop cfg h .hdr (raw :: rest) = loop cfg h .hdr rest := by
  simp [loop, hb]

theorem loop_hdr_blanks (cfg : Cfg) (h : Hdr) (ls rest : List Line) (hb : ∀ l ∈ ls, strip l = []) :
    loop cfg h .hdr (ls ++ rest) = loop cfg h .hdr rest := by
  induction ls with
  | nil => rfl
  | cons l t ih =>
    rw [List.cons_append, loop_hdr_blank cfg h l _ (hb l (by simp)), ih (fun x hx => hb x (by simp [hx]))]

theorem loop_ints (cfg : Cfg) (h : Hdr) (f : Fmt) (n : Nat) (rest : List Line) :
    ∀ (ls : List Line) (acc : List Int) (tss : List (List Int)), ls.mapM lineInts? = some tss →
      (acc ++ tss.flatten).length = f.need n → acc.length < f.need n →
      loop cfg h (.ints f n acc) (ls ++ rest) =
        match buildMatrix f n (acc ++ tss.flatten) with
        | none => none
        | some M => loop cfg { h with matrix := some M } .hdr rest := by
  intro ls
  induction ls with
  | nil =>
    intro acc tss hm hlen hlt
    simp at hm; subst hm
    simp at hlen; omega
  | cons l t ih =>
    intro acc tss hm hlen hlt
    obtain ⟨ts, tss', hts, htss', rfl⟩ := mapM_cons_eq_some _ l t tss hm
    simp only [List.cons_append, loop, hts]
    by_cases hc : (acc ++ ts).length = f.need n
    · simp only [hc, if_true]
      have hfl : tss'.flatten = [] := by
        have : (acc ++ (ts :: tss').flatten).length = (acc ++ ts).length + tss'.flatten.length := by
          simp [Nat.add_assoc]
        rw [this, hc] at hlen
        exact List.eq_nil_of_length_eq_zero (by omega)
      have hblank : ∀ x ∈ t, strip x = [] := by
        intro x hx
        obtain ⟨b, hb, hfb⟩ := mapM_mem _ t tss' htss' x hx
        have : b = [] := (List.flatten_eq_nil_iff.mp hfl) b hb
        subst this
        exact strip_nil_of_lineInts?_nil x hfb
      have heq : acc ++ (ts :: tss').flatten = acc ++ ts := by simp [hfl]
      rw [heq]
      cases buildMatrix f n (acc ++ ts) with
      | none => rfl
      | some M => simp only; exact loop_hdr_blanks cfg _ t rest hblank
    · simp only [hc, if_false]
      have h1 : (acc ++ ts ++ tss'.flatten).length = f.need n := by
        simpa [List.append_assoc] using hlen
      have h2 : (acc ++ ts).length < f.need n := by
        have : (acc ++ ts ++ tss'.flatten).length = (acc ++ ts).length + tss'.flatten.length := by
          simp only [List.length_append]
        omega
      rw [ih (acc ++ ts) tss' htss' h1 h2]
      simp [List.append_assoc]

theorem loop_ews (cfg : Cfg) (h : Hdr) (raw : Line) (rest : List Line) (hraw : strip raw = sEWS) :
    loop cfg h .hdr (raw :: rest) =
      if h.matrix.isSome then none else
      match startEdgeWeights h with
      | none => none
      | some (f, n) => loop cfg h (.ints f n []) rest := by
  have h1 : sEWS.isEmpty = false := by decide
  have h2 : find? ':' sEWS = none := by decide
  have h3 : (sEWS = sNCS) = False := by simp; decide
  simp only [loop, hraw, h1, h2, h3, Bool.false_eq_true, if_false, if_true]
  rfl

theorem loop_eof (cfg : Cfg) (h : Hdr) (raw : Line) (rest : List Line) (hraw : strip raw = sEOF) :
    loop cfg h .hdr (raw :: rest) = finish cfg h := by
  have h1 : sEOF.isEmpty = false := by decide
  have h2 : find? ':' sEOF = none := by decide
  have h3 : (sEOF = sNCS) = False := by simp; decide
  have h4 : (sEOF = sEWS) = False := by simp; decide
  simp only [loop, hraw, h1, h2, h3, h4, Bool.false_eq_true, if_false, if_true]

/-! ## the tour reader -/

theorem nodup_map_of_inj_on {α β : Type} (f : α → β) (l : List α) (hnd : l.Nodup)
    (hinj : ∀ a ∈ l, ∀ b ∈ l, f a = f b → a = b) : (l.map f).Nodup := by
  induction l with
  | nil => simp
  | cons x t ih =>
    obtain ⟨hx, ht⟩ := List.nodup_cons.mp hnd
    rw [List.map_cons, List.nodup_cons]
    constructor
    · intro hmem
      simp only [List.mem_map] at hmem
      obtain ⟨y, hy, hxy⟩ := hmem
      have := hinj y (by simp [hy]) x (by simp) hxy
      subst this
      exact hx hy
    · exact ih ht (fun a ha b hb => hinj a (by simp [ha]) b (by simp [hb]))

/-- invariant of `known_optima._from_stream`: the 1-based nodes seen so far are pairwise different,
lie in `1..maxNode`, and `nodes` is their 0-based image in reading order -/
def TourInv (s : TourSt) : Prop :=
  s.done.Nodup ∧ (∀ d ∈ s.done, 1 ≤ d ∧ d ≤ s.maxNode) ∧
    s.nodes = s.done.reverse.map (fun d => (d - 1).toNat)

theorem pyIntRange?_bounds {t : Line} {lo hi v : Int} (h : pyIntRange? t lo hi = some v) : lo ≤ v ∧ v ≤ hi := by
  unfold pyIntRange? at h
  split at h
  · split at h
    · next hb => simp at h; subst h; exact hb
    · simp at h
  · simp at h

theorem tourTokens_inv : ∀ (ts : List Line) (s s' : TourSt), TourInv s → tourTokens s ts = some s' →
    TourInv s' ∧ s'.inTour = s.inTour := by
  intro ts
  induction ts with
  | nil => intro s s' hi h; simp [tourTokens] at h; subst h; exact ⟨hi, rfl⟩
  | cons t rest ih =>
    intro s s' hi h
    simp only [tourTokens] at h
    split at h
    · simp at h
    · next node hnode =>
      obtain ⟨hlo, _⟩ := pyIntRange?_bounds hnode
      split at h
      · simp at h
      · next hmem =>
        obtain ⟨h1, h2, h3⟩ := hi
        have := ih _ s' (by
          refine ⟨?_, ?_, ?_⟩
          · exact List.nodup_cons.mpr ⟨hmem, h1⟩
          · intro d hd
            simp only [List.mem_cons] at hd
            rcases hd with rfl | hd
            · exact ⟨hlo, by simp only; omega⟩
            · have := h2 d hd; simp only; omega
          · simp [h3]) h
        exact ⟨this.1, this.2⟩

theorem tourFinish_perm (s : TourSt) (t : List Nat) (hi : TourInv s) (h : tourFinish s = some t) :
    t.Nodup ∧ ∀ x ∈ t, x < t.length := by
  unfold tourFinish at h
  split at h
  · simp at h
  · next hlen =>
    simp at h hlen
    subst h
    obtain ⟨h1, h2, h3⟩ := hi
    constructor
    · rw [h3]
      apply nodup_map_of_inj_on _ _ ((List.reverse_perm _).nodup_iff.mpr h1)
      intro a ha b hb hab
      have ha' := h2 a (by simpa using ha)
      have hb' := h2 b (by simpa using hb)
      omega
    · intro x hx
      rw [h3] at hx
      simp only [List.mem_map, List.mem_reverse] at hx
      obtain ⟨d, hd, rfl⟩ := hx
      have := h2 d hd
      omega

theorem tourLoop_perm : ∀ (ls : List Line) (s : TourSt) (t : List Nat), TourInv s → tourLoop s ls = some t →
    t.Nodup ∧ ∀ x ∈ t, x < t.length := by
  intro ls
  induction ls with
  | nil => intro s t hi h; exact tourFinish_perm s t hi (by simpa [tourLoop] using h)
  | cons raw rest ih =>
    intro s t hi h
    simp only [tourLoop] at h
    split at h
    · first | exact ih s t hi h | exact ih { s with inTour := true } t hi h
    · split at h
      · first | exact ih s t hi h | exact ih { s with inTour := true } t hi h
      · split at h
        · exact tourFinish_perm s t hi h
        · split at h
          · split at h
            · simp at h
            · next s' hs' => exact ih s' t (tourTokens_inv _ s s' hi hs').1 h
          · first | exact ih s t hi h | exact ih { s with inTour := true } t hi h

/-! ## header lines -/

theorem loop_kv (cfg : Cfg) (h : Hdr) (raw : Line) (rest : List Line) (l : Line) (k : Nat) (key value : Line)
    (hs : strip raw = l) (hne : l.isEmpty = false) (hf : find? ':' l = some (k + 1))
    (hk : strip (l.take (k + 1)) = key) (hv : strip (l.drop (k + 2)) = value) :
    loop cfg h .hdr (raw :: rest) =
      match hdrKeyValue h key value with
      | none => none
      | some h' => loop cfg h' .hdr rest := by
  simp only [loop, hs, hne, hf, hk, hv, Bool.false_eq_true, if_false]
  rfl

def KeyOk (key : Line) : Prop := key ≠ [] ∧ ∀ c ∈ key, c ≠ ':' ∧ isWs c = false
instance (key : Line) : Decidable (KeyOk key) := by unfold KeyOk; infer_instance

def ValOk (v : Line) : Prop :=
  v ≠ [] ∧ (∀ c, v.head? = some c → isWs c = false) ∧ (∀ c, v.getLast? = some c → isWs c = false)

theorem ValOk.ofAll (v : Line) (h : v ≠ [] ∧ ∀ c ∈ v, isWs c = false) : ValOk v :=
  ⟨h.1, fun c hc => h.2 c (List.mem_of_mem_head? hc), fun c hc => h.2 c (List.mem_of_getLast? hc)⟩

theorem find?_append_colon (key rest : Line) (hk : ∀ c ∈ key, c ≠ ':') :
    find? ':' (key ++ ':' :: rest) = some key.length := by
  induction key with
  | nil => simp [find?]
  | cons c cs ih =>
    have hc : c ≠ ':' := hk c (by simp)
    simp [find?, hc, ih (fun d hd => hk d (by simp [hd]))]

theorem strip_space_val (v : Line) (hv : ValOk v) : strip (' ' :: v) = v := by
  rw [strip_ws_cons isWs_space]
  exact strip_eq_self hv.2.1 hv.2.2

/-- a line `KEY: value` as `to_stream` writes it is read as that key and that value -/
theorem loop_kv_line (cfg : Cfg) (h : Hdr) (rest : List Line) (key value : Line) (hk : KeyOk key) (hv : ValOk value) :
    loop cfg h .hdr ((key ++ ": ".toList ++ value) :: rest) =
      match hdrKeyValue h key value with
      | none => none
      | some h' => loop cfg h' .hdr rest := by
  have hl : key ++ ": ".toList ++ value = key ++ ':' :: ' ' :: value := by
    rw [List.append_assoc]; rfl
  obtain ⟨k, hkl⟩ : ∃ k, key.length = k + 1 := by
    cases key with
    | nil => exact absurd rfl hk.1
    | cons c cs => exact ⟨cs.length, rfl⟩
  obtain ⟨c0, cs0, hkey⟩ : ∃ c cs, key = c :: cs := by
    cases key with
    | nil => exact absurd rfl hk.1
    | cons c cs => exact ⟨c, cs, rfl⟩
  have hstrip : strip (key ++ ':' :: ' ' :: value) = key ++ ':' :: ' ' :: value := by
    apply strip_eq_self
    · intro c hc
      rw [hkey] at hc
      simp at hc
      subst hc
      exact (hk.2 c0 (by rw [hkey]; simp)).2
    · intro c hc
      have hvne := hv.1
      have : (key ++ ':' :: ' ' :: value).getLast? = value.getLast? := by
        rw [show key ++ ':' :: ' ' :: value = (key ++ [':', ' ']) ++ value by simp]
        rw [List.getLast?_append]
        cases hvl : value.getLast? with
        | none => rw [List.getLast?_eq_none_iff] at hvl; exact absurd hvl hvne
        | some z => simp
      rw [this] at hc
      exact hv.2.2 c hc
  apply loop_kv cfg h _ rest (key ++ ':' :: ' ' :: value) k key value
  · rw [hl]; exact hstrip
  · rw [hkey]; rfl
  · rw [find?_append_colon key _ (fun c hc => (hk.2 c hc).1), hkl]
  · rw [← hkl, List.take_left' rfl]
    exact strip_eq_self (fun c hc => (hk.2 c (List.mem_of_mem_head? hc)).2)
      (fun c hc => (hk.2 c (List.mem_of_getLast? hc)).2)
  · rw [show k + 2 = key.length + 1 by omega]
    rw [show key ++ ':' :: ' ' :: value = (key ++ [':']) ++ ' ' :: value by simp]
    rw [List.drop_left' (by simp)]
    exact strip_space_val value hv

/-- what the proofs need to know about an instance name; a consequence of
`sanitize_name(name) == name` (which maps `.` to `d` and white space to `_`) -/
def NameShape (name : Line) : Prop := name ≠ [] ∧ (∀ c ∈ name, isWs c = false) ∧ '.' ∉ name

theorem NameShape.valOk {name : Line} (h : NameShape name) : ValOk name :=
  ⟨h.1, fun c hc => h.2.1 c (List.mem_of_mem_head? hc), fun c hc => h.2.1 c (List.mem_of_getLast? hc)⟩

theorem endsWith_dotTsp_false {name : Line} (h : '.' ∉ name) : endsWith name sDotTsp = false := by
  cases he : endsWith name sDotTsp with
  | false => rfl
  | true =>
    exfalso
    simp only [endsWith, Bool.and_eq_true, decide_eq_true_eq, beq_iff_eq] at he
    have : '.' ∈ name.drop (name.length - sDotTsp.length) := by rw [he.2]; decide
    exact h (List.mem_of_mem_drop this)

theorem hkv_name (h : Hdr) (name : Line) (hn : h.name = none) (hs : NameShape name) :
    hdrKeyValue h sNAME name = some { h with name := some name } := by
  have h1 : name.isEmpty = false := by
    cases name with
    | nil => exact absurd rfl hs.1
    | cons _ _ => rfl
  simp [hdrKeyValue, h1, hn, endsWith_dotTsp_false hs.2.2]

theorem hkv_type (h : Hdr) (T : Line) (hn : h.type = none) (hT : T = sTSP ∨ T = sATSP) :
    hdrKeyValue h sTYPE T = some { h with type := some T } := by
  rcases hT with rfl | rfl
  · simp (config := { decide := true }) [hdrKeyValue, hn]
  · simp (config := { decide := true }) [hdrKeyValue, hn]

theorem hkv_comment (h : Hdr) (v : Line) (hv : v ≠ []) : hdrKeyValue h sCOMMENT v = some h := by
  have h1 : v.isEmpty = false := by
    cases v with
    | nil => exact absurd rfl hv
    | cons _ _ => rfl
  simp (config := { decide := true }) [hdrKeyValue, h1]

theorem hkv_dim (h : Hdr) (n : Nat) (hn : h.n = none) (h2 : 2 ≤ n) (h9 : n ≤ 1000000000) :
    hdrKeyValue h sDIMENSION (showNat n) = some { h with n := some n } := by
  have h1 : (showNat n).isEmpty = false := by
    cases hh : showNat n with
    | nil => exact absurd hh (showNat_ne_nil n)
    | cons _ _ => rfl
  have hp : pyIntRange? (showNat n) 2 1000000000 = some (n : Int) := by
    have := pyInt?_showInt (Int.ofNat n)
    simp only [showInt] at this
    simp only [pyIntRange?, this]
    have hb : (2 : Int) ≤ Int.ofNat n ∧ Int.ofNat n ≤ 1000000000 := by
      constructor <;> simp <;> omega
    rw [if_pos hb]; rfl
  simp (config := { decide := true }) [hdrKeyValue, h1, hn, hp]

theorem hkv_ewt (h : Hdr) (hn : h.ewt = none) :
    hdrKeyValue h sEWT sEXPLICIT = some { h with ewt := some sEXPLICIT } := by
  simp (config := { decide := true }) [hdrKeyValue, hn]

theorem hkv_ewf (h : Hdr) (F : Line) (hn : h.ewf = none) (hF : F = sUR ∨ F = sFULL) :
    hdrKeyValue h sEWF F = some { h with ewf := some F } := by
  rcases hF with rfl | rfl
  · simp (config := { decide := true }) [hdrKeyValue, hn]
  · simp (config := { decide := true }) [hdrKeyValue, hn]

/-! ## write → read -/

def EntriesWithin (M : Matrix) (B : Int) : Prop := ∀ row ∈ M, ∀ v ∈ row, -B ≤ v ∧ v ≤ B

theorem entry_mem_or_zero (M : Matrix) (a b : Nat) : entry M a b = 0 ∨ ∃ row ∈ M, entry M a b ∈ row := by
  by_cases ha : a < M.length
  · by_cases hb : b < (M[a]).length
    · right
      exact ⟨M[a], List.getElem_mem ha, by rw [entry_getElem ha hb]; exact List.getElem_mem hb⟩
    · left; simp [entry_eq, List.getElem?_eq_getElem ha, List.getElem?_eq_none (Nat.le_of_not_lt hb)]
  · left; simp [entry_eq, List.getElem?_eq_none (Nat.le_of_not_lt ha)]

theorem inInt64_of_within {M : Matrix} (hB : EntriesWithin M LIMTOK) (a b : Nat) : inInt64 (entry M a b) = true := by
  rcases entry_mem_or_zero M a b with h | ⟨row, hrow, hv⟩
  · rw [h]; decide
  · have := hB row hrow _ hv
    simp only [LIMTOK] at this
    simp only [inInt64, Bool.and_eq_true, decide_eq_true_eq]
    omega

theorem loop_comments (cfg : Cfg) (h : Hdr) (comments rest : List Line) (hc : ∀ c ∈ comments, strip c ≠ []) :
    loop cfg h .hdr (comments.map (fun c => sCOMMENT ++ ": ".toList ++ strip c) ++ rest) = loop cfg h .hdr rest := by
  induction comments with
  | nil => rfl
  | cons c cs ih =>
    rw [List.map_cons, List.cons_append]
    rw [loop_kv_line cfg h _ sCOMMENT (strip c) (by decide)
      ⟨hc c (by simp), strip_head_not_ws c, strip_last_not_ws c⟩]
    rw [hkv_comment h _ (hc c (by simp))]
    exact ih (fun x hx => hc x (by simp [hx]))

theorem range_map_getD (M : Matrix) (n : Nat) (hlen : M.length = n) (f : Nat → List Int → List Int) :
    (List.range n).map (fun i => f i (M.getD i [])) = M.mapIdx f := by
  apply List.ext_getElem
  · simp [hlen]
  · intro i h1 h2
    simp at h1
    have hi : i < M.length := by omega
    simp [List.getD_eq_getElem?_getD, List.getElem?_eq_getElem hi]

theorem mapIdx_id (M : Matrix) : M.mapIdx (fun _ row => row) = M := by
  apply List.ext_getElem (by simp)
  intro i h1 h2; simp

theorem rowsBy_UR_length (n : Nat) : ∀ (rows : Matrix) (r : Nat), (∀ row ∈ rows, row.length = n) →
    r + rows.length = n → 2 * (rowsBy pieceUR r rows).length = rows.length * (rows.length - 1) := by
  intro rows
  induction rows with
  | nil => intro r _ _; simp [rowsBy]
  | cons row rest ih =>
    intro r hall hr
    have hrow : row.length = n := hall row (by simp)
    have ih' := ih (r + 1) (fun x hx => hall x (by simp [hx])) (by simp at hr; omega)
    simp only [rowsBy, pieceUR, List.length_append, List.length_drop, List.length_cons, Nat.add_sub_cancel]
    have : row.length - (r + 1) = rest.length := by simp at hr; omega
    rw [this]
    exact tri_step rest.length _ ih'

theorem listUpperRow_length {M : Matrix} {n : Nat} (hM : Square M n) :
    (listUpperRow M).length = (n * (n - 1)) / 2 := by
  have := rowsBy_UR_length n M 0 hM.2 (by simp [hM.1])
  rw [listUpperRow_eq, hM.1] at *
  omega

theorem listFull_length {M : Matrix} {n : Nat} (hM : Square M n) : (listFull M).length = n * n := by
  obtain ⟨h1, h2⟩ := hM
  have : ∀ (rows : Matrix), (∀ row ∈ rows, row.length = n) → rows.flatten.length = rows.length * n := by
    intro rows
    induction rows with
    | nil => simp
    | cons row rest ih =>
      intro hall
      simp only [List.flatten_cons, List.length_append, List.length_cons]
      rw [hall row (by simp), ih (fun x hx => hall x (by simp [hx])), Nat.succ_mul]
      omega
  rw [listFull, this M h2, h1]

theorem body_sym_tokens (M : Matrix) (n : Nat) (hlen : M.length = n) (hB : EntriesWithin M LIMTOK) :
    ((List.range n).map fun i => joinSp (((M.getD i []).drop (i + 1)).map showInt)).mapM lineInts? =
      some (M.mapIdx fun r row => row.drop (r + 1)) := by
  rw [← range_map_getD M n hlen (fun r row => row.drop (r + 1)), List.mapM_map]
  apply mapM_some_map
  intro i _
  apply lineInts?_joinSp
  intro v hv
  have hv' := List.mem_of_mem_drop hv
  by_cases hi : i < M.length
  · rw [List.getD_eq_getElem?_getD, List.getElem?_eq_getElem hi] at hv'
    exact hB _ (List.getElem_mem hi) v hv'
  · rw [List.getD_eq_getElem?_getD, List.getElem?_eq_none (Nat.le_of_not_lt hi)] at hv'
    simp at hv'

theorem body_full_tokens (M : Matrix) (n : Nat) (hlen : M.length = n) (hB : EntriesWithin M LIMTOK) :
    ((List.range n).map fun i => joinSp ((M.getD i []).map showInt)).mapM lineInts? = some M := by
  have h0 := range_map_getD M n hlen (fun _ row => row)
  rw [mapIdx_id] at h0
  conv => rhs; rw [← h0]
  rw [List.mapM_map]
  apply mapM_some_map
  intro i _
  apply lineInts?_joinSp
  intro v hv'
  by_cases hi : i < M.length
  · rw [List.getD_eq_getElem?_getD, List.getElem?_eq_getElem hi] at hv'
    exact hB _ (List.getElem_mem hi) v hv'
  · rw [List.getD_eq_getElem?_getD, List.getElem?_eq_none (Nat.le_of_not_lt hi)] at hv'
    simp at hv'

theorem rowsBy_length_add (n : Nat) (p q pq : Nat → List Int → List Int)
    (hpq : ∀ r (row : List Int), row.length = n → (p r row).length + (q r row).length = (pq r row).length) :
    ∀ (rows : Matrix) (r : Nat), (∀ row ∈ rows, row.length = n) →
      (rowsBy p r rows).length + (rowsBy q r rows).length = (rowsBy pq r rows).length := by
  intro rows
  induction rows with
  | nil => intro r _; simp [rowsBy]
  | cons row rest ih =>
    intro r hall
    have h1 := hpq r row (hall row (by simp))
    have h2 := ih (r + 1) (fun x hx => hall x (by simp [hx]))
    simp only [rowsBy, List.length_append]
    omega

theorem rowsBy_id_length (n : Nat) : ∀ (rows : Matrix) (r : Nat), (∀ row ∈ rows, row.length = n) →
    (rowsBy (fun _ row => row) r rows).length = rows.length * n := by
  intro rows
  induction rows with
  | nil => intro r _; simp [rowsBy]
  | cons row rest ih =>
    intro r hall
    simp only [rowsBy, List.length_append, List.length_cons, ih (r + 1) (fun x hx => hall x (by simp [hx])),
      hall row (by simp), Nat.succ_mul]
    omega

/-- the diagonal alone: one entry per row (for rows `r < n`) -/
theorem rowsBy_diag_length (n : Nat) : ∀ (rows : Matrix) (r : Nat), (∀ row ∈ rows, row.length = n) →
    r + rows.length ≤ n → (rowsBy (fun r row => (row.drop r).take 1) r rows).length = rows.length := by
  intro rows
  induction rows with
  | nil => intro r _ _; simp [rowsBy]
  | cons row rest ih =>
    intro r hall hr
    have hrow := hall row (by simp)
    simp only [List.length_cons] at hr
    simp only [rowsBy, List.length_append, List.length_take, List.length_drop, List.length_cons,
      ih (r + 1) (fun x hx => hall x (by simp [hx])) (by omega), hrow]
    omega

theorem listOf_length {M : Matrix} {n : Nat} (hM : Square M n) (f : Fmt) : (listOf f M).length = f.need n := by
  have hUR := listUpperRow_length hM
  have hsq : n * (n - 1) + n = n * n := by
    cases n with
    | zero => rfl
    | succ k => simp [Nat.mul_succ, Nat.succ_mul]
  have h2 : 2 * (listUpperRow M).length = n * (n - 1) := by
    have := rowsBy_UR_length n M 0 hM.2 (by simp [hM.1])
    rw [listUpperRow_eq, hM.1] at *
    exact this
  cases f with
  | full => exact listFull_length hM
  | upperRow => exact hUR
  | lowerDiag =>
    -- take (r+1) ++ drop (r+1) = row
    have := rowsBy_length_add n pieceLD pieceUR (fun _ row => row)
      (by intro r row _; simp only [pieceLD, pieceUR, List.length_take, List.length_drop]; omega) M 0 hM.2
    rw [rowsBy_id_length n M 0 hM.2, ← listLowerDiag_eq, ← listUpperRow_eq, hM.1] at this
    simp only [listOf, Fmt.need]
    omega
  | upperDiag =>
    -- drop r = the diagonal entry ++ drop (r+1)
    have := rowsBy_length_add n (fun r row => (row.drop r).take 1) pieceUR pieceUD
      (by intro r row _; simp only [pieceUR, pieceUD, List.length_take, List.length_drop]; omega) M 0 hM.2
    rw [rowsBy_diag_length n M 0 hM.2 (by simp [hM.1]), ← listUpperDiag_eq, ← listUpperRow_eq, hM.1] at this
    simp only [listOf, Fmt.need]
    omega

/-! ### every instance the constructor accepts is within the reader's token range -/

theorem mkInstance_rowFar_pos (lbG mult : Int) (M : Matrix) (I : Inst) (h : mkInstance lbG M mult = some I) :
    ∀ i < M.length, 0 < rowFar M M.length i := by
  unfold mkInstance at h
  simp only [] at h
  repeat' split at h
  all_goals try (simp at h; done)
  rename_i h1 h2 h3 hnn h4 h5 h6 h7 h8 x t ht h9
  simp at h5
  exact h5

theorem sum_ge_elem_add (f : Nat → Int) (l : List Nat) (hpos : ∀ k ∈ l, 1 ≤ f k) (i0 : Nat) (hi : i0 ∈ l) :
    f i0 + ((l.length : Int) - 1) ≤ (l.map f).sum := by
  have hsum : ∀ (t : List Nat), (∀ k ∈ t, 1 ≤ f k) → (t.length : Int) ≤ (t.map f).sum := by
    intro t
    induction t with
    | nil => intro _; simp
    | cons x r ih =>
      intro hp
      have h1 := hp x (by simp)
      have h2 := ih (fun k hk => hp k (by simp [hk]))
      simp only [List.length_cons, List.map_cons, List.sum_cons]
      push_cast
      omega
  induction l with
  | nil => simp at hi
  | cons x t ih =>
    simp only [List.length_cons, List.map_cons, List.sum_cons]
    push_cast
    by_cases hx : x = i0
    · subst hx
      have := hsum t (fun k hk => hpos k (by simp [hk]))
      omega
    · have hit : i0 ∈ t := by
        simp only [List.mem_cons] at hi
        rcases hi with h | h
        · exact absurd h.symm hx
        · exact h
      have h1 := hpos x (by simp)
      have := ih (fun k hk => hpos k (by simp [hk])) hit
      omega

theorem mkInstance_within {lbG mult : Int} {M : Matrix} {I : Inst} (h : mkInstance lbG M mult = some I) :
    EntriesWithin M LIMTOK := by
  obtain ⟨_, hn, hn2, hM, hub, _, _, _, hubl, _, hnn, hz⟩ := mkInstance_spec lbG M mult I h
  have hpos := mkInstance_rowFar_pos lbG mult M I h
  intro row hrow v hv
  obtain ⟨a, ha, rfl⟩ := List.getElem_of_mem hrow
  obtain ⟨b, hb, rfl⟩ := List.getElem_of_mem hv
  have hv0 : 0 ≤ (M[a])[b] := hnn _ hrow _ hv
  have hrowlen : (M[a]).length = I.n := hM.2 _ hrow
  have han : a < I.n := by omega
  have hbn : b < I.n := by omega
  refine ⟨by simp only [LIMTOK]; omega, ?_⟩
  rw [← entry_getElem ha hb]
  by_cases hab : a = b
  · subst hab; rw [hz a han]; simp [LIMTOK]
  · have h1 : entry M a b ≤ rowFar M I.n a := entry_le_rowFar M I.n a b hbn hab
    have h2 := sum_ge_elem_add (rowFar M I.n) (List.range I.n)
      (fun k hk => by
        have := hpos k (by rw [← hn]; exact List.mem_range.mp hk)
        rw [← hn] at this; omega) a (List.mem_range.mpr han)
    simp only [List.length_range] at h2
    have h3 : sumFar M I.n = ((List.range I.n).map (rowFar M I.n)).sum := rfl
    have h4 : (2 : Int) ≤ (I.n : Int) := by exact_mod_cast hn2
    simp only [LIMTOK]
    simp only [LIMIT] at hubl
    omega

end Tsplib
