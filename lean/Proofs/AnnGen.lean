import Model.AnnGen
import Std.Data.String.ToNat
/-!
Helper lemmas for `Props/C16Ann.lean`: the compiler-correctness proof of the ANN code generator.

The central notion is `Holds e vs xs`: in environment `e` the variables `vs` (in this order) carry
the values `xs`.  The generator invariant `Inv st` says that all variable names that are alive
(`vars_in`), being produced (`vars_out`) or free for re-use (`vars_cached`) are pairwise distinct
and that every `v{k}` among them has `k ≤ var_count` — so a variable taken from the cache or a
newly numbered one never clobbers an input of the current layer or an output already produced.
-/
namespace AnnGen

/-! ### environments -/

/-- variables `vs` carry the values `xs` -/
def Holds {K} (e : Env K) (vs : List Var) (xs : List K) : Prop := vs.map e = xs.map some

theorem Holds.nil {K} (e : Env K) : Holds e [] [] := rfl

theorem Holds.length {K} {e : Env K} {vs xs} (h : Holds e vs xs) : vs.length = xs.length := by
  have := congrArg List.length h
  simpa using this

theorem Holds.set_of_not_mem {K} {e : Env K} {vs xs} (h : Holds e vs xs) {x : Var} (a : K)
    (hx : x ∉ vs) : Holds (e.set x a) vs xs := by
  unfold Holds at *
  rw [← h]
  apply List.map_congr_left
  intro y hy
  have : y ≠ x := fun hh => hx (hh ▸ hy)
  simp [Env.set, this]

theorem Holds.snoc {K} {e : Env K} {vs xs} (h : Holds e vs xs) {x : Var} (a : K)
    (hx : x ∉ vs) : Holds (e.set x a) (vs ++ [x]) (xs ++ [a]) := by
  have h1 := h.set_of_not_mem a hx
  unfold Holds at *
  simp [h1, Env.set]

theorem Holds.cons_inv {K} {e : Env K} {v vs} {xs : List K} (h : Holds e (v :: vs) xs) :
    ∃ x xs', xs = x :: xs' ∧ e v = some x ∧ Holds e vs xs' := by
  unfold Holds at *
  cases xs with
  | nil => simp at h
  | cons x xs' =>
    simp only [List.map_cons, List.cons.injEq] at h
    exact ⟨x, xs', rfl, h.1, h.2⟩

theorem Holds.nil_inv {K} {e : Env K} {xs : List K} (h : Holds e [] xs) : xs = [] := by
  unfold Holds at h
  cases xs <;> simp at h ⊢

/-! ### the parameter vector seen as "what is left after `p` parameters" -/

theorem drop_cons_inv {K} {θ : List K} {p : Nat} {w : K} {rest : List K}
    (h : θ.drop p = w :: rest) : θ[p]? = some w ∧ θ.drop (p + 1) = rest := by
  constructor
  · have := congrArg (fun l => l[0]?) h
    simpa using this
  · have := congrArg (fun l => l.drop 1) h
    simpa [List.drop_drop, Nat.add_comm] using this

/-- the generated weighted sum computes what the specification's `dot?` computes -/
theorem evalTerms_mkTerms {K} (o : Ops K) (θ : List K) (e : Env K) :
    ∀ (vs : List Var) (xs : List K) (p : Nat) (acc z : K) (rest : List K),
      Holds e vs xs → dot? o acc xs (θ.drop p) = some (z, rest) →
      evalTerms o θ e acc (mkTerms p vs) = some z ∧ rest = θ.drop (p + vs.length) := by
  intro vs
  induction vs with
  | nil =>
    intro xs p acc z rest h hd
    have := h.nil_inv
    subst this
    simp [dot?] at hd
    simp [mkTerms, evalTerms, hd.1, hd.2]
  | cons v vs ih =>
    intro xs p acc z rest h hd
    obtain ⟨x, xs', rfl, hv, h'⟩ := h.cons_inv
    cases hθ : θ.drop p with
    | nil => rw [hθ] at hd; simp [dot?] at hd
    | cons w θ' =>
      rw [hθ] at hd
      obtain ⟨hw, hθ'⟩ := drop_cons_inv hθ
      simp only [dot?] at hd
      rw [← hθ'] at hd
      obtain ⟨h1, h2⟩ := ih xs' (p + 1) _ z rest h' hd
      refine ⟨?_, ?_⟩
      · simp [mkTerms, evalTerms, hw, hv, h1]
      · rw [h2]; congr 1; simp; omega

/-! ### generator invariant -/

/-- all live / produced / reusable names are distinct and the numbered ones are `≤ var_count` -/
def Inv (st : GenSt) : Prop :=
  (st.varsIn ++ st.varsOut ++ st.varsCached).Nodup ∧
  ∀ k, Var.v k ∈ st.varsIn ++ st.varsOut ++ st.varsCached → k ≤ st.varCount

theorem getLast?_eq_some_split {α} {l : List α} {x : α} (h : l.getLast? = some x) :
    l = l.dropLast ++ [x] := by
  obtain ⟨ys, rfl⟩ := List.getLast?_eq_some_iff.mp h
  simp

theorem nodup_snoc {α} {l : List α} {x : α} (h : l.Nodup) (hx : x ∉ l) : (l ++ [x]).Nodup := by
  rw [List.nodup_append]
  refine ⟨h, by simp, ?_⟩
  intro a ha b hb
  simp at hb
  subst hb
  intro hab
  subst hab
  exact hx ha

/-- `alloc` returns a name that is neither an input of the current layer nor an output already
produced, and keeps the invariant once that name is appended to `vars_out` -/
theorem alloc_spec (st : GenSt) (hI : Inv st) :
    (alloc st).1 ∉ st.varsIn ∧ (alloc st).1 ∉ st.varsOut ∧ (alloc st).2.varsIn = st.varsIn ∧
    (alloc st).2.varsOut = st.varsOut ∧ (alloc st).2.params = st.params ∧
    Inv { (alloc st).2 with varsOut := (alloc st).2.varsOut ++ [(alloc st).1] } := by
  obtain ⟨hnd, hbd⟩ := hI
  cases hl : st.varsCached.getLast? with
  | none =>
    have hc : st.varsCached = [] := by simpa using hl
    have ha : alloc st = (.v (st.varCount + 1), { st with varCount := st.varCount + 1 }) := by
      unfold alloc; rw [hl]
    rw [ha]
    have hfresh : Var.v (st.varCount + 1) ∉ st.varsIn ++ st.varsOut ++ st.varsCached := by
      intro hm
      have := hbd _ hm
      omega
    refine ⟨?_, ?_, rfl, rfl, rfl, ?_, ?_⟩
    · intro hm; exact hfresh (by simp [hm])
    · intro hm; exact hfresh (by simp [hm])
    · dsimp only
      simp only [hc, List.append_nil] at hnd hfresh ⊢
      rw [← List.append_assoc]
      exact nodup_snoc hnd hfresh
    · intro k hk
      dsimp only at hk ⊢
      simp only [hc, List.append_nil] at hk hbd
      simp only [List.mem_append, List.mem_singleton] at hk
      rcases hk with hk | hk | hk
      · have := hbd k (by simp [hk]); omega
      · have := hbd k (by simp [hk]); omega
      · injection hk with hk; omega
  | some x =>
    have hsplit := getLast?_eq_some_split hl
    have ha : alloc st = (x, { st with varsCached := st.varsCached.dropLast }) := by
      unfold alloc; rw [hl]
    rw [ha]
    rw [hsplit] at hnd hbd
    have hperm : (st.varsIn ++ st.varsOut ++ (st.varsCached.dropLast ++ [x])).Perm
        (st.varsIn ++ (st.varsOut ++ [x]) ++ st.varsCached.dropLast) := by
      simp only [List.append_assoc]
      apply List.Perm.append_left
      apply List.Perm.append_left
      exact List.perm_append_comm
    have hnd' := hperm.nodup_iff.mp hnd
    refine ⟨?_, ?_, rfl, rfl, rfl, hnd', ?_⟩
    · intro hm
      rw [List.nodup_append] at hnd
      exact hnd.2.2 x (by simp [hm]) x (by simp) rfl
    · intro hm
      rw [List.nodup_append] at hnd
      exact hnd.2.2 x (by simp [hm]) x (by simp) rfl
    · intro k hk
      exact hbd k ((hperm.mem_iff).mpr hk)

/-! ### run of an appended program -/

theorem exec_append {K} (o : Ops K) (θ s : List K) :
    ∀ (a b : List Stmt) (st : St K),
      exec o θ s st (a ++ b) = (exec o θ s st a).bind fun st' => exec o θ s st' b := by
  intro a
  induction a with
  | nil => intro b st; simp [exec]
  | cons c cs ih =>
    intro b st
    simp only [List.cons_append, exec]
    cases step o θ s st c with
    | none => simp
    | some st' => simp [ih]

/-! ### one hidden neuron, one hidden layer, all hidden layers -/

theorem genNeuron_correct {K} (o : Ops K) (θ s : List K) (st : GenSt) (hI : Inv st)
    (e : Env K) (out : List K) (xs ys : List K)
    (hin : Holds e st.varsIn xs) (hout : Holds e st.varsOut ys)
    (y : K) (rest : List K) (hsp : hidden? o xs (θ.drop st.params) = some (y, rest)) :
    ∃ e', step o θ s ⟨e, out⟩ (genNeuron st).1 = some ⟨e', out⟩ ∧
      Holds e' (genNeuron st).2.varsIn xs ∧ Holds e' (genNeuron st).2.varsOut (ys ++ [y]) ∧
      rest = θ.drop (genNeuron st).2.params ∧ Inv (genNeuron st).2 ∧
      (genNeuron st).2.varsIn = st.varsIn := by
  obtain ⟨hx1, hx2, hvi, hvo, hp, hI'⟩ := alloc_spec st hI
  unfold genNeuron
  generalize alloc st = r at *
  obtain ⟨x, st1⟩ := r
  simp only at hx1 hx2 hvi hvo hp hI' ⊢
  cases hθ : θ.drop st.params with
  | nil => rw [hθ] at hsp; simp [hidden?] at hsp
  | cons b θ' =>
    rw [hθ] at hsp
    obtain ⟨hb, hθ'⟩ := drop_cons_inv hθ
    simp only [hidden?, Option.map_eq_some_iff] at hsp
    obtain ⟨⟨z, r2⟩, hd, hyr⟩ := hsp
    simp only [Prod.mk.injEq] at hyr
    obtain ⟨rfl, rfl⟩ := hyr
    rw [← hθ'] at hd
    obtain ⟨h1, h2⟩ := evalTerms_mkTerms o θ e st.varsIn xs (st.params + 1) b z r2 hin hd
    refine ⟨e.set x (o.act z), ?_, ?_, ?_, ?_, ?_, ?_⟩
    · simp [step, hp, hvi, hb, h1]
    · rw [hvi]; exact hin.set_of_not_mem _ hx1
    · rw [hvo]; exact hout.snoc _ hx2
    · rw [h2, hp, hvi]
    · exact hI'
    · exact hvi

theorem genNeurons_correct {K} (o : Ops K) (θ s : List K) :
    ∀ (n : Nat) (st : GenSt), Inv st → ∀ (e : Env K) (out xs ys zs rest : List K),
      Holds e st.varsIn xs → Holds e st.varsOut ys →
      layer? (hidden? o xs) n (θ.drop st.params) = some (zs, rest) →
      ∃ e', exec o θ s ⟨e, out⟩ (genNeurons n st).1 = some ⟨e', out⟩ ∧
        Holds e' (genNeurons n st).2.varsIn xs ∧ Holds e' (genNeurons n st).2.varsOut (ys ++ zs) ∧
        rest = θ.drop (genNeurons n st).2.params ∧ Inv (genNeurons n st).2 ∧
        (genNeurons n st).2.varsIn = st.varsIn := by
  intro n
  induction n with
  | zero =>
    intro st hI e out xs ys zs rest hin hout hsp
    simp [layer?] at hsp
    obtain ⟨rfl, rfl⟩ := hsp
    exact ⟨e, by simp [genNeurons, exec], by simpa [genNeurons] using hin,
      by simpa [genNeurons] using hout, by simp [genNeurons], by simpa [genNeurons] using hI,
      by simp [genNeurons]⟩
  | succ n ih =>
    intro st hI e out xs ys zs rest hin hout hsp
    simp only [layer?, Option.bind_eq_some_iff, Option.map_eq_some_iff] at hsp
    obtain ⟨⟨y, θ1⟩, hu, ⟨zs', θ2⟩, hl, heq⟩ := hsp
    simp only [Prod.mk.injEq] at heq
    obtain ⟨rfl, rfl⟩ := heq
    obtain ⟨e1, hs1, hin1, hout1, hr1, hI1, hv1⟩ :=
      genNeuron_correct o θ s st hI e out xs ys hin hout y θ1 hu
    rw [hr1] at hl
    obtain ⟨e2, hs2, hin2, hout2, hr2, hI2, hv2⟩ :=
      ih (genNeuron st).2 hI1 e1 out xs (ys ++ [y]) zs' θ2 hin1 hout1 hl
    refine ⟨e2, ?_, ?_, ?_, ?_, ?_, ?_⟩
    · simp [genNeurons, exec, hs1, hs2]
    · simpa [genNeurons] using hin2
    · simpa [genNeurons] using hout2
    · simpa [genNeurons] using hr2
    · simpa [genNeurons] using hI2
    · simp only [genNeurons]; rw [hv2, hv1]

theorem Inv_endLayer {st : GenSt} (hI : Inv st) : Inv (endLayer st) := by
  obtain ⟨hnd, hbd⟩ := hI
  have hperm : (st.varsIn ++ st.varsOut ++ st.varsCached).Perm
      (st.varsOut ++ [] ++ (st.varsCached ++ st.varsIn)) := by
    have := @List.perm_append_comm _ st.varsIn (st.varsOut ++ st.varsCached)
    simpa [List.append_assoc] using this
  exact ⟨hperm.nodup_iff.mp hnd, fun k hk => hbd k (hperm.mem_iff.mpr hk)⟩

theorem genHidden_correct {K} (o : Ops K) (θ s : List K) :
    ∀ (layers : List Nat) (st : GenSt), Inv st → st.varsOut = [] →
      ∀ (e : Env K) (out xs h rest : List K), Holds e st.varsIn xs →
      hiddenAll? o xs layers (θ.drop st.params) = some (h, rest) →
      ∃ e', exec o θ s ⟨e, out⟩ (genHidden layers st).1 = some ⟨e', out⟩ ∧
        Holds e' (genHidden layers st).2.varsIn h ∧
        rest = θ.drop (genHidden layers st).2.params := by
  intro layers
  induction layers with
  | nil =>
    intro st _ _ e out xs h rest hin hsp
    simp [hiddenAll?] at hsp
    obtain ⟨rfl, rfl⟩ := hsp
    exact ⟨e, by simp [genHidden, exec], by simpa [genHidden] using hin, by simp [genHidden]⟩
  | cons w ws ih =>
    intro st hI hvo e out xs h rest hin hsp
    simp only [hiddenAll?, Option.bind_eq_some_iff] at hsp
    obtain ⟨⟨ys, θ1⟩, hl, hrest⟩ := hsp
    have hout : Holds e st.varsOut [] := by rw [hvo]; exact Holds.nil e
    obtain ⟨e1, hs1, _, hout1, hr1, hI1, _⟩ :=
      genNeurons_correct o θ s w st hI e out xs [] ys θ1 hin hout hl
    simp only [List.nil_append] at hout1
    rw [hr1] at hrest
    obtain ⟨e2, hs2, hin2, hr2⟩ :=
      ih (endLayer (genNeurons w st).2) (Inv_endLayer hI1) rfl e1 out ys h rest hout1 hrest
    refine ⟨e2, ?_, ?_, ?_⟩
    · simp [genHidden, exec_append, hs1, hs2]
    · simpa [genHidden] using hin2
    · simpa [genHidden] using hr2

/-! ### the output layer -/

theorem genOuts_correct {K} (o : Ops K) (θ s : List K) (e : Env K) (vs : List Var) (h : List K)
    (hin : Holds e vs h) :
    ∀ (n p : Nat) (pre post zs rest : List K), post.length = n →
      layer? (outUnit? o h) n (θ.drop p) = some (zs, rest) →
      exec o θ s ⟨e, pre ++ post⟩ (genOuts vs n pre.length p).1 = some ⟨e, pre ++ zs⟩ ∧
      rest = θ.drop (genOuts vs n pre.length p).2 := by
  intro n
  induction n with
  | zero =>
    intro p pre post zs rest hpost hsp
    simp [layer?] at hsp
    obtain ⟨rfl, rfl⟩ := hsp
    have : post = [] := by simpa using hpost
    subst this
    simp [genOuts, exec]
  | succ n ih =>
    intro p pre post zs rest hpost hsp
    simp only [layer?, Option.bind_eq_some_iff, Option.map_eq_some_iff] at hsp
    obtain ⟨⟨y, θ1⟩, hu, ⟨zs', θ2⟩, hl, heq⟩ := hsp
    simp only [Prod.mk.injEq] at heq
    obtain ⟨rfl, rfl⟩ := heq
    cases post with
    | nil => simp at hpost
    | cons a post' =>
      simp only [List.length_cons, Nat.add_right_cancel_iff] at hpost
      -- the unit's parameters
      cases hθ : θ.drop p with
      | nil => rw [hθ] at hu; simp [outUnit?] at hu
      | cons m θa =>
        obtain ⟨hm, hθa⟩ := drop_cons_inv hθ
        cases hθb : θ.drop (p + 1) with
        | nil => rw [hθ, ← hθa, hθb] at hu; simp [outUnit?] at hu
        | cons b θc =>
          obtain ⟨hb, hθc⟩ := drop_cons_inv hθb
          rw [hθ, ← hθa, hθb] at hu
          simp only [outUnit?, Option.map_eq_some_iff] at hu
          obtain ⟨⟨z, r2⟩, hd, hyr⟩ := hu
          simp only [Prod.mk.injEq] at hyr
          obtain ⟨rfl, rfl⟩ := hyr
          rw [← hθc] at hd
          obtain ⟨h1, h2⟩ := evalTerms_mkTerms o θ e vs h (p + 2) b z r2 hin hd
          rw [h2] at hl
          have hlen : (pre ++ [o.mul m (o.act z)]).length = pre.length + 1 := by simp
          have := ih (p + 2 + vs.length) (pre ++ [o.mul m (o.act z)]) post' zs' θ2 hpost
            (by rw [hin.length] at hl ⊢; exact hl)
          rw [hlen] at this
          obtain ⟨hx, hr⟩ := this
          refine ⟨?_, ?_⟩
          · simp only [genOuts, exec, step, hm, hb, h1, Option.bind_some, Option.bind_eq_bind]
            have hlt : pre.length < (pre ++ a :: post').length := by simp
            simp only [hlt, ↓reduceIte, Option.bind_some]
            have hset : (pre ++ a :: post').set pre.length (o.mul m (o.act z))
                = (pre ++ [o.mul m (o.act z)]) ++ post' := by
              simp [List.set_append_right]
            rw [hset, hx]
            simp
          · simpa [genOuts] using hr

/-! ### caching the state vector -/

theorem genLoads_correct {K} (o : Ops K) (θ s : List K) :
    ∀ (n i : Nat) (vars : List Var) (e : Env K) (out : List K),
      Holds e vars (s.take i) → (∀ v ∈ vars, ∃ j, v = Var.s j ∧ j < i) → vars.Nodup →
      i + n ≤ s.length →
      ∃ e', exec o θ s ⟨e, out⟩ (genLoads n i vars).1 = some ⟨e', out⟩ ∧
        Holds e' (genLoads n i vars).2 (s.take (i + n)) ∧ (genLoads n i vars).2.Nodup ∧
        ∀ v ∈ (genLoads n i vars).2, ∃ j, v = Var.s j := by
  intro n
  induction n with
  | zero =>
    intro i vars e out hh hs hnd _
    refine ⟨e, by simp [genLoads, exec], by simpa [genLoads] using hh, by simpa [genLoads] using hnd, ?_⟩
    intro v hv
    obtain ⟨j, hj, _⟩ := hs v (by simpa [genLoads] using hv)
    exact ⟨j, hj⟩
  | succ n ih =>
    intro i vars e out hh hs hnd hlen
    have hi : i < s.length := by omega
    have hfresh : Var.s i ∉ vars := by
      intro hm
      obtain ⟨j, hj, hlt⟩ := hs _ hm
      injection hj with hj
      omega
    have hh' : Holds (e.set (Var.s i) s[i]) (vars ++ [Var.s i]) (s.take (i + 1)) := by
      rw [List.take_succ_eq_append_getElem hi]
      exact hh.snoc _ hfresh
    have hs' : ∀ v ∈ vars ++ [Var.s i], ∃ j, v = Var.s j ∧ j < i + 1 := by
      intro v hv
      simp only [List.mem_append, List.mem_singleton] at hv
      rcases hv with hv | hv
      · obtain ⟨j, hj, hlt⟩ := hs v hv
        exact ⟨j, hj, by omega⟩
      · exact ⟨i, hv, by omega⟩
    have hnd' : (vars ++ [Var.s i]).Nodup := nodup_snoc hnd hfresh
    obtain ⟨e', hx, hh2, hnd2, hs2⟩ :=
      ih (i + 1) (vars ++ [Var.s i]) (e.set (Var.s i) s[i]) out hh' hs' hnd' (by omega)
    refine ⟨e', ?_, ?_, ?_, ?_⟩
    · simp [genLoads, exec, step, List.getElem?_eq_getElem hi, hx]
    · have : i + (n + 1) = i + 1 + n := by omega
      rw [this]; simpa [genLoads] using hh2
    · simpa [genLoads] using hnd2
    · simpa [genLoads] using hs2

/-! ### the specification is total on long enough parameter vectors -/

theorem dot?_total {K} (o : Ops K) :
    ∀ (xs : List K) (acc : K) (θ : List K), xs.length ≤ θ.length →
      ∃ z rest, dot? o acc xs θ = some (z, rest) ∧ rest.length = θ.length - xs.length := by
  intro xs
  induction xs with
  | nil => intro acc θ _; exact ⟨acc, θ, by simp [dot?], by simp⟩
  | cons x xs ih =>
    intro acc θ h
    cases θ with
    | nil => simp at h
    | cons w θ =>
      simp only [List.length_cons, Nat.add_le_add_iff_right] at h
      obtain ⟨z, rest, h1, h2⟩ := ih (o.add acc (o.mul w x)) θ h
      exact ⟨z, rest, by simp [dot?, h1], by simp only [List.length_cons, h2]; omega⟩

theorem hidden?_total {K} (o : Ops K) (xs θ : List K) (h : xs.length + 1 ≤ θ.length) :
    ∃ y rest, hidden? o xs θ = some (y, rest) ∧ rest.length = θ.length - (xs.length + 1) := by
  cases θ with
  | nil => simp at h
  | cons b θ =>
    simp only [List.length_cons, Nat.add_le_add_iff_right] at h
    obtain ⟨z, rest, h1, h2⟩ := dot?_total o xs b θ h
    exact ⟨o.act z, rest, by simp [hidden?, h1], by simp only [List.length_cons, h2]; omega⟩

theorem outUnit?_total {K} (o : Ops K) (xs θ : List K) (h : xs.length + 2 ≤ θ.length) :
    ∃ y rest, outUnit? o xs θ = some (y, rest) ∧ rest.length = θ.length - (xs.length + 2) := by
  match θ, h with
  | m :: b :: θ, h =>
    simp only [List.length_cons] at h
    obtain ⟨z, rest, h1, h2⟩ := dot?_total o xs b θ (by omega)
    exact ⟨o.mul m (o.act z), rest, by simp [outUnit?, h1], by simp only [List.length_cons, h2]; omega⟩

theorem layer?_total {K} (unit : List K → Option (K × List K)) (c : Nat)
    (hu : ∀ θ : List K, c ≤ θ.length → ∃ y rest, unit θ = some (y, rest) ∧
      rest.length = θ.length - c) :
    ∀ (n : Nat) (θ : List K), n * c ≤ θ.length →
      ∃ ys rest, layer? unit n θ = some (ys, rest) ∧ ys.length = n ∧
        rest.length = θ.length - n * c := by
  intro n
  induction n with
  | zero => intro θ _; exact ⟨[], θ, by simp [layer?], rfl, by simp⟩
  | succ n ih =>
    intro θ h
    rw [Nat.succ_mul] at h
    obtain ⟨y, r1, h1, hl1⟩ := hu θ (by omega)
    obtain ⟨ys, r2, h2, hl2, hl3⟩ := ih r1 (by omega)
    refine ⟨y :: ys, r2, by simp [layer?, h1, h2], by simp [hl2], ?_⟩
    rw [Nat.succ_mul]; omega

theorem layeredRest?_total {K} (o : Ops K) (cd : Nat) :
    ∀ (layers : List Nat) (s θ : List K), paramCount s.length cd layers ≤ θ.length →
      ∃ ys rest, (hiddenAll? o s layers θ).bind (fun (h, θ1) => layer? (outUnit? o h) cd θ1)
          = some (ys, rest) ∧ ys.length = cd ∧
        rest.length = θ.length - paramCount s.length cd layers := by
  intro layers
  induction layers with
  | nil =>
    intro s θ h
    simp only [paramCount] at h ⊢
    obtain ⟨ys, rest, h1, h2, h3⟩ := layer?_total (outUnit? o s) (s.length + 2)
      (fun θ hθ => outUnit?_total o s θ hθ) cd θ h
    exact ⟨ys, rest, by simp [hiddenAll?, h1], h2, h3⟩
  | cons w ws ih =>
    intro s θ h
    simp only [paramCount] at h ⊢
    obtain ⟨ys, r1, h1, h2, h3⟩ := layer?_total (hidden? o s) (s.length + 1)
      (fun θ hθ => hidden?_total o s θ hθ) w θ (by omega)
    obtain ⟨zs, r2, h4, h5, h6⟩ := ih ys r1 (by rw [h2]; omega)
    refine ⟨zs, r2, ?_, h5, ?_⟩
    · simp only [hiddenAll?, h1, Option.bind_some]; exact h4
    · rw [h6, h2]; omega

/-! ### parameter bookkeeping of the generator -/

theorem mkTerms_w (p : Nat) (vs : List Var) : (mkTerms p vs).map (·.w) = List.range' p vs.length := by
  induction vs generalizing p with
  | nil => simp [mkTerms]
  | cons v vs ih => simp [mkTerms, ih, List.range'_succ]

theorem alloc_fields (st : GenSt) :
    (alloc st).2.varsIn = st.varsIn ∧ (alloc st).2.varsOut = st.varsOut ∧
    (alloc st).2.params = st.params := by
  unfold alloc
  cases st.varsCached.getLast? <;> simp

theorem genNeuron_idx (st : GenSt) :
    (genNeuron st).1.paramIdx = List.range' st.params (st.varsIn.length + 1) ∧
    (genNeuron st).2.params = st.params + (st.varsIn.length + 1) ∧
    (genNeuron st).2.varsIn = st.varsIn ∧
    (genNeuron st).2.varsOut.length = st.varsOut.length + 1 := by
  obtain ⟨h1, h2, h3⟩ := alloc_fields st
  unfold genNeuron
  generalize alloc st = r at *
  obtain ⟨x, st1⟩ := r
  simp only at h1 h2 h3 ⊢
  refine ⟨?_, ?_, h1, ?_⟩
  · simp [Stmt.paramIdx, mkTerms_w, h1, h3, List.range'_succ]
  · rw [h1, h3]; omega
  · simp [h2]

theorem genNeurons_idx : ∀ (n : Nat) (st : GenSt),
    (genNeurons n st).1.flatMap Stmt.paramIdx = List.range' st.params (n * (st.varsIn.length + 1)) ∧
    (genNeurons n st).2.params = st.params + n * (st.varsIn.length + 1) ∧
    (genNeurons n st).2.varsIn = st.varsIn ∧
    (genNeurons n st).2.varsOut.length = st.varsOut.length + n := by
  intro n
  induction n with
  | zero => intro st; simp [genNeurons]
  | succ n ih =>
    intro st
    obtain ⟨a1, a2, a3, a4⟩ := genNeuron_idx st
    obtain ⟨b1, b2, b3, b4⟩ := ih (genNeuron st).2
    simp only [genNeurons, List.flatMap_cons]
    refine ⟨?_, ?_, ?_, ?_⟩
    · rw [a1, b1, a2, a3, Nat.succ_mul, Nat.add_comm (n * _)]
      exact (List.range'_append_1 ..)
    · rw [b2, a2, a3, Nat.succ_mul]; omega
    · rw [b3, a3]
    · rw [b4, a4]; omega

theorem genOuts_idx (vs : List Var) : ∀ (n i p : Nat),
    (genOuts vs n i p).1.flatMap Stmt.paramIdx = List.range' p (n * (vs.length + 2)) ∧
    (genOuts vs n i p).2 = p + n * (vs.length + 2) ∧
    ∀ c ∈ (genOuts vs n i p).1, ∃ k m b ts, c = Stmt.out k m b ts ∧ i ≤ k ∧ k < i + n := by
  intro n
  induction n with
  | zero => intro i p; simp [genOuts]
  | succ n ih =>
    intro i p
    obtain ⟨b1, b2, b3⟩ := ih (i + 1) (p + 2 + vs.length)
    simp only [genOuts, List.flatMap_cons]
    refine ⟨?_, ?_, ?_⟩
    · rw [b1, Nat.succ_mul, Nat.add_comm (n * _)]
      have : (Stmt.out i p (p + 1) (mkTerms (p + 2) vs)).paramIdx = List.range' p (vs.length + 2) := by
        simp [Stmt.paramIdx, mkTerms_w, List.range'_succ]
      rw [this]
      have h2 : p + 2 + vs.length = p + (vs.length + 2) := by omega
      rw [h2]
      exact (List.range'_append_1 ..)
    · rw [b2, Nat.succ_mul]; omega
    · intro c hc
      simp only [List.mem_cons] at hc
      rcases hc with hc | hc
      · exact ⟨i, p, p + 1, _, hc, by omega, by omega⟩
      · obtain ⟨k, m, b, ts, h1, h2, h3⟩ := b3 c hc
        exact ⟨k, m, b, ts, h1, by omega, by omega⟩

theorem genNeurons_stmts : ∀ (n : Nat) (st : GenSt),
    ∀ c ∈ (genNeurons n st).1, ∃ x b ts, c = Stmt.neuron x b ts := by
  intro n
  induction n with
  | zero => intro st; simp [genNeurons]
  | succ n ih =>
    intro st c hc
    simp only [genNeurons, List.mem_cons] at hc
    rcases hc with hc | hc
    · exact ⟨_, _, _, by rw [hc]; unfold genNeuron; rfl⟩
    · exact ih _ c hc

theorem genHidden_idx : ∀ (layers : List Nat) (st : GenSt), st.varsOut = [] →
    ∃ k, (genHidden layers st).1.flatMap Stmt.paramIdx = List.range' st.params k ∧
      (genHidden layers st).2.params = st.params + k ∧
      k + paramCount (genHidden layers st).2.varsIn.length cd []
        = paramCount st.varsIn.length cd layers ∧
      (∀ c ∈ (genHidden layers st).1, ∃ x b ts, c = Stmt.neuron x b ts) := by
  intro layers
  induction layers with
  | nil => intro st _; exact ⟨0, by simp [genHidden], by simp [genHidden], by simp [genHidden], by simp [genHidden]⟩
  | cons w ws ih =>
    intro st hvo
    obtain ⟨a1, a2, a3, a4⟩ := genNeurons_idx w st
    obtain ⟨k, b1, b2, b3, b4⟩ := ih (endLayer (genNeurons w st).2) rfl
    have hlen : (endLayer (genNeurons w st).2).varsIn.length = w := by
      simp [endLayer, a4, hvo]
    have hpar : (endLayer (genNeurons w st).2).params = (genNeurons w st).2.params := rfl
    refine ⟨w * (st.varsIn.length + 1) + k, ?_, ?_, ?_, ?_⟩
    · simp only [genHidden, List.flatMap_append]
      rw [a1, b1, hpar, a2]
      exact (List.range'_append_1 ..)
    · simp only [genHidden]; rw [b2, hpar, a2]; omega
    · simp only [genHidden]
      rw [hlen] at b3
      simp only [paramCount] at b3 ⊢
      omega
    · intro c hc
      simp only [genHidden, List.mem_append] at hc
      rcases hc with hc | hc
      · exact genNeurons_stmts w st c hc
      · exact b4 c hc

theorem genLoads_stmts : ∀ (n i : Nat) (vars : List Var),
    (genLoads n i vars).2.length = vars.length + n ∧
    ∀ c ∈ (genLoads n i vars).1, ∃ x k, c = Stmt.load x k ∧ k < i + n := by
  intro n
  induction n with
  | zero => intro i vars; simp [genLoads]
  | succ n ih =>
    intro i vars
    obtain ⟨h1, h2⟩ := ih (i + 1) (vars ++ [Var.s i])
    refine ⟨by simp only [genLoads]; rw [h1]; simp; omega, ?_⟩
    intro c hc
    simp only [genLoads, List.mem_cons] at hc
    rcases hc with hc | hc
    · exact ⟨_, i, hc, by omega⟩
    · obtain ⟨x, k, hk, hlt⟩ := h2 c hc
      exact ⟨x, k, hk, by omega⟩

end AnnGen
