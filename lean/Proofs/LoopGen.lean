/-!
Helper lemmas for the generated loop kernels (`lean/Gen/{TourLength,QapEval,PlanLength}.lean`, written by
`harness/translate/loop2lean.py`).

Every generated file carries its own copy of a small prelude (checked accessors with numpy's negative-index wrap,
`range`, `enumerate`) inside its namespace, so that the generated files do not depend on each other.  This file holds a
REFERENCE COPY of that prelude (namespace `LoopGen`) and the lemmas about it; `Props/CxxGen.lean` connects the copy of
its generated file to the reference copy by `rfl` (the texts are identical) and then uses the lemmas.
Core Lean only.
-/
namespace LoopGen

def idx? (len : Nat) (v : Int) : Option Nat :=
  if v < 0 then (if 0 ≤ v + len then some (v + len).toNat else none)
  else if v < len then some v.toNat else none

def get1? (a : List Int) (i : Int) : Option Int := (idx? a.length i).bind (a[·]?)

def get2? (a : List (List Int)) (i j : Int) : Option Int :=
  (idx? a.length i).bind fun r => (a[r]?).bind fun row => (idx? row.length j).bind (row[·]?)

def pyRange (a b : Int) : List Int := (List.range (b - a).toNat).map fun (k : Nat) => a + (k : Int)

def pyEnumerate (a : List Int) : List (Int × Int) := a.zipIdx.map fun p => ((p.2 : Int), p.1)

def getCol? (a : List (List Int)) (j : Int) : Option (List Int) :=
  a.mapM fun row => (idx? row.length j).bind (row[·]?)

def set1? (a : List Int) (i : Int) (v : Int) : Option (List Int) := (idx? a.length i).map fun k => a.set k v

def set2? (a : List (List Int)) (i j : Int) (v : Int) : Option (List (List Int)) :=
  (idx? a.length i).bind fun r => (a[r]?).bind fun row => (idx? row.length j).map fun c => a.set r (row.set c v)

def fill1 (a : List Int) (v : Int) : List Int := a.map fun _ => v
def fill2 (a : List (List Int)) (v : Int) : List (List Int) := a.map fun row => row.map fun _ => v

def pySlice (a : List Int) (lo hi : Int) : List Int :=
  let norm := fun (k : Int) => if k < 0 then max (k + a.length) 0 else min k a.length
  (a.drop (norm lo).toNat).take ((norm hi).toNat - (norm lo).toNat)

def listMin? : List Int → Option Int
  | [] => none
  | x :: xs => some (xs.foldl min x)
def listMax? : List Int → Option Int
  | [] => none
  | x :: xs => some (xs.foldl max x)

def sliceMin? (a : List Int) (lo hi : Int) : Option Int := listMin? (pySlice a lo hi)
def sliceMax? (a : List Int) (lo hi : Int) : Option Int := listMax? (pySlice a lo hi)

def getSlice (a : List Int) (lo hi : Option Int) (step : Int) : List Int :=
  let len : Int := a.length
  if step > 0 then
    let norm := fun (k : Int) => if k < 0 then max (k + len) 0 else min k len
    let l := match lo with | none => 0 | some k => norm k
    let h := match hi with | none => len | some k => norm k
    (a.drop l.toNat).take (h.toNat - l.toNat)
  else
    let norm := fun (k : Int) => if k < 0 then max (k + len) (-1) else min k (len - 1)
    let l := match lo with | none => len - 1 | some k => norm k
    let h := match hi with | none => -1 | some k => norm k
    ((a.take (l + 1).toNat).drop (h + 1).toNat).reverse

def setSlice? (a : List Int) (lo hi : Option Int) (v : List Int) : Option (List Int) :=
  let len : Int := a.length
  let norm := fun (k : Int) => if k < 0 then max (k + len) 0 else min k len
  let l := match lo with | none => 0 | some k => norm k
  let h := match hi with | none => len | some k => norm k
  let cnt := h.toNat - l.toNat
  if v.length = cnt then some (a.take l.toNat ++ v ++ a.drop (l.toNat + cnt)) else none

def gather? (a idx : List Int) : Option (List Int) := idx.mapM (get1? a)

def onesB? (n : Int) : Option (List Bool) := if n < 0 then none else some (List.replicate n.toNat true)

def getB? (u : List Bool) (i : Int) : Option Bool := (idx? u.length i).bind (u[·]?)
def setB? (u : List Bool) (i : Int) (v : Bool) : Option (List Bool) := (idx? u.length i).map fun k => u.set k v

def pyFloorDiv (a b : Int) : Option Int := if b = 0 then none else some (a.fdiv b)

def pyMod (a b : Int) : Option Int := if b = 0 then none else some (a.fmod b)

/-- a non-negative index value is inside the array iff it is below the length (no wrap) -/
theorem idx?_ofNat (len i : Nat) : idx? len (i : Int) = if i < len then some i else none := by
  unfold idx?; split <;> split <;> simp_all <;> omega

/-- on an index that is inside, the checked access is the plain list access -/
theorem get1?_ofNat (a : List Int) (i : Nat) : get1? a i = a[i]? := by
  unfold get1?
  rw [idx?_ofNat]
  by_cases hi : i < a.length
  · simp [hi]
  · simp [hi] <;> omega

/-- with natural-number indices the 2-D access is the accessor of the hand-written models
(`Tsp.entry?`, `Qap.entry?`: `(a[i]?).bind (·[j]?)`) -/
theorem get2?_ofNat (a : List (List Int)) (i j : Nat) : get2? a i j = (a[i]?).bind (·[j]?) := by
  unfold get2?
  simp only [idx?_ofNat]
  by_cases hi : i < a.length
  · by_cases hj : j < a[i].length
    · simp [hi, hj]
    · simp [hi, hj] <;> omega
  · simp [hi] <;> omega

/-- the literal index `-1`, written out as `len - 1`, reads the last element (`none` on an empty array) -/
theorem get1?_len_sub_one (a : List Int) : get1? a (↑a.length - 1) = a.getLast? := by
  cases a with
  | nil => simp [get1?, idx?]
  | cons h t =>
    have : (((h :: t).length : Nat) : Int) - 1 = ((t.length : Nat) : Int) := by simp
    rw [this, get1?_ofNat]
    simp [List.getLast?_eq_getElem?]

/-- a column with a natural-number index: every row must have that position -/
theorem getCol?_ofNat (a : List (List Int)) (j : Nat) : getCol? a j = a.mapM (·[j]?) := by
  unfold getCol?
  congr 1
  funext row
  rw [idx?_ofNat]
  by_cases h : j < row.length
  · simp [h]
  · simp [h] <;> omega

/-- a write at a position that is inside -/
theorem set1?_ofNat (a : List Int) (i : Nat) (v : Int) :
    set1? a i v = if i < a.length then some (a.set i v) else none := by
  unfold set1?
  rw [idx?_ofNat]
  by_cases h : i < a.length <;> simp [h]

theorem set2?_ofNat (a : List (List Int)) (i j : Nat) (v : Int) :
    set2? a i j v = (a[i]?).bind fun row => if j < row.length then some (a.set i (row.set j v)) else none := by
  unfold set2?
  simp only [idx?_ofNat]
  by_cases hi : i < a.length
  · by_cases hj : j < a[i].length <;> simp [hi, hj]
  · simp [hi] <;> omega

/-- `a[0:hi]` with `hi ≥ 0` is a prefix (numpy clips `hi` to the length) -/
theorem pySlice_zero_nonneg (a : List Int) (hi : Int) (h : 0 ≤ hi) : pySlice a 0 hi = a.take hi.toNat := by
  unfold pySlice
  have h1 : ¬ hi < 0 := by omega
  simp only [Int.lt_irrefl, if_false, h1]
  have h2 : (min (0 : Int) (a.length : Int)).toNat = 0 := by omega
  rw [h2, List.drop_zero, Nat.sub_zero]
  by_cases h3 : hi ≤ a.length
  · rw [Int.min_eq_left h3]
  · have h4 : min hi (a.length : Int) = a.length := by omega
    rw [h4, Int.toNat_natCast, List.take_of_length_le (Nat.le_refl _), List.take_of_length_le (by omega)]

/-- a missing lower bound of a forward slice is `0` -/
theorem setSlice?_none_lo (a : List Int) (hi : Option Int) (v : List Int) :
    setSlice? a none hi v = setSlice? a (some 0) hi v := by
  unfold setSlice?
  have h1 : ¬ ((0 : Int) < 0) := by omega
  have h3 : min (0 : Int) (a.length : Int) = 0 := by omega
  simp [h1, h3]

/-- `a[0:j+1:1] = a[j::-1]` for `j` inside the array: the prefix of length `j + 1` is reversed -/
theorem setSlice_rev0 (a : List Int) (j : Nat) (hj : j < a.length) :
    setSlice? a (some 0) (some ((j : Int) + 1)) (getSlice a (some (j : Int)) none (-1))
      = some ((a.take (j + 1)).reverse ++ a.drop (j + 1)) := by
  have g : getSlice a (some (j : Int)) none (-1) = (a.take (j + 1)).reverse := by
    unfold getSlice
    have h1 : ¬ ((-1 : Int) > 0) := by omega
    have h2 : ¬ ((j : Int) < 0) := by omega
    have h3 : min (j : Int) ((a.length : Int) - 1) = (j : Int) := by omega
    have h4 : ((j : Int) + 1).toNat = j + 1 := by omega
    simp [h2, h3, h4]
  rw [g]
  unfold setSlice?
  have h1 : ¬ ((0 : Int) < 0) := by omega
  have h2 : ¬ ((j : Int) + 1 < 0) := by omega
  have h3 : min (0 : Int) (a.length : Int) = 0 := by omega
  have h4 : min ((j : Int) + 1) (a.length : Int) = (j : Int) + 1 := by omega
  have h5 : ((j : Int) + 1).toNat = j + 1 := by omega
  have h6 : min (j + 1) a.length = j + 1 := by omega
  simp [h1, h2, h3, h4, h5, h6]

/-- `a[i:j+1:1] = a[j:i-1:-1]` for `0 < i` and `i`, `j` inside the array: the segment `i..j` is reversed
(both slices are empty when `j < i`) -/
theorem setSlice_revI (a : List Int) (i j : Nat) (hi0 : 0 < i) (hi : i < a.length) (hj : j < a.length) :
    setSlice? a (some (i : Int)) (some ((j : Int) + 1)) (getSlice a (some (j : Int)) (some ((i : Int) - 1)) (-1))
      = some (if i ≤ j then a.take i ++ ((a.take (j + 1)).drop i).reverse ++ a.drop (j + 1) else a) := by
  have g : getSlice a (some (j : Int)) (some ((i : Int) - 1)) (-1) = ((a.take (j + 1)).drop i).reverse := by
    unfold getSlice
    have h1 : ¬ ((-1 : Int) > 0) := by omega
    have h2 : ¬ ((j : Int) < 0) := by omega
    have h2' : ¬ ((i : Int) - 1 < 0) := by omega
    have h3 : min (j : Int) ((a.length : Int) - 1) = (j : Int) := by omega
    have h3' : min ((i : Int) - 1) ((a.length : Int) - 1) = (i : Int) - 1 := by omega
    have h4 : ((j : Int) + 1).toNat = j + 1 := by omega
    have h4' : ((i : Int) - 1 + 1).toNat = i := by omega
    simp [h2, h2', h3, h3', h4]
  rw [g]
  unfold setSlice?
  have h1 : ¬ ((i : Int) < 0) := by omega
  have h2 : ¬ ((j : Int) + 1 < 0) := by omega
  have h3 : min (i : Int) (a.length : Int) = i := by omega
  have h4 : min ((j : Int) + 1) (a.length : Int) = (j : Int) + 1 := by omega
  have h5 : ((j : Int) + 1).toNat = j + 1 := by omega
  simp only [h1, h2, h3, h4, h5, if_false, Int.toNat_natCast, List.length_reverse, List.length_drop, List.length_take]
  have h6 : min (j + 1) a.length = j + 1 := by omega
  rw [h6, if_pos rfl]
  by_cases hij : i ≤ j
  · have h7 : i + (j + 1 - i) = j + 1 := by omega
    simp [hij, h7]
  · have h7 : j + 1 - i = 0 := by omega
    have h8 : List.drop i (List.take (j + 1) a) = [] := by
      apply List.drop_eq_nil_of_le; simp; omega
    simp [hij, h7, h8]

/-- `for i in range(len(l))` enumerates the positions of `l` -/
theorem range_length_eq_zipIdx {α : Type} (l : List α) :
    (List.range l.length).map (fun (k : Nat) => (k : Int)) = l.zipIdx.map fun p => (p.2 : Int) := by
  have h := List.zipIdx_map_snd 0 l
  rw [← List.range_eq_range'] at h
  rw [← h, List.map_map]
  rfl

theorem lt_of_getElem? {α : Type} {l : List α} {i : Nat} {v : α} (h : l[i]? = some v) : i < l.length := by
  rcases Nat.lt_or_ge i l.length with h' | h'
  · exact h'
  · simp [List.getElem?_eq_none h'] at h

/-- `range(n)` for `n ≥ 0` -/
theorem pyRange_zero_ofNat (n : Nat) : pyRange 0 (n : Int) = (List.range n).map fun (k : Nat) => (k : Int) := by
  simp [pyRange]

/-! ### simulation of a generated `for` loop by a hand-written fold

The generated loops are `forIn l s body` in the `Option` monad with a body that never `break`s; the hand-written
models are recursive functions which are (by a lemma about the model alone) `List.foldlM step`.  `forIn_map_rel`
reduces "the two loops are related" to "one execution of the two bodies is related" — a loop-free statement
that `simp`/`split`/`omega` decide whatever the generated text looks like. -/

variable {α α' β γ : Type}

/-- results of two partial computations are related: both fail, or both succeed with related values -/
def OptRel (R : β → γ → Prop) : Option β → Option γ → Prop
  | some b, some c => R b c
  | none, none => True
  | _, _ => False

/-- one execution of a generated loop body (`yield` only) against one step of the model -/
def StepRel (R : β → γ → Prop) : Option (ForInStep β) → Option γ → Prop
  | some (.yield b), some c => R b c
  | none, none => True
  | _, _ => False

theorem forIn_map_rel (R : β → γ → Prop) (e : α' → α) (f : α → β → Option (ForInStep β))
    (step : γ → α' → Option γ) (h : ∀ a s c, R s c → StepRel R (f (e a) s) (step c a)) (l : List α') :
    ∀ s c, R s c → OptRel R (forIn (l.map e) s f) (l.foldlM step c) := by
  induction l with
  | nil => intro s c hR; simpa [OptRel] using hR
  | cons a r ih =>
    intro s c hR
    have h1 := h a s c hR
    simp only [List.map_cons, List.forIn_cons, List.foldlM_cons]
    cases hf : f (e a) s with
    | none =>
      cases hs : step c a with
      | none => simp [OptRel]
      | some c' => simp [hf, hs, StepRel] at h1
    | some st =>
      cases hs : step c a with
      | none => cases st <;> simp [hf, hs, StepRel] at h1
      | some c' =>
        cases st with
        | done b => simp [hf, hs, StepRel] at h1
        | yield b =>
          simp only [hf, hs, StepRel] at h1
          exact ih b c' h1

/-- the same with the knowledge that the element comes from the list -/
theorem forIn_map_rel_mem (R : β → γ → Prop) (e : α' → α) (f : α → β → Option (ForInStep β))
    (step : γ → α' → Option γ) (l : List α') (h : ∀ a ∈ l, ∀ s c, R s c → StepRel R (f (e a) s) (step c a)) :
    ∀ s c, R s c → OptRel R (forIn (l.map e) s f) (l.foldlM step c) := by
  induction l with
  | nil => intro s c hR; simpa [OptRel] using hR
  | cons a r ih =>
    intro s c hR
    have h1 := h a (by simp) s c hR
    have ih' := ih (fun a' ha' => h a' (by simp [ha']))
    simp only [List.map_cons, List.forIn_cons, List.foldlM_cons]
    cases hf : f (e a) s with
    | none =>
      cases hs : step c a with
      | none => simp [OptRel]
      | some c' => simp [hf, hs, StepRel] at h1
    | some st =>
      cases hs : step c a with
      | none => cases st <;> simp [hf, hs, StepRel] at h1
      | some c' =>
        cases st with
        | done b => simp [hf, hs, StepRel] at h1
        | yield b =>
          simp only [hf, hs, StepRel] at h1
          exact ih' b c' h1

/-- a fold over `(element, position)` pairs that ignores the position -/
theorem foldlM_zipIdx_fst {α : Type} (step : γ → α → Option γ) (l : List α) (k : Nat) (c : γ) :
    (l.zipIdx k).foldlM (fun c p => step c p.1) c = l.foldlM step c := by
  induction l generalizing k c with
  | nil => rfl
  | cons a r ih =>
    simp only [List.zipIdx_cons, List.foldlM_cons]
    cases step c a with
    | none => rfl
    | some c' => exact ih _ _

theorem forIn_rel (R : β → γ → Prop) (f : α → β → Option (ForInStep β))
    (step : γ → α → Option γ) (h : ∀ a s c, R s c → StepRel R (f a s) (step c a)) (l : List α) :
    ∀ s c, R s c → OptRel R (forIn l s f) (l.foldlM step c) := by
  have := forIn_map_rel R id f step h l
  simpa using this

/-- related by "the model value is a function of the generated value" -/
theorem OptRel.map_eq {π : β → γ} {o : Option β} {o' : Option γ} (h : OptRel (fun b c => c = π b) o o') :
    o.map π = o' := by
  cases o <;> cases o' <;> simp_all [OptRel]

/-- one execution of a generated loop body that may `break` against a model step that may stop the loop -/
def StepRel2 (R : β → γ → Prop) : Option (ForInStep β) → Option (ForInStep γ) → Prop
  | some (.yield b), some (.yield c) => R b c
  | some (.done b), some (.done c) => R b c
  | none, none => True
  | _, _ => False

theorem StepRel2.of_eq {o o' : Option (ForInStep β)} (h : o = o') : StepRel2 (fun b c => c = b) o o' := by
  subst h
  cases o with
  | none => simp [StepRel2]
  | some st => cases st <;> simp [StepRel2]

/-- the same reduction for loops with `break`: the model side is itself a `forIn` -/
theorem forIn_map_rel_break (R : β → γ → Prop) (e : α' → α) (f : α → β → Option (ForInStep β))
    (g : α' → γ → Option (ForInStep γ)) (h : ∀ a s c, R s c → StepRel2 R (f (e a) s) (g a c)) (l : List α') :
    ∀ s c, R s c → OptRel R (forIn (l.map e) s f) (forIn l c g) := by
  induction l with
  | nil => intro s c hR; simpa [OptRel] using hR
  | cons a r ih =>
    intro s c hR
    have h1 := h a s c hR
    simp only [List.map_cons, List.forIn_cons]
    cases hf : f (e a) s with
    | none =>
      cases hs : g a c with
      | none => simp [OptRel]
      | some c' => simp [hf, hs, StepRel2] at h1
    | some st =>
      cases hs : g a c with
      | none => cases st <;> simp [hf, hs, StepRel2] at h1
      | some ct =>
        cases st with
        | done b =>
          cases ct with
          | done c' => simp only [hf, hs, StepRel2] at h1; simpa [OptRel] using h1
          | yield c' => simp [hf, hs, StepRel2] at h1
        | yield b =>
          cases ct with
          | done c' => simp [hf, hs, StepRel2] at h1
          | yield c' => simp only [hf, hs, StepRel2] at h1; exact ih b c' h1

/-- loops with `break` over the same list (the loops by fuel: `for _ in List.range fuel`) -/
theorem forIn_rel_break (R : β → γ → Prop) (f : α → β → Option (ForInStep β))
    (g : α → γ → Option (ForInStep γ)) (h : ∀ a s c, R s c → StepRel2 R (f a s) (g a c)) (l : List α) :
    ∀ s c, R s c → OptRel R (forIn l s f) (forIn l c g) := by
  have := forIn_map_rel_break R id f g h l
  simpa using this

/-- sequencing: a related partial computation followed by related continuations -/
theorem StepRel.bind {β' γ' : Type} {R : β → γ → Prop} {R' : β' → γ' → Prop} {o : Option β'} {o' : Option γ'}
    {k : β' → Option (ForInStep β)} {k' : γ' → Option γ} (h : OptRel R' o o')
    (hk : ∀ b c, R' b c → StepRel R (k b) (k' c)) : StepRel R (o >>= k) (o'.bind k') := by
  cases o <;> cases o' <;> simp_all [OptRel, StepRel]

/-- sequencing of two related partial computations (after a loop: the code that follows it) -/
theorem OptRel.bind {β' γ' : Type} {R : β → γ → Prop} {R' : β' → γ' → Prop} {o : Option β'} {o' : Option γ'}
    {k : β' → Option β} {k' : γ' → Option γ} (h : OptRel R' o o')
    (hk : ∀ b c, R' b c → OptRel R (k b) (k' c)) : OptRel R (o >>= k) (o'.bind k') := by
  cases o <;> cases o' <;> simp_all [OptRel]

theorem OptRel.eq {o o' : Option β} (h : OptRel (fun b c => c = b) o o') : o = o' := by
  cases o <;> cases o' <;> simp_all [OptRel]

/-- a loop body that consists of an inner loop only (`let s ← inner; yield s`) -/
theorem StepRel.bind_yield {R : β → γ → Prop} {o : Option β} {o' : Option γ} (h : OptRel R o o') :
    StepRel R (o >>= fun s => pure (ForInStep.yield s)) o' := by
  cases o <;> cases o' <;> simp_all [OptRel, StepRel]

end LoopGen
