import Proofs.IblSpec2
/-!
C14 — refinement, part 4: whole decode calls, and histories of calls on one encoder object / destination.
-/
namespace IblSpec
open Pack Ibl

theorem xlen_pos (I : Inst) (hv : I.Valid) (x : List Int) (hx : SignedPermOf I x) : 0 < x.length := by
  have h1 := Inst.nItems_pos' I hv
  have h2 := hx.1
  omega

/-- encoding 1, whole call: the rows written are the documented next-fit packing, the rest of the
destination is untouched -/
theorem decode1_refines (I : Inst) (hv : I.Valid) (x : List Int) (hx : SignedPermOf I x)
    (y0 : List Row) (hy : x.length ≤ y0.length) :
    ∃ rows k, nextFit I x = some (rows, k) ∧ rows.length = x.length ∧
      decode1? I x y0 = some (rows ++ y0.drop x.length, k) := by
  obtain ⟨st, rows, hrun, hinv, hpack, hdone⟩ := run1_refines I hv x [] _ (inv1_init I) hx.2.1 [[]]
    ⟨[], by simp, by simp⟩
  simp only [List.nil_append] at hinv hdone
  have hlen : st.done.length = x.length := by
    have := congrArg List.length hinv.ids
    simpa using this
  refine ⟨rows, st.binId, hpack, by rw [← hdone]; exact hlen, ?_⟩
  unfold decode1?
  rw [if_neg (by omega), hrun]
  simp only [hdone]

/-- encoding 2, whole call: the rows written are the documented first-fit packing, whatever the
destination and the two scratch arrays contained before -/
theorem decode2_refines (I : Inst) (hv : I.Valid) (x : List Int) (hx : SignedPermOf I x)
    (y0 : List Row) (s0 e0 : List Int) (hy : x.length ≤ y0.length)
    (hs : x.length ≤ s0.length) (hse : s0.length = e0.length) :
    ∃ rows k s e, firstFit I x = some (rows, k) ∧ rows.length = x.length ∧
      decode2? I x y0 s0 e0 = some (rows ++ y0.drop x.length, k, s, e) ∧
      s.length = s0.length ∧ e.length = e0.length := by
  have hxpos := xlen_pos I hv x hx
  obtain ⟨st, rows, hrun, hinv, hpack, hdone, hsl⟩ := run2_refines I hv x [] _
    (inv2_init I s0 e0 hse (by omega)) hx.2.1 (by simp; omega) [[]] (by unfold R2 binsOf; rfl)
  simp only [List.nil_append] at hinv hdone
  have hlen : st.done.length = x.length := by
    have := congrArg List.length hinv.ids
    simpa using this
  refine ⟨rows, st.binId, st.starts, st.ends, hpack, by rw [← hdone]; exact hlen, ?_, by simpa using hsl, ?_⟩
  · unfold decode2?
    rw [if_neg (by omega), if_neg (by omega), hrun]
    simp only [hdone]
  · rw [← hinv.lens, ← hse]; simpa using hsl

/-- the memory has room for permutations of length `n` -/
def Room (n : Nat) (m : Mem) : Prop :=
  n ≤ m.y.length ∧ n ≤ m.starts.length ∧ m.starts.length = m.ends.length

/-- the documented packing for the chosen encoding -/
def specOf (I : Inst) (two : Bool) (x : List Int) : Option (List Row × Int) :=
  if two then firstFit I x else nextFit I x

theorem decodeCall_refines (I : Inst) (hv : I.Valid) (two : Bool) (x : List Int) (hx : SignedPermOf I x)
    (m : Mem) (hm : Room x.length m) :
    ∃ m' rows k, decodeCall I m two x = some (m', k) ∧ specOf I two x = some (rows, k) ∧
      rows.length = x.length ∧ m'.y = rows ++ m.y.drop x.length ∧ Room x.length m' := by
  obtain ⟨hy, hs, hse⟩ := hm
  cases two with
  | false =>
    obtain ⟨rows, k, h1, h2, h3⟩ := decode1_refines I hv x hx m.y hy
    refine ⟨{ m with y := rows ++ m.y.drop x.length }, rows, k, ?_, ?_, h2, rfl, ?_, hs, hse⟩
    · unfold decodeCall; simp [h3]
    · unfold specOf; simpa using h1
    · simp only [List.length_append, List.length_drop]; omega
  | true =>
    obtain ⟨rows, k, s, e, h1, h2, h3, h4, h5⟩ := decode2_refines I hv x hx m.y m.starts m.ends hy hs hse
    refine ⟨{ y := rows ++ m.y.drop x.length, starts := s, ends := e }, rows, k, ?_, ?_, h2, rfl, ?_, ?_, ?_⟩
    · unfold decodeCall; simp [h3]
    · unfold specOf; simpa using h1
    · simp only [List.length_append, List.length_drop]; omega
    · simp only []; omega
    · simp only []; omega

/-- a history of decode calls never fails and leaves a memory of the same shape -/
theorem decodeHistory_room (I : Inst) (hv : I.Valid) (n : Nat) (hist : List (Bool × List Int))
    (hall : ∀ c ∈ hist, SignedPermOf I c.2) (hn : (n : Int) = I.nItems) (m : Mem) (hm : Room n m) :
    ∃ m', decodeHistory I hist m = some m' ∧ Room n m' := by
  induction hist generalizing m with
  | nil => exact ⟨m, rfl, hm⟩
  | cons c t ih =>
    obtain ⟨two, x⟩ := c
    have hx := hall (two, x) (by simp)
    have hxl : x.length = n := by have := hx.1; simp only [] at this; omega
    obtain ⟨m1, rows, k, h1, _, _, _, h5⟩ := decodeCall_refines I hv two x hx m (by rw [hxl]; exact hm)
    rw [hxl] at h5
    obtain ⟨m2, h6, h7⟩ := ih (fun c hc => hall c (by simp [hc])) m1 h5
    exact ⟨m2, by simp [decodeHistory, h1, h6], h7⟩

end IblSpec
