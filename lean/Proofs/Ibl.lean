import Model.Ibl
/-! Helper lemmas for C01/C14: geometry of the two move kernels and of the settle loop (core Lean only). -/
namespace Ibl
open Pack

/-- a proper rectangle -/
def Row.Proper (p : Row) : Prop := p.l < p.r ∧ p.b < p.t

/-- `cur` overlaps no row of the window -/
def Clear (win : List Row) (cur : Row) : Prop := ∀ p ∈ win, p.Disjoint cur

/-! ### `minDown` -/

theorem minDown_foldl_le (cur : Row) (win : List Row) (init : Int) :
    win.foldl (fun m p => if p.r > cur.l ∧ p.l < cur.r ∧ p.b < cur.t then min m (cur.b - p.t) else m) init ≤ init ∧
    ∀ p ∈ win, p.r > cur.l ∧ p.l < cur.r ∧ p.b < cur.t →
      win.foldl (fun m p => if p.r > cur.l ∧ p.l < cur.r ∧ p.b < cur.t then min m (cur.b - p.t) else m) init ≤ cur.b - p.t := by
  induction win generalizing init with
  | nil => simp
  | cons a t ih =>
    simp only [List.foldl_cons]
    constructor
    · by_cases hc : a.r > cur.l ∧ a.l < cur.r ∧ a.b < cur.t
      · rw [if_pos hc]; have := (ih (min init (cur.b - a.t))).1; omega
      · rw [if_neg hc]; exact (ih init).1
    · intro p hp hc
      simp only [List.mem_cons] at hp
      rcases hp with rfl | hp
      · have := (ih (if p.r > cur.l ∧ p.l < cur.r ∧ p.b < cur.t then min init (cur.b - p.t) else init)).1
        rw [if_pos hc] at this ⊢
        omega
      · exact (ih _).2 p hp hc

theorem minDown_le (win : List Row) (cur : Row) : minDown win cur ≤ cur.b :=
  (minDown_foldl_le cur win cur.b).1

theorem minDown_le_gap (win : List Row) (cur : Row) (p : Row) (hp : p ∈ win)
    (hc : p.r > cur.l ∧ p.l < cur.r ∧ p.b < cur.t) : minDown win cur ≤ cur.b - p.t :=
  (minDown_foldl_le cur win cur.b).2 p hp hc

/-- moving down by `minDown` keeps the rectangle clear of the window -/
theorem down_clear (win : List Row) (cur : Row) (hcl : Clear win cur) (hw : ∀ p ∈ win, Row.Proper p)
    (hcur : Row.Proper cur) (_hd : 0 < minDown win cur) : Clear win (cur.down (minDown win cur)) := by
  intro p hp
  have hdis := hcl p hp
  have hpp := hw p hp
  unfold Row.Proper at hpp hcur
  unfold Row.Disjoint at hdis ⊢
  simp only [Row.down]
  by_cases hc : p.r > cur.l ∧ p.l < cur.r ∧ p.b < cur.t
  · have := minDown_le_gap win cur p hp hc
    omega
  · omega

/-! ### `minLeft` -/

theorem minLeft_foldl_le (cur : Row) (win : List Row) (init : Int) :
    win.foldl (fun m p =>
      if p.l ≥ cur.r then m
      else if p.r > cur.l ∧ p.l < cur.r then (if p.t = cur.b then min m (cur.r - p.l) else m)
      else if cur.t > p.b ∧ cur.b < p.t then min m (cur.l - p.r)
      else m) init ≤ init ∧
    ∀ p ∈ win, ¬ p.l ≥ cur.r → ¬ (p.r > cur.l ∧ p.l < cur.r) → (cur.t > p.b ∧ cur.b < p.t) →
      win.foldl (fun m p =>
        if p.l ≥ cur.r then m
        else if p.r > cur.l ∧ p.l < cur.r then (if p.t = cur.b then min m (cur.r - p.l) else m)
        else if cur.t > p.b ∧ cur.b < p.t then min m (cur.l - p.r)
        else m) init ≤ cur.l - p.r := by
  induction win generalizing init with
  | nil => simp
  | cons a t ih =>
    simp only [List.foldl_cons]
    constructor
    · by_cases h1 : a.l ≥ cur.r
      · rw [if_pos h1]; exact (ih init).1
      · rw [if_neg h1]
        by_cases h2 : a.r > cur.l ∧ a.l < cur.r
        · rw [if_pos h2]
          by_cases h3 : a.t = cur.b
          · rw [if_pos h3]; have := (ih (min init (cur.r - a.l))).1; omega
          · rw [if_neg h3]; exact (ih init).1
        · rw [if_neg h2]
          by_cases h3 : cur.t > a.b ∧ cur.b < a.t
          · rw [if_pos h3]; have := (ih (min init (cur.l - a.r))).1; omega
          · rw [if_neg h3]; exact (ih init).1
    · intro p hp h1 h2 h3
      simp only [List.mem_cons] at hp
      rcases hp with rfl | hp
      · have := (ih (if p.l ≥ cur.r then init
          else if p.r > cur.l ∧ p.l < cur.r then (if p.t = cur.b then min init (cur.r - p.l) else init)
          else if cur.t > p.b ∧ cur.b < p.t then min init (cur.l - p.r)
          else init)).1
        rw [if_neg h1, if_neg h2, if_pos h3] at this ⊢
        omega
      · exact (ih _).2 p hp h1 h2 h3

theorem minLeft_le (win : List Row) (cur : Row) : minLeft win cur ≤ cur.l :=
  (minLeft_foldl_le cur win cur.l).1

theorem left_clear (win : List Row) (cur : Row) (hcl : Clear win cur) (hw : ∀ p ∈ win, Row.Proper p)
    (hcur : Row.Proper cur) (hd : 0 < minLeft win cur) : Clear win (cur.left (minLeft win cur)) := by
  intro p hp
  have hdis := hcl p hp
  have hpp := hw p hp
  unfold Row.Proper at hpp hcur
  unfold Row.Disjoint at hdis ⊢
  simp only [Row.left]
  by_cases h1 : p.l ≥ cur.r
  · omega
  · by_cases h2 : p.r > cur.l ∧ p.l < cur.r
    · omega
    · by_cases h3 : cur.t > p.b ∧ cur.b < p.t
      · have := (minLeft_foldl_le cur win cur.l).2 p hp h1 h2 h3
        unfold minLeft at hd ⊢
        omega
      · omega

end Ibl

namespace Ibl
open Pack

/-- invariant of the item being dropped while it is moved inside the current window -/
structure Moving (W : Int) (win : List Row) (cur : Row) : Prop where
  clear : Clear win cur
  proper : Row.Proper cur
  l0 : 0 ≤ cur.l
  b0 : 0 ≤ cur.b
  rW : cur.r ≤ W

/-- what the moves never change -/
def SameShape (a c : Row) : Prop :=
  a.id = c.id ∧ a.bin = c.bin ∧ a.r - a.l = c.r - c.l ∧ a.t - a.b = c.t - c.b

theorem settle_inv (W : Int) (win : List Row) (hw : ∀ p ∈ win, Row.Proper p) (fuel : Nat) (cur : Row)
    (h : Moving W win cur) : Moving W win (settle fuel win cur) ∧ SameShape (settle fuel win cur) cur := by
  induction fuel generalizing cur with
  | zero => exact ⟨h, rfl, rfl, rfl, rfl⟩
  | succ n ih =>
    unfold settle
    simp only []
    by_cases hd : minDown win cur > 0
    · rw [if_pos hd]
      have hle := minDown_le win cur
      have hm : Moving W win (cur.down (minDown win cur)) :=
        ⟨down_clear win cur h.clear hw h.proper hd,
         by have := h.proper; unfold Row.Proper at *; simp only [Row.down]; omega,
         by simp only [Row.down]; exact h.l0,
         by simp only [Row.down]; have := h.b0; omega,
         by simp only [Row.down]; exact h.rW⟩
      obtain ⟨h1, h2⟩ := ih _ hm
      refine ⟨h1, ?_⟩
      unfold SameShape at *
      simp only [Row.down] at h2 ⊢
      omega
    · rw [if_neg hd]
      by_cases hl : minLeft win cur > 0
      · rw [if_pos hl]
        have hle := minLeft_le win cur
        have hm : Moving W win (cur.left (minLeft win cur)) :=
          ⟨left_clear win cur h.clear hw h.proper hl,
           by have := h.proper; unfold Row.Proper at *; simp only [Row.left]; omega,
           by simp only [Row.left]; have := h.l0; omega,
           by simp only [Row.left]; exact h.b0,
           by simp only [Row.left]; have := h.rW; omega⟩
        obtain ⟨h1, h2⟩ := ih _ hm
        refine ⟨h1, ?_⟩
        unfold SameShape at *
        simp only [Row.left] at h2 ⊢
        omega
      · rw [if_neg hl]
        exact ⟨h, rfl, rfl, rfl, rfl⟩

/-- **termination / fixpoint**: with the fuel the decoders use, the loop ends because neither move
is possible any more (each successful move decreases `b + l` by at least one, both stay ≥ 0) -/
theorem settle_stable (win : List Row) (fuel : Nat) (cur : Row) (hb : 0 ≤ cur.b) (hl : 0 ≤ cur.l)
    (hf : cur.b.toNat + cur.l.toNat < fuel) :
    minDown win (settle fuel win cur) ≤ 0 ∧ minLeft win (settle fuel win cur) ≤ 0 := by
  induction fuel generalizing cur with
  | zero => omega
  | succ n ih =>
    unfold settle
    simp only []
    by_cases hd : minDown win cur > 0
    · rw [if_pos hd]
      have hle := minDown_le win cur
      apply ih
      · simp only [Row.down]; omega
      · simp only [Row.down]; exact hl
      · simp only [Row.down]; omega
    · rw [if_neg hd]
      by_cases hl' : minLeft win cur > 0
      · rw [if_pos hl']
        have hle := minLeft_le win cur
        apply ih
        · simp only [Row.left]; exact hb
        · simp only [Row.left]; omega
        · simp only [Row.left]; omega
      · rw [if_neg hl']
        omega

theorem settle_fuelFor_stable (win : List Row) (cur : Row) (hb : 0 ≤ cur.b) (hl : 0 ≤ cur.l) :
    minDown win (settle (fuelFor cur) win cur) ≤ 0 ∧ minLeft win (settle (fuelFor cur) win cur) ≤ 0 :=
  settle_stable win _ cur hb hl (by unfold fuelFor; omega)

end Ibl

namespace Ibl
open Pack

theorem item?_natAbs (I : Inst) (v : Int) (hv0 : v ≠ 0) (hr : v.natAbs ≤ I.nTypes) :
    ∃ it, I.item? (v.natAbs : Int) = some it ∧ it ∈ I.items ∧ I.items[v.natAbs - 1]? = some it := by
  have hlt : v.natAbs - 1 < I.items.length := by unfold Inst.nTypes at hr; omega
  refine ⟨I.items[v.natAbs - 1], ?_, List.getElem_mem hlt, List.getElem?_eq_getElem hlt⟩
  unfold Inst.item?
  have h1 : ¬ ((v.natAbs : Int) ≤ 0) := by omega
  rw [if_neg h1]
  have h2 : ((v.natAbs : Int) - 1).toNat = v.natAbs - 1 := by omega
  rw [h2, List.getElem?_eq_getElem hlt]

/-- the width/height the decoders use: the item's dimensions in one of the two orientations,
and — after the forced rotation — fitting the bin (this is where `Inst.Valid` is needed) -/
theorem dims?_spec (I : Inst) (hv : I.Valid) (v : Int) (hv0 : v ≠ 0) (hr : v.natAbs ≤ I.nTypes) :
    ∃ it w h, dims? I v = some ((v.natAbs : Int), w, h) ∧ I.item? (v.natAbs : Int) = some it ∧
      ((w = it.w ∧ h = it.h) ∨ (w = it.h ∧ h = it.w)) ∧ 1 ≤ w ∧ w ≤ I.W ∧ 1 ≤ h ∧ h ≤ I.H := by
  obtain ⟨it, hit, hmem, hget⟩ := item?_natAbs I v hv0 hr
  obtain ⟨_, _, _, _, _, _, hitems, _⟩ := hv
  have hi := hitems it hmem
  unfold Inst.maxDim Inst.minDim at hi
  unfold dims?
  simp only []
  by_cases hneg : v < 0
  · have hu : (if v < 0 then -(v + 1) else v - 1) = (v.natAbs : Int) - 1 := by rw [if_pos hneg]; omega
    have hnn : ¬ ((v.natAbs : Int) - 1 < 0) := by omega
    have htn : ((v.natAbs : Int) - 1).toNat = v.natAbs - 1 := by omega
    rw [hu, if_neg hnn, htn, hget]
    simp only [if_pos hneg]
    by_cases hfit : it.h > I.W ∨ it.w > I.H
    · refine ⟨it, it.w, it.h, ?_, hit, Or.inl ⟨rfl, rfl⟩, ?_⟩
      · simp [hfit]
      · omega
    · refine ⟨it, it.h, it.w, ?_, hit, Or.inr ⟨rfl, rfl⟩, ?_⟩
      · simp [hfit]
      · omega
  · have hu : (if v < 0 then -(v + 1) else v - 1) = (v.natAbs : Int) - 1 := by rw [if_neg hneg]; omega
    have hnn : ¬ ((v.natAbs : Int) - 1 < 0) := by omega
    have htn : ((v.natAbs : Int) - 1).toNat = v.natAbs - 1 := by omega
    rw [hu, if_neg hnn, htn, hget]
    simp only [if_neg hneg]
    by_cases hfit : it.w > I.W ∨ it.h > I.H
    · refine ⟨it, it.h, it.w, ?_, hit, Or.inr ⟨rfl, rfl⟩, ?_⟩
      · simp [hfit]
      · omega
    · refine ⟨it, it.w, it.h, ?_, hit, Or.inl ⟨rfl, rfl⟩, ?_⟩
      · simp [hfit]
      · omega

end Ibl

namespace Ibl
open Pack

/-- a row that lies inside the bin and is a proper rectangle -/
def InBin (I : Inst) (p : Row) : Prop := 0 ≤ p.l ∧ 0 ≤ p.b ∧ p.r ≤ I.W ∧ p.t ≤ I.H ∧ Row.Proper p

theorem start_moving (I : Inst) (id w h : Int) (win : List Row) (hwin : ∀ p ∈ win, InBin I p)
    (hw1 : 1 ≤ w) (hw2 : w ≤ I.W) (hh1 : 1 ≤ h) (hH : 0 ≤ I.H) : Moving I.W win (startRow I id w h) := by
  refine ⟨?_, ?_, ?_, ?_, ?_⟩
  · intro p hp
    have := hwin p hp
    unfold InBin at this
    unfold Row.Disjoint startRow
    simp only []
    omega
  · unfold Row.Proper startRow; simp only []; omega
  · unfold startRow; simp only []; omega
  · unfold startRow; simp only []; omega
  · unfold startRow; simp only []; omega

/-- the settled rectangle: still clear of the window, inside the left/bottom/right walls, same shape -/
theorem settled (I : Inst) (id w h : Int) (win : List Row) (hwin : ∀ p ∈ win, InBin I p)
    (hw1 : 1 ≤ w) (hw2 : w ≤ I.W) (hh1 : 1 ≤ h) (hH : 0 ≤ I.H) (fuel : Nat) :
    let r := settle fuel win (startRow I id w h)
    Clear win r ∧ 0 ≤ r.l ∧ 0 ≤ r.b ∧ r.r ≤ I.W ∧ r.id = id ∧ r.r - r.l = w ∧ r.t - r.b = h := by
  intro r
  have hm := start_moving I id w h win hwin hw1 hw2 hh1 hH
  have hp : ∀ p ∈ win, Row.Proper p := fun p hp => (hwin p hp).2.2.2.2
  obtain ⟨h1, h2⟩ := settle_inv I.W win hp fuel _ hm
  unfold SameShape at h2
  refine ⟨h1.clear, h1.l0, h1.b0, h1.rW, ?_, ?_, ?_⟩
  · rw [h2.1]; rfl
  · rw [h2.2.2.1]; unfold startRow; simp only []; omega
  · rw [h2.2.2.2]; unfold startRow; simp only []; omega

/-- invariant of encoding 1 after the prefix `xs` of the permutation has been processed -/
structure Inv1 (I : Inst) (xs : List Int) (st : St1) : Prop where
  ids : st.done.map (·.id) = xs.map (fun v => (v.natAbs : Int))
  inside : ∀ p ∈ st.done, InBin I p
  dims : ∀ p ∈ st.done, ∃ it, I.item? p.id = some it ∧ p.HasDims it
  bins : ∀ p ∈ st.done, 1 ≤ p.bin ∧ p.bin ≤ st.binId
  start : st.binStart ≤ st.done.length
  cur : ∀ p ∈ st.done.drop st.binStart, p.bin = st.binId
  old : ∀ p ∈ st.done.take st.binStart, p.bin < st.binId
  pw : st.done.Pairwise (fun a c => a.bin = c.bin → a.Disjoint c)
  used : ∀ j : Nat, (j : Int) + 1 < st.binId → ∃ p ∈ st.done, p.bin = (j : Int) + 1
  usedCur : st.done ≠ [] → ∃ p ∈ st.done, p.bin = st.binId
  bpos : 1 ≤ st.binId

theorem inv1_init (I : Inst) : Inv1 I [] { done := [], binStart := 0, binId := 1 } := by
  refine ⟨rfl, by simp, by simp, by simp, by simp, by simp, by simp, by simp, ?_, by simp, by simp⟩
  intro j hj; simp only [] at hj; omega

theorem mem_take_or_drop {α} (l : List α) (n : Nat) (a : α) (h : a ∈ l) : a ∈ l.take n ∨ a ∈ l.drop n := by
  rw [← List.take_append_drop n l] at h
  exact List.mem_append.mp h

theorem step1_inv (I : Inst) (hv : I.Valid) (xs : List Int) (st : St1) (v : Int) (h : Inv1 I xs st)
    (hv0 : v ≠ 0) (hr : v.natAbs ≤ I.nTypes) :
    ∃ st', step1 I st v = some st' ∧ Inv1 I (xs ++ [v]) st' := by
  obtain ⟨it, w, hh, hd, hit, hor, hw1, hw2, hh1, hh2⟩ := dims?_spec I hv v hv0 hr
  have hH : 0 ≤ I.H := by omega
  have hwin : ∀ p ∈ st.done.drop st.binStart, InBin I p :=
    fun p hp => h.inside p (List.mem_of_mem_drop hp)
  have hs := settled I (v.natAbs : Int) w hh (st.done.drop st.binStart) hwin hw1 hw2 hh1 hH
    (fuelFor (startRow I (v.natAbs : Int) w hh))
  simp only [] at hs
  obtain ⟨hcl, hl0, hb0, hrW, hid, hwd, hht⟩ := hs
  unfold step1
  rw [hd]
  simp only []
  generalize hr' : settle (fuelFor (startRow I (↑v.natAbs) w hh)) (List.drop st.binStart st.done)
    (startRow I (↑v.natAbs) w hh) = r at *
  by_cases hfit : r.r > I.W ∨ r.t > I.H
  · -- does not fit: open a new bin
    rw [if_pos hfit]
    refine ⟨_, rfl, ?_⟩
    refine ⟨?_, ?_, ?_, ?_, ?_, ?_, ?_, ?_, ?_, ?_, ?_⟩
    · simp [h.ids, hid]
    · intro p hp
      simp only [List.mem_append, List.mem_singleton] at hp
      rcases hp with hp | rfl
      · exact h.inside p hp
      · unfold InBin Row.Proper; simp only []; omega
    · intro p hp
      simp only [List.mem_append, List.mem_singleton] at hp
      rcases hp with hp | rfl
      · exact h.dims p hp
      · refine ⟨it, by simp only []; rw [hid]; exact hit, ?_⟩
        unfold Row.HasDims; simp only []; omega
    · intro p hp
      simp only [List.mem_append, List.mem_singleton] at hp
      rcases hp with hp | rfl
      · have := h.bins p hp; simp only []; omega
      · simp only []; have := h.bpos; omega
    · simp
    · intro p hp
      simp only [List.drop_append, List.drop_length, Nat.sub_self, List.drop_zero, List.nil_append,
        List.mem_singleton] at hp
      subst hp; rfl
    · intro p hp
      simp only [List.take_append, List.take_length, Nat.sub_self, List.take_zero, List.append_nil] at hp
      have := h.bins p hp; simp only []; omega
    · rw [List.pairwise_append]
      refine ⟨h.pw, by simp, ?_⟩
      intro a ha c hc
      simp only [List.mem_singleton] at hc
      subst hc
      intro hab
      simp only [] at hab
      have := h.bins a ha
      omega
    · intro j hj
      simp only [] at hj
      by_cases hjj : (j : Int) + 1 < st.binId
      · obtain ⟨p, hp, hpb⟩ := h.used j hjj
        exact ⟨p, List.mem_append_left _ hp, hpb⟩
      · have hjeq : (j : Int) + 1 = st.binId := by omega
        by_cases hne : st.done = []
        · -- impossible: the first item always fits (empty window)
          exfalso
          rw [hne] at hr'
          simp only [List.drop_nil] at hr'
          have hst := settle_fuelFor_stable [] (startRow I (↑v.natAbs) w hh)
            (by unfold startRow; simp only []; omega) (by unfold startRow; simp only []; omega)
          rw [hr'] at hst
          simp only [minDown, minLeft, List.foldl_nil] at hst
          omega
        · obtain ⟨p, hp, hpb⟩ := h.usedCur hne
          exact ⟨p, List.mem_append_left _ hp, by omega⟩
    · intro _
      exact ⟨_, List.mem_append_right _ (List.mem_singleton.mpr rfl), rfl⟩
    · simp only []; have := h.bpos; omega
  · -- fits into the current bin
    rw [if_neg hfit]
    refine ⟨_, rfl, ?_⟩
    refine ⟨?_, ?_, ?_, ?_, ?_, ?_, ?_, ?_, ?_, ?_, ?_⟩
    · simp [h.ids, hid]
    · intro p hp
      simp only [List.mem_append, List.mem_singleton] at hp
      rcases hp with hp | rfl
      · exact h.inside p hp
      · unfold InBin Row.Proper; simp only []; omega
    · intro p hp
      simp only [List.mem_append, List.mem_singleton] at hp
      rcases hp with hp | rfl
      · exact h.dims p hp
      · refine ⟨it, by simp only []; rw [hid]; exact hit, ?_⟩
        unfold Row.HasDims; simp only []; omega
    · intro p hp
      simp only [List.mem_append, List.mem_singleton] at hp
      rcases hp with hp | rfl
      · exact h.bins p hp
      · simp only []; have := h.bpos; omega
    · simp only [List.length_append, List.length_singleton]; have := h.start; omega
    · intro p hp
      rw [List.drop_append_of_le_length h.start] at hp
      simp only [List.mem_append, List.mem_singleton] at hp
      rcases hp with hp | rfl
      · exact h.cur p hp
      · rfl
    · intro p hp
      rw [List.take_append_of_le_length h.start] at hp
      exact h.old p hp
    · rw [List.pairwise_append]
      refine ⟨h.pw, by simp, ?_⟩
      intro a ha c hc
      simp only [List.mem_singleton] at hc
      subst hc
      intro hab
      simp only [] at hab
      rcases mem_take_or_drop st.done st.binStart a ha with ht | hdr
      · have := h.old a ht; omega
      · have := hcl a hdr
        unfold Row.Disjoint at this ⊢
        simp only []
        exact this
    · intro j hj
      obtain ⟨p, hp, hpb⟩ := h.used j hj
      exact ⟨p, List.mem_append_left _ hp, hpb⟩
    · intro _
      exact ⟨_, List.mem_append_right _ (List.mem_singleton.mpr rfl), rfl⟩
    · exact h.bpos

end Ibl

namespace Ibl
open Pack

theorem run1_inv (I : Inst) (hv : I.Valid) (rest : List Int) (xs : List Int) (st : St1) (h : Inv1 I xs st)
    (hrest : ∀ v ∈ rest, v ≠ 0 ∧ v.natAbs ≤ I.nTypes) :
    ∃ st', run1 I rest st = some st' ∧ Inv1 I (xs ++ rest) st' := by
  induction rest generalizing xs st with
  | nil => exact ⟨st, rfl, by simpa using h⟩
  | cons v t ih =>
    obtain ⟨st1, h1, h2⟩ := step1_inv I hv xs st v h (hrest v (by simp)).1 (hrest v (by simp)).2
    obtain ⟨st2, h3, h4⟩ := ih (xs ++ [v]) st1 h2 (fun u hu => hrest u (by simp [hu]))
    refine ⟨st2, ?_, by simpa using h4⟩
    simp [run1, h1, h3]

theorem filter_length_map {α} (l : List α) (f : α → Int) (c : Int) :
    (l.filter (fun a => f a = c)).length = ((l.map f).filter (fun b => b = c)).length := by
  induction l with
  | nil => rfl
  | cons a t ih =>
    by_cases h : f a = c <;> simp [List.filter_cons, h, ih]

theorem filter_natAbs (x : List Int) (i : Nat) :
    ((x.map (fun v => (v.natAbs : Int))).filter (fun b => b = (i : Int) + 1)).length
      = (x.filter (fun v => v.natAbs = i + 1)).length := by
  induction x with
  | nil => rfl
  | cons v t ih =>
    have hiff : ((v.natAbs : Int) = (i : Int) + 1) ↔ (v.natAbs = i + 1) := by omega
    by_cases hc : v.natAbs = i + 1
    · have : (v.natAbs : Int) = (i : Int) + 1 := hiff.mpr hc
      simp [List.filter_cons, hc, this, ih]
    · have : ¬ ((v.natAbs : Int) = (i : Int) + 1) := fun h' => hc (hiff.mp h')
      simp [List.filter_cons, hc, this, ih]

/-- the invariant at the end of the permutation is feasibility -/
theorem inv_feasible (I : Inst) (hv : I.Valid) (x : List Int) (hx : SignedPermOf I x)
    (done : List Row) (k : Int)
    (ids : done.map (·.id) = x.map (fun v => (v.natAbs : Int)))
    (inside : ∀ p ∈ done, InBin I p)
    (dims : ∀ p ∈ done, ∃ it, I.item? p.id = some it ∧ p.HasDims it)
    (bins : ∀ p ∈ done, 1 ≤ p.bin ∧ p.bin ≤ k)
    (pw : done.Pairwise (fun a c => a.bin = c.bin → a.Disjoint c))
    (used : ∀ j : Nat, (j : Int) + 1 ≤ k → ∃ p ∈ done, p.bin = (j : Int) + 1) :
    Feasible I done k := by
  obtain ⟨hlen, _, hcount⟩ := hx
  have hl : done.length = x.length := by
    have := congrArg List.length ids
    simpa using this
  refine ⟨by rw [hl]; exact hlen, dims, ?_, ?_, pw, bins, ?_⟩
  · intro a ha
    have := inside a ha
    unfold InBin at this
    omega
  · intro i hi
    rw [filter_length_map done (·.id) ((i : Int) + 1), ids, ← hcount i hi]
    congr 1
    exact filter_natAbs x i
  · intro j hj
    have := List.mem_range.mp hj
    exact used j (by omega)

end Ibl

namespace Ibl
open Pack

theorem _root_.Pack.Inst.nItems_pos' (I : Inst) (hv : I.Valid) : 1 ≤ I.nItems := by
  obtain ⟨_, _, _, _, hne, _, hitems, _⟩ := hv
  unfold Inst.nItems
  cases hI : I.items with
  | nil => rw [hI] at hne; simp at hne
  | cons it rest =>
    rw [hI] at hitems
    simp only [List.map_cons, List.sum_cons]
    have h1 := (hitems it (by simp)).2.2.2.2.1
    have h2 : 0 ≤ (rest.map (·.rep)).sum := by
      have : ∀ l : List Item, (∀ b ∈ l, 1 ≤ b.rep) → 0 ≤ (l.map (·.rep)).sum := by
        intro l
        induction l with
        | nil => intro _; simp
        | cons a t ih =>
          intro h
          simp only [List.map_cons, List.sum_cons]
          have := h a (by simp)
          have := ih (fun b hb => h b (by simp [hb]))
          omega
      exact this rest (fun b hb => (hitems b (by simp [hb])).2.2.2.2.1)
    omega

theorem step1_length (I : Inst) (st st' : St1) (v : Int) (h : step1 I st v = some st') :
    st'.done.length = st.done.length + 1 := by
  unfold step1 at h
  split at h
  · simp at h
  · simp only [] at h
    split at h <;> (simp at h; subst h; simp)

theorem run1_length (I : Inst) (x : List Int) (st st' : St1) (h : run1 I x st = some st') :
    st'.done.length = st.done.length + x.length := by
  induction x generalizing st with
  | nil => simp [run1] at h; subst h; simp
  | cons v t ih =>
    simp only [run1, Option.bind_eq_bind, Option.bind_eq_some_iff] at h
    obtain ⟨s1, h1, h2⟩ := h
    have := step1_length I st s1 v h1
    have := ih s1 h2
    simp only [List.length_cons]; omega

end Ibl
