import Proofs.GameEncCount
/-!
Helper lemmas for C15, part 3: pairing counts and the parity argument for the team balance
(closed form `last_balance` of the home/away difference in the last round of an odd number of
rounds, by induction over the number of teams).
-/
namespace GameEnc


theorem orient_normal (rounds r i j : Nat) (h : r + 1 < rounds ∨ rounds % 2 = 0) :
    orient rounds r i j = (r % 2 == 0) := by
  have : normalB rounds r = true := by
    simp only [normalB, Bool.or_eq_true, decide_eq_true_eq, beq_iff_eq]
    omega
  simp [orient, this]

theorem orient_last (k i j : Nat) (h : k % 2 = 0) : orient (k + 1) k i j = orientLast i j := by
  have : normalB (k + 1) k = false := by
    simp only [normalB, Bool.or_eq_false_iff, decide_eq_false_iff_not, beq_eq_false_iff_ne]
    constructor <;> omega
  simp [orient, this]

theorem sum_range_const (k c : Nat) : ((List.range k).map (fun _ => c)).sum = k * c := by
  induction k with
  | zero => simp
  | succ m ih => rw [sum_range_succ, ih, Nat.succ_mul]

theorem sum_range_even (k : Nat) :
    ((List.range k).map (fun r => if (r % 2 == 0) = true then 1 else 0)).sum = (k + 1) / 2 := by
  induction k with
  | zero => simp
  | succ m ih =>
    rw [sum_range_succ, ih]
    have : m % 2 = 0 ∨ m % 2 = 1 := by omega
    rcases this with h | h <;> simp [h] <;> omega

theorem sum_range_odd (k : Nat) :
    ((List.range k).map (fun r => if (r % 2 == 0) = true then 0 else 1)).sum = k / 2 := by
  induction k with
  | zero => simp
  | succ m ih =>
    rw [sum_range_succ, ih]
    have : m % 2 = 0 ∨ m % 2 = 1 := by omega
    rcases this with h | h <;> simp [h] <;> omega

/-- per round, a pairing occurs exactly once -/
theorem round_pairing (n rounds r a b : Nat) (hab : b < a) (han : a < n) :
    tri n (fun i j => IsPairing n a b (gcode n (orient rounds r i j) i j)) = 1 := by
  rw [tri_congr n _ (fun i j => decide (i = a ∧ j = b) && true)]
  · rw [tri_dirac n a b hab han]; simp
  · intro i hi j hj
    unfold IsPairing
    rw [isGame_gcode n a b i j _ hj hi, isGame_gcode n b a i j _ hj hi]
    rw [Bool.eq_iff_iff]
    cases orient rounds r i j <;> simp <;> omega

theorem round_game_hi (n rounds r a b : Nat) (hab : b < a) (han : a < n) :
    tri n (fun i j => IsGame n a b (gcode n (orient rounds r i j) i j))
      = if orient rounds r a b = true then 1 else 0 := by
  rw [tri_congr n _ (fun i j => decide (i = a ∧ j = b) && orient rounds r i j)]
  · rw [tri_dirac n a b hab han]
  · intro i hi j hj
    rw [isGame_gcode n a b i j _ hj hi, Bool.eq_iff_iff]
    cases orient rounds r i j <;> simp <;> omega

theorem round_game_lo (n rounds r a b : Nat) (hab : b < a) (han : a < n) :
    tri n (fun i j => IsGame n b a (gcode n (orient rounds r i j) i j))
      = if orient rounds r a b = true then 0 else 1 := by
  rw [tri_congr n _ (fun i j => decide (i = a ∧ j = b) && !orient rounds r i j)]
  · rw [tri_dirac n a b hab han]; cases orient rounds r a b <;> simp
  · intro i hi j hj
    rw [isGame_gcode n b a i j _ hj hi, Bool.eq_iff_iff]
    cases orient rounds r i j <;> simp <;> omega

theorem pure_pairs (n rounds a b : Nat) (hab : b < a) (han : a < n) :
    (pureGames n rounds).countP (IsPairing n a b) = rounds := by
  rw [countP_pureGames, sum_range_congr _ (fun _ => 1) rounds (fun r _ => round_pairing n rounds r a b hab han),
    sum_range_const]
  omega

theorem pure_pair_counts (n rounds a b : Nat) (hab : b < a) (han : a < n) :
    ∃ x : Nat, x ≤ 1 ∧ (pureGames n rounds).countP (IsGame n a b) = rounds / 2 + x * (rounds % 2)
      ∧ (pureGames n rounds).countP (IsGame n b a) = rounds / 2 + (1 - x) * (rounds % 2) := by
  rw [countP_pureGames, countP_pureGames,
    sum_range_congr _ _ rounds (fun r _ => round_game_hi n rounds r a b hab han),
    sum_range_congr _ _ rounds (fun r _ => round_game_lo n rounds r a b hab han)]
  by_cases he : rounds % 2 = 0
  · refine ⟨0, by omega, ?_, ?_⟩
    · rw [sum_range_congr _ (fun r => if (r % 2 == 0) = true then 1 else 0) rounds
        (fun r _ => by rw [orient_normal rounds r a b (Or.inr he)]), sum_range_even]
      simp [he]; omega
    · rw [sum_range_congr _ (fun r => if (r % 2 == 0) = true then 0 else 1) rounds
        (fun r _ => by rw [orient_normal rounds r a b (Or.inr he)]), sum_range_odd]
      simp [he]
  · obtain ⟨k, rfl⟩ : ∃ k, rounds = k + 1 := ⟨rounds - 1, by omega⟩
    have hk : k % 2 = 0 := by omega
    refine ⟨if orientLast a b = true then 1 else 0, by split <;> omega, ?_, ?_⟩
    · rw [sum_range_succ, sum_range_congr _ (fun r => if (r % 2 == 0) = true then 1 else 0) k
        (fun r hr => by rw [orient_normal (k + 1) r a b (Or.inl (by omega))]), sum_range_even,
        orient_last k a b hk]
      split <;> omega
    · rw [sum_range_succ, sum_range_congr _ (fun r => if (r % 2 == 0) = true then 0 else 1) k
        (fun r hr => by rw [orient_normal (k + 1) r a b (Or.inl (by omega))]), sum_range_odd,
        orient_last k a b hk]
      split <;> omega



theorem tri_succ (m : Nat) (Q : Nat → Nat → Bool) :
    tri (m + 1) Q = tri m Q + (List.range m).countP (fun j => Q m j) := by
  unfold tri; rw [sum_range_succ]

theorem countP_range_false (m : Nat) (p : Nat → Bool) (h : ∀ j < m, p j = false) :
    (List.range m).countP p = 0 := by
  rw [List.countP_eq_zero]
  intro j hj
  simp [h j (List.mem_range.mp hj)]

/-- the partial sums `0,1,2,1,0,1,2,1,…` of the signs `+,+,-,-` -/
def waveE (m : Nat) : Int := if m % 4 = 0 then 0 else if m % 4 = 1 then 1 else if m % 4 = 2 then 2 else 1

/-- own row of team `t` in the last round: the orientations alternate, so home and away games
cancel in pairs -/
theorem alt_row (c : Bool) (m : Nat) :
    (((List.range m).countP (fun j => c != (j % 2 == 0)) : Nat) : Int)
      - (((List.range m).countP (fun j => !(c != (j % 2 == 0))) : Nat) : Int)
      = if m % 2 = 0 then 0 else (if c = true then -1 else 1) := by
  induction m with
  | zero => simp
  | succ k ih =>
    rw [List.range_succ, List.countP_append, List.countP_append]
    simp only [List.countP_cons, List.countP_nil, Nat.zero_add]
    have hk : k % 2 = 0 ∨ k % 2 = 1 := by omega
    have h1 : (k + 1) % 2 = 1 - k % 2 := by omega
    rcases hk with hk | hk <;> cases c
    all_goals
      simp only [hk, h1] at ih ⊢
      simp at ih ⊢
      omega

/-- home and away games of team `t` among the first `m` rows of the last round -/
def lastH (t m : Nat) : Nat := tri m (fun i j => (if orientLast i j = true then i else j) == t)
def lastA (t m : Nat) : Nat := tri m (fun i j => (if orientLast i j = true then j else i) == t)

theorem last_row_lt (t k : Nat) (h : k < t) :
    (List.range k).countP (fun j => (if orientLast k j = true then k else j) == t) = 0
    ∧ (List.range k).countP (fun j => (if orientLast k j = true then j else k) == t) = 0 := by
  constructor <;> apply countP_range_false <;> intro j hj <;> split <;> simp <;> omega

theorem last_row_eq (t : Nat) :
    (List.range t).countP (fun j => (if orientLast t j = true then t else j) == t)
      = (List.range t).countP (fun j => decide (2 ≤ t % 4) != (j % 2 == 0))
    ∧ (List.range t).countP (fun j => (if orientLast t j = true then j else t) == t)
      = (List.range t).countP (fun j => !(decide (2 ≤ t % 4) != (j % 2 == 0))) := by
  constructor <;> apply countP_range_congr <;> intro j hj <;> unfold orientLast
  · cases (decide (2 ≤ t % 4) != (j % 2 == 0)) <;> simp <;> omega
  · cases (decide (2 ≤ t % 4) != (j % 2 == 0)) <;> simp <;> omega

theorem last_row_gt (t k : Nat) (h : t < k) :
    (List.range k).countP (fun j => (if orientLast k j = true then k else j) == t)
      = (if orientLast k t = true then 0 else 1)
    ∧ (List.range k).countP (fun j => (if orientLast k j = true then j else k) == t)
      = (if orientLast k t = true then 1 else 0) := by
  constructor
  · rw [countP_range_congr _ (fun j => decide (j = t) && !orientLast k j) k, countP_range_dirac]
    · cases orientLast k t <;> simp [h]
    · intro j hj
      rw [Bool.eq_iff_iff]
      cases orientLast k j <;> simp <;> omega
  · rw [countP_range_congr _ (fun j => decide (j = t) && orientLast k j) k, countP_range_dirac]
    · cases orientLast k t <;> simp [h]
    · intro j hj
      rw [Bool.eq_iff_iff]
      cases orientLast k j <;> simp <;> omega

/-- **closed form** of the home/away difference of team `t` in the last round of an odd number of
rounds, for every number `m` of teams -/
theorem last_balance (t m : Nat) :
    (m ≤ t → lastH t m = 0 ∧ lastA t m = 0) ∧
    (t < m → (lastH t m : Int) - (lastA t m : Int) = if t % 2 = 0 then 1 - waveE m else waveE m - 1) := by
  induction m with
  | zero => simp [lastH, lastA, tri]
  | succ k ih =>
    have hH : lastH t (k + 1) = lastH t k +
        (List.range k).countP (fun j => (if orientLast k j = true then k else j) == t) := tri_succ _ _
    have hA : lastA t (k + 1) = lastA t k +
        (List.range k).countP (fun j => (if orientLast k j = true then j else k) == t) := tri_succ _ _
    constructor
    · intro hle
      have := last_row_lt t k (by omega)
      have := ih.1 (by omega)
      omega
    · intro hlt
      by_cases hkt : k = t
      · subst hkt
        have h0 := ih.1 (Nat.le_refl _)
        have hr := last_row_eq k
        have ha := alt_row (decide (2 ≤ k % 4)) k
        rw [hH, hA, hr.1, hr.2, h0.1, h0.2]
        simp only [Nat.zero_add]
        rw [ha]
        have h4 : k % 4 = 0 ∨ k % 4 = 1 ∨ k % 4 = 2 ∨ k % 4 = 3 := by omega
        rcases h4 with h4 | h4 | h4 | h4
        all_goals
          have e1 : (k + 1) % 4 = (k % 4 + 1) % 4 := by omega
          have e2 : k % 2 = (k % 4) % 2 := by omega
          simp [waveE, e1, e2, h4]
      · have hgt : t < k := by omega
        have hr := last_row_gt t k hgt
        have hi := ih.2 hgt
        rw [hH, hA, hr.1, hr.2]
        have h4 : k % 4 = 0 ∨ k % 4 = 1 ∨ k % 4 = 2 ∨ k % 4 = 3 := by omega
        have t2 : t % 2 = 0 ∨ t % 2 = 1 := by omega
        rcases h4 with h4 | h4 | h4 | h4 <;> rcases t2 with t2 | t2
        all_goals
          have e1 : (k + 1) % 4 = (k % 4 + 1) % 4 := by omega
          simp only [waveE, e1, h4, t2, orientLast] at hi ⊢
          simp at hi ⊢
          omega

theorem waveE_range (m : Nat) : 0 ≤ waveE m ∧ waveE m ≤ 2 := by
  unfold waveE; repeat' split
  all_goals omega

/-- in the last round of an odd number of rounds, home and away games of every team differ by at
most one — for every number of teams -/
theorem last_balance_le (t n : Nat) :
    lastH t n ≤ lastA t n + 1 ∧ lastA t n ≤ lastH t n + 1 := by
  have h := last_balance t n
  have hw := waveE_range n
  by_cases hle : n ≤ t
  · have := h.1 hle; omega
  · have := h.2 (by omega)
    split at this <;> omega


end GameEnc
