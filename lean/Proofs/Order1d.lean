import Model.Order1d
/-! Helper lemmas for C20 (ordering instances and swap distance). -/
namespace Order1d

/-! ## de-duplication -/

/-- the rows of the objects `done` against the columns `cols` -/
def matOf (dist : Nat → Nat → Int) (done cols : List Nat) : Matrix :=
  done.map fun k => cols.map (sdist dist k)

theorem sdist_comm (dist : Nat → Nat → Int) (a b : Nat) : sdist dist a b = sdist dist b a := by
  unfold sdist
  by_cases h : a = b
  · subst h; rfl
  · have h' : ¬ b = a := fun e => h e.symm
    simp only [h, h', if_false]
    by_cases hl : a < b
    · have : ¬ b < a := by omega
      simp [hl, this]
    · have : b < a := by omega
      simp [hl, this]

theorem delCol_matOf (g : Nat → Nat → Int) (done pre rest : List Nat) (o : Nat) :
    delCol (done.map fun k => (pre ++ o :: rest).map (g k)) pre.length
      = some (done.map fun k => (pre ++ rest).map (g k)) := by
  induction done with
  | nil => rfl
  | cons k t ih =>
    simp only [List.map_cons, delCol, ih]
    have : pre.length < ((pre ++ o :: rest).map (g k)).length := by simp
    simp only [this, if_true]
    congr 2
    rw [List.map_append, List.map_cons, List.eraseIdx_append_of_length_le (by simp)]
    simp

theorem colOf_matOf (g : Nat → Nat → Int) (done cols : List Nat) (i : Nat) (c : Nat)
    (hc : cols[i]? = some c) :
    colOf (done.map fun k => cols.map (g k)) i = some (done.map fun k => g k c) := by
  induction done with
  | nil => rfl
  | cons k t ih =>
    simp only [List.map_cons, colOf, ih]
    simp [hc]

def posB (dist : Nat → Nat → Int) (o1 : Nat) (o : Nat) : Bool := decide (0 < dist o1 o)

theorem scan_eq (dist : Nat → Nat → Int) (g : Nat → Nat → Int) (o1 i : Nat) (done : List Nat) :
    ∀ (rest pre : List Nat),
      scan dist o1 i rest pre.length (done.map fun k => (pre ++ rest).map (g k))
        = if rest.all (fun o => validDist (dist o1 o)) then
            .ok ⟨rest.filter (posB dist o1),
                 done.map (fun k => (pre ++ rest.filter (posB dist o1)).map (g k)),
                 (rest.filter (posB dist o1)).map (dist o1),
                 (rest.filter (fun o => !posB dist o1 o)).map (fun o => (o, i))⟩
          else .err := by
  intro rest
  induction rest with
  | nil => intro pre; simp [scan]
  | cons o2 rest ih =>
    intro pre
    unfold scan
    by_cases hv : validDist (dist o1 o2) = true
    · simp only [hv, Bool.not_true, Bool.false_eq_true, if_false, List.all_cons, Bool.true_and]
      by_cases hd : dist o1 o2 ≤ 0
      · have hp : posB dist o1 o2 = false := by simp [posB]; omega
        simp only [hd, if_true, delCol_matOf, ih pre]
        by_cases ha : (rest.all fun o => validDist (dist o1 o)) = true
        · simp [ha, hp]
        · simp [ha]
      · have hp : posB dist o1 o2 = true := by simp [posB]; omega
        simp only [hd, if_false]
        have := ih (pre ++ [o2])
        simp only [List.length_append, List.length_cons, List.length_nil, List.append_assoc,
          List.cons_append, List.nil_append] at this
        rw [this]
        by_cases ha : (rest.all fun o => validDist (dist o1 o)) = true
        · simp [ha, hp]
        · simp [ha]
    · simp [hv]


def validB (dist : Nat → Nat → Int) (o1 : Nat) (o : Nat) : Bool := validDist (dist o1 o)

theorem outer_step (dist : Nat → Nat → Int) (fuel : Nat) (done rest : List Nat) (o1 : Nat)
    (maps : List (Nat × Nat)) (hlt : ∀ o ∈ rest, o1 < o) :
    outer dist (fuel + 1) done (o1 :: rest) (matOf dist done (done ++ o1 :: rest)) maps
      = if rest.all (validB dist o1) then
          outer dist fuel (done ++ [o1]) (rest.filter (posB dist o1))
            (matOf dist (done ++ [o1]) ((done ++ [o1]) ++ rest.filter (posB dist o1)))
            (maps ++ (rest.filter (fun o => !posB dist o1 o)).map (fun o => (o, done.length))
              ++ [(o1, done.length)])
        else .err := by
  conv => lhs; unfold outer
  have hc : (done ++ o1 :: rest)[done.length]? = some o1 := by simp
  simp only [matOf]
  rw [colOf_matOf (sdist dist) done _ _ o1 hc]
  have hs := scan_eq dist (sdist dist) o1 done.length done rest (done ++ [o1])
  simp only [List.length_append, List.length_cons, List.length_nil, List.append_assoc,
    List.cons_append, List.nil_append, Nat.zero_add] at hs
  simp only [hs]
  by_cases ha : (rest.all fun o => validDist (dist o1 o)) = true
  · have ha' : rest.all (validB dist o1) = true := ha
    simp only [ha, ha', if_true]
    have hrow : List.map (fun k => sdist dist k o1) done ++
          0 :: List.map (dist o1) (List.filter (posB dist o1) rest)
        = List.map (sdist dist o1) (done ++ o1 :: List.filter (posB dist o1) rest) := by
      simp only [List.map_append, List.map_cons]
      congr 1
      · apply List.map_congr_left
        intro k _
        exact sdist_comm dist k o1
      · congr 1
        · simp [sdist]
        · apply List.map_congr_left
          intro o ho
          have : o1 < o := hlt o (List.mem_filter.mp ho).1
          have hne : ¬ o1 = o := by omega
          simp [sdist, this, hne]
    rw [hrow]
    simp only [List.map_append, List.map_cons, List.map_nil, List.append_assoc, List.cons_append,
      List.nil_append]
  · have ha' : ¬ rest.all (validB dist o1) = true := ha
    simp only [ha, ha']
    simp


theorem pairwise_lt_head {o1 : Nat} {done rest : List Nat}
    (h : (done ++ o1 :: rest).Pairwise (· < ·)) : ∀ o ∈ rest, o1 < o := by
  intro o ho
  have h2 := (List.pairwise_append.mp h).2.1
  exact List.rel_of_pairwise_cons h2 ho

theorem pairwise_lt_step {o1 : Nat} {done rest : List Nat} (q : Nat → Bool)
    (h : (done ++ o1 :: rest).Pairwise (· < ·)) :
    ((done ++ [o1]) ++ rest.filter q).Pairwise (· < ·) := by
  have : ((done ++ [o1]) ++ rest.filter q).Sublist (done ++ o1 :: rest) := by
    simp only [List.append_assoc, List.cons_append, List.nil_append]
    exact List.Sublist.append_left (List.Sublist.cons_cons _ List.filter_sublist) _
  exact h.sublist this

/-- the outer loop never leaves its lists and never runs out of its iteration bound -/
theorem outer_total (dist : Nat → Nat → Int) : ∀ (fuel : Nat) (done todo : List Nat)
    (maps : List (Nat × Nat)), todo.length ≤ fuel → (done ++ todo).Pairwise (· < ·) →
    outer dist fuel done todo (matOf dist done (done ++ todo)) maps = .err ∨
    ∃ R, outer dist fuel done todo (matOf dist done (done ++ todo)) maps = .ok R := by
  intro fuel
  induction fuel with
  | zero =>
    intro done todo maps hl _
    have : todo = [] := List.eq_nil_of_length_eq_zero (by omega)
    subst this
    simp [outer]
  | succ fuel ih =>
    intro done todo maps hl hp
    cases todo with
    | nil => simp [outer]
    | cons o1 rest =>
      rw [outer_step dist fuel done rest o1 maps (pairwise_lt_head hp)]
      by_cases ha : rest.all (validB dist o1) = true
      · simp only [ha, if_true]
        apply ih
        · have := List.length_filter_le (posB dist o1) rest
          simp at hl; omega
        · exact pairwise_lt_step _ hp
      · simp only [ha]
        exact Or.inl rfl

theorem outer_ok_of_valid (dist : Nat → Nat → Int)
    (hv : ∀ a b, a < b → validDist (dist a b) = true) : ∀ (fuel : Nat) (done todo : List Nat)
    (maps : List (Nat × Nat)), todo.length ≤ fuel → (done ++ todo).Pairwise (· < ·) →
    ∃ R, outer dist fuel done todo (matOf dist done (done ++ todo)) maps = .ok R := by
  intro fuel
  induction fuel with
  | zero =>
    intro done todo maps hl _
    have : todo = [] := List.eq_nil_of_length_eq_zero (by omega)
    subst this
    simp [outer]
  | succ fuel ih =>
    intro done todo maps hl hp
    cases todo with
    | nil => simp [outer]
    | cons o1 rest =>
      rw [outer_step dist fuel done rest o1 maps (pairwise_lt_head hp)]
      have ha : rest.all (validB dist o1) = true := by
        rw [List.all_eq_true]
        intro o ho
        exact hv _ _ (pairwise_lt_head hp o ho)
      simp only [ha, if_true]
      apply ih
      · have := List.length_filter_le (posB dist o1) rest
        simp at hl; omega
      · exact pairwise_lt_step _ hp

theorem outer_spec (dist : Nat → Nat → Int) : ∀ (fuel : Nat) (done todo : List Nat)
    (maps : List (Nat × Nat)) (R : SeqOut),
    todo.length ≤ fuel → (done ++ todo).Pairwise (· < ·) →
    done.Pairwise (fun a b => 0 < dist a b) → (∀ a ∈ done, ∀ o ∈ todo, 0 < dist a o) →
    outer dist fuel done todo (matOf dist done (done ++ todo)) maps = .ok R →
    ∃ K M, R.kept = done ++ K ∧ R.maps = maps ++ M ∧ R.rows = matOf dist R.kept R.kept ∧
      K.Sublist todo ∧ (done ++ K).Pairwise (fun a b => 0 < dist a b) ∧
      (M.map Prod.fst).Perm todo ∧
      ∀ m ∈ M, ∃ k, (done ++ K)[m.2]? = some k ∧ done.length ≤ m.2 ∧
        (m.1 = k ∨ (k < m.1 ∧ dist k m.1 = 0 ∧ m.1 ∉ K)) ∧
        (∀ r, r < m.2 → 0 < dist ((done ++ K).getD r 0) m.1) := by
  intro fuel
  induction fuel with
  | zero =>
    intro done todo maps R hl _ hpd _ h
    have : todo = [] := List.eq_nil_of_length_eq_zero (by omega)
    subst this
    simp [outer] at h
    subst h
    exact ⟨[], [], by simp, by simp, by simp, by simp, by simpa using hpd, by simp, by simp⟩
  | succ fuel ih =>
    intro done todo maps R hl hp hpd hH h
    cases todo with
    | nil =>
      simp [outer] at h
      subst h
      exact ⟨[], [], by simp, by simp, by simp, by simp, by simpa using hpd, by simp, by simp⟩
    | cons o1 rest =>
      have hlt := pairwise_lt_head hp
      rw [outer_step dist fuel done rest o1 maps hlt] at h
      by_cases ha : rest.all (validB dist o1) = true
      · simp only [ha, if_true] at h
        have hlen : (rest.filter (posB dist o1)).length ≤ fuel := by
          have := List.length_filter_le (posB dist o1) rest
          simp at hl; omega
        have hpd' : (done ++ [o1]).Pairwise (fun a b => 0 < dist a b) := by
          rw [List.pairwise_append]
          refine ⟨hpd, by simp, ?_⟩
          intro a ha' b hb
          simp at hb; subst hb
          exact hH a ha' b (by simp)
        have hH' : ∀ a ∈ done ++ [o1], ∀ o ∈ rest.filter (posB dist o1), 0 < dist a o := by
          intro a ha' o ho
          have ho' := List.mem_filter.mp ho
          rcases List.mem_append.mp ha' with h1 | h1
          · exact hH a h1 o (by simp [ho'.1])
          · simp at h1; subst h1
            simpa [posB] using ho'.2
        obtain ⟨K', M', hk, hm, hr, hsub, hpos, hperm, hmaps⟩ :=
          ih (done ++ [o1]) (rest.filter (posB dist o1)) _ R hlen (pairwise_lt_step _ hp) hpd' hH' h
        refine ⟨o1 :: K', (rest.filter (fun o => !posB dist o1 o)).map (fun o => (o, done.length))
            ++ [(o1, done.length)] ++ M', ?_, ?_, hr, ?_, ?_, ?_, ?_⟩
        · simpa using hk
        · simpa [List.append_assoc] using hm
        · exact List.Sublist.cons_cons _ (hsub.trans List.filter_sublist)
        · simpa using hpos
        · -- every object of `o1 :: rest` occurs exactly once among the mapped objects
          have h1 : ((rest.filter (fun o => !posB dist o1 o)).map (fun o => (o, done.length))).map Prod.fst
              = rest.filter (fun o => !posB dist o1 o) := by
            simp [List.map_map, Function.comp_def]
          simp only [List.map_append, h1, List.map_cons, List.map_nil]
          have h2 : (rest.filter (posB dist o1) ++ rest.filter (fun o => !posB dist o1 o)).Perm rest :=
            List.filter_append_perm _ _
          have h3 : (rest.filter (fun o => !posB dist o1 o) ++ [o1] ++ List.map Prod.fst M').Perm
              (rest.filter (fun o => !posB dist o1 o) ++ [o1] ++ rest.filter (posB dist o1)) :=
            List.Perm.append_left _ hperm
          refine h3.trans ?_
          have h4 : (rest.filter (fun o => !posB dist o1 o) ++ [o1] ++ rest.filter (posB dist o1)).Perm
              (o1 :: (rest.filter (posB dist o1) ++ rest.filter (fun o => !posB dist o1 o))) := by
            rw [List.append_assoc]
            refine (List.perm_append_comm).trans ?_
            simp
          exact h4.trans (List.Perm.cons _ h2)
        · intro m hm'
          have hdl : (done ++ o1 :: K')[done.length]? = some o1 := by simp
          rcases List.mem_append.mp hm' with hm1 | hm1
          · rcases List.mem_append.mp hm1 with hm2 | hm2
            · -- an object purged in this pass
              obtain ⟨o, ho, rfl⟩ := List.mem_map.mp hm2
              have ho' := List.mem_filter.mp ho
              have hnp : ¬ 0 < dist o1 o := by simpa [posB] using ho'.2
              have hval : validDist (dist o1 o) = true := (List.all_eq_true.mp ha) o ho'.1
              have h0 : 0 ≤ dist o1 o := by
                simp [validDist] at hval; exact hval.1
              have hd0 : dist o1 o = 0 := by omega
              refine ⟨o1, hdl, Nat.le_refl _, Or.inr ⟨hlt o ho'.1, hd0, ?_⟩, ?_⟩
              · intro hmem
                rcases List.mem_cons.mp hmem with e | e
                · have := hlt o ho'.1; omega
                · have := List.mem_filter.mp (hsub.subset e)
                  exact hnp (by simpa [posB] using this.2)
              · intro r hr'
                have hrd : r < done.length := hr'
                have : (done ++ o1 :: K').getD r 0 = done[r] := by
                  simp [List.getD_eq_getElem?_getD, List.getElem?_append_left hrd, List.getElem?_eq_getElem hrd]
                rw [this]
                exact hH _ (List.getElem_mem hrd) o (by simp [ho'.1])
            · -- the representative itself
              simp at hm2; subst hm2
              refine ⟨o1, hdl, Nat.le_refl _, Or.inl rfl, ?_⟩
              intro r hr'
              have hrd : r < done.length := hr'
              have : (done ++ o1 :: K').getD r 0 = done[r] := by
                simp [List.getD_eq_getElem?_getD, List.getElem?_append_left hrd, List.getElem?_eq_getElem hrd]
              rw [this]
              exact hH _ (List.getElem_mem hrd) o1 (by simp)
          · obtain ⟨k, hk1, hk2, hk3, hk4⟩ := hmaps m hm1
            have hass : done ++ o1 :: K' = (done ++ [o1]) ++ K' := by simp
            refine ⟨k, by rw [hass]; exact hk1, by simp at hk2; omega, ?_, by rw [hass]; exact hk4⟩
            rcases hk3 with e | ⟨e1, e2, e3⟩
            · exact Or.inl e
            · refine Or.inr ⟨e1, e2, ?_⟩
              intro hmem
              rcases List.mem_cons.mp hmem with e | e
              · have hin : m.1 ∈ rest.filter (posB dist o1) :=
                  hperm.subset (List.mem_map.mpr ⟨m, hm1, rfl⟩)
                have := hlt m.1 (List.mem_filter.mp hin).1
                omega
              · exact e3 e
      · simp only [ha] at h
        simp at h


/-! ## ranks and flows -/

theorem ipow_le_ipow {a b : Int} (p : Nat) (h0 : 0 ≤ a) (h : a ≤ b) : a ^ p ≤ b ^ p := by
  induction p with
  | zero => simp
  | succ p ih =>
    rw [Int.pow_succ, Int.pow_succ]
    exact Int.mul_le_mul ih h h0 (Int.pow_nonneg (by omega))

theorem ipow_lt_ipow {a b : Int} (p : Nat) (hp : 0 < p) (h0 : 0 < a) (h : a < b) : a ^ p < b ^ p := by
  induction p with
  | zero => omega
  | succ p ih =>
    rw [Int.pow_succ, Int.pow_succ]
    by_cases hp0 : p = 0
    · subst hp0; simpa using h
    · have := ih (by omega)
      exact Int.mul_lt_mul this (by omega) h0 (Int.pow_nonneg (by omega))

theorem one_le_ipow {a : Int} (p : Nat) (h : 1 ≤ a) : 1 ≤ a ^ p := by
  have := ipow_le_ipow p (by omega : (0:Int) ≤ 1) h
  simpa [Int.one_pow] using this

theorem mapM_some {α β} (f : α → Option β) : ∀ (l : List α) (L : List β), l.mapM f = some L →
    L.length = l.length ∧ ∀ i (h : i < l.length) (h' : i < L.length), f l[i] = some L[i] := by
  intro l
  induction l with
  | nil =>
    intro L h
    simp at h
    subst h
    simp
  | cons a t ih =>
    intro L h
    rw [List.mapM_cons] at h
    cases hfa : f a with
    | none => simp [hfa] at h
    | some b =>
      cases ht : t.mapM f with
      | none => simp [hfa, ht] at h
      | some bs =>
        simp [hfa, ht] at h
        subst h
        obtain ⟨h1, h2⟩ := ih bs ht
        refine ⟨by simp [h1], ?_⟩
        intro i hi hi'
        cases i with
        | zero => simpa using hfa
        | succ i => simpa using h2 i (by simpa using hi) (by simpa using hi')

def Square (D : Matrix) : Prop := ∀ r ∈ D, r.length = D.length

/-- the doubled zero-based average rank in the vocabulary of the specification -/
def r2 (D : Matrix) (i j : Nat) : Int := 2 * (closer D i j : Int) + (asFar D i j : Int) - 1

theorem list_eq_map_getD (l : List Int) : l = (List.range l.length).map (fun k => l.getD k 0) := by
  apply List.ext_getElem
  · simp
  · intro i h1 h2
    simp [List.getD_eq_getElem?_getD, List.getElem?_eq_getElem h1]

theorem rank2_eq_r2 (D : Matrix) (hsq : Square D) (i j : Nat) (hi : i < D.length) :
    rank2 (D.getD i []) (entry D i j) = r2 D i j := by
  have hrow : (D.getD i []).length = D.length := by
    have : D.getD i [] = D[i] := by simp [List.getD_eq_getElem?_getD, List.getElem?_eq_getElem hi]
    rw [this]; exact hsq _ (List.getElem_mem hi)
  unfold rank2 r2 closer asFar
  have hl := list_eq_map_getD (D.getD i [])
  rw [hrow] at hl
  have e1 : ∀ (q : Int → Bool), (D.getD i []).countP q
      = ((List.range D.length).filter (fun k => q (entry D i k))).length := by
    intro q
    conv => lhs; rw [hl]
    rw [List.countP_map, List.countP_eq_length_filter]
    rfl
  rw [e1, e1]

theorem closer_add_asFar_le (D : Matrix) (i j : Nat) : closer D i j + asFar D i j ≤ D.length := by
  unfold closer asFar
  have : ∀ (l : List Nat), (l.filter fun k => decide (entry D i k < entry D i j)).length
      + (l.filter fun k => decide (entry D i k = entry D i j)).length ≤ l.length := by
    intro l
    induction l with
    | nil => simp
    | cons a t ih =>
      simp only [List.filter_cons, List.length_cons]
      by_cases h1 : entry D i a < entry D i j
      · have h2 : ¬ entry D i a = entry D i j := by omega
        simp [h1, h2]; omega
      · by_cases h2 : entry D i a = entry D i j
        · simp [h2]; omega
        · simp [h1, h2]; omega
  simpa using this (List.range D.length)

theorem asFar_pos (D : Matrix) (i j : Nat) (hj : j < D.length) : 1 ≤ asFar D i j := by
  unfold asFar
  have : j ∈ (List.range D.length).filter fun k => decide (entry D i k = entry D i j) := by
    simp [List.mem_filter, hj]
  exact List.length_pos_of_mem this

theorem r2_le (D : Matrix) (i j : Nat) (hj : j < D.length) : r2 D i j ≤ 2 * ((D.length : Int) - 1) := by
  have h1 := closer_add_asFar_le D i j
  have h2 := asFar_pos D i j hj
  unfold r2
  omega

theorem r2_nonneg (D : Matrix) (i j : Nat) (hj : j < D.length) : 0 ≤ r2 D i j := by
  have h2 := asFar_pos D i j hj
  unfold r2
  omega

/-- a strictly nearer neighbour has a strictly smaller rank; equally distant ones the same -/
theorem r2_lt_of_lt (D : Matrix) (i j k : Nat) (hj : j < D.length)
    (h : entry D i j < entry D i k) : r2 D i j < r2 D i k := by
  have key : ∀ (l : List Nat),
      (l.filter fun m => decide (entry D i m < entry D i j)).length
        + (l.filter fun m => decide (entry D i m = entry D i j)).length
      ≤ (l.filter fun m => decide (entry D i m < entry D i k)).length := by
    intro l
    induction l with
    | nil => simp
    | cons a t ih =>
      simp only [List.filter_cons]
      by_cases h1 : entry D i a < entry D i j
      · have h2 : ¬ entry D i a = entry D i j := by omega
        have h3 : entry D i a < entry D i k := by omega
        simp [h1, h2, h3]; omega
      · by_cases h2 : entry D i a = entry D i j
        · have h3 : entry D i j < entry D i k := h
          have h1' : ¬ entry D i j < entry D i j := by omega
          simp [h2, h3, h1']; omega
        · by_cases h3 : entry D i a < entry D i k
          · simp [h1, h2, h3]; omega
          · simp [h1, h2, h3]; omega
  have hk := key (List.range D.length)
  have hp := asFar_pos D i j hj
  unfold r2 closer asFar at *
  omega

theorem r2_eq_of_eq (D : Matrix) (i j k : Nat) (h : entry D i j = entry D i k) :
    r2 D i j = r2 D i k := by
  unfold r2 closer asFar
  rw [h]

theorem r2_le_of_le (D : Matrix) (i j k : Nat) (hj : j < D.length)
    (h : entry D i j ≤ entry D i k) : r2 D i j ≤ r2 D i k := by
  by_cases he : entry D i j = entry D i k
  · exact Int.le_of_eq (r2_eq_of_eq D i j k he)
  · exact Int.le_of_lt (r2_lt_of_lt D i j k hj (by omega))

theorem beyond_iff (D : Matrix) (h : Int) (i j : Nat) : Beyond D h i j ↔ 2 * h < r2 D i j := by
  unfold Beyond r2; exact Iff.rfl

/-- what the constructor returns, entry by entry -/
theorem mkInstance_ok (D : Matrix) (p h : Int) (I : Inst) (hI : mkInstance D p h = .ok I) :
    0 < p ∧ p < 100 ∧ 1 ≤ h ∧ I.n = D.length ∧ I.horizon = min ((D.length : Int) - 1) h ∧
    I.doubled = needDouble D h ∧
    I.dist = (List.range D.length).map (fun i => (List.range D.length).map fun j =>
      if i ≤ j then ((j - i : Nat) : Int) else ((i - j : Nat) : Int)) ∧
    (List.range D.length).mapM (flowRow D I.doubled I.horizon h p.toNat) = some I.flows := by
  unfold mkInstance at hI
  simp only [] at hI
  repeat' split at hI
  all_goals try (simp at hI; done)
  rename_i h1 h2 h3 F hF h4
  simp at hI
  subst hI
  simp only []
  refine ⟨by omega, by omega, by omega, ?_, ?_, ?_, ?_, hF⟩ <;> first | rfl | trivial

theorem flows_entry (D : Matrix) (p h : Int) (I : Inst) (hI : mkInstance D p h = .ok I)
    (hsq : Square D) (i j : Nat) (hi : i < D.length) (hj : j < D.length) :
    entry I.flows i j = if i = j then 0 else if 2 * h < r2 D i j then 0
      else flowVal I.doubled I.horizon p.toNat (r2 D i j) := by
  obtain ⟨_, _, _, _, _, _, _, hF⟩ := mkInstance_ok D p h I hI
  obtain ⟨hlen, hrows⟩ := mapM_some _ _ _ hF
  simp only [List.length_range] at hlen
  have hi' : i < I.flows.length := by omega
  have hrow := hrows i (by simpa using hi) hi'
  simp only [List.getElem_range] at hrow
  unfold flowRow at hrow
  obtain ⟨hlen2, hent⟩ := mapM_some _ _ _ hrow
  simp only [List.length_range] at hlen2
  have hj' : j < (I.flows[i]).length := by omega
  have he := hent j (by simpa using hj) hj'
  simp only [List.getElem_range] at he
  have hentry : entry I.flows i j = (I.flows[i])[j] := by
    simp [entry, List.getD_eq_getElem?_getD, List.getElem?_eq_getElem hi',
      List.getElem?_eq_getElem hj']
  rw [hentry]
  by_cases hij : i = j
  · simp only [hij, if_true] at he ⊢
    simpa using he.symm
  · simp only [hij, if_false] at he ⊢
    have hrl : (D[i]).length = D.length := hsq _ (List.getElem_mem hi)
    have hDij : (D[i]?).bind (·[j]?) = some (entry D i j) := by
      have hjr : j < (D[i]).length := by omega
      simp [entry, List.getD_eq_getElem?_getD, List.getElem?_eq_getElem hi,
        List.getElem?_eq_getElem hjr]
    rw [hDij] at he
    simp only [] at he
    rw [rank2_eq_r2 D hsq i j hi] at he
    by_cases hb : 2 * h < r2 D i j
    · have hb' : r2 D i j > 2 * h := hb
      simp only [hb', if_true] at he ⊢
      simpa using he.symm
    · have hb' : ¬ r2 D i j > 2 * h := hb
      simp only [hb', if_false] at he ⊢
      simpa using he.symm


theorem needDouble_false (D : Matrix) (h : Int) (hsq : Square D) (hn : needDouble D h = false)
    (i j : Nat) (hi : i < D.length) (hj : j < D.length) (hij : i ≠ j) (hin : r2 D i j ≤ 2 * h) :
    r2 D i j % 2 = 0 := by
  unfold needDouble at hn
  have h2 : ¬ ((i != j) && (decide (rank2 (D.getD i []) (entry D i j) % 2 = 1)
      && decide (rank2 (D.getD i []) (entry D i j) ≤ 2 * h))) = true := by
    intro hc
    have : ((List.range D.length).any fun i => (List.range D.length).any fun j =>
        i != j && (let r := rank2 (D.getD i []) (entry D i j);
          decide (r % 2 = 1) && decide (r ≤ 2 * h))) = true := by
      rw [List.any_eq_true]
      refine ⟨i, by simpa using hi, ?_⟩
      rw [List.any_eq_true]
      exact ⟨j, by simpa using hj, hc⟩
    rw [this] at hn
    exact absurd hn (by simp)
  rw [rank2_eq_r2 D hsq i j hi] at h2
  have hne : (i != j) = true := by simpa using hij
  simp only [hne, Bool.true_and, Bool.and_eq_true, decide_eq_true_eq, not_and] at h2
  have := r2_nonneg D i j hj
  by_cases ho : r2 D i j % 2 = 1
  · exact absurd hin (h2 ho)
  · omega

theorem flowVal_antitone (dbl : Bool) (M : Int) (p : Nat) (r r' : Int) (hr : r ≤ r')
    (hM : r' ≤ 2 * M) : flowVal dbl M p r' ≤ flowVal dbl M p r ∧ 1 ≤ flowVal dbl M p r' := by
  unfold flowVal
  cases dbl
  · simp only [Bool.false_eq_true, if_false]
    exact ⟨ipow_le_ipow p (by omega) (by omega), one_le_ipow p (by omega)⟩
  · simp only [if_true]
    exact ⟨ipow_le_ipow p (by omega) (by omega), one_le_ipow p (by omega)⟩

theorem flowVal_strict (dbl : Bool) (M : Int) (p : Nat) (hp : 0 < p) (r r' : Int) (hr : r < r')
    (hM : r' ≤ 2 * M) (hpar : dbl = false → r % 2 = 0 ∧ r' % 2 = 0) :
    flowVal dbl M p r' < flowVal dbl M p r := by
  unfold flowVal
  cases dbl
  · simp only [Bool.false_eq_true, if_false]
    have := hpar rfl
    exact ipow_lt_ipow p hp (by omega) (by omega)
  · simp only [if_true]
    exact ipow_lt_ipow p hp (by omega) (by omega)


/-- the entry of an off-diagonal neighbour inside the horizon is a positive power -/
theorem flow_inside (D : Matrix) (p h : Int) (I : Inst) (hI : mkInstance D p h = .ok I)
    (hsq : Square D) (i j : Nat) (hi : i < D.length) (hj : j < D.length) (hij : i ≠ j)
    (hin : ¬ 2 * h < r2 D i j) :
    entry I.flows i j = flowVal I.doubled I.horizon p.toNat (r2 D i j) ∧
    r2 D i j ≤ 2 * I.horizon := by
  obtain ⟨_, _, _, _, hh, _⟩ := mkInstance_ok D p h I hI
  rw [flows_entry D p h I hI hsq i j hi hj]
  have := r2_le D i j hj
  refine ⟨by simp [hij, hin], ?_⟩
  rw [hh]; omega


theorem mapM_ne_none {α β} (f : α → Option β) : ∀ (l : List α), (∀ a ∈ l, f a ≠ none) →
    l.mapM f ≠ none := by
  intro l
  induction l with
  | nil => intro _; simp
  | cons a t ih =>
    intro h
    rw [List.mapM_cons]
    cases hfa : f a with
    | none => exact absurd hfa (h a (by simp))
    | some b =>
      cases ht : t.mapM f with
      | none => exact absurd ht (ih (fun x hx => h x (by simp [hx])))
      | some bs => simp

/-- on a square matrix the constructor never reads outside `distances` -/
theorem mkInstance_ne_oob (D : Matrix) (p h : Int) (hsq : Square D) :
    mkInstance D p h ≠ .oob ∧ mkInstance D p h ≠ .diverge := by
  have key : ∀ dbl maxVal (q : Nat),
      (List.range D.length).mapM (flowRow D dbl maxVal h q) ≠ none := by
    intro dbl maxVal q
    apply mapM_ne_none
    intro i hi
    have hi : i < D.length := by simpa using hi
    unfold flowRow
    apply mapM_ne_none
    intro j hj
    have hj : j < D.length := by simpa using hj
    have hrl : (D[i]).length = D.length := hsq _ (List.getElem_mem hi)
    have hjr : j < (D[i]).length := by omega
    by_cases hij : i = j
    · simp [hij]
    · simp only [hij, if_false]
      simp only [List.getElem?_eq_getElem hi, Option.bind_some, List.getElem?_eq_getElem hjr]
      split <;> simp
  unfold mkInstance
  simp only []
  constructor
  · repeat' split
    all_goals first | (intro hc; cases hc; done) | skip
    rename_i hF
    exact absurd hF (key _ _ _)
  · repeat' split
    all_goals (intro hc; cases hc)

end Order1d
