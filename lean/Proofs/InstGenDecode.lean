import Proofs.InstGenMerge
/-! Helper lemmas of C17, part 3: the decoded instance as a whole. -/
namespace InstGen
open Pack

theorem geoBound_eq (I : Inst) (k : Int) (hB : 0 < I.W * I.H) (h : NeedsBins I k) : geoBound I = k := by
  unfold geoBound NeedsBins at *
  simp only []
  generalize I.W * I.H = B at *
  generalize I.totalArea = A at *
  have h1 := Int.mul_ediv_add_emod A B
  have h2 := Int.emod_nonneg A (b := B) (by omega)
  have h3 := Int.emod_lt_of_pos A hB
  generalize A / B = g at *
  generalize A % B = r at *
  obtain ⟨ha, hb⟩ := h
  have e1 : (k - 1) * B = k * B - B := by ring
  have e2 : B * g = g * B := by ring
  have e3 : (g + 1) * B = g * B + B := by ring
  by_cases hr : r = 0
  · have hlt : (k - 1) * B < g * B := by omega
    have hle : g * B ≤ k * B := by omega
    have := Int.lt_of_mul_lt_mul_right hlt (by omega)
    have := Int.le_of_mul_le_mul_right hle hB
    rw [if_neg (by omega)]
    omega
  · have hlt : (k - 1) * B < (g + 1) * B := by omega
    have hlt2 : g * B < k * B := by omega
    have := Int.lt_of_mul_lt_mul_right hlt (by omega)
    have := Int.lt_of_mul_lt_mul_right hlt2 (by omega)
    rw [if_pos (by omega)]
    omega

theorem length_le_nItems (W H : Int) (L : List Item) (h : ∀ it ∈ L, 1 ≤ it.rep) :
    (L.length : Int) ≤ Inst.nItems ⟨W, H, L⟩ := by
  unfold Inst.nItems
  simp only []
  induction L with
  | nil => simp
  | cons a t ih =>
    have := ih (fun it hit => h it (by simp [hit]))
    have := h a (by simp)
    simp only [List.length_cons, List.map_cons, List.sum_cons]
    push_cast
    omega

theorem rep_le_nItems (W H : Int) (L : List Item) (h : ∀ it ∈ L, 0 ≤ it.rep) :
    ∀ it ∈ L, it.rep ≤ Inst.nItems ⟨W, H, L⟩ := by
  unfold Inst.nItems
  simp only []
  induction L with
  | nil => simp
  | cons a t ih =>
    intro it hit
    have h0 := ListLemmas.sum_map_nonneg t (·.rep) (fun b hb => h b (by simp [hb]))
    have ha := h a (by simp)
    simp only [List.map_cons, List.sum_cons]
    simp only [List.mem_cons] at hit
    rcases hit with hit | hit
    · rw [hit]; omega
    · have := ih (fun b hb => h b (by simp [hb])) it hit
      omega

theorem typ_mem_expand {L : List Item} {it : Item} (hit : it ∈ L) (h : 1 ≤ it.rep) : typ it ∈ expand L := by
  unfold expand
  refine List.mem_flatMap.mpr ⟨it, hit, List.mem_replicate.mpr ⟨by omega, rfl⟩⟩

/-- what holds for the instance built from any permutation of the merged list -/
structure Decoded (sp : Space) (flat : List PItem) (L : List Item) : Prop where
  feasible : Feasible ⟨sp.W, sp.H, L⟩ (layoutRows ⟨sp.W, sp.H, L⟩ flat) sp.minBins
  nItems : Inst.nItems ⟨sp.W, sp.H, L⟩ = sp.nItems
  area : Inst.totalArea ⟨sp.W, sp.H, L⟩ = areaSum flat
  rep : ∀ it ∈ L, 1 ≤ it.rep
  dims : ∀ it ∈ L, 1 ≤ it.w ∧ it.w ≤ sp.W ∧ 1 ≤ it.h ∧ it.h ≤ sp.H

theorem decodeMerged_ok {X} (num : Num X) (σ : List Item → List Item) (hσ : ∀ l, (σ l).Perm l)
    (sp : Space) (hs : SpaceOk sp) (x : List X) (j : Nat)
    (hx : (x.length : Int) = 2 * (sp.nItems - sp.minBins) + 2 * j) :
    ∃ flat merged, decodeItems num sp x = some flat ∧ decodeMerged num sp x = some merged ∧
      merged = mergeItems (sortItems (flat.map PItem.wh)) ∧
      Decoded sp flat (σ merged) ∧
      (sp.minBins - 1) * (sp.W * sp.H) < areaSum flat ∧ areaSum flat ≤ sp.minBins * (sp.W * sp.H) := by
  obtain ⟨flat, hflat, hlen, hlay, ha1, ha2⟩ := decodeItems_ok num sp hs x j hx
  refine ⟨flat, mergeItems (sortItems (flat.map PItem.wh)), hflat, by simp [decodeMerged, hflat], rfl, ?_, ha1, ha2⟩
  generalize hm : mergeItems (sortItems (flat.map PItem.wh)) = merged
  have hexp0 : expand merged = sortItems (flat.map PItem.wh) := by
    rw [← hm]; exact expand_mergeLoop _ _ (Nat.le_refl _)
  have hexp : (expand (σ merged)).Perm (flat.map PItem.wh) := by
    have h1 : (expand (σ merged)).Perm (expand merged) := List.Perm.flatMap_right _ (hσ merged)
    rw [hexp0] at h1
    exact h1.trans (sortItems_perm _)
  have hnd : ((σ merged).map typ).Nodup := by
    have : (merged.map typ).Nodup := by
      rw [← hm]; exact mergeLoop_nodup _ _ (sortItems_sorted _)
    exact ((hσ merged).map typ).nodup_iff.mpr this
  have hrep : ∀ it ∈ σ merged, 1 ≤ it.rep := by
    intro it hit
    have : it ∈ merged := (hσ merged).mem_iff.mp hit
    rw [← hm] at this
    exact mergeLoop_rep_pos _ _ it this
  have hrep0 : ∀ it ∈ σ merged, 0 ≤ it.rep := fun it h => by have := hrep it h; omega
  refine ⟨layout_feasible sp.W sp.H sp.minBins flat (σ merged) hlay hexp hnd hrep, ?_, ?_, hrep, ?_⟩
  · rw [nItems_eq_length_expand _ _ _ hrep0, hexp.length_eq, List.length_map, hlen]
  · rw [totalArea_eq_expand _ _ _ hrep0, ListLemmas.sum_map_perm _ hexp, List.map_map]
    rfl
  · intro it hit
    have hm' := hexp.mem_iff.mp (typ_mem_expand hit (hrep it hit))
    obtain ⟨p, hp, hwh⟩ := List.mem_map.mp hm'
    have hin := hlay.inside p hp
    unfold PItem.Inside at hin
    have h1 : p.w = it.w := congrArg Prod.fst hwh
    have h2 : p.h = it.h := congrArg Prod.snd hwh
    omega

theorem Decoded.good {sp : Space} {flat : List PItem} {L : List Item} (hs : SpaceOk sp)
    (h : Decoded sp flat L) (ha1 : (sp.minBins - 1) * (sp.W * sp.H) < areaSum flat)
    (ha2 : areaSum flat ≤ sp.minBins * (sp.W * sp.H)) (hv : Inst.Valid ⟨sp.W, sp.H, L⟩) :
    GoodFor sp ⟨sp.W, sp.H, L⟩ := by
  have hneeds : NeedsBins ⟨sp.W, sp.H, L⟩ sp.minBins := by
    unfold NeedsBins
    rw [h.area]
    exact ⟨ha1, ha2⟩
  have hB : 0 < sp.W * sp.H := Int.mul_pos (by have := hs.W1; omega) (by have := hs.H1; omega)
  exact ⟨hv, rfl, rfl, h.nItems, ⟨_, h.feasible⟩, hneeds, geoBound_eq _ _ hB hneeds⟩

theorem Decoded.valid {sp : Space} {flat : List PItem} {L : List Item} (hs : SpaceOk sp)
    (h : Decoded sp flat L) (hn : sp.nItems ≤ 100000000) : Inst.Valid ⟨sp.W, sp.H, L⟩ := by
  have hrep0 : ∀ it ∈ L, 0 ≤ it.rep := fun it hit => by have := h.rep it hit; omega
  have hlen := length_le_nItems sp.W sp.H L h.rep
  rw [h.nItems] at hlen
  have hk := hs.k1
  have hkn := hs.kn
  have hW1 := hs.W1
  have hH1 := hs.H1
  have hWle := hs.Wle
  have hHle := hs.Hle
  unfold Inst.Valid Inst.maxDim Inst.minDim
  simp only []
  refine ⟨hW1, by omega, hH1, by omega, ?_, by omega, ?_, by rw [h.nItems]; omega⟩
  · cases hL : L with
    | nil =>
      have := h.nItems
      rw [hL] at this
      simp [Inst.nItems] at this
      omega
    | cons a t => simp
  · intro it hit
    have hd := h.dims it hit
    have hr := h.rep it hit
    have hr2 := rep_le_nItems sp.W sp.H L hrep0 it hit
    rw [h.nItems] at hr2
    refine ⟨hd.1, by omega, hd.2.2.1, by omega, hr, by omega, ?_⟩
    omega

end InstGen
