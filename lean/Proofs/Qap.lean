import Model.Qap
import Proofs.Base
import Proofs.ListLemmas
import Mathlib.Tactic.Ring
import Mathlib.Tactic.Linarith
/-!
Helper lemmas for C09 (the property theorems are in `Props/C09.lean`).

1. the two loops of `_evaluate` as sums; 2. checked accessors on square matrices;
3. the rearrangement inequality on lists (exchange argument on sorted lists);
4. the QAP value as a dot product of the flattened flows with a permutation of the flattened
   distances; 5. `uint64` arithmetic of `trivial_bounds` without wrap; 6. tokeniser and the
   QAPLIB line machine.
-/
namespace Qap
open Base ListLemmas

/-! ### 1. sums over `List.range` and the loops -/

theorem sumTo_succ_shift (n : Nat) (g : Nat → Int) :
    sumTo (n + 1) g = g 0 + sumTo n (fun k => g (k + 1)) := by
  simp [sumTo, List.range_succ_eq_map, List.map_map, Function.comp_def]

theorem sumTo_congr (n : Nat) (g h : Nat → Int) (e : ∀ k < n, g k = h k) : sumTo n g = sumTo n h := by
  unfold sumTo
  congr 1
  apply List.map_congr_left
  intro k hk
  exact e k (List.mem_range.mp hk)

theorem innerLoop_eq (f d : Matrix) (i xi : Nat) (xs : List Nat) (j : Nat) (acc : Int) :
    innerLoop f d i xi xs j acc
      = acc + sumTo xs.length (fun k => entry f i (j + k) * entry d xi (xs.getD k 0)) := by
  induction xs generalizing j acc with
  | nil => simp [innerLoop, sumTo]
  | cons c r ih =>
    simp only [innerLoop, List.length_cons]
    rw [ih, sumTo_succ_shift]
    have : sumTo r.length (fun k => entry f i (j + 1 + k) * entry d xi (r.getD k 0))
        = sumTo r.length (fun k => entry f i (j + (k + 1)) * entry d xi ((c :: r).getD (k + 1) 0)) := by
      apply sumTo_congr
      intro k _
      simp [Nat.add_assoc, Nat.add_comm 1 k]
    rw [this]
    simp
    ring

theorem outerLoop_eq (f d : Matrix) (p xs : List Nat) (i : Nat) (acc : Int) :
    outerLoop f d p xs i acc
      = acc + sumTo xs.length (fun k => sumTo p.length
          (fun j => entry f (i + k) j * entry d (xs.getD k 0) (p.getD j 0))) := by
  induction xs generalizing i acc with
  | nil => simp [outerLoop, sumTo]
  | cons c r ih =>
    simp only [outerLoop, List.length_cons]
    rw [ih, sumTo_succ_shift, innerLoop_eq]
    have : sumTo r.length (fun k => sumTo p.length
          (fun j => entry f (i + 1 + k) j * entry d (r.getD k 0) (p.getD j 0)))
        = sumTo r.length (fun k => sumTo p.length
          (fun j => entry f (i + (k + 1)) j * entry d ((c :: r).getD (k + 1) 0) (p.getD j 0))) := by
      apply sumTo_congr
      intro k _
      simp [Nat.add_assoc, Nat.add_comm 1 k]
    rw [this]
    simp
    ring

theorem qapEval_eq_spec (f d : Matrix) (p : List Nat) : qapEval f d p = qapSpec f d p := by
  unfold qapEval qapSpec
  rw [outerLoop_eq]
  simp

theorem sum_flatMap_int {α} (l : List α) (g : α → List Int) :
    (l.flatMap g).sum = (l.map fun a => (g a).sum).sum := by
  induction l with
  | nil => simp
  | cons a t ih => simp [List.flatMap_cons, List.sum_append, ih]

theorem qapTerms_sum (f d : Matrix) (p : List Nat) : (qapTerms f d p).sum = qapSpec f d p := by
  unfold qapTerms qapSpec sumTo
  rw [sum_flatMap_int]

/-! ### 2. checked accessors on square matrices -/

theorem entry?_of_square {m : Matrix} {n i j : Nat} (hm : Square m n) (hi : i < n) (hj : j < n) :
    entry? m i j = some (entry m i j) := by
  obtain ⟨h1, h2⟩ := hm
  have hlt : i < m.length := by omega
  have hrow : (m[i]).length = n := h2 _ (List.getElem_mem hlt)
  simp [entry?, entry, List.getElem?_eq_getElem hlt, List.getD_eq_getElem?_getD,
    List.getElem?_eq_getElem (show j < (m[i]).length by omega)]

theorem idx?_ofNat {n a : Nat} (h : a < n) : idx? n (a : Int) = some a := by
  unfold idx?
  have h1 : ¬ ((a : Int) < 0) := by omega
  have h2 : (a : Int) < (n : Int) := by omega
  simp [h1, h2]

theorem at2?_of_square {m : Matrix} {n a b : Nat} (hm : Square m n) (ha : a < n) (hb : b < n) :
    at2? m (a : Int) (b : Int) = some (entry m a b) := by
  have := entry?_of_square hm ha hb
  obtain ⟨h1, h2⟩ := hm
  have hlt : a < m.length := by omega
  have hrow : (m[a]).length = n := h2 _ (List.getElem_mem hlt)
  unfold at2?
  rw [h1, idx?_ofNat ha]
  simp only [Option.bind_some, List.getElem?_eq_getElem hlt, hrow, idx?_ofNat hb]
  simpa [entry?, List.getElem?_eq_getElem hlt] using this

theorem entry_nonneg {m : Matrix} (hm : NonNeg m) (i j : Nat) : 0 ≤ entry m i j := by
  unfold entry
  rw [List.getD_eq_getElem?_getD, List.getD_eq_getElem?_getD]
  cases hi : m[i]? with
  | none => simp
  | some row =>
    simp only [Option.getD_some]
    cases hj : row[j]? with
    | none => simp
    | some v =>
      simp only [Option.getD_some]
      exact hm row (List.mem_of_getElem? hi) v (List.mem_of_getElem? hj)

theorem i64_id {v : Int} (h0 : 0 ≤ v) (h1 : v < 2 ^ 63) : i64 v = v := by
  unfold i64
  apply wrap_id <;> simp [DType.lo, DType.hi] <;> omega

theorem innerLoop_mono {f d : Matrix} (hf : NonNeg f) (hd : NonNeg d) (i xi : Nat) (xs : List Nat)
    (j : Nat) (acc : Int) : acc ≤ innerLoop f d i xi xs j acc := by
  induction xs generalizing j acc with
  | nil => simp [innerLoop]
  | cons c r ih =>
    simp only [innerLoop]
    have := ih (j + 1) (acc + entry f i j * entry d xi c)
    have := Int.mul_nonneg (entry_nonneg hf i j) (entry_nonneg hd xi c)
    omega

theorem outerLoop_mono {f d : Matrix} (hf : NonNeg f) (hd : NonNeg d) (p xs : List Nat)
    (i : Nat) (acc : Int) : acc ≤ outerLoop f d p xs i acc := by
  induction xs generalizing i acc with
  | nil => simp [outerLoop]
  | cons c r ih =>
    simp only [outerLoop]
    have := ih (i + 1) (innerLoop f d i c p 0 acc)
    have := innerLoop_mono hf hd i c p 0 acc
    omega

/-- the inner loop of the checked, wrapping kernel on in-range indices never leaves the arrays -/
theorem innerLoop?_isSome {f d : Matrix} {n : Nat} (hf : Square f n) (hd : Square d n) {i a : Nat}
    (hi : i < n) (ha : a < n) (xs : List Nat) (j : Nat) (acc : Int) (hj : j + xs.length ≤ n)
    (hx : ∀ c ∈ xs, c < n) :
    (innerLoop? f d i (a : Int) (asInts xs) j acc).isSome := by
  induction xs generalizing j acc with
  | nil => simp [innerLoop?, asInts]
  | cons c r ih =>
    have hc : c < n := hx c (by simp)
    simp only [List.length_cons] at hj
    simp only [asInts, List.map_cons, Int.ofNat_eq_natCast, innerLoop?, entry?_of_square hf hi (show j < n by omega),
      at2?_of_square hd ha hc]
    exact ih _ _ (by omega) (fun c' hc' => hx c' (by simp [hc']))

theorem outerLoop?_isSome {f d : Matrix} {n : Nat} (hf : Square f n) (hd : Square d n) (p : List Nat)
    (hp : ∀ c ∈ p, c < n) (hpl : p.length ≤ n) (xs : List Nat) (i : Nat) (acc : Int)
    (hi : i + xs.length ≤ n) (hx : ∀ c ∈ xs, c < n) :
    (outerLoop? f d (asInts p) (asInts xs) i acc).isSome := by
  induction xs generalizing i acc with
  | nil => simp [outerLoop?, asInts]
  | cons c r ih =>
    have hc : c < n := hx c (by simp)
    simp only [List.length_cons] at hi
    have h := innerLoop?_isSome hf hd (show i < n by omega) hc p 0 acc (by omega) hp
    obtain ⟨v, hv⟩ := Option.isSome_iff_exists.mp h
    simp only [asInts, List.map_cons, Int.ofNat_eq_natCast, outerLoop?] at hv ⊢
    simp only [hv]
    exact ih _ _ (by omega) (fun c' hc' => hx c' (by simp [hc']))

/-- … and, on non-negative matrices, computes the unbounded value as long as that stays below `2^63` -/
theorem innerLoop?_exact {f d : Matrix} {n : Nat} (hf : Square f n) (hd : Square d n)
    (nf : NonNeg f) (nd : NonNeg d) {i a : Nat} (hi : i < n) (ha : a < n) (xs : List Nat) (j : Nat)
    (acc : Int) (hj : j + xs.length ≤ n) (hx : ∀ c ∈ xs, c < n) (h0 : 0 ≤ acc)
    (hb : innerLoop f d i a xs j acc < 2 ^ 63) :
    innerLoop? f d i (a : Int) (asInts xs) j acc = some (innerLoop f d i a xs j acc) := by
  induction xs generalizing j acc with
  | nil => simp [innerLoop?, innerLoop, asInts]
  | cons c r ih =>
    have hc : c < n := hx c (by simp)
    simp only [List.length_cons] at hj
    simp only [innerLoop] at hb
    have ht := Int.mul_nonneg (entry_nonneg nf i j) (entry_nonneg nd a c)
    have hm := innerLoop_mono nf nd i a r (j + 1) (acc + entry f i j * entry d a c)
    simp only [asInts, List.map_cons, Int.ofNat_eq_natCast, innerLoop?, entry?_of_square hf hi (show j < n by omega),
      at2?_of_square hd ha hc, innerLoop]
    rw [i64_id (by omega) (by omega)]
    exact ih _ _ (by omega) (fun c' hc' => hx c' (by simp [hc'])) (by omega) hb

theorem outerLoop?_exact {f d : Matrix} {n : Nat} (hf : Square f n) (hd : Square d n)
    (nf : NonNeg f) (nd : NonNeg d) (p : List Nat) (hp : ∀ c ∈ p, c < n) (hpl : p.length ≤ n)
    (xs : List Nat) (i : Nat) (acc : Int) (hi : i + xs.length ≤ n) (hx : ∀ c ∈ xs, c < n)
    (h0 : 0 ≤ acc) (hb : outerLoop f d p xs i acc < 2 ^ 63) :
    outerLoop? f d (asInts p) (asInts xs) i acc
      = some (outerLoop f d p xs i acc) := by
  induction xs generalizing i acc with
  | nil => simp [outerLoop?, outerLoop, asInts]
  | cons c r ih =>
    have hc : c < n := hx c (by simp)
    simp only [List.length_cons] at hi
    simp only [outerLoop] at hb
    have hm := outerLoop_mono nf nd p r (i + 1) (innerLoop f d i c p 0 acc)
    have hm2 := innerLoop_mono nf nd i c p 0 acc
    have h := innerLoop?_exact hf hd nf nd (show i < n by omega) hc p 0 acc (by omega) hp h0 (by omega)
    simp only [asInts, List.map_cons, Int.ofNat_eq_natCast, outerLoop?, outerLoop] at h ⊢
    simp only [h]
    exact ih _ _ (by omega) (fun c' hc' => hx c' (by simp [hc'])) (by omega) hb

/-! ### 3. rearrangement inequality on lists -/

def Sorted (l : List Int) : Prop := l.Pairwise (· ≤ ·)

theorem sortAsc_perm (l : List Int) : (sortAsc l).Perm l := List.mergeSort_perm _ _

theorem sortAsc_sorted (l : List Int) : Sorted (sortAsc l) := by
  have := List.pairwise_mergeSort (le := fun a b : Int => decide (a ≤ b))
    (by intro a b c; simp; omega) (by intro a b; simp; omega) l
  exact this.imp (by intro a b h; simpa using h)

theorem sorted_perm_eq {l₁ l₂ : List Int} (s₁ : Sorted l₁) (s₂ : Sorted l₂) (h : l₁.Perm l₂) : l₁ = l₂ := by
  induction l₁ generalizing l₂ with
  | nil => exact (List.perm_nil.mp h.symm).symm ▸ rfl
  | cons a t ih =>
    cases l₂ with
    | nil => exact absurd h.length_eq (by simp)
    | cons b u =>
      have ha := List.pairwise_cons.mp s₁
      have hb := List.pairwise_cons.mp s₂
      have hab : a = b := by
        have h1 : b ∈ a :: t := h.mem_iff.mpr (by simp)
        have h2 : a ∈ b :: u := h.mem_iff.mp (by simp)
        rcases List.mem_cons.mp h1 with e | e
        · exact e.symm
        · rcases List.mem_cons.mp h2 with e' | e'
          · exact e'
          · have := ha.1 b e
            have := hb.1 a e'
            omega
      subst hab
      rw [ih ha.2 hb.2 h.cons_inv]

/-- a sorted permutation of `l` *is* `sortAsc l` (used to evaluate `sortAsc` on literals) -/
theorem sortAsc_eq {l s : List Int} (hs : Sorted s) (hp : l.Perm s) : sortAsc l = s :=
  sorted_perm_eq (sortAsc_sorted l) hs ((sortAsc_perm l).trans hp)

theorem sortAsc_eq_of_perm {l₁ l₂ : List Int} (h : l₁.Perm l₂) : sortAsc l₁ = sortAsc l₂ :=
  sorted_perm_eq (sortAsc_sorted _) (sortAsc_sorted _)
    ((sortAsc_perm l₁).trans (h.trans (sortAsc_perm l₂).symm))

@[simp] theorem dot_nil_left (b : List Int) : dot [] b = 0 := by simp [dot]
@[simp] theorem dot_nil_right (a : List Int) : dot a [] = 0 := by simp [dot]
@[simp] theorem dot_cons (x y : Int) (a b : List Int) : dot (x :: a) (y :: b) = x * y + dot a b := by
  simp [dot]

theorem dot_comm (a b : List Int) : dot a b = dot b a := by
  induction a generalizing b with
  | nil => simp
  | cons x a ih => cases b with
    | nil => simp
    | cons y b => simp [ih b, Int.mul_comm]

theorem dot_append {a₁ b₁ : List Int} (a₂ b₂ : List Int) (h : a₁.length = b₁.length) :
    dot (a₁ ++ a₂) (b₁ ++ b₂) = dot a₁ b₁ + dot a₂ b₂ := by
  unfold dot
  rw [List.zipWith_append h, List.sum_append]

theorem dot_map_neg (a b : List Int) : dot a (b.map (fun v => -v)) = - dot a b := by
  induction a generalizing b with
  | nil => simp
  | cons x a ih => cases b with
    | nil => simp
    | cons y b => simp [ih b]; ring

/-- exchange step: moving the smallest second component `y` to the front (against the smallest
first component `x`) does not decrease the dot product -/
theorem swap_step (x y y' : Int) (as bs : List Int) (hl : as.length = bs.length)
    (hx : ∀ a ∈ as, x ≤ a) (hy : y ≤ y') (hm : y ∈ bs) :
    ∃ bs', bs'.length = bs.length ∧ (y :: bs').Perm (y' :: bs) ∧
      x * y' + dot as bs ≤ x * y + dot as bs' := by
  induction bs generalizing as with
  | nil => simp at hm
  | cons z zs ih =>
    cases as with
    | nil => simp at hl
    | cons a0 as0 =>
      have ha0 : x ≤ a0 := hx a0 (by simp)
      by_cases hz : y = z
      · subst hz
        refine ⟨y' :: zs, by simp, List.Perm.swap _ _ _, ?_⟩
        simp only [dot_cons]
        nlinarith [mul_nonneg (sub_nonneg.mpr ha0) (sub_nonneg.mpr hy)]
      · have hm' : y ∈ zs := by
          rcases List.mem_cons.mp hm with e | e
          · exact absurd e hz
          · exact e
        obtain ⟨zs', h1, h2, h3⟩ := ih as0 (by simpa using hl) (fun a h => hx a (by simp [h])) hm'
        refine ⟨z :: zs', by simp [h1], ?_, ?_⟩
        · exact (List.Perm.swap _ _ _).trans ((h2.cons z).trans (List.Perm.swap _ _ _))
        · simp only [dot_cons]; omega

/-- **rearrangement inequality, upper half**: against an ascending `a`, the ascending
arrangement of `b` maximises the dot product -/
theorem dot_le_dot_sorted (a b b' : List Int) (sa : Sorted a) (sb : Sorted b) (hp : b'.Perm b)
    (hl : a.length = b.length) : dot a b' ≤ dot a b := by
  induction a generalizing b b' with
  | nil => simp
  | cons x as ih =>
    cases b with
    | nil => simp at hl
    | cons y bs =>
      cases b' with
      | nil => exact absurd hp.length_eq (by simp)
      | cons y' bs' =>
        have hsa := List.pairwise_cons.mp sa
        have hsb := List.pairwise_cons.mp sb
        have hlen : as.length = bs.length := by simpa using hl
        have hlen' : bs'.length = bs.length := by simpa using hp.length_eq
        have hy : y ≤ y' := by
          have : y' ∈ y :: bs := hp.mem_iff.mp (by simp)
          rcases List.mem_cons.mp this with e | e
          · omega
          · exact hsb.1 y' e
        have hmem : y ∈ y' :: bs' := hp.mem_iff.mpr (by simp)
        by_cases he : y = y'
        · subst he
          have := ih bs bs' hsa.2 hsb.2 hp.cons_inv hlen
          simp only [dot_cons]; omega
        · have hm' : y ∈ bs' := by
            rcases List.mem_cons.mp hmem with e | e
            · exact absurd e he
            · exact e
          obtain ⟨bs'', h1, h2, h3⟩ := swap_step x y y' as bs' (by omega) hsa.1 hy hm'
          have hp' : bs''.Perm bs := (h2.trans hp).cons_inv
          have := ih bs bs'' hsa.2 hsb.2 hp' hlen
          simp only [dot_cons]; omega

/-- lower half: against an ascending `a`, the descending arrangement of `b` minimises it -/
theorem dot_sorted_rev_le_dot (a b b' : List Int) (sa : Sorted a) (sb : Sorted b) (hp : b'.Perm b)
    (hl : a.length = b.length) : dot a b.reverse ≤ dot a b' := by
  have sneg : Sorted (b.reverse.map (fun v => -v)) := by
    unfold Sorted
    rw [List.pairwise_map, List.pairwise_reverse]
    exact sb.imp (by intro u v h; omega)
  have hp2 : (b'.map (fun v => -v)).Perm (b.reverse.map (fun v => -v)) :=
    (hp.trans (List.reverse_perm b).symm).map _
  have := dot_le_dot_sorted a _ _ sa sneg hp2 (by simp [hl])
  rw [dot_map_neg, dot_map_neg] at this
  omega


def dotP (L : List (Int × Int)) : Int := (L.map fun p => p.1 * p.2).sum

theorem dot_unzip (L : List (Int × Int)) : dot (L.map Prod.fst) (L.map Prod.snd) = dotP L := by
  induction L with
  | nil => simp [dotP]
  | cons p t ih => simp [dotP] at ih ⊢; omega

/-- sorting the pairs by their first component -/
theorem exists_sorted_pairs (a b : List Int) (hl : a.length = b.length) :
    ∃ b', b'.Perm b ∧ dot a b = dot (sortAsc a) b' := by
  let L := a.zip b
  let L' := L.mergeSort (fun p q => decide (p.1 ≤ q.1))
  have hperm : L'.Perm L := List.mergeSort_perm _ _
  have hsorted : Sorted (L'.map Prod.fst) := by
    have := List.pairwise_mergeSort (le := fun p q : Int × Int => decide (p.1 ≤ q.1))
      (by intro a b c; simp; omega) (by intro a b; simp; omega) L
    unfold Sorted
    rw [List.pairwise_map]
    exact this.imp (by intro a b h; simpa using h)
  have hfst : L.map Prod.fst = a := List.map_fst_zip (by omega)
  have hsnd : L.map Prod.snd = b := List.map_snd_zip (by omega)
  have h1 : L'.map Prod.fst = sortAsc a :=
    sorted_perm_eq hsorted (sortAsc_sorted a)
      (((hperm.map Prod.fst).trans (hfst ▸ List.Perm.refl _)).trans (sortAsc_perm a).symm)
  refine ⟨L'.map Prod.snd, (hperm.map Prod.snd).trans (hsnd ▸ List.Perm.refl _), ?_⟩
  rw [← h1, dot_unzip, ← hfst, ← hsnd, dot_unzip]
  exact (sum_map_perm _ hperm).symm

theorem dot_le_upper (a b : List Int) (hl : a.length = b.length) :
    dot a b ≤ dot (sortAsc a) (sortAsc b) := by
  obtain ⟨b', hp, he⟩ := exists_sorted_pairs a b hl
  rw [he]
  exact dot_le_dot_sorted _ _ _ (sortAsc_sorted a) (sortAsc_sorted b) (hp.trans (sortAsc_perm b).symm)
    (by rw [(sortAsc_perm a).length_eq, (sortAsc_perm b).length_eq, hl])

theorem lower_le_dot (a b : List Int) (hl : a.length = b.length) :
    dot (sortAsc a) (sortAsc b).reverse ≤ dot a b := by
  obtain ⟨b', hp, he⟩ := exists_sorted_pairs a b hl
  rw [he]
  exact dot_sorted_rev_le_dot _ _ _ (sortAsc_sorted a) (sortAsc_sorted b) (hp.trans (sortAsc_perm b).symm)
    (by rw [(sortAsc_perm a).length_eq, (sortAsc_perm b).length_eq, hl])


/-! ### 4. the QAP value as a dot product of the flattened matrices -/

theorem range_map_getD {α} (l : List α) (dflt : α) :
    (List.range l.length).map (fun j => l.getD j dflt) = l := by
  apply List.ext_getElem
  · simp
  · intro i h1 h2
    simp at h1
    simp [List.getD_eq_getElem?_getD, List.getElem?_eq_getElem h1]

theorem dot_row (row : List Int) (h : Nat → Int) :
    dot row ((List.range row.length).map h) = sumTo row.length (fun j => row.getD j 0 * h j) := by
  induction row generalizing h with
  | nil => simp [sumTo]
  | cons x r ih =>
    simp only [List.length_cons, List.range_succ_eq_map, List.map_cons, List.map_map, dot_cons]
    rw [sumTo_succ_shift]
    have := ih (fun k => h (k + 1))
    simp only [Function.comp_def] at this ⊢
    rw [this]
    simp

theorem dot_flatten (rows : List (List Int)) (G : Nat → List Int)
    (hG : ∀ k < rows.length, (rows.getD k []).length = (G k).length) :
    dot rows.flatten ((List.range rows.length).flatMap G)
      = sumTo rows.length (fun i => dot (rows.getD i []) (G i)) := by
  induction rows generalizing G with
  | nil => simp [sumTo]
  | cons r rs ih =>
    simp only [List.length_cons, List.range_succ_eq_map, List.flatten_cons, List.flatMap_cons,
      List.flatMap_map]
    rw [sumTo_succ_shift, dot_append _ _ (by simpa using hG 0 (by simp))]
    have := ih (fun k => G (k + 1)) (by
      intro k hk
      have := hG (k + 1) (by simp; omega)
      simpa using this)
    rw [this]
    simp

theorem perm_flatMap_left {α β} (l : List α) (g g' : α → List β) (h : ∀ a ∈ l, (g a).Perm (g' a)) :
    (l.flatMap g).Perm (l.flatMap g') := by
  induction l with
  | nil => simp
  | cons a t ih =>
    simp only [List.flatMap_cons]
    exact (h a (by simp)).append (ih (fun b hb => h b (by simp [hb])))

theorem flatten_square {d : Matrix} {n : Nat} (hd : Square d n) :
    d.flatten = (List.range n).flatMap (fun a => (List.range n).map (fun b => entry d a b)) := by
  obtain ⟨h1, h2⟩ := hd
  have e : d = (List.range n).map (fun a => (List.range n).map (fun b => entry d a b)) := by
    conv => lhs; rw [← range_map_getD d []]
    rw [h1]
    apply List.map_congr_left
    intro a ha
    have hlt : a < d.length := by simpa [h1] using ha
    have hrow : (d.getD a []).length = n := by
      rw [List.getD_eq_getElem?_getD, List.getElem?_eq_getElem hlt]
      exact h2 _ (List.getElem_mem hlt)
    conv => lhs; rw [← range_map_getD (d.getD a []) 0]
    rw [hrow]
    rfl
  conv => lhs; rw [e]
  rw [List.flatten_eq_flatMap, List.flatMap_map]
  rfl

/-- the distances in the order in which a permutation `p` pairs them with the flattened flows -/
def dperm (d : Matrix) (p : List Nat) : List Int :=
  (List.range p.length).flatMap fun i => (List.range p.length).map fun j =>
    entry d (p.getD i 0) (p.getD j 0)

theorem dperm_perm {d : Matrix} {n : Nat} (hd : Square d n) (p : List Nat) (hp : IsPerm p n) :
    (dperm d p).Perm d.flatten := by
  have e : dperm d p = p.flatMap (fun a => p.map (fun b => entry d a b)) := by
    unfold dperm
    conv => rhs; rw [← range_map_getD p 0]
    rw [List.flatMap_map]
    simp [List.map_map, Function.comp_def]
  rw [e, flatten_square hd]
  refine (List.Perm.flatMap_right _ hp).trans ?_
  apply perm_flatMap_left
  intro a _
  exact hp.map _

theorem length_flatMap_const {α β} (l : List α) (g : α → List β) (k : Nat)
    (h : ∀ a, (g a).length = k) : (l.flatMap g).length = l.length * k := by
  induction l with
  | nil => simp
  | cons a t ih => simp [List.flatMap_cons, ih, h, Nat.add_mul]; omega

theorem dperm_length (d : Matrix) (p : List Nat) : (dperm d p).length = p.length * p.length := by
  unfold dperm
  rw [length_flatMap_const _ _ p.length (by simp)]
  simp

theorem qapSpec_eq_dot {f d : Matrix} {n : Nat} (hf : Square f n) (p : List Nat) (hl : p.length = n) :
    qapSpec f d p = dot f.flatten (dperm d p) := by
  obtain ⟨h1, h2⟩ := hf
  unfold qapSpec dperm
  rw [hl, ← h1, dot_flatten]
  · apply sumTo_congr
    intro i hi
    have hrow : (f.getD i []).length = f.length := by
      rw [List.getD_eq_getElem?_getD, List.getElem?_eq_getElem hi, Option.getD_some]
      rw [h2 _ (List.getElem_mem hi), h1]
    rw [← hrow, dot_row]
    rfl
  · intro k hk
    rw [List.getD_eq_getElem?_getD, List.getElem?_eq_getElem hk, Option.getD_some]
    simp [h2 _ (List.getElem_mem hk), h1]

theorem flatten_length_square {m : Matrix} {n : Nat} (hm : Square m n) : m.flatten.length = n * n := by
  rw [flatten_square hm, length_flatMap_const _ _ n (by simp)]
  simp

/-- **rearrangement bounds for the QAP**: the value of every permutation lies between the two
sorted dot products -/
theorem qapSpec_between {f d : Matrix} {n : Nat} (hf : Square f n) (hd : Square d n) (p : List Nat)
    (hp : IsPerm p n) : lowerZ d f ≤ qapSpec f d p ∧ qapSpec f d p ≤ upperZ d f := by
  have hl : p.length = n := by simpa using hp.length_eq
  have hpm := dperm_perm hd p hp
  have hlen : f.flatten.length = (dperm d p).length := by
    rw [flatten_length_square hf, dperm_length, hl]
  rw [qapSpec_eq_dot hf p hl]
  unfold lowerZ upperZ
  rw [← sortAsc_eq_of_perm hpm]
  constructor
  · rw [dot_comm]
    exact lower_le_dot _ _ hlen
  · rw [dot_comm (sortAsc (dperm d p))]
    exact dot_le_upper _ _ hlen


/-! ### 5. `trivial_bounds` without wrap; the constructor -/

theorem u64_id {v : Int} (h0 : 0 ≤ v) (h1 : v < 2 ^ 64) : u64 v = v := by
  unfold u64
  apply wrap_id <;> simp [DType.lo, DType.hi] <;> omega

theorem dot_nonneg (a b : List Int) (ha : ∀ v ∈ a, 0 ≤ v) (hb : ∀ v ∈ b, 0 ≤ v) : 0 ≤ dot a b := by
  induction a generalizing b with
  | nil => simp
  | cons x a ih => cases b with
    | nil => simp
    | cons y b =>
      have := ih b (fun v h => ha v (by simp [h])) (fun v h => hb v (by simp [h]))
      have := Int.mul_nonneg (ha x (by simp)) (hb y (by simp))
      simp only [dot_cons]; omega

theorem dotW_eq_dot (a b : List Int) (ha : ∀ v ∈ a, 0 ≤ v) (hb : ∀ v ∈ b, 0 ≤ v)
    (h : dot a b < 2 ^ 64) : dotW a b = dot a b := by
  have key : List.zipWith (fun x y => u64 (x * y)) a b = List.zipWith (· * ·) a b := by
    induction a generalizing b with
    | nil => simp
    | cons x a ih => cases b with
      | nil => simp
      | cons y b =>
        have h1 := dot_nonneg a b (fun v h => ha v (by simp [h])) (fun v h => hb v (by simp [h]))
        have h2 := Int.mul_nonneg (ha x (by simp)) (hb y (by simp))
        simp only [dot_cons] at h
        simp only [List.zipWith_cons_cons]
        rw [u64_id h2 (by omega), ih b (fun v h => ha v (by simp [h])) (fun v h => hb v (by simp [h])) (by omega)]
  unfold dotW
  rw [key]
  exact u64_id (dot_nonneg a b ha hb) h

theorem flatten_map_u64 {m : Matrix} (hm : RepU64 m) : m.flatten.map u64 = m.flatten := by
  conv => rhs; rw [← List.map_id m.flatten]
  apply List.map_congr_left
  intro v hv
  obtain ⟨r, hr, hv'⟩ := List.mem_flatten.mp hv
  have := hm r hr v hv'
  simp [u64_id this.1 this.2]

theorem mem_flatten_nonneg {m : Matrix} (hm : RepU64 m) : ∀ v ∈ m.flatten, 0 ≤ v := by
  intro v hv
  obtain ⟨r, hr, hv'⟩ := List.mem_flatten.mp hv
  exact (hm r hr v hv').1

theorem lowerZ_le_upperZ {d f : Matrix} {n : Nat} (hd : Square d n) (hf : Square f n) :
    lowerZ d f ≤ upperZ d f := by
  have hl : d.flatten.length = f.flatten.length := by
    rw [flatten_length_square hd, flatten_length_square hf]
  have h1 := lower_le_dot f.flatten d.flatten hl.symm
  have h2 := dot_le_upper f.flatten d.flatten hl.symm
  unfold lowerZ upperZ
  rw [dot_comm, dot_comm (sortAsc d.flatten)]
  omega

/-- inside `uint64` the kernel returns the documented bounds -/
theorem trivialBounds_eq {d f : Matrix} {n : Nat} (hd : Square d n) (hf : Square f n)
    (rd : RepU64 d) (rf : RepU64 f) (hub : upperZ d f < 2 ^ 64) :
    trivialBounds d f = (lowerZ d f, upperZ d f) := by
  have nd := mem_flatten_nonneg rd
  have nf := mem_flatten_nonneg rf
  have sd : ∀ v ∈ sortAsc d.flatten, 0 ≤ v := fun v h => nd v ((sortAsc_perm _).mem_iff.mp h)
  have sf : ∀ v ∈ sortAsc f.flatten, 0 ≤ v := fun v h => nf v ((sortAsc_perm _).mem_iff.mp h)
  have hle := lowerZ_le_upperZ hd hf
  unfold trivialBounds
  simp only [flatten_map_u64 rd, flatten_map_u64 rf]
  rw [dotW_eq_dot _ _ sd sf hub, dotW_eq_dot _ _ (fun v h => sd v (List.mem_reverse.mp h)) sf
    (by unfold lowerZ upperZ at *; omega)]
  rfl

theorem le_foldl_max (l : List Int) (init : Int) :
    init ≤ l.foldl max init ∧ ∀ v ∈ l, v ≤ l.foldl max init := by
  induction l generalizing init with
  | nil => simp
  | cons a t ih =>
    simp only [List.foldl_cons]
    have := ih (max init a)
    refine ⟨by omega, ?_⟩
    intro v hv
    rcases List.mem_cons.mp hv with e | e
    · subst e; omega
    · exact this.2 v e

theorem le_maxEntry {m : Matrix} {r : List Int} {v : Int} (hr : r ∈ m) (hv : v ∈ r) : v ≤ maxEntry m :=
  (le_foldl_max m.flatten 0).2 v (List.mem_flatten.mpr ⟨r, hr, hv⟩)

theorem square_of_all {m : Matrix} {n : Nat} (hl : m.length = n)
    (h : (m.all (·.length == n)) = true) : Square m n := by
  refine ⟨hl, ?_⟩
  intro r hr
  have := List.all_eq_true.mp h r hr
  simpa using this

/-- what an accepted constructor call guarantees -/
theorem mkQap_some {d f : Matrix} {lbG ubG : Option Int} {I : Inst} (h : mkQap d f lbG ubG = some I) :
    I.n = d.length ∧ Square d I.n ∧ Square f I.n ∧
    (∃ lg ug, checkBound lbG = some lg ∧ checkBound ubG = some ug ∧
      I.lb = pickLb (trivialBounds d f).1 lg ∧ I.ub = pickUb (trivialBounds d f).2 ug) ∧
    I.lb ≤ I.ub ∧
    dtypeFor 0 (max I.ub (max (maxEntry d) (maxEntry f))) = some I.dtype ∧
    I.dists = d.map (·.map I.dtype.wrap) ∧ I.flows = f.map (·.map I.dtype.wrap) := by
  unfold mkQap at h
  simp only [] at h
  split at h
  · simp at h
  rename_i h1
  split at h
  · simp at h
  rename_i h2
  split at h
  · simp at h
  rename_i lg hlg
  split at h
  · simp at h
  rename_i ug hug
  split at h
  · simp at h
  rename_i h3
  split at h
  · simp at h
  rename_i t ht
  simp at h
  subst h
  have h1' : (d.all (·.length == d.length)) = true := by simpa using h1
  have h2' : f.length = d.length ∧ (f.all (·.length == d.length)) = true := by simpa using h2
  refine ⟨rfl, square_of_all rfl h1', square_of_all h2'.1 h2'.2, ⟨lg, ug, hlg, hug, rfl, rfl⟩, by simpa using h3, ht, rfl, rfl⟩


/-! ### 6. tokeniser -/

theorem tokAux_ws (ws rest : List Char) (h : AllWs ws) : tokAux (ws ++ rest) [] = tokAux rest [] := by
  induction ws with
  | nil => rfl
  | cons c cs ih =>
    have hc : isWs c = true := h c (by simp)
    simp only [List.cons_append, tokAux, hc, if_true, List.isEmpty_nil]
    exact ih (fun c' hc' => h c' (by simp [hc']))

theorem tokAux_ws_flush (c : Char) (ws rest cur : List Char) (hc : isWs c = true) (h : AllWs ws)
    (hcur : cur ≠ []) : tokAux (c :: ws ++ rest) cur = cur.reverse :: tokAux rest [] := by
  have : cur.isEmpty = false := by cases cur <;> simp_all
  simp only [List.cons_append, tokAux, hc, if_true, this]
  rw [tokAux_ws ws rest h]
  rfl

theorem tokAux_tok (t rest cur : List Char) (h : ∀ c ∈ t, isWs c = false) :
    tokAux (t ++ rest) cur = tokAux rest (t.reverse ++ cur) := by
  induction t generalizing cur with
  | nil => rfl
  | cons c cs ih =>
    have hc : isWs c = false := h c (by simp)
    simp only [List.cons_append, tokAux, hc]
    rw [show (c :: cs).reverse ++ cur = cs.reverse ++ (c :: cur) by simp]
    exact ih _ (fun c' hc' => h c' (by simp [hc']))

theorem tokAux_goodToks (ts : List (List Char × List Char)) (h : GoodToks ts) :
    tokAux (ts.flatMap fun ts => ts.1 ++ ts.2) [] = ts.map Prod.fst := by
  induction ts with
  | nil => rfl
  | cons a rest ih =>
    obtain ⟨t, sep⟩ := a
    cases rest with
    | nil =>
      obtain ⟨⟨hne, hnw⟩, hs⟩ := h
      dsimp only at hne hnw hs
      simp only [List.flatMap_cons, List.flatMap_nil, List.append_nil, List.map_cons, List.map_nil]
      rw [tokAux_tok t sep [] hnw, List.append_nil]
      cases sep with
      | nil =>
        have : t.reverse.isEmpty = false := by cases t <;> simp_all
        simp [tokAux, this]
      | cons c ws =>
        have := tokAux_ws_flush c ws [] t.reverse (hs c (by simp))
          (fun c' hc' => hs c' (by simp [hc'])) (by simpa using hne)
        simp only [List.append_nil] at this
        rw [this]
        simp [tokAux]
    | cons b rest' =>
      obtain ⟨⟨hne, hnw⟩, hs, hsne, hrest⟩ := h
      dsimp only at hne hnw hs hsne
      have ih' := ih hrest
      simp only [List.flatMap_cons, List.map_cons] at ih' ⊢
      rw [List.append_assoc, tokAux_tok t _ [] hnw, List.append_nil]
      cases sep with
      | nil => exact absurd rfl hsne
      | cons c ws =>
        have := tokAux_ws_flush c ws (b.1 ++ b.2 ++ List.flatMap (fun ts => ts.1 ++ ts.2) rest')
          t.reverse (hs c (by simp)) (fun c' hc' => hs c' (by simp [hc'])) (by simpa using hne)
        simp only [List.cons_append] at this ⊢
        rw [this, ih']
        simp

/-- **extra spaces**: a line made of leading blanks and tokens separated by non-empty runs of
blanks (anything from `isWs`: spaces, tabs, line ends, …) tokenises to exactly its tokens -/
theorem tokens_layout' (lead : List Char) (ts : List (List Char × List Char)) (hl : AllWs lead)
    (h : GoodToks ts) : tokens (layout lead ts) = ts.map Prod.fst := by
  unfold tokens layout
  rw [tokAux_ws lead _ hl]
  exact tokAux_goodToks ts h

/-! ### 7. the QAPLIB line machine -/

theorem rowOf_blank {l : Line} (h : tokens l = []) : rowOf l = some [] := by
  simp [rowOf, h]

theorem rowOf_nil_blank {l : Line} (h : rowOf l = some []) : tokens l = [] := by
  unfold rowOf at h
  cases ht : tokens l with
  | nil => rfl
  | cons t ts =>
    rw [ht] at h
    simp only [List.mapM_cons] at h
    cases h1 : flowOrDist t with
    | none => simp [h1] at h
    | some v =>
      cases h2 : List.mapM flowOrDist ts with
      | none => simp [h1, h2] at h
      | some vs => simp [h1, h2] at h

theorem valsOf_cons {l : Line} {ls : List Line} {vs : List Int} (h : valsOf (l :: ls) = some vs) :
    ∃ r rs, rowOf l = some r ∧ valsOf ls = some rs ∧ vs = r ++ rs := by
  unfold valsOf at h
  split at h
  · rename_i r rs hr hrs
    exact ⟨r, rs, hr, hrs, by simpa using h.symm⟩
  · simp at h

theorem valsOf_cons_eq {l : Line} {ls : List Line} {r rs : List Int} (h1 : rowOf l = some r)
    (h2 : valsOf ls = some rs) : valsOf (l :: ls) = some (r ++ rs) := by
  simp [valsOf, h1, h2]

theorem valsOf_nil_blank {ls : List Line} (h : valsOf ls = some []) : ∀ l ∈ ls, tokens l = [] := by
  induction ls with
  | nil => simp
  | cons l t ih =>
    obtain ⟨r, rs, h1, h2, h3⟩ := valsOf_cons h
    have hr : r = [] := by
      cases r with
      | nil => rfl
      | cons _ _ => simp at h3
    have hrs : rs = [] := by
      subst hr; simpa using h3.symm
    subst hr; subst hrs
    intro l' hl'
    rcases List.mem_cons.mp hl' with e | e
    · subst e; exact rowOf_nil_blank h1
    · exact ih h2 l' e

theorem valsOf_blank {ls : List Line} (h : ∀ l ∈ ls, tokens l = []) : valsOf ls = some [] := by
  induction ls with
  | nil => rfl
  | cons l t ih =>
    have := valsOf_cons_eq (rowOf_blank (h l (by simp))) (ih (fun l' hl' => h l' (by simp [hl'])))
    simpa using this

theorem valsOf_append {a b : List Line} {va vb : List Int} (ha : valsOf a = some va)
    (hb : valsOf b = some vb) : valsOf (a ++ b) = some (va ++ vb) := by
  induction a generalizing va with
  | nil => simp [valsOf] at ha; subst ha; simpa using hb
  | cons l t ih =>
    obtain ⟨r, rs, h1, h2, h3⟩ := valsOf_cons ha
    subst h3
    have := valsOf_cons_eq h1 (ih h2)
    simpa [List.append_assoc] using this

theorem valsOf_append_inv {a b : List Line} {v : List Int} (h : valsOf (a ++ b) = some v) :
    ∃ va vb, valsOf a = some va ∧ valsOf b = some vb ∧ v = va ++ vb := by
  induction a generalizing v with
  | nil => exact ⟨[], v, rfl, by simpa using h, by simp⟩
  | cons l t ih =>
    obtain ⟨r, rs, h1, h2, h3⟩ := valsOf_cons (by simpa using h)
    obtain ⟨va, vb, ha, hb, hv⟩ := ih h2
    exact ⟨r ++ va, vb, valsOf_cons_eq h1 ha, hb, by simp [h3, hv, List.append_assoc]⟩

/-- blank lines are skipped in state 2 -/
theorem run2_skip (n2 : Nat) (flows dists : List Int) (bl rest : List Line)
    (h : ∀ l ∈ bl, tokens l = []) : run2 n2 flows dists (bl ++ rest) = run2 n2 flows dists rest := by
  induction bl with
  | nil => rfl
  | cons l t ih =>
    simp only [List.cons_append, run2, h l (by simp), List.isEmpty_nil, if_true]
    exact ih (fun l' hl' => h l' (by simp [hl']))

theorem run2_complete (n2 : Nat) (flows : List Int) (dl : List Line) (dists vs : List Int)
    (post : List Line) (hv : valsOf dl = some vs) (hlt : dists.length < n2)
    (hlen : (dists ++ vs).length = n2) :
    run2 n2 flows dists (dl ++ post) = some (3, flows, dists ++ vs) := by
  induction dl generalizing dists vs with
  | nil =>
    simp [valsOf] at hv
    subst hv
    simp at hlen
    omega
  | cons l ls ih =>
    obtain ⟨r, rs, h1, h2, h3⟩ := valsOf_cons hv
    subst h3
    by_cases hb : (tokens l).isEmpty = true
    · have hr : r = [] := by
        have := rowOf_blank (List.isEmpty_iff.mp hb)
        rw [h1] at this
        simpa using this
      subst hr
      simp only [List.cons_append, run2, hb, if_true]
      simpa using ih dists rs h2 hlt (by simpa using hlen)
    · simp only [List.cons_append, run2, hb, h1]
      simp only [Bool.false_eq_true, if_false]
      by_cases hc : (dists ++ r).length ≥ n2
      · have hrs : rs = [] := by
          simp only [List.length_append] at hlen hc
          have : rs.length = 0 := by omega
          exact List.eq_nil_of_length_eq_zero this
        subst hrs
        rw [if_pos hc]
        simp
      · rw [if_neg hc]
        have := ih (dists ++ r) rs h2 (by omega) (by simpa [List.append_assoc] using hlen)
        simpa [List.append_assoc] using this

theorem run1_complete (n2 : Nat) (hn2 : 0 < n2) (fl : List Line) (flows vs : List Int)
    (rest : List Line) (hv : valsOf fl = some vs) (hlt : flows.length < n2)
    (hlen : (flows ++ vs).length = n2) :
    run1 n2 [] flows (fl ++ rest) = run2 n2 (flows ++ vs) [] rest := by
  induction fl generalizing flows vs with
  | nil =>
    simp [valsOf] at hv
    subst hv
    simp at hlen
    omega
  | cons l ls ih =>
    obtain ⟨r, rs, h1, h2, h3⟩ := valsOf_cons hv
    subst h3
    by_cases hb : (tokens l).isEmpty = true
    · have hr : r = [] := by
        have := rowOf_blank (List.isEmpty_iff.mp hb)
        rw [h1] at this
        simpa using this
      subst hr
      simp only [List.cons_append, run1, hb, if_true]
      simpa using ih flows rs h2 hlt (by simpa using hlen)
    · simp only [List.cons_append, run1, hb, h1]
      simp only [Bool.false_eq_true, if_false]
      by_cases hc : (flows ++ r).length ≥ n2
      · have hrs : rs = [] := by
          simp only [List.length_append] at hlen hc
          have : rs.length = 0 := by omega
          exact List.eq_nil_of_length_eq_zero this
        subst hrs
        rw [if_pos hc]
        simp only [List.append_nil]
        exact run2_skip _ _ _ _ _ (valsOf_nil_blank h2)
      · have h0 : ¬ (([] : List Int).length ≥ n2) := by simp; omega
        rw [if_neg hc, if_neg h0]
        have := ih (flows ++ r) rs h2 (by omega) (by simpa [List.append_assoc] using hlen)
        simpa [List.append_assoc] using this

/-- lines that leave the flows incomplete keep the machine in state 1 -/
theorem run1_prefix (n2 : Nat) (hn2 : 0 < n2) (fl : List Line) (flows vs : List Int)
    (rest : List Line) (hv : valsOf fl = some vs) (hlen : (flows ++ vs).length < n2) :
    run1 n2 [] flows (fl ++ rest) = run1 n2 [] (flows ++ vs) rest := by
  induction fl generalizing flows vs with
  | nil =>
    simp [valsOf] at hv
    subst hv
    simp
  | cons l ls ih =>
    obtain ⟨r, rs, h1, h2, h3⟩ := valsOf_cons hv
    subst h3
    by_cases hb : (tokens l).isEmpty = true
    · have hr : r = [] := by
        have := rowOf_blank (List.isEmpty_iff.mp hb)
        rw [h1] at this
        simpa using this
      subst hr
      simp only [List.cons_append, run1, hb, if_true]
      simpa using ih flows rs h2 (by simpa using hlen)
    · simp only [List.cons_append, run1, hb, h1]
      simp only [Bool.false_eq_true, if_false]
      simp only [List.length_append] at hlen
      have hc : ¬ ((flows ++ r).length ≥ n2) := by simp only [List.length_append]; omega
      have h0 : ¬ (([] : List Int).length ≥ n2) := by simp; omega
      rw [if_neg hc, if_neg h0]
      have := ih (flows ++ r) rs h2 (by simp only [List.length_append]; omega)
      simpa [List.append_assoc] using this

theorem run0_skip (bl rest : List Line) (h : ∀ l ∈ bl, tokens l = []) : run0 (bl ++ rest) = run0 rest := by
  induction bl with
  | nil => rfl
  | cons l t ih =>
    simp only [List.cons_append, run0, h l (by simp)]
    exact ih (fun l' hl' => h l' (by simp [hl']))

theorem run2_flows {n2 : Nat} {flows dists : List Int} {ls : List Line} {r : LoopRes}
    (h : run2 n2 flows dists ls = some r) : r.2.1 = flows := by
  induction ls generalizing dists with
  | nil => simp [run2] at h; subst h; rfl
  | cons l t ih =>
    simp only [run2] at h
    split at h
    · exact ih h
    · split at h
      · simp at h
      · split at h
        · simp at h; subst h; rfl
        · exact ih h


/-! ### 8. inversion of the line machine -/

theorem run2_sound {n2 : Nat} {flows dists : List Int} {lines : List Line} {F' D' : List Int}
    (h : run2 n2 flows dists lines = some (3, F', D')) :
    ∃ dl post vs, lines = dl ++ post ∧ valsOf dl = some vs ∧ D' = dists ++ vs ∧ F' = flows := by
  induction lines generalizing dists with
  | nil => simp [run2] at h
  | cons l ls ih =>
    simp only [run2] at h
    split at h
    · rename_i hb
      obtain ⟨dl, post, vs, e1, e2, e3, e4⟩ := ih h
      refine ⟨l :: dl, post, vs, by simp [e1], ?_, e3, e4⟩
      have := valsOf_cons_eq (rowOf_blank (List.isEmpty_iff.mp hb)) e2
      simpa using this
    · split at h
      · simp at h
      · rename_i row hrow
        split at h
        · simp at h
          exact ⟨[l], ls, row, by simp, by simpa using valsOf_cons_eq hrow (rfl : valsOf [] = some []),
            h.2.symm, h.1.symm⟩
        · obtain ⟨dl, post, vs, e1, e2, e3, e4⟩ := ih h
          exact ⟨l :: dl, post, row ++ vs, by simp [e1], valsOf_cons_eq hrow e2,
            by simp [e3, List.append_assoc], e4⟩

theorem run1_sound {n2 : Nat} (hn2 : 0 < n2) {flows : List Int} {lines : List Line} {F' D' : List Int}
    (h : run1 n2 [] flows lines = some (3, F', D')) :
    ∃ fl rest vs, lines = fl ++ rest ∧ valsOf fl = some vs ∧ F' = flows ++ vs ∧
      run2 n2 F' [] rest = some (3, F', D') := by
  induction lines generalizing flows with
  | nil => simp [run1] at h
  | cons l ls ih =>
    simp only [run1] at h
    split at h
    · rename_i hb
      obtain ⟨fl, rest, vs, e1, e2, e3, e4⟩ := ih h
      refine ⟨l :: fl, rest, vs, by simp [e1], ?_, e3, e4⟩
      have := valsOf_cons_eq (rowOf_blank (List.isEmpty_iff.mp hb)) e2
      simpa using this
    · split at h
      · simp at h
      · rename_i row hrow
        split at h
        · have hF := run2_flows h
          simp only at hF
          subst hF
          exact ⟨[l], ls, row, by simp, by simpa using valsOf_cons_eq hrow (rfl : valsOf [] = some []),
            rfl, h⟩
        · split at h
          · rename_i h0
            simp at h0
            omega
          · obtain ⟨fl, rest, vs, e1, e2, e3, e4⟩ := ih h
            exact ⟨l :: fl, rest, row ++ vs, by simp [e1], valsOf_cons_eq hrow e2,
              by simp [e3, List.append_assoc], e4⟩

theorem run0_sound {lines : List Line} {n : Nat} {r : LoopRes} (h : run0 lines = some (some n, r)) :
    ∃ pre nl t rest, lines = pre ++ nl :: rest ∧ (∀ l ∈ pre, tokens l = []) ∧ tokens nl = [t] ∧
      toIntRange 1 1000000 t = some (n : Int) ∧ 1 ≤ n ∧ run1 (n * n) [] [] rest = some r := by
  induction lines with
  | nil => simp [run0] at h
  | cons l ls ih =>
    simp only [run0] at h
    split at h
    · rename_i hb
      obtain ⟨pre, nl, t, rest, e1, e2, e3, e4, e5, e6⟩ := ih h
      refine ⟨l :: pre, nl, t, rest, by simp [e1], ?_, e3, e4, e5, e6⟩
      intro l' hl'
      rcases List.mem_cons.mp hl' with e | e
      · subst e; exact hb
      · exact e2 l' e
    · rename_i t ht
      split at h
      · simp at h
      · rename_i v hv
        have hrange : 1 ≤ v ∧ v ≤ 1000000 := by
          unfold toIntRange at hv
          split at hv
          · simp at hv
          · split at hv
            · rename_i hr; simp at hv; subst hv; exact hr
            · simp at hv
        cases hr : run1 (v.toNat * v.toNat) [] [] ls with
        | none => simp [hr] at h
        | some r' =>
          simp [hr] at h
          obtain ⟨hn, hrr⟩ := h
          subst hn; subst hrr
          refine ⟨[], l, t, ls, by simp, by simp, ht, ?_, by omega, hr⟩
          rw [hv]
          congr 1
          omega
    · simp at h

theorem parseQaplib_some {lines : List Line} {n : Nat} {F D : List Int}
    (h : parseQaplib lines = some (n, F, D)) :
    n ≠ 0 ∧ F.length = n * n ∧ D.length = n * n ∧ run0 lines = some (some n, (3, F, D)) := by
  unfold parseQaplib at h
  split at h
  · simp at h
  · simp at h
  · rename_i n' st fl ds hr
    split at h
    · simp at h
    rename_i h1
    split at h
    · simp at h
    rename_i h2
    split at h
    · simp at h
    rename_i h3
    split at h
    · simp at h
    rename_i h4
    simp at h
    obtain ⟨e1, e2, e3⟩ := h
    subst e1; subst e2; subst e3
    simp at h2 h3 h4
    subst h4
    exact ⟨h1, h2, h3, hr⟩

/-- whenever the parser returns, the text is a good wrapping of what it returned -/
theorem parseQaplib_sound' {lines : List Line} {n : Nat} {F D : List Int}
    (h : parseQaplib lines = some (n, F, D)) : GoodWrapping n F D lines := by
  obtain ⟨hn, hF, hD, hr⟩ := parseQaplib_some h
  obtain ⟨pre, nl, t, rest, e1, e2, e3, e4, e5, e6⟩ := run0_sound hr
  have hn2 : 0 < n * n := Nat.mul_pos (by omega) (by omega)
  obtain ⟨fl, rest2, vs, f1, f2, f3, f4⟩ := run1_sound hn2 e6
  obtain ⟨dl, post, ws, g1, g2, g3, _⟩ := run2_sound f4
  refine ⟨pre, nl, t, fl, dl, post, ?_, e2, e3, e4, ?_, hF, ?_, hD⟩
  · rw [e1, f1, g1, List.append_assoc]
  · rw [f2, f3]; simp
  · rw [g2, g3]; simp

/-- and every good wrapping is parsed to what it lists -/
theorem parseQaplib_complete {lines : List Line} {n : Nat} {F D : List Int}
    (h : GoodWrapping n F D lines) : parseQaplib lines = some (n, F, D) := by
  obtain ⟨pre, nl, t, fl, dl, post, e, hpre, hnl, ht, hfl, hF, hdl, hD⟩ := h
  have hrange : (1 : Int) ≤ n := by
    unfold toIntRange at ht
    split at ht
    · simp at ht
    · split at ht
      · rename_i hr; simp at ht; subst ht; exact hr.1
      · simp at ht
  have hn : 1 ≤ n := by omega
  have hn2 : 0 < n * n := Nat.mul_pos (by omega) (by omega)
  have hrun : run0 lines = some (some n, (3, F, D)) := by
    rw [e, run0_skip pre _ hpre]
    simp only [run0, hnl, ht, Int.toNat_natCast]
    rw [List.append_assoc, run1_complete (n * n) hn2 fl [] F _ hfl (by simpa using hn2) (by simpa using hF)]
    simp only [List.nil_append]
    rw [run2_complete (n * n) F dl [] D post hdl (by simpa using hn2) (by simpa using hD)]
    simp
  unfold parseQaplib
  rw [hrun]
  simp [hF, hD]
  omega


/-! ### 9. values of a text are in range; `reshape`; sums of sub-lists -/

theorem flowOrDist_range {t : List Char} {v : Int} (h : flowOrDist t = some v) : 0 ≤ v ∧ v ≤ LIMIT := by
  unfold flowOrDist toIntRange at h
  split at h
  · simp at h
  · split at h
    · rename_i hr; simp at h; subst h; exact hr
    · simp at h

theorem mapM_range {ts : List (List Char)} {vs : List Int} (h : ts.mapM flowOrDist = some vs) :
    ∀ v ∈ vs, 0 ≤ v ∧ v ≤ LIMIT := by
  induction ts generalizing vs with
  | nil => simp at h; subst h; simp
  | cons t r ih =>
    simp only [List.mapM_cons] at h
    cases h1 : flowOrDist t with
    | none => simp [h1] at h
    | some v =>
      cases h2 : List.mapM flowOrDist r with
      | none => simp [h1, h2] at h
      | some rs =>
        simp [h1, h2] at h
        subst h
        intro w hw
        rcases List.mem_cons.mp hw with e | e
        · subst e; exact flowOrDist_range h1
        · exact ih h2 w e

theorem valsOf_range {ls : List Line} {vs : List Int} (h : valsOf ls = some vs) :
    ∀ v ∈ vs, 0 ≤ v ∧ v ≤ LIMIT := by
  induction ls generalizing vs with
  | nil => simp [valsOf] at h; subst h; simp
  | cons l t ih =>
    obtain ⟨r, rs, h1, h2, h3⟩ := valsOf_cons h
    subst h3
    intro v hv
    rcases List.mem_append.mp hv with e | e
    · exact mapM_range h1 v e
    · exact ih h2 v e

theorem rowOf_nline {nl : Line} {t : List Char} {n : Nat} (h1 : tokens nl = [t])
    (h2 : toIntRange 1 1000000 t = some (n : Int)) : rowOf nl = some [(n : Int)] := by
  have : flowOrDist t = some (n : Int) := by
    unfold flowOrDist
    unfold toIntRange at h2 ⊢
    split at h2
    · simp at h2
    · rename_i v hv
      split at h2
      · rename_i hr
        simp at h2
        subst h2
        have : (0 : Int) ≤ n ∧ (n : Int) ≤ LIMIT := by unfold LIMIT; omega
        simp [this]
      · simp at h2
  simp [rowOf, h1, this]

theorem reshape_length (n : Nat) (l : List Int) : (reshape n l).length = n := by simp [reshape]

theorem reshape_flatten_aux (k w : Nat) (l : List Int) :
    ((List.range k).map fun i => (l.drop (i * w)).take w).flatten = l.take (k * w) := by
  induction k with
  | zero => simp
  | succ k ih =>
    rw [List.range_succ, List.map_append, List.flatten_append, ih]
    simp only [List.map_cons, List.map_nil, List.flatten_cons, List.flatten_nil, List.append_nil]
    rw [Nat.succ_mul, List.take_add]

/-- `reshape` is the row-major arrangement: reading it row by row gives the list back -/
theorem reshape_flatten (n : Nat) (l : List Int) (h : l.length = n * n) : (reshape n l).flatten = l := by
  unfold reshape
  rw [reshape_flatten_aux, ← h, List.take_length]

theorem reshape_mem {n : Nat} {l r : List Int} {v : Int} (hr : r ∈ reshape n l) (hv : v ∈ r) : v ∈ l := by
  unfold reshape at hr
  obtain ⟨i, _, rfl⟩ := List.mem_map.mp hr
  exact List.mem_of_mem_drop (List.mem_of_mem_take hv)

theorem sublist_sum_le (s l : List Int) (h : s.Sublist l) (hn : ∀ v ∈ l, 0 ≤ v) :
    0 ≤ s.sum ∧ s.sum ≤ l.sum := by
  induction h with
  | slnil => simp
  | cons a _ ih =>
    have := ih (fun v hv => hn v (by simp [hv]))
    have := hn a (by simp)
    simp only [List.sum_cons]; omega
  | cons_cons a _ ih =>
    have := ih (fun v hv => hn v (by simp [hv]))
    have := hn a (by simp)
    simp only [List.sum_cons]; omega

theorem qapTerms_nonneg {f d : Matrix} (hf : NonNeg f) (hd : NonNeg d) (p : List Nat) :
    ∀ v ∈ qapTerms f d p, 0 ≤ v := by
  intro v hv
  unfold qapTerms at hv
  obtain ⟨i, _, hv⟩ := List.mem_flatMap.mp hv
  obtain ⟨j, _, rfl⟩ := List.mem_map.mp hv
  exact Int.mul_nonneg (entry_nonneg hf _ _) (entry_nonneg hd _ _)

theorem repU64_nonneg {m : Matrix} (h : RepU64 m) : NonNeg m := fun r hr v hv => (h r hr v hv).1

theorem map_wrap_id {m : Matrix} {t : DType} (h : ∀ r ∈ m, ∀ v ∈ r, t.lo ≤ v ∧ v ≤ t.hi) :
    m.map (·.map t.wrap) = m := by
  conv => rhs; rw [← List.map_id m]
  apply List.map_congr_left
  intro r hr
  conv => rhs; rw [id, ← List.map_id r]
  apply List.map_congr_left
  intro v hv
  exact wrap_id t v (h r hr v hv).1 (h r hr v hv).2


end Qap
