import Model.GameEnc
/-!
Helper lemmas for C15, part 1: the blueprint of `search_space_for_n_and_rounds`.

* the integer code of a game and its decoding are inverse (`home_enc`, `away_enc`, `enc_range`);
* refinement of the stateful triple loop (`order` toggle, `normal` flag) to the explicit list
  `pureGames` of oriented pairs (`rawGames_eq`).
-/
namespace GameEnc


/-- the integer code of the game "`h` at home against `a`" as `search_space` computes it -/
def enc (n h a : Nat) : Int := (h : Int) * ((n : Int) - 1) + (((if a > h then a - 1 else a : Nat)) : Int)

theorem enc_range (n h a : Nat) (hh : h < n) (ha : a < n) (hne : h ≠ a) :
    0 ≤ enc n h a ∧ enc n h a < (n : Int) * ((n : Int) - 1) := by
  unfold enc
  have hm : (0 : Int) ≤ (n : Int) - 1 := by omega
  have h1 : (0 : Int) ≤ (h : Int) * ((n : Int) - 1) := Int.mul_nonneg (by omega) hm
  have h2 : (h : Int) * ((n : Int) - 1) ≤ ((n : Int) - 1) * ((n : Int) - 1) :=
    Int.mul_le_mul_of_nonneg_right (by omega) hm
  have h3 : (n : Int) * ((n : Int) - 1) = ((n : Int) - 1) * ((n : Int) - 1) + ((n : Int) - 1) := by
    rw [Int.sub_mul]; omega
  split <;> omega

theorem home_enc (n h a : Nat) (hh : h < n) (ha : a < n) (hne : h ≠ a) : homeOf n (enc n h a) = h := by
  unfold homeOf enc
  have hm : (0 : Int) < (n : Int) - 1 := by omega
  have ha' : (0 : Int) ≤ (((if a > h then a - 1 else a : Nat)) : Int) ∧
      (((if a > h then a - 1 else a : Nat)) : Int) < (n : Int) - 1 := by split <;> omega
  rw [Int.add_comm, Int.add_mul_ediv_right _ _ (by omega), Int.ediv_eq_zero_of_lt ha'.1 ha'.2,
    Int.zero_add, Int.emod_eq_of_lt (by omega) (by omega)]
  simp

theorem away_enc (n h a : Nat) (hh : h < n) (ha : a < n) (hne : h ≠ a) : awayOf n (enc n h a) = a := by
  have hh' := home_enc n h a hh ha hne
  unfold awayOf
  rw [hh']
  unfold enc
  have ha' : (0 : Int) ≤ (((if a > h then a - 1 else a : Nat)) : Int) ∧
      (((if a > h then a - 1 else a : Nat)) : Int) < (n : Int) - 1 := by split <;> omega
  rw [Int.add_comm, Int.add_mul_emod_self_right, Int.emod_eq_of_lt ha'.1 ha'.2]
  simp only [Int.toNat_natCast]
  split <;> split <;> omega

/-- for `n ≥ 2` every integer decodes to two different teams -/
theorem decode_valid (n : Nat) (hn : 2 ≤ n) (g : Int) :
    homeOf n g < n ∧ awayOf n g < n ∧ homeOf n g ≠ awayOf n g := by
  have h1 := Int.emod_nonneg (g / ((n : Int) - 1)) (b := (n : Int)) (by omega)
  have h2 := Int.emod_lt_of_pos (g / ((n : Int) - 1)) (b := (n : Int)) (by omega)
  have h3 := Int.emod_nonneg g (b := (n : Int) - 1) (by omega)
  have h4 := Int.emod_lt_of_pos g (b := (n : Int) - 1) (by omega)
  unfold awayOf
  simp only []
  have : homeOf n g < n := by unfold homeOf; omega
  refine ⟨this, ?_, ?_⟩ <;> split <;> omega


/-! ### refinement of the triple loop -/


/-- the code appended for the pair `(i, j)` when `order = o` -/
def gcode (n : Nat) (o : Bool) (i j : Nat) : Int := if o then enc n i j else enc n j i

/-- orientation in the last round of an odd number of rounds (`true`: the larger index is home) -/
def orientLast (i j : Nat) : Bool := (decide (2 ≤ i % 4)) != (j % 2 == 0)

def normalB (rounds r : Nat) : Bool := decide ((r : Int) < (rounds : Int) - 1) || rounds % 2 == 0

/-- orientation of the game `(i, j)` of round `r` -/
def orient (rounds r i j : Nat) : Bool := if normalB rounds r then r % 2 == 0 else orientLast i j

def roundGames (n rounds r : Nat) : List Int :=
  (List.range n).flatMap fun i => (List.range i).map fun j => gcode n (orient rounds r i j) i j

def pureGames (n rounds : Nat) : List Int := (List.range rounds).flatMap (roundGames n rounds)

theorem gameStep_games (n r : Nat) (normal : Bool) (i j : Nat) (s : SState) :
    (gameStep n r normal i j s).games.toList =
      s.games.toList ++ [gcode n (if normal then r % 2 == 0 else !s.order) i j] := by
  simp only [gameStep, Array.toList_push, gcode, enc]
  congr 2
  generalize (if normal then r % 2 == 0 else !s.order) = o
  cases o <;> rfl

theorem gameStep_order (n r : Nat) (normal : Bool) (i j : Nat) (s : SState) :
    (gameStep n r normal i j s).order = (if normal then r % 2 == 0 else !s.order) := rfl

/-- a row of a normal round (first `m` games of row `i`) -/
theorem rowFold_normal (n r i m : Nat) (s : SState) :
    ((List.range m).foldl (fun s j => gameStep n r true i j s) s).games.toList
      = s.games.toList ++ (List.range m).map (fun j => gcode n (r % 2 == 0) i j)
    ∧ ((List.range m).foldl (fun s j => gameStep n r true i j s) s).order
      = (if m = 0 then s.order else r % 2 == 0) := by
  induction m with
  | zero => simp
  | succ k ih =>
    rw [List.range_succ, List.foldl_append, List.map_append]
    simp only [List.foldl_cons, List.foldl_nil, List.map_cons, List.map_nil]
    rw [gameStep_games, gameStep_order, ih.1]
    simp

/-- a row of the last round of an odd number of rounds: the orientation alternates -/
theorem rowFold_last (n r i m : Nat) (s : SState) :
    ((List.range m).foldl (fun s j => gameStep n r false i j s) s).games.toList
      = s.games.toList ++ (List.range m).map (fun j => gcode n (s.order != (j % 2 == 0)) i j)
    ∧ ((List.range m).foldl (fun s j => gameStep n r false i j s) s).order
      = (s.order != (m % 2 == 1)) := by
  induction m with
  | zero => simp
  | succ k ih =>
    rw [List.range_succ, List.foldl_append, List.map_append]
    simp only [List.foldl_cons, List.foldl_nil, List.map_cons, List.map_nil]
    rw [gameStep_games, gameStep_order, ih.1, ih.2]
    have hk : k % 2 = 0 ∨ k % 2 = 1 := by omega
    have hk1 : (k + 1) % 2 = 1 - k % 2 := by omega
    rcases hk with hk | hk <;> cases s.order <;> simp [hk, hk1]

theorem rowLoop_normal (n r i : Nat) (s : SState) :
    (rowLoop n r true i s).games.toList = s.games.toList ++ (List.range i).map (fun j => gcode n (r % 2 == 0) i j)
    ∧ (rowLoop n r true i s).order = (if i = 0 then s.order else r % 2 == 0) := rowFold_normal n r i i s

theorem rowLoop_last (n r i : Nat) (s : SState) :
    (rowLoop n r false i s).games.toList
      = s.games.toList ++ (List.range i).map (fun j => gcode n (s.order != (j % 2 == 0)) i j)
    ∧ (rowLoop n r false i s).order = (s.order != (i % 2 == 1)) := rowFold_last n r i i s

theorem roundFold_normal (n r m : Nat) (s : SState) :
    ((List.range m).foldl (fun s i => rowLoop n r true i s) s).games.toList
      = s.games.toList ++ (List.range m).flatMap (fun i => (List.range i).map (fun j => gcode n (r % 2 == 0) i j))
    ∧ ((List.range m).foldl (fun s i => rowLoop n r true i s) s).order
      = (if m ≤ 1 then s.order else r % 2 == 0) := by
  induction m with
  | zero => simp
  | succ k ih =>
    rw [List.range_succ, List.foldl_append, List.flatMap_append]
    simp only [List.foldl_cons, List.foldl_nil, List.flatMap_cons, List.flatMap_nil, List.append_nil]
    rw [(rowLoop_normal n r k _).1, (rowLoop_normal n r k _).2, ih.1, ih.2]
    refine ⟨by simp, ?_⟩
    by_cases h0 : k = 0
    · subst h0; simp
    · by_cases h1 : k ≤ 1
      · have : k = 1 := by omega
        subst this; simp
      · simp [h0]

theorem roundFold_last (n r m : Nat) (s : SState) :
    ((List.range m).foldl (fun s i => rowLoop n r false i s) s).games.toList
      = s.games.toList ++ (List.range m).flatMap (fun i => (List.range i).map
          (fun j => gcode n ((s.order != decide (2 ≤ i % 4)) != (j % 2 == 0)) i j))
    ∧ ((List.range m).foldl (fun s i => rowLoop n r false i s) s).order
      = (s.order != decide (2 ≤ m % 4)) := by
  induction m with
  | zero => simp
  | succ k ih =>
    rw [List.range_succ, List.foldl_append, List.flatMap_append]
    simp only [List.foldl_cons, List.foldl_nil, List.flatMap_cons, List.flatMap_nil, List.append_nil]
    rw [(rowLoop_last n r k _).1, (rowLoop_last n r k _).2, ih.1, ih.2]
    refine ⟨by simp, ?_⟩
    have hk : k % 4 = 0 ∨ k % 4 = 1 ∨ k % 4 = 2 ∨ k % 4 = 3 := by omega
    rcases hk with hk | hk | hk | hk
    all_goals
      have h1 : (k + 1) % 4 = (k % 4 + 1) % 4 := by omega
      have h2 : k % 2 = (k % 4) % 2 := by omega
      cases s.order <;> simp [hk, h1, h2]

theorem roundLoop_normal (n rounds r : Nat) (s : SState) (h : normalB rounds r = true) :
    (roundLoop n rounds r s).games.toList = s.games.toList ++ roundGames n rounds r
    ∧ (roundLoop n rounds r s).order = (if n ≤ 1 then s.order else r % 2 == 0) := by
  unfold normalB at h
  simp only [roundLoop, h]
  have := roundFold_normal n r n s
  refine ⟨?_, this.2⟩
  rw [this.1]
  simp [roundGames, orient, normalB, h]

theorem roundLoop_last (n rounds r : Nat) (s : SState) (h : normalB rounds r = false) (hs : s.order = false) :
    (roundLoop n rounds r s).games.toList = s.games.toList ++ roundGames n rounds r := by
  unfold normalB at h
  simp only [roundLoop, h]
  rw [(roundFold_last n r n s).1, hs]
  simp [roundGames, orient, normalB, h, orientLast]

theorem rounds_prefix (n rounds k : Nat) (hn : 2 ≤ n) (hk : ∀ r < k, normalB rounds r = true) :
    ((List.range k).foldl (fun s r => roundLoop n rounds r s) { order := false, games := #[] }).games.toList
      = (List.range k).flatMap (roundGames n rounds)
    ∧ ((List.range k).foldl (fun s r => roundLoop n rounds r s) { order := false, games := #[] }).order
      = (if k = 0 then false else (k - 1) % 2 == 0) := by
  induction k with
  | zero => simp
  | succ m ih =>
    have ih := ih (fun r hr => hk r (by omega))
    rw [List.range_succ, List.foldl_append, List.flatMap_append]
    simp only [List.foldl_cons, List.foldl_nil, List.flatMap_cons, List.flatMap_nil, List.append_nil]
    have hm := hk m (by omega)
    rw [(roundLoop_normal n rounds m _ hm).1, (roundLoop_normal n rounds m _ hm).2, ih.1]
    refine ⟨rfl, ?_⟩
    have : ¬ n ≤ 1 := by omega
    simp [this]

/-- **refinement**: the list built by the triple loop is the explicit list of oriented pairs -/
theorem rawGames_eq (n rounds : Nat) (hn : 2 ≤ n) : rawGames n rounds = pureGames n rounds := by
  unfold rawGames pureGames
  by_cases he : rounds % 2 = 0
  · exact (rounds_prefix n rounds rounds hn (fun r _ => by simp [normalB, he])).1
  · obtain ⟨k, rfl⟩ : ∃ k, rounds = k + 1 := ⟨rounds - 1, by omega⟩
    have hpre := rounds_prefix n (k + 1) k hn (fun r hr => by
      simp only [normalB, Bool.or_eq_true, decide_eq_true_eq]; left; omega)
    rw [List.range_succ, List.foldl_append, List.flatMap_append]
    simp only [List.foldl_cons, List.foldl_nil, List.flatMap_cons, List.flatMap_nil, List.append_nil]
    have hlast : normalB (k + 1) k = false := by
      simp only [normalB, Bool.or_eq_false_iff, decide_eq_false_iff_not, beq_eq_false_iff_ne]
      constructor <;> omega
    have hord : ((List.range k).foldl (fun s r => roundLoop n (k + 1) r s)
        { order := false, games := #[] }).order = false := by
      rw [hpre.2]
      by_cases hk0 : k = 0
      · simp [hk0]
      · have : (k - 1) % 2 = 1 := by omega
        simp [hk0, this]
    rw [roundLoop_last n (k + 1) k _ hlast hord, hpre.1]


end GameEnc
