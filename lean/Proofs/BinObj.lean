import Model.BinObj
import Proofs.Area
import Proofs.ListLemmas
/-! Helper lemmas for C02 (count- and area-type objectives, bounds).  The skyline part is in
`Proofs/BinObjSky.lean`. -/
namespace BinObj
open Pack ListLemmas

theorem rarea_eq (a : Row) : rarea a = a.area := rfl

/-! ### what feasibility provides -/
section feas
variable {I : Inst} {rows : List Row} {k : Int}

theorem feas_bins (hf : Feasible I rows k) : ∀ a ∈ rows, 1 ≤ a.bin ∧ a.bin ≤ k := hf.2.2.2.2.2.1

theorem feas_len (hf : Feasible I rows k) : (rows.length : Int) = I.nItems := hf.1

theorem feas_bin_nonempty (hf : Feasible I rows k) (b : Int) (h1 : 1 ≤ b) (h2 : b ≤ k) :
    ∃ a ∈ rows, a.bin = b := by
  have := hf.2.2.2.2.2.2 (b - 1).toNat (by simp; omega)
  obtain ⟨a, ha, hb⟩ := this
  exact ⟨a, ha, by omega⟩

theorem feas_ne_nil (hv : I.Valid) (hf : Feasible I rows k) : rows ≠ [] := by
  intro h
  have h1 := feas_len hf
  have h2 := Inst.nItems_pos I hv
  subst h
  simp at h1
  omega

theorem feas_k_pos (hv : I.Valid) (hf : Feasible I rows k) : 1 ≤ k := by
  cases hr : rows with
  | nil => exact absurd hr (feas_ne_nil hv hf)
  | cons a t =>
    have := feas_bins hf a (by simp [hr])
    omega

theorem feas_inside (hf : Feasible I rows k) :
    ∀ a ∈ rows, 0 ≤ a.l ∧ 0 ≤ a.b ∧ a.r ≤ I.W ∧ a.t ≤ I.H := hf.2.2.1

/-- every rectangle of a feasible packing of a valid instance has positive width and height -/
theorem feas_pos_dims (hv : I.Valid) (hf : Feasible I rows k) :
    ∀ a ∈ rows, a.l < a.r ∧ a.b < a.t := by
  intro a ha
  obtain ⟨it, h1, h2⟩ := hf.2.1 a ha
  have hmem : it ∈ I.items := by
    unfold Inst.item? at h1
    split at h1
    · simp at h1
    · exact List.mem_of_getElem? h1
  have := hv.2.2.2.2.2.2.1 it hmem
  unfold Row.HasDims at h2
  omega

end feas

/-! ### running maximum of the bin column -/
def maxBinFrom (m : Int) (rows : List Row) : Int := rows.foldl (fun m c => max m c.bin) m

@[simp] theorem maxBinFrom_nil (m : Int) : maxBinFrom m [] = m := rfl
@[simp] theorem maxBinFrom_cons (m : Int) (a : Row) (t : List Row) :
    maxBinFrom m (a :: t) = maxBinFrom (max m a.bin) t := rfl

theorem maxBinFrom_ge (m : Int) (rows : List Row) : m ≤ maxBinFrom m rows := by
  induction rows generalizing m with
  | nil => simp
  | cons a t ih => have := ih (max m a.bin); simp; omega

theorem maxBinFrom_eq (m k : Int) (rows : List Row) (hm : m ≤ k) (hle : ∀ a ∈ rows, a.bin ≤ k)
    (hex : m = k ∨ ∃ a ∈ rows, a.bin = k) : maxBinFrom m rows = k := by
  induction rows generalizing m with
  | nil => rcases hex with h | ⟨a, ha, _⟩ <;> simp_all
  | cons a t ih =>
    simp only [maxBinFrom_cons]
    have hak := hle a (by simp)
    apply ih _ (by omega) (fun c hc => hle c (by simp [hc]))
    rcases hex with h | ⟨c, hc, hck⟩
    · left; omega
    · rcases List.mem_cons.mp hc with h | h
      · subst h; left; omega
      · right; exact ⟨c, h, hck⟩

theorem colMaxBin_eq (rows : List Row) (k : Int) (hne : rows ≠ []) (hle : ∀ a ∈ rows, a.bin ≤ k)
    (hex : ∃ a ∈ rows, a.bin = k) : colMaxBin rows = .ok k := by
  cases rows with
  | nil => exact absurd rfl hne
  | cons a t =>
    simp only [colMaxBin]
    congr 1
    apply maxBinFrom_eq a.bin k t (hle a (by simp)) (fun c hc => hle c (by simp [hc]))
    obtain ⟨c, hc, hck⟩ := hex
    rcases List.mem_cons.mp hc with h | h
    · subst h; left; exact hck
    · right; exact ⟨c, h, hck⟩

/-! ### counting -/
theorem countIn_cons (a : Row) (t : List Row) (b : Int) :
    countIn (a :: t) b = (if a.bin = b then 1 else 0) + countIn t b := by
  unfold countIn
  by_cases h : a.bin = b <;> simp [List.filter_cons, h] <;> omega

theorem areaIn_cons (a : Row) (t : List Row) (b : Int) :
    areaIn (a :: t) b = (if a.bin = b then rarea a else 0) + areaIn t b := by
  unfold areaIn
  by_cases h : a.bin = b <;> simp [List.filter_cons, h]

@[simp] theorem countIn_nil (b : Int) : countIn [] b = 0 := rfl
@[simp] theorem areaIn_nil (b : Int) : areaIn [] b = 0 := rfl

/-! ### `bin_count_and_last_empty` -/
theorem lastEmptyLoop_eq (rows : List Row) (cb cs : Int) :
    lastEmptyLoop rows cb cs =
      (maxBinFrom cb rows,
       (if maxBinFrom cb rows = cb then cs else 0) + countIn rows (maxBinFrom cb rows)) := by
  induction rows generalizing cb cs with
  | nil => simp [lastEmptyLoop]
  | cons a t ih =>
    simp only [lastEmptyLoop, maxBinFrom_cons, countIn_cons]
    have hge := maxBinFrom_ge (max cb a.bin) t
    split
    · rw [ih]
      have : max cb a.bin = a.bin := by omega
      simp only [this] at hge ⊢
      congr 1
      split <;> split <;> split <;> omega
    · split
      · rw [ih]
        have : max cb a.bin = cb := by omega
        simp only [this] at hge ⊢
        congr 1
        split <;> split <;> omega
      · rw [ih]
        have : max cb a.bin = cb := by omega
        simp only [this] at hge ⊢
        congr 1
        split <;> split <;> omega

theorem lastSmallLoop_eq (rows : List Row) (cb ca : Int) :
    lastSmallLoop rows cb ca =
      (maxBinFrom cb rows,
       (if maxBinFrom cb rows = cb then ca else 0) + areaIn rows (maxBinFrom cb rows)) := by
  induction rows generalizing cb ca with
  | nil => simp [lastSmallLoop]
  | cons a t ih =>
    simp only [lastSmallLoop, maxBinFrom_cons, areaIn_cons]
    have hge := maxBinFrom_ge (max cb a.bin) t
    split
    · rw [ih]
      have : max cb a.bin = cb := by omega
      simp only [this] at hge ⊢
      congr 1
      split <;> split <;> omega
    · split
      · rw [ih]
        have : max cb a.bin = a.bin := by omega
        simp only [this] at hge ⊢
        congr 1
        unfold rarea
        split <;> split <;> split <;> omega
      · split
        · rw [ih]
          have : max cb a.bin = cb := by omega
          simp only [this] at hge ⊢
          congr 1
          unfold rarea
          split <;> split <;> omega
        · omega


/-! ### the scratch-array loop of `bin_count_and_empty` / `bin_count_and_small` -/
/-- total weight of the rows of bin `b` -/
def sumIn (wt : Row → Int) (rows : List Row) (b : Int) : Int :=
  ((rows.filter (fun a => a.bin = b)).map wt).sum

theorem sumIn_cons (wt : Row → Int) (a : Row) (t : List Row) (b : Int) :
    sumIn wt (a :: t) b = (if a.bin = b then wt a else 0) + sumIn wt t b := by
  unfold sumIn
  by_cases h : a.bin = b <;> simp [h]

theorem sumIn_one (rows : List Row) (b : Int) : sumIn (fun _ => 1) rows b = countIn rows b := by
  induction rows with
  | nil => rfl
  | cons a t ih => rw [sumIn_cons, countIn_cons, ih]

theorem sumIn_rarea (rows : List Row) (b : Int) : sumIn rarea rows b = areaIn rows b := rfl

theorem idx?_inrange (len : Nat) (i : Int) (h0 : 0 ≤ i) (h1 : i < len) :
    idx? len i = some i.toNat := by
  unfold idx?; simp [h0, h1]

theorem map_getD_range (l : List Int) : (List.range l.length).map (fun j => l.getD j 0) = l := by
  apply List.ext_getElem
  · simp
  · intro i h1 h2
    simp at h1
    simp [h1]

theorem getD_set (l : List Int) (j i : Nat) (v : Int) (hj : j < l.length) :
    (l.set j v).getD i 0 = if i = j then v else l.getD i 0 := by
  rw [List.getD_eq_getElem?_getD, List.getD_eq_getElem?_getD, List.getElem?_set]
  by_cases h : i = j
  · subst h; simp [hj]
  · simp [h, Ne.symm h]

theorem accLoop_eq (wt : Row → Int) (rows : List Row) (temp : List Int) (tb : Int)
    (hb : ∀ a ∈ rows, 1 ≤ a.bin ∧ a.bin ≤ temp.length) :
    accLoop wt rows temp tb =
      .ok ((List.range temp.length).map (fun j => temp.getD j 0 + sumIn wt rows ((j : Int) + 1)),
           maxBinFrom (tb + 1) rows - 1) := by
  induction rows generalizing temp tb with
  | nil =>
    simp only [accLoop, maxBinFrom_nil]
    congr 2
    · have : (fun (j : Nat) => temp.getD j 0 + sumIn wt [] ((j : Int) + 1)) = fun j => temp.getD j 0 := by
        funext j; simp [sumIn]
      rw [this, map_getD_range]
    · omega
  | cons a t ih =>
    have ha := hb a (by simp)
    have hj : (a.bin - 1).toNat < temp.length := by omega
    simp only [accLoop, addAt, idx?_inrange temp.length (a.bin - 1) (by omega) (by omega),
      List.getElem?_eq_getElem hj]
    rw [ih _ _ (by intro c hc; simpa using hb c (by simp [hc]))]
    simp only [List.length_set, maxBinFrom_cons]
    congr 2
    · apply List.map_congr_left
      intro i hi
      have hi' := List.mem_range.mp hi
      rw [sumIn_cons]
      rw [getD_set _ _ _ _ hj]
      by_cases hij : i = (a.bin - 1).toNat
      · have h1 : a.bin = (i : Int) + 1 := by omega
        have h2 : temp.getD i 0 = temp[(a.bin - 1).toNat] := by
          rw [List.getD_eq_getElem?_getD]; simp only [hij, List.getElem?_eq_getElem hj, Option.getD_some]
        rw [if_pos hij, if_pos h1, h2]
        omega
      · have h1 : ¬ a.bin = (i : Int) + 1 := by omega
        rw [if_neg hij, if_neg h1]
        omega
    · have : max tb (a.bin - 1) + 1 = max (tb + 1) a.bin := by omega
      rw [this]

theorem fill0_length (temp : List Int) : (fill0 temp).length = temp.length := by simp [fill0]

theorem fill0_getD (temp : List Int) (j : Nat) : (fill0 temp).getD j 0 = 0 := by
  unfold fill0
  rw [List.getD_eq_getElem?_getD]
  by_cases h : j < temp.length
  · simp [h]
  · rw [List.getElem?_eq_none (by simpa using h)]; rfl

theorem fill0_eq_of_length (t1 t2 : List Int) (h : t1.length = t2.length) : fill0 t1 = fill0 t2 := by
  unfold fill0
  apply List.ext_getElem
  · simpa using h
  · intros; simp

theorem sliceMin_map_range (g : Nat → Int) (len : Nat) (M : Int) (h1 : 1 ≤ M) (h2 : M ≤ len) :
    sliceMin ((List.range len).map g) M = .ok ((((List.range M.toNat).map g).min?).getD 0) := by
  unfold sliceMin
  have htake : ((List.range len).map g).take M.toNat = (List.range M.toNat).map g := by
    rw [← List.map_take, List.take_range]
    congr 2
    omega
  rw [htake]
  obtain ⟨m, hm⟩ : ∃ m, M.toNat = m + 1 := ⟨M.toNat - 1, by omega⟩
  rw [hm, List.range_succ_eq_map]
  simp [List.min?]

/-- closed form of the two scratch kernels on well-shaped input (bin ids in `1..len(temp)`, at least one row) -/
theorem binCountAndEmpty_closed (rows : List Row) (temp : List Int) (hne : rows ≠ [])
    (hb : ∀ a ∈ rows, 1 ≤ a.bin ∧ a.bin ≤ temp.length) :
    binCountAndEmpty rows temp =
      .ok ((rows.length : Int) * (maxBinFrom 0 rows - 1) + minOver (countIn rows) (maxBinFrom 0 rows)) := by
  unfold binCountAndEmpty
  rw [accLoop_eq _ _ _ _ (by simpa [fill0_length] using hb)]
  simp only [fill0_length, fill0_getD, Int.zero_add, sumIn_one]
  have hM1 : 1 ≤ maxBinFrom 0 rows := by
    cases rows with
    | nil => exact absurd rfl hne
    | cons a t =>
      have := maxBinFrom_ge (max 0 a.bin) t
      have := hb a (by simp)
      simp; omega
  have hM2 : maxBinFrom 0 rows ≤ temp.length := by
    have : ∀ (m : Int) (l : List Row), m ≤ temp.length → (∀ a ∈ l, a.bin ≤ temp.length) →
        maxBinFrom m l ≤ temp.length := by
      intro m l
      induction l generalizing m with
      | nil => intro h _; simpa using h
      | cons a t ih =>
        intro h h'
        simp only [maxBinFrom_cons]
        apply ih
        · have := h' a (by simp); omega
        · intro c hc; exact h' c (by simp [hc])
    exact this 0 rows (by omega) (fun a ha => (hb a ha).2)
  have e : (-1 : Int) + 1 = 0 := by omega
  simp only [e, Int.sub_add_cancel]
  rw [sliceMin_map_range _ _ _ hM1 hM2]
  rfl


theorem maxBinFrom_le (m : Int) (rows : List Row) (B : Int) (hm : m ≤ B) (h : ∀ a ∈ rows, a.bin ≤ B) :
    maxBinFrom m rows ≤ B := by
  induction rows generalizing m with
  | nil => simpa using hm
  | cons a t ih =>
    simp only [maxBinFrom_cons]
    apply ih
    · have := h a (by simp); omega
    · intro c hc; exact h c (by simp [hc])

theorem binCountAndSmall_closed (rows : List Row) (binArea : Int) (temp : List Int) (hne : rows ≠ [])
    (hb : ∀ a ∈ rows, 1 ≤ a.bin ∧ a.bin ≤ temp.length) :
    binCountAndSmall rows binArea temp =
      .ok (binArea * (maxBinFrom 1 rows - 1) + minOver (areaIn rows) (maxBinFrom 1 rows)) := by
  unfold binCountAndSmall
  rw [accLoop_eq _ _ _ _ (by simpa [fill0_length] using hb)]
  simp only [fill0_length, fill0_getD, Int.zero_add, sumIn_rarea]
  have hM1 : 1 ≤ maxBinFrom 1 rows := maxBinFrom_ge 1 rows
  have hlen : (1 : Int) ≤ temp.length := by
    cases rows with
    | nil => exact absurd rfl hne
    | cons a t => have := hb a (by simp); omega
  have hM2 : maxBinFrom 1 rows ≤ temp.length :=
    maxBinFrom_le 1 rows _ hlen (fun a ha => (hb a ha).2)
  simp only [Int.sub_add_cancel]
  rw [sliceMin_map_range _ _ _ hM1 hM2]
  rfl

/-- `minOver f k` is the minimum of `f 1, …, f k` -/
theorem minOver_isMin (f : Int → Int) (k : Int) (hk : 1 ≤ k) :
    (∃ b, 1 ≤ b ∧ b ≤ k ∧ f b = minOver f k) ∧ ∀ b, 1 ≤ b → b ≤ k → minOver f k ≤ f b := by
  unfold minOver
  cases hL : ((List.range k.toNat).map (fun (j : Nat) => f ((j : Int) + 1))).min? with
  | none =>
    rw [List.min?_eq_none_iff] at hL
    have : (List.range k.toNat).length = 0 := by
      have := congrArg List.length hL
      simpa using this
    simp at this
    omega
  | some m =>
    obtain ⟨hmem, hle⟩ := List.min?_eq_some_iff.mp hL
    simp only [Option.getD_some]
    constructor
    · obtain ⟨j, hj, hjm⟩ := List.mem_map.mp hmem
      have := List.mem_range.mp hj
      exact ⟨(j : Int) + 1, by omega, by omega, hjm⟩
    · intro b h1 h2
      apply hle
      apply List.mem_map.mpr
      exact ⟨(b - 1).toNat, List.mem_range.mpr (by omega), by congr 1; omega⟩

theorem minOver_congr (f g : Int → Int) (k : Int) (h : ∀ b, 1 ≤ b → b ≤ k → f b = g b) :
    minOver f k = minOver g k := by
  unfold minOver
  congr 2
  apply List.map_congr_left
  intro j hj
  have := List.mem_range.mp hj
  exact h _ (by omega) (by omega)

theorem minOver_bounds (f : Int → Int) (k lo hi : Int) (hk : 1 ≤ k)
    (h : ∀ b, 1 ≤ b → b ≤ k → lo ≤ f b ∧ f b ≤ hi) : lo ≤ minOver f k ∧ minOver f k ≤ hi := by
  obtain ⟨⟨b, h1, h2, h3⟩, _⟩ := minOver_isMin f k hk
  have := h b h1 h2
  omega

/-! ### kernels = documented values (count/area objectives), at kernel level -/
section kernels
variable {I : Inst} {rows : List Row} {k : Int}

theorem maxBin_feasible (hv : I.Valid) (hf : Feasible I rows k) (m : Int) (hm : m ≤ k) :
    maxBinFrom m rows = k := by
  apply maxBinFrom_eq m k rows hm (fun a ha => (feas_bins hf a ha).2)
  right
  exact feas_bin_nonempty hf k (feas_k_pos hv hf) (by omega)

theorem binCount_feasible (hv : I.Valid) (hf : Feasible I rows k) : binCount rows = .ok k := by
  unfold binCount
  exact colMaxBin_eq rows k (feas_ne_nil hv hf) (fun a ha => (feas_bins hf a ha).2)
    (feas_bin_nonempty hf k (feas_k_pos hv hf) (by omega))

theorem lastEmpty_feasible (hv : I.Valid) (hf : Feasible I rows k) :
    binCountAndLastEmpty rows = (k - 1) * I.nItems + countIn rows k := by
  have hk := feas_k_pos hv hf
  unfold binCountAndLastEmpty
  rw [lastEmptyLoop_eq, maxBin_feasible hv hf (-1) (by omega), feas_len hf]
  simp only []
  rw [if_neg (by omega), Int.mul_comm]
  omega

theorem lastSmall_feasible (hv : I.Valid) (hf : Feasible I rows k) (binArea : Int) :
    binCountAndLastSmall rows binArea = (k - 1) * binArea + areaIn rows k := by
  have hk := feas_k_pos hv hf
  unfold binCountAndLastSmall
  rw [lastSmallLoop_eq, maxBin_feasible hv hf (-1) (by omega)]
  simp only []
  rw [if_neg (by omega), Int.mul_comm]
  omega

/-- the number of bins never exceeds the number of items -/
theorem bins_le_len (hv : I.Valid) (hf : Feasible I rows k) : k ≤ rows.length := by
  have hk := feas_k_pos hv hf
  have hkey : ∀ a ∈ rows, 1 ≤ a.bin ∧ a.bin ≤ ((k.toNat : Nat) : Int) := by
    intro a ha; have := feas_bins hf a ha; omega
  have h1 := sum_by_key rows (fun a => a.bin) (fun _ => (1 : Int)) k.toNat hkey
  have hlen : (rows.map (fun _ => (1 : Int))).sum = rows.length := by
    have := sum_const_filter rows (fun _ => (1 : Int)) 1 (fun _ _ => rfl)
    simpa using this
  rw [hlen] at h1
  have h2 : ((List.range k.toNat).map (fun _ => (1 : Int))).sum ≤
      ((List.range k.toNat).map (fun (j : Nat) =>
        ((rows.filter (fun a => a.bin = (j : Int) + 1)).map (fun _ => (1 : Int))).sum)).sum := by
    apply sum_map_le
    intro j hj
    have hj' := List.mem_range.mp hj
    obtain ⟨a, ha, hab⟩ := feas_bin_nonempty hf ((j : Int) + 1) (by omega) (by omega)
    have hmem : a ∈ rows.filter (fun a => a.bin = (j : Int) + 1) := by
      apply List.mem_filter.mpr; exact ⟨ha, by simpa using hab⟩
    have := sum_const_filter (rows.filter (fun a => a.bin = (j : Int) + 1)) (fun _ => (1 : Int)) 1 (fun _ _ => rfl)
    rw [this]
    have : 0 < (rows.filter (fun a => a.bin = (j : Int) + 1)).length := List.length_pos_of_mem hmem
    omega
  have h3 := sum_const_filter (List.range k.toNat) (fun _ => (1 : Int)) 1 (fun _ _ => rfl)
  rw [h3, List.length_range] at h2
  omega

theorem temp_ok (hv : I.Valid) (hf : Feasible I rows k) (temp : List Int)
    (ht : I.nItems ≤ temp.length) : ∀ a ∈ rows, 1 ≤ a.bin ∧ a.bin ≤ temp.length := by
  intro a ha
  have := feas_bins hf a ha
  have := bins_le_len hv hf
  have := feas_len hf
  omega

theorem empty_feasible (hv : I.Valid) (hf : Feasible I rows k) (temp : List Int)
    (ht : I.nItems ≤ temp.length) :
    binCountAndEmpty rows temp = .ok ((k - 1) * I.nItems + minOver (countIn rows) k) := by
  have hk := feas_k_pos hv hf
  rw [binCountAndEmpty_closed rows temp (feas_ne_nil hv hf) (temp_ok hv hf temp ht),
    maxBin_feasible hv hf 0 (by omega), feas_len hf, Int.mul_comm]

theorem small_feasible (hv : I.Valid) (hf : Feasible I rows k) (binArea : Int) (temp : List Int)
    (ht : I.nItems ≤ temp.length) :
    binCountAndSmall rows binArea temp = .ok ((k - 1) * binArea + minOver (areaIn rows) k) := by
  have hk := feas_k_pos hv hf
  rw [binCountAndSmall_closed rows binArea temp (feas_ne_nil hv hf) (temp_ok hv hf temp ht),
    maxBin_feasible hv hf 1 (by omega), Int.mul_comm]

end kernels


/-! ### arithmetic of `(k-1)*scale + tie` -/
theorem ceilDiv_scale (k S t : Int) (h1 : 1 ≤ t) (h2 : t ≤ S) : ceilDiv ((k - 1) * S + t) S = k := by
  unfold ceilDiv
  rw [Int.fdiv_eq_ediv_of_nonneg _ (by omega)]
  have : -((k - 1) * S + t) = (S - t) + (-k) * S := by ring
  rw [this, Int.add_mul_ediv_right _ _ (by omega), Int.ediv_eq_zero_of_lt (by omega) (by omega)]
  omega

theorem scale_dominates (k k' S t t' : Int) (hk : k < k') (hS : 0 ≤ S) (ht : t ≤ S) (ht' : 1 ≤ t') :
    (k - 1) * S + t < (k' - 1) * S + t' := by
  have : 0 ≤ (k' - 1 - k) * S := Int.mul_nonneg (by omega) hS
  nlinarith

theorem scale_upper (k n S t : Int) (hk : k ≤ n) (hS : 0 ≤ S) (ht : t ≤ S) :
    (k - 1) * S + t ≤ n * S := by
  have : 0 ≤ (n - k) * S := Int.mul_nonneg (by omega) hS
  nlinarith

theorem scale_lower (lb k S s t : Int) (hlb : lb ≤ k) (hS : 0 ≤ S) (hs : s ≤ t) :
    (lb - 1) * S + s ≤ (k - 1) * S + t := by
  have : 0 ≤ (k - lb) * S := Int.mul_nonneg (by omega) hS
  nlinarith

/-! ### the tie-breaking parts of the count/area objectives -/
theorem sum_ge_of_mem {α} (l : List α) (f : α → Int) (a : α) (ha : a ∈ l) (hnn : ∀ x ∈ l, 0 ≤ f x) :
    f a ≤ (l.map f).sum := by
  induction l with
  | nil => cases ha
  | cons x t ih =>
    simp only [List.map_cons, List.sum_cons]
    have hx := hnn x (by simp)
    have ht := sum_map_nonneg t f (fun b hb => hnn b (by simp [hb]))
    rcases List.mem_cons.mp ha with h | h
    · subst h; omega
    · have := ih h (fun b hb => hnn b (by simp [hb])); omega

section ties
variable {I : Inst} {rows : List Row} {k : Int}

theorem rarea_pos (hv : I.Valid) (hf : Feasible I rows k) : ∀ a ∈ rows, 1 ≤ rarea a := by
  intro a ha
  have := feas_pos_dims hv hf a ha
  unfold rarea
  have : 0 < (a.r - a.l) * (a.t - a.b) := Int.mul_pos (by omega) (by omega)
  omega

theorem filter_bin_one (hf : Feasible I rows 1) : rows.filter (fun a => a.bin = 1) = rows := by
  apply List.filter_eq_self.mpr
  intro a ha
  have := feas_bins hf a ha
  simp; omega

theorem countIn_range (hv : I.Valid) (hf : Feasible I rows k) (b : Int) (h1 : 1 ≤ b) (h2 : b ≤ k) :
    1 ≤ countIn rows b ∧ countIn rows b ≤ I.nItems := by
  obtain ⟨a, ha, hab⟩ := feas_bin_nonempty hf b h1 h2
  unfold countIn
  have hmem : a ∈ rows.filter (fun a => a.bin = b) := List.mem_filter.mpr ⟨ha, by simpa using hab⟩
  have h3 : 0 < (rows.filter (fun a => a.bin = b)).length := List.length_pos_of_mem hmem
  have h4 : (rows.filter (fun a => a.bin = b)).length ≤ rows.length := List.length_filter_le _ _
  have := feas_len hf
  omega

theorem countIn_one (hf : Feasible I rows 1) : countIn rows 1 = I.nItems := by
  unfold countIn
  rw [filter_bin_one hf]
  exact feas_len hf

theorem areaIn_ge_row (hv : I.Valid) (hf : Feasible I rows k) (a : Row) (ha : a ∈ rows) :
    rarea a ≤ areaIn rows a.bin := by
  unfold areaIn
  apply sum_ge_of_mem _ rarea a (List.mem_filter.mpr ⟨ha, by simp⟩)
  intro x hx
  have := rarea_pos hv hf x (List.mem_filter.mp hx).1
  omega

theorem areaIn_range (hv : I.Valid) (hf : Feasible I rows k) (b : Int) (h1 : 1 ≤ b) (h2 : b ≤ k) :
    1 ≤ areaIn rows b ∧ areaIn rows b ≤ I.W * I.H := by
  obtain ⟨a, ha, hab⟩ := feas_bin_nonempty hf b h1 h2
  constructor
  · have h3 := areaIn_ge_row hv hf a ha
    have h4 := rarea_pos hv hf a ha
    rw [hab] at h3
    omega
  · unfold areaIn
    have hW := hv.1
    have hH := hv.2.2.1
    have hmap : (rows.filter (fun a => a.bin = b)).map rarea = (rows.filter (fun a => a.bin = b)).map Row.area := rfl
    rw [hmap]
    apply area_sum_le I.W I.H (by omega) (by omega)
    · intro a ha
      have := feas_pos_dims hv hf a (List.mem_filter.mp ha).1
      omega
    · intro a ha; exact feas_inside hf a (List.mem_filter.mp ha).1
    · have hpw := hf.2.2.2.2.1
      have h1 := hpw.filter (fun a => decide (a.bin = b))
      apply List.Pairwise.imp_of_mem _ h1
      intro a c ha hc hac
      have ha' := (List.mem_filter.mp ha).2
      have hc' := (List.mem_filter.mp hc).2
      simp at ha' hc'
      exact hac (by omega)

theorem areaIn_one (hf : Feasible I rows 1) : areaIn rows 1 = I.totalArea := by
  unfold areaIn
  rw [filter_bin_one hf]
  exact rows_area_eq_totalArea I rows 1 hf

def smallStep (s : Int) (it : Item) : Int := if s < 0 ∨ it.w * it.h < s then it.w * it.h else s

theorem smallStep_fold (l : List Item) (s : Int) (hnn : ∀ it ∈ l, 0 ≤ it.w * it.h) :
    (∀ it ∈ l, l.foldl smallStep s ≤ it.w * it.h) ∧ (0 ≤ s → l.foldl smallStep s ≤ s) := by
  induction l generalizing s with
  | nil => simp
  | cons x t ih =>
    have hx := hnn x (by simp)
    have ih' := ih (smallStep s x) (fun it hit => hnn it (by simp [hit]))
    have hs' : 0 ≤ smallStep s x := by unfold smallStep; split <;> omega
    have hle := ih'.2 hs'
    simp only [List.foldl_cons]
    constructor
    · intro it hit
      rcases List.mem_cons.mp hit with h | h
      · subst h
        have : smallStep s it ≤ it.w * it.h := by unfold smallStep; split <;> omega
        omega
      · exact ih'.1 it h
    · intro hs
      have : smallStep s x ≤ s := by unfold smallStep; split <;> omega
      omega

/-- the loop of `BinCountAndLastSmall.lower_bound` returns at most the area of every item type -/
theorem smallestArea_le (hv : I.Valid) : ∀ it ∈ I.items, smallestArea I ≤ it.w * it.h := by
  have hpos : ∀ it ∈ I.items, 0 ≤ it.w * it.h := by
    intro it hit
    have := hv.2.2.2.2.2.2.1 it hit
    exact Int.mul_nonneg (by omega) (by omega)
  have : smallestArea I = I.items.foldl smallStep (-1) := rfl
  rw [this]
  exact (smallStep_fold I.items (-1) hpos).1

theorem smallestArea_le_row (hv : I.Valid) (hf : Feasible I rows k) (a : Row) (ha : a ∈ rows) :
    smallestArea I ≤ rarea a := by
  obtain ⟨it, h1, h2⟩ := hf.2.1 a ha
  have hmem : it ∈ I.items := by
    unfold Inst.item? at h1
    split at h1
    · simp at h1
    · exact List.mem_of_getElem? h1
  have := smallestArea_le hv it hmem
  unfold rarea
  unfold Row.HasDims at h2
  rcases h2 with ⟨h3, h4⟩ | ⟨h3, h4⟩
  · rw [h3, h4]; exact this
  · rw [h3, h4, Int.mul_comm]; exact this

theorem smallestArea_le_areaIn (hv : I.Valid) (hf : Feasible I rows k) (b : Int) (h1 : 1 ≤ b) (h2 : b ≤ k) :
    smallestArea I ≤ areaIn rows b := by
  obtain ⟨a, ha, hab⟩ := feas_bin_nonempty hf b h1 h2
  have h3 := areaIn_ge_row hv hf a ha
  have h4 := smallestArea_le_row hv hf a ha
  rw [hab] at h3
  omega

theorem binArea_pos (hv : I.Valid) : 1 ≤ I.W * I.H := by
  have : 0 < I.W * I.H := Int.mul_pos (by have := hv.1; omega) (by have := hv.2.2.1; omega)
  omega

end ties


theorem minOver_one (f : Int → Int) : minOver f 1 = f 1 := by
  simp [minOver, List.range_succ]

theorem scale_pos (o : Obj) {I : Inst} (hv : I.Valid) : 1 ≤ scale o I := by
  cases o <;> simp only [scale]
  · omega
  all_goals first | exact Inst.nItems_pos I hv | exact binArea_pos hv

/-! ### exactly when the scratch loop leaves the array -/
theorem idx?_eq_none (len : Nat) (i : Int) :
    idx? len i = none ↔ ¬ (-(len : Int) ≤ i ∧ i < len) := by
  unfold idx?
  split
  · simp; omega
  · split
    · simp; omega
    · simp; omega

theorem idx?_some_lt (len : Nat) (i : Int) (j : Nat) (h : idx? len i = some j) : j < len := by
  unfold idx? at h
  split at h
  · simp at h; omega
  · split at h
    · simp at h; omega
    · simp at h

theorem addAt_length (temp temp' : List Int) (i v : Int) (h : addAt temp i v = .ok temp') :
    temp'.length = temp.length := by
  unfold addAt at h
  split at h
  · simp at h
  · split at h
    · simp at h
    · simp at h; subst h; simp

theorem accLoop_error_iff (wt : Row → Int) (rows : List Row) (temp : List Int) (tb : Int) :
    (∀ e, accLoop wt rows temp tb = .error e → e = .oob) ∧
    ((∃ e, accLoop wt rows temp tb = .error e) ↔ ∃ a ∈ rows, idx? temp.length (a.bin - 1) = none) := by
  induction rows generalizing temp tb with
  | nil => simp [accLoop]
  | cons a t ih =>
    simp only [accLoop]
    cases hi : idx? temp.length (a.bin - 1) with
    | none =>
      simp only [addAt, hi]
      exact ⟨fun e he => by cases he; rfl, ⟨fun _ => ⟨a, by simp, hi⟩, fun _ => ⟨_, rfl⟩⟩⟩
    | some j =>
      have hj := idx?_some_lt _ _ _ hi
      have hadd : addAt temp (a.bin - 1) (wt a) = .ok (temp.set j (temp[j] + wt a)) := by
        simp [addAt, hi, List.getElem?_eq_getElem hj]
      rw [hadd]
      simp only []
      obtain ⟨ih1, ih2⟩ := ih (temp.set j (temp[j] + wt a)) (max tb (a.bin - 1))
      refine ⟨ih1, ?_⟩
      rw [ih2]
      simp only [List.length_set]
      constructor
      · rintro ⟨c, hc, h⟩; exact ⟨c, List.mem_cons_of_mem _ hc, h⟩
      · rintro ⟨c, hc, h⟩
        rcases List.mem_cons.mp hc with h' | h'
        · subst h'; rw [hi] at h; cases h
        · exact ⟨c, h', h⟩

theorem sliceMin_not_oob (temp : List Int) (stop : Int) : sliceMin temp stop ≠ .error .oob := by
  unfold sliceMin; split <;> simp

theorem binCountAndEmpty_oob_iff (rows : List Row) (temp : List Int) :
    binCountAndEmpty rows temp = .error .oob ↔
      ∃ a ∈ rows, ¬ (-(temp.length : Int) ≤ a.bin - 1 ∧ a.bin - 1 < temp.length) := by
  have h := accLoop_error_iff (fun _ => 1) rows (fill0 temp) (-1)
  rw [fill0_length] at h
  simp only [idx?_eq_none] at h
  unfold binCountAndEmpty
  cases hacc : accLoop (fun _ => 1) rows (fill0 temp) (-1) with
  | error e =>
    have := h.1 e hacc
    subst this
    simp only [true_iff]
    exact h.2.mp ⟨_, hacc⟩
  | ok st =>
    obtain ⟨temp', tb⟩ := st
    simp only []
    have hno : ¬ ∃ a ∈ rows, ¬ (-(temp.length : Int) ≤ a.bin - 1 ∧ a.bin - 1 < temp.length) := by
      intro hex
      obtain ⟨e, he⟩ := h.2.mpr hex
      rw [hacc] at he; cases he
    simp only [hno, iff_false]
    have := sliceMin_not_oob temp' (tb + 1)
    split <;> simp_all

theorem binCountAndSmall_oob_iff (rows : List Row) (binArea : Int) (temp : List Int) :
    binCountAndSmall rows binArea temp = .error .oob ↔
      ∃ a ∈ rows, ¬ (-(temp.length : Int) ≤ a.bin - 1 ∧ a.bin - 1 < temp.length) := by
  have h := accLoop_error_iff rarea rows (fill0 temp) 0
  rw [fill0_length] at h
  simp only [idx?_eq_none] at h
  unfold binCountAndSmall
  cases hacc : accLoop rarea rows (fill0 temp) 0 with
  | error e =>
    have := h.1 e hacc
    subst this
    simp only [true_iff]
    exact h.2.mp ⟨_, hacc⟩
  | ok st =>
    obtain ⟨temp', tb⟩ := st
    simp only []
    have hno : ¬ ∃ a ∈ rows, ¬ (-(temp.length : Int) ≤ a.bin - 1 ∧ a.bin - 1 < temp.length) := by
      intro hex
      obtain ⟨e, he⟩ := h.2.mpr hex
      rw [hacc] at he; cases he
    simp only [hno, iff_false]
    have := sliceMin_not_oob temp' (tb + 1)
    split <;> simp_all

end BinObj
