import Model.Ode
import Mathlib.Tactic.Linarith
import Mathlib.Tactic.Ring
import Mathlib.Tactic.Positivity
/-!
Helper lemmas for C10 (`Model/Ode.lean`).
-/
namespace Ode

/-! ### values -/

theorem V.isOk_iff' (v : V) : v.isOk = true ↔ v.InRange := by
  cases v with
  | fin q =>
    simp only [V.isOk, LIM, Bool.and_eq_true, V.InRange]
    constructor
    · intro h; exact ⟨q, rfl, of_decide_eq_true h.1, of_decide_eq_true h.2⟩
    · rintro ⟨q', e, h1, h2⟩; cases e; exact ⟨decide_eq_true h1, decide_eq_true h2⟩
  | nan => simp [V.isOk, V.InRange]
  | posInf => simp [V.isOk, V.InRange]
  | negInf => simp [V.isOk, V.InRange]

theorem V.lt_fin_fin {a b : Rat} : (V.fin a).lt (.fin b) = true ↔ a < b := by simp [V.lt]

theorem V.lt_fin_right {a : V} {q : Rat} (h : a.lt (.fin q) = true) :
    a = .negInf ∨ ∃ r, a = .fin r ∧ r < q := by
  cases a <;> simp_all [V.lt]

theorem V.lt_posInf {a : V} (h : a.lt .posInf = true) : a = .negInf ∨ ∃ r, a = .fin r := by
  cases a <;> simp_all [V.lt]

theorem TINY_pos : (0 : Rat) < TINY := by unfold TINY; positivity

/-! ### bookkeeping of `__IntegrationState.f` -/

/-- the evaluation stayed inside the range (controller and differential) -/
def Eval.ok (ev : Eval) : Bool := rowOk ev.ctrl && rowOk ev.out

/-- what `is_ok`, `max_ok_t`, `min_error_t` mean after the evaluations `evs` -/
structure FInv (evs : List Eval) (s : FSt) : Prop where
  okCase : s.isOk = true → s.minErr = .posInf ∧ ∀ ev ∈ evs, ev.ok = true
  badCase : s.isOk = false → ∃ ev ∈ evs, ev.ok = false ∧ s.minErr = .fin ev.t ∧
    ∀ ev' ∈ evs, ev'.ok = false → ev.t ≤ ev'.t
  maxNum : s.maxOk = .negInf ∨ ∃ q, s.maxOk = .fin q
  le : s.maxOk.le s.minErr = true

theorem FInv.init : FInv [] FSt.init :=
  ⟨fun _ => ⟨rfl, by simp⟩, fun h => by simp [FSt.init] at h, Or.inl rfl, rfl⟩

theorem FInv.step {pre : List Eval} {s : FSt} (h : FInv pre s) (ev : Eval) (hp : ev.tPrev < ev.t) :
    FInv (pre ++ [ev]) (s.eval ev) := by
  obtain ⟨hok, hbad, hmax, hle⟩ := h
  unfold FSt.eval
  by_cases hev : (rowOk ev.ctrl && rowOk ev.out) = true
  · -- an in-range evaluation
    have hev' : ev.ok = true := hev
    simp only [hev, if_true]
    split
    · rename_i hc
      simp only [Bool.and_eq_true] at hc
      refine ⟨fun hi => ?_, fun hi => ?_, Or.inr ⟨_, rfl⟩, ?_⟩
      · obtain ⟨h1, h2⟩ := hok hi
        refine ⟨h1, fun e he => ?_⟩
        rcases List.mem_append.mp he with he | he
        · exact h2 e he
        · simp at he; subst he; exact hev'
      · obtain ⟨e, he, h1, h2, h3⟩ := hbad hi
        refine ⟨e, List.mem_append_left _ he, h1, h2, fun e' he' hb => ?_⟩
        rcases List.mem_append.mp he' with he' | he'
        · exact h3 e' he' hb
        · simp at he'; subst he'; simp [hev'] at hb
      · have := hc.2
        revert this
        cases s.minErr <;> simp [V.lt, V.le]
        intro h; exact Rat.le_of_lt h
    · refine ⟨fun hi => ?_, fun hi => ?_, hmax, hle⟩
      · obtain ⟨h1, h2⟩ := hok hi
        refine ⟨h1, fun e he => ?_⟩
        rcases List.mem_append.mp he with he | he
        · exact h2 e he
        · simp at he; subst he; exact hev'
      · obtain ⟨e, he, h1, h2, h3⟩ := hbad hi
        refine ⟨e, List.mem_append_left _ he, h1, h2, fun e' he' hb => ?_⟩
        rcases List.mem_append.mp he' with he' | he'
        · exact h3 e' he' hb
        · simp at he'; subst he'; simp [hev'] at hb
  · -- an out-of-range evaluation
    have hev' : ev.ok = false := by simpa [Eval.ok] using hev
    simp only [hev, Bool.false_eq_true, if_false]
    refine ⟨fun hi => by simp at hi, fun _ => ?_, ?_, ?_⟩
    · -- the least failing time
      cases hs : s.isOk with
      | true =>
        obtain ⟨h1, h2⟩ := hok hs
        refine ⟨ev, by simp, hev', by simp [h1, V.pmin, V.lt], fun e' he' hb => ?_⟩
        rcases List.mem_append.mp he' with he' | he'
        · simp [h2 e' he'] at hb
        · simp at he'; subst he'; exact Rat.le_refl
      | false =>
        obtain ⟨e, he, h1, h2, h3⟩ := hbad hs
        by_cases hlt : ev.t < e.t
        · refine ⟨ev, by simp, hev', by simp [h2, V.pmin, V.lt, hlt], fun e' he' hb => ?_⟩
          rcases List.mem_append.mp he' with he' | he'
          · exact Rat.le_trans (Rat.le_of_lt hlt) (h3 e' he' hb)
          · simp at he'; subst he'; exact Rat.le_refl
        · refine ⟨e, List.mem_append_left _ he, h1, by simp [h2, V.pmin, V.lt, hlt], fun e' he' hb => ?_⟩
          rcases List.mem_append.mp he' with he' | he'
          · exact h3 e' he' hb
          · simp at he'; subst he'; exact Rat.not_lt.mp hlt
    · split
      · exact Or.inr ⟨_, rfl⟩
      · exact hmax
    · -- max_ok_t ≤ min_error_t
      rcases hmax with hm | ⟨q, hm⟩
      · rw [hm] at hle ⊢
        cases hme : s.minErr with
        | nan => simp [hme, V.le] at hle
        | negInf => simp [V.lt, V.pmin, V.le]
        | posInf => simp [V.lt, V.pmin, V.le]
        | fin m =>
          simp only [V.lt, V.pmin, Bool.false_eq_true, if_false]
          by_cases h1 : ev.t < m <;> simp [h1, V.le]
      · simp only [hm, V.pmin] at hle ⊢
        cases hme : s.minErr with
        | nan => simp [hme, V.le] at hle
        | negInf => simp [hme, V.le] at hle
        | posInf =>
          simp only [V.lt]
          by_cases h1 : ev.t < q
          · simp [h1, V.le]; exact Rat.le_of_lt hp
          · simp [h1, V.le]; exact Rat.not_lt.mp h1
        | fin m =>
          simp only [hme, V.le, decide_eq_true_eq] at hle
          simp only [V.lt]
          by_cases h1 : ev.t < q
          · have h2 : ev.t < m := lt_of_lt_of_le h1 hle
            simp [h1, h2, V.le]; exact Rat.le_of_lt hp
          · by_cases h2 : ev.t < m
            · simp [h1, h2, V.le]; exact Rat.not_lt.mp h1
            · simp [h1, h2, V.le]; exact hle

theorem FInv.evals {pre : List Eval} {s : FSt} (h : FInv pre s) (evs : List Eval)
    (hp : ∀ ev ∈ evs, ev.tPrev < ev.t) : FInv (pre ++ evs) (s.evals evs) := by
  induction evs generalizing pre s with
  | nil => simpa [FSt.evals] using h
  | cons ev rest ih =>
    have h1 := h.step ev (hp ev (by simp))
    have := ih h1 (fun e he => hp e (by simp [he]))
    simpa [FSt.evals, List.foldl_cons, List.append_assoc] using this

/-! ### the step-collection loop -/

theorem collect_spec (steps : List StepRec) (s : FSt) (acc : List Seg) (pre : List Eval)
    (hinv : FInv pre s) (hp : ∀ ev ∈ steps.flatMap (·.evals), ev.tPrev < ev.t)
    {isFin : Bool} {fs : FSt} {segs : List Seg}
    (h : collect steps s acc = some (isFin, fs, segs)) :
    ∃ evs, (∀ ev ∈ evs, ev ∈ steps.flatMap (·.evals)) ∧ FInv (pre ++ evs) fs ∧
      (isFin = true → fs.isOk = true ∧ segs ≠ []) := by
  induction steps generalizing s acc pre with
  | nil => simp [collect] at h
  | cons r rs ih =>
    have hr : ∀ ev ∈ r.evals, ev.tPrev < ev.t := fun ev he => hp ev (by simp [he])
    have hinv' := hinv.evals r.evals hr
    simp only [collect] at h
    split at h
    · simp only [Option.some.injEq, Prod.mk.injEq] at h
      obtain ⟨h1, h2, h3⟩ := h
      subst h1 h2 h3
      exact ⟨r.evals, fun ev he => by simp [he], hinv', by simp⟩
    · rename_i hok
      simp only [Bool.not_eq_true', Bool.not_eq_false] at hok
      have hok' : (s.evals r.evals).isOk = true := by simpa using hok
      split at h
      · simp only [Option.some.injEq, Prod.mk.injEq] at h
        obtain ⟨h1, h2, h3⟩ := h
        subst h1 h2 h3
        exact ⟨r.evals, fun ev he => by simp [he], hinv', fun _ => ⟨hok', by simp⟩⟩
      · obtain ⟨evs, h1, h2, h3⟩ := ih (s.evals r.evals) (acc ++ [r.seg]) (pre ++ r.evals) hinv'
          (fun ev he => hp ev (by simp only [List.flatMap_cons, List.mem_append]; exact Or.inr he)) h
        refine ⟨r.evals ++ evs, fun ev he => ?_, by simpa [List.append_assoc] using h2, h3⟩
        simp only [List.flatMap_cons, List.mem_append]
        rcases List.mem_append.mp he with he | he
        · exact Or.inl he
        · exact Or.inr (h1 ev he)
      · simp only [Option.some.injEq, Prod.mk.injEq] at h
        obtain ⟨h1, h2, h3⟩ := h
        subst h1 h2 h3
        exact ⟨r.evals, fun ev he => by simp [he], hinv', by simp⟩

/-! ### segment search and the row loop -/

theorem segSearch_found (segs : List Seg) (t : Rat) (j : Nat) (cur : Seg)
    (hc : segs[j]? = some cur) (hf : (segSearch segs t j cur).2.2 = true) :
    segs[(segSearch segs t j cur).1]? = some (segSearch segs t j cur).2.1 ∧
      (segSearch segs t j cur).2.1.has t = true := by
  fun_induction segSearch segs t j cur with
  | case1 j cur h => exact ⟨hc, h⟩
  | case2 j cur h1 h2 => simp at hf
  | case3 j cur h1 h2 ih => exact ih (by simp) hf

/-- row `row` was built for time `tt` from an interpolator whose range contains `tt`, its control
part is the controller's output, and it passed `_is_ok` -/
def RowAt (e : Env) (cyc : Nat) (segs : List Seg) (tt : Rat) (row : List V) : Prop :=
  ∃ j d, segs[j]? = some d ∧ d.has tt = true ∧
    row = e.dense cyc j tt ++ e.ctrl (e.dense cyc j tt) tt ++ [.fin tt] ∧ rowOk row = true

theorem rowLoop_spec (e : Env) (cyc : Nat) (segs : List Seg) (rest : List Rat) :
    ∀ (i : Nat) (st : LoopSt),
      ((rowLoop e cyc segs rest i st).fin = true → st.fin = true ∧
        (segs[st.j]? = some st.cur → ∃ rows, (rowLoop e cyc segs rest i st).acc = st.acc ++ rows ∧
          List.Forall₂ (RowAt e cyc segs) rest rows)) ∧
      ((rowLoop e cyc segs rest i st).fin = false →
        (st.fin = false ∧ (rowLoop e cyc segs rest i st).minErr = st.minErr) ∨
          ∃ tt ∈ rest, (rowLoop e cyc segs rest i st).minErr = .fin tt) ∧
      ((rowLoop e cyc segs rest i st).maxOk = st.maxOk ∨
        ∃ q, (rowLoop e cyc segs rest i st).maxOk = .fin q) := by
  induction rest with
  | nil =>
    intro i st
    refine ⟨fun h => ⟨by simpa [rowLoop] using h, fun _ => ⟨[], by simp [rowLoop], List.Forall₂.nil⟩⟩,
      fun h => Or.inl ⟨by simpa [rowLoop] using h, by simp [rowLoop]⟩, Or.inl (by simp [rowLoop])⟩
  | cons tt rest ih =>
    intro i st
    obtain ⟨j, cur, t, fin, mo, me, acc, calls, tag⟩ := st
    simp only [rowLoop]
    by_cases hf : (segSearch segs tt j cur).2.2 = true
    · -- the segment search succeeded
      simp only [hf, if_true]
      cases fin with
      | true =>
        simp only [if_true]
        by_cases hrow : rowOk (e.dense cyc (segSearch segs tt j cur).1 tt ++
            e.ctrl (e.dense cyc (segSearch segs tt j cur).1 tt) tt ++ [V.fin tt]) = true
        · simp only [hrow, if_true]
          obtain ⟨ih1, ih2, ih3⟩ := ih (i + 1)
            ⟨(segSearch segs tt j cur).1, (segSearch segs tt j cur).2.1, tt, true, mo, me,
              acc ++ [e.dense cyc (segSearch segs tt j cur).1 tt ++
                        e.ctrl (e.dense cyc (segSearch segs tt j cur).1 tt) tt ++ [V.fin tt]],
              calls + 1, tag⟩
          refine ⟨fun h => ⟨trivial, fun hc => ?_⟩, fun h => ?_, ih3⟩
          · obtain ⟨hs1, hs2⟩ := segSearch_found segs tt j cur hc hf
            obtain ⟨rows, hr1, hr2⟩ := (ih1 h).2 hs1
            refine ⟨(e.dense cyc (segSearch segs tt j cur).1 tt ++
                e.ctrl (e.dense cyc (segSearch segs tt j cur).1 tt) tt ++ [V.fin tt]) :: rows, ?_,
              List.Forall₂.cons ⟨_, _, hs1, hs2, rfl, hrow⟩ hr2⟩
            rw [hr1, List.append_assoc]; rfl
          · rcases ih2 h with ⟨h1, _⟩ | ⟨t', ht', h2⟩
            · simp at h1
            · exact Or.inr ⟨t', by simp [ht'], h2⟩
        · simp only [hrow, Bool.false_eq_true, if_false]
          exact ⟨fun h => by simp at h, fun _ => Or.inr ⟨tt, by simp, rfl⟩, Or.inr ⟨_, rfl⟩⟩
      | false =>
        simp only [Bool.false_eq_true, if_false]
        obtain ⟨ih1, ih2, ih3⟩ := ih (i + 1)
          ⟨(segSearch segs tt j cur).1, (segSearch segs tt j cur).2.1, tt, false, mo, me, acc, calls, tag⟩
        refine ⟨fun h => by simpa using (ih1 h).1, fun h => ?_, ih3⟩
        rcases ih2 h with ⟨_, h2⟩ | ⟨t', ht', h2⟩
        · exact Or.inl ⟨trivial, h2⟩
        · exact Or.inr ⟨t', by simp [ht'], h2⟩
    · -- the search ran out of interpolators: the `for` loop goes on with `is_finished = False`
      simp only [hf, Bool.false_eq_true, if_false]
      obtain ⟨ih1, ih2, ih3⟩ := ih (i + 1)
        ⟨(segSearch segs tt j cur).1, (segSearch segs tt j cur).2.1, tt, false, .fin t, .fin tt, acc, calls,
          if fin = true then .seg i else tag⟩
      refine ⟨fun h => by simpa using (ih1 h).1, fun h => ?_, ?_⟩
      · rcases ih2 h with ⟨_, h2⟩ | ⟨t', ht', h2⟩
        · exact Or.inr ⟨tt, by simp, h2⟩
        · exact Or.inr ⟨t', by simp [ht'], h2⟩
      · rcases ih3 with h3 | h3
        · exact Or.inr ⟨_, h3⟩
        · exact Or.inr h3

/-! ### rows -/

theorem timeOf_row (s c : List V) (x : V) : timeOf (s ++ c ++ [x]) = x := by
  simp [timeOf, List.getLastD_eq_getLast?]

theorem stateOf_row (s c : List V) (x : V) : stateOf s.length (s ++ c ++ [x]) = s := by
  simp [stateOf, List.append_assoc]

theorem controlOf_row (s c : List V) (x : V) : controlOf s.length c.length (s ++ c ++ [x]) = c := by
  simp [controlOf, List.append_assoc]

theorem rowOk_inRange {r : List V} (h : rowOk r = true) : ∀ v ∈ r, v.InRange := by
  intro v hv
  simp only [rowOk, List.all_eq_true] at h
  exact (V.isOk_iff' v).mp (h v hv)

theorem forall₂_rowAt {e : Env} {cyc : Nat} {segs : List Seg} {ts : List Rat} {rows : List (List V)}
    (h : List.Forall₂ (RowAt e cyc segs) ts rows) :
    rows.map timeOf = ts.map V.fin ∧ ∀ r ∈ rows, ∃ t ∈ ts, RowAt e cyc segs t r := by
  induction h with
  | nil => simp
  | @cons t r ts rows h1 _ ih =>
    obtain ⟨j, d, _, _, hr, _⟩ := id h1
    refine ⟨?_, ?_⟩
    · simp only [List.map_cons, ih.1, List.cons.injEq, and_true]
      rw [hr, timeOf_row]
    · intro r' hr'
      rcases List.mem_cons.mp hr' with hr' | hr'
      · subst hr'; exact ⟨t, by simp, h1⟩
      · obtain ⟨t', ht', h'⟩ := ih.2 r' hr'
        exact ⟨t', by simp [ht'], h'⟩

/-- what one cycle can yield, under the runtime assumptions -/
theorem cycleStep_spec (e : Env) (he : EnvOk e) (cyc : Nat) (mt : Rat) (hmt : 0 < mt) (B : Rat)
    (hB : mt ≤ B) (hevB : ∀ ev ∈ allEvals (e.integ cyc mt), ev.t ≤ B) :
    match cycleStep e cyc mt with
    | .done rs _ _ _ => GoodRows e.start e.cdim e.steps (specCtrl e) mt rs
    | .firstFail _ _ => True
    | .retry mo me _ _ => (mo = .negInf ∨ ∃ q, mo = .fin q) ∧ (me = .posInf ∨ ∃ q, me = .fin q ∧ q ≤ B)
    | .stuck => False
    | .oob => False := by
  have hstop := he.integ_stops cyc mt
  have hpre : FInv ([] ++ (e.integ cyc mt).pre) (FSt.init.evals (e.integ cyc mt).pre) :=
    FInv.init.evals _ (fun ev hev => he.evals_prev cyc mt ev (by simp [allEvals, hev]))
  cases hcol : collect (e.integ cyc mt).steps (FSt.init.evals (e.integ cyc mt).pre) [] with
  | none => rw [hcol] at hstop; simp at hstop
  | some res =>
    obtain ⟨isFin, fs, segs⟩ := res
    obtain ⟨evs, hev1, hinv, hfin⟩ := collect_spec _ _ _ _ hpre
      (fun ev hev => he.evals_prev cyc mt ev (by simp only [allEvals, List.mem_append]; exact Or.inr hev)) hcol
    have hall : ∀ ev ∈ [] ++ (e.integ cyc mt).pre ++ evs, ev.t ≤ B := by
      intro ev hev
      apply hevB ev
      simp only [List.nil_append, List.mem_append] at hev
      simp only [allEvals, List.mem_append]
      rcases hev with hev | hev
      · exact Or.inl hev
      · exact Or.inr (hev1 ev hev)
    -- the values the integrator leaves behind
    have hmo : fs.maxOk = .negInf ∨ ∃ q, fs.maxOk = .fin q := hinv.maxNum
    have hme : fs.minErr = .posInf ∨ ∃ q, fs.minErr = .fin q ∧ q ≤ B := by
      cases hok : fs.isOk with
      | true => exact Or.inl (hinv.okCase hok).1
      | false =>
        obtain ⟨ev, hev, _, h2, _⟩ := hinv.badCase hok
        exact Or.inr ⟨ev.t, h2, hall ev hev⟩
    simp only [cycleStep, hcol]
    by_cases hgate : (isFin && fs.isOk) = true
    · simp only [hgate, if_true]
      have hg := he.grid_len mt hmt
      have hh := he.grid_head mt hmt
      cases hgrid : e.grid mt with
      | nil => have := he.steps_pos; simp [hgrid] at hg; omega
      | cons t0 rest =>
        simp only [hgrid, List.head?_cons, Option.some.injEq] at hh
        subst hh
        simp only []
        by_cases hr0 : rowOk (e.start ++ e.ctrl e.start 0 ++ [V.fin 0]) = true
        · simp only [hr0, Bool.not_true, Bool.false_eq_true, if_false]
          simp only [Bool.and_eq_true] at hgate
          have hsegs := (hfin hgate.1).2
          cases hs : segs with
          | nil => exact absurd hs hsegs
          | cons d0 ds =>
            simp only []
            obtain ⟨l1, l2, l3⟩ := rowLoop_spec e cyc (d0 :: ds) rest 1
              ⟨0, d0, 0, true, fs.maxOk, fs.minErr, [e.start ++ e.ctrl e.start 0 ++ [V.fin 0]], 1, .ok⟩
            generalize rowLoop e cyc (d0 :: ds) rest 1
              ⟨0, d0, 0, true, fs.maxOk, fs.minErr, [e.start ++ e.ctrl e.start 0 ++ [V.fin 0]], 1, .ok⟩ = st
              at l1 l2 l3 ⊢
            by_cases hf : st.fin = true
            · simp only [hf, if_true]
              obtain ⟨rows, hacc, hall₂⟩ := (l1 hf).2 (by simp)
              rw [hacc]
              obtain ⟨htimes, hrows⟩ := forall₂_rowAt hall₂
              have hinc := he.grid_inc mt hmt
              have hle := he.grid_le mt hmt
              rw [hgrid] at hinc hle hg
              have hlen : rows.length = rest.length := by
                have := congrArg List.length htimes; simpa using this
              refine ⟨?_, ?_, ?_, ?_, ?_, ?_, ?_, ?_⟩
              · simp [hlen] at hg ⊢; omega
              · intro r hr
                simp only [List.cons_append, List.nil_append, List.mem_cons] at hr
                rcases hr with hr | hr
                · subst hr; simp [he.ctrl_len]; omega
                · obtain ⟨t, _, j, d, _, _, h5, _⟩ := hrows r hr
                  subst h5; simp [he.ctrl_len, he.dense_len]; omega
              · simp only [List.cons_append, List.nil_append, List.head?_cons, Option.map_some]
                rw [stateOf_row]
              · simp only [List.cons_append, List.nil_append, List.head?_cons, Option.map_some]
                rw [timeOf_row]
              · simp only [List.cons_append, List.nil_append, List.map_cons, htimes, timeOf_row]
                have : (V.fin 0 :: rest.map V.fin) = (0 :: rest).map V.fin := by simp
                rw [this, List.pairwise_map]
                exact hinc.imp (fun {a b} hab => ⟨a, b, rfl, rfl, hab⟩)
              · intro r hr
                simp only [List.cons_append, List.nil_append, List.mem_cons] at hr
                rcases hr with hr | hr
                · subst hr; rw [timeOf_row]; exact ⟨0, rfl, hle 0 (by simp)⟩
                · obtain ⟨t, ht, j, d, _, _, h5, _⟩ := hrows r hr
                  subst h5; rw [timeOf_row]; exact ⟨t, rfl, hle t (by simp [ht])⟩
              · intro r hr
                simp only [List.cons_append, List.nil_append, List.mem_cons] at hr
                rcases hr with hr | hr
                · subst hr; exact rowOk_inRange hr0
                · obtain ⟨t, ht, j, d, _, _, h5, h6⟩ := hrows r hr
                  exact rowOk_inRange h6
              · intro r hr
                simp only [List.cons_append, List.nil_append, List.mem_cons] at hr
                rcases hr with hr | hr
                · subst hr
                  rw [stateOf_row, timeOf_row]
                  have := controlOf_row e.start (e.ctrl e.start 0) (V.fin 0)
                  rw [he.ctrl_len] at this
                  simpa [specCtrl] using this
                · obtain ⟨t, ht, j, d, _, _, h5, h6⟩ := hrows r hr
                  subst h5
                  have h1 := stateOf_row (e.dense cyc j t) (e.ctrl (e.dense cyc j t) t) (V.fin t)
                  have h2 := controlOf_row (e.dense cyc j t) (e.ctrl (e.dense cyc j t) t) (V.fin t)
                  rw [he.dense_len] at h1 h2
                  rw [he.ctrl_len] at h2
                  rw [h1, h2, timeOf_row]
                  simp [specCtrl]
            · simp only [hf, Bool.false_eq_true, if_false]
              simp only [Bool.not_eq_true] at hf
              refine ⟨?_, ?_⟩
              · rcases l3 with h3 | h3
                · rw [h3]; exact hmo
                · exact Or.inr h3
              · rcases l2 hf with ⟨h1, _⟩ | ⟨tt, htt, h2⟩
                · simp at h1
                · refine Or.inr ⟨tt, h2, ?_⟩
                  have hle := he.grid_le mt hmt
                  rw [hgrid] at hle
                  exact le_trans (hle tt (by simp [htt])) hB
        · simp only [hr0, Bool.not_false, if_true]
    · simp only [hgate, Bool.false_eq_true, if_false]
      exact ⟨hmo, hme⟩

/-! ### the outer retry loop -/


theorem runFrom_cycles (e : Env) (cycle : Nat) (mt : Rat) :
    cycle < (runFrom e cycle mt).cycles ∧ (cycle ≤ 4 → (runFrom e cycle mt).cycles ≤ 5) := by
  fun_induction runFrom e cycle mt with
  | case1 cycle mt c rs calls mo me h => simp only [c]; omega
  | case2 cycle mt c mo me h => simp only [c]; omega
  | case3 cycle mt c h => simp only [c]; omega
  | case4 cycle mt c h => simp only [c]; omega
  | case5 cycle mt c mo me tag calls h first newMax info h4 => simp only [c]; omega
  | case6 cycle mt c mo me tag calls h first newMax info h4 hle => simp only [c]; omega
  | case7 cycle mt c mo me tag calls h first newMax info h4 hle q hq r ih =>
    simp only [r, c] at ih h4 ⊢; omega
  | case8 cycle mt c mo me tag calls h first newMax info h4 hle hq => simp only [c]; omega


/-- the next time limit is strictly below the current one if the error time is within the limit -/
theorem newMax_lt (e : Env) (he : EnvOk e) (c : Nat) (mt : Rat) (hmt : 0 < mt) (mo me : V)
    (hmo : mo = .negInf ∨ ∃ q, mo = .fin q) (hme : me = .posInf ∨ ∃ q, me = .fin q ∧ q ≤ mt) :
    (if (decide (c < 3) && (mo.lt me && me.lt .posInf)) = true then e.shrink1 mo me
      else e.shrink2 mo (.fin mt)).lt (.fin mt) = true := by
  split
  · rename_i h
    simp only [Bool.and_eq_true] at h
    rcases hme with hme | ⟨q, hme, hq⟩
    · simp [hme, V.lt] at h
    · subst hme
      rcases V.lt_fin_right (he.shrink1_lt mo q) with h1 | ⟨r, h1, h2⟩
      · simp [h1, V.lt]
      · simp only [h1, V.lt, decide_eq_true_eq]; linarith
  · apply he.shrink2_lt mo mt _ hmt
    rcases hmo with h | ⟨q, h⟩ <;> simp [h]

theorem V.le_of_lt' {a : V} {q : Rat} (h : a.lt (.fin q) = true) : a.le (.fin q) = true := by
  rcases V.lt_fin_right h with h1 | ⟨r, h1, h2⟩
  · simp [h1, V.le]
  · simp only [h1, V.le, decide_eq_true_eq]; exact le_of_lt h2

/-- the next time limit never exceeds the current one (error time at most one ulp above the limit) -/
theorem newMax_le (e : Env) (he : EnvOk e) (c : Nat) (mt : Rat) (hmt : 0 < mt) (mo me : V)
    (hmo : mo = .negInf ∨ ∃ q, mo = .fin q) (hme : me = .posInf ∨ ∃ q, me = .fin q ∧ q ≤ e.nextUp mt) :
    (if (decide (c < 3) && (mo.lt me && me.lt .posInf)) = true then e.shrink1 mo me
      else e.shrink2 mo (.fin mt)).le (.fin mt) = true := by
  split
  · rename_i h
    simp only [Bool.and_eq_true] at h
    rcases hme with hme | ⟨q, hme, hq⟩
    · simp [hme, V.lt] at h
    · subst hme
      exact he.shrink1_up mo q mt hq
  · apply V.le_of_lt'
    apply he.shrink2_lt mo mt _ hmt
    rcases hmo with h | ⟨q, h⟩ <;> simp [h]

/-- the integrator never evaluates the right-hand side after `t_bound` (true for almost all
recorded runs; in general only `≤ nextUp t_bound`) -/
def EvalsWithin (e : Env) : Prop := ∀ c m, 0 < m → ∀ ev ∈ allEvals (e.integ c m), ev.t ≤ m

theorem runFrom_spec (e : Env) (he : EnvOk e) (cycle : Nat) (mt : Rat) (hmt : 0 < mt) :
    0 < (runFrom e cycle mt).finalMax ∧ (runFrom e cycle mt).finalMax ≤ mt ∧
    ((runFrom e cycle mt).trace.map (·.maxTime)).Pairwise (· ≥ ·) ∧
    (∀ i ∈ (runFrom e cycle mt).trace, i.maxTime ≤ mt) ∧
    (EvalsWithin e → ((runFrom e cycle mt).trace.map (·.maxTime)).Pairwise (· > ·)) ∧
    (match (runFrom e cycle mt).out with
      | .rows rs => GoodRows e.start e.cdim e.steps (specCtrl e) (runFrom e cycle mt).finalMax rs
      | .failure row => row = failRow e
      | _ => False) := by
  fun_induction runFrom e cycle mt with
  | case1 cycle mt c rs calls mo me h =>
    have := cycleStep_spec e he c mt hmt _ (he.up_ge mt) (he.evals_le c mt hmt)
    rw [h] at this
    exact ⟨hmt, le_refl _, by simp, by simp, by simp, this⟩
  | case2 cycle mt c mo me h => exact ⟨hmt, le_refl _, by simp, by simp, by simp, rfl⟩
  | case3 cycle mt c h =>
    have := cycleStep_spec e he c mt hmt _ (he.up_ge mt) (he.evals_le c mt hmt)
    rw [h] at this; exact this.elim
  | case4 cycle mt c h =>
    have := cycleStep_spec e he c mt hmt _ (he.up_ge mt) (he.evals_le c mt hmt)
    rw [h] at this; exact this.elim
  | case5 cycle mt c mo me tag calls h first newMax info h4 =>
    exact ⟨hmt, le_refl _, by simp, by simp [info], by simp, rfl⟩
  | case6 cycle mt c mo me tag calls h first newMax info h4 hle =>
    exact ⟨hmt, le_refl _, by simp, by simp [info], by simp, rfl⟩
  | case7 cycle mt c mo me tag calls h first newMax info h4 hle q hq r ih =>
    have hs := cycleStep_spec e he c mt hmt _ (he.up_ge mt) (he.evals_le c mt hmt)
    rw [h] at hs
    have hnm : newMax = (if (decide (c < 3) && (mo.lt me && me.lt .posInf)) = true then e.shrink1 mo me
      else e.shrink2 mo (.fin mt)) := by simp only [newMax, first]; split <;> rfl
    have hle' := newMax_le e he c mt hmt mo me hs.1 hs.2
    rw [← hnm, hq] at hle'
    have hqmt : q ≤ mt := by simpa [V.le] using hle'
    have hq0 : 0 < q := by
      rw [hq] at hle
      have : ¬ q ≤ TINY := by simpa [V.le] using hle
      have := TINY_pos
      linarith
    obtain ⟨i1, i2, i3, i4, i5, i6⟩ := ih hq0
    simp only [r]
    refine ⟨i1, by linarith, ?_, ?_, ?_, i6⟩
    · simp only [List.map_cons, List.pairwise_cons]
      refine ⟨fun t ht => ?_, i3⟩
      obtain ⟨i, hi, rfl⟩ := List.mem_map.mp ht
      have := i4 i hi
      simp only [info]; linarith
    · intro i hi
      rcases List.mem_cons.mp hi with hi | hi
      · subst hi; simp [info]
      · have := i4 i hi; linarith
    · intro hw
      have hs' := cycleStep_spec e he c mt hmt mt (le_refl _) (hw c mt hmt)
      rw [h] at hs'
      have hlt := newMax_lt e he c mt hmt mo me hs'.1 hs'.2
      rw [← hnm, hq] at hlt
      have hqlt : q < mt := by simpa [V.lt] using hlt
      simp only [List.map_cons, List.pairwise_cons]
      refine ⟨fun t ht => ?_, i5 hw⟩
      obtain ⟨i, hi, rfl⟩ := List.mem_map.mp ht
      have := i4 i hi
      simp only [info]; linarith
  | case8 cycle mt c mo me tag calls h first newMax info h4 hle hq =>
    exfalso
    have hs := cycleStep_spec e he c mt hmt _ (he.up_ge mt) (he.evals_le c mt hmt)
    rw [h] at hs
    have hle' := newMax_le e he c mt hmt mo me hs.1 hs.2
    have hnm : newMax = (if (decide (c < 3) && (mo.lt me && me.lt .posInf)) = true then e.shrink1 mo me
      else e.shrink2 mo (.fin mt)) := by simp only [newMax, first]; split <;> rfl
    rw [← hnm] at hle'
    cases hnv : newMax with
    | fin r => exact hq r hnv
    | nan => rw [hnv] at hle'; simp [V.le] at hle'
    | posInf => rw [hnv] at hle'; simp [V.le] at hle'
    | negInf => rw [hnv] at hle; simp [V.le] at hle

/-! ### figure of merit: the cursor -/

/-- `s'` is `s` after writing `vals` at the cursor, everything else untouched -/
structure Wrote (s s' : JSt) (vals : List Rat) : Prop where
  index : s'.index = s.index + vals.length
  len : s'.dest.length = s.dest.length
  fits : s.index + vals.length ≤ s.dest.length
  inside : ∀ k (h : k < vals.length), s'.dest[s.index + k]? = some (some vals[k])
  outside : ∀ k, k < s.index ∨ s.index + vals.length ≤ k → s'.dest[k]? = s.dest[k]?

theorem Wrote.refl (s : JSt) (h : s.index ≤ s.dest.length) : Wrote s s [] :=
  ⟨by simp, rfl, by simpa using h, by simp, fun _ _ => rfl⟩

theorem Wrote.trans {s s' s'' : JSt} {v1 v2 : List Rat} (h1 : Wrote s s' v1) (h2 : Wrote s' s'' v2) :
    Wrote s s'' (v1 ++ v2) := by
  refine ⟨by rw [h2.index, h1.index, List.length_append]; omega, by rw [h2.len, h1.len], ?_, ?_, ?_⟩
  · have := h2.fits; rw [h1.index, h1.len] at this; rw [List.length_append]; omega
  · intro k hk
    by_cases hk1 : k < v1.length
    · rw [h2.outside _ (Or.inl (by rw [h1.index]; omega)), h1.inside k hk1, List.getElem_append_left hk1]
    · have hk2 : k - v1.length < v2.length := by rw [List.length_append] at hk; omega
      have := h2.inside (k - v1.length) hk2
      rw [h1.index] at this
      rw [show s.index + k = s.index + v1.length + (k - v1.length) by omega, this,
        List.getElem_append_right (by omega)]
  · intro k hk
    rw [List.length_append] at hk
    rw [h2.outside k (by rw [h1.index]; omega), h1.outside k (by omega)]

theorem push_spec (s : JSt) (x : Rat) (h : s.index < s.dest.length) :
    ∃ s', s.push x = some s' ∧ Wrote s s' [x] := by
  refine ⟨⟨s.dest.set s.index (some x), s.index + 1⟩, by simp [JSt.push, h], ?_⟩
  refine ⟨rfl, by simp, by simp; omega, ?_, ?_⟩
  · intro k hk
    have : k = 0 := by simpa using hk
    subst this
    simp [h]
  · intro k hk
    simp only [List.length_cons, List.length_nil] at hk
    rw [List.getElem?_set_ne (by omega)]

theorem colLoop_spec (last : List Rat) (w : Rat) (cols : List Nat) (s : JSt)
    (hc : ∀ c ∈ cols, c < last.length) (hs : s.index + cols.length ≤ s.dest.length) :
    ∃ s', colLoop last w cols s = some s' ∧
      Wrote s s' (cols.map (fun c => clampSq (last.getD c 0) w)) := by
  induction cols generalizing s with
  | nil => exact ⟨s, rfl, Wrote.refl s (by simpa using hs)⟩
  | cons c cs ih =>
    have hcl : c < last.length := hc c (by simp)
    simp only [List.length_cons] at hs
    obtain ⟨s1, h1, w1⟩ := push_spec s (clampSq (last.getD c 0) w) (by omega)
    obtain ⟨s2, h2, w2⟩ := ih s1 (fun c' hc' => hc c' (by simp [hc']))
      (by rw [w1.index, w1.len]; simp; omega)
    refine ⟨s2, ?_, by simpa using w1.trans w2⟩
    simp only [colLoop, List.getElem?_eq_getElem hcl, Option.bind_eq_bind, Option.bind_some]
    have : last.getD c 0 = last[c] := by simp [List.getD_eq_getElem?_getD, List.getElem?_eq_getElem hcl]
    rw [← this, h1]
    simpa using h2


/-- the values `__j_from_ode_compute` writes, in writing order -/
def pairVals (ncols sd use : Nat) (gamma : Rat) : List Rat → List (List Rat) → Bool → List Rat
  | _, [], _ => []
  | last, next :: rest, add =>
    (ctrlCols ncols sd).map (fun c => clampSq (last.getD c 0) ((next.getLastD 0 - last.getLastD 0) * gamma)) ++
      (if add then (stateCols use).map (fun c => clampSq (last.getD c 0) (next.getLastD 0 - last.getLastD 0))
        else []) ++
      pairVals ncols sd use gamma next rest true

theorem ctrlCols_lt {ncols sd c : Nat} (h : c ∈ ctrlCols ncols sd) : c < ncols := by
  simp only [ctrlCols, List.mem_reverse, List.mem_map, List.mem_range] at h
  obtain ⟨a, ha, rfl⟩ := h; omega

theorem stateCols_lt {use c : Nat} (h : c ∈ stateCols use) : c < use := by
  simpa [stateCols] using h

theorem pairVals_length (ncols sd use : Nat) (gamma : Rat) (last : List Rat) (rest : List (List Rat))
    (add : Bool) :
    (pairVals ncols sd use gamma last rest add).length =
      rest.length * (ncols - 1 - sd) + (if add then rest.length else rest.length - 1) * use := by
  induction rest generalizing last add with
  | nil => simp [pairVals]
  | cons next rest ih =>
    simp only [pairVals, List.length_append, List.length_map, ih, List.length_cons]
    cases add <;> simp [ctrlCols, stateCols, Nat.add_mul] <;> omega

theorem pairLoop_spec (ncols sd use : Nat) (gamma : Rat) (last : List Rat) (rest : List (List Rat))
    (add : Bool) (s : JSt) (hn : 0 < ncols) (hu : use ≤ ncols) (hl : last.length = ncols)
    (hr : ∀ r ∈ rest, r.length = ncols)
    (hs : s.index + (pairVals ncols sd use gamma last rest add).length ≤ s.dest.length) :
    ∃ s', pairLoop ncols sd use gamma last rest add s = some s' ∧
      Wrote s s' (pairVals ncols sd use gamma last rest add) := by
  induction rest generalizing last add s with
  | nil => exact ⟨s, rfl, Wrote.refl s (by simpa [pairVals] using hs)⟩
  | cons next rest ih =>
    have hnl : next.length = ncols := hr next (by simp)
    simp only [pairVals, List.length_append, List.length_map] at hs
    have hlast : ∀ (l : List Rat), l.length = ncols → l.getLast? = some (l.getLastD 0) := by
      intro l hl'
      cases l with
      | nil => simp at hl'; omega
      | cons a t => simp [List.getLastD_eq_getLast?, List.getLast?_eq_some_getLast]
    obtain ⟨s1, h1, w1⟩ := colLoop_spec last ((next.getLastD 0 - last.getLastD 0) * gamma)
      (ctrlCols ncols sd) s (fun c hc => by rw [hl]; exact ctrlCols_lt hc) (by omega)
    have hfit1 : s1.index + (if add then (stateCols use).map
        (fun c => clampSq (last.getD c 0) (next.getLastD 0 - last.getLastD 0)) else []).length ≤ s1.dest.length := by
      rw [w1.index, w1.len]; simp only [List.length_map]; omega
    obtain ⟨s2, h2, w2⟩ : ∃ s2, (if add then colLoop last (next.getLastD 0 - last.getLastD 0) (stateCols use) s1
          else some s1) = some s2 ∧
        Wrote s1 s2 (if add then (stateCols use).map
          (fun c => clampSq (last.getD c 0) (next.getLastD 0 - last.getLastD 0)) else []) := by
      cases add with
      | true =>
        simp only [if_true] at hfit1 ⊢
        exact colLoop_spec last _ (stateCols use) s1
          (fun c hc => by have := stateCols_lt hc; omega) (by simpa using hfit1)
      | false =>
        simp only [Bool.false_eq_true, if_false] at hfit1 ⊢
        exact ⟨s1, rfl, Wrote.refl s1 (by simpa using hfit1)⟩
    obtain ⟨s3, h3, w3⟩ := ih next true s2 hnl (fun r hr' => hr r (by simp [hr']))
      (by rw [w2.index, w2.len, w1.index, w1.len]; simp only [List.length_map]; omega)
    refine ⟨s3, ?_, (w1.trans w2).trans w3⟩
    simp only [pairLoop, hlast next hnl, hlast last hl, Option.bind_eq_bind, Option.bind_some, h1]
    cases add with
    | true => simp only [if_true] at h2 ⊢; rw [h2]; simpa using h3
    | false =>
      simp only [Bool.false_eq_true, if_false, Option.some.injEq] at h2 ⊢
      rw [h2]; exact h3

theorem mapM_id_map_some (l : List Rat) : (l.map some).mapM id = some l := by
  induction l with
  | nil => rfl
  | cons a t ih => simp [List.mapM_cons, ih]

/-- the whole destination is written, nothing else -/
theorem wrote_all {dest : List (Option Rat)} {s' : JSt} {vals : List Rat}
    (h : Wrote ⟨dest, 0⟩ s' vals) (hl : vals.length = dest.length) :
    s'.index = dest.length ∧ s'.dest = vals.map some := by
  refine ⟨by rw [h.index]; simp [hl], ?_⟩
  apply List.ext_getElem?
  intro k
  by_cases hk : k < vals.length
  · have := h.inside k hk
    simp only [Nat.zero_add] at this
    rw [this]; simp [hk]
  · have h1 : s'.dest.length ≤ k := by rw [h.len]; simp only []; omega
    rw [List.getElem?_eq_none h1, List.getElem?_eq_none (by simp; omega)]


/-! ### figure of merit: the documented value -/

theorem range_map_getD_eq_take (l : List Rat) (n : Nat) (h : n ≤ l.length) :
    (List.range n).map (fun k => l.getD k 0) = l.take n := by
  apply List.ext_getElem
  · simp [h]
  · intro i h1 h2
    simp only [List.length_map, List.length_range] at h1
    simp [List.getD_eq_getElem?_getD, List.getElem?_eq_getElem (show i < l.length by omega)]

theorem ctrlCols_vals (last : List Rat) (ncols sd : Nat) (hl : last.length = ncols) :
    (ctrlCols ncols sd).map (fun c => last.getD c 0) = (ctrlPart sd last).reverse := by
  simp only [ctrlCols, List.map_reverse, List.map_map, ctrlPart]
  congr 1
  have h := range_map_getD_eq_take (last.drop sd) (ncols - 1 - sd) (by simp; omega)
  rw [List.dropLast_eq_take, List.length_drop, hl, show ncols - sd - 1 = ncols - 1 - sd by omega, ← h]
  apply List.map_congr_left
  intro k _
  simp [List.getD_eq_getElem?_getD, Nat.add_comm]

theorem stateCols_vals (last : List Rat) (use : Nat) (hu : use ≤ last.length) :
    (stateCols use).map (fun c => last.getD c 0) = (last.take use).reverse := by
  simp only [stateCols, List.map_reverse]
  rw [range_map_getD_eq_take last use hu]

theorem sumSq_reverse (l : List Rat) : sumSq l.reverse = sumSq l := by
  simp [sumSq, List.sum_reverse]

theorem sum_clampSq (last : List Rat) (w : Rat) (cols : List Nat)
    (h : ∀ c ∈ cols, -D100 < last.getD c 0 ∧ last.getD c 0 < D100) :
    (cols.map (fun c => clampSq (last.getD c 0) w)).sum = w * sumSq (cols.map (fun c => last.getD c 0)) := by
  induction cols with
  | nil => simp [sumSq]
  | cons c cs ih =>
    have hc := h c (by simp)
    have := ih (fun c' hc' => h c' (by simp [hc']))
    have h1 : clampSq (last.getD c 0) w = (last.getD c 0 * last.getD c 0) * w := by
      unfold clampSq; rw [if_pos hc]
    rw [List.map_cons, List.sum_cons, this, h1]
    simp only [sumSq, List.map_cons, List.sum_cons]
    ring

theorem getD_mem_or (l : List Rat) (c : Nat) (hc : c < l.length) : l.getD c 0 ∈ l := by
  simp [List.getD_eq_getElem?_getD, List.getElem?_eq_getElem hc]

/-- the documented contribution of the remaining time slices -/
def pairDoc (sd use : Nat) (gamma : Rat) : List Rat → List (List Rat) → Bool → Rat
  | _, [], _ => 0
  | last, next :: rest, add =>
    (next.getLastD 0 - last.getLastD 0) *
        (gamma * sumSq (ctrlPart sd last) + if add then sumSq (last.take use) else 0) +
      pairDoc sd use gamma next rest true

theorem pairVals_sum (ncols sd use : Nat) (gamma : Rat) (last : List Rat) (rest : List (List Rat)) (add : Bool)
    (hu : use ≤ ncols) (hl : last.length = ncols) (hr : ∀ r ∈ rest, r.length = ncols)
    (hb : ∀ r ∈ last :: rest, ∀ v ∈ r, -D100 < v ∧ v < D100) :
    (pairVals ncols sd use gamma last rest add).sum = pairDoc sd use gamma last rest add := by
  induction rest generalizing last add with
  | nil => simp [pairVals, pairDoc]
  | cons next rest ih =>
    have hnl : next.length = ncols := hr next (by simp)
    have hbl : ∀ c, c < ncols → -D100 < last.getD c 0 ∧ last.getD c 0 < D100 :=
      fun c hc => hb last (by simp) _ (getD_mem_or last c (by omega))
    have ih' := ih next true hnl (fun r hr' => hr r (by simp [hr']))
      (fun r hr' => hb r (by simp only [List.mem_cons] at hr' ⊢; tauto))
    simp only [pairVals, pairDoc, List.sum_append, ih']
    rw [sum_clampSq last _ _ (fun c hc => hbl c (ctrlCols_lt hc)), ctrlCols_vals last ncols sd hl, sumSq_reverse]
    cases add with
    | true =>
      simp only [if_true]
      rw [sum_clampSq last _ _ (fun c hc => hbl c (by have := stateCols_lt hc; omega)),
        stateCols_vals last use (by omega), sumSq_reverse]
      ring
    | false => simp; ring

/-- the summand of the documented formula for row `i` of `L`; the state counts from row 1 on
(or from row 0 on when `add`) -/
def docTerm (L : List (List Rat)) (sd use : Nat) (gamma : Rat) (add : Bool) (i : Nat) : Rat :=
  (timeAt L (i + 1) - timeAt L i) *
    (gamma * sumSq (ctrlPart sd (L.getD i [])) +
      (if add = true ∨ 1 ≤ i then sumSq ((L.getD i []).take use) else 0))

theorem pairDoc_eq_range (sd use : Nat) (gamma : Rat) (last : List Rat) (rest : List (List Rat)) (add : Bool) :
    pairDoc sd use gamma last rest add =
      ((List.range rest.length).map (docTerm (last :: rest) sd use gamma add)).sum := by
  induction rest generalizing last add with
  | nil => simp [pairDoc]
  | cons next rest ih =>
    rw [pairDoc, ih next true, List.length_cons, List.range_succ_eq_map, List.map_cons, List.sum_cons,
      List.map_map]
    congr 1
    · simp [docTerm, timeAt]
    · congr 1
      apply List.map_congr_left
      intro i _
      simp [docTerm, timeAt]



/-- a well-formed simulation matrix for the figure of merit: at least one row, all rows of the same
width `ncols`, which has room for the state, at least the time column, and `use ≤ sd` state columns -/
structure OdeWF (ode : List (List Rat)) (ncols sd use : Nat) : Prop where
  rows : ∀ r ∈ ode, r.length = ncols
  nonempty : ode ≠ []
  wide : sd + 1 ≤ ncols
  use_le : use ≤ sd

theorem destSize_eq (m' nc use : Nat) :
    m' * nc + (m' - 1) * use = m' * (nc + use) - use := by
  cases m' with
  | zero => simp
  | succ a => simp [Nat.add_mul, Nat.mul_add]; omega

theorem jCompute_spec (ode : List (List Rat)) (ncols sd use : Nat) (gamma : Rat) (dest : List (Option Rat))
    (hw : OdeWF ode ncols sd use)
    (hd : dest.length = (ode.length - 1) * (ncols - 1 - sd + use) - use) :
    ∃ s', jCompute ode sd use gamma dest = some s' ∧ s'.index = dest.length ∧
      s'.dest = (pairVals ncols sd use gamma (ode.headD []) ode.tail false).map some := by
  obtain ⟨h1, h2, h3, h4⟩ := hw
  cases ode with
  | nil => exact absurd rfl h2
  | cons r0 rest =>
    have hr0 : r0.length = ncols := h1 r0 (by simp)
    have hlen : (pairVals ncols sd use gamma r0 rest false).length = dest.length := by
      rw [pairVals_length, hd]
      simp only [Bool.false_eq_true, if_false, List.length_cons, Nat.add_sub_cancel]
      exact destSize_eq _ _ _
    obtain ⟨s', hs, hw'⟩ := pairLoop_spec ncols sd use gamma r0 rest false ⟨dest, 0⟩ (by omega) (by omega) hr0
      (fun r hr => h1 r (by simp [hr])) (by simp [hlen])
    obtain ⟨hi, hdst⟩ := wrote_all hw' hlen
    exact ⟨s', by simp [jCompute, hr0, hs], hi, by simpa using hdst⟩

theorem clampSq_nonneg (v w : Rat) (hw : 0 ≤ w) : 0 ≤ clampSq v w := by
  unfold clampSq
  split
  · exact mul_nonneg (mul_self_nonneg v) hw
  · unfold D100; positivity

theorem pairVals_nonneg (ncols sd use : Nat) (gamma : Rat) (hg : 0 ≤ gamma) (last : List Rat)
    (rest : List (List Rat)) (add : Bool)
    (hinc : ((last :: rest).map (fun r => r.getLastD 0)).Pairwise (· ≤ ·)) :
    ∀ x ∈ pairVals ncols sd use gamma last rest add, 0 ≤ x := by
  induction rest generalizing last add with
  | nil => simp [pairVals]
  | cons next rest ih =>
    simp only [List.map_cons, List.pairwise_cons] at hinc
    have hw : 0 ≤ next.getLastD 0 - last.getLastD 0 := by
      have := hinc.1 (next.getLastD 0) (by simp); linarith
    intro x hx
    simp only [pairVals, List.mem_append] at hx
    rcases hx with (hx | hx) | hx
    · obtain ⟨c, _, rfl⟩ := List.mem_map.mp hx
      exact clampSq_nonneg _ _ (by positivity)
    · cases add with
      | true =>
        simp only [if_true] at hx
        obtain ⟨c, _, rfl⟩ := List.mem_map.mp hx
        exact clampSq_nonneg _ _ hw
      | false => simp at hx
    · exact ih next true (by simpa using hinc.2) x hx

theorem timeAt_last (ode : List (List Rat)) (h : ode ≠ []) :
    tFromOde ode = some (timeAt ode (ode.length - 1)) ∨ (ode.getLast h) = [] := by
  by_cases he : ode.getLast h = []
  · exact Or.inr he
  · left
    simp only [tFromOde, timeAt, List.getLast?_eq_some_getLast h, Option.bind_some]
    have : ode.getD (ode.length - 1) [] = ode.getLast h := by
      rw [List.getLast_eq_getElem]
      have hl : ode.length - 1 < ode.length := by have := List.length_pos_of_ne_nil h; omega
      simp [List.getD_eq_getElem?_getD, List.getElem?_eq_getElem hl]
    rw [this, List.getLastD_eq_getLast?, List.getLast?_eq_some_getLast he]
    rfl

/-- `j_from_ode` on a well-formed matrix with at least two rows -/
theorem jFromOde_eq (ode : List (List Rat)) (ncols sd : Nat) (useArg : Int) (gamma : Rat)
    (hw : OdeWF ode ncols sd (if useArg ≤ 0 then sd else useArg.toNat)) (hm : 2 ≤ ode.length) :
    jFromOde ode sd useArg gamma =
      if timeAt ode (ode.length - 1) = 0 then .div0 else
      .val ((pairVals ncols sd (if useArg ≤ 0 then sd else useArg.toNat) gamma (ode.headD []) ode.tail false).sum
        / timeAt ode (ode.length - 1)) := by
  generalize huse : (if useArg ≤ 0 then sd else useArg.toNat) = use at hw
  have hnc : (ode.headD []).length = ncols := by
    cases ode with
    | nil => simp at hm
    | cons r0 rest => exact hw.rows r0 (by simp)
  have hsz : (((ode.length : Int) - 1) * ((ncols : Int) - 1 - sd + use) - use) =
      (((ode.length - 1) * (ncols - 1 - sd + use) - use : Nat) : Int) := by
    obtain ⟨a, ha⟩ : ∃ a, ode.length = a + 2 := ⟨ode.length - 2, by omega⟩
    obtain ⟨nc, hnc'⟩ : ∃ nc, ncols = sd + 1 + nc := ⟨ncols - sd - 1, by have := hw.wide; omega⟩
    rw [ha, hnc']
    have e1 : a + 2 - 1 = a + 1 := by omega
    have e2 : sd + 1 + nc - 1 - sd = nc := by omega
    rw [e1, e2, Nat.add_mul, Nat.one_mul, Nat.add_sub_assoc (by omega)]
    push_cast
    rw [Nat.cast_sub (by omega)]
    push_cast
    ring
  obtain ⟨s', hs, _, hdst⟩ := jCompute_spec ode ncols sd use gamma
    (List.replicate ((ode.length - 1) * (ncols - 1 - sd + use) - use) none) hw (by simp)
  have hT : tFromOde ode = some (timeAt ode (ode.length - 1)) := by
    have hne : ode ≠ [] := hw.nonempty
    rcases timeAt_last ode hne with h | h
    · exact h
    · have := hw.rows _ (List.getLast_mem hne)
      rw [h] at this; simp at this; have := hw.wide; omega
  unfold jFromOde
  rw [if_neg (by omega)]
  simp only [huse, hnc, hsz]
  rw [if_neg (by omega), Int.toNat_natCast, hs]
  simp only [hdst, destSum, mapM_id_map_some, Option.map_some, hT]


theorem timeAt_eq (L : List (List Rat)) (i : Nat) (h : i < L.length) : timeAt L i = (L[i]).getLastD 0 := by
  simp [timeAt, List.getD_eq_getElem?_getD, List.getElem?_eq_getElem h]

theorem docJ_eq_pairDoc (r0 : List Rat) (rest : List (List Rat)) (sd use : Nat) (gamma : Rat) :
    docJ (r0 :: rest) sd use gamma =
      pairDoc sd use gamma r0 rest false / timeAt (r0 :: rest) ((r0 :: rest).length - 1) := by
  rw [pairDoc_eq_range, docJ]
  congr 2
  simp only [List.length_cons, Nat.add_sub_cancel]
  apply List.map_congr_left
  intro i _
  simp [docTerm]

theorem runFrom_trace_head (e : Env) (cycle : Nat) (mt : Rat) :
    ((runFrom e cycle mt).trace.head?).map (·.maxTime) = some mt := by
  fun_induction runFrom e cycle mt <;> simp_all <;> rfl

theorem failRow_isFailure (e : Env) : IsFailureRow e.start e.cdim (failRow e) := by
  have h1 := stateOf_row e.start (List.replicate e.cdim (V.fin D100)) (V.fin 0)
  have h2 := controlOf_row e.start (List.replicate e.cdim (V.fin D100)) (V.fin 0)
  rw [List.length_replicate] at h2
  refine ⟨by simp [failRow]; omega, h1, ?_, timeOf_row _ _ _⟩
  intro v hv
  simp only [failRow] at hv
  rw [h2] at hv
  exact (List.mem_replicate.mp hv).2

theorem GoodRows.mono {start : List V} {cdim steps : Nat} {ctrl : List V → V → List V} {a b : Rat}
    {rs : List (List V)} (h : GoodRows start cdim steps ctrl a rs) (hab : a ≤ b) :
    GoodRows start cdim steps ctrl b rs :=
  ⟨h.count, h.width, h.first, h.time0, h.increasing,
    fun r hr => by obtain ⟨x, h1, h2⟩ := h.limited r hr; exact ⟨x, h1, le_trans h2 hab⟩,
    h.bounded, h.control⟩

theorem evals_isOk (s : FSt) (evs : List Eval) : (s.evals evs).isOk = (s.isOk && evs.all Eval.ok) := by
  induction evs generalizing s with
  | nil => simp [FSt.evals]
  | cons ev rest ih =>
    simp only [FSt.evals, List.foldl_cons, List.all_cons] at ih ⊢
    rw [ih]
    unfold FSt.eval Eval.ok
    by_cases h : (rowOk ev.ctrl && rowOk ev.out) = true
    · simp only [h, if_true]; split <;> simp
    · simp only [h]; simp

end Ode
