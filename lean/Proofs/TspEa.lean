import Model.TspEa
import Proofs.Tsp
/-! Helper lemmas for C06 (core Lean only). -/
namespace TspEa
open Tsp ListLemmas

/-! ### path sums -/

/-- a path through `a` = the path up to `a` plus the path from `a` -/
theorem pathSum_glue (d : Matrix) (L1 : List Nat) (a : Nat) (L2 : List Nat) :
    pathSum d (L1 ++ a :: L2) = pathSum d (L1 ++ [a]) + pathSum d (a :: L2) := by
  induction L1 with
  | nil => simp [pathSum]
  | cons b r ih =>
    cases r with
    | nil => simp [pathSum]
    | cons c r' =>
      simp only [List.cons_append, pathSum] at ih ⊢
      omega

theorem pathSum_snoc (d : Matrix) (L : List Nat) (p s : Nat) :
    pathSum d (L ++ [p, s]) = pathSum d (L ++ [p]) + entry d p s := by
  have := pathSum_glue d L p [s]
  simpa [pathSum] using this

theorem pathSum_pair_cons (d : Matrix) (t q : Nat) (Q : List Nat) :
    pathSum d (t :: q :: Q) = entry d t q + pathSum d (q :: Q) := by simp [pathSum]

/-- on a symmetric matrix a path and its reversal have the same length -/
theorem pathSum_reverse (d : Matrix) (L : List Nat)
    (hs : ∀ a ∈ L, ∀ b ∈ L, entry d a b = entry d b a) :
    pathSum d L.reverse = pathSum d L := by
  induction L with
  | nil => rfl
  | cons a t ih =>
    cases t with
    | nil => rfl
    | cons b r =>
      have ih' := ih (fun u hu v hv => hs u (List.mem_cons_of_mem _ hu) v (List.mem_cons_of_mem _ hv))
      have e : (a :: b :: r).reverse = r.reverse ++ [b, a] := by simp
      rw [e, pathSum_snoc]
      have e2 : r.reverse ++ [b] = (b :: r).reverse := by simp
      rw [e2, ih', pathSum_pair_cons, hs b (by simp) a (by simp)]
      omega

theorem getLastD_append_cons (L : List Nat) (a : Nat) (R : List Nat) (z : Nat) :
    (L ++ a :: R).getLastD z = (a :: R).getLastD z := by
  have h : (a :: R).getLast? = some ((a :: R).getLast (by simp)) := List.getLast?_eq_some_getLast _
  simp [List.getLastD_eq_getLast?, List.getLast?_append, h]

theorem headD_append_cons (a : Nat) (L R : List Nat) (z : Nat) :
    ((a :: L) ++ R).headD z = a := by simp


theorem split2 (d : Matrix) (s : Nat) (M : List Nat) (t : Nat) (R : List Nat) :
    pathSum d (s :: M ++ t :: R) = pathSum d (s :: M ++ [t]) + pathSum d (t :: R) :=
  pathSum_glue d (s :: M) t R

theorem split3 (d : Matrix) (L : List Nat) (p s : Nat) (M : List Nat) (t : Nat) (R : List Nat) :
    pathSum d (L ++ p :: s :: M ++ t :: R)
      = pathSum d (L ++ [p]) + entry d p s + pathSum d (s :: M ++ [t]) + pathSum d (t :: R) := by
  have e : L ++ p :: s :: M ++ t :: R = (L ++ [p]) ++ s :: (M ++ t :: R) := by simp
  rw [e, pathSum_glue, List.append_assoc]
  have e2 : [p] ++ [s] = [p, s] := rfl
  rw [e2, pathSum_snoc]
  have := split2 d s M t R
  simp only [List.cons_append] at this ⊢
  omega

/-- the reversed segment has the same inner path length (symmetric matrix) -/
theorem seg_reverse (d : Matrix) (s : Nat) (M : List Nat) (t : Nat)
    (hs : ∀ a ∈ s :: M ++ [t], ∀ b ∈ s :: M ++ [t], entry d a b = entry d b a) :
    pathSum d (t :: M.reverse ++ [s]) = pathSum d (s :: M ++ [t]) := by
  have e : t :: M.reverse ++ [s] = (s :: M ++ [t]).reverse := by simp
  rw [e]; exact pathSum_reverse d _ hs

/-- segment strictly inside the array: `x = P ++ [p] ++ S ++ q :: Q` -/
theorem core_mid (d : Matrix) (P : List Nat) (p s : Nat) (M : List Nat) (t q : Nat) (Q : List Nat)
    (hs : ∀ a ∈ s :: M ++ [t], ∀ b ∈ s :: M ++ [t], entry d a b = entry d b a) :
    cyclicSum d (P ++ p :: t :: M.reverse ++ s :: q :: Q)
      = cyclicSum d (P ++ p :: s :: M ++ t :: q :: Q)
        + (entry d p t + entry d s q - entry d p s - entry d t q) := by
  unfold cyclicSum
  rw [split3 d P p t M.reverse s, split3 d P p s M t, seg_reverse d s M t hs]
  have l1 : (P ++ p :: t :: M.reverse ++ s :: q :: Q).getLastD 0 = (q :: Q).getLastD 0 := by
    have e : P ++ p :: t :: M.reverse ++ s :: q :: Q = (P ++ p :: t :: M.reverse ++ [s]) ++ q :: Q := by simp
    rw [e, getLastD_append_cons]
  have l2 : (P ++ p :: s :: M ++ t :: q :: Q).getLastD 0 = (q :: Q).getLastD 0 := by
    have e : P ++ p :: s :: M ++ t :: q :: Q = (P ++ p :: s :: M ++ [t]) ++ q :: Q := by simp
    rw [e, getLastD_append_cons]
  have h1 : (P ++ p :: t :: M.reverse ++ s :: q :: Q).headD 0 = (P ++ p :: s :: M ++ t :: q :: Q).headD 0 := by
    cases P <;> simp
  rw [l1, l2, h1, pathSum_pair_cons, pathSum_pair_cons]
  omega

/-- segment starts at position 0: `x = S ++ q :: Q`, `x[-1]` is the last element of `q :: Q` -/
theorem core_left (d : Matrix) (s : Nat) (M : List Nat) (t q : Nat) (Q : List Nat)
    (hs : ∀ a ∈ s :: M ++ [t], ∀ b ∈ s :: M ++ [t], entry d a b = entry d b a) :
    cyclicSum d (t :: M.reverse ++ s :: q :: Q)
      = cyclicSum d (s :: M ++ t :: q :: Q)
        + (entry d ((q :: Q).getLastD 0) t + entry d s q - entry d ((q :: Q).getLastD 0) s - entry d t q) := by
  unfold cyclicSum
  rw [split2 d t M.reverse s, split2 d s M t, seg_reverse d s M t hs]
  have l1 : (t :: M.reverse ++ s :: q :: Q).getLastD 0 = (q :: Q).getLastD 0 := by
    have e : t :: M.reverse ++ s :: q :: Q = (t :: M.reverse ++ [s]) ++ q :: Q := by simp
    rw [e, getLastD_append_cons]
  have l2 : (s :: M ++ t :: q :: Q).getLastD 0 = (q :: Q).getLastD 0 := by
    have e : s :: M ++ t :: q :: Q = (s :: M ++ [t]) ++ q :: Q := by simp
    rw [e, getLastD_append_cons]
  rw [l1, l2, pathSum_pair_cons, pathSum_pair_cons]
  simp only [List.cons_append, List.headD_cons]
  omega

/-- segment ends at the last position: `x = P ++ [p] ++ S`, `x[(j+1) % n] = x[0]` -/
theorem core_right (d : Matrix) (P : List Nat) (p s : Nat) (M : List Nat) (t : Nat)
    (hs : ∀ a ∈ s :: M ++ [t], ∀ b ∈ s :: M ++ [t], entry d a b = entry d b a) :
    cyclicSum d (P ++ p :: t :: M.reverse ++ [s])
      = cyclicSum d (P ++ p :: s :: M ++ [t])
        + (entry d p t + entry d s ((P ++ [p]).headD 0) - entry d p s - entry d t ((P ++ [p]).headD 0)) := by
  unfold cyclicSum
  rw [split3 d P p t M.reverse s, split3 d P p s M t, seg_reverse d s M t hs]
  have l1 : (P ++ p :: t :: M.reverse ++ [s]).getLastD 0 = s := by
    have e : P ++ p :: t :: M.reverse ++ [s] = (P ++ p :: t :: M.reverse) ++ [s] := by simp
    rw [e, getLastD_append_cons]; rfl
  have l2 : (P ++ p :: s :: M ++ [t]).getLastD 0 = t := by
    have e : P ++ p :: s :: M ++ [t] = (P ++ p :: s :: M) ++ [t] := by simp
    rw [e, getLastD_append_cons]; rfl
  have h1 : (P ++ p :: t :: M.reverse ++ [s]).headD 0 = (P ++ [p]).headD 0 := by cases P <;> simp
  have h2 : (P ++ p :: s :: M ++ [t]).headD 0 = (P ++ [p]).headD 0 := by cases P <;> simp
  rw [l1, l2, h1, h2]
  simp only [pathSum]
  omega


/-! ### reading the model's accessors on a decomposed tour -/

theorem entry?_some {d : Matrix} {a b : Nat} {v : Int} (h : entry? d a b = some v) : entry d a b = v := by
  unfold entry? at h
  unfold entry
  cases hr : d[a]? with
  | none => simp [hr] at h
  | some row =>
    simp only [hr, Option.bind_some] at h
    simp [List.getD_eq_getElem?_getD, hr, h]

theorem entry?_of_square {d : Matrix} {n a b : Nat} (hd : Square d n) (ha : a < n) (hb : b < n) :
    entry? d a b = some (entry d a b) := by
  obtain ⟨h1, h2⟩ := hd
  have hlt : a < d.length := by omega
  have hrow : (d[a]).length = n := h2 _ (List.getElem_mem hlt)
  simp [entry?, entry, List.getElem?_eq_getElem hlt, List.getD_eq_getElem?_getD,
    List.getElem?_eq_getElem (show b < (d[a]).length by omega)]

theorem getElem?_at (L : List Nat) (a : Nat) (R : List Nat) (k : Nat) (h : k = L.length) :
    (L ++ a :: R)[k]? = some a := by subst h; simp

theorem getW?_zero (x : List Nat) : getW? x (((0 : Nat) : Int) - 1) = x.getLast? := by
  unfold getW? wrapIdx
  cases x with
  | nil => simp
  | cons a r =>
    have h1 : ¬ (0 : Int) ≤ ((0 : Nat) : Int) - 1 := by omega
    have h2 : (0 : Int) ≤ ((0 : Nat) : Int) - 1 + ((a :: r).length : Int) := by simp; omega
    simp only [h1, h2, if_false, if_true, Option.bind_some]
    rw [List.getLast?_eq_getElem?]
    congr 1
    simp; omega

theorem getW?_succ (x : List Nat) (i : Nat) : getW? x (((i + 1 : Nat) : Int) - 1) = x[i]? := by
  unfold getW? wrapIdx
  have h1 : (0 : Int) ≤ ((i + 1 : Nat) : Int) - 1 := by omega
  simp only [h1, if_true]
  by_cases h : i < x.length
  · have h2 : ((i + 1 : Nat) : Int) - 1 < (x.length : Int) := by omega
    simp only [h2, if_true, Option.bind_some]
    congr 1; omega
  · have h2 : ¬ ((i + 1 : Nat) : Int) - 1 < (x.length : Int) := by omega
    simp only [h2, if_false, Option.bind_none]
    rw [List.getElem?_eq_none (by omega)]

/-- every tour with `i < j < length` splits around the segment `[i, j]` -/
theorem decomp (x : List Nat) (i j : Nat) (hij : i < j) (hj : j < x.length) :
    ∃ A s M t B, x = A ++ s :: M ++ t :: B ∧ A.length = i ∧ A.length + M.length + 1 = j := by
  have hi : i < x.length := by omega
  have h1 : x.drop i = x[i] :: x.drop (i + 1) := List.drop_eq_getElem_cons hi
  have hk : j - i - 1 < (x.drop (i + 1)).length := by simp; omega
  have h2 : (x.drop (i + 1)).drop (j - i - 1)
      = (x.drop (i + 1))[j - i - 1] :: (x.drop (i + 1)).drop (j - i - 1 + 1) :=
    List.drop_eq_getElem_cons hk
  refine ⟨x.take i, x[i], (x.drop (i + 1)).take (j - i - 1), (x.drop (i + 1))[j - i - 1],
    (x.drop (i + 1)).drop (j - i - 1 + 1), ?_, ?_, ?_⟩
  · have e1 : x = x.take i ++ x.drop i := (List.take_append_drop i x).symm
    have e2 : x.drop (i + 1) = (x.drop (i + 1)).take (j - i - 1) ++ (x.drop (i + 1)).drop (j - i - 1) :=
      (List.take_append_drop _ _).symm
    calc x = x.take i ++ x.drop i := e1
      _ = x.take i ++ (x[i] :: x.drop (i + 1)) := by rw [h1]
      _ = x.take i ++ (x[i] :: ((x.drop (i + 1)).take (j - i - 1) ++ (x.drop (i + 1)).drop (j - i - 1))) := by rw [← e2]
      _ = _ := by rw [h2]; simp
  · simp; omega
  · simp; omega

theorem applyRev_eq_sliceI (x : List Nat) (i j : Nat) : applyRev x i j = sliceI x i j := by
  unfold applyRev
  split
  · next h => subst h; simp [slice0, sliceI]
  · rfl

theorem applyRev_decomp (A : List Nat) (s : Nat) (M : List Nat) (t : Nat) (B : List Nat) (i j : Nat)
    (hi : A.length = i) (hj : A.length + M.length + 1 = j) :
    applyRev (A ++ s :: M ++ t :: B) i j = A ++ t :: M.reverse ++ s :: B := by
  rw [applyRev_eq_sliceI]
  unfold sliceI
  have hle : i ≤ j := by omega
  simp only [hle, if_true]
  have e : A ++ s :: M ++ t :: B = (A ++ s :: M ++ [t]) ++ B := by simp
  have hl : (A ++ s :: M ++ [t]).length = j + 1 := by simp; omega
  have ht : (A ++ s :: M ++ t :: B).take (j + 1) = A ++ s :: M ++ [t] := by
    rw [e]; exact List.take_left' hl
  have hd : (A ++ s :: M ++ t :: B).drop (j + 1) = B := by
    rw [e]; exact List.drop_left' hl
  have hti : (A ++ s :: M ++ t :: B).take i = A := by
    have e' : A ++ s :: M ++ t :: B = A ++ (s :: M ++ t :: B) := by simp
    rw [e']; exact List.take_left' hi
  have hdi : (A ++ s :: M ++ [t]).drop i = s :: M ++ [t] := by
    have e' : A ++ s :: M ++ [t] = A ++ (s :: M ++ [t]) := by simp
    rw [e']; exact List.drop_left' hi
  rw [ht, hd, hti, hdi]
  simp


/-- the code's formula on the four cities it reads -/
def deltaT (d : Matrix) (a xi xj b : Nat) : Int :=
  entry d a xj + entry d xi b - entry d a xi - entry d xj b

theorem delta?_val {i j n : Nat} {d : Matrix} {x : List Nat} {xi a xj b : Nat} {dy : Int}
    (hxi : x[i]? = some xi) (ha : getW? x ((i : Int) - 1) = some a) (hxj : x[j]? = some xj)
    (hb : x[(j + 1) % n]? = some b) (h : delta? i j n d x = some dy) : dy = deltaT d a xi xj b := by
  unfold delta? at h
  simp only [hxi, ha, hxj, Option.bind_eq_bind, Option.bind_some] at h
  split at h
  · simp at h
  · simp only [hb, Option.bind_some] at h
    cases h1 : entry? d a xj with
    | none => simp [h1] at h
    | some v1 =>
      cases h2 : entry? d xi b with
      | none => simp [h1, h2] at h
      | some v2 =>
        cases h3 : entry? d a xi with
        | none => simp [h1, h2, h3] at h
        | some v3 =>
          cases h4 : entry? d xj b with
          | none => simp [h1, h2, h3, h4] at h
          | some v4 =>
            simp [h1, h2, h3, h4] at h
            unfold deltaT
            rw [entry?_some h1, entry?_some h2, entry?_some h3, entry?_some h4]
            omega

theorem delta?_ok {i j n m : Nat} {d : Matrix} {x : List Nat} {xi a xj b : Nat}
    (hxi : x[i]? = some xi) (ha : getW? x ((i : Int) - 1) = some a) (hxj : x[j]? = some xj)
    (hn : n ≠ 0) (hb : x[(j + 1) % n]? = some b) (hd : Square d m)
    (h1 : xi < m) (h2 : a < m) (h3 : xj < m) (h4 : b < m) :
    delta? i j n d x = some (deltaT d a xi xj b) := by
  unfold delta?
  simp only [hxi, ha, hxj, Option.bind_eq_bind, Option.bind_some, hn, if_false, hb,
    entry?_of_square hd h2 h3, entry?_of_square hd h1 h4, entry?_of_square hd h2 h1,
    entry?_of_square hd h3 h4]
  rfl


/-- the four reads of the kernel and the true change of the tour length, for every admissible
index pair: `i < j < n`, not the whole array -/
theorem delta_core (d : Matrix) (x : List Nat) (i j n : Nat) (hlen : x.length = n)
    (hij : i < j) (hj : j < n) (hne : ¬(i = 0 ∧ j + 1 = n))
    (hs : ∀ a ∈ x, ∀ b ∈ x, entry d a b = entry d b a) :
    ∃ xi a xj b, x[i]? = some xi ∧ getW? x ((i : Int) - 1) = some a ∧ x[j]? = some xj ∧
      x[(j + 1) % n]? = some b ∧ xi ∈ x ∧ a ∈ x ∧ xj ∈ x ∧ b ∈ x ∧
      cyclicSum d (applyRev x i j) = cyclicSum d x + deltaT d a xi xj b := by
  obtain ⟨A, s, M, t, B, rfl, hi, hjj⟩ := decomp x i j hij (by omega)
  have hs' : ∀ a ∈ s :: M ++ [t], ∀ b ∈ s :: M ++ [t], entry d a b = entry d b a := by
    intro a ha b hb
    apply hs
    · simp at ha ⊢; rcases ha with h | h | h <;> simp [h]
    · simp at hb ⊢; rcases hb with h | h | h <;> simp [h]
  rw [applyRev_decomp A s M t B i j hi hjj]
  have hxj : (A ++ s :: M ++ t :: B)[j]? = some t := by
    have e : A ++ s :: M ++ t :: B = (A ++ s :: M) ++ t :: B := by simp
    rw [e]; exact getElem?_at _ _ _ _ (by simp; omega)
  have hxi : (A ++ s :: M ++ t :: B)[i]? = some s := by
    have e : A ++ s :: M ++ t :: B = A ++ s :: (M ++ t :: B) := by simp
    rw [e]; exact getElem?_at _ _ _ _ hi.symm
  rcases List.eq_nil_or_concat A with hA | ⟨P, p, hA⟩
  · -- segment starts at 0
    subst hA
    simp at hi; subst hi
    cases B with
    | nil => exfalso; apply hne; simp at hlen hjj; omega
    | cons q Q =>
      have hmod : (j + 1) % n = j + 1 := Nat.mod_eq_of_lt (by simp at hlen hjj; omega)
      refine ⟨s, (q :: Q).getLastD 0, t, q, hxi, ?_, hxj, ?_, by simp, ?_, by simp, by simp, ?_⟩
      · rw [getW?_zero]
        have e : [] ++ s :: M ++ t :: q :: Q = (s :: M ++ [t]) ++ q :: Q := by simp
        rw [e, List.getLast?_eq_some_getLast (by simp)]
        simp [List.getLastD_eq_getLast?, List.getLast?_eq_some_getLast, List.getLast_append]
      · rw [hmod]
        have e : [] ++ s :: M ++ t :: q :: Q = (s :: M ++ [t]) ++ q :: Q := by simp
        rw [e]; exact getElem?_at _ _ _ _ (by simp; simp at hjj; omega)
      · have : (q :: Q).getLastD 0 ∈ q :: Q := by
          simp only [List.getLastD_eq_getLast?, List.getLast?_eq_some_getLast (l := q :: Q) (by simp),
            Option.getD_some]
          exact List.getLast_mem _
        simp only [List.nil_append, List.mem_append, List.mem_cons] at this ⊢
        rcases this with h | h
        · exact Or.inr (Or.inr (Or.inl h))
        · exact Or.inr (Or.inr (Or.inr h))
      · have := core_left d s M t q Q hs'
        simp only [List.nil_append]
        rw [this]; unfold deltaT; omega
  · subst hA
    have hi' : i = P.length + 1 := by simp at hi; omega
    have hxa : getW? (P ++ [p] ++ s :: M ++ t :: B) ((i : Int) - 1) = some p := by
      rw [hi', getW?_succ]
      have e : P ++ [p] ++ s :: M ++ t :: B = P ++ p :: (s :: M ++ t :: B) := by simp
      rw [e]; exact getElem?_at _ _ _ _ rfl
    cases B with
    | nil =>
      have hn : j + 1 = n := by simp at hlen hjj; omega
      have hmod : (j + 1) % n = 0 := by rw [hn]; exact Nat.mod_self n
      refine ⟨s, p, t, (P ++ [p]).headD 0, hxi, hxa, hxj, ?_, by simp, by simp, by simp, ?_, ?_⟩
      · rw [hmod]; cases P <;> simp
      · cases P <;> simp
      · have := core_right d P p s M t hs'
        have e1 : P ++ [p] ++ t :: M.reverse ++ [s] = P ++ p :: t :: M.reverse ++ [s] := by simp
        have e2 : P ++ [p] ++ s :: M ++ [t] = P ++ p :: s :: M ++ [t] := by simp
        rw [e1, e2, this]; unfold deltaT; omega
    | cons q Q =>
      have hmod : (j + 1) % n = j + 1 := Nat.mod_eq_of_lt (by simp at hlen hjj; omega)
      refine ⟨s, p, t, q, hxi, hxa, hxj, ?_, by simp, by simp, by simp, by simp, ?_⟩
      · rw [hmod]
        have e : P ++ [p] ++ s :: M ++ t :: q :: Q = (P ++ [p] ++ s :: M ++ [t]) ++ q :: Q := by simp
        rw [e]; exact getElem?_at _ _ _ _ (by simp; simp at hjj; omega)
      · have := core_mid d P p s M t q Q hs'
        have e1 : P ++ [p] ++ t :: M.reverse ++ s :: q :: Q = P ++ p :: t :: M.reverse ++ s :: q :: Q := by simp
        have e2 : P ++ [p] ++ s :: M ++ t :: q :: Q = P ++ p :: s :: M ++ t :: q :: Q := by simp
        rw [e1, e2, this]; unfold deltaT; omega

end TspEa
