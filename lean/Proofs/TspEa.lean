import Model.TspEa
import Proofs.Tsp
/-! Helper lemmas for C06 (core Lean only). -/
namespace TspEa
open Tsp ListLemmas

/-! ### path sums -/

/-- a path through `a` = the path up to `a` plus the path from `a` -/
theorem pathSum_glue (d : Matrix) (L1 : List Nat) (a : Nat) (L2 : List Nat) :
    pathSum d (L1 ++ a :: L2) = pathSum d (L1 ++ [a]) + pathSum d (a :: L2) := by
  induction L1 with
  | nil => simp [pathSum]
  | cons b r ih =>
    cases r with
    | nil => simp [pathSum]
    | cons c r' =>
      simp only [List.cons_append, pathSum] at ih ⊢
      omega

theorem pathSum_snoc (d : Matrix) (L : List Nat) (p s : Nat) :
    pathSum d (L ++ [p, s]) = pathSum d (L ++ [p]) + entry d p s := by
  have := pathSum_glue d L p [s]
  simpa [pathSum] using this

theorem pathSum_pair_cons (d : Matrix) (t q : Nat) (Q : List Nat) :
    pathSum d (t :: q :: Q) = entry d t q + pathSum d (q :: Q) := by simp [pathSum]

/-- on a symmetric matrix a path and its reversal have the same length -/
theorem pathSum_reverse (d : Matrix) (L : List Nat)
    (hs : ∀ a ∈ L, ∀ b ∈ L, entry d a b = entry d b a) :
    pathSum d L.reverse = pathSum d L := by
  induction L with
  | nil => rfl
  | cons a t ih =>
    cases t with
    | nil => rfl
    | cons b r =>
      have ih' := ih (fun u hu v hv => hs u (List.mem_cons_of_mem _ hu) v (List.mem_cons_of_mem _ hv))
      have e : (a :: b :: r).reverse = r.reverse ++ [b, a] := by simp
      rw [e, pathSum_snoc]
      have e2 : r.reverse ++ [b] = (b :: r).reverse := by simp
      rw [e2, ih', pathSum_pair_cons, hs b (by simp) a (by simp)]
      omega

theorem getLastD_append_cons (L : List Nat) (a : Nat) (R : List Nat) (z : Nat) :
    (L ++ a :: R).getLastD z = (a :: R).getLastD z := by
  have h : (a :: R).getLast? = some ((a :: R).getLast (by simp)) := List.getLast?_eq_some_getLast _
  simp [List.getLastD_eq_getLast?, List.getLast?_append, h]

theorem headD_append_cons (a : Nat) (L R : List Nat) (z : Nat) :
    ((a :: L) ++ R).headD z = a := by simp


theorem split2 (d : Matrix) (s : Nat) (M : List Nat) (t : Nat) (R : List Nat) :
    pathSum d (s :: M ++ t :: R) = pathSum d (s :: M ++ [t]) + pathSum d (t :: R) :=
  pathSum_glue d (s :: M) t R

theorem split3 (d : Matrix) (L : List Nat) (p s : Nat) (M : List Nat) (t : Nat) (R : List Nat) :
    pathSum d (L ++ p :: s :: M ++ t :: R)
      = pathSum d (L ++ [p]) + entry d p s + pathSum d (s :: M ++ [t]) + pathSum d (t :: R) := by
  have e : L ++ p :: s :: M ++ t :: R = (L ++ [p]) ++ s :: (M ++ t :: R) := by simp
  rw [e, pathSum_glue, List.append_assoc]
  have e2 : [p] ++ [s] = [p, s] := rfl
  rw [e2, pathSum_snoc]
  have := split2 d s M t R
  simp only [List.cons_append] at this ⊢
  omega

/-- the reversed segment has the same inner path length (symmetric matrix) -/
theorem seg_reverse (d : Matrix) (s : Nat) (M : List Nat) (t : Nat)
    (hs : ∀ a ∈ s :: M ++ [t], ∀ b ∈ s :: M ++ [t], entry d a b = entry d b a) :
    pathSum d (t :: M.reverse ++ [s]) = pathSum d (s :: M ++ [t]) := by
  have e : t :: M.reverse ++ [s] = (s :: M ++ [t]).reverse := by simp
  rw [e]; exact pathSum_reverse d _ hs

/-- segment strictly inside the array: `x = P ++ [p] ++ S ++ q :: Q` -/
theorem core_mid (d : Matrix) (P : List Nat) (p s : Nat) (M : List Nat) (t q : Nat) (Q : List Nat)
    (hs : ∀ a ∈ s :: M ++ [t], ∀ b ∈ s :: M ++ [t], entry d a b = entry d b a) :
    cyclicSum d (P ++ p :: t :: M.reverse ++ s :: q :: Q)
      = cyclicSum d (P ++ p :: s :: M ++ t :: q :: Q)
        + (entry d p t + entry d s q - entry d p s - entry d t q) := by
  unfold cyclicSum
  rw [split3 d P p t M.reverse s, split3 d P p s M t, seg_reverse d s M t hs]
  have l1 : (P ++ p :: t :: M.reverse ++ s :: q :: Q).getLastD 0 = (q :: Q).getLastD 0 := by
    have e : P ++ p :: t :: M.reverse ++ s :: q :: Q = (P ++ p :: t :: M.reverse ++ [s]) ++ q :: Q := by simp
    rw [e, getLastD_append_cons]
  have l2 : (P ++ p :: s :: M ++ t :: q :: Q).getLastD 0 = (q :: Q).getLastD 0 := by
    have e : P ++ p :: s :: M ++ t :: q :: Q = (P ++ p :: s :: M ++ [t]) ++ q :: Q := by simp
    rw [e, getLastD_append_cons]
  have h1 : (P ++ p :: t :: M.reverse ++ s :: q :: Q).headD 0 = (P ++ p :: s :: M ++ t :: q :: Q).headD 0 := by
    cases P <;> simp
  rw [l1, l2, h1, pathSum_pair_cons, pathSum_pair_cons]
  omega

/-- segment starts at position 0: `x = S ++ q :: Q`, `x[-1]` is the last element of `q :: Q` -/
theorem core_left (d : Matrix) (s : Nat) (M : List Nat) (t q : Nat) (Q : List Nat)
    (hs : ∀ a ∈ s :: M ++ [t], ∀ b ∈ s :: M ++ [t], entry d a b = entry d b a) :
    cyclicSum d (t :: M.reverse ++ s :: q :: Q)
      = cyclicSum d (s :: M ++ t :: q :: Q)
        + (entry d ((q :: Q).getLastD 0) t + entry d s q - entry d ((q :: Q).getLastD 0) s - entry d t q) := by
  unfold cyclicSum
  rw [split2 d t M.reverse s, split2 d s M t, seg_reverse d s M t hs]
  have l1 : (t :: M.reverse ++ s :: q :: Q).getLastD 0 = (q :: Q).getLastD 0 := by
    have e : t :: M.reverse ++ s :: q :: Q = (t :: M.reverse ++ [s]) ++ q :: Q := by simp
    rw [e, getLastD_append_cons]
  have l2 : (s :: M ++ t :: q :: Q).getLastD 0 = (q :: Q).getLastD 0 := by
    have e : s :: M ++ t :: q :: Q = (s :: M ++ [t]) ++ q :: Q := by simp
    rw [e, getLastD_append_cons]
  rw [l1, l2, pathSum_pair_cons, pathSum_pair_cons]
  simp only [List.cons_append, List.headD_cons]
  omega

/-- segment ends at the last position: `x = P ++ [p] ++ S`, `x[(j+1) % n] = x[0]` -/
theorem core_right (d : Matrix) (P : List Nat) (p s : Nat) (M : List Nat) (t : Nat)
    (hs : ∀ a ∈ s :: M ++ [t], ∀ b ∈ s :: M ++ [t], entry d a b = entry d b a) :
    cyclicSum d (P ++ p :: t :: M.reverse ++ [s])
      = cyclicSum d (P ++ p :: s :: M ++ [t])
        + (entry d p t + entry d s ((P ++ [p]).headD 0) - entry d p s - entry d t ((P ++ [p]).headD 0)) := by
  unfold cyclicSum
  rw [split3 d P p t M.reverse s, split3 d P p s M t, seg_reverse d s M t hs]
  have l1 : (P ++ p :: t :: M.reverse ++ [s]).getLastD 0 = s := by
    have e : P ++ p :: t :: M.reverse ++ [s] = (P ++ p :: t :: M.reverse) ++ [s] := by simp
    rw [e, getLastD_append_cons]; rfl
  have l2 : (P ++ p :: s :: M ++ [t]).getLastD 0 = t := by
    have e : P ++ p :: s :: M ++ [t] = (P ++ p :: s :: M) ++ [t] := by simp
    rw [e, getLastD_append_cons]; rfl
  have h1 : (P ++ p :: t :: M.reverse ++ [s]).headD 0 = (P ++ [p]).headD 0 := by cases P <;> simp
  have h2 : (P ++ p :: s :: M ++ [t]).headD 0 = (P ++ [p]).headD 0 := by cases P <;> simp
  rw [l1, l2, h1, h2]
  simp only [pathSum]
  omega


/-! ### reading the model's accessors on a decomposed tour -/

theorem entry?_some {d : Matrix} {a b : Nat} {v : Int} (h : entry? d a b = some v) : entry d a b = v := by
  unfold entry? at h
  unfold entry
  cases hr : d[a]? with
  | none => simp [hr] at h
  | some row =>
    simp only [hr, Option.bind_some] at h
    simp [List.getD_eq_getElem?_getD, hr, h]

theorem entry?_of_square {d : Matrix} {n a b : Nat} (hd : Square d n) (ha : a < n) (hb : b < n) :
    entry? d a b = some (entry d a b) := by
  obtain ⟨h1, h2⟩ := hd
  have hlt : a < d.length := by omega
  have hrow : (d[a]).length = n := h2 _ (List.getElem_mem hlt)
  simp [entry?, entry, List.getElem?_eq_getElem hlt, List.getD_eq_getElem?_getD,
    List.getElem?_eq_getElem (show b < (d[a]).length by omega)]

theorem getElem?_at (L : List Nat) (a : Nat) (R : List Nat) (k : Nat) (h : k = L.length) :
    (L ++ a :: R)[k]? = some a := by subst h; simp

theorem getW?_zero (x : List Nat) : getW? x (((0 : Nat) : Int) - 1) = x.getLast? := by
  unfold getW? wrapIdx
  cases x with
  | nil => simp
  | cons a r =>
    have h1 : ¬ (0 : Int) ≤ ((0 : Nat) : Int) - 1 := by omega
    have h2 : (0 : Int) ≤ ((0 : Nat) : Int) - 1 + ((a :: r).length : Int) := by simp; omega
    simp only [h1, h2, if_false, if_true, Option.bind_some]
    rw [List.getLast?_eq_getElem?]
    congr 1
    simp; omega

theorem getW?_succ (x : List Nat) (i : Nat) : getW? x (((i + 1 : Nat) : Int) - 1) = x[i]? := by
  unfold getW? wrapIdx
  have h1 : (0 : Int) ≤ ((i + 1 : Nat) : Int) - 1 := by omega
  simp only [h1, if_true]
  by_cases h : i < x.length
  · have h2 : ((i + 1 : Nat) : Int) - 1 < (x.length : Int) := by omega
    simp only [h2, if_true, Option.bind_some]
    congr 1; omega
  · have h2 : ¬ ((i + 1 : Nat) : Int) - 1 < (x.length : Int) := by omega
    simp only [h2, if_false, Option.bind_none]
    rw [List.getElem?_eq_none (by omega)]

/-- every tour with `i < j < length` splits around the segment `[i, j]` -/
theorem decomp (x : List Nat) (i j : Nat) (hij : i < j) (hj : j < x.length) :
    ∃ A s M t B, x = A ++ s :: M ++ t :: B ∧ A.length = i ∧ A.length + M.length + 1 = j := by
  have hi : i < x.length := by omega
  have h1 : x.drop i = x[i] :: x.drop (i + 1) := List.drop_eq_getElem_cons hi
  have hk : j - i - 1 < (x.drop (i + 1)).length := by simp; omega
  have h2 : (x.drop (i + 1)).drop (j - i - 1)
      = (x.drop (i + 1))[j - i - 1] :: (x.drop (i + 1)).drop (j - i - 1 + 1) :=
    List.drop_eq_getElem_cons hk
  refine ⟨x.take i, x[i], (x.drop (i + 1)).take (j - i - 1), (x.drop (i + 1))[j - i - 1],
    (x.drop (i + 1)).drop (j - i - 1 + 1), ?_, ?_, ?_⟩
  · have e1 : x = x.take i ++ x.drop i := (List.take_append_drop i x).symm
    have e2 : x.drop (i + 1) = (x.drop (i + 1)).take (j - i - 1) ++ (x.drop (i + 1)).drop (j - i - 1) :=
      (List.take_append_drop _ _).symm
    calc x = x.take i ++ x.drop i := e1
      _ = x.take i ++ (x[i] :: x.drop (i + 1)) := by rw [h1]
      _ = x.take i ++ (x[i] :: ((x.drop (i + 1)).take (j - i - 1) ++ (x.drop (i + 1)).drop (j - i - 1))) := by rw [← e2]
      _ = _ := by rw [h2]; simp
  · simp; omega
  · simp; omega

theorem applyRev_eq_sliceI (x : List Nat) (i j : Nat) : applyRev x i j = sliceI x i j := by
  unfold applyRev
  split
  · next h => subst h; simp [slice0, sliceI]
  · rfl

theorem applyRev_decomp (A : List Nat) (s : Nat) (M : List Nat) (t : Nat) (B : List Nat) (i j : Nat)
    (hi : A.length = i) (hj : A.length + M.length + 1 = j) :
    applyRev (A ++ s :: M ++ t :: B) i j = A ++ t :: M.reverse ++ s :: B := by
  rw [applyRev_eq_sliceI]
  unfold sliceI
  have hle : i ≤ j := by omega
  simp only [hle, if_true]
  have e : A ++ s :: M ++ t :: B = (A ++ s :: M ++ [t]) ++ B := by simp
  have hl : (A ++ s :: M ++ [t]).length = j + 1 := by simp; omega
  have ht : (A ++ s :: M ++ t :: B).take (j + 1) = A ++ s :: M ++ [t] := by
    rw [e]; exact List.take_left' hl
  have hd : (A ++ s :: M ++ t :: B).drop (j + 1) = B := by
    rw [e]; exact List.drop_left' hl
  have hti : (A ++ s :: M ++ t :: B).take i = A := by
    have e' : A ++ s :: M ++ t :: B = A ++ (s :: M ++ t :: B) := by simp
    rw [e']; exact List.take_left' hi
  have hdi : (A ++ s :: M ++ [t]).drop i = s :: M ++ [t] := by
    have e' : A ++ s :: M ++ [t] = A ++ (s :: M ++ [t]) := by simp
    rw [e']; exact List.drop_left' hi
  rw [ht, hd, hti, hdi]
  simp


/-- the code's formula on the four cities it reads -/
def deltaT (d : Matrix) (a xi xj b : Nat) : Int :=
  entry d a xj + entry d xi b - entry d a xi - entry d xj b

theorem delta?_val {i j n : Nat} {d : Matrix} {x : List Nat} {xi a xj b : Nat} {dy : Int}
    (hxi : x[i]? = some xi) (ha : getW? x ((i : Int) - 1) = some a) (hxj : x[j]? = some xj)
    (hb : x[(j + 1) % n]? = some b) (h : delta? i j n d x = some dy) : dy = deltaT d a xi xj b := by
  unfold delta? at h
  simp only [hxi, ha, hxj, Option.bind_eq_bind, Option.bind_some] at h
  split at h
  · simp at h
  · simp only [hb, Option.bind_some] at h
    cases h1 : entry? d a xj with
    | none => simp [h1] at h
    | some v1 =>
      cases h2 : entry? d xi b with
      | none => simp [h1, h2] at h
      | some v2 =>
        cases h3 : entry? d a xi with
        | none => simp [h1, h2, h3] at h
        | some v3 =>
          cases h4 : entry? d xj b with
          | none => simp [h1, h2, h3, h4] at h
          | some v4 =>
            simp [h1, h2, h3, h4] at h
            unfold deltaT
            rw [entry?_some h1, entry?_some h2, entry?_some h3, entry?_some h4]
            omega

theorem delta?_ok {i j n m : Nat} {d : Matrix} {x : List Nat} {xi a xj b : Nat}
    (hxi : x[i]? = some xi) (ha : getW? x ((i : Int) - 1) = some a) (hxj : x[j]? = some xj)
    (hn : n ≠ 0) (hb : x[(j + 1) % n]? = some b) (hd : Square d m)
    (h1 : xi < m) (h2 : a < m) (h3 : xj < m) (h4 : b < m) :
    delta? i j n d x = some (deltaT d a xi xj b) := by
  unfold delta?
  simp only [hxi, ha, hxj, Option.bind_eq_bind, Option.bind_some, hn, if_false, hb,
    entry?_of_square hd h2 h3, entry?_of_square hd h1 h4, entry?_of_square hd h2 h1,
    entry?_of_square hd h3 h4]
  rfl


theorem getLast?_eq_getLastD (x : List Nat) (h : x ≠ []) : x.getLast? = some (x.getLastD 0) := by
  simp [List.getLastD_eq_getLast?, List.getLast?_eq_some_getLast h]

/-- the four reads of the kernel and the true change of the tour length, for every admissible
index pair: `i < j < n`, not the whole array -/
theorem delta_core (d : Matrix) (x : List Nat) (i j n : Nat) (hlen : x.length = n)
    (hij : i < j) (hj : j < n) (hne : ¬(i = 0 ∧ j + 1 = n))
    (hs : ∀ a ∈ x, ∀ b ∈ x, entry d a b = entry d b a) :
    ∃ xi a xj b, x[i]? = some xi ∧ getW? x ((i : Int) - 1) = some a ∧ x[j]? = some xj ∧
      x[(j + 1) % n]? = some b ∧ xi ∈ x ∧ a ∈ x ∧ xj ∈ x ∧ b ∈ x ∧
      cyclicSum d (applyRev x i j) = cyclicSum d x + deltaT d a xi xj b := by
  obtain ⟨A, s, M, t, B, rfl, hi, hjj⟩ := decomp x i j hij (by omega)
  have hs' : ∀ a ∈ s :: M ++ [t], ∀ b ∈ s :: M ++ [t], entry d a b = entry d b a := by
    intro a ha b hb
    apply hs
    · simp at ha ⊢; rcases ha with h | h | h <;> simp [h]
    · simp at hb ⊢; rcases hb with h | h | h <;> simp [h]
  rw [applyRev_decomp A s M t B i j hi hjj]
  have hxj : (A ++ s :: M ++ t :: B)[j]? = some t := by
    have e : A ++ s :: M ++ t :: B = (A ++ s :: M) ++ t :: B := by simp
    rw [e]; exact getElem?_at _ _ _ _ (by simp; omega)
  have hxi : (A ++ s :: M ++ t :: B)[i]? = some s := by
    have e : A ++ s :: M ++ t :: B = A ++ s :: (M ++ t :: B) := by simp
    rw [e]; exact getElem?_at _ _ _ _ hi.symm
  rcases List.eq_nil_or_concat A with hA | ⟨P, p, hA⟩
  · -- segment starts at 0
    subst hA
    simp at hi; subst hi
    cases B with
    | nil => exfalso; apply hne; simp at hlen hjj; omega
    | cons q Q =>
      have hmod : (j + 1) % n = j + 1 := Nat.mod_eq_of_lt (by simp at hlen hjj; omega)
      refine ⟨s, (q :: Q).getLastD 0, t, q, hxi, ?_, hxj, ?_, by simp, ?_, by simp, by simp, ?_⟩
      · rw [getW?_zero]
        have e : [] ++ s :: M ++ t :: q :: Q = (s :: M ++ [t]) ++ q :: Q := by simp
        rw [e, getLast?_eq_getLastD _ (by simp), getLastD_append_cons]
      · rw [hmod]
        have e : [] ++ s :: M ++ t :: q :: Q = (s :: M ++ [t]) ++ q :: Q := by simp
        rw [e]; exact getElem?_at _ _ _ _ (by simp; simp at hjj; omega)
      · have : (q :: Q).getLastD 0 ∈ q :: Q := by
          simp only [List.getLastD_eq_getLast?, List.getLast?_eq_some_getLast (l := q :: Q) (by simp),
            Option.getD_some]
          exact List.getLast_mem _
        simp only [List.nil_append, List.mem_append, List.mem_cons] at this ⊢
        rcases this with h | h
        · exact Or.inr (Or.inr (Or.inl h))
        · exact Or.inr (Or.inr (Or.inr h))
      · have := core_left d s M t q Q hs'
        simp only [List.nil_append]
        rw [this]; unfold deltaT; omega
  · rw [List.concat_eq_append] at hA
    subst hA
    have hi' : i = P.length + 1 := by simp at hi; omega
    have hxa : getW? (P ++ [p] ++ s :: M ++ t :: B) ((i : Int) - 1) = some p := by
      rw [hi', getW?_succ]
      have e : P ++ [p] ++ s :: M ++ t :: B = P ++ p :: (s :: M ++ t :: B) := by simp
      rw [e]; exact getElem?_at _ _ _ _ rfl
    cases B with
    | nil =>
      have hn : j + 1 = n := by simp at hlen hjj; omega
      have hmod : (j + 1) % n = 0 := by rw [hn]; exact Nat.mod_self n
      refine ⟨s, p, t, (P ++ [p]).headD 0, hxi, hxa, hxj, ?_, by simp, by simp, by simp, ?_, ?_⟩
      · rw [hmod]; cases P <;> simp
      · cases P <;> simp
      · have := core_right d P p s M t hs'
        have e1 : P ++ [p] ++ t :: M.reverse ++ [s] = P ++ p :: t :: M.reverse ++ [s] := by simp
        have e2 : P ++ [p] ++ s :: M ++ [t] = P ++ p :: s :: M ++ [t] := by simp
        rw [e1, e2, this]; unfold deltaT; omega
    | cons q Q =>
      have hmod : (j + 1) % n = j + 1 := Nat.mod_eq_of_lt (by simp at hlen hjj; omega)
      refine ⟨s, p, t, q, hxi, hxa, hxj, ?_, by simp, by simp, by simp, by simp, ?_⟩
      · rw [hmod]
        have e : P ++ [p] ++ s :: M ++ t :: q :: Q = (P ++ [p] ++ s :: M ++ [t]) ++ q :: Q := by simp
        rw [e]; exact getElem?_at _ _ _ _ (by simp; simp at hjj; omega)
      · have := core_mid d P p s M t q Q hs'
        have e1 : P ++ [p] ++ t :: M.reverse ++ s :: q :: Q = P ++ p :: t :: M.reverse ++ s :: q :: Q := by simp
        have e2 : P ++ [p] ++ s :: M ++ t :: q :: Q = P ++ p :: s :: M ++ t :: q :: Q := by simp
        rw [e1, e2, this]; unfold deltaT; omega


/-! ### permutation facts -/

theorem sliceI_perm (x : List Nat) (i j : Nat) : (sliceI x i j).Perm x := by
  unfold sliceI
  split
  · next h =>
    have e : x.take i = (x.take (j + 1)).take i := by
      rw [List.take_take]; congr 1; omega
    have h1 : (x.take i ++ ((x.take (j + 1)).drop i).reverse ++ x.drop (j + 1)).Perm
        (x.take i ++ (x.take (j + 1)).drop i ++ x.drop (j + 1)) :=
      List.Perm.append_right _ (List.Perm.append_left _ (List.reverse_perm _))
    have h2 : x.take i ++ (x.take (j + 1)).drop i ++ x.drop (j + 1) = x := by
      rw [e, List.take_append_drop, List.take_append_drop]
    rw [h2] at h1; exact h1
  · exact List.Perm.refl _

theorem applyRev_perm (x : List Nat) (i j : Nat) : (applyRev x i j).Perm x := by
  rw [applyRev_eq_sliceI]; exact sliceI_perm x i j

theorem isPerm_length {x : List Nat} {n : Nat} (h : IsPerm x n) : x.length = n := by
  simpa using h.length_eq

theorem isPerm_lt {x : List Nat} {n : Nat} (h : IsPerm x n) : ∀ c ∈ x, c < n := by
  intro c hc; have := (h.mem_iff).mp hc; simpa using this

theorem sym_on {d : Matrix} {n : Nat} {x : List Nat} (hsym : Symmetric d n) (hp : IsPerm x n) :
    ∀ a ∈ x, ∀ b ∈ x, entry d a b = entry d b a :=
  fun a ha b hb => hsym a (isPerm_lt hp a ha) b (isPerm_lt hp b hb)

/-- `normMove` only lets ordered, distinct index pairs through; with draws from `integers(n-1)` the
larger one is at most `n - 2` -/
theorem normMove_some {n a b i j : Nat} (h : normMove n a b = some (i, j)) (ha : a + 1 < n) (hb : b + 1 < n) :
    i < j ∧ j + 1 < n := by
  unfold normMove at h
  by_cases hab : a > b
  · simp only [hab, if_true] at h
    split at h
    · simp at h
    · simp only [Option.some.injEq, Prod.mk.injEq] at h; omega
  · simp only [hab, if_false] at h
    split at h
    · simp at h
    · simp only [Option.some.injEq, Prod.mk.injEq] at h; omega


/-! ### one kernel call -/

theorem delta_correct' {d : Matrix} {n : Nat} {x : List Nat} {i j : Nat} {dy : Int}
    (hsym : Symmetric d n) (hp : IsPerm x n) (hij : i < j) (hj : j < n) (hne : ¬(i = 0 ∧ j + 1 = n))
    (h : delta? i j n d x = some dy) : cyclicSum d (applyRev x i j) = cyclicSum d x + dy := by
  obtain ⟨xi, a, xj, b, r1, r2, r3, r4, _, _, _, _, hc⟩ :=
    delta_core d x i j n (isPerm_length hp) hij hj hne (sym_on hsym hp)
  rw [hc, delta?_val r1 r2 r3 r4 h]

theorem applyRev_isPerm {x : List Nat} {n : Nat} (i j : Nat) (hp : IsPerm x n) : IsPerm (applyRev x i j) n :=
  (applyRev_perm x i j).trans hp

theorem ea_step {d : Matrix} {n : Nat} {x : List Nat} {y : Int} {i j : Nat} {x' : List Nat} {y' : Int}
    (hsym : Symmetric d n) (hp : IsPerm x n) (hij : i < j) (hj : j < n) (hne : ¬(i = 0 ∧ j + 1 = n))
    (hy : y = cyclicSum d x) (h : revIfNotWorse? i j n d x y = some (x', y')) :
    IsPerm x' n ∧ y' = cyclicSum d x' ∧ y' ≤ y := by
  unfold revIfNotWorse? at h
  cases hd : delta? i j n d x with
  | none => simp [hd] at h
  | some dy =>
    simp only [hd, Option.bind_eq_bind, Option.bind_some] at h
    split at h
    · next hle =>
      simp only [Option.pure_def, Option.some.injEq, Prod.mk.injEq] at h
      obtain ⟨rfl, rfl⟩ := h
      refine ⟨applyRev_isPerm i j hp, ?_, by omega⟩
      rw [delta_correct' hsym hp hij hj hne hd, hy]
    · simp only [Option.pure_def, Option.some.injEq, Prod.mk.injEq] at h
      obtain ⟨rfl, rfl⟩ := h
      exact ⟨hp, hy, by omega⟩

theorem hInc?_size {h h' : Array Int} {k : Int} (e : hInc? h k = some h') : h'.size = h.size := by
  unfold hInc? at e
  cases hw : wrapIdx h.size k with
  | none => simp [hw] at e
  | some p => simp [hw] at e; subst e; simp

theorem fea_step {d : Matrix} {n : Nat} {x : List Nat} {y : Int} {i j : Nat} {hh : Array Int} {o : FOut}
    (hsym : Symmetric d n) (hp : IsPerm x n) (hij : i < j) (hj : j < n) (hne : ¬(i = 0 ∧ j + 1 = n))
    (hy : y = cyclicSum d x) (h : revIfHNotWorse? i j n d hh x y = some o) :
    IsPerm o.x n ∧ o.y = cyclicSum d o.x ∧ o.idx1 = cyclicSum d x ∧
      o.idx2 = cyclicSum d (applyRev x i j) ∧ o.h.size = hh.size := by
  unfold revIfHNotWorse? at h
  simp only [Option.bind_eq_bind, Option.bind_eq_some_iff] at h
  obtain ⟨dy, hd, h1, e1, h2, e2, hy2, _, hy1, _, hfin⟩ := h
  have hc := delta_correct' hsym hp hij hj hne hd
  have hs : h2.size = hh.size := by rw [hInc?_size e2, hInc?_size e1]
  split at hfin
  · simp only [Option.pure_def, Option.some.injEq] at hfin
    subst hfin
    exact ⟨applyRev_isPerm i j hp, by simp [hc, hy], hy, by simp [hc, hy], hs⟩
  · simp only [Option.pure_def, Option.some.injEq] at hfin
    subst hfin
    exact ⟨hp, hy, hy, by simp [hc, hy], hs⟩

/-! ### the loops -/

theorem eaLoop_inv (d : Matrix) (n : Nat) (hsym : Symmetric d n) :
    ∀ (ms : List (Nat × Nat)) (x : List Nat) (y : Int) (tr : List (List Nat × Int)),
      MovesInRange n ms → IsPerm x n → y = cyclicSum d x → eaLoop? n d ms x y = some tr →
      (∀ r ∈ tr, TrueReg d n r.1 r.2) ∧ List.Pairwise (fun a b => b ≤ a) (y :: tr.map (·.2)) := by
  intro ms
  induction ms with
  | nil =>
    intro x y tr _ _ _ h
    simp [eaLoop?] at h; subst h; simp
  | cons m ms ih =>
    intro x y tr hm hp hy h
    obtain ⟨a, b⟩ := m
    have hm' : MovesInRange n ms := fun m hmm => hm m (List.mem_cons_of_mem _ hmm)
    have hab := hm (a, b) (by simp)
    unfold eaLoop? at h
    cases hn : normMove n a b with
    | none => simp only [hn] at h; exact ih x y tr hm' hp hy h
    | some ij =>
      obtain ⟨i, j⟩ := ij
      obtain ⟨hij, hj⟩ := normMove_some hn hab.1 hab.2
      simp only [hn] at h
      cases hk : revIfNotWorse? i j n d x y with
      | none => simp [hk] at h
      | some xy =>
        obtain ⟨x', y'⟩ := xy
        simp only [hk, Option.map_eq_some_iff] at h
        obtain ⟨tr', htr', rfl⟩ := h
        obtain ⟨hp', hy', hle⟩ := ea_step hsym hp hij (by omega) (by omega) hy hk
        obtain ⟨i1, i2⟩ := ih x' y' tr' hm' hp' hy' htr'
        constructor
        · intro r hr
          simp only [List.mem_cons] at hr
          rcases hr with rfl | hr
          · exact ⟨hp', hy'⟩
          · exact i1 r hr
        · simp only [List.map_cons, List.pairwise_cons] at i2 ⊢
          refine ⟨?_, i2⟩
          intro z hz
          simp only [List.mem_cons] at hz
          rcases hz with rfl | hz
          · exact hle
          · have := i2.1 z hz; omega

/-- `v` is the length of some tour -/
def IsTourLen (d : Matrix) (n : Nat) (v : Int) : Prop := ∃ z, IsPerm z n ∧ v = cyclicSum d z

theorem feaLoop_inv (d : Matrix) (n : Nat) (hsym : Symmetric d n) :
    ∀ (ms : List (Nat × Nat)) (h : Array Int) (x : List Nat) (y : Int) (tr : List FReg) (hf : Array Int) (yf : Int),
      MovesInRange n ms → IsPerm x n → y = cyclicSum d x → feaLoop? n d ms h x y = some (tr, hf, yf) →
      (∀ r ∈ tr, TrueReg d n r.x r.y ∧ IsTourLen d n r.idx1 ∧ IsTourLen d n r.idx2) ∧
      IsTourLen d n yf ∧ hf.size = h.size := by
  intro ms
  induction ms with
  | nil =>
    intro h x y tr hf yf _ hp hy e
    simp [feaLoop?] at e
    obtain ⟨rfl, rfl, rfl⟩ := e
    exact ⟨by simp, ⟨x, hp, hy⟩, rfl⟩
  | cons m ms ih =>
    intro h x y tr hf yf hm hp hy e
    obtain ⟨a, b⟩ := m
    have hm' : MovesInRange n ms := fun m hmm => hm m (List.mem_cons_of_mem _ hmm)
    have hab := hm (a, b) (by simp)
    unfold feaLoop? at e
    cases hn : normMove n a b with
    | none => simp only [hn] at e; exact ih h x y tr hf yf hm' hp hy e
    | some ij =>
      obtain ⟨i, j⟩ := ij
      obtain ⟨hij, hj⟩ := normMove_some hn hab.1 hab.2
      simp only [hn] at e
      cases hk : revIfHNotWorse? i j n d h x y with
      | none => simp [hk] at e
      | some o =>
        simp only [hk, Option.map_eq_some_iff] at e
        obtain ⟨⟨tr', hf', yf'⟩, htr', e'⟩ := e
        simp only [Prod.mk.injEq] at e'
        obtain ⟨rfl, rfl, rfl⟩ := e'
        obtain ⟨hp', hy', h1, h2, hsz⟩ := fea_step hsym hp hij (by omega) (by omega) hy hk
        obtain ⟨i1, i2, i3⟩ := ih o.h o.x o.y tr' hf' yf' hm' hp' hy' htr'
        refine ⟨?_, i2, by omega⟩
        intro r hr
        simp only [List.mem_cons] at hr
        rcases hr with rfl | hr
        · exact ⟨⟨hp', hy'⟩, ⟨x, hp, h1⟩, ⟨_, applyRev_isPerm i j hp, h2⟩⟩
        · exact i1 r hr

/-! ### no access outside the arrays -/

theorem getW?_ok (x : List Nat) (i : Nat) (hi : i < x.length) :
    ∃ a, getW? x ((i : Int) - 1) = some a ∧ a ∈ x := by
  cases i with
  | zero =>
    have hne : x ≠ [] := by intro h; subst h; simp at hi
    refine ⟨x.getLastD 0, ?_, ?_⟩
    · rw [getW?_zero, getLast?_eq_getLastD x hne]
    · simp only [List.getLastD_eq_getLast?, List.getLast?_eq_some_getLast hne, Option.getD_some]
      exact List.getLast_mem _
  | succ k =>
    have hk : k < x.length := by omega
    exact ⟨x[k], by rw [getW?_succ, List.getElem?_eq_getElem hk], List.getElem_mem hk⟩

/-- memory safety of the delta computation needs neither symmetry nor a permutation:
any tour of length `n` over cities `< n`, any two indices `< n` -/
theorem delta?_noOOB {d : Matrix} {n : Nat} {x : List Nat} {i j : Nat} (hd : Square d n)
    (hlen : x.length = n) (hr : ∀ c ∈ x, c < n) (hi : i < n) (hj : j < n) :
    ∃ dy, delta? i j n d x = some dy := by
  have hi' : i < x.length := by omega
  have hj' : j < x.length := by omega
  have hn : n ≠ 0 := by omega
  have hm : (j + 1) % n < x.length := by rw [hlen]; exact Nat.mod_lt _ (by omega)
  obtain ⟨a, ha, hax⟩ := getW?_ok x i hi'
  exact ⟨_, delta?_ok (List.getElem?_eq_getElem hi') ha (List.getElem?_eq_getElem hj') hn
    (List.getElem?_eq_getElem hm) hd (hr _ (List.getElem_mem hi')) (hr _ hax)
    (hr _ (List.getElem_mem hj')) (hr _ (List.getElem_mem hm))⟩

theorem revIfNotWorse?_perm {d : Matrix} {n i j : Nat} {x x' : List Nat} {y y' : Int}
    (h : revIfNotWorse? i j n d x y = some (x', y')) : x'.Perm x := by
  unfold revIfNotWorse? at h
  simp only [Option.bind_eq_bind, Option.bind_eq_some_iff] at h
  obtain ⟨dy, _, h⟩ := h
  split at h <;> simp only [Option.pure_def, Option.some.injEq, Prod.mk.injEq] at h <;> obtain ⟨rfl, _⟩ := h
  · exact applyRev_perm x i j
  · exact List.Perm.refl _

theorem revIfNotWorse?_ok {d : Matrix} {n : Nat} {x : List Nat} {i j : Nat} (y : Int) (hd : Square d n)
    (hlen : x.length = n) (hr : ∀ c ∈ x, c < n) (hi : i < n) (hj : j < n) :
    ∃ r, revIfNotWorse? i j n d x y = some r := by
  obtain ⟨dy, h⟩ := delta?_noOOB hd hlen hr hi hj
  unfold revIfNotWorse?
  simp only [h, Option.bind_eq_bind, Option.bind_some]
  split <;> exact ⟨_, rfl⟩

theorem eaLoop?_ok (d : Matrix) (n : Nat) (hd : Square d n) :
    ∀ (ms : List (Nat × Nat)) (x : List Nat) (y : Int), MovesInRange n ms → IsPerm x n →
      ∃ tr, eaLoop? n d ms x y = some tr := by
  intro ms
  induction ms with
  | nil => intro x y _ _; exact ⟨[], rfl⟩
  | cons m ms ih =>
    intro x y hm hp
    obtain ⟨a, b⟩ := m
    have hm' : MovesInRange n ms := fun m hmm => hm m (List.mem_cons_of_mem _ hmm)
    have hab := hm (a, b) (by simp)
    unfold eaLoop?
    cases hn : normMove n a b with
    | none => exact ih x y hm' hp
    | some ij =>
      obtain ⟨i, j⟩ := ij
      obtain ⟨hij, hj⟩ := normMove_some hn hab.1 hab.2
      obtain ⟨⟨x', y'⟩, hk⟩ := revIfNotWorse?_ok y hd (isPerm_length hp) (isPerm_lt hp) (show i < n by omega) (show j < n by omega)
      have hp' : IsPerm x' n := (revIfNotWorse?_perm hk).trans hp
      obtain ⟨tr, htr⟩ := ih x' y' hm' hp'
      simp only [hk, htr]
      exact ⟨_, rfl⟩

theorem wrapIdx_ok {len : Nat} {k : Int} (h0 : 0 ≤ k) (h1 : k < len) : wrapIdx len k = some k.toNat := by
  unfold wrapIdx; simp [h0, h1]

theorem hInc?_ok (h : Array Int) (k : Int) (h0 : 0 ≤ k) (h1 : k < h.size) :
    ∃ h', hInc? h k = some h' ∧ h'.size = h.size := by
  unfold hInc?
  rw [wrapIdx_ok h0 h1]
  exact ⟨_, rfl, by simp⟩

theorem hGet?_ok (h : Array Int) (k : Int) (h0 : 0 ≤ k) (h1 : k < h.size) : ∃ v, hGet? h k = some v := by
  unfold hGet?
  rw [wrapIdx_ok h0 h1]
  have : k.toNat < h.size := by omega
  exact ⟨h[k.toNat], by simp [this]⟩

theorem revIfHNotWorse?_ok {d : Matrix} {n : Nat} {x : List Nat} {y : Int} {i j : Nat} {hh : Array Int}
    (hd : Square d n) (hsym : Symmetric d n) (hp : IsPerm x n) (hij : i < j) (hj : j < n)
    (hne : ¬(i = 0 ∧ j + 1 = n)) (hy : y = cyclicSum d x)
    (hb : ∀ z, IsPerm z n → 0 ≤ cyclicSum d z ∧ cyclicSum d z < hh.size) :
    ∃ o, revIfHNotWorse? i j n d hh x y = some o := by
  obtain ⟨dy, hdy⟩ := delta?_noOOB hd (isPerm_length hp) (isPerm_lt hp) (show i < n by omega) hj
  have hc := delta_correct' hsym hp hij hj hne hdy
  have b1 := hb x hp
  have b2 := hb _ (applyRev_isPerm i j hp)
  obtain ⟨h1, e1, s1⟩ := hInc?_ok hh y (by omega) (by omega)
  obtain ⟨h2, e2, s2⟩ := hInc?_ok h1 (y + dy) (by omega) (by omega)
  obtain ⟨v2, g2⟩ := hGet?_ok h2 (y + dy) (by omega) (by omega)
  obtain ⟨v1, g1⟩ := hGet?_ok h2 y (by omega) (by omega)
  unfold revIfHNotWorse?
  simp only [hdy, e1, e2, g2, g1, Option.bind_eq_bind, Option.bind_some]
  split <;> exact ⟨_, rfl⟩

theorem feaLoop?_ok (d : Matrix) (n : Nat) (sz : Nat) (hd : Square d n) (hsym : Symmetric d n)
    (hb : ∀ z, IsPerm z n → 0 ≤ cyclicSum d z ∧ cyclicSum d z < sz) :
    ∀ (ms : List (Nat × Nat)) (h : Array Int) (x : List Nat) (y : Int), MovesInRange n ms → IsPerm x n →
      y = cyclicSum d x → h.size = sz → ∃ r, feaLoop? n d ms h x y = some r := by
  intro ms
  induction ms with
  | nil => intro h x y _ _ _ _; exact ⟨_, rfl⟩
  | cons m ms ih =>
    intro h x y hm hp hy hs
    obtain ⟨a, b⟩ := m
    have hm' : MovesInRange n ms := fun m hmm => hm m (List.mem_cons_of_mem _ hmm)
    have hab := hm (a, b) (by simp)
    unfold feaLoop?
    cases hn : normMove n a b with
    | none => exact ih h x y hm' hp hy hs
    | some ij =>
      obtain ⟨i, j⟩ := ij
      obtain ⟨hij, hj⟩ := normMove_some hn hab.1 hab.2
      obtain ⟨o, hk⟩ := revIfHNotWorse?_ok (hh := h) hd hsym hp hij (show j < n by omega) (by omega) hy
        (by rw [hs]; exact hb)
      obtain ⟨hp', hy', _, _, hsz⟩ := fea_step hsym hp hij (by omega) (by omega) hy hk
      obtain ⟨r, hr⟩ := ih o.h o.x o.y hm' hp' hy' (by omega)
      simp only [hk, hr]
      exact ⟨_, rfl⟩


theorem sliceI_eq_revSpec (x : List Nat) (i j : Nat) (hij : i ≤ j) (hj : j < x.length) :
    sliceI x i j = revSpec x i j := by
  apply List.ext_getElem?
  intro k
  unfold sliceI revSpec
  simp only [hij, if_true]
  by_cases hk : k < x.length
  · rw [List.getElem?_map, List.getElem?_range hk]
    simp only [Option.map_some]
    by_cases h1 : k < i
    · have : ¬ (i ≤ k ∧ k ≤ j) := by omega
      simp only [this, if_false]
      rw [List.append_assoc, List.getElem?_append_left (by simp; omega)]
      simp [h1, List.getD_eq_getElem?_getD, hk]
    · by_cases h2 : k ≤ j
      · have : (i ≤ k ∧ k ≤ j) := by omega
        simp only [this]
        rw [List.append_assoc, List.getElem?_append_right (by simp; omega)]
        rw [List.getElem?_append_left (by simp; omega)]
        rw [List.getElem?_reverse (by simp; omega)]
        simp only [List.length_drop, List.length_take, List.length_take, List.getElem?_drop, List.getElem?_take]
        have e1 : min i x.length = i := by omega
        have e2 : min (j + 1) x.length = j + 1 := by omega
        have e3 : i + (j + 1 - i - 1 - (k - i)) = i + j - k := by omega
        simp only [e1, e2, e3]
        have : i + j - k < j + 1 := by omega
        simp [this, List.getD_eq_getElem?_getD, show i + j - k < x.length by omega]
      · have : ¬ (i ≤ k ∧ k ≤ j) := by omega
        simp only [this, if_false]
        rw [List.getElem?_append_right (by simp; omega)]
        simp only [List.getElem?_drop, List.length_append, List.length_take, List.length_reverse, List.length_drop]
        have e : j + 1 + (k - (min i x.length + (min (j + 1) x.length - i))) = k := by omega
        simp [e, List.getD_eq_getElem?_getD, hk]
  · rw [List.getElem?_eq_none (by simp; omega), List.getElem?_eq_none (by simp; omega)]

theorem applyRev_eq_revSpec (x : List Nat) (i j : Nat) (hij : i ≤ j) (hj : j < x.length) :
    applyRev x i j = revSpec x i j := by
  rw [applyRev_eq_sliceI]; exact sliceI_eq_revSpec x i j hij hj

theorem tourLenLoop?_some (d : Matrix) : ∀ (l : List Nat) (acc : Int) (last : Nat) (v : Int),
    tourLenLoop? d l acc last = some v → v = tourLenLoop d l acc last := by
  intro l
  induction l with
  | nil => intro acc last v h; simp [tourLenLoop?] at h; simp [tourLenLoop, h]
  | cons c r ih =>
    intro acc last v h
    unfold tourLenLoop? at h
    cases he : entry? d last c with
    | none => simp [he] at h
    | some w =>
      simp only [he] at h
      rw [tourLenLoop, entry?_some he]
      exact ih _ _ _ h

/-- whenever the checked `tour_length` kernel returns a value it is the value of the total model -/
theorem tourLen?_some {d : Matrix} {x : List Nat} {v : Int} (h : tourLen? d x = some v) : v = tourLen d x := by
  unfold tourLen? at h
  cases hl : x.getLast? with
  | none => simp [hl] at h
  | some l =>
    simp only [hl] at h
    unfold tourLen
    have : x.getLastD 0 = l := by simp [List.getLastD_eq_getLast?, hl]
    rw [this]
    exact tourLenLoop?_some d x 0 l v h
theorem logFix?_size {h h' : Array Int} {y : Int} (e : logFix? h y = some h') : h'.size = h.size := by
  unfold logFix? at e
  split at e
  · simp at e
  · split at e
    · simp only [Option.map_eq_some_iff] at e
      obtain ⟨p, _, rfl⟩ := e
      simp
    · simp at e; subst e; rfl

theorem feaSolve?_some {n : Nat} {d : Matrix} {ub : Int} {x0 : List Nat} {moves : List (Nat × Nat)} {out : FeaOut}
    (h : feaSolve? n d ub x0 moves = some out) :
    0 ≤ ub + 1 ∧ ∃ y0 hf, tourLen? d x0 = some y0 ∧
      feaLoop? n d moves (Array.replicate (ub + 1).toNat 0) x0 y0 = some (out.trace, hf, out.lastIdx) ∧
      out.h.size = hf.size := by
  unfold feaSolve? at h
  split at h
  · simp at h
  · next hub =>
    split at h
    · simp at h
    · next y0 hy0 =>
      split at h
      · simp at h
      · next tr hf yf hl =>
        simp only [Option.map_eq_some_iff] at h
        obtain ⟨h', e, rfl⟩ := h
        exact ⟨by omega, y0, hf, hy0, hl, logFix?_size e⟩

theorem logFix?_ok (h : Array Int) (y : Int) (h0 : 0 ≤ y) (h1 : y < h.size) : ∃ h', logFix? h y = some h' := by
  obtain ⟨v, hv⟩ := hGet?_ok h y h0 h1
  unfold logFix?
  simp only [hv]
  split
  · rw [wrapIdx_ok h0 h1]; exact ⟨_, rfl⟩
  · exact ⟨_, rfl⟩

theorem feaSolve?_ok (d : Matrix) (n : Nat) (ub : Int) (x0 : List Nat) (moves : List (Nat × Nat))
    (hd : Square d n) (hsym : Symmetric d n)
    (hb : ∀ z, IsPerm z n → 0 ≤ cyclicSum d z ∧ cyclicSum d z ≤ ub)
    (hp : IsPerm x0 n) (hm : MovesInRange n moves) (hub : 0 ≤ ub)
    (htl : tourLen? d x0 = some (cyclicSum d x0)) :
    ∃ out, feaSolve? n d ub x0 moves = some out := by
  have hb' : ∀ z, IsPerm z n → 0 ≤ cyclicSum d z ∧ cyclicSum d z < ((ub + 1).toNat : Nat) := by
    intro z hz; have := hb z hz; omega
  obtain ⟨⟨tr, hf, yf⟩, hl⟩ := feaLoop?_ok d n (ub + 1).toNat hd hsym hb' moves
    (Array.replicate (ub + 1).toNat 0) x0 (cyclicSum d x0) hm hp rfl (by simp)
  obtain ⟨_, ⟨z, hz, hyf⟩, hsz⟩ := feaLoop_inv d n hsym moves _ x0 _ tr hf yf hm hp rfl hl
  have bz := hb' z hz
  obtain ⟨h', e⟩ := logFix?_ok hf yf (by omega) (by rw [hsz]; simp; omega)
  unfold feaSolve?
  have : ¬ ub + 1 < 0 := by omega
  simp only [this, if_false, htl, hl, e]
  exact ⟨_, rfl⟩

theorem entry_nonneg' (M : Matrix) (hnn : ∀ r ∈ M, ∀ v ∈ r, 0 ≤ v) (a b : Nat) : 0 ≤ entry M a b := by
  unfold entry
  by_cases ha : a < M.length
  · by_cases hb : b < (M[a]).length
    · have : (M.getD a []).getD b 0 = (M[a])[b] := by
        simp [List.getD_eq_getElem?_getD, List.getElem?_eq_getElem ha, List.getElem?_eq_getElem hb]
      rw [this]
      exact hnn _ (List.getElem_mem ha) _ (List.getElem_mem hb)
    · simp [List.getD_eq_getElem?_getD, List.getElem?_eq_getElem ha, List.getElem?_eq_none (Nat.le_of_not_lt hb)]
  · simp [List.getD_eq_getElem?_getD, List.getElem?_eq_none (Nat.le_of_not_lt ha)]

theorem le_sum_of_nonneg (f : Nat → Int) (l : List Nat) (hf : ∀ k ∈ l, 0 ≤ f k) (i : Nat) (hi : i ∈ l) :
    f i ≤ (l.map f).sum := by
  induction l with
  | nil => simp at hi
  | cons a t ih =>
    simp only [List.map_cons, List.sum_cons]
    have hrest : 0 ≤ (t.map f).sum := sum_map_nonneg t f (fun b hb => hf b (List.mem_cons_of_mem _ hb))
    simp only [List.mem_cons] at hi
    rcases hi with rfl | hi
    · omega
    · have := ih (fun b hb => hf b (List.mem_cons_of_mem _ hb)) hi
      have := hf a (by simp)
      omega

end TspEa
