import Proofs.InstGenDecode
import Mathlib.Algebra.Order.Field.Basic
import Mathlib.Algebra.Order.Field.Rat
import Mathlib.Data.Rat.Cast.Order
/-! Helper lemmas of C17, part 4: `InstanceSpace` of a template, the `Errors` objective, the clamp
arithmetic of `Hardness`. -/
namespace InstGen
open Pack

theorem chk_some {v lo hi r : Int} (h : chk v lo hi = some r) : r = v ∧ lo ≤ v ∧ v ≤ hi := by
  unfold chk at h
  split at h
  · injection h with h; omega
  · simp at h

/-! ### column minima / maxima -/

theorem foldl_min_le (l : List Int) (a : Int) : l.foldl min a ≤ a ∧ ∀ x ∈ l, l.foldl min a ≤ x := by
  induction l generalizing a with
  | nil => simp
  | cons b t ih =>
    simp only [List.foldl_cons]
    obtain ⟨h1, h2⟩ := ih (min a b)
    refine ⟨by omega, ?_⟩
    intro x hx
    simp only [List.mem_cons] at hx
    rcases hx with hx | hx
    · rw [hx]; omega
    · exact h2 x hx

theorem foldl_max_ge (l : List Int) (a : Int) : a ≤ l.foldl max a ∧ ∀ x ∈ l, x ≤ l.foldl max a := by
  induction l generalizing a with
  | nil => simp
  | cons b t ih =>
    simp only [List.foldl_cons]
    obtain ⟨h1, h2⟩ := ih (max a b)
    refine ⟨by omega, ?_⟩
    intro x hx
    simp only [List.mem_cons] at hx
    rcases hx with hx | hx
    · rw [hx]; omega
    · exact h2 x hx

theorem colMin_le {l : List Int} {m : Int} (h : colMin l = some m) : ∀ x ∈ l, m ≤ x := by
  cases l with
  | nil => simp [colMin] at h
  | cons a t =>
    simp only [colMin, Option.some.injEq] at h
    intro x hx
    have := foldl_min_le t a
    simp only [List.mem_cons] at hx
    rcases hx with hx | hx
    · rw [hx, ← h]; exact this.1
    · rw [← h]; exact this.2 x hx

theorem colMax_ge {l : List Int} {m : Int} (h : colMax l = some m) : ∀ x ∈ l, x ≤ m := by
  cases l with
  | nil => simp [colMax] at h
  | cons a t =>
    simp only [colMax, Option.some.injEq] at h
    intro x hx
    have := foldl_max_ge t a
    simp only [List.mem_cons] at hx
    rcases hx with hx | hx
    · rw [hx, ← h]; exact this.1
    · rw [← h]; exact this.2 x hx

/-- starting the running minimum at a value no item is below (the bin width) gives the column minimum -/
theorem foldl_min_start {l : List Int} {m : Int} (h : colMin l = some m) (B : Int) (hB : ∀ x ∈ l, x ≤ B) :
    l.foldl min B = m := by
  cases l with
  | nil => simp [colMin] at h
  | cons a t =>
    simp only [colMin, Option.some.injEq] at h
    have := hB a (by simp)
    simp only [List.foldl_cons]
    rw [show min B a = a by omega, h]

theorem foldl_max_start {l : List Int} {m : Int} (h : colMax l = some m) (z : Int) (hz : ∀ x ∈ l, z ≤ x) :
    l.foldl max z = m := by
  cases l with
  | nil => simp [colMax] at h
  | cons a t =>
    simp only [colMax, Option.some.injEq] at h
    have := hz a (by simp)
    simp only [List.foldl_cons]
    rw [show max z a = a by omega, h]

/-! ### `InstanceSpace(template)` -/

/-- what `InstanceSpace.__init__` establishes -/
structure FromTemplate (name : String) (T : Inst) (lb : Int) (sp : Space) : Prop where
  name_eq : sp.name = name ++ "n"
  nd : sp.nDifferent = T.nTypes
  n : sp.nItems = T.nItems
  W : sp.W = T.W
  H : sp.H = T.H
  k : sp.minBins = min lb T.nItems
  area : sp.totalArea = T.totalArea
  wmin : colMin (T.items.map (·.w)) = some sp.wMin
  wmax : colMax (T.items.map (·.w)) = some sp.wMax
  hmin : colMin (T.items.map (·.h)) = some sp.hMin
  hmax : colMax (T.items.map (·.h)) = some sp.hMax
  rW : 1 ≤ sp.W ∧ sp.W ≤ 1000000000
  rH : 1 ≤ sp.H ∧ sp.H ≤ 1000000000
  rk : 1 ≤ sp.minBins
  rw : 1 ≤ sp.wMin ∧ sp.wMax ≤ sp.W
  rh : 1 ≤ sp.hMin ∧ sp.hMax ≤ sp.H

theorem mkSpace_spec {name : String} {T : Inst} {lb : Int} {sp : Space} (h : mkSpace name T lb = some sp) :
    FromTemplate name T lb sp := by
  unfold mkSpace at h
  simp only [Option.bind_eq_bind, Option.bind_eq_some_iff, Option.pure_def, Option.some.injEq] at h
  obtain ⟨nd, h1, n, h2, W, h3, H, h4, k, h5, wmin, ⟨c1, hc1, h6⟩, wmax, ⟨c2, hc2, h7⟩, hmin, ⟨c3, hc3, h8⟩,
    hmax, ⟨c4, hc4, h9⟩, ar, h10, hsp⟩ := h
  have e1 := chk_some h1
  have e2 := chk_some h2
  have e3 := chk_some h3
  have e4 := chk_some h4
  have e5 := chk_some h5
  have e6 := chk_some h6
  have e7 := chk_some h7
  have e8 := chk_some h8
  have e9 := chk_some h9
  have e10 := chk_some h10
  subst hsp
  refine ⟨rfl, e1.1, by simp only []; omega, e3.1, e4.1, by simp only []; omega, e10.1, ?_, ?_, ?_, ?_,
    by simp only []; omega, by simp only []; omega, by simp only []; omega, by simp only []; omega,
    by simp only []; omega⟩
  · simp only []; rw [e6.1]; exact hc1
  · simp only []; rw [e7.1]; exact hc2
  · simp only []; rw [e8.1]; exact hc3
  · simp only []; rw [e9.1]; exact hc4

theorem FromTemplate.item_bounds {name : String} {T : Inst} {lb : Int} {sp : Space}
    (h : FromTemplate name T lb sp) : ∀ it ∈ T.items,
      sp.wMin ≤ it.w ∧ it.w ≤ sp.wMax ∧ sp.hMin ≤ it.h ∧ it.h ≤ sp.hMax := by
  intro it hit
  exact ⟨colMin_le h.wmin it.w (List.mem_map.mpr ⟨it, hit, rfl⟩),
    colMax_ge h.wmax it.w (List.mem_map.mpr ⟨it, hit, rfl⟩),
    colMin_le h.hmin it.h (List.mem_map.mpr ⟨it, hit, rfl⟩),
    colMax_ge h.hmax it.h (List.mem_map.mpr ⟨it, hit, rfl⟩)⟩

theorem geoBound_mul_ge (I : Inst) (hB : 0 < I.W * I.H) : I.totalArea ≤ geoBound I * (I.W * I.H) := by
  unfold geoBound
  simp only []
  generalize I.W * I.H = B at *
  generalize I.totalArea = A at *
  have h1 := Int.mul_ediv_add_emod A B
  have h3 := Int.emod_lt_of_pos A hB
  split
  · have : (A / B + 1) * B = B * (A / B) + B := by ring
    omega
  · omega

theorem nItems_le_totalArea (I : Inst) (hv : I.Valid) : I.nItems ≤ I.totalArea := by
  unfold Inst.nItems Inst.totalArea
  apply ListLemmas.sum_map_le
  intro it hit
  have := hv.2.2.2.2.2.2.1 it hit
  have h1 : 1 ≤ it.w * it.h := by
    have := Int.mul_le_mul this.1 this.2.2.1 (by omega) (by omega)
    omega
  have := Int.mul_le_mul_of_nonneg_right h1 (by omega : 0 ≤ it.rep)
  omega

theorem totalArea_le_nItems_mul (I : Inst) (W H : Int) (hrep : ∀ it ∈ I.items, 0 ≤ it.rep)
    (hd : ∀ it ∈ I.items, 0 ≤ it.w ∧ it.w ≤ W ∧ 0 ≤ it.h ∧ it.h ≤ H) :
    I.totalArea ≤ I.nItems * (W * H) := by
  unfold Inst.nItems Inst.totalArea
  have key : ∀ l : List Item, (∀ it ∈ l, 0 ≤ it.rep) →
      (∀ it ∈ l, 0 ≤ it.w ∧ it.w ≤ W ∧ 0 ≤ it.h ∧ it.h ≤ H) →
      (l.map (fun it => it.w * it.h * it.rep)).sum ≤ (l.map (·.rep)).sum * (W * H) := by
    intro l
    induction l with
    | nil => simp
    | cons a t ih =>
      intro hrep hd
      have iht := ih (fun it h => hrep it (by simp [h])) (fun it h => hd it (by simp [h]))
      have ha := hd a (by simp)
      have hr := hrep a (by simp)
      simp only [List.map_cons, List.sum_cons]
      have h1 : a.w * a.h ≤ W * H := Int.mul_le_mul ha.2.1 ha.2.2.2 ha.2.2.1 (by omega)
      have h2 := Int.mul_le_mul_of_nonneg_right h1 hr
      have : (a.rep + (t.map (·.rep)).sum) * (W * H) = W * H * a.rep + (t.map (·.rep)).sum * (W * H) := by ring
      omega
  exact key I.items hrep hd

/-- the bin area of the space covers the template's items: `min_bins·W·H ≥ total_item_area` -/
theorem FromTemplate.area_le {name : String} {T : Inst} {lb : Int} {sp : Space}
    (h : FromTemplate name T lb sp) (hv : T.Valid) (hlb : geoBound T ≤ lb) :
    T.totalArea ≤ sp.minBins * (sp.W * sp.H) := by
  have hB : 0 < T.W * T.H := Int.mul_pos (by have := hv.1; omega) (by have := hv.2.2.1; omega)
  rw [h.k, h.W, h.H]
  by_cases hc : lb ≤ T.nItems
  · rw [show min lb T.nItems = lb by omega]
    have h1 := geoBound_mul_ge T hB
    have h2 := Int.mul_le_mul_of_nonneg_right hlb (by omega : 0 ≤ T.W * T.H)
    omega
  · rw [show min lb T.nItems = T.nItems by omega]
    apply totalArea_le_nItems_mul
    · intro it hit; have := hv.2.2.2.2.2.2.1 it hit; omega
    · intro it hit
      have hb := h.item_bounds it hit
      have h1 := h.rw
      have h2 := h.rh
      rw [h.W] at h1
      rw [h.H] at h2
      omega

theorem FromTemplate.spaceOk {name : String} {T : Inst} {lb : Int} {sp : Space}
    (h : FromTemplate name T lb sp) (hv : T.Valid) (hlb : geoBound T ≤ lb) : SpaceOk sp := by
  have ha := h.area_le hv hlb
  have hn := nItems_le_totalArea T hv
  refine ⟨h.rW.1, h.rW.2, h.rH.1, h.rH.2, h.rk, ?_, ?_⟩
  · rw [h.k, h.n]; omega
  · rw [h.n]; omega

/-! ### `Errors` -/

theorem iabs_zero : iabs 0 = 0 := by simp [iabs]

theorem foldl_errRow (sp : Space) (l : List Item) (a : ErrAcc) :
    (l.foldl (errRow sp) a).wMin = (l.map (·.w)).foldl min a.wMin ∧
    (l.foldl (errRow sp) a).wMax = (l.map (·.w)).foldl max a.wMax ∧
    (l.foldl (errRow sp) a).hMin = (l.map (·.h)).foldl min a.hMin ∧
    (l.foldl (errRow sp) a).hMax = (l.map (·.h)).foldl max a.hMax ∧
    (l.foldl (errRow sp) a).area = a.area + (l.map (fun it => it.w * it.h * it.rep)).sum := by
  induction l generalizing a with
  | nil => simp
  | cons b t ih =>
    simp only [List.foldl_cons, List.map_cons, List.sum_cons]
    obtain ⟨h1, h2, h3, h4, h5⟩ := ih (errRow sp a b)
    refine ⟨h1, h2, h3, h4, ?_⟩
    rw [h5]
    simp only [errRow]
    ring

theorem foldl_errRow_errors (sp : Space) (l : List Item) (a : ErrAcc)
    (hb : ∀ it ∈ l, sp.wMin ≤ it.w ∧ it.w ≤ sp.wMax ∧ sp.hMin ≤ it.h ∧ it.h ≤ sp.hMax) :
    (l.foldl (errRow sp) a).errors = a.errors := by
  induction l generalizing a with
  | nil => simp
  | cons b t ih =>
    simp only [List.foldl_cons]
    rw [ih _ (fun it h => hb it (by simp [h]))]
    have := hb b (by simp)
    simp only [errRow]
    rw [if_neg (by omega), if_neg (by omega), if_neg (by omega), if_neg (by omega)]
    omega

theorem clamp01_range (v : Rat) : 0 ≤ clamp01 v ∧ clamp01 v ≤ 1 := by
  unfold clamp01
  simp only []
  split_ifs <;> constructor <;> linarith

theorem clamp01_zero : clamp01 0 = 0 := by
  unfold clamp01
  simp

/-- `Errors.evaluate` does not raise on an instance with the space's bin size and item count -/
theorem errorsCount_some (sp : Space) (I : Inst) (hW : I.W = sp.W) (hH : I.H = sp.H)
    (hn : I.nItems = sp.nItems) : ∃ e, errorsCount sp I = some e := by
  unfold errorsCount
  simp only []
  rw [hW, hH, hn]
  simp only [Int.sub_self, iabs_zero]
  rw [if_neg (by omega)]
  have := (foldl_errRow sp I.items ⟨0 + 0 + 0 + iabs ((I.nTypes : Int) - sp.nDifferent), sp.W, 0, sp.H, 0, 0⟩).2.2.2.2
  simp only [] at this
  rw [if_neg (by
    simp only [ne_eq, Decidable.not_not]
    rw [this]
    unfold Inst.totalArea
    omega)]
  exact ⟨_, rfl⟩

theorem errorsCount_template {name : String} {T : Inst} {lb : Int} {sp : Space}
    (h : FromTemplate name T lb sp) (hv : T.Valid) : errorsCount sp T = some 0 := by
  have hb := h.item_bounds
  have hne : 1 ≤ T.items.length := hv.2.2.2.2.1
  unfold errorsCount
  simp only []
  rw [h.W, h.H, h.n, h.nd]
  simp only [Int.sub_self, iabs_zero]
  rw [if_neg (by omega)]
  obtain ⟨f1, f2, f3, f4, f5⟩ := foldl_errRow sp T.items ⟨0 + 0 + 0 + 0, T.W, 0, T.H, 0, 0⟩
  have f0 := foldl_errRow_errors sp T.items ⟨0 + 0 + 0 + 0, T.W, 0, T.H, 0, 0⟩ hb
  simp only [] at f1 f2 f3 f4 f5 f0
  have hwB : ∀ x ∈ T.items.map (·.w), x ≤ T.W := by
    intro x hx
    obtain ⟨it, hit, rfl⟩ := List.mem_map.mp hx
    have := hb it hit
    have := h.rw
    rw [h.W] at this
    omega
  have hhB : ∀ x ∈ T.items.map (·.h), x ≤ T.H := by
    intro x hx
    obtain ⟨it, hit, rfl⟩ := List.mem_map.mp hx
    have := hb it hit
    have := h.rh
    rw [h.H] at this
    omega
  have hw0 : ∀ x ∈ T.items.map (·.w), (0 : Int) ≤ x := by
    intro x hx
    obtain ⟨it, hit, rfl⟩ := List.mem_map.mp hx
    have := hb it hit
    have := h.rw
    omega
  have hh0 : ∀ x ∈ T.items.map (·.h), (0 : Int) ≤ x := by
    intro x hx
    obtain ⟨it, hit, rfl⟩ := List.mem_map.mp hx
    have := hb it hit
    have := h.rh
    omega
  rw [foldl_min_start h.wmin T.W hwB] at f1
  rw [foldl_max_start h.wmax 0 hw0] at f2
  rw [foldl_min_start h.hmin T.H hhB] at f3
  rw [foldl_max_start h.hmax 0 hh0] at f4
  have f5' : (List.foldl (errRow sp) ⟨0 + 0 + 0 + 0, T.W, 0, T.H, 0, 0⟩ T.items).area = T.totalArea := by
    rw [f5]; unfold Inst.totalArea; omega
  rw [if_neg (by simp only [ne_eq, Decidable.not_not]; exact f5')]
  rw [f0, f1, f2, f3, f4, f5', h.area]
  simp [iabs_zero]

/-- `max_errors` exists (the "Invalid item area in space?" check passes) for a template's space -/
theorem FromTemplate.maxErrors_some {name : String} {T : Inst} {lb : Int} {sp : Space}
    (h : FromTemplate name T lb sp) (hv : T.Valid) (hlb : geoBound T ≤ lb) : ∃ m, maxErrors sp = some m := by
  have ha := h.area_le hv hlb
  unfold maxErrors
  simp only []
  rw [if_neg (by
    rw [h.area]
    have : sp.minBins * sp.W * sp.H = sp.minBins * (sp.W * sp.H) := by ring
    omega)]
  exact ⟨_, rfl⟩

/-! ### `Hardness` -/

theorem hardnessRun_some (lb ub q : Rat) (maxFes fe : Int) (h1 : lb < ub) (h2 : lb ≤ q) (h3 : q ≤ ub)
    (h4 : 0 < fe) (h5 : fe ≤ maxFes) (h6 : 2 ≤ maxFes) :
    ∃ v, hardnessRun lb ub q maxFes fe = some v ∧ 0 ≤ v ∧ v ≤ 1 := by
  have hp : 0 < ub - lb := by linarith
  have hq : 0 ≤ (ub - q) / (ub - lb) ∧ (ub - q) / (ub - lb) ≤ 1 :=
    ⟨div_nonneg (by linarith) (le_of_lt hp), (div_le_one hp).mpr (by linarith)⟩
  have hd : (0 : Rat) < ((maxFes - 1 : Int) : Rat) := by exact_mod_cast (by omega : (0 : Int) < maxFes - 1)
  have hr : 0 ≤ ((maxFes - fe : Int) : Rat) / ((maxFes - 1 : Int) : Rat) ∧
      ((maxFes - fe : Int) : Rat) / ((maxFes - 1 : Int) : Rat) ≤ 1 := by
    refine ⟨div_nonneg (by exact_mod_cast (by omega : (0 : Int) ≤ maxFes - fe)) (le_of_lt hd),
      (div_le_one hd).mpr (by exact_mod_cast (by omega : maxFes - fe ≤ maxFes - 1))⟩
  unfold hardnessRun
  simp only []
  rw [if_neg (by simpa using h1), if_neg (by simp only [not_not]; exact ⟨h2, h3⟩),
    if_neg (by simp only [not_not]; exact hq), if_neg (by simp only [not_not]; exact ⟨h4, h5⟩),
    if_neg (by simp only [not_not]; exact hr)]
  exact ⟨_, rfl, clamp01_range _⟩

end InstGen
