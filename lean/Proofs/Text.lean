import Model.Text
import Proofs.Base
import Std.Data.String.ToInt
/-! helper lemmas for C19 (part 1): split/join, decimal numerals, strip -/
namespace Text
open Base Pack

/-! ### split / join -/

theorem splitSep_token (sep : Char) (t : Str) (h : sep ∉ t) : splitSep sep t = [t] := by
  induction t with
  | nil => rfl
  | cons c t ih =>
    have hc : c ≠ sep := fun e => h (by simp [e])
    have ht : sep ∉ t := fun e => h (by simp [e])
    simp only [splitSep, hc, if_false, ih ht]

theorem splitSep_append (sep : Char) (t rest : Str) (h : sep ∉ t) :
    splitSep sep (t ++ sep :: rest) = t :: splitSep sep rest := by
  induction t with
  | nil => simp [splitSep]
  | cons c t ih =>
    have hc : c ≠ sep := fun e => h (by simp [e])
    have ht : sep ∉ t := fun e => h (by simp [e])
    simp only [List.cons_append, splitSep, hc, if_false, ih ht]

/-- splitting the joined text gives back the tokens (at least one token, none containing the separator) -/
theorem splitSep_joinSep (sep : Char) (toks : List Str) (hne : toks ≠ []) (h : ∀ t ∈ toks, sep ∉ t) :
    splitSep sep (joinSep sep toks) = toks := by
  induction toks with
  | nil => exact absurd rfl hne
  | cons t ts ih =>
    cases ts with
    | nil => simpa [joinSep] using splitSep_token sep t (h t (by simp))
    | cons t' ts' =>
      simp only [joinSep]
      rw [splitSep_append sep t _ (h t (by simp)), ih (by simp) (fun x hx => h x (by simp [hx]))]

theorem mem_joinSep {sep c : Char} {toks : List Str} (h : c ∈ joinSep sep toks) :
    c = sep ∨ ∃ t ∈ toks, c ∈ t := by
  induction toks with
  | nil => simp [joinSep] at h
  | cons t ts ih =>
    cases ts with
    | nil => exact Or.inr ⟨t, by simp, by simpa [joinSep] using h⟩
    | cons t' ts' =>
      simp only [joinSep, List.mem_append, List.mem_cons] at h
      rcases h with h | h | h
      · exact Or.inr ⟨t, by simp, h⟩
      · exact Or.inl h
      · rcases ih (by simpa [joinSep] using h) with h | ⟨u, hu, hc⟩
        · exact Or.inl h
        · exact Or.inr ⟨u, by simp [List.mem_cons] at hu ⊢; exact Or.inr hu, hc⟩

/-! ### decimal numerals -/

/-- every character of `str(v)` is a decimal digit or the minus sign -/
theorem showInt_chars (v : Int) : ∀ c ∈ showInt v, c.isDigit = true ∨ c = '-' := by
  have hd : ∀ n : Nat, ∀ c ∈ (Nat.repr n).toList, c.isDigit = true := by
    intro n c hn
    simp only [Nat.repr, String.toList_ofList] at hn
    exact Nat.isDigit_of_mem_toDigits (by decide) (by decide) hn
  intro c hc
  unfold showInt at hc
  cases v with
  | ofNat m => exact Or.inl (hd m c hc)
  | negSucc m =>
    simp only [Int.repr, String.toList_append, List.mem_append] at hc
    rcases hc with hc | hc
    · right; simpa using hc
    · exact Or.inl (hd _ c hc)

theorem showInt_no (v : Int) (c : Char) (h1 : c.isDigit = false) (h2 : c ≠ '-') : c ∉ showInt v := by
  intro hc
  rcases showInt_chars v c hc with h | h
  · rw [h1] at h; cases h
  · exact h2 h

theorem showInt_ne_nil (v : Int) : showInt v ≠ [] := by
  unfold showInt
  cases v with
  | ofNat m =>
    simp only [Int.repr, Nat.repr, String.toList_ofList]
    exact Nat.toDigits_ne_nil
  | negSucc m =>
    simp only [Int.repr, String.toList_append]
    intro h
    have := congrArg List.length h
    simp at this

theorem parseInt?_showInt (v : Int) : parseInt? (showInt v) = some v := by
  unfold parseInt? showInt
  rw [String.ofList_toList]; exact Int.toInt?_repr v

theorem checkToIntRange_showInt (v lo hi : Int) (h1 : lo ≤ v) (h2 : v ≤ hi) :
    checkToIntRange (showInt v) lo hi = some v := by
  simp [checkToIntRange, parseInt?_showInt, h1, h2]

theorem mapM_parse_showInt (l : List Int) : (l.map showInt).mapM parseInt? = some l := by
  induction l with
  | nil => rfl
  | cons a t ih => simp [List.mapM_cons, ih, parseInt?_showInt]

/-- `np.fromstring` reads back the `;`-joined decimal values that fit the storage type -/
theorem fromstring_join (dt : DType) (l : List Int) (hne : l ≠ [])
    (hfit : ∀ v ∈ l, dt.lo ≤ v ∧ v ≤ dt.hi) :
    fromstring dt (joinSep ';' (l.map showInt)) = some l := by
  unfold fromstring
  rw [splitSep_joinSep ';' _ (by simpa using hne)
    (fun t ht => by
      obtain ⟨v, _, rfl⟩ := List.mem_map.mp ht
      exact showInt_no v ';' (by decide) (by decide))]
  rw [mapM_parse_showInt]
  simp only [Option.map_some, Option.some.injEq]
  have : ∀ l : List Int, (∀ v ∈ l, dt.lo ≤ v ∧ v ≤ dt.hi) → l.map dt.wrap = l := by
    intro l h
    induction l with
    | nil => rfl
    | cons a t ih =>
      simp only [List.map_cons]
      rw [wrap_id dt a (h a (by simp)).1 (h a (by simp)).2, ih (fun v hv => h v (by simp [hv]))]
  exact this l hfit

/-! ### strip / first line -/

theorem lstrip_cons {c : Char} {cs : Str} (h : isWs c = false) : lstrip (c :: cs) = c :: cs := by
  simp [lstrip, List.dropWhile, h]

theorem rstrip_concat {l : Str} {c : Char} (h : isWs c = false) : rstrip (l ++ [c]) = l ++ [c] := by
  simp [rstrip, h]

theorem rstrip_of_last {s : Str} (h : ∀ c, s.getLast? = some c → isWs c = false) : rstrip s = s := by
  rcases List.eq_nil_or_concat s with rfl | ⟨l, c, rfl⟩
  · rfl
  · rw [List.concat_eq_append] at h ⊢
    exact rstrip_concat (h c (by simp))

theorem lstrip_of_head {s : Str} (h : ∀ c, s.head? = some c → isWs c = false) : lstrip s = s := by
  cases s with
  | nil => rfl
  | cons c cs => exact lstrip_cons (h c rfl)

theorem findNl_append (a rest : Str) (h : '\n' ∉ a) : findNl (a ++ '\n' :: rest) = some a.length := by
  induction a with
  | nil => simp [findNl]
  | cons c a ih =>
    have hc : c ≠ '\n' := fun e => h (by simp [e])
    have ha : '\n' ∉ a := fun e => h (by simp [e])
    simp [findNl, hc, ih ha]

/-- digits and the minus sign are no white space -/
theorem not_ws_of_numeral {c : Char} (h : c.isDigit = true ∨ c = '-') : isWs c = false := by
  rcases h with h | rfl
  · have hr : 48 ≤ c.val ∧ c.val ≤ 57 := by
      simpa [Char.isDigit, UInt32.le_iff_toNat_le] using h
    have : ∀ d : Char, isWs d = true → ¬ (48 ≤ d.val ∧ d.val ≤ 57) := by
      intro d hd
      simp only [isWs, Bool.or_eq_true, decide_eq_true_eq] at hd
      rcases hd with ((((((((hd | hd) | hd) | hd) | hd) | hd) | hd) | hd) | hd) | hd <;> subst hd <;> decide
    cases hw : isWs c with
    | false => rfl
    | true => exact absurd hr (this c hw)
  · decide

/-- characters of a non-empty `;`-joined list of numerals -/
theorem joined_chars (l : List Int) : ∀ c ∈ joinSep ';' (l.map showInt), c.isDigit = true ∨ c = '-' ∨ c = ';' := by
  intro c hc
  rcases mem_joinSep hc with h | ⟨t, ht, hct⟩
  · exact Or.inr (Or.inr h)
  · obtain ⟨v, _, rfl⟩ := List.mem_map.mp ht
    rcases showInt_chars v c hct with h | h
    · exact Or.inl h
    · exact Or.inr (Or.inl h)

theorem joinSep_ne_nil (sep : Char) (toks : List Str) (h : ∃ t ∈ toks, t ≠ []) : joinSep sep toks ≠ [] := by
  induction toks with
  | nil => obtain ⟨t, ht, _⟩ := h; simp at ht
  | cons t ts ih =>
    cases ts with
    | nil =>
      obtain ⟨u, hu, hne⟩ := h
      simp at hu; subst hu
      simpa [joinSep] using hne
    | cons t' ts' => simp [joinSep]

theorem joinSep_head (sep : Char) (t : Str) (ts : List Str) (ht : t ≠ []) :
    (joinSep sep (t :: ts)).head? = t.head? := by
  cases t with
  | nil => exact absurd rfl ht
  | cons c cs => cases ts <;> simp [joinSep]

theorem joinSep_getLast (sep : Char) (toks : List Str) (hne : toks ≠ []) (h : ∀ t ∈ toks, t ≠ []) :
    (joinSep sep toks).getLast? = (toks.getLast hne).getLast? := by
  induction toks with
  | nil => exact absurd rfl hne
  | cons t ts ih =>
    cases ts with
    | nil => simp [joinSep]
    | cons t' ts' =>
      have hne' : (t' :: ts') ≠ [] := by simp
      have ih' := ih hne' (fun x hx => h x (by simp [hx]))
      have hj : joinSep sep (t' :: ts') ≠ [] :=
        joinSep_ne_nil sep _ ⟨t', by simp, h t' (by simp)⟩
      obtain ⟨z, hz⟩ : ∃ z, (joinSep sep (t' :: ts')).getLast? = some z := by
        cases hq : (joinSep sep (t' :: ts')).getLast? with
        | none => exact absurd (List.getLast?_eq_none_iff.mp hq) hj
        | some z => exact ⟨z, rfl⟩
      simp only [joinSep] at ih' hz ⊢
      rw [List.getLast?_append, List.getLast?_cons, hz] 
      simp only [Option.getD_some, Option.some_or]
      rw [← hz, ih']
      simp

/-! ### compact instance strings -/

theorem itemTok_no_semi (it : Item) : ';' ∉ itemTok it := by
  intro hc
  unfold itemTok at hc
  rcases mem_joinSep hc with h | ⟨t, ht, hct⟩
  · exact absurd h (by decide)
  · have : ∃ v : Int, t = showInt v := by
      simp only [List.mem_append, List.mem_cons, List.not_mem_nil, or_false] at ht
      rcases ht with (rfl | rfl) | ht
      · exact ⟨_, rfl⟩
      · exact ⟨_, rfl⟩
      · split at ht
        · simp at ht
        · simp at ht; exact ⟨_, ht⟩
    obtain ⟨v, rfl⟩ := this
    exact showInt_no v ';' (by decide) (by decide) hct

theorem parseItem_itemTok (maxDim : Int) (it : Item)
    (hw : 1 ≤ it.w ∧ it.w ≤ maxDim) (hh : 1 ≤ it.h ∧ it.h ≤ maxDim)
    (hr : 1 ≤ it.rep ∧ it.rep ≤ 100000000) : parseItem maxDim (itemTok it) = some it := by
  have hno : ∀ v : Int, ',' ∉ showInt v := fun v => showInt_no v ',' (by decide) (by decide)
  unfold parseItem itemTok
  by_cases h1 : it.rep = 1
  · rw [if_pos h1, List.append_nil,
      splitSep_joinSep ',' _ (by simp) (by
        intro t ht
        simp only [List.mem_cons, List.not_mem_nil, or_false] at ht
        rcases ht with rfl | rfl <;> exact hno _)]
    simp only [List.getElem?_cons_zero, List.getElem?_cons_succ,
      checkToIntRange_showInt _ _ _ hw.1 hw.2, checkToIntRange_showInt _ _ _ hh.1 hh.2]
    cases it with
    | mk w h rep => simp at h1; simp [h1]
  · rw [if_neg h1,
      splitSep_joinSep ',' _ (by simp) (by
        intro t ht
        simp only [List.cons_append, List.nil_append, List.mem_cons, List.not_mem_nil, or_false] at ht
        rcases ht with rfl | rfl | rfl <;> exact hno _)]
    simp [checkToIntRange_showInt _ _ _ hw.1 hw.2, checkToIntRange_showInt _ _ _ hh.1 hh.2,
      checkToIntRange_showInt _ _ _ hr.1 hr.2]

theorem mapM_parseItem (maxDim : Int) (items : List Item)
    (h : ∀ it ∈ items, (1 ≤ it.w ∧ it.w ≤ maxDim) ∧ (1 ≤ it.h ∧ it.h ≤ maxDim) ∧
      (1 ≤ it.rep ∧ it.rep ≤ 100000000)) :
    (items.map itemTok).mapM (parseItem maxDim) = some items := by
  induction items with
  | nil => rfl
  | cons a t ih =>
    have ha := h a (by simp)
    simp [List.mapM_cons, parseItem_itemTok maxDim a ha.1 ha.2.1 ha.2.2,
      ih (fun it hit => h it (by simp [hit]))]

/-- the compact string splits into exactly the tokens it was joined from -/
theorem split_toCompactStr (I : NInst) (hname : ';' ∉ I.name) :
    splitSep ';' (toCompactStr I) =
      [I.name, showInt I.inst.items.length, showInt I.inst.W, showInt I.inst.H]
        ++ I.inst.items.map itemTok := by
  unfold toCompactStr
  apply splitSep_joinSep ';' _ (by simp)
  intro t ht
  simp only [List.cons_append, List.nil_append, List.mem_cons, List.mem_map] at ht
  rcases ht with rfl | rfl | rfl | rfl | ⟨it, _, rfl⟩
  · exact hname
  · exact showInt_no _ ';' (by decide) (by decide)
  · exact showInt_no _ ';' (by decide) (by decide)
  · exact showInt_no _ ';' (by decide) (by decide)
  · exact itemTok_no_semi it

theorem fromCompactStr_toCompactStr (san : Str → Bool) (hsan : ∀ s, san s = true → ';' ∉ s)
    (I : NInst) (hv : I.Valid san) : fromCompactStr san (toCompactStr I) = some I := by
  obtain ⟨hn, hW1, hW2, hH1, hH2, hl1, hl2, hitems, hni⟩ := hv
  unfold fromCompactStr
  rw [split_toCompactStr I (hsan _ hn)]
  simp only [List.cons_append, List.nil_append, List.getElem?_cons_zero, List.getElem?_cons_succ]
  rw [checkToIntRange_showInt _ _ _ (by omega) (by omega),
    checkToIntRange_showInt _ _ _ hW1 hW2, checkToIntRange_showInt _ _ _ hH1 hH2]
  simp only [List.drop_succ_cons, List.drop_zero, Int.toNat_natCast]
  have htake : (I.inst.items.map itemTok).take I.inst.items.length = I.inst.items.map itemTok := by
    apply List.take_of_length_le; simp
  rw [htake]
  simp only [List.length_map, ne_eq, not_true_eq_false, if_false]
  rw [mapM_parseItem (max I.inst.W I.inst.H) I.inst.items (fun it hit => by
    have := hitems it hit
    simp only [Inst.maxDim] at this
    exact ⟨⟨this.1, this.2.1⟩, ⟨this.2.2.1, this.2.2.2.1⟩, ⟨this.2.2.2.2.1, this.2.2.2.2.2.1⟩⟩)]
  unfold mkInst
  have hv' : (⟨I.name, ⟨I.inst.W, I.inst.H, I.inst.items⟩⟩ : NInst).Valid san :=
    ⟨hn, hW1, hW2, hH1, hH2, hl1, hl2, hitems, hni⟩
  simp only [hv', if_true]

/-! ### first line of plans and orderings -/

theorem not_ws_of_joined {l : List Int} {c : Char} (hc : c ∈ joinSep ';' (l.map showInt)) : isWs c = false := by
  rcases joined_chars l c hc with h | h | h
  · exact not_ws_of_numeral (Or.inl h)
  · exact not_ws_of_numeral (Or.inr h)
  · subst h; decide

theorem no_nl_of_joined (l : List Int) : '\n' ∉ joinSep ';' (l.map showInt) := by
  intro hc
  have := not_ws_of_joined hc
  revert this; decide

theorem joined_ne_nil {l : List Int} (h : l ≠ []) : joinSep ';' (l.map showInt) ≠ [] := by
  cases l with
  | nil => exact absurd rfl h
  | cons a t => exact joinSep_ne_nil ';' _ ⟨showInt a, by simp, showInt_ne_nil a⟩

theorem lstrip_of_all {s : Str} (h : ∀ c ∈ s, isWs c = false) : lstrip s = s :=
  lstrip_of_head (fun c hc => h c (List.mem_of_mem_head? hc))

theorem rstrip_of_all {s : Str} (h : ∀ c ∈ s, isWs c = false) : rstrip s = s :=
  rstrip_of_last (fun c hc => h c (List.mem_of_getLast? hc))

/-- the part of `from_str` shared by plans and orderings: the text handed to `np.fromstring` is the first line -/
theorem firstLine (l : List Int) (hne : l ≠ []) (rest : Str) :
    let first := joinSep ';' (l.map showInt)
    lstrip (first ++ '\n' :: rest) = first ++ '\n' :: rest ∧
    findNl (first ++ '\n' :: rest) = some first.length ∧ 0 < first.length ∧
    (first ++ '\n' :: rest).take first.length = first ∧ rstrip first = first := by
  intro first
  have hn : first ≠ [] := joined_ne_nil hne
  refine ⟨?_, findNl_append first rest (no_nl_of_joined l), List.length_pos_iff.mpr hn, by simp,
    rstrip_of_all (fun c hc => not_ws_of_joined hc)⟩
  apply lstrip_of_head
  intro c hc
  cases hf : first with
  | nil => exact absurd hf hn
  | cons d ds =>
    rw [hf] at hc
    simp at hc; subst hc
    exact not_ws_of_joined (l := l) (by show d ∈ first; rw [hf]; simp)

theorem chunk_flatten (n : Nat) (P : List (List Int)) (h : ∀ r ∈ P, r.length = n) :
    chunk n P.length P.flatten = P := by
  induction P with
  | nil => rfl
  | cons r t ih =>
    have hr := h r (by simp)
    simp only [List.length_cons, chunk, List.flatten_cons]
    rw [List.take_left' hr, List.drop_left' hr, ih (fun x hx => h x (by simp [hx]))]

theorem length_flatten_rows (n : Nat) (P : List (List Int)) (h : ∀ r ∈ P, r.length = n) :
    P.flatten.length = P.length * n := by
  induction P with
  | nil => simp
  | cons r t ih =>
    simp only [List.flatten_cons, List.length_append, List.length_cons,
      ih (fun x hx => h x (by simp [hx])), h r (by simp)]
    rw [Nat.succ_mul]; omega

theorem planFromStr_planToStr (n rounds : Nat) (dt : DType) (teams : List Str) (P : Plan) (s : Str)
    (hn : 2 ≤ n) (hr : 1 ≤ rounds) (hdt : dt.lo ≤ -(n : Int) ∧ (n : Int) ≤ dt.hi)
    (hP : PlanOk n rounds P) (hs : planToStr teams P = some s) : planFromStr n rounds dt s = some P := by
  obtain ⟨hlen, hrows, hvals⟩ := hP
  have hflat : P.flatten ≠ [] := by
    intro h
    have := length_flatten_rows n P hrows
    rw [h, hlen] at this
    simp only [List.length_nil, planDays] at this
    have h1 : 1 ≤ (n - 1) * rounds := Nat.mul_pos (by omega) hr
    have h2 : 1 ≤ (n - 1) * rounds * n := Nat.mul_pos h1 (by omega)
    omega
  unfold planToStr at hs
  split at hs
  · cases hs
  · rename_i rows _
    simp only [Option.some.injEq] at hs
    subst hs
    obtain ⟨h1, h2, h3, h4, h5⟩ := firstLine P.flatten hflat ('\n' :: (joinSep ' ' teams ++ rows.flatten))
    unfold planFromStr
    simp only [List.append_assoc, List.cons_append, List.nil_append] at h1 h2 h4 ⊢
    rw [h1]
    simp only [h2, h3, if_true, h4, h5]
    rw [fromstring_join dt P.flatten hflat (fun v hv => by
      obtain ⟨r, hr', hv'⟩ := List.mem_flatten.mp hv
      have := hvals r hr' v hv'
      omega)]
    simp only [length_flatten_rows n P hrows, hlen, ne_eq, not_true_eq_false, if_false]
    rw [← hlen, chunk_flatten n P hrows]
    have : PlanOk n rounds P := ⟨hlen, hrows, hvals⟩
    simp [this]

theorem ordFromStr_ordToStr (n : Nat) (dt : DType) (x : List Int) (tail : Str)
    (hn : 1 ≤ n) (hdt : dt.lo ≤ 0 ∧ (n : Int) - 1 ≤ dt.hi) (hx : OrdOk n x) :
    ordFromStr n dt (ordToStr x tail) = some x := by
  have hne : x ≠ [] := by
    intro h; have := hx.1; rw [h] at this; simp at this; omega
  obtain ⟨h1, h2, h3, h4, h5⟩ := firstLine x hne tail
  unfold ordFromStr ordToStr
  rw [h1]
  simp only [h2, h3, if_true, h4, h5]
  rw [fromstring_join dt x hne (fun v hv => by have := hx.2.1 v hv; omega)]
  simp [hx]

end Text
