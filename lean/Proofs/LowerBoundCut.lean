import Proofs.LowerBound
/-! C03 helper lemmas, part 2: the squares cut by `__cutsq` from an item tile (part of) every
placed copy of that item, hence a feasible packing of the items into `k` bins yields a placement
of all cut squares into the same `k` bins (`exists_square_packing`). -/
namespace Pack
open LB

/-! ## arithmetic of one Euclid step -/

theorem cut_step_facts (w h : Int) (hw : 0 ≤ w) (hh : 1 < h) :
    0 ≤ w / h ∧ 0 ≤ (w / h) * h ∧ (w / h) * h ≤ w ∧ w - (w / h) * h < h ∧
      (((w / h).toNat : Nat) : Int) * h = (w / h) * h := by
  have h1 := Int.mul_ediv_add_emod w h
  have h2 := Int.emod_nonneg w (show h ≠ 0 by omega)
  have h3 := Int.emod_lt_of_pos w (show 0 < h by omega)
  have h4 : 0 ≤ w / h := Int.ediv_nonneg hw (by omega)
  have h5 : 0 ≤ (w / h) * h := Int.mul_nonneg h4 (by omega)
  have h6 : (w / h) * h = h * (w / h) := Int.mul_comm _ _
  have h7 : (((w / h).toNat : Nat) : Int) = w / h := Int.toNat_of_nonneg h4
  rw [h7]
  refine ⟨h4, h5, ?_, ?_, rfl⟩ <;> omega

/-! ## fuel adequacy and bounds of `cutLoop` -/

theorem cutLoop_nil_of_le (f : Nat) (w h : Int) (hh : h ≤ 1) : cutLoop f w h = [] := by
  cases f with
  | zero => rfl
  | succ f =>
    unfold cutLoop
    rw [if_neg (by omega)]

theorem cutLoop_fuel (f1 f2 : Nat) (w h : Int) (h1 : h.toNat ≤ f1) (h2 : h.toNat ≤ f2) :
    cutLoop f1 w h = cutLoop f2 w h := by
  induction f1 generalizing f2 w h with
  | zero =>
    rw [cutLoop_nil_of_le 0 w h (by omega), cutLoop_nil_of_le f2 w h (by omega)]
  | succ f1 ih =>
    cases f2 with
    | zero => rw [cutLoop_nil_of_le _ w h (by omega), cutLoop_nil_of_le 0 w h (by omega)]
    | succ f2 =>
      by_cases hh : h > 1
      · unfold cutLoop
        rw [if_pos hh, if_pos hh]
        have h3 := Int.mul_ediv_add_emod w h
        have h4 := Int.emod_nonneg w (show h ≠ 0 by omega)
        have h5 := Int.emod_lt_of_pos w (show 0 < h by omega)
        have h6 : (w / h) * h = h * (w / h) := Int.mul_comm _ _
        rw [ih f2 h (w - w / h * h) (by omega) (by omega)]
      · rw [cutLoop_nil_of_le _ w h (by omega), cutLoop_nil_of_le _ w h (by omega)]

theorem cutLoop_bounds (fuel : Nat) (w h : Int) : ∀ s ∈ cutLoop fuel w h, 2 ≤ s ∧ s ≤ h := by
  induction fuel generalizing w h with
  | zero => intro s hs; simp [cutLoop] at hs
  | succ fuel ih =>
    intro s hs
    unfold cutLoop at hs
    split at hs
    · rename_i hh
      rcases List.mem_append.mp hs with hs | hs
      · have := (List.mem_replicate.mp hs).2
        omega
      · have h3 := Int.mul_ediv_add_emod w h
        have h5 := Int.emod_lt_of_pos w (show 0 < h by omega)
        have h6 : (w / h) * h = h * (w / h) := Int.mul_comm _ _
        have := ih _ _ s hs
        omega
    · simp at hs

/-! ## the tiling mirroring `cutLoop` -/

/-- `n` squares of side `s`, the first at `(x, y)`, advancing along `x` iff `hor` -/
def strip (bin id : Int) (hor : Bool) (s : Int) : Nat → Int → Int → List Row
  | 0, _, _ => []
  | n + 1, x, y =>
    ⟨id, bin, x, y, x + s, y + s⟩ ::
      (if hor then strip bin id hor s n (x + s) y else strip bin id hor s n x (y + s))

/-- squares tiling (part of) the region with origin `(x, y)`, long side `w` (horizontal iff `hor`)
and short side `h`; mirrors `cutLoop` with the same fuel -/
def tileLoop (bin id : Int) : Nat → Bool → Int → Int → Int → Int → List Row
  | 0, _, _, _, _, _ => []
  | fuel + 1, hor, x, y, w, h =>
    if h > 1 then
      strip bin id hor h (w / h).toNat x y ++
        (if hor then tileLoop bin id fuel false (x + (w / h) * h) y h (w - (w / h) * h)
         else tileLoop bin id fuel true x (y + (w / h) * h) h (w - (w / h) * h))
    else []

/-- the squares placed inside the rectangle of row `a` -/
def tile (a : Row) : List Row :=
  let p := orient (a.r - a.l) (a.t - a.b)
  tileLoop a.bin a.id p.2.toNat (decide (a.r - a.l ≥ a.t - a.b)) a.l a.b p.1 p.2

theorem strip_side (bin id : Int) (hor : Bool) (s : Int) (n : Nat) (x y : Int) :
    (strip bin id hor s n x y).map Row.side = List.replicate n s := by
  induction n generalizing x y with
  | zero => rfl
  | succ n ih =>
    unfold strip
    cases hor <;> simp [List.replicate_succ, Row.side, ih]

theorem tileLoop_side (bin id : Int) (fuel : Nat) (hor : Bool) (x y w h : Int) :
    (tileLoop bin id fuel hor x y w h).map Row.side = cutLoop fuel w h := by
  induction fuel generalizing hor x y w h with
  | zero => rfl
  | succ fuel ih =>
    unfold tileLoop cutLoop
    split
    · rw [List.map_append, strip_side]
      cases hor <;> simp [ih]
    · rfl

theorem strip_spec (bin id : Int) (hor : Bool) (s : Int) (hs : 0 ≤ s) (n : Nat) (x y : Int) :
    ∀ t ∈ strip bin id hor s n x y, t.id = id ∧ t.bin = bin ∧ t.r - t.l = s ∧ t.t - t.b = s ∧
      (hor = true → x ≤ t.l ∧ t.r ≤ x + (n : Int) * s ∧ t.b = y) ∧
      (hor = false → y ≤ t.b ∧ t.t ≤ y + (n : Int) * s ∧ t.l = x) := by
  induction n generalizing x y with
  | zero => intro t ht; simp [strip] at ht
  | succ n ih =>
    intro t ht
    have e : ((n + 1 : Nat) : Int) * s = (n : Int) * s + s := by
      rw [Int.natCast_succ, Int.add_mul, Int.one_mul]
    have hn : 0 ≤ (n : Int) * s := Int.mul_nonneg (by omega) hs
    rw [e]
    generalize (n : Int) * s = ns at *
    unfold strip at ht
    rcases List.mem_cons.mp ht with ht | ht
    · subst ht
      refine ⟨rfl, rfl, ?_, ?_, ?_, ?_⟩ <;> simp <;> omega
    · cases hor
      · simp only [Bool.false_eq_true, if_false] at ht
        have := ih _ _ t ht
        refine ⟨this.1, this.2.1, this.2.2.1, this.2.2.2.1, by simp, ?_⟩
        intro _
        have := this.2.2.2.2.2 rfl
        omega
      · simp only [if_true] at ht
        have := ih _ _ t ht
        refine ⟨this.1, this.2.1, this.2.2.1, this.2.2.2.1, ?_, by simp⟩
        intro _
        have := this.2.2.2.2.1 rfl
        omega

theorem strip_pairwise (bin id : Int) (hor : Bool) (s : Int) (hs : 0 ≤ s) (n : Nat) (x y : Int) :
    (strip bin id hor s n x y).Pairwise Row.Disjoint := by
  induction n generalizing x y with
  | zero => simp [strip]
  | succ n ih =>
    unfold strip
    rw [List.pairwise_cons]
    cases hor
    · simp only [Bool.false_eq_true, if_false]
      refine ⟨?_, ih _ _⟩
      intro c hc
      have := (strip_spec bin id false s hs n x (y + s) c hc).2.2.2.2.2 rfl
      unfold Row.Disjoint
      simp only
      omega
    · simp only [if_true]
      refine ⟨?_, ih _ _⟩
      intro c hc
      have := (strip_spec bin id true s hs n (x + s) y c hc).2.2.2.2.1 rfl
      unfold Row.Disjoint
      simp only
      omega

/-- (b): every tile carries `id`/`bin`, is a square of side ≥ 2 and lies inside the region -/
theorem tileLoop_spec (bin id : Int) (fuel : Nat) (hor : Bool) (x y w h : Int) (hw : 0 ≤ w) :
    ∀ t ∈ tileLoop bin id fuel hor x y w h, t.id = id ∧ t.bin = bin ∧
      t.t - t.b = t.r - t.l ∧ 2 ≤ t.r - t.l ∧
      (hor = true → x ≤ t.l ∧ t.r ≤ x + w ∧ y ≤ t.b ∧ t.t ≤ y + h) ∧
      (hor = false → x ≤ t.l ∧ t.r ≤ x + h ∧ y ≤ t.b ∧ t.t ≤ y + w) := by
  induction fuel generalizing hor x y w h with
  | zero => intro t ht; simp [tileLoop] at ht
  | succ fuel ih =>
    intro t ht
    unfold tileLoop at ht
    split at ht
    · rename_i hh
      obtain ⟨f1, f2, f3, f4, f5⟩ := cut_step_facts w h hw hh
      rcases List.mem_append.mp ht with ht | ht
      · have := strip_spec bin id hor h (by omega) _ x y t ht
        rw [f5] at this
        generalize (w / h) * h = qh at *
        obtain ⟨g1, g2, g3, g4, g5, g6⟩ := this
        refine ⟨g1, g2, by omega, by omega, ?_, ?_⟩
        · intro hb; have := g5 hb; omega
        · intro hb; have := g6 hb; omega
      · generalize (w / h) * h = qh at *
        cases hor
        · simp only [Bool.false_eq_true, if_false] at ht
          obtain ⟨g1, g2, g3, g4, g5, g6⟩ := ih true x (y + qh) h (w - qh) (by omega) t ht
          refine ⟨g1, g2, g3, g4, by simp, ?_⟩
          intro _; have := g5 rfl; omega
        · simp only [if_true] at ht
          obtain ⟨g1, g2, g3, g4, g5, g6⟩ := ih false (x + qh) y h (w - qh) (by omega) t ht
          refine ⟨g1, g2, g3, g4, ?_, by simp⟩
          intro _; have := g6 rfl; omega
    · simp at ht

/-- (c): the tiles do not overlap -/
theorem tileLoop_pairwise (bin id : Int) (fuel : Nat) (hor : Bool) (x y w h : Int) (hw : 0 ≤ w) :
    (tileLoop bin id fuel hor x y w h).Pairwise Row.Disjoint := by
  induction fuel generalizing hor x y w h with
  | zero => simp [tileLoop]
  | succ fuel ih =>
    unfold tileLoop
    split
    · rename_i hh
      obtain ⟨f1, f2, f3, f4, f5⟩ := cut_step_facts w h hw hh
      rw [List.pairwise_append]
      refine ⟨strip_pairwise bin id hor h (by omega) _ x y, ?_, ?_⟩
      · generalize (w / h) * h = qh at *
        cases hor
        · simp only [Bool.false_eq_true, if_false]; exact ih _ _ _ _ _ (by omega)
        · simp only [if_true]; exact ih _ _ _ _ _ (by omega)
      · intro a ha c hc
        have sa := strip_spec bin id hor h (by omega) _ x y a ha
        rw [f5] at sa
        generalize (w / h) * h = qh at *
        unfold Row.Disjoint
        cases hor
        · simp only [Bool.false_eq_true, if_false] at hc
          have sc := (tileLoop_spec bin id fuel true x (y + qh) h (w - qh) (by omega) c hc).2.2.2.2.1 rfl
          have := sa.2.2.2.2.2 rfl
          omega
        · simp only [if_true] at hc
          have sc := (tileLoop_spec bin id fuel false (x + qh) y h (w - qh) (by omega) c hc).2.2.2.2.2 rfl
          have := sa.2.2.2.2.1 rfl
          omega
    · simp

/-! ## tiling one placed item -/

theorem orient_swap (w h : Int) : orient h w = orient w h := by
  unfold orient
  split <;> split <;> first | rfl | (apply Prod.ext <;> simp <;> omega)

theorem cutOne_swap (w h : Int) : cutOne h w = cutOne w h := by
  unfold cutOne
  rw [orient_swap]

/-- (a) for a placed item: the sides of the tiles are exactly the squares cut from the item -/
theorem tile_side (a : Row) : (tile a).map Row.side = cutOne (a.r - a.l) (a.t - a.b) := by
  unfold tile cutOne
  exact tileLoop_side _ _ _ _ _ _ _ _

theorem tile_side_of_hasDims (a : Row) (it : Item) (h : a.HasDims it) :
    (tile a).map Row.side = cutOne it.w it.h := by
  rw [tile_side]
  rcases h with ⟨h1, h2⟩ | ⟨h1, h2⟩
  · rw [h1, h2]
  · rw [h1, h2, cutOne_swap]

theorem tile_spec (a : Row) (hx : 0 ≤ a.r - a.l) (hy : 0 ≤ a.t - a.b) :
    ∀ t ∈ tile a, t.id = a.id ∧ t.bin = a.bin ∧ t.t - t.b = t.r - t.l ∧ 2 ≤ t.r - t.l ∧
      a.l ≤ t.l ∧ t.r ≤ a.r ∧ a.b ≤ t.b ∧ t.t ≤ a.t := by
  intro t ht
  unfold tile orient at ht
  by_cases hc : a.t - a.b > a.r - a.l
  · have hd : decide (a.r - a.l ≥ a.t - a.b) = false := by simp; omega
    simp only [if_pos hc, hd] at ht
    obtain ⟨g1, g2, g3, g4, _, g6⟩ := tileLoop_spec _ _ _ _ _ _ _ _ (by omega) t ht
    have := g6 rfl
    refine ⟨g1, g2, g3, g4, ?_⟩
    omega
  · have hd : decide (a.r - a.l ≥ a.t - a.b) = true := by simp; omega
    simp only [if_neg hc, hd] at ht
    obtain ⟨g1, g2, g3, g4, g5, _⟩ := tileLoop_spec _ _ _ _ _ _ _ _ (by omega) t ht
    have := g5 rfl
    refine ⟨g1, g2, g3, g4, ?_⟩
    omega

theorem tile_pairwise (a : Row) (hx : 0 ≤ a.r - a.l) (hy : 0 ≤ a.t - a.b) :
    (tile a).Pairwise Row.Disjoint := by
  unfold tile orient
  apply tileLoop_pairwise
  split <;> simp only <;> omega

theorem Row.Disjoint.symm {a c : Row} (h : a.Disjoint c) : c.Disjoint a := by
  unfold Row.Disjoint at *
  omega

/-! ## counting -/

theorem count_flatMap_int {α β} [DecidableEq β] (l : List α) (f : α → List β) (v : β) :
    (((l.flatMap f).count v : Nat) : Int)
      = (l.map (fun a => (((f a).count v : Nat) : Int))).sum := by
  induction l with
  | nil => simp
  | cons a t ih =>
    simp only [List.flatMap_cons, List.count_append, List.map_cons, List.sum_cons]
    push_cast
    rw [ih]

theorem count_replicate_flatten {β} [DecidableEq β] (n : Nat) (s : List β) (v : β) :
    (List.replicate n s).flatten.count v = n * s.count v := by
  induction n with
  | zero => simp
  | succ n ih =>
    rw [List.replicate_succ, List.flatten_cons, List.count_append, ih, Nat.succ_mul]
    omega

theorem count_cutItem (it : Item) (v : Int) (hrep : 1 ≤ it.rep) :
    (((cutItem it).count v : Nat) : Int) = it.rep * (((cutOne it.w it.h).count v : Nat) : Int) := by
  unfold cutItem
  simp only
  split
  · rw [count_replicate_flatten]
    push_cast
    rw [Int.toNat_of_nonneg (by omega)]
  · have : it.rep = 1 := by omega
    rw [this, Int.one_mul]

/-! ## the square packing induced by a feasible packing -/

theorem exists_square_packing (I : Inst) (rows : List Row) (k : Int) (hv : I.Valid)
    (hf : Feasible I rows k) :
    ∃ P : List Row, SqPacking I.W I.H k P ∧ List.Perm (P.map Row.side) (I.items.flatMap cutItem) := by
  obtain ⟨hlen, hdims, hin, hcount, hpw, hbin, _⟩ := hf
  obtain ⟨hW, _, hH, _, _, _, hitems, _⟩ := hv
  have hmemOf : ∀ id it, I.item? id = some it → it ∈ I.items := by
    intro id it h1
    unfold Inst.item? at h1
    split at h1
    · simp at h1
    · exact List.mem_of_getElem? h1
  have hgeo : ∀ a ∈ rows, 0 ≤ a.r - a.l ∧ 0 ≤ a.t - a.b := by
    intro a ha
    obtain ⟨it, h1, h2⟩ := hdims a ha
    have := hitems it (hmemOf _ _ h1)
    unfold Row.HasDims at h2
    omega
  have hkey : ∀ a ∈ rows, 1 ≤ a.id ∧ a.id ≤ (I.nTypes : Int) := by
    intro a ha
    obtain ⟨it, h1, _⟩ := hdims a ha
    have := item?_eq I a.id it h1
    exact ⟨this.1, this.2.1⟩
  have hsub : ∀ t ∈ rows.flatMap tile, ∃ a ∈ rows, t ∈ tile a := fun t ht => List.mem_flatMap.mp ht
  refine ⟨rows.flatMap tile, ⟨?_, ?_, ?_, ?_, ?_⟩, ?_⟩
  · intro t ht
    obtain ⟨a, ha, hta⟩ := hsub t ht
    exact (tile_spec a (hgeo a ha).1 (hgeo a ha).2 t hta).2.2.1
  · intro t ht
    obtain ⟨a, ha, hta⟩ := hsub t ht
    have := (tile_spec a (hgeo a ha).1 (hgeo a ha).2 t hta).2.2.2.1
    omega
  · intro t ht
    obtain ⟨a, ha, hta⟩ := hsub t ht
    have := (tile_spec a (hgeo a ha).1 (hgeo a ha).2 t hta).2.2.2.2
    have := hin a ha
    omega
  · intro t ht
    obtain ⟨a, ha, hta⟩ := hsub t ht
    have := (tile_spec a (hgeo a ha).1 (hgeo a ha).2 t hta).2.1
    have := hbin a ha
    omega
  · rw [List.pairwise_flatMap]
    constructor
    · intro a ha
      exact List.Pairwise.imp (S := fun (a c : Row) => a.bin = c.bin → a.Disjoint c) (fun h _ => h)
        (tile_pairwise a (hgeo a ha).1 (hgeo a ha).2)
    · apply List.Pairwise.imp_of_mem _ hpw
      intro a c ha hc hac t ht u hu hb
      have st := tile_spec a (hgeo a ha).1 (hgeo a ha).2 t ht
      have su := tile_spec c (hgeo c hc).1 (hgeo c hc).2 u hu
      have hd := hac (by omega)
      unfold Row.Disjoint at *
      omega
  · rw [List.perm_iff_count]
    intro v
    have key : ((List.count v ((rows.flatMap tile).map Row.side) : Nat) : Int)
        = ((List.count v (I.items.flatMap cutItem) : Nat) : Int) := by
      rw [List.map_flatMap, count_flatMap_int, count_flatMap_int,
        sum_by_key rows (fun a => a.id) _ I.nTypes hkey, sum_map_eq_range I.items]
      apply congrArg
      apply List.map_congr_left
      intro i hi
      have hi' : i < I.items.length := by simpa [Inst.nTypes] using List.mem_range.mp hi
      have hc := hcount i hi
      have hmem : I.items.getD i default ∈ I.items := by
        rw [List.getD_eq_getElem?_getD, List.getElem?_eq_getElem hi']
        simp
      have hconst : ∀ a ∈ rows.filter (fun a => a.id = (i : Int) + 1),
          (((List.count v ((tile a).map Row.side) : Nat) : Int))
            = ((List.count v (cutOne (I.items.getD i default).w (I.items.getD i default).h) : Nat) : Int) := by
        intro a ha
        have ha' := List.mem_filter.mp ha
        obtain ⟨it, h1, h2⟩ := hdims a ha'.1
        have hid : a.id = (i : Int) + 1 := by simpa using ha'.2
        have := (item?_eq I a.id it h1).2.2
        rw [hid] at this
        have hnat : ((i : Int) + 1 - 1).toNat = i := by omega
        rw [hnat] at this
        rw [this, tile_side_of_hasDims a it h2]
      rw [sum_const_filter _ _ _ hconst, hc]
      exact (count_cutItem _ v (hitems _ hmem).2.2.2.2.1).symm
    exact_mod_cast key

end Pack
