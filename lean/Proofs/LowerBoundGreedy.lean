import Model.LowerBound
/-!
# The greedy S2/S3 matching of `__lb_q` is dominated by every feasible assignment

`Pack.LB.greedy_dominates`: exchange argument, induction over the S2 squares (ascending, i.e.
residuals descending).  Core Lean only.
-/
namespace Pack
namespace LB

/-- permutations of integer lists have equal sums (core-only replacement of `List.Perm.sum_eq`) -/
theorem perm_sum_int {l₁ l₂ : List Int} (h : l₁.Perm l₂) : l₁.sum = l₂.sum := by
  induction h with
  | nil => rfl
  | cons x _ ih => simp [ih]
  | swap x y l => simp only [List.sum_cons]; omega
  | trans _ _ ih1 ih2 => omega

/-- `removeFirstFit` fails only if nothing fits -/
theorem rff_none {r : Int} : ∀ {s : List Int}, removeFirstFit r s = none → ∀ x ∈ s, r < x
  | [], _, x, hx => by simp at hx
  | y :: ys, h, x, hx => by
    simp only [removeFirstFit] at h
    split at h
    · simp at h
    · rename_i hy
      simp only [Option.map_eq_none_iff] at h
      rcases List.mem_cons.1 hx with rfl | hx'
      · omega
      · exact rff_none h x hx'

/-- on a descending list `removeFirstFit` removes the largest fitting element -/
theorem rff_some {r : Int} : ∀ {s s' : List Int}, s.Pairwise (· ≥ ·) →
    removeFirstFit r s = some s' →
    ∃ g, g ≤ r ∧ s.Perm (g :: s') ∧ s'.Pairwise (· ≥ ·) ∧ ∀ x ∈ s, x ≤ r → x ≤ g
  | [], _, _, h => by simp [removeFirstFit] at h
  | y :: ys, s', hpw, h => by
    simp only [removeFirstFit] at h
    rw [List.pairwise_cons] at hpw
    split at h
    · rename_i hy
      simp only [Option.some.injEq] at h
      subst h
      refine ⟨y, hy, List.Perm.refl _, hpw.2, ?_⟩
      intro x hx _
      rcases List.mem_cons.1 hx with rfl | hx'
      · exact Int.le_refl _
      · exact hpw.1 x hx'
    · rename_i hy
      rw [Option.map_eq_some_iff] at h
      obtain ⟨t, ht, rfl⟩ := h
      obtain ⟨g, hg, hperm, htpw, hmax⟩ := rff_some hpw.2 ht
      refine ⟨g, hg, (hperm.cons y).trans (List.Perm.swap g y t), ?_, ?_⟩
      · rw [List.pairwise_cons]
        refine ⟨?_, htpw⟩
        intro a ha
        exact hpw.1 a (hperm.mem_iff.2 (List.mem_cons_of_mem _ ha))
      · intro x hx hxr
        rcases List.mem_cons.1 hx with rfl | hx'
        · omega
        · exact hmax x hx' hxr

/-- a list of length `≤ 1` containing `g` is `[g]` -/
theorem eq_singleton_of_mem {c : List Int} {g : Int} (h1 : c.length ≤ 1) (hg : g ∈ c) :
    c = [g] := by
  match c, h1, hg with
  | [a], _, hg => simp at hg; simp [hg]
  | _ :: _ :: _, h1, _ => simp at h1

/-- a list of length `≤ 1` whose elements are `≤ g` (with `0 ≤ g`) has sum `≤ g` -/
theorem sum_le_of_short {c : List Int} {g : Int} (h1 : c.length ≤ 1) (hcg : ∀ x ∈ c, x ≤ g)
    (hg0 : 0 ≤ g) : c.sum ≤ g := by
  match c, h1, hcg with
  | [], _, _ => simpa using hg0
  | [a], _, hcg => simpa using hcg a (by simp)
  | _ :: _ :: _, h1, _ => simp at h1

/-- exchange step: the element `g` taken by the greedy is removed from a feasible assignment in
which the current S2 bin holds `c` (`c` is handed to whoever held `g`) -/
theorem exchange (W g : Int) (c : List Int) (B : List (Int × List Int)) (others s3' : List Int)
    (hc1 : c.length ≤ 1) (hcg : ∀ x ∈ c, x ≤ g) (hg0 : 0 ≤ g)
    (hfit : ∀ b ∈ B, b.2.length ≤ 1 ∧ ∀ x ∈ b.2, x ≤ W - b.1)
    (hp : (g :: s3').Perm (c ++ (B.flatMap Prod.snd ++ others))) :
    ∃ (B' : List (Int × List Int)) (others' : List Int),
      (B'.map Prod.fst).Perm (B.map Prod.fst) ∧
      (∀ b ∈ B', b.2.length ≤ 1 ∧ ∀ x ∈ b.2, x ≤ W - b.1) ∧
      s3'.Perm (B'.flatMap Prod.snd ++ others') ∧
      others'.sum ≤ others.sum ∧ others'.length ≤ others.length := by
  have hgm : g ∈ c ++ (B.flatMap Prod.snd ++ others) := hp.mem_iff.1 List.mem_cons_self
  rcases List.mem_append.1 hgm with hgc | hgm
  · -- the current bin already holds `g`
    have hc := eq_singleton_of_mem hc1 hgc
    subst hc
    exact ⟨B, others, List.Perm.refl _, hfit, hp.cons_inv, Int.le_refl _, Nat.le_refl _⟩
  rcases List.mem_append.1 hgm with hgB | hgo
  · -- another S2 bin `b'` holds `g`: it gets `c` instead
    obtain ⟨b', hb', hgb'⟩ := List.mem_flatMap.1 hgB
    have hb'2 : b'.2 = [g] := eq_singleton_of_mem (hfit b' hb').1 hgb'
    have hbe := List.perm_cons_erase hb'
    refine ⟨(b'.1, c) :: B.erase b', others, ?_, ?_, ?_, Int.le_refl _, Nat.le_refl _⟩
    · have := (hbe.map Prod.fst).symm
      simpa using this
    · intro b hb
      rcases List.mem_cons.1 hb with rfl | hb
      · refine ⟨hc1, fun x hx => ?_⟩
        have h1 := hcg x hx
        have h2 := (hfit b' hb').2 g hgb'
        show x ≤ W - b'.1
        omega
      · exact hfit b (List.mem_of_mem_erase hb)
    · have h1 := hbe.flatMap_right Prod.snd
      rw [List.flatMap_cons, hb'2] at h1
      have h2 := hp.trans ((h1.append_right others).append_left c)
      rw [List.perm_iff_count] at h2 ⊢
      intro a
      have := h2 a
      simp only [List.count_append, List.count_cons, List.flatMap_cons, List.count_nil] at this ⊢
      omega
  · -- `g` is among the unassigned squares: it is replaced by `c`
    have hoe := List.perm_cons_erase hgo
    refine ⟨B, c ++ others.erase g, List.Perm.refl _, hfit, ?_, ?_, ?_⟩
    · have h2 := hp.trans ((hoe.append_left (B.flatMap Prod.snd)).append_left c)
      rw [List.perm_iff_count] at h2 ⊢
      intro a
      have := h2 a
      simp only [List.count_append, List.count_cons] at this ⊢
      omega
    · have h1 := perm_sum_int hoe
      have h2 := sum_le_of_short hc1 hcg hg0
      simp only [List.sum_append, List.sum_cons] at h1 ⊢
      omega
    · have h1 := hoe.length_eq
      simp only [List.length_append, List.length_cons] at h1 ⊢
      omega

/-- The remainder of the greedy matching is dominated (total side length and count) by the
unassigned S3 squares of every feasible assignment of S3 squares to S2 bins. -/
theorem greedy_dominates (W : Int) (s2asc s3 others : List Int) (bins2 : List (Int × List Int))
    (hs2 : s2asc.Pairwise (· ≤ ·)) (hs3 : s3.Pairwise (· ≥ ·)) (hnn : ∀ x ∈ s3, 0 ≤ x)
    (hb : List.Perm s2asc (bins2.map Prod.fst))
    (hfit : ∀ b ∈ bins2, b.2.length ≤ 1 ∧ ∀ x ∈ b.2, x ≤ W - b.1)
    (hp : List.Perm s3 (bins2.flatMap Prod.snd ++ others)) :
    (greedy W s2asc s3).sum ≤ others.sum ∧ (greedy W s2asc s3).length ≤ others.length := by
  induction s2asc generalizing s3 others bins2 with
  | nil =>
    have hb0 : bins2 = [] := by
      have := List.nil_perm.1 hb
      simpa using this
    subst hb0
    simp only [List.flatMap_nil, List.nil_append] at hp
    simp only [greedy]
    exact ⟨Int.le_of_eq (perm_sum_int hp), Nat.le_of_eq hp.length_eq⟩
  | cons l2 rest ih =>
    rw [List.pairwise_cons] at hs2
    have hres : ∀ b ∈ bins2, W - b.1 ≤ W - l2 := by
      intro b hbm
      have hm : b.1 ∈ l2 :: rest := hb.mem_iff.2 (List.mem_map_of_mem hbm)
      rcases List.mem_cons.1 hm with h | h
      · omega
      · have := hs2.1 _ h
        omega
    cases hrf : removeFirstFit (W - l2) s3 with
    | none =>
      have hgt := rff_none hrf
      have hfm : bins2.flatMap Prod.snd = [] := by
        rw [List.flatMap_eq_nil_iff]
        intro b hbm
        rw [List.eq_nil_iff_forall_not_mem]
        intro x hx
        have hxs : x ∈ s3 :=
          hp.mem_iff.2 (List.mem_append_left _ (List.mem_flatMap.2 ⟨b, hbm, hx⟩))
        have h1 := hgt x hxs
        have h2 := (hfit b hbm).2 x hx
        have h3 := hres b hbm
        omega
      rw [hfm, List.nil_append] at hp
      simp only [greedy, hrf]
      exact ⟨Int.le_of_eq (perm_sum_int hp), Nat.le_of_eq hp.length_eq⟩
    | some s3' =>
      obtain ⟨g, hgr, hperm, hpw', hmax⟩ := rff_some hs3 hrf
      have hl2 : l2 ∈ bins2.map Prod.fst := hb.mem_iff.1 List.mem_cons_self
      obtain ⟨b, hbm, hb1⟩ := List.mem_map.1 hl2
      have hbe := List.perm_cons_erase hbm
      have hrest : rest.Perm ((bins2.erase b).map Prod.fst) := by
        have := hb.trans (hbe.map Prod.fst)
        rw [List.map_cons, hb1] at this
        exact this.cons_inv
      have hp2 : (g :: s3').Perm (b.2 ++ ((bins2.erase b).flatMap Prod.snd ++ others)) := by
        have h1 := hbe.flatMap_right Prod.snd
        rw [List.flatMap_cons] at h1
        have := hperm.symm.trans (hp.trans (h1.append_right others))
        simpa [List.append_assoc] using this
      have hgs3 : g ∈ s3 := hperm.mem_iff.2 List.mem_cons_self
      have hcg : ∀ x ∈ b.2, x ≤ g := by
        intro x hx
        have hxs : x ∈ s3 :=
          hp.mem_iff.2 (List.mem_append_left _ (List.mem_flatMap.2 ⟨b, hbm, hx⟩))
        have h2 := (hfit b hbm).2 x hx
        rw [hb1] at h2
        exact hmax x hxs h2
      obtain ⟨B', others', hB', hfit', hp', hsum, hlen⟩ :=
        exchange W g b.2 (bins2.erase b) others s3' (hfit b hbm).1 hcg (hnn g hgs3)
          (fun b' hb' => hfit b' (List.mem_of_mem_erase hb')) hp2
      have hih := ih s3' others' B' hs2.2 hpw'
        (fun x hx => hnn x (hperm.mem_iff.2 (List.mem_cons_of_mem _ hx)))
        (hrest.trans hB'.symm) hfit' hp'
      simp only [greedy, hrf]
      omega

end LB
end Pack
