import Model.Tsp
import Proofs.ListLemmas
/-! Helper lemmas for C05 (core Lean only). -/
namespace Tsp
open ListLemmas

/-- the directed edges of the closed tour: consecutive pairs, then (last, first) -/
def pairsFrom (f : Nat) : List Nat → List (Nat × Nat)
  | [] => []
  | [a] => [(a, f)]
  | a :: b :: r => (a, b) :: pairsFrom f (b :: r)

theorem tourLenLoop_eq (d : Matrix) (c : Nat) (rest : List Nat) (acc : Int) (last : Nat) :
    tourLenLoop d (c :: rest) acc last = acc + entry d last c + pathSum d (c :: rest) := by
  induction rest generalizing c acc last with
  | nil => simp [tourLenLoop, pathSum]
  | cons b r ih =>
    rw [tourLenLoop, ih]
    simp [pathSum]; omega

theorem tourLen_eq_cyclicSum' (d : Matrix) (x : List Nat) (hx : x ≠ []) :
    tourLen d x = cyclicSum d x := by
  cases x with
  | nil => exact absurd rfl hx
  | cons c rest =>
    unfold tourLen cyclicSum
    rw [tourLenLoop_eq]
    simp; omega

theorem pairsFrom_map_fst (f : Nat) (x : List Nat) : (pairsFrom f x).map Prod.fst = x := by
  induction x with
  | nil => rfl
  | cons a t ih =>
    cases t with
    | nil => rfl
    | cons b r => simp [pairsFrom] at ih ⊢; exact ih

theorem pathSum_closing (d : Matrix) (f : Nat) (x : List Nat) (hx : x ≠ []) :
    ((pairsFrom f x).map (fun p => entry d p.1 p.2)).sum = pathSum d x + entry d (x.getLastD 0) f := by
  induction x with
  | nil => exact absurd rfl hx
  | cons a t ih =>
    cases t with
    | nil => simp [pairsFrom, pathSum]
    | cons b r =>
      have := ih (by simp)
      simp [pairsFrom, pathSum] at this ⊢
      omega

theorem cyclicSum_eq_pairs (d : Matrix) (x : List Nat) (hx : x ≠ []) :
    cyclicSum d x = ((pairsFrom (x.headD 0) x).map (fun p => entry d p.1 p.2)).sum := by
  rw [pathSum_closing d _ x hx]; rfl

/-- in a duplicate-free list whose last element differs from `f`, no edge is a loop,
and every edge target is `f` or a member -/
theorem pairsFrom_ne (f : Nat) (x : List Nat) (hnd : x.Nodup) (hf : ∀ l, x.getLast? = some l → l ≠ f) :
    ∀ p ∈ pairsFrom f x, p.1 ≠ p.2 ∧ (p.2 = f ∨ p.2 ∈ x) := by
  induction x with
  | nil => simp [pairsFrom]
  | cons a t ih =>
    cases t with
    | nil =>
      intro p hp
      simp [pairsFrom] at hp
      subst hp
      exact ⟨hf a (by simp), Or.inl rfl⟩
    | cons b r =>
      intro p hp
      simp only [pairsFrom, List.mem_cons] at hp
      rcases hp with hp | hp
      · subst hp
        have : a ≠ b := by
          intro h; subst h
          simp at hnd
        exact ⟨this, Or.inr (by simp)⟩
      · have hnd' : (b :: r).Nodup := (List.nodup_cons.mp hnd).2
        have hf' : ∀ l, (b :: r).getLast? = some l → l ≠ f := by
          intro l hl; apply hf l; simpa [List.getLast?_cons_cons] using hl
        have := ih hnd' hf' p (by simpa [pairsFrom] using hp)
        refine ⟨this.1, ?_⟩
        rcases this.2 with h | h
        · exact Or.inl h
        · exact Or.inr (List.mem_cons_of_mem _ h)

/-! ### nearest / farthest neighbour folds -/

theorem foldFar_ge (g : Nat → Int) (i : Nat) (l : List Nat) (init : Int) :
    init ≤ l.foldl (fun f j => if j = i then f else max f (g j)) init ∧
    ∀ j ∈ l, j ≠ i → g j ≤ l.foldl (fun f j => if j = i then f else max f (g j)) init := by
  induction l generalizing init with
  | nil => simp
  | cons a t ih =>
    simp only [List.foldl_cons]
    by_cases ha : a = i
    · simp only [ha, if_true]
      refine ⟨(ih init).1, ?_⟩
      intro j hj hji
      simp only [List.mem_cons] at hj
      rcases hj with hj | hj
      · exact absurd hj hji
      · exact (ih init).2 j hj hji
    · simp only [ha, if_false]
      have h1 := ih (max init (g a))
      refine ⟨by have := h1.1; omega, ?_⟩
      intro j hj hji
      simp only [List.mem_cons] at hj
      rcases hj with hj | hj
      · subst hj; have := h1.1; omega
      · exact h1.2 j hj hji

theorem foldNear_le (g : Nat → Int) (i : Nat) (l : List Nat) (init : Int) :
    l.foldl (fun f j => if j = i then f else min f (g j)) init ≤ init ∧
    ∀ j ∈ l, j ≠ i → l.foldl (fun f j => if j = i then f else min f (g j)) init ≤ g j := by
  induction l generalizing init with
  | nil => simp
  | cons a t ih =>
    simp only [List.foldl_cons]
    by_cases ha : a = i
    · simp only [ha, if_true]
      refine ⟨(ih init).1, ?_⟩
      intro j hj hji
      simp only [List.mem_cons] at hj
      rcases hj with hj | hj
      · exact absurd hj hji
      · exact (ih init).2 j hj hji
    · simp only [ha, if_false]
      have h1 := ih (min init (g a))
      refine ⟨by have := h1.1; omega, ?_⟩
      intro j hj hji
      simp only [List.mem_cons] at hj
      rcases hj with hj | hj
      · subst hj; have := h1.1; omega
      · exact h1.2 j hj hji

theorem entry_le_rowFar (d : Matrix) (n i j : Nat) (hj : j < n) (hij : i ≠ j) :
    entry d i j ≤ rowFar d n i :=
  (foldFar_ge (entry d i) i (List.range n) (-1)).2 j (List.mem_range.mpr hj) (Ne.symm hij)

theorem rowNear_le_entry (d : Matrix) (n i j : Nat) (hj : j < n) (hij : i ≠ j) :
    rowNear d n i ≤ entry d i j :=
  (foldNear_le (entry d i) i (List.range n) _).2 j (List.mem_range.mpr hj) (Ne.symm hij)

theorem foldNear_nonneg (g : Nat → Int) (i : Nat) (l : List Nat) (init : Int) (hi : 0 ≤ init)
    (hg : ∀ j ∈ l, 0 ≤ g j) : 0 ≤ l.foldl (fun f j => if j = i then f else min f (g j)) init := by
  induction l generalizing init with
  | nil => simpa
  | cons a t ih =>
    simp only [List.foldl_cons]
    apply ih
    · split
      · exact hi
      · have := hg a (by simp); omega
    · intro j hj; exact hg j (by simp [hj])

theorem entry_mem (M : Matrix) (i j : Nat) (hi : i < M.length) (hj : j < (M[i]).length) :
    entry M i j = (M[i])[j] := by
  unfold entry
  simp [List.getD_eq_getElem?_getD, List.getElem?_eq_getElem hi, List.getElem?_eq_getElem hj]


end Tsp
