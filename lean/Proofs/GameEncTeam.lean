import Proofs.GameEncBalance
/-!
Helper lemmas for C15, part 4: home/away counts of a team in the explicit list of games.
-/
namespace GameEnc

def triX (t n : Nat) : Nat := tri n (fun i _ => i == t)
def triY (t n : Nat) : Nat := tri n (fun _ j => j == t)

theorem round_home (n rounds r t : Nat) :
    tri n (fun i j => homeOf n (gcode n (orient rounds r i j) i j) == t)
      = tri n (fun i j => (if orient rounds r i j = true then i else j) == t) := by
  apply tri_congr
  intro i hi j hj
  rw [home_gcode n i j _ hj hi]

theorem round_away (n rounds r t : Nat) :
    tri n (fun i j => awayOf n (gcode n (orient rounds r i j) i j) == t)
      = tri n (fun i j => (if orient rounds r i j = true then j else i) == t) := by
  apply tri_congr
  intro i hi j hj
  rw [away_gcode n i j _ hj hi]

theorem round_home_normal (n rounds r t : Nat) (h : r + 1 < rounds ∨ rounds % 2 = 0) :
    tri n (fun i j => (if orient rounds r i j = true then i else j) == t)
      = if (r % 2 == 0) = true then triX t n else triY t n := by
  unfold triX triY
  have : ∀ i j, orient rounds r i j = (r % 2 == 0) := fun i j => orient_normal rounds r i j h
  simp only [this]
  cases (r % 2 == 0) <;> simp

theorem round_away_normal (n rounds r t : Nat) (h : r + 1 < rounds ∨ rounds % 2 = 0) :
    tri n (fun i j => (if orient rounds r i j = true then j else i) == t)
      = if (r % 2 == 0) = true then triY t n else triX t n := by
  unfold triX triY
  have : ∀ i j, orient rounds r i j = (r % 2 == 0) := fun i j => orient_normal rounds r i j h
  simp only [this]
  cases (r % 2 == 0) <;> simp

theorem sum_alternating (X Y k : Nat) :
    (k % 2 = 0 → ((List.range k).map (fun r => if (r % 2 == 0) = true then X else Y)).sum
        = ((List.range k).map (fun r => if (r % 2 == 0) = true then Y else X)).sum) ∧
    (k % 2 = 1 → ((List.range k).map (fun r => if (r % 2 == 0) = true then X else Y)).sum + Y
        = ((List.range k).map (fun r => if (r % 2 == 0) = true then Y else X)).sum + X) := by
  induction k with
  | zero => simp
  | succ m ih =>
    rw [sum_range_succ, sum_range_succ]
    have hm : m % 2 = 0 ∨ m % 2 = 1 := by omega
    rcases hm with hm | hm
    · have := ih.1 hm
      have e : (m % 2 == 0) = true := by simp [hm]
      simp only [e, if_true]; omega
    · have := ih.2 hm
      have e : (m % 2 == 0) = false := by simp [hm]
      simp only [e, Bool.false_eq_true, if_false]; omega

theorem pure_home (n rounds t : Nat) :
    homeCount n (pureGames n rounds) t
      = ((List.range rounds).map (fun r => tri n (fun i j => (if orient rounds r i j = true then i else j) == t))).sum := by
  unfold homeCount
  rw [countP_pureGames]
  exact sum_range_congr _ _ _ (fun r _ => round_home n rounds r t)

theorem pure_away (n rounds t : Nat) :
    awayCount n (pureGames n rounds) t
      = ((List.range rounds).map (fun r => tri n (fun i j => (if orient rounds r i j = true then j else i) == t))).sum := by
  unfold awayCount
  rw [countP_pureGames]
  exact sum_range_congr _ _ _ (fun r _ => round_away n rounds r t)

/-- team balance of the explicit list: equal for an even number of rounds, the last round's
difference otherwise -/
theorem pure_team_balance (n rounds t : Nat) :
    homeCount n (pureGames n rounds) t ≤ awayCount n (pureGames n rounds) t + 1 ∧
    awayCount n (pureGames n rounds) t ≤ homeCount n (pureGames n rounds) t + 1 := by
  rw [pure_home, pure_away]
  by_cases he : rounds % 2 = 0
  · rw [sum_range_congr _ _ rounds (fun r _ => round_home_normal n rounds r t (Or.inr he)),
      sum_range_congr _ _ rounds (fun r _ => round_away_normal n rounds r t (Or.inr he))]
    have := (sum_alternating (triX t n) (triY t n) rounds).1 he
    omega
  · obtain ⟨k, rfl⟩ : ∃ k, rounds = k + 1 := ⟨rounds - 1, by omega⟩
    have hk : k % 2 = 0 := by omega
    rw [sum_range_succ, sum_range_succ,
      sum_range_congr _ _ k (fun r hr => round_home_normal n (k + 1) r t (Or.inl (by omega))),
      sum_range_congr _ _ k (fun r hr => round_away_normal n (k + 1) r t (Or.inl (by omega)))]
    have hs := (sum_alternating (triX t n) (triY t n) k).1 hk
    have hl := last_balance_le t n
    have e1 : tri n (fun i j => (if orient (k + 1) k i j = true then i else j) == t) = lastH t n := by
      unfold lastH; simp only [orient_last k _ _ hk]
    have e2 : tri n (fun i j => (if orient (k + 1) k i j = true then j else i) == t) = lastA t n := by
      unfold lastA; simp only [orient_last k _ _ hk]
    rw [e1, e2]
    omega

end GameEnc
