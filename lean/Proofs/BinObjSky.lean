import Proofs.BinObj
/-! Helper lemmas for C02, skyline part: the sweep of `bin_count_and_last_skyline` /
`bin_count_and_lowest_skyline` computes `Σ_{0 ≤ x < W} sky x` — for every list of rows. -/
namespace BinObj
open Pack ListLemmas

/-! ### the skyline function is a maximum -/
theorem foldl_max_ge (l : List Int) (m : Int) : m ≤ l.foldl max m := by
  induction l generalizing m with
  | nil => simp
  | cons x t ih => have := ih (max m x); simp only [List.foldl_cons]; omega

theorem foldl_max_mem_ge (l : List Int) (m : Int) : ∀ v ∈ l, v ≤ l.foldl max m := by
  induction l generalizing m with
  | nil => simp
  | cons x t ih =>
    intro v hv
    simp only [List.foldl_cons]
    rcases List.mem_cons.mp hv with h | h
    · subst h; have := foldl_max_ge t (max m v); omega
    · exact ih _ v h

theorem foldl_max_attained (l : List Int) (m : Int) : l.foldl max m = m ∨ l.foldl max m ∈ l := by
  induction l generalizing m with
  | nil => simp
  | cons x t ih =>
    simp only [List.foldl_cons]
    rcases ih (max m x) with h | h
    · rw [h]
      by_cases hx : m ≤ x
      · right; simp; omega
      · left; omega
    · right; exact List.mem_cons_of_mem _ h

def Covers (b x : Int) (a : Row) : Prop := a.bin = b ∧ a.l ≤ x ∧ x < a.r

theorem mem_coverTops (rows : List Row) (b x v : Int) :
    v ∈ (rows.filter (fun a => a.bin = b ∧ a.l ≤ x ∧ x < a.r)).map (·.t) ↔
      ∃ a ∈ rows, Covers b x a ∧ a.t = v := by
  simp only [List.mem_map, List.mem_filter, Covers]
  constructor
  · rintro ⟨a, ⟨ha, hc⟩, rfl⟩; exact ⟨a, ha, by simpa using hc, rfl⟩
  · rintro ⟨a, ha, hc, rfl⟩; exact ⟨a, ⟨ha, by simpa using hc⟩, rfl⟩

theorem sky_nonneg (rows : List Row) (b x : Int) : 0 ≤ sky rows b x := foldl_max_ge _ 0

theorem le_sky (rows : List Row) (b x : Int) (a : Row) (ha : a ∈ rows) (hc : Covers b x a) :
    a.t ≤ sky rows b x :=
  foldl_max_mem_ge _ 0 a.t ((mem_coverTops rows b x a.t).mpr ⟨a, ha, hc, rfl⟩)

theorem sky_attained (rows : List Row) (b x : Int) :
    sky rows b x = 0 ∨ ∃ a ∈ rows, Covers b x a ∧ a.t = sky rows b x := by
  rcases foldl_max_attained ((rows.filter (fun a => a.bin = b ∧ a.l ≤ x ∧ x < a.r)).map (·.t)) 0 with h | h
  · left; exact h
  · right; exact (mem_coverTops rows b x _).mp h

theorem sky_le (rows : List Row) (b x u : Int) (hu : 0 ≤ u)
    (h : ∀ a ∈ rows, Covers b x a → a.t ≤ u) : sky rows b x ≤ u := by
  rcases sky_attained rows b x with h0 | ⟨a, ha, hc, ht⟩
  · omega
  · have := h a ha hc; omega

/-! ### the inner loop -/
theorem innerStep_useTop (b cur : Int) (s : Sw) (a : Row) :
    (innerStep b cur s a).useTop = if a.bin = b ∧ a.l ≤ cur ∧ cur < a.r then max s.useTop a.t else s.useTop := by
  unfold innerStep
  split
  · rw [if_neg (by omega)]
  · simp only []
    split <;> split <;> split <;> simp_all <;> omega

theorem innerStep_nextLeft (b cur : Int) (s : Sw) (a : Row) :
    (innerStep b cur s a).nextLeft = if a.bin = b ∧ cur < a.l ∧ a.l < s.nextLeft then a.l else s.nextLeft := by
  unfold innerStep
  split
  · rw [if_neg (by omega)]
  · simp only []
    split <;> split <;> split <;> simp_all <;> omega

theorem innerStep_useRight (b cur : Int) (s : Sw) (a : Row) :
    (innerStep b cur s a).useRight =
      if a.bin = b ∧ a.l ≤ cur ∧ cur < a.r ∧ a.t > s.useTop then a.r else s.useRight := by
  unfold innerStep
  split
  · rw [if_neg (by omega)]
  · simp only []
    split <;> split <;> split <;> simp_all <;> omega

theorem inner_cons (a : Row) (t : List Row) (b cur : Int) (s : Sw) :
    inner (a :: t) b cur s = inner t b cur (innerStep b cur s a) := rfl

/-- the inner loop leaves the maximum of the covering tops (and the start value) in `use_top` -/
theorem inner_useTop (rows : List Row) (b cur : Int) (s : Sw) :
    (inner rows b cur s).useTop =
      ((rows.filter (fun a => a.bin = b ∧ a.l ≤ cur ∧ cur < a.r)).map (·.t)).foldl max s.useTop := by
  induction rows generalizing s with
  | nil => rfl
  | cons a t ih =>
    rw [inner_cons, ih, innerStep_useTop]
    by_cases hc : a.bin = b ∧ a.l ≤ cur ∧ cur < a.r
    · rw [if_pos hc, List.filter_cons_of_pos (by simpa using hc)]
      rfl
    · rw [if_neg hc, List.filter_cons_of_neg (by simpa using hc)]

/-- `use_right` is the right edge of a covering rectangle whose top is `use_top`, unless nothing
higher than the start value covers `cur_left` -/
theorem inner_useRight (rows : List Row) (b cur : Int) (s : Sw) :
    ((inner rows b cur s).useTop = s.useTop ∧ (inner rows b cur s).useRight = s.useRight) ∨
    ∃ a ∈ rows, Covers b cur a ∧ a.t = (inner rows b cur s).useTop ∧ a.r = (inner rows b cur s).useRight := by
  induction rows generalizing s with
  | nil => left; exact ⟨rfl, rfl⟩
  | cons a t ih =>
    rw [inner_cons]
    rcases ih (innerStep b cur s a) with ⟨h1, h2⟩ | ⟨c, hc, h⟩
    · rw [h1, h2, innerStep_useTop, innerStep_useRight]
      by_cases hcov : a.bin = b ∧ a.l ≤ cur ∧ cur < a.r ∧ a.t > s.useTop
      · right
        refine ⟨a, by simp, ⟨hcov.1, hcov.2.1, hcov.2.2.1⟩, ?_, ?_⟩
        · rw [if_pos ⟨hcov.1, hcov.2.1, hcov.2.2.1⟩]; omega
        · rw [if_pos hcov]
      · left
        rw [if_neg hcov]
        refine ⟨?_, rfl⟩
        split <;> omega
    · right; exact ⟨c, List.mem_cons_of_mem _ hc, h⟩

theorem inner_nextLeft (rows : List Row) (b cur : Int) (s : Sw) :
    (inner rows b cur s).nextLeft ≤ s.nextLeft ∧
    ∀ a ∈ rows, a.bin = b → cur < a.l → (inner rows b cur s).nextLeft ≤ a.l := by
  induction rows generalizing s with
  | nil => exact ⟨Int.le_refl _, by simp⟩
  | cons a t ih =>
    rw [inner_cons]
    obtain ⟨h1, h2⟩ := ih (innerStep b cur s a)
    have h3 := innerStep_nextLeft b cur s a
    constructor
    · rw [h3] at h1; split at h1 <;> omega
    · intro c hc hb hl
      rcases List.mem_cons.mp hc with h | h
      · subst h
        rw [h3] at h1
        split at h1 <;> omega
      · exact h2 c h hb hl

/-- **the strip has a constant skyline**: on `[cur_left, min(use_right, next_left))` the skyline
equals `use_top` -/
theorem strip_const (rows : List Row) (b W cur : Int) (x : Int)
    (hx1 : cur ≤ x)
    (hx2 : x < min (inner rows b cur ⟨0, W, W⟩).useRight (inner rows b cur ⟨0, W, W⟩).nextLeft) :
    sky rows b x = (inner rows b cur ⟨0, W, W⟩).useTop := by
  have htop : (inner rows b cur ⟨0, W, W⟩).useTop = sky rows b cur := inner_useTop rows b cur ⟨0, W, W⟩
  obtain ⟨_, hnl⟩ := inner_nextLeft rows b cur ⟨0, W, W⟩
  apply Int.le_antisymm
  · -- nothing that covers x is higher: it must already cover cur_left
    rw [htop]
    apply sky_le _ _ _ _ (sky_nonneg rows b cur)
    intro a ha hc
    apply le_sky rows b cur a ha
    refine ⟨hc.1, ?_, by have := hc.2.2; omega⟩
    by_contra hlt
    have := hnl a ha hc.1 (by omega)
    have := hc.2.1
    omega
  · rcases inner_useRight rows b cur ⟨0, W, W⟩ with ⟨h1, _⟩ | ⟨a, ha, hc, ht, hr⟩
    · rw [h1]; exact sky_nonneg rows b x
    · rw [← ht]
      apply le_sky rows b x a ha
      exact ⟨hc.1, by have := hc.2.1; omega, by omega⟩

/-! ### interval sums -/
theorem sumFrom_empty (lo hi : Int) (f : Int → Int) (h : hi ≤ lo) : sumFrom lo hi f = 0 := by
  unfold sumFrom
  have : (hi - lo).toNat = 0 := by omega
  rw [this]; rfl

theorem sumFrom_succ (lo hi : Int) (f : Int → Int) (h : lo < hi) :
    sumFrom lo hi f = f lo + sumFrom (lo + 1) hi f := by
  unfold sumFrom
  obtain ⟨n, hn⟩ : ∃ n, (hi - lo).toNat = n + 1 := ⟨(hi - lo).toNat - 1, by omega⟩
  have hn' : (hi - (lo + 1)).toNat = n := by omega
  rw [hn, hn', List.range_succ_eq_map]
  simp only [List.map_cons, List.sum_cons, List.map_map]
  congr 2
  · simp
  · apply List.map_congr_left
    intro i _
    simp only [Function.comp]
    congr 1
    push_cast
    omega

theorem sumFrom_split (lo mid hi : Int) (f : Int → Int) (h1 : lo ≤ mid) (h2 : mid ≤ hi) :
    sumFrom lo hi f = sumFrom lo mid f + sumFrom mid hi f := by
  obtain ⟨n, hn⟩ : ∃ n : Nat, mid - lo = n := ⟨(mid - lo).toNat, by omega⟩
  induction n generalizing lo with
  | zero =>
    have : lo = mid := by omega
    subst this
    rw [sumFrom_empty lo lo f (by omega)]; omega
  | succ n ih =>
    rw [sumFrom_succ lo hi f (by omega), sumFrom_succ lo mid f (by omega),
      ih (lo + 1) (by omega) (by push_cast at hn; omega)]
    omega

theorem sumFrom_congr_bound (lo hi : Int) (f g : Int → Int)
    (h : ∀ x, lo ≤ x → x < hi → f x ≤ g x) : sumFrom lo hi f ≤ sumFrom lo hi g := by
  unfold sumFrom
  apply sum_map_le
  intro i hi'
  have := List.mem_range.mp hi'
  exact h _ (by omega) (by omega)

theorem sumFrom_const (lo hi c : Int) (h : lo ≤ hi) : sumFrom lo hi (fun _ => c) = (hi - lo) * c := by
  unfold sumFrom
  rw [sum_const_filter _ _ c (fun _ _ => rfl), List.length_range]
  congr 1
  omega

theorem sumFrom_eq_const (lo hi c : Int) (f : Int → Int) (h : lo ≤ hi)
    (hf : ∀ x, lo ≤ x → x < hi → f x = c) : sumFrom lo hi f = (hi - lo) * c := by
  rw [← sumFrom_const lo hi c h]
  apply Int.le_antisymm
  · exact sumFrom_congr_bound _ _ _ _ (fun x h1 h2 => Int.le_of_eq (hf x h1 h2))
  · exact sumFrom_congr_bound _ _ _ _ (fun x h1 h2 => Int.le_of_eq (hf x h1 h2).symm)

theorem sumFrom_nonneg (lo hi : Int) (f : Int → Int) (h : ∀ x, lo ≤ x → x < hi → 0 ≤ f x) :
    0 ≤ sumFrom lo hi f := by
  unfold sumFrom
  apply sum_map_nonneg
  intro i hi'
  have := List.mem_range.mp hi'
  exact h _ (by omega) (by omega)

/-! ### the sweep -/
/-- **sweep invariant**: from any position the `while` loop adds exactly the skyline of the
remaining columns — for every list of rows, every bin id and every bin width -/
theorem sweep_eq (rows : List Row) (b W : Int) (cur area : Int) :
    sweep rows b W cur area = area + sumFrom cur W (sky rows b) := by
  obtain ⟨n, hn⟩ : ∃ n : Nat, (W - cur).toNat = n := ⟨_, rfl⟩
  induction n using Nat.strong_induction_on generalizing cur area with
  | _ n ih =>
    rw [sweep]
    by_cases h : cur < W
    · rw [dif_pos h]
      simp only []
      have hgt := inner_gt rows b cur ⟨0, W, W⟩ ⟨h, h⟩
      have hnl := (inner_nextLeft rows b cur ⟨0, W, W⟩).1
      simp only [] at hnl
      have hur1 : cur < min (inner rows b cur ⟨0, W, W⟩).useRight (inner rows b cur ⟨0, W, W⟩).nextLeft := by omega
      have hur2 : min (inner rows b cur ⟨0, W, W⟩).useRight (inner rows b cur ⟨0, W, W⟩).nextLeft ≤ W := by omega
      rw [ih _ (by omega) _ _ rfl, sumFrom_split cur _ W (sky rows b) (by omega) hur2,
        sumFrom_eq_const cur _ (inner rows b cur ⟨0, W, W⟩).useTop (sky rows b) (by omega)
          (fun x h1 h2 => strip_const rows b W cur x h1 h2)]
      omega
    · rw [dif_neg h, sumFrom_empty cur W _ (by omega)]
      omega

theorem sweep_skyArea (rows : List Row) (b W : Int) : sweep rows b W 0 0 = skyArea rows b W := by
  rw [sweep_eq]; unfold skyArea; omega

/-! ### bounds of the area under the skyline -/
theorem skyArea_le (rows : List Row) (b W H : Int) (hW : 0 ≤ W) (hH : 0 ≤ H)
    (ht : ∀ a ∈ rows, a.bin = b → a.t ≤ H) : skyArea rows b W ≤ W * H := by
  unfold skyArea
  have h1 := sumFrom_congr_bound 0 W (sky rows b) (fun _ => H)
    (fun x _ _ => sky_le rows b x H hH (fun a ha hc => ht a ha hc.1))
  rw [sumFrom_const 0 W H hW, Int.sub_zero] at h1
  omega

theorem skyArea_nonneg (rows : List Row) (b W : Int) : 0 ≤ skyArea rows b W :=
  sumFrom_nonneg _ _ _ (fun x _ _ => sky_nonneg rows b x)

/-- one rectangle of the bin lies below the skyline: its area is at most the area under the skyline -/
theorem rarea_le_skyArea (rows : List Row) (W : Int) (a : Row) (ha : a ∈ rows)
    (h1 : 0 ≤ a.l) (h2 : a.l ≤ a.r) (h3 : a.r ≤ W) (h4 : 0 ≤ a.b) :
    rarea a ≤ skyArea rows a.bin W := by
  unfold skyArea
  rw [sumFrom_split 0 a.l W _ h1 (by omega), sumFrom_split a.l a.r W _ h2 h3]
  have e1 := sumFrom_nonneg 0 a.l (sky rows a.bin) (fun x _ _ => sky_nonneg _ _ _)
  have e2 := sumFrom_nonneg a.r W (sky rows a.bin) (fun x _ _ => sky_nonneg _ _ _)
  have e3 := sumFrom_congr_bound a.l a.r (fun _ => a.t) (sky rows a.bin)
    (fun x hx1 hx2 => le_sky rows a.bin x a ha ⟨rfl, hx1, hx2⟩)
  rw [sumFrom_const a.l a.r a.t h2] at e3
  unfold rarea
  have : (a.r - a.l) * (a.t - a.b) ≤ (a.r - a.l) * a.t :=
    Int.mul_le_mul_of_nonneg_left (by omega) (by omega)
  omega

end BinObj

namespace BinObj
open Pack ListLemmas

theorem lowestLoop_eq (rows : List Row) (W : Int) (js : List Nat) (m : Int) :
    lowestLoop rows W js m = (js.map (fun (j : Nat) => skyArea rows ((j : Int) + 1) W)).foldl min m := by
  induction js generalizing m with
  | nil => rfl
  | cons j t ih => simp only [lowestLoop, List.map_cons, List.foldl_cons, ih, sweep_skyArea]

theorem lowestLoop_minOver (rows : List Row) (W k m : Int) (hk : 1 ≤ k)
    (hm : ∀ b, 1 ≤ b → b ≤ k → skyArea rows b W ≤ m) :
    lowestLoop rows W (List.range k.toNat) m = minOver (fun b => skyArea rows b W) k := by
  rw [lowestLoop_eq, List.foldl_min]
  have hle := (minOver_bounds (fun b => skyArea rows b W) k (minOver (fun b => skyArea rows b W) k) m hk
    (fun b h1 h2 => ⟨(minOver_isMin _ k hk).2 b h1 h2, hm b h1 h2⟩)).2
  unfold minOver at hle ⊢
  cases hL : ((List.range k.toNat).map (fun (j : Nat) => skyArea rows ((j : Int) + 1) W)).min? with
  | none =>
    rw [List.min?_eq_none_iff] at hL
    have := congrArg List.length hL
    simp at this
    omega
  | some v =>
    rw [hL] at hle
    simp only [Option.getD_some] at hle ⊢
    omega

section skykernels
variable {I : Inst} {rows : List Row} {k : Int}

theorem colMaxBin_feasible (hv : I.Valid) (hf : Feasible I rows k) : colMaxBin rows = .ok k :=
  binCount_feasible hv hf

theorem skyArea_range (hv : I.Valid) (hf : Feasible I rows k) (b : Int) (h1 : 1 ≤ b) (h2 : b ≤ k) :
    1 ≤ skyArea rows b I.W ∧ skyArea rows b I.W ≤ I.W * I.H := by
  constructor
  · obtain ⟨a, ha, hab⟩ := feas_bin_nonempty hf b h1 h2
    have hin := feas_inside hf a ha
    have hd := feas_pos_dims hv hf a ha
    have := rarea_le_skyArea rows I.W a ha hin.1 (by omega) hin.2.2.1 hin.2.1
    have := rarea_pos hv hf a ha
    rw [hab] at *
    omega
  · exact skyArea_le rows b I.W I.H (by have := hv.1; omega) (by have := hv.2.2.1; omega)
      (fun a ha _ => (feas_inside hf a ha).2.2.2)

theorem smallestArea_le_skyArea (hv : I.Valid) (hf : Feasible I rows k) (b : Int) (h1 : 1 ≤ b) (h2 : b ≤ k) :
    smallestArea I ≤ skyArea rows b I.W := by
  obtain ⟨a, ha, hab⟩ := feas_bin_nonempty hf b h1 h2
  have hin := feas_inside hf a ha
  have hd := feas_pos_dims hv hf a ha
  have h3 := rarea_le_skyArea rows I.W a ha hin.1 (by omega) hin.2.2.1 hin.2.1
  have h4 := smallestArea_le_row hv hf a ha
  rw [hab] at h3
  omega

theorem lastSkyline_feasible (hv : I.Valid) (hf : Feasible I rows k) :
    binCountAndLastSkyline rows I.W I.H = .ok ((k - 1) * (I.W * I.H) + skyArea rows k I.W) := by
  unfold binCountAndLastSkyline
  simp only [colMaxBin_feasible hv hf, sweep_skyArea]
  rw [Int.mul_comm I.H I.W]

theorem lowestSkyline_feasible (hv : I.Valid) (hf : Feasible I rows k) :
    binCountAndLowestSkyline rows I.W I.H =
      .ok ((k - 1) * (I.W * I.H) + minOver (fun b => skyArea rows b I.W) k) := by
  unfold binCountAndLowestSkyline
  simp only [colMaxBin_feasible hv hf]
  rw [lowestLoop_minOver rows I.W k _ (feas_k_pos hv hf)
    (fun b h1 h2 => by rw [Int.mul_comm]; exact (skyArea_range hv hf b h1 h2).2), Int.mul_comm I.H I.W]

end skykernels
end BinObj

/-! ### covered area ≤ area under the skyline (column counting) -/
namespace BinObj
open Pack ListLemmas

theorem sumFrom_add (lo hi : Int) (f g : Int → Int) :
    sumFrom lo hi (fun x => f x + g x) = sumFrom lo hi f + sumFrom lo hi g := by
  unfold sumFrom
  induction (List.range (hi - lo).toNat) with
  | nil => simp
  | cons x t ih => simp only [List.map_cons, List.sum_cons, ih]; omega

theorem sumFrom_indicator (W l r h : Int) (h1 : 0 ≤ l) (h2 : l ≤ r) (h3 : r ≤ W) :
    sumFrom 0 W (fun x => if l ≤ x ∧ x < r then h else 0) = (r - l) * h := by
  rw [sumFrom_split 0 l W _ h1 (by omega), sumFrom_split l r W _ h2 h3,
    sumFrom_eq_const 0 l 0 _ h1 (fun x _ hx => by rw [if_neg (by omega)]),
    sumFrom_eq_const l r h _ h2 (fun x hx1 hx2 => by rw [if_pos ⟨hx1, hx2⟩]),
    sumFrom_eq_const r W 0 _ h3 (fun x hx _ => by rw [if_neg (by omega)])]
  simp

theorem sum_indicator_filter {α} (L : List α) (p : α → Prop) [DecidablePred p] (f : α → Int) :
    (L.map (fun a => if p a then f a else 0)).sum = ((L.filter (fun a => decide (p a))).map f).sum := by
  induction L with
  | nil => rfl
  | cons a t ih =>
    by_cases h : p a
    · simp [h, ih]
    · simp [h, ih]

/-- height covered in column `x` by the rectangles of `L` -/
def colSum (L : List Row) (x : Int) : Int :=
  (L.map (fun a => if a.l ≤ x ∧ x < a.r then a.t - a.b else 0)).sum

theorem area_eq_colSum (L : List Row) (W : Int) (hW : 0 ≤ W)
    (h : ∀ a ∈ L, 0 ≤ a.l ∧ a.l ≤ a.r ∧ a.r ≤ W) :
    (L.map rarea).sum = sumFrom 0 W (colSum L) := by
  induction L with
  | nil =>
    simp only [List.map_nil, List.sum_nil]
    rw [sumFrom_eq_const 0 W 0 (colSum []) hW (fun x _ _ => rfl)]; simp
  | cons a t ih =>
    have ha := h a (by simp)
    have : colSum (a :: t) = fun x => (if a.l ≤ x ∧ x < a.r then a.t - a.b else 0) + colSum t x := by
      funext x; simp [colSum]
    rw [this, sumFrom_add, sumFrom_indicator W a.l a.r _ ha.1 ha.2.1 ha.2.2,
      ← ih (fun c hc => h c (by simp [hc]))]
    simp [rarea]

/-- in one column, pairwise non-overlapping rectangles that all cover the column are stacked:
their heights add up to at most the highest top edge (the area lemma on a bin of width 1) -/
theorem colSum_le (L : List Row) (x M : Int) (hM : 0 ≤ M)
    (hgeo : ∀ a ∈ L, 0 ≤ a.b ∧ a.b ≤ a.t)
    (hd : L.Pairwise Row.Disjoint)
    (htop : ∀ a ∈ L, a.l ≤ x → x < a.r → a.t ≤ M) : colSum L x ≤ M := by
  unfold colSum
  rw [sum_indicator_filter L (fun a => a.l ≤ x ∧ x < a.r) (fun a => a.t - a.b)]
  let col : Row → Row := fun a => ⟨a.id, a.bin, 0, a.b, 1, a.t⟩
  have hmap : ((L.filter (fun a => decide (a.l ≤ x ∧ x < a.r))).map (fun a => a.t - a.b)).sum
      = (((L.filter (fun a => decide (a.l ≤ x ∧ x < a.r))).map col).map Row.area).sum := by
    rw [List.map_map]
    congr 1
    apply List.map_congr_left
    intro a _
    simp [col, Row.area]
  rw [hmap]
  have := area_sum_le 1 M (by omega) hM ((L.filter (fun a => decide (a.l ≤ x ∧ x < a.r))).map col)
    (by
      intro c hc
      obtain ⟨a, ha, rfl⟩ := List.mem_map.mp hc
      have := hgeo a (List.mem_filter.mp ha).1
      simp [col]; omega)
    (by
      intro c hc
      obtain ⟨a, ha, rfl⟩ := List.mem_map.mp hc
      have hm := List.mem_filter.mp ha
      have := hgeo a hm.1
      have hcv : a.l ≤ x ∧ x < a.r := by simpa using hm.2
      have := htop a hm.1 hcv.1 hcv.2
      simp [col]; omega)
    (by
      rw [List.pairwise_map]
      apply List.Pairwise.imp_of_mem _ (hd.filter _)
      intro a c ha hc hac
      have hca : a.l ≤ x ∧ x < a.r := by simpa using (List.mem_filter.mp ha).2
      have hcc : c.l ≤ x ∧ x < c.r := by simpa using (List.mem_filter.mp hc).2
      unfold Row.Disjoint at hac ⊢
      simp only [col]
      omega)
  omega

section
variable {I : Inst} {rows : List Row} {k : Int}

/-- **covered area ≤ area under the skyline**, bin by bin, for every feasible packing -/
theorem areaIn_le_skyArea' (hv : I.Valid) (hf : Feasible I rows k) (b : Int) :
    areaIn rows b ≤ skyArea rows b I.W := by
  have hW : 0 ≤ I.W := by have := hv.1; omega
  unfold areaIn skyArea
  have hL : ∀ a ∈ rows.filter (fun a => a.bin = b), a ∈ rows ∧ a.bin = b := by
    intro a ha
    have := List.mem_filter.mp ha
    exact ⟨this.1, by simpa using this.2⟩
  rw [area_eq_colSum _ I.W hW (by
    intro a ha
    have h1 := feas_inside hf a (hL a ha).1
    have h2 := feas_pos_dims hv hf a (hL a ha).1
    omega)]
  apply sumFrom_congr_bound
  intro x _ _
  apply colSum_le _ x _ (sky_nonneg rows b x)
  · intro a ha
    have h1 := feas_inside hf a (hL a ha).1
    have h2 := feas_pos_dims hv hf a (hL a ha).1
    omega
  · have hpw := hf.2.2.2.2.1
    apply List.Pairwise.imp_of_mem _ (hpw.filter _)
    intro a c ha hc hac
    exact hac (by rw [(hL a ha).2, (hL c hc).2])
  · intro a ha h1 h2
    exact le_sky rows b x a (hL a ha).1 ⟨(hL a ha).2, h1, h2⟩

theorem totalArea_le_skyArea_one (hv : I.Valid) (hf : Feasible I rows 1) :
    I.totalArea ≤ skyArea rows 1 I.W := by
  rw [← areaIn_one hf]; exact areaIn_le_skyArea' hv hf 1

end
end BinObj
