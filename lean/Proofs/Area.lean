import Model.Pack
import Mathlib.Order.Interval.Finset.Defs
import Mathlib.Data.Int.Interval
import Mathlib.Data.Finset.Prod
import Mathlib.Algebra.BigOperators.Group.Finset.Basic
import Mathlib.Tactic.Ring
import Mathlib.Tactic.Linarith
import Proofs.ListLemmas
/-! Shared area lemmas of the bin-packing properties (C02, C03, C17): pairwise non-overlapping
rectangles inside a W×H bin have total area ≤ W·H (cell counting with Mathlib Finsets), the
rectangles of a feasible packing add up to the instance's total item area, and hence
totalArea ≤ k·W·H for every feasible packing into k bins. -/
namespace Pack

def Row.area (a : Row) : Int := (a.r - a.l) * (a.t - a.b)

def cells (a : Row) : Finset (Int × Int) := Finset.Ico a.l a.r ×ˢ Finset.Ico a.b a.t

theorem card_cells (a : Row) (h1 : a.l ≤ a.r) (h2 : a.b ≤ a.t) :
    ((cells a).card : Int) = a.area := by
  unfold cells Row.area
  rw [Finset.card_product, Int.card_Ico, Int.card_Ico]
  push_cast
  rw [Int.toNat_of_nonneg (by omega), Int.toNat_of_nonneg (by omega)]

theorem disjoint_cells (a c : Row) (h : a.Disjoint c) : Disjoint (cells a) (cells c) := by
  rw [Finset.disjoint_left]
  intro p hp hq
  simp only [cells, Finset.mem_product, Finset.mem_Ico] at hp hq
  unfold Row.Disjoint at h
  omega

end Pack
namespace Pack
open Finset in
/-- union of the cells of all rows -/
def unionCells : List Row → Finset (Int × Int)
  | [] => ∅
  | a :: t => cells a ∪ unionCells t

theorem card_unionCells (rows : List Row) (hgeo : ∀ a ∈ rows, a.l ≤ a.r ∧ a.b ≤ a.t)
    (hd : rows.Pairwise Row.Disjoint) :
    ((unionCells rows).card : Int) = (rows.map Row.area).sum := by
  induction rows with
  | nil => simp [unionCells]
  | cons a t ih =>
    have hp := List.pairwise_cons.mp hd
    have hdis : Disjoint (cells a) (unionCells t) := by
      have : ∀ l : List Row, (∀ c ∈ l, a.Disjoint c) → Disjoint (cells a) (unionCells l) := by
        intro l
        induction l with
        | nil => intro _; simp [unionCells]
        | cons c l ih2 =>
          intro h
          simp only [unionCells, Finset.disjoint_union_right]
          exact ⟨disjoint_cells a c (h c (by simp)), ih2 (fun c' hc' => h c' (by simp [hc']))⟩
      exact this t hp.1
    simp only [unionCells, List.map_cons, List.sum_cons]
    rw [Finset.card_union_of_disjoint hdis]
    push_cast
    rw [card_cells a (hgeo a (by simp)).1 (hgeo a (by simp)).2,
      ih (fun c hc => hgeo c (by simp [hc])) hp.2]

theorem unionCells_subset (W H : Int) (rows : List Row)
    (hin : ∀ a ∈ rows, 0 ≤ a.l ∧ 0 ≤ a.b ∧ a.r ≤ W ∧ a.t ≤ H) :
    unionCells rows ⊆ Finset.Ico 0 W ×ˢ Finset.Ico 0 H := by
  induction rows with
  | nil => simp [unionCells]
  | cons a t ih =>
    simp only [unionCells]
    apply Finset.union_subset
    · intro p hp
      have := hin a (by simp)
      simp only [cells, Finset.mem_product, Finset.mem_Ico] at hp ⊢
      omega
    · exact ih (fun c hc => hin c (by simp [hc]))

/-- **area lemma**: pairwise non-overlapping rectangles inside a `W × H` bin have total area ≤ `W·H` -/
theorem area_sum_le (W H : Int) (hW : 0 ≤ W) (hH : 0 ≤ H) (rows : List Row)
    (hgeo : ∀ a ∈ rows, a.l ≤ a.r ∧ a.b ≤ a.t)
    (hin : ∀ a ∈ rows, 0 ≤ a.l ∧ 0 ≤ a.b ∧ a.r ≤ W ∧ a.t ≤ H)
    (hd : rows.Pairwise Row.Disjoint) : (rows.map Row.area).sum ≤ W * H := by
  rw [← card_unionCells rows hgeo hd]
  have h1 := Finset.card_le_card (unionCells_subset W H rows hin)
  rw [Finset.card_product, Int.card_Ico, Int.card_Ico] at h1
  have : ((unionCells rows).card : Int) ≤ (((W - 0).toNat * (H - 0).toNat : Nat) : Int) := by
    exact_mod_cast h1
  push_cast at this
  rw [Int.toNat_of_nonneg (by omega), Int.toNat_of_nonneg (by omega)] at this
  simpa using this
end Pack
namespace Pack

theorem sum_ite_eq_range (m c : Nat) (v : Int) (hc : c < m) :
    ((List.range m).map (fun j => if j = c then v else 0)).sum = v := by
  induction m with
  | zero => omega
  | succ m ih =>
    rw [List.range_succ, List.map_append, List.sum_append]
    by_cases h : c = m
    · subst h
      have : ((List.range c).map (fun j => if j = c then v else 0)) = (List.range c).map (fun _ => (0:Int)) := by
        apply List.map_congr_left
        intro j hj
        have := List.mem_range.mp hj
        simp; omega
      rw [this]; simp
    · have := ih (by omega)
      simp [this]; omega

/-- regroup a sum over a list by an integer key with values in `1..m` -/
theorem sum_by_key {α} (l : List α) (key : α → Int) (f : α → Int) (m : Nat)
    (h : ∀ a ∈ l, 1 ≤ key a ∧ key a ≤ m) :
    (l.map f).sum =
      ((List.range m).map (fun (j : Nat) => ((l.filter (fun a => key a = (j : Int) + 1)).map f).sum)).sum := by
  induction l with
  | nil => simp
  | cons a t ih =>
    have ha := h a (by simp)
    have ih' := ih (fun b hb => h b (by simp [hb]))
    have hsplit : ∀ j : Nat, (((a :: t).filter (fun a => key a = (j : Int) + 1)).map f).sum
        = (if j = (key a - 1).toNat then f a else 0)
          + ((t.filter (fun a => key a = (j : Int) + 1)).map f).sum := by
      intro j
      by_cases hj : key a = (j : Int) + 1
      · have : j = (key a - 1).toNat := by omega
        simp only [List.filter_cons, hj, decide_true, if_true, List.map_cons, List.sum_cons]
        simp [this]
      · have : ¬ j = (key a - 1).toNat := by omega
        simp only [List.filter_cons, hj, this, decide_false, if_false]
        simp
    simp only [List.map_cons, List.sum_cons]
    rw [ih']
    have : (List.range m).map (fun (j : Nat) => (((a :: t).filter (fun a => key a = (j : Int) + 1)).map f).sum)
        = (List.range m).map (fun (j : Nat) => (if j = (key a - 1).toNat then f a else 0)
          + ((t.filter (fun a => key a = (j : Int) + 1)).map f).sum) := by
      apply List.map_congr_left; intro j _; exact hsplit j
    rw [this]
    have hadd : ∀ (g1 g2 : Nat → Int) (l : List Nat),
        (l.map (fun j => g1 j + g2 j)).sum = (l.map g1).sum + (l.map g2).sum := by
      intro g1 g2 l
      induction l with
      | nil => simp
      | cons x xs ihx => simp [ihx]; omega
    rw [hadd, sum_ite_eq_range m _ (f a) (by omega)]

end Pack
namespace Pack

theorem sum_map_eq_range {α} [Inhabited α] (l : List α) (g : α → Int) :
    (l.map g).sum = ((List.range l.length).map (fun i => g (l.getD i default))).sum := by
  induction l with
  | nil => simp
  | cons a t ih =>
    simp [List.range_succ_eq_map, List.map_map, Function.comp_def, ih]

theorem sum_const_filter {α} (l : List α) (f : α → Int) (c : Int) (h : ∀ a ∈ l, f a = c) :
    (l.map f).sum = (l.length : Int) * c := by
  induction l with
  | nil => simp
  | cons a t ih =>
    simp only [List.map_cons, List.sum_cons, List.length_cons]
    rw [ih (fun b hb => h b (by simp [hb])), h a (by simp)]
    push_cast; ring

theorem item?_eq (I : Inst) (id : Int) (it : Item) (h : I.item? id = some it) :
    1 ≤ id ∧ id ≤ I.nTypes ∧ I.items.getD (id - 1).toNat default = it := by
  unfold Inst.item? at h
  split at h
  · simp at h
  · have hlt : (id - 1).toNat < I.items.length := by
      by_contra hc
      rw [List.getElem?_eq_none (by omega)] at h
      simp at h
    rw [List.getElem?_eq_getElem hlt] at h
    have h' := Option.some.inj h
    refine ⟨by omega, by unfold Inst.nTypes; omega, ?_⟩
    rw [List.getD_eq_getElem?_getD, List.getElem?_eq_getElem hlt]
    exact h'

/-- in a feasible packing the rectangles' areas add up to the instance's total item area -/
theorem rows_area_eq_totalArea (I : Inst) (rows : List Row) (k : Int) (hf : Feasible I rows k) :
    (rows.map Row.area).sum = I.totalArea := by
  obtain ⟨_, hdims, _, hcount, _, _, _⟩ := hf
  have hkey : ∀ a ∈ rows, 1 ≤ a.id ∧ a.id ≤ (I.nTypes : Int) := by
    intro a ha
    obtain ⟨it, h1, _⟩ := hdims a ha
    have := item?_eq I a.id it h1
    exact ⟨this.1, this.2.1⟩
  rw [sum_by_key rows (fun a => a.id) Row.area I.nTypes hkey]
  unfold Inst.totalArea
  rw [sum_map_eq_range I.items]
  apply congrArg
  apply List.map_congr_left
  intro i hi
  have hi' := List.mem_range.mp hi
  have hc := hcount i (by simpa [Inst.nTypes] using hi')
  have hconst : ∀ a ∈ rows.filter (fun a => a.id = (i : Int) + 1),
      a.area = (I.items.getD i default).w * (I.items.getD i default).h := by
    intro a ha
    have ha' := List.mem_filter.mp ha
    obtain ⟨it, h1, h2⟩ := hdims a ha'.1
    have hid : a.id = (i : Int) + 1 := by simpa using ha'.2
    have := (item?_eq I a.id it h1).2.2
    rw [hid] at this
    have hnat : ((i : Int) + 1 - 1).toNat = i := by omega
    rw [hnat] at this
    rw [this]
    unfold Row.HasDims at h2
    unfold Row.area
    rcases h2 with ⟨h3, h4⟩ | ⟨h3, h4⟩
    · rw [h3, h4]
    · rw [h3, h4]; ring
  rw [sum_const_filter _ _ _ hconst, hc]
  ring

end Pack
namespace Pack

theorem sum_le_card_mul (l : List Nat) (g : Nat → Int) (c : Int) (h : ∀ j ∈ l, g j ≤ c) :
    (l.map g).sum ≤ (l.length : Int) * c := by
  induction l with
  | nil => simp
  | cons a t ih =>
    simp only [List.map_cons, List.sum_cons, List.length_cons]
    have := ih (fun b hb => h b (by simp [hb]))
    have := h a (by simp)
    push_cast
    nlinarith

theorem Inst.nItems_pos (I : Inst) (hv : I.Valid) : 1 ≤ I.nItems := by
  obtain ⟨_, _, _, _, hne, _, hitems, _⟩ := hv
  unfold Inst.nItems
  cases hI : I.items with
  | nil => rw [hI] at hne; simp at hne
  | cons it rest =>
    rw [hI] at hitems
    simp only [List.map_cons, List.sum_cons]
    have h1 := (hitems it (by simp)).2.2.2.2.1
    have h2 := ListLemmas.sum_map_nonneg rest (·.rep) (fun b hb => by
      have := (hitems b (by simp [hb])).2.2.2.2.1; omega)
    omega

/-- **area bound**: a feasible packing into `k` bins has total item area ≤ `k·W·H`
(so `ceil(totalArea / (W·H)) ≤ k`: the geometric lower bound never exceeds an achievable packing) -/
theorem feasible_area_le (I : Inst) (rows : List Row) (k : Int) (hv : I.Valid)
    (hf : Feasible I rows k) : I.totalArea ≤ k * (I.W * I.H) := by
  have harea := rows_area_eq_totalArea I rows k hf
  obtain ⟨hlen, hdims, hin, _, hpw, hbin, _⟩ := hf
  obtain ⟨hW, _, hH, _, _, _, hitems, _⟩ := hv
  have hgeo : ∀ a ∈ rows, a.l ≤ a.r ∧ a.b ≤ a.t := by
    intro a ha
    obtain ⟨it, h1, h2⟩ := hdims a ha
    have hit := (item?_eq I a.id it h1).2.2
    have hmem : it ∈ I.items := by
      unfold Inst.item? at h1
      split at h1
      · simp at h1
      · exact List.mem_of_getElem? h1
    have := hitems it hmem
    unfold Row.HasDims at h2
    omega
  rw [← harea]
  have hk : ¬ k ≤ 0 := by
    intro hk
    have hn : 1 ≤ I.nItems := Inst.nItems_pos I ⟨hW, ‹_›, hH, ‹_›, ‹_›, ‹_›, hitems, ‹_›⟩
    cases rows with
    | nil => simp at hlen; omega
    | cons a t => have := hbin a (by simp); omega
  by_cases hk0 : k ≤ 0
  · exact absurd hk0 hk
  · have hkey : ∀ a ∈ rows, 1 ≤ a.bin ∧ a.bin ≤ ((k.toNat : Nat) : Int) := by
      intro a ha
      have := hbin a ha
      omega
    rw [sum_by_key rows (fun a => a.bin) Row.area k.toNat hkey]
    have hbound : ∀ j ∈ List.range k.toNat,
        ((rows.filter (fun a => a.bin = (j : Int) + 1)).map Row.area).sum ≤ I.W * I.H := by
      intro j _
      apply area_sum_le I.W I.H (by omega) (by omega)
      · intro a ha; exact hgeo a (List.mem_filter.mp ha).1
      · intro a ha; exact hin a (List.mem_filter.mp ha).1
      · have h1 := hpw.filter (fun a => decide (a.bin = (j : Int) + 1))
        apply List.Pairwise.imp_of_mem _ h1
        intro a c ha hc hac
        have ha' := (List.mem_filter.mp ha).2
        have hc' := (List.mem_filter.mp hc).2
        simp at ha' hc'
        exact hac (by omega)
    have := sum_le_card_mul (List.range k.toNat)
      (fun j => ((rows.filter (fun a => a.bin = (j : Int) + 1)).map Row.area).sum) (I.W * I.H) hbound
    rw [List.length_range] at this
    have hk' : ((k.toNat : Nat) : Int) = k := by omega
    rw [hk'] at this
    exact this

end Pack
