import Proofs.LowerBoundBin
import Proofs.LowerBoundGreedy
/-! C03 helper lemmas, part 3: from the per-bin facts to `lbQ ≤ number of bins`
(layers 3 and 5 of the DAMV proof: greedy matching, arithmetic). -/
namespace Pack
namespace LB

theorem areaTerm_append (W H q : Int) (L M : List Int) :
    areaTerm H q (setsOf W H q (L ++ M))
      = areaTerm H q (setsOf W H q L) + areaTerm H q (setsOf W H q M) := by
  simp [areaTerm_eq, List.filter_append, List.map_append, List.sum_append]

theorem areaTerm_perm (W H q : Int) {L M : List Int} (h : L.Perm M) :
    areaTerm H q (setsOf W H q L) = areaTerm H q (setsOf W H q M) := by
  rw [areaTerm_eq, areaTerm_eq]
  exact perm_sum_int ((h.filter _).map _)

/-- aggregation of the per-bin facts over all bins -/
theorem aggregate (W H q : Int) (hH : 1 ≤ H) (hHW : H ≤ W) (Ls : List (List Int))
    (hL : ∀ L ∈ Ls, BinOK W H q L) :
    ∃ (bins2 : List (Int × List Int)) (others : List Int) (k2 : Int), 0 ≤ k2 ∧
      (((Ls.flatten.filter (c1 W q)).length : Int) + ((Ls.flatten.filter (c2 W q)).length : Int) + k2
        = (Ls.length : Int)) ∧
      (bins2.map Prod.fst).Perm (Ls.flatten.filter (c2 W q)) ∧
      (∀ b ∈ bins2, b.2.length ≤ 1 ∧ ∀ x ∈ b.2, x ≤ W - b.1) ∧
      (Ls.flatten.filter (c3 W H q)).Perm (bins2.flatMap Prod.snd ++ others) ∧
      others.sum ≤ k2 * W ∧ (others.length : Int) ≤ k2 * (W / (H / 2 + 1)) ∧
      areaTerm H q (setsOf W H q Ls.flatten)
        ≤ ((Ls.length : Int) - ((Ls.flatten.filter (c1 W q)).length : Int)) * (W * H) := by
  induction Ls with
  | nil => exact ⟨[], [], 0, by omega, by simp, by simp, by simp, by simp, by simp, by simp,
      by simp [areaTerm, setsOf]⟩
  | cons L Ls ih =>
    obtain ⟨bins2, others, k2, hk2, hcnt, hfst, hfit, hperm, hsum, hlen, harea⟩ :=
      ih (fun M hM => hL M (by simp [hM]))
    have hB := hL L (by simp)
    have hm : 0 < H / 2 + 1 := by omega
    have hlen3 : ((L.filter (c3 W H q)).length : Int) ≤ W / (H / 2 + 1) :=
      Int.le_ediv_of_mul_le hm hB.s3sum.2
    simp only [List.flatten_cons, List.filter_append, List.length_append, List.length_cons]
    rw [areaTerm_append]
    have hAL := hB.area
    by_cases h1 : L.filter (c1 W q) = []
    · by_cases h2 : L.filter (c2 W q) = []
      · -- a bin without S1 and S2 squares
        refine ⟨bins2, L.filter (c3 W H q) ++ others, k2 + 1, by omega, ?_, ?_, hfit, ?_, ?_, ?_, ?_⟩
        · simp only [h1, h2, List.length_nil]; push_cast; omega
        · simpa [h2] using hfst
        · have := hperm.append_left (L.filter (c3 W H q))
          refine this.trans ?_
          rw [← List.append_assoc, ← List.append_assoc]
          exact List.Perm.append_right _ List.perm_append_comm
        · rw [List.sum_append]
          have := hB.s3sum.1
          have e : (k2 + 1) * W = k2 * W + W := by ring
          omega
        · rw [List.length_append]
          push_cast
          have e : (k2 + 1) * (W / (H / 2 + 1)) = k2 * (W / (H / 2 + 1)) + W / (H / 2 + 1) := by ring
          omega
        · simp only [h1, List.length_nil]
          push_cast
          have e : ((Ls.length : Int) + 1 - (0 + ((Ls.flatten.filter (c1 W q)).length : Int))) * (W * H)
              = ((Ls.length : Int) - ((Ls.flatten.filter (c1 W q)).length : Int)) * (W * H) + W * H := by ring
          rw [e]; omega
      · -- a bin with an S2 square
        have hw := hB.wide1
        have hlen2 : (L.filter (c2 W q)).length = 1 := by
          have : (L.filter (c2 W q)).length ≠ 0 := by
            intro h; exact h2 (List.length_eq_zero_iff.mp h)
          omega
        obtain ⟨l2, hl2⟩ := List.length_eq_one_iff.mp hlen2
        have hf := hB.s2fit l2 (by rw [hl2]; simp)
        refine ⟨(l2, L.filter (c3 W H q)) :: bins2, others, k2, hk2, ?_, ?_, ?_, ?_, hsum, hlen, ?_⟩
        · simp only [h1, hl2, List.length_nil, List.length_singleton]; push_cast; omega
        · simp only [List.map_cons, hl2, List.singleton_append]
          exact List.Perm.cons _ hfst
        · intro b hb
          rcases List.mem_cons.mp hb with rfl | hb
          · exact hf
          · exact hfit b hb
        · simp only [List.flatMap_cons, List.append_assoc]
          exact hperm.append_left _
        · simp only [h1, List.length_nil]
          push_cast
          have e : ((Ls.length : Int) + 1 - (0 + ((Ls.flatten.filter (c1 W q)).length : Int))) * (W * H)
              = ((Ls.length : Int) - ((Ls.flatten.filter (c1 W q)).length : Int)) * (W * H) + W * H := by ring
          rw [e]; omega
    · -- a bin with an S1 square: nothing else of side ≥ q in it
      obtain ⟨e2, e3, e4⟩ := hB.s1excl h1
      have hw := hB.wide1
      have hlen1 : (L.filter (c1 W q)).length = 1 := by
        have : (L.filter (c1 W q)).length ≠ 0 := by
          intro h; exact h1 (List.length_eq_zero_iff.mp h)
        omega
      have hA0 : areaTerm H q (setsOf W H q L) = 0 := by
        simp [areaTerm, setsOf, e2, e3, e4]
      refine ⟨bins2, others, k2, hk2, ?_, ?_, hfit, ?_, hsum, hlen, ?_⟩
      · simp only [hlen1, e2, List.length_nil]; push_cast; omega
      · simpa [e2] using hfst
      · simpa [e3] using hperm
      · rw [hA0, hlen1]
        push_cast
        have e : ((Ls.length : Int) + 1 - (1 + ((Ls.flatten.filter (c1 W q)).length : Int))) * (W * H)
            = ((Ls.length : Int) - ((Ls.flatten.filter (c1 W q)).length : Int)) * (W * H) := by ring
        rw [e]; omega


theorem denom_eq (W H q : Int) (S : Sets) :
    denom W H q S = areaTerm H q S - W * H * lTilde W H S := by
  unfold denom areaTerm
  simp only
  omega

/-- **the combinatorial core**: if the sorted square list `sq` is distributed over `k` bins
(`Ls`: the side lengths per bin) such that every bin satisfies the geometric facts `BinOK`, then
`__lb_q(W, H, q, sq) ≤ k`. -/
theorem lbQ_le_of_bins (W H q : Int) (hH : 1 ≤ H) (hHW : H ≤ W) (hqH : 2 * q ≤ H)
    (Ls : List (List Int)) (hL : ∀ L ∈ Ls, BinOK W H q L)
    (sq : List Int) (hs : sq.Pairwise (· ≥ ·)) (hp : sq.Perm Ls.flatten) :
    lbQ W H q sq ≤ (Ls.length : Int) := by
  obtain ⟨bins2, others, k2, hk2, hcnt, hfst, hfit, hperm, hsum, hlen, harea⟩ :=
    aggregate W H q hH hHW Ls hL
  have hW : 0 < W := by omega
  have hm : 0 < H / 2 + 1 := by omega
  have hdiv : 0 < W / (H / 2 + 1) := by
    have : 1 ≤ W / (H / 2 + 1) := Int.le_ediv_of_mul_le hm (by omega)
    omega
  unfold lbQ
  rw [classify_sorted W H q hqH hHW sq hs]
  -- transfer along the permutation
  have p1 := (hp.filter (c1 W q)).length_eq
  have p2 := hp.filter (c2 W q)
  have p3 := hp.filter (c3 W H q)
  have hA : areaTerm H q (setsOf W H q sq) = areaTerm H q (setsOf W H q Ls.flatten) :=
    areaTerm_perm W H q hp
  -- the greedy remainder is dominated
  have hs2 : (sq.filter (c2 W q)).reverse.Pairwise (· ≤ ·) := by
    rw [List.pairwise_reverse]
    exact (hs.filter _).imp (fun h => h)
  have hs3 : (sq.filter (c3 W H q)).Pairwise (· ≥ ·) := hs.filter _
  have hnn : ∀ x ∈ sq.filter (c3 W H q), 0 ≤ x := by
    intro x hx
    have := (List.mem_filter.mp hx).2
    simp [c3] at this
    omega
  have hg := greedy_dominates W (sq.filter (c2 W q)).reverse (sq.filter (c3 W H q)) others bins2
    hs2 hs3 hnn (((List.reverse_perm _).trans p2).trans hfst.symm) hfit (p3.trans hperm)
  set rem := greedy W (sq.filter (c2 W q)).reverse (sq.filter (c3 W H q)) with hrem
  have hb1 : ceilDiv rem.sum W ≤ k2 := ceilDiv_le _ _ _ hW (by omega)
  have hb2 : ceilDiv (rem.length : Int) (W / (H / 2 + 1)) ≤ k2 :=
    ceilDiv_le _ _ _ hdiv (by have := hg.2; omega)
  have hlT : lTilde W H (setsOf W H q sq) ≤ ((sq.filter (c2 W q)).length : Int) + k2 := by
    unfold lTilde
    simp only [setsOf]
    rw [← hrem]
    omega
  have n2 : ((sq.filter (c2 W q)).length : Int) = ((Ls.flatten.filter (c2 W q)).length : Int) := by
    rw [p2.length_eq]
  have n1 : ((sq.filter (c1 W q)).length : Int) = ((Ls.flatten.filter (c1 W q)).length : Int) := by
    rw [p1]
  show (if denom W H q (setsOf W H q sq) > 0 then
      ((setsOf W H q sq).s1.length : Int) + lTilde W H (setsOf W H q sq)
        + ceilDiv (denom W H q (setsOf W H q sq)) (W * H)
    else ((setsOf W H q sq).s1.length : Int) + lTilde W H (setsOf W H q sq)) ≤ (Ls.length : Int)
  rw [denom_eq, hA]
  generalize lTilde W H (setsOf W H q sq) = lT at *
  generalize areaTerm H q (setsOf W H q Ls.flatten) = A at *
  have hs1 : ((setsOf W H q sq).s1.length : Int) = ((sq.filter (c1 W q)).length : Int) := rfl
  rw [hs1, n1]
  rw [n2] at hlT
  generalize ((Ls.flatten.filter (c1 W q)).length : Int) = a1 at *
  generalize ((Ls.flatten.filter (c2 W q)).length : Int) = a2 at *
  generalize (Ls.length : Int) = k at *
  split
  · have hWH : 0 < W * H := Int.mul_pos hW (by omega)
    have : ceilDiv (A - W * H * lT) (W * H) ≤ k - a1 - lT := by
      apply ceilDiv_le _ _ _ hWH
      have e : (k - a1 - lT) * (W * H) = (k - a1) * (W * H) - W * H * lT := by ring
      rw [e]; omega
    omega
  · omega

end LB
end Pack
