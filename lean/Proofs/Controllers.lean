import Model.Arith
import Model.ControlSpec
import Mathlib.Tactic.Ring
import Mathlib.Tactic.Linarith
import Mathlib.Tactic.NormNum
import Mathlib.Algebra.Order.Field.Basic
import Mathlib.Algebra.BigOperators.Group.Finset.Basic
/-!
# Helper lemmas for C16 (part A)

* `fieldOps`: the operation table of a linear ordered field with *abstract* transcendental
  symbols — the instance at which the generated kernels and the specifications of
  `ControlSpec` are compared;
* reading lemmas: at `fieldOps` the executable `sumTo`/`prodTo`/`powN`/`monoVal`/`polyVal`/
  `isFirstNearest` of the specification are the usual `∑`, `∏`, `^`, "minimal and first";
* `mem_monomials_iff`: the enumeration `monomials d k` is exactly the set of exponent vectors
  of length `d` and degree `1..k`; `completeTable_of_checks` reduces `CompleteTable` of a
  concrete table to four decidable checks;
* `exists_isFirstNearest`, `nearestAnchorLaw_eq_some`: a first nearest anchor exists and the
  executable `find?` returns it.
-/
set_option linter.unusedSectionVars false
namespace Controllers
open Arith ControlSpec

variable {K : Type} [Field K] [LinearOrder K] [IsStrictOrderedRing K]

/-- the symbols the theorems leave uninterpreted: `math.pi` and the numpy functions -/
structure Syms (K : Type) where
  pi : K
  exp : K → K
  arctan : K → K
  tanh : K → K
  sin : K → K
  cos : K → K

/-- operation table of a linear ordered field; literals `n/d` are `(n : K) / (d : K)` -/
def fieldOps (σ : Syms K) : Ops K where
  add := (· + ·)
  sub := (· - ·)
  mul := (· * ·)
  div := (· / ·)
  neg := (- ·)
  ofRat := fun n d => (n : K) / (d : K)
  lt := fun a b => decide (a < b)
  le := fun a b => decide (a ≤ b)
  eq := fun a b => decide (a = b)
  pi := σ.pi
  exp := σ.exp
  arctan := σ.arctan
  tanh := σ.tanh
  sin := σ.sin
  cos := σ.cos

section simp_lemmas
variable (σ : Syms K) (a b : K)
@[simp] theorem fo_add : (fieldOps σ).add a b = a + b := rfl
@[simp] theorem fo_sub : (fieldOps σ).sub a b = a - b := rfl
@[simp] theorem fo_mul : (fieldOps σ).mul a b = a * b := rfl
@[simp] theorem fo_div : (fieldOps σ).div a b = a / b := rfl
@[simp] theorem fo_neg : (fieldOps σ).neg a = -a := rfl
@[simp] theorem fo_ofRat (n : Int) (d : Nat) : (fieldOps σ).ofRat n d = (n : K) / (d : K) := rfl
@[simp] theorem fo_lt : (fieldOps σ).lt a b = decide (a < b) := rfl
@[simp] theorem fo_le : (fieldOps σ).le a b = decide (a ≤ b) := rfl
@[simp] theorem fo_eq : (fieldOps σ).eq a b = decide (a = b) := rfl
@[simp] theorem fo_pi : (fieldOps σ).pi = σ.pi := rfl
@[simp] theorem fo_exp : (fieldOps σ).exp a = σ.exp a := rfl
@[simp] theorem fo_arctan : (fieldOps σ).arctan a = σ.arctan a := rfl
@[simp] theorem fo_tanh : (fieldOps σ).tanh a = σ.tanh a := rfl
@[simp] theorem fo_sin : (fieldOps σ).sin a = σ.sin a := rfl
@[simp] theorem fo_cos : (fieldOps σ).cos a = σ.cos a := rfl

@[simp] theorem fo_powN (n : Nat) : (fieldOps σ).powN a n = a ^ n := by
  induction n using Nat.strongRecOn with
  | _ n ih =>
    match n with
    | 0 => simp [Ops.powN]
    | 1 => simp [Ops.powN]
    | m + 2 => simp [Ops.powN, ih (m + 1) (by omega), pow_succ]

@[simp] theorem sumTo_eq_sum (n : Nat) (f : Nat → K) :
    sumTo (fieldOps σ) n f = ∑ i ∈ Finset.range n, f i := by
  induction n with
  | zero => simp [sumTo]
  | succ n ih => simp [sumTo, ih, Finset.sum_range_succ]

@[simp] theorem prodTo_eq_prod (n : Nat) (f : Nat → K) :
    prodTo (fieldOps σ) n f = ∏ i ∈ Finset.range n, f i := by
  induction n with
  | zero => simp [prodTo]
  | succ n ih => simp [prodTo, ih, Finset.prod_range_succ]

/-- the value of a monomial is `∏ j, s_j ^ e_j` -/
theorem monoVal_eq_prod (e : List Nat) (s : Nat → K) :
    monoVal (fieldOps σ) e s = ∏ j ∈ Finset.range e.length, s j ^ e.getD j 0 := by
  simp [monoVal]

/-- the value of a parameter table is `∑ i, θ_i · ∏ j, s_j ^ e_{i,j}` -/
theorem polyVal_eq_sum (exps : List (List Nat)) (θ s : Nat → K) :
    polyVal (fieldOps σ) exps θ s =
      ∑ i ∈ Finset.range exps.length,
        θ i * ∏ j ∈ Finset.range (exps.getD i []).length, s j ^ (exps.getD i []).getD j 0 := by
  simp [polyVal, monoVal]

/-- squared distance to anchor `j` -/
theorem sqDist_eq_sum (d : Nat) (θ s : Nat → K) (j : Nat) :
    sqDist (fieldOps σ) d θ s j = ∑ i ∈ Finset.range d, (s i - θ (j * (2 * d) + i)) ^ 2 := by
  simp [sqDist, anchorCoord]

/-- linear law of anchor `j` -/
theorem law_eq_sum (d : Nat) (θ s : Nat → K) (j : Nat) :
    law (fieldOps σ) d θ s j = ∑ i ∈ Finset.range d, s i * θ (j * (2 * d) + d + i) := by
  simp [law, lawWeight]

/-- `isFirstNearest` says: `j` is an anchor, no anchor is strictly closer, every earlier anchor
is strictly farther -/
theorem isFirstNearest_iff (d k : Nat) (θ s : Nat → K) (j : Nat) :
    isFirstNearest (fieldOps σ) d k θ s j = true ↔
      j < k ∧ (∀ i < k, sqDist (fieldOps σ) d θ s j ≤ sqDist (fieldOps σ) d θ s i) ∧
        (∀ i < j, sqDist (fieldOps σ) d θ s j < sqDist (fieldOps σ) d θ s i) := by
  simp [isFirstNearest, List.all_eq_true, and_assoc]
end simp_lemmas

/-! ### a first nearest anchor exists, is unique, and `find?` returns it -/

theorem exists_first_argmin (f : Nat → K) (k : Nat) (hk : 0 < k) :
    ∃ j < k, (∀ i < k, f j ≤ f i) ∧ (∀ i < j, f j < f i) := by
  induction k with
  | zero => omega
  | succ k ih =>
    rcases Nat.eq_zero_or_pos k with rfl | hpos
    · refine ⟨0, by omega, ?_, fun i hi => by omega⟩
      intro i hi
      have h0 : i = 0 := by omega
      subst h0
      exact le_refl _
    · obtain ⟨j, hj, hmin, hfirst⟩ := ih hpos
      by_cases h : f k < f j
      · refine ⟨k, by omega, ?_, ?_⟩
        · intro i hi
          rcases Nat.lt_succ_iff_lt_or_eq.mp hi with hlt | rfl
          · exact le_of_lt (lt_of_lt_of_le h (hmin i hlt))
          · exact le_refl _
        · intro i hi
          exact lt_of_lt_of_le h (hmin i hi)
      · refine ⟨j, by omega, ?_, hfirst⟩
        intro i hi
        rcases Nat.lt_succ_iff_lt_or_eq.mp hi with hlt | rfl
        · exact hmin i hlt
        · exact not_lt.mp h

theorem exists_isFirstNearest (σ : Syms K) (d k : Nat) (hk : 0 < k) (θ s : Nat → K) :
    ∃ j, isFirstNearest (fieldOps σ) d k θ s j = true := by
  obtain ⟨j, hj, h1, h2⟩ := exists_first_argmin (fun j => sqDist (fieldOps σ) d θ s j) k hk
  exact ⟨j, (isFirstNearest_iff σ d k θ s j).mpr ⟨hj, h1, h2⟩⟩

/-- If the kernel value equals the law of *every* first nearest anchor, then the executable
specification `nearestAnchorLaw` returns exactly the kernel value. -/
theorem nearestAnchorLaw_eq_some (σ : Syms K) (d k : Nat) (hk : 0 < k) (θ s : Nat → K) (v : K)
    (h : ∀ j, isFirstNearest (fieldOps σ) d k θ s j = true → v = law (fieldOps σ) d θ s j) :
    nearestAnchorLaw (fieldOps σ) d k θ s = some v := by
  obtain ⟨j, hj⟩ := exists_isFirstNearest σ d k hk θ s
  have hjk : j < k := ((isFirstNearest_iff σ d k θ s j).mp hj).1
  have hsome : ((List.range k).find? (isFirstNearest (fieldOps σ) d k θ s)).isSome := by
    rw [List.find?_isSome]
    exact ⟨j, List.mem_range.mpr hjk, hj⟩
  obtain ⟨j', hj'⟩ := Option.isSome_iff_exists.mp hsome
  have hp : isFirstNearest (fieldOps σ) d k θ s j' = true := List.find?_some hj'
  simp [nearestAnchorLaw, firstNearest, hj', h j' hp]

/-! ### the enumeration of monomials is complete -/

theorem mem_vecsLE (d : Nat) : ∀ (k : Nat) (e : List Nat),
    e ∈ vecsLE d k ↔ e.length = d ∧ e.sum ≤ k := by
  induction d with
  | zero =>
    intro k e
    cases e <;> simp [vecsLE]
  | succ d ih =>
    intro k e
    simp only [vecsLE, List.mem_flatMap, List.mem_range, List.mem_map, ih]
    constructor
    · rintro ⟨a, ha, r, ⟨hr1, hr2⟩, rfl⟩
      simp only [List.length_cons, List.sum_cons]
      omega
    · intro ⟨h1, h2⟩
      cases e with
      | nil => simp at h1
      | cons a r =>
        simp only [List.length_cons, List.sum_cons] at h1 h2
        exact ⟨a, by omega, r, ⟨by omega, by omega⟩, rfl⟩

/-- `monomials d k` = all exponent vectors of `d` variables with degree between 1 and `k` -/
theorem mem_monomials_iff (d k : Nat) (e : List Nat) :
    e ∈ monomials d k ↔ e.length = d ∧ 1 ≤ e.sum ∧ e.sum ≤ k := by
  simp only [monomials, List.mem_filter, mem_vecsLE, decide_eq_true_eq]
  constructor
  · rintro ⟨⟨h1, h2⟩, h3⟩; exact ⟨h1, h3, h2⟩
  · rintro ⟨h1, h3, h2⟩; exact ⟨⟨h1, h2⟩, h3⟩

/-- four decidable checks on a concrete table give `CompleteTable` -/
theorem completeTable_of_checks (exps : List (List Nat)) (d k p : Nat)
    (hlen : exps.length = p) (hnd : exps.Nodup)
    (hin : ∀ e ∈ exps, e.length = d ∧ 1 ≤ e.sum ∧ e.sum ≤ k)
    (hall : ∀ e ∈ monomials d k, e ∈ exps) : CompleteTable exps d k p :=
  ⟨hlen, hnd, fun e => ⟨hin e, fun h => hall e ((mem_monomials_iff d k e).mpr h)⟩⟩

/-- a complete table is, up to order, the enumeration of the specification — hence
`p` = number of monomials of degree `1..k` in `d` variables -/
theorem completeTable_length (exps : List (List Nat)) (d k p : Nat) (h : CompleteTable exps d k p)
    (hnd : (monomials d k).Nodup) : p = (monomials d k).length := by
  obtain ⟨hlen, hnd', hiff⟩ := h
  rw [← hlen]
  apply List.Perm.length_eq
  rw [List.perm_ext_iff_of_nodup hnd' hnd]
  intro e
  rw [hiff, mem_monomials_iff]

end Controllers
