import Model.Order1d
/-!
Orbits of a permutation of `{0,…,n-1}`, counting of cycles by their smallest elements, and the
effect of one transposition on the number of cycles (C20, swap distance).  Core Lean only.
-/
namespace Order1d

theorem iter_succ' (f : Nat → Nat) (k a : Nat) : iter f (k + 1) a = f (iter f k a) := by
  induction k generalizing a with
  | zero => rfl
  | succ k ih =>
    show iter f (k + 1) (f a) = f (iter f (k + 1) a)
    rw [ih (f a)]
    rfl

theorem iter_add (f : Nat → Nat) (k l a : Nat) : iter f (k + l) a = iter f k (iter f l a) := by
  induction k with
  | zero => simp [iter]
  | succ k ih =>
    rw [show k + 1 + l = (k + l) + 1 by omega, iter_succ', iter_succ', ih]

/-- `f` permutes `{0,…,n-1}` and fixes everything else -/
structure PermN (f : Nat → Nat) (n : Nat) : Prop where
  lt : ∀ v, v < n → f v < n
  fix : ∀ v, n ≤ v → f v = v
  inj : ∀ a b, f a = f b → a = b

namespace PermN
variable {f : Nat → Nat} {n : Nat}

theorem iter_lt (h : PermN f n) (k : Nat) {a : Nat} (ha : a < n) : iter f k a < n := by
  induction k generalizing a with
  | zero => exact ha
  | succ k ih => exact ih (h.lt a ha)

theorem iter_fix (h : PermN f n) (k : Nat) {a : Nat} (ha : n ≤ a) : iter f k a = a := by
  induction k with
  | zero => rfl
  | succ k ih => show iter f k (f a) = a; rw [h.fix a ha]; exact ih

theorem iter_inj (h : PermN f n) (k : Nat) {a b : Nat} (e : iter f k a = iter f k b) : a = b := by
  induction k generalizing a b with
  | zero => exact e
  | succ k ih => exact h.inj _ _ (ih e)

/-- pigeonhole: every point returns to itself within `n` steps -/
theorem exists_period (h : PermN f n) (a : Nat) : ∃ m, 1 ≤ m ∧ m ≤ max n 1 ∧ iter f m a = a := by
  by_cases ha : n ≤ a
  · exact ⟨1, by omega, by omega, h.iter_fix 1 ha⟩
  · have ha : a < n := by omega
    -- the n+1 points f^0 a … f^n a lie in `range n`
    have hsub : ((List.range (n + 1)).map fun t => iter f t a) ⊆ List.range n := by
      intro x hx
      obtain ⟨t, _, rfl⟩ := List.mem_map.mp hx
      simpa using h.iter_lt t ha
    have hnd : ¬ ((List.range (n + 1)).map fun t => iter f t a).Nodup := by
      intro hn
      have := hn.length_le_of_subset hsub
      simp at this
      omega
    have : ∃ s t, s < t ∧ t ≤ n ∧ iter f s a = iter f t a := by
      apply Classical.byContradiction
      intro hc
      apply hnd
      rw [List.nodup_iff_pairwise_ne, List.pairwise_map]
      refine List.Pairwise.imp_of_mem ?_ (List.pairwise_lt_range (n := n + 1))
      intro s t hs ht hst e
      exact hc ⟨s, t, hst, by simp at ht; omega, e⟩
    obtain ⟨s, t, hst, htn, e⟩ := this
    refine ⟨t - s, by omega, by omega, ?_⟩
    have : iter f s (iter f (t - s) a) = iter f s a := by
      rw [← iter_add, show s + (t - s) = t by omega]; exact e.symm
    exact h.iter_inj s this

end PermN

/-- `b` lies on the forward orbit of `a` -/
def Orb (f : Nat → Nat) (a b : Nat) : Prop := ∃ t, iter f t a = b

theorem Orb.refl (f : Nat → Nat) (a : Nat) : Orb f a a := ⟨0, rfl⟩

theorem Orb.trans {f : Nat → Nat} {a b c : Nat} (h1 : Orb f a b) (h2 : Orb f b c) : Orb f a c := by
  obtain ⟨s, rfl⟩ := h1
  obtain ⟨t, rfl⟩ := h2
  exact ⟨t + s, iter_add f t s a⟩

theorem Orb.step (f : Nat → Nat) (a : Nat) : Orb f a (f a) := ⟨1, rfl⟩

theorem iter_period_mul (f : Nat → Nat) (m a : Nat) (hm : iter f m a = a) (q : Nat) :
    iter f (q * m) a = a := by
  induction q with
  | zero => simp [iter]
  | succ q ih => rw [show (q + 1) * m = q * m + m by rw [Nat.succ_mul], iter_add, hm, ih]

theorem Orb.symm {f : Nat → Nat} {n : Nat} (h : PermN f n) {a b : Nat} (hab : Orb f a b) :
    Orb f b a := by
  obtain ⟨t, rfl⟩ := hab
  obtain ⟨m, hm1, _, hm⟩ := h.exists_period a
  -- t ≤ t*m, and f^(t*m) a = a
  refine ⟨t * m - t, ?_⟩
  rw [← iter_add]
  have : t * m - t + t = t * m := by
    have : t ≤ t * m := Nat.le_mul_of_pos_right t hm1
    omega
  rw [this]
  exact iter_period_mul f m a hm t

/-- orbit points are reached within fewer than `max n 1` steps -/
theorem Orb.bounded {f : Nat → Nat} {n : Nat} (h : PermN f n) {a b : Nat} (hab : Orb f a b) :
    ∃ t, t < max n 1 ∧ iter f t a = b := by
  obtain ⟨t, rfl⟩ := hab
  obtain ⟨m, hm1, hmn, hm⟩ := h.exists_period a
  refine ⟨t % m, ?_, ?_⟩
  · have := Nat.mod_lt t hm1; omega
  · have : t = t % m + (t / m) * m := by
      have := Nat.mod_add_div t m
      rw [Nat.mul_comm] at this; omega
    conv => rhs; rw [this]
    rw [iter_add, iter_period_mul f m a hm]

theorem Orb.lt {f : Nat → Nat} {n : Nat} (h : PermN f n) {a b : Nat} (hab : Orb f a b)
    (ha : a < n) : b < n := by
  obtain ⟨t, rfl⟩ := hab
  exact h.iter_lt t ha


/-! ### counting classes by their smallest elements -/

theorem filter_len_le {p q : Nat → Bool} : ∀ (l : List Nat), (∀ i ∈ l, p i = true → q i = true) →
    (l.filter p).length ≤ (l.filter q).length := by
  intro l
  induction l with
  | nil => simp
  | cons a t ih =>
    intro h
    have iht := ih (fun i hi => h i (by simp [hi]))
    have ha := h a (by simp)
    simp only [List.filter_cons]
    cases hp : p a <;> cases hq : q a <;> simp_all <;> omega

theorem filter_len_le_succ {p q : Nat → Bool} (z : Nat) : ∀ (l : List Nat), l.Nodup →
    (∀ i ∈ l, p i = true → q i = true ∨ i = z) →
    (l.filter p).length ≤ (l.filter q).length + 1 := by
  intro l
  induction l with
  | nil => simp
  | cons a t ih =>
    intro hnd h
    have hnd' := List.nodup_cons.mp hnd
    simp only [List.filter_cons]
    by_cases haz : a = z
    · have : (t.filter p).length ≤ (t.filter q).length := by
        apply filter_len_le
        intro i hi hpi
        rcases h i (by simp [hi]) hpi with h1 | h1
        · exact h1
        · subst haz; subst h1; exact absurd hi hnd'.1
      cases hp : p a <;> cases hq : q a <;> simp <;> omega
    · have iht := ih hnd'.2 (fun i hi => h i (by simp [hi]))
      have ha := h a (by simp)
      cases hp : p a <;> cases hq : q a <;> simp_all <;> omega

theorem filter_len_lt {p q : Nat → Bool} (x : Nat) : ∀ (l : List Nat),
    (∀ i ∈ l, p i = true → q i = true) → x ∈ l → q x = true → p x = false →
    (l.filter p).length + 1 ≤ (l.filter q).length := by
  intro l
  induction l with
  | nil => intro _ hx; simp at hx
  | cons a t ih =>
    intro h hx hq hp
    have ha := h a (by simp)
    have hle := filter_len_le t (fun i hi => h i (by simp [hi]))
    simp only [List.filter_cons]
    rcases List.mem_cons.mp hx with e | e
    · subst e
      simp [hq, hp]; omega
    · have iht := ih (fun i hi => h i (by simp [hi])) e hq hp
      cases hpa : p a <;> cases hqa : q a <;> simp_all <;> omega

open Classical in
/-- number of classes of `R` among `0..n-1`, counted by their smallest elements -/
noncomputable def cls (R : Nat → Nat → Prop) (n : Nat) : Nat :=
  ((List.range n).filter fun i => decide (∀ j, j < i → ¬ R j i)).length

structure IsEquiv (R : Nat → Nat → Prop) : Prop where
  refl : ∀ a, R a a
  symm : ∀ {a b}, R a b → R b a
  trans : ∀ {a b c}, R a b → R b c → R a c

/-- `R` with the classes of `u` and `w` merged -/
def Merge (R : Nat → Nat → Prop) (u w : Nat) (a b : Nat) : Prop :=
  R a b ∨ ((R a u ∨ R a w) ∧ (R b u ∨ R b w))

theorem Merge.isEquiv {R : Nat → Nat → Prop} (hR : IsEquiv R) (u w : Nat) : IsEquiv (Merge R u w) := by
  refine ⟨fun a => Or.inl (hR.refl a), ?_, ?_⟩
  · intro a b h
    rcases h with h | ⟨h1, h2⟩
    · exact Or.inl (hR.symm h)
    · exact Or.inr ⟨h2, h1⟩
  · intro a b c h1 h2
    rcases h1 with h1 | ⟨ha, hb⟩
    · rcases h2 with h2 | ⟨hb', hc⟩
      · exact Or.inl (hR.trans h1 h2)
      · refine Or.inr ⟨?_, hc⟩
        rcases hb' with e | e
        · exact Or.inl (hR.trans h1 e)
        · exact Or.inr (hR.trans h1 e)
    · rcases h2 with h2 | ⟨_, hc⟩
      · refine Or.inr ⟨ha, ?_⟩
        rcases hb with e | e
        · exact Or.inl (hR.trans (hR.symm h2) e)
        · exact Or.inr (hR.trans (hR.symm h2) e)
      · exact Or.inr ⟨ha, hc⟩

/-- a finer relation has at least as many classes -/
theorem cls_le_of_finer {R S : Nat → Nat → Prop} (n : Nat) (h : ∀ a b, R a b → S a b) :
    cls S n ≤ cls R n := by
  unfold cls
  apply filter_len_le
  intro i _ hi
  simp only [decide_eq_true_eq] at hi ⊢
  intro j hj hr
  exact hi j hj (h j i hr)

/-- merging two classes loses at most one class -/
theorem cls_merge {R : Nat → Nat → Prop} (hR : IsEquiv R) (u w n : Nat) :
    cls R n ≤ cls (Merge R u w) n + 1 := by
  -- any two class minima that stop being minimal coincide
  have uniq : ∀ i i', (∀ j, j < i → ¬ R j i) → (∀ j, j < i' → ¬ R j i') →
      ¬ (∀ j, j < i → ¬ Merge R u w j i) → ¬ (∀ j, j < i' → ¬ Merge R u w j i') → i = i' := by
    intro i i' hi hi' hs hs'
    have hs : ∃ j, j < i ∧ Merge R u w j i := by
      apply Classical.byContradiction
      intro hc; apply hs; intro j hj hm; exact hc ⟨j, hj, hm⟩
    have hs' : ∃ j, j < i' ∧ Merge R u w j i' := by
      apply Classical.byContradiction
      intro hc; apply hs'; intro j hj hm; exact hc ⟨j, hj, hm⟩
    obtain ⟨j, hj, hm⟩ := hs
    obtain ⟨j', hj', hm'⟩ := hs'
    have hUj : (R j u ∨ R j w) ∧ (R i u ∨ R i w) := by
      rcases hm with h | h
      · exact absurd h (hi j hj)
      · exact h
    have hUj' : (R j' u ∨ R j' w) ∧ (R i' u ∨ R i' w) := by
      rcases hm' with h | h
      · exact absurd h (hi' j' hj')
      · exact h
    -- if i and i' are related they are equal (both minimal)
    have same : R i i' → i = i' := by
      intro h
      rcases Nat.lt_trichotomy i i' with h1 | h1 | h1
      · exact absurd h (hi' i h1)
      · exact h1
      · exact absurd (hR.symm h) (hi i' h1)
    -- otherwise one is in the class of u, the other in that of w, and the witnesses cross
    have cross : ∀ {a b : Nat}, R i a → R i' b → (R j a ∨ R j b) → (R j' a ∨ R j' b) → i = i' := by
      intro a b ha hb hja hja'
      have hjb : R j b := by
        rcases hja with e | e
        · exact absurd (hR.trans e (hR.symm ha)) (hi j hj)
        · exact e
      have hj'a : R j' a := by
        rcases hja' with e | e
        · exact e
        · exact absurd (hR.trans e (hR.symm hb)) (hi' j' hj')
      have h1 : ¬ j < i' := fun hlt => hi' j hlt (hR.trans hjb (hR.symm hb))
      have h2 : ¬ j' < i := fun hlt => hi j' hlt (hR.trans hj'a (hR.symm ha))
      omega
    rcases hUj.2 with hiu | hiw
    · rcases hUj'.2 with hi'u | hi'w
      · exact same (hR.trans hiu (hR.symm hi'u))
      · exact cross hiu hi'w hUj.1 hUj'.1
    · rcases hUj'.2 with hi'u | hi'w
      · exact cross hiw hi'u (Or.symm hUj.1) (Or.symm hUj'.1)
      · exact same (hR.trans hiw (hR.symm hi'w))
  -- choose the lost minimum, if any
  by_cases hex : ∃ z, (∀ j, j < z → ¬ R j z) ∧ ¬ (∀ j, j < z → ¬ Merge R u w j z)
  · obtain ⟨z, hz1, hz2⟩ := hex
    unfold cls
    apply filter_len_le_succ z _ List.nodup_range
    intro i _ hi
    simp only [decide_eq_true_eq] at hi ⊢
    by_cases hm : ∀ j, j < i → ¬ Merge R u w j i
    · exact Or.inl hm
    · exact Or.inr (uniq i z hi hz1 hm hz2)
  · have : cls R n ≤ cls (Merge R u w) n := by
      unfold cls
      apply filter_len_le
      intro i _ hi
      simp only [decide_eq_true_eq] at hi ⊢
      apply Classical.byContradiction
      intro hm
      exact hex ⟨i, hi, hm⟩
    omega

/-! ### transpositions of values -/

/-- the transposition of the values `u` and `w` -/
def sw (u w v : Nat) : Nat := if v = u then w else if v = w then u else v

theorem sw_sw (u w v : Nat) : sw u w (sw u w v) = v := by
  unfold sw; split <;> split <;> (try split) <;> simp_all <;> omega

theorem sw_lt {u w n : Nat} (hu : u < n) (hw : w < n) (v : Nat) (hv : v < n) : sw u w v < n := by
  unfold sw; split <;> (try split) <;> omega

theorem sw_ge {u w n : Nat} (hu : u < n) (hw : w < n) (v : Nat) (hv : n ≤ v) : sw u w v = v := by
  unfold sw; split <;> (try split) <;> omega

theorem PermN.comp_sw {f : Nat → Nat} {n : Nat} (h : PermN f n) {u w : Nat} (hu : u < n)
    (hw : w < n) : PermN (fun v => f (sw u w v)) n := by
  refine ⟨fun v hv => h.lt _ (sw_lt hu hw v hv), fun v hv => ?_, fun a b e => ?_⟩
  · simp only [sw_ge hu hw v hv]; exact h.fix v hv
  · have := h.inj _ _ e
    have h2 : sw u w (sw u w a) = sw u w (sw u w b) := by rw [this]
    simpa [sw_sw] using h2

theorem orb_isEquiv {f : Nat → Nat} {n : Nat} (h : PermN f n) : IsEquiv (Orb f) :=
  ⟨Orb.refl f, fun hab => Orb.symm h hab, fun h1 h2 => Orb.trans h1 h2⟩

/-- orbits after composing with a transposition stay inside the merged classes -/
theorem orb_comp_sw_le_merge {f : Nat → Nat} {n : Nat} (h : PermN f n) (u w : Nat) (a b : Nat)
    (hab : Orb (fun v => f (sw u w v)) a b) : Merge (Orb f) u w a b := by
  have hE := orb_isEquiv h
  have hM := Merge.isEquiv hE u w
  obtain ⟨t, rfl⟩ := hab
  induction t generalizing a with
  | zero => exact hM.refl a
  | succ t ih =>
    show Merge (Orb f) u w a (iter _ t (f (sw u w a)))
    refine hM.trans ?_ (ih (f (sw u w a)))
    unfold sw
    by_cases h1 : a = u
    · subst h1
      simp only [if_true]
      exact Or.inr ⟨Or.inl (hE.refl _), Or.inr (hE.symm (Orb.step f w))⟩
    · by_cases h2 : a = w
      · subst h2
        simp only [h1, if_false, if_true]
        exact Or.inr ⟨Or.inr (hE.refl _), Or.inl (hE.symm (Orb.step f u))⟩
      · simp only [h1, h2, if_false]
        exact Or.inl (Orb.step f a)

/-- **one transposition changes the number of cycles by at most one** (upwards) -/
theorem cls_comp_sw_le {f : Nat → Nat} {n : Nat} (h : PermN f n) {u w : Nat} (hu : u < n)
    (hw : w < n) : cls (Orb (fun v => f (sw u w v))) n ≤ cls (Orb f) n + 1 := by
  -- f = f' ∘ sw, hence Orb f ⊆ Merge (Orb f') ⊆ …
  have h' := h.comp_sw hu hw
  have hfin : ∀ a b, Orb f a b → Merge (Orb (fun v => f (sw u w v))) u w a b := by
    intro a b hab
    have : Orb (fun v => (fun v => f (sw u w v)) (sw u w v)) a b := by
      simpa [sw_sw] using hab
    exact orb_comp_sw_le_merge h' u w a b this
  have h1 := cls_merge (orb_isEquiv h') u w n
  have h2 := cls_le_of_finer n hfin
  omega

theorem exists_least (P : Nat → Prop) (x : Nat) (hx : P x) : ∃ m, P m ∧ ∀ y, y < m → ¬ P y := by
  induction x using Nat.strongRecOn with
  | _ x ih =>
    by_cases h : ∃ y, y < x ∧ P y
    · obtain ⟨y, hy, hpy⟩ := h
      exact ih y hy hpy
    · exact ⟨x, hx, fun y hy hp => h ⟨y, hy, hp⟩⟩

/-- **splitting**: exchanging `u` with its image `w = f u ≠ u` makes `w` a fixed point and
increases the number of cycles by exactly one -/
theorem cls_split {f : Nat → Nat} {n : Nat} (h : PermN f n) {u w : Nat} (hu : u < n)
    (hw : w < n) (hfw : f u = w) (hne : u ≠ w) :
    cls (Orb (fun v => f (sw u w v))) n = cls (Orb f) n + 1 := by
  have hle := cls_comp_sw_le h hu hw
  have h' := h.comp_sw hu hw
  have hE := orb_isEquiv h
  have hE' := orb_isEquiv h'
  -- the new orbits refine the old ones
  have hfin : ∀ a b, Orb (fun v => f (sw u w v)) a b → Orb f a b := by
    intro a b hab
    obtain ⟨t, rfl⟩ := hab
    induction t generalizing a with
    | zero => exact hE.refl a
    | succ t ih =>
      show Orb f a (iter _ t (f (sw u w a)))
      refine hE.trans ?_ (ih (f (sw u w a)))
      unfold sw
      by_cases h1 : a = u
      · subst h1
        simp only [if_true]
        exact hE.trans (hfw ▸ Orb.step f a) (Orb.step f w)
      · by_cases h2 : a = w
        · subst h2
          simp only [h1, if_false, if_true]
          rw [hfw]; exact hE.refl _
        · simp only [h1, h2, if_false]
          exact Orb.step f a
  -- w is a fixed point of the new map
  have hfix : ∀ t, iter (fun v => f (sw u w v)) t w = w := by
    intro t
    induction t with
    | zero => rfl
    | succ t ih =>
      show iter _ t (f (sw u w w)) = w
      have : sw u w w = u := by unfold sw; simp [Ne.symm hne]
      rw [this, hfw]; exact ih
  have hwonly : ∀ x, Orb (fun v => f (sw u w v)) w x → x = w := by
    intro x hx; obtain ⟨t, rfl⟩ := hx; exact hfix t
  have hge : cls (Orb f) n + 1 ≤ cls (Orb (fun v => f (sw u w v))) n := by
    by_cases hmin : ∀ j, j < w → ¬ Orb f j w
    · -- w is the smallest of its old cycle: the smallest other element becomes a new minimum
      have huw : Orb f w u := hE.symm (hfw ▸ Orb.step f u)
      obtain ⟨m, ⟨hm1, hm2⟩, hm3⟩ := exists_least (fun x => x ≠ w ∧ Orb f w x) u ⟨hne, huw⟩
      have hmn : m < n := Orb.lt h hm2 hw
      have hwm : w < m := by
        rcases Nat.lt_trichotomy w m with e | e | e
        · exact e
        · exact absurd e.symm hm1
        · exact absurd (hE.symm hm2) (hmin m e)
      unfold cls
      apply filter_len_lt m
      · intro i _ hi
        simp only [decide_eq_true_eq] at hi ⊢
        intro j hj hr
        exact hi j hj (hfin j i hr)
      · simpa using hmn
      · simp only [decide_eq_true_eq]
        intro j hj hr
        by_cases hjw : j = w
        · subst hjw
          exact hm1 (hwonly m hr)
        · exact hm3 j hj ⟨hjw, hE.trans hm2 (hE.symm (hfin j m hr))⟩
      · simp only [decide_eq_false_iff_not]
        intro hc
        exact hc w hwm hm2
    · -- w is not the smallest of its old cycle, but it is alone in its new one
      unfold cls
      apply filter_len_lt w
      · intro i _ hi
        simp only [decide_eq_true_eq] at hi ⊢
        intro j hj hr
        exact hi j hj (hfin j i hr)
      · simpa using hw
      · simp only [decide_eq_true_eq]
        intro j hj hr
        have := hwonly j (hE'.symm hr)
        omega
      · simpa using hmin
  omega


/-! ### the executable cycle count is the number of orbits -/

theorem minOnOrbit_iff (f : Nat → Nat) (i : Nat) : ∀ (k a : Nat),
    minOnOrbit f i k a = true ↔ ∀ t, t < k → i ≤ iter f t a := by
  intro k
  induction k with
  | zero => intro a; simp [minOnOrbit]
  | succ k ih =>
    intro a
    simp only [minOnOrbit, Bool.and_eq_true, decide_eq_true_eq, ih]
    constructor
    · intro ⟨h0, h1⟩ t ht
      cases t with
      | zero => exact h0
      | succ t => exact h1 t (by omega)
    · intro h
      exact ⟨h 0 (by omega), fun t ht => h (t + 1) (by omega)⟩

theorem minOnOrbit_iff_orb {f : Nat → Nat} {n : Nat} (h : PermN f n) {i : Nat} (hi : i < n) :
    minOnOrbit f i n i = true ↔ ∀ j, j < i → ¬ Orb f j i := by
  rw [minOnOrbit_iff]
  constructor
  · intro hm j hj hr
    obtain ⟨t, ht, e⟩ := Orb.bounded h (Orb.symm h hr)
    have := hm t (by omega)
    omega
  · intro hm t _
    apply Classical.byContradiction
    intro hc
    exact hm (iter f t i) (by omega) (Orb.symm h ⟨t, rfl⟩)

theorem numCycles_eq_cls {f : Nat → Nat} {n : Nat} (h : PermN f n) :
    numCycles f n = cls (Orb f) n := by
  unfold numCycles cls
  congr 1
  apply List.filter_congr
  intro i hi
  have hi : i < n := by simpa using hi
  have := minOnOrbit_iff_orb h hi
  by_cases hc : ∀ j, j < i → ¬ Orb f j i
  · simp only [this.mpr hc]
    symm
    simpa using hc
  · have : ¬ minOnOrbit f i n i = true := fun e => hc (this.mp e)
    simp [hc, this]

theorem numCycles_le (f : Nat → Nat) (n : Nat) : numCycles f n ≤ n := by
  unfold numCycles
  have := List.length_filter_le (fun i => minOnOrbit f i n i) (List.range n)
  simpa using this

theorem numCycles_congr {f g : Nat → Nat} {n : Nat} (hf : PermN f n)
    (e : ∀ v, v < n → f v = g v) : numCycles f n = numCycles g n := by
  unfold numCycles
  congr 1
  apply List.filter_congr
  intro i hi
  have hi : i < n := by simpa using hi
  have key : ∀ k a, a < n → minOnOrbit f i k a = minOnOrbit g i k a := by
    intro k
    induction k with
    | zero => intros; rfl
    | succ k ih =>
      intro a ha
      simp only [minOnOrbit]
      rw [← e a ha, ih (f a) (hf.lt a ha)]
  exact key n i hi

end Order1d
