import Proofs.LowerBound
/-! C03 helper lemmas, part 2: the classes S1…S4 as filters, and the geometry of one bin. -/
namespace Pack
namespace LB

/-- the four classes of `__lb_q` as predicates on the side length -/
def c1 (W q l : Int) : Bool := decide (l > W - q)
def c2 (W q l : Int) : Bool := !decide (l > W - q) && decide (2 * l > W)
def c3 (W H q l : Int) : Bool := !decide (l > W - q) && !decide (2 * l > W) && decide (2 * l > H)
def c4 (W H q l : Int) : Bool :=
  !decide (l > W - q) && !decide (2 * l > W) && !decide (2 * l > H) && decide (l ≥ q)

/-- the sets S1…S4 of a list of side lengths, as filters -/
def setsOf (W H q : Int) (L : List Int) : Sets :=
  ⟨L.filter (c1 W q), L.filter (c2 W q), L.filter (c3 W H q), L.filter (c4 W H q)⟩

/-- on a non-increasing list (with `0 ≤ 2q ≤ H ≤ W`) the classification loop with its `break`
computes exactly the four filters -/
theorem classify_sorted (W H q : Int) (hqH : 2 * q ≤ H) (hHW : H ≤ W)
    (sq : List Int) (hs : sq.Pairwise (· ≥ ·)) : classify W H q sq = setsOf W H q sq := by
  induction sq with
  | nil => rfl
  | cons l rest ih =>
    have hs' := List.pairwise_cons.mp hs
    have ih' := ih hs'.2
    simp only [classify]
    split
    · rename_i h1
      rw [ih']; simp [setsOf, c1, c2, c3, c4, List.filter_cons, h1]
    · rename_i h1
      split
      · rename_i h2
        rw [ih']; simp [setsOf, c1, c2, c3, c4, List.filter_cons, h1, h2]
      · rename_i h2
        split
        · rename_i h3
          rw [ih']; simp [setsOf, c1, c2, c3, c4, List.filter_cons, h1, h2, h3]
        · rename_i h3
          split
          · rename_i h4
            rw [ih']; simp [setsOf, c1, c2, c3, c4, List.filter_cons, h1, h2, h3, h4]
          · rename_i h4
            have hall : ∀ x ∈ l :: rest, x < q := by
              intro x hx
              rcases List.mem_cons.mp hx with rfl | hx
              · omega
              · have := hs'.1 x hx; omega
            simp only [setsOf, Sets.empty]
            congr 1
            all_goals
              symm
              rw [List.filter_eq_nil_iff]
              intro x hx
              have := hall x hx
              simp [c1, c2, c3, c4]
              omega


/-! ### generic list facts -/

theorem pairwise_mem {α} {R : α → α → Prop} {l : List α} (h : l.Pairwise R) {a c : α}
    (ha : a ∈ l) (hc : c ∈ l) : a = c ∨ R a c ∨ R c a := by
  induction l with
  | nil => simp at ha
  | cons x t ih =>
    have hp := List.pairwise_cons.mp h
    rcases List.mem_cons.mp ha with rfl | ha' <;> rcases List.mem_cons.mp hc with rfl | hc'
    · exact Or.inl rfl
    · exact Or.inr (Or.inl (hp.1 c hc'))
    · exact Or.inr (Or.inr (hp.1 a ha'))
    · exact ih hp.2 ha' hc'

theorem filter_length_le_one {α} {R : α → α → Prop} (l : List α) (p : α → Bool)
    (h : l.Pairwise R) (hex : ∀ a ∈ l, ∀ c ∈ l, R a c → p a = true → p c = true → False) :
    (l.filter p).length ≤ 1 := by
  induction l with
  | nil => simp
  | cons x t ih =>
    have hp := List.pairwise_cons.mp h
    have ih' := ih hp.2 (fun a ha c hc => hex a (by simp [ha]) c (by simp [hc]))
    by_cases hx : p x = true
    · have : t.filter p = [] := by
        rw [List.filter_eq_nil_iff]
        intro c hc hpc
        exact hex x (by simp) c (by simp [hc]) (hp.1 c hc) hx hpc
      simp [List.filter_cons, hx, this]
    · simp [List.filter_cons, hx]; exact ih'

theorem length_mul_le_sum (l : List Int) (m : Int) (h : ∀ x ∈ l, m ≤ x) :
    (l.length : Int) * m ≤ l.sum := by
  induction l with
  | nil => simp
  | cons x t ih =>
    have := ih (fun y hy => h y (by simp [hy]))
    have := h x (by simp)
    simp only [List.length_cons, List.sum_cons]
    push_cast
    nlinarith

/-! ### the squares of one bin -/

/-- squares (side ≥ 1) inside one `W × H` bin, pairwise non-overlapping -/
structure BinSquares (W H : Int) (Q : List Row) : Prop where
  square : ∀ a ∈ Q, a.t - a.b = a.r - a.l
  pos : ∀ a ∈ Q, 1 ≤ a.r - a.l
  inside : ∀ a ∈ Q, 0 ≤ a.l ∧ 0 ≤ a.b ∧ a.r ≤ W ∧ a.t ≤ H
  disj : Q.Pairwise Row.Disjoint

/-- the column of height `H` over/under a placed square -/
def col (H : Int) (a : Row) : Row := { a with b := 0, t := H }

/-- the "area term" of Theorem 3: squares of S2 ∪ S3 ∪ S4 plus the waste strips of S23 -/
def areaTerm (H q : Int) (S : Sets) : Int :=
  ((S.s2 ++ S.s3 ++ S.s4).map (fun l => l * l)).sum
    + (((S.s2 ++ S.s3).filter (fun l => l > H - q)).map (fun l => l * (H - l))).sum

/-- what the geometry of one bin yields about the list `L` of the side lengths in that bin -/
structure BinOK (W H q : Int) (L : List Int) : Prop where
  wide1 : (L.filter (c1 W q)).length + (L.filter (c2 W q)).length ≤ 1
  s1excl : L.filter (c1 W q) ≠ [] →
    L.filter (c2 W q) = [] ∧ L.filter (c3 W H q) = [] ∧ L.filter (c4 W H q) = []
  s2fit : ∀ l2 ∈ L.filter (c2 W q),
    (L.filter (c3 W H q)).length ≤ 1 ∧ ∀ x ∈ L.filter (c3 W H q), x ≤ W - l2
  s3sum : (L.filter (c3 W H q)).sum ≤ W ∧ ((L.filter (c3 W H q)).length : Int) * (H / 2 + 1) ≤ W
  area : areaTerm H q (setsOf W H q L) ≤ W * H


/-! ### geometry of two squares in a bin -/

theorem pair_sum_le {W H : Int} (hHW : H ≤ W) (a c : Row)
    (sa : a.t - a.b = a.r - a.l) (sc : c.t - c.b = c.r - c.l)
    (ia : 0 ≤ a.l ∧ 0 ≤ a.b ∧ a.r ≤ W ∧ a.t ≤ H) (ic : 0 ≤ c.l ∧ 0 ≤ c.b ∧ c.r ≤ W ∧ c.t ≤ H)
    (d : a.Disjoint c) :
    a.side + c.side ≤ W ∧ (a.side + c.side > H → a.r ≤ c.l ∨ c.r ≤ a.l) := by
  unfold Row.Disjoint at d
  unfold Row.side
  omega

theorem filter_len_add_le (l : List Int) (p p' r : Int → Bool) (h1 : ∀ x, p x = true → r x = true)
    (h2 : ∀ x, p' x = true → r x = true) (h3 : ∀ x, p x = true → p' x = true → False) :
    (l.filter p).length + (l.filter p').length ≤ (l.filter r).length := by
  induction l with
  | nil => simp
  | cons x t ih =>
    by_cases hp : p x = true
    · have hr := h1 x hp
      have hp' : ¬ p' x = true := fun h => h3 x hp h
      simp [List.filter_cons, hp, hr, hp']; omega
    · by_cases hp' : p' x = true
      · have hr := h2 x hp'
        simp [List.filter_cons, hp, hr, hp']; omega
      · simp only [List.filter_cons, hp, hp']
        by_cases hr : r x = true
        · simp [hr]; omega
        · simp [hr]; omega

theorem sum_map_mul_right {α} (l : List α) (f : α → Int) (c : Int) :
    (l.map (fun a => f a * c)).sum = (l.map f).sum * c := by
  induction l with
  | nil => simp
  | cons x t ih => simp [ih]; ring

/-- squares taller than half the bin height stand side by side: their sides add up to ≤ W -/
theorem tall_sum_le {W H : Int} (hH : 1 ≤ H) (hW : 0 ≤ W) (Q : List Row) (hQ : BinSquares W H Q)
    (p : Int → Bool) (hp : ∀ l, p l = true → 2 * l > H) : ((Q.map Row.side).filter p).sum ≤ W := by
  rw [List.filter_map]
  set rows := Q.filter (p ∘ Row.side) with hrows
  have hmem : ∀ a ∈ rows, a ∈ Q ∧ p a.side = true := by
    intro a ha
    have := List.mem_filter.mp ha
    exact ⟨this.1, by simpa using this.2⟩
  have h1 : rows.Pairwise Row.Disjoint := hQ.disj.filter _
  have h2 : rows.Pairwise (fun a c => (col H a).Disjoint (col H c)) := by
    apply List.Pairwise.imp_of_mem _ h1
    intro a c ha hc hac
    obtain ⟨haQ, hpa⟩ := hmem a ha
    obtain ⟨hcQ, hpc⟩ := hmem c hc
    have ta := hp _ hpa
    have tc := hp _ hpc
    have sa := hQ.square a haQ
    have sc := hQ.square c hcQ
    have ia := hQ.inside a haQ
    have ic := hQ.inside c hcQ
    unfold Row.Disjoint at hac ⊢
    unfold Row.side at ta tc
    simp only [col]
    omega
  have h3 : (rows.map (col H)).Pairwise Row.Disjoint := List.pairwise_map.mpr h2
  have h4 := area_sum_le W H hW (by omega) (rows.map (col H))
    (by
      intro x hx
      obtain ⟨a, ha, rfl⟩ := List.mem_map.mp hx
      have := hQ.pos a (hmem a ha).1
      simp only [col]; omega)
    (by
      intro x hx
      obtain ⟨a, ha, rfl⟩ := List.mem_map.mp hx
      have := hQ.inside a (hmem a ha).1
      simp only [col]; omega) h3
  have h5 : ((rows.map (col H)).map Row.area).sum = (rows.map Row.side).sum * H := by
    rw [List.map_map, ← sum_map_mul_right]
    apply congrArg
    apply List.map_congr_left
    intro a _
    simp [col, Row.area, Row.side]
  rw [h5] at h4
  have : (List.map Row.side rows).sum * H ≤ W * H := h4
  exact Int.le_of_mul_le_mul_right this (by omega)


/-! ### the area term of one bin -/

def big (W H q l : Int) : Bool := c2 W q l || c3 W H q l || c4 W H q l
def s23 (W H q l : Int) : Bool := (c2 W q l || c3 W H q l) && decide (l > H - q)
/-- area of the square, plus its waste strip if it is in S23 -/
def gArea (W H q l : Int) : Int := if s23 W H q l then l * l + l * (H - l) else l * l

theorem areaTerm_cons (W H q x : Int) (L : List Int) :
    areaTerm H q (setsOf W H q (x :: L))
      = (if big W H q x then gArea W H q x else 0) + areaTerm H q (setsOf W H q L) := by
  unfold areaTerm setsOf big gArea s23 c2 c3 c4
  by_cases h1 : x > W - q <;> by_cases h2 : 2 * x > W <;> by_cases h3 : 2 * x > H <;>
    by_cases h4 : x ≥ q <;> by_cases h5 : x > H - q <;>
    simp [List.filter_cons, h1, h2, h3, h4, h5, List.filter_append, List.map_append, List.sum_append] <;>
    omega

theorem areaTerm_eq (W H q : Int) (L : List Int) :
    areaTerm H q (setsOf W H q L) = ((L.filter (big W H q)).map (gArea W H q)).sum := by
  induction L with
  | nil => simp [areaTerm, setsOf]
  | cons x L ih =>
    rw [areaTerm_cons, ih]
    by_cases hb : big W H q x = true
    · simp [List.filter_cons, hb]
    · simp [List.filter_cons, hb]


theorem big_ge {W H q l : Int} (h : big W H q l = true) (hqH : 2 * q ≤ H) (hHW : H ≤ W) : q ≤ l := by
  simp [big, c2, c3, c4] at h
  omega

theorem s23_facts {W H q l : Int} (h : s23 W H q l = true) (hHW : H ≤ W) :
    l > H - q ∧ 2 * l > H := by
  simp [s23, c2, c3] at h
  omega

/-- a square of S23 is replaced by the full column through it -/
def ext (W H q : Int) (a : Row) : Row := if s23 W H q a.side then col H a else a

/-- the squares of S2 ∪ S3 ∪ S4 in one bin together with the waste strips of S23 fit into the bin area -/
theorem big_area_le {W H q : Int} (hH : 1 ≤ H) (hHW : H ≤ W) (hqH : 2 * q ≤ H)
    (Q : List Row) (hQ : BinSquares W H Q) :
    areaTerm H q (setsOf W H q (Q.map Row.side)) ≤ W * H := by
  rw [areaTerm_eq, List.filter_map]
  set rows := Q.filter (big W H q ∘ Row.side) with hrows
  have hmem : ∀ a ∈ rows, a ∈ Q ∧ big W H q a.side = true := by
    intro a ha
    have := List.mem_filter.mp ha
    exact ⟨this.1, by simpa using this.2⟩
  have h1 : rows.Pairwise Row.Disjoint := hQ.disj.filter _
  have h2 : rows.Pairwise (fun a c => (ext W H q a).Disjoint (ext W H q c)) := by
    apply List.Pairwise.imp_of_mem _ h1
    intro a c ha hc hac
    obtain ⟨haQ, hba⟩ := hmem a ha
    obtain ⟨hcQ, hbc⟩ := hmem c hc
    have ga := big_ge hba hqH hHW
    have gc := big_ge hbc hqH hHW
    have sa := hQ.square a haQ
    have sc := hQ.square c hcQ
    have ia := hQ.inside a haQ
    have ic := hQ.inside c hcQ
    unfold ext
    split <;> split
    · rename_i ea ec
      have fa := s23_facts ea hHW
      have fc := s23_facts ec hHW
      unfold Row.Disjoint at hac ⊢
      unfold Row.side at *
      simp only [col]
      omega
    · rename_i ea ec
      have fa := s23_facts ea hHW
      unfold Row.Disjoint at hac ⊢
      unfold Row.side at *
      simp only [col]
      omega
    · rename_i ea ec
      have fc := s23_facts ec hHW
      unfold Row.Disjoint at hac ⊢
      unfold Row.side at *
      simp only [col]
      omega
    · exact hac
  have h3 : (rows.map (ext W H q)).Pairwise Row.Disjoint := List.pairwise_map.mpr h2
  have h4 := area_sum_le W H (by omega) (by omega) (rows.map (ext W H q))
    (by
      intro x hx
      obtain ⟨a, ha, rfl⟩ := List.mem_map.mp hx
      have := hQ.pos a (hmem a ha).1
      have := hQ.square a (hmem a ha).1
      unfold ext; split <;> first | (simp only [col]; omega) | omega)
    (by
      intro x hx
      obtain ⟨a, ha, rfl⟩ := List.mem_map.mp hx
      have := hQ.inside a (hmem a ha).1
      unfold ext; split <;> first | (simp only [col]; omega) | omega) h3
  have h5 : ((rows.map (ext W H q)).map Row.area) = (rows.map Row.side).map (gArea W H q) := by
    rw [List.map_map, List.map_map]
    apply List.map_congr_left
    intro a ha
    have sq := hQ.square a (hmem a ha).1
    simp only [Function.comp, ext, gArea]
    split
    · simp only [col, Row.area, Row.side]; ring
    · simp only [Row.area, Row.side]; rw [sq]
  rw [h5] at h4
  exact h4


/-- **the geometry of one bin** (layers 2 and 4 of the DAMV proof): for pairwise non-overlapping
squares in one `W × H` bin with `1 ≤ H ≤ W` and `2q ≤ H`
* at most one square is wider than `W/2` (S1 ∪ S2),
* an S1 square (`l > W − q`) shares the bin with no square of side `≥ q`,
* next to an S2 square there is at most one S3 square and it fits into the residual width,
* the S3 squares of the bin have total side `≤ W` and there are at most `W / (H/2+1)` of them,
* squares of S2 ∪ S3 ∪ S4 plus waste strips of S23 have total area `≤ W·H`. -/
theorem binOK_of_squares {W H q : Int} (hH : 1 ≤ H) (hHW : H ≤ W) (hqH : 2 * q ≤ H)
    (Q : List Row) (hQ : BinSquares W H Q) : BinOK W H q (Q.map Row.side) := by
  -- facts about two members of Q
  have pair : ∀ a ∈ Q, ∀ c ∈ Q, a = c ∨ (a.side + c.side ≤ W ∧
      (a.side + c.side > H → a.r ≤ c.l ∨ c.r ≤ a.l)) := by
    intro a ha c hc
    rcases pairwise_mem hQ.disj ha hc with h | h | h
    · exact Or.inl h
    · have := pair_sum_le hHW a c (hQ.square a ha) (hQ.square c hc) (hQ.inside a ha) (hQ.inside c hc) h
      right; refine ⟨this.1, fun hh => ?_⟩; have := this.2 hh; omega
    · have := pair_sum_le hHW c a (hQ.square c hc) (hQ.square a ha) (hQ.inside c hc) (hQ.inside a ha) h
      right; refine ⟨by omega, fun hh => ?_⟩; have := this.2 (by omega); omega
  have sideH : ∀ a ∈ Q, 1 ≤ a.side ∧ a.side ≤ H := by
    intro a ha
    have := hQ.square a ha; have := hQ.pos a ha; have := hQ.inside a ha
    unfold Row.side; omega
  refine ⟨?_, ?_, ?_, ?_, big_area_le hH hHW hqH Q hQ⟩
  · -- wide1
    let wide : Int → Bool := fun l => decide (2 * l > W)
    have h1 := filter_len_add_le (Q.map Row.side) (c1 W q) (c2 W q) wide
      (by intro x hx; simp [c1, wide] at hx ⊢; omega)
      (by intro x hx; simp [c2, wide] at hx ⊢; omega)
      (by intro x h1 h2; simp [c1, c2] at h1 h2; omega)
    have h2 : ((Q.map Row.side).filter wide).length ≤ 1 := by
      rw [List.filter_map, List.length_map]
      apply filter_length_le_one (R := Row.Disjoint) Q _ hQ.disj
      intro a ha c hc hac pa pc
      have := pair_sum_le hHW a c (hQ.square a ha) (hQ.square c hc) (hQ.inside a ha) (hQ.inside c hc) hac
      simp [wide] at pa pc
      omega
    omega
  · -- s1excl
    intro hne
    obtain ⟨x, hx⟩ := List.exists_mem_of_ne_nil _ hne
    obtain ⟨hxL, hx1⟩ := List.mem_filter.mp hx
    obtain ⟨a, ha, rfl⟩ := List.mem_map.mp hxL
    simp [c1] at hx1
    refine ⟨?_, ?_, ?_⟩ <;>
    · rw [List.filter_eq_nil_iff]
      intro y hy hcy
      obtain ⟨c, hc, rfl⟩ := List.mem_map.mp hy
      simp [c2, c3, c4] at hcy
      rcases pair a ha c hc with h | h
      · subst h; omega
      · omega
  · -- s2fit
    intro l2 hl2
    obtain ⟨hxL, hx2⟩ := List.mem_filter.mp hl2
    obtain ⟨a, ha, rfl⟩ := List.mem_map.mp hxL
    simp [c2] at hx2
    have hHa := sideH a ha
    constructor
    · rw [List.filter_map, List.length_map]
      apply filter_length_le_one (R := Row.Disjoint) Q _ hQ.disj
      intro c hc c' hc' hcc pc pc'
      simp [c3] at pc pc'
      have hcc' := pair_sum_le hHW c c' (hQ.square c hc) (hQ.square c' hc') (hQ.inside c hc) (hQ.inside c' hc') hcc
      have ia := hQ.inside a ha
      have ic := hQ.inside c hc
      have ic' := hQ.inside c' hc'
      have e1 := pair a ha c hc
      have e2 := pair a ha c' hc'
      rcases e1 with h | h
      · subst h; omega
      · rcases e2 with h' | h'
        · subst h'; omega
        · have x1 := h.2 (by unfold Row.side at *; omega)
          have x2 := h'.2 (by unfold Row.side at *; omega)
          have x3 := hcc'.2 (by unfold Row.side at *; omega)
          unfold Row.side at *
          omega
    · intro x hx
      obtain ⟨hxL', hx3⟩ := List.mem_filter.mp hx
      obtain ⟨c, hc, rfl⟩ := List.mem_map.mp hxL'
      simp [c3] at hx3
      rcases pair a ha c hc with h | h
      · subst h; omega
      · omega
  · -- s3sum
    have hsum := tall_sum_le hH (by omega) Q hQ (c3 W H q) (by intro l hl; simp [c3] at hl; omega)
    refine ⟨hsum, ?_⟩
    have := length_mul_le_sum ((Q.map Row.side).filter (c3 W H q)) (H / 2 + 1)
      (by intro x hx; have := (List.mem_filter.mp hx).2; simp [c3] at this; omega)
    omega

end LB
end Pack
