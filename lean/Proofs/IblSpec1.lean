import Proofs.IblSpec
/-!
C14 — refinement, part 2: encoding 1 (`decode1?`) computes the documented next-fit packing.
-/
namespace IblSpec
open Pack Ibl

/-- dropping an item into one bin: the spec's `placeInBin` on the list of items of that bin is the
model's settle loop on the window followed by the model's "inside the bin" test -/
theorem placeInBin_eq (I : Inst) (win : List Row) (hwin : ∀ p ∈ win, InBin I p) (id w h : Int)
    (hw1 : 1 ≤ w) (hw2 : w ≤ I.W) (hh1 : 1 ≤ h) (hH : 0 ≤ I.H) :
    placeInBin I win id w h =
      if (settle (fuelFor (startRow I id w h)) win (startRow I id w h)).r ≤ I.W ∧
         (settle (fuelFor (startRow I id w h)) win (startRow I id w h)).t ≤ I.H
      then some (settle (fuelFor (startRow I id w h)) win (startRow I id w h)) else none := by
  have hs := settled I id w h win hwin hw1 hw2 hh1 hH (fuelFor (startRow I id w h))
  simp only [] at hs
  obtain ⟨_, hl0, hb0, _, _, _, _⟩ := hs
  have heq : settleSpec win ⟨id, 0, I.W - w, I.H, I.W, I.H + h⟩
      = settle (fuelFor (startRow I id w h)) win (startRow I id w h) := by
    unfold settleSpec
    rw [← settle_eq_settleN win (fun p hp => (hwin p hp).2.2.2.2.1) _ _ (by simp only []; omega)]
    rfl
  unfold placeInBin
  simp only []
  rw [heq]
  generalize settle (fuelFor (startRow I id w h)) win (startRow I id w h) = r at *
  by_cases hf : r.r ≤ I.W ∧ r.t ≤ I.H
  · rw [if_pos hf, if_pos ⟨hl0, hb0, hf.1, hf.2⟩]
  · rw [if_neg hf, if_neg (by intro hc; exact hf ⟨hc.2.2.1, hc.2.2.2⟩)]

/-- link between the state of encoding 1 and the spec's list of bins: the open bin is the window
`y[bin_start .. i)`; closed bins are never looked at again -/
def R1 (st : St1) (bins : Bins) : Prop :=
  ∃ closed : Bins, bins = closed ++ [st.done.drop st.binStart] ∧ (closed.length : Int) + 1 = st.binId

theorem step1_refines (I : Inst) (hv : I.Valid) (xs : List Int) (st : St1) (v : Int) (h : Inv1 I xs st)
    (hv0 : v ≠ 0) (hr : v.natAbs ≤ I.nTypes) (bins : Bins) (hR : R1 st bins) :
    ∃ st' id w hh, step1 I st v = some st' ∧ Inv1 I (xs ++ [v]) st' ∧ orient I v = some (id, w, hh) ∧
      st'.done = st.done ++ [(nextFitPlace I bins id w hh).1] ∧ R1 st' (nextFitPlace I bins id w hh).2 := by
  obtain ⟨st', hs, hinv'⟩ := step1_inv I hv xs st v h hv0 hr
  obtain ⟨it, w, hh, hd, hit, hor, hw1, hw2, hh1, hh2⟩ := dims?_spec I hv v hv0 hr
  refine ⟨st', (v.natAbs : Int), w, hh, hs, hinv', by rw [orient_eq_dims?]; exact hd, ?_⟩
  have hH : 0 ≤ I.H := by omega
  have hwin : ∀ p ∈ st.done.drop st.binStart, InBin I p :=
    fun p hp => h.inside p (List.mem_of_mem_drop hp)
  have hsd := settled I (v.natAbs : Int) w hh (st.done.drop st.binStart) hwin hw1 hw2 hh1 hH
    (fuelFor (startRow I (v.natAbs : Int) w hh))
  simp only [] at hsd
  obtain ⟨_, _, _, _, hid, _, _⟩ := hsd
  obtain ⟨closed, hb, hcl⟩ := hR
  have hpl := placeInBin_eq I (st.done.drop st.binStart) hwin (v.natAbs : Int) w hh hw1 hw2 hh1 hH
  have hlen : (bins.length : Int) = st.binId := by rw [hb]; simp; omega
  unfold step1 at hs
  rw [hd] at hs
  simp only [] at hs
  unfold nextFitPlace
  rw [hb, List.getLast?_concat]
  simp only []
  rw [hpl, ← hb]
  generalize settle (fuelFor (startRow I (↑v.natAbs) w hh)) (List.drop st.binStart st.done)
    (startRow I (↑v.natAbs) w hh) = r at *
  by_cases hfit : r.r > I.W ∨ r.t > I.H
  · rw [if_pos hfit] at hs
    rw [if_neg (by omega)]
    simp only [Option.some.injEq] at hs
    subst hs
    simp only [openBin]
    have hrow : ({ r with l := 0, b := 0, r := w, t := hh, bin := st.binId + 1 } : Row)
        = ⟨(v.natAbs : Int), (bins.length : Int) + 1, 0, 0, w, hh⟩ := by
      show (⟨r.id, st.binId + 1, 0, 0, w, hh⟩ : Row) = _
      rw [hid, hlen]
    refine ⟨by rw [hrow], ?_⟩
    refine ⟨bins, ?_, by simp only []; omega⟩
    simp only [List.drop_append, List.drop_length, Nat.sub_self, List.drop_zero, List.nil_append]
    rw [hrow]
  · rw [if_neg hfit] at hs
    rw [if_pos (by omega)]
    simp only [Option.some.injEq] at hs
    subst hs
    simp only []
    have hbin : ({ r with bin := (bins.length : Int) } : Row) = { r with bin := st.binId } := by rw [hlen]
    refine ⟨by rw [hbin], ?_⟩
    refine ⟨closed, ?_, hcl⟩
    rw [hb, List.dropLast_concat, List.drop_append_of_le_length h.start, ← hb, hbin]

theorem run1_refines (I : Inst) (hv : I.Valid) (rest : List Int) (xs : List Int) (st : St1) (h : Inv1 I xs st)
    (hrest : ∀ v ∈ rest, v ≠ 0 ∧ v.natAbs ≤ I.nTypes) (bins : Bins) (hR : R1 st bins) :
    ∃ st' rows, run1 I rest st = some st' ∧ Inv1 I (xs ++ rest) st' ∧
      pack I (nextFitPlace I) bins rest = some (rows, st'.binId) ∧ st'.done = st.done ++ rows := by
  induction rest generalizing xs st bins with
  | nil =>
    refine ⟨st, [], rfl, by simpa using h, ?_, by simp⟩
    obtain ⟨closed, hb, hcl⟩ := hR
    simp only [pack, Option.some.injEq, Prod.mk.injEq, true_and]
    rw [hb]; simp; omega
  | cons v t ih =>
    obtain ⟨st1, id, w, hh, h1, h2, ho, hdone, hR1⟩ := step1_refines I hv xs st v h (hrest v (by simp)).1
      (hrest v (by simp)).2 bins hR
    obtain ⟨st2, rows, h3, h4, h5, h6⟩ := ih (xs ++ [v]) st1 h2 (fun u hu => hrest u (by simp [hu])) _ hR1
    refine ⟨st2, (nextFitPlace I bins id w hh).1 :: rows, ?_, by simpa using h4, ?_, ?_⟩
    · simp [run1, h1, h3]
    · simp only [pack, ho, h5]
    · rw [h6, hdone]; simp

end IblSpec
