import Proofs.InstGen
/-! Helper lemmas of C17, part 2: sorting and the run-length merge preserve the item multiset and
yield pairwise different item types; a layout of the decoder's items is a feasible packing
(`Pack.Feasible`) of every instance whose item types stand for the same multiset. -/
namespace InstGen
open Pack

/-- the dimensions of an item type -/
def typ (it : Item) : Int × Int := (it.w, it.h)

/-! ### `items.sort()` -/

theorem lexLe_total (a b : Int × Int) : lexLe a b = true ∨ lexLe b a = true := by
  unfold lexLe; simp only [decide_eq_true_eq]; omega

theorem lexLe_trans {a b c : Int × Int} (h1 : lexLe a b = true) (h2 : lexLe b c = true) : lexLe a c = true := by
  unfold lexLe at *; simp only [decide_eq_true_eq] at *; omega

theorem lexLe_antisymm {a b : Int × Int} (h1 : lexLe a b = true) (h2 : lexLe b a = true) : a = b := by
  unfold lexLe at *; simp only [decide_eq_true_eq] at *
  apply Prod.ext <;> omega

theorem insertSorted_perm (a : Int × Int) (l : List (Int × Int)) : (insertSorted a l).Perm (a :: l) := by
  induction l with
  | nil => simp [insertSorted]
  | cons b t ih =>
    unfold insertSorted
    split
    · exact List.Perm.refl _
    · exact (List.Perm.cons b ih).trans (List.Perm.swap a b t)

theorem sortItems_perm (l : List (Int × Int)) : (sortItems l).Perm l := by
  induction l with
  | nil => simp [sortItems]
  | cons a t ih => exact (insertSorted_perm a _).trans (List.Perm.cons a ih)

theorem insertSorted_sorted (a : Int × Int) (l : List (Int × Int))
    (h : l.Pairwise (fun x y => lexLe x y = true)) :
    (insertSorted a l).Pairwise (fun x y => lexLe x y = true) := by
  induction l with
  | nil => simp [insertSorted]
  | cons b t ih =>
    have hb := List.pairwise_cons.mp h
    unfold insertSorted
    split
    · rename_i hab
      refine List.pairwise_cons.mpr ⟨?_, h⟩
      intro c hc
      simp only [List.mem_cons] at hc
      rcases hc with hc | hc
      · rw [hc]; exact hab
      · exact lexLe_trans hab (hb.1 c hc)
    · rename_i hab
      refine List.pairwise_cons.mpr ⟨?_, ih hb.2⟩
      intro c hc
      have := (insertSorted_perm a t).mem_iff.mp hc
      simp only [List.mem_cons] at this
      rcases this with hc | hc
      · rw [hc]
        rcases lexLe_total a b with h1 | h1
        · exact absurd h1 hab
        · exact h1
      · exact hb.1 c hc

theorem sortItems_sorted (l : List (Int × Int)) : (sortItems l).Pairwise (fun x y => lexLe x y = true) := by
  induction l with
  | nil => simp [sortItems]
  | cons a t ih => exact insertSorted_sorted a _ ih

/-! ### the run-length merge -/

theorem takeWhile_beq_replicate (a : Int × Int) (t : List (Int × Int)) :
    t.takeWhile (· == a) = List.replicate (t.takeWhile (· == a)).length a := by
  induction t with
  | nil => simp
  | cons b u ih =>
    rw [List.takeWhile_cons]
    split
    · rename_i hb
      have : b = a := by simpa using hb
      rw [List.length_cons, List.replicate_succ, ← ih, this]
    · simp

theorem expand_cons (it : Item) (L : List Item) :
    expand (it :: L) = List.replicate it.rep.toNat (it.w, it.h) ++ expand L := by
  simp [expand]

/-- the merged list stands for exactly the list that was merged -/
theorem expand_mergeLoop : ∀ (fuel : Nat) (l : List (Int × Int)), l.length ≤ fuel →
    expand (mergeLoop fuel l) = l := by
  intro fuel
  induction fuel with
  | zero =>
    intro l hl
    have : l = [] := List.eq_nil_of_length_eq_zero (by omega)
    subst this
    simp [mergeLoop, expand]
  | succ f ih =>
    intro l hl
    cases l with
    | nil => simp [mergeLoop, expand]
    | cons a t =>
      unfold mergeLoop
      rw [expand_cons]
      simp only []
      have hd : (t.dropWhile (· == a)).length ≤ f := by
        have := (List.dropWhile_sublist (l := t) (· == a)).length_le
        simp at hl
        omega
      rw [ih _ hd]
      have : (((t.takeWhile (· == a)).length : Int) + 1).toNat = (t.takeWhile (· == a)).length + 1 := by omega
      rw [this, List.replicate_succ, ← takeWhile_beq_replicate]
      simp [List.takeWhile_append_dropWhile]

theorem mergeLoop_rep_pos : ∀ (fuel : Nat) (l : List (Int × Int)), ∀ it ∈ mergeLoop fuel l, 1 ≤ it.rep := by
  intro fuel
  induction fuel with
  | zero => intro l it h; simp [mergeLoop] at h
  | succ f ih =>
    intro l it h
    cases l with
    | nil => simp [mergeLoop] at h
    | cons a t =>
      unfold mergeLoop at h
      simp only [List.mem_cons] at h
      rcases h with h | h
      · rw [h]; simp only []; omega
      · exact ih _ it h

theorem mergeLoop_typ_mem : ∀ (fuel : Nat) (l : List (Int × Int)), ∀ it ∈ mergeLoop fuel l, typ it ∈ l := by
  intro fuel
  induction fuel with
  | zero => intro l it h; simp [mergeLoop] at h
  | succ f ih =>
    intro l it h
    cases l with
    | nil => simp [mergeLoop] at h
    | cons a t =>
      unfold mergeLoop at h
      simp only [List.mem_cons] at h
      rcases h with h | h
      · rw [h]; simp [typ]
      · have := ih _ it h
        exact List.mem_cons_of_mem _ ((List.dropWhile_sublist _).subset this)

/-- behind the run of `a` in a sorted list nothing equals `a` -/
theorem dropWhile_ne_of_sorted (a : Int × Int) (t : List (Int × Int))
    (h : (a :: t).Pairwise (fun x y => lexLe x y = true)) : ∀ x ∈ t.dropWhile (· == a), x ≠ a := by
  induction t with
  | nil => simp
  | cons b u ih =>
    have h1 := List.pairwise_cons.mp h
    have h2 := List.pairwise_cons.mp h1.2
    rw [List.dropWhile_cons]
    split
    · apply ih
      exact List.pairwise_cons.mpr ⟨fun c hc => h1.1 c (by simp [hc]), h2.2⟩
    · rename_i hb
      have hba : b ≠ a := by simpa using hb
      intro x hx
      simp only [List.mem_cons] at hx
      rcases hx with hx | hx
      · rw [hx]; exact hba
      · intro hxa
        have hab := h1.1 b (by simp)
        have hbx := h2.1 x hx
        rw [hxa] at hbx
        exact hba (lexLe_antisymm hbx hab)

/-- merging a sorted list yields pairwise different item types -/
theorem mergeLoop_nodup : ∀ (fuel : Nat) (l : List (Int × Int)),
    l.Pairwise (fun x y => lexLe x y = true) → ((mergeLoop fuel l).map typ).Nodup := by
  intro fuel
  induction fuel with
  | zero => intro l _; simp [mergeLoop]
  | succ f ih =>
    intro l hl
    cases l with
    | nil => simp [mergeLoop]
    | cons a t =>
      unfold mergeLoop
      rw [List.map_cons, List.nodup_cons]
      have hsub : (t.dropWhile (· == a)).Pairwise (fun x y => lexLe x y = true) :=
        List.Pairwise.sublist (List.dropWhile_sublist _) (List.pairwise_cons.mp hl).2
      refine ⟨?_, ih _ hsub⟩
      intro hmem
      obtain ⟨it, hit, htyp⟩ := List.mem_map.mp hmem
      have h1 := mergeLoop_typ_mem f _ it hit
      have h2 := dropWhile_ne_of_sorted a t hl _ h1
      apply h2
      rw [htyp]
      rfl

/-! ### item count and area of an item-type list through `expand` -/

theorem nItems_eq_length_expand (W H : Int) (L : List Item) (h : ∀ it ∈ L, 0 ≤ it.rep) :
    Inst.nItems ⟨W, H, L⟩ = ((expand L).length : Int) := by
  unfold Inst.nItems
  simp only []
  induction L with
  | nil => simp [expand]
  | cons a t ih =>
    rw [expand_cons, List.length_append, List.length_replicate, List.map_cons, List.sum_cons,
      ih (fun it hit => h it (by simp [hit]))]
    have := h a (by simp)
    push_cast
    omega

theorem sum_replicate_mul (n : Nat) (w h : Int) :
    ((List.replicate n (w, h)).map (fun p => p.1 * p.2)).sum = w * h * n := by
  induction n with
  | zero => simp
  | succ n ihn =>
    rw [List.replicate_succ, List.map_cons, List.sum_cons, ihn]
    push_cast
    ring

theorem totalArea_eq_expand (W H : Int) (L : List Item) (h : ∀ it ∈ L, 0 ≤ it.rep) :
    Inst.totalArea ⟨W, H, L⟩ = ((expand L).map (fun p => p.1 * p.2)).sum := by
  unfold Inst.totalArea
  simp only []
  induction L with
  | nil => simp [expand]
  | cons a t ih =>
    rw [expand_cons, List.map_append, List.sum_append, List.map_cons, List.sum_cons,
      ih (fun it hit => h it (by simp [hit]))]
    have h0 := h a (by simp)
    have : ((List.replicate a.rep.toNat (a.w, a.h)).map (fun p => p.1 * p.2)).sum = a.w * a.h * a.rep := by
      have hn : ((a.rep.toNat : Nat) : Int) = a.rep := by omega
      rw [sum_replicate_mul, hn]
    rw [this]

theorem mem_expand {L : List Item} {t : Int × Int} (h : t ∈ expand L) : ∃ it ∈ L, typ it = t := by
  unfold expand at h
  obtain ⟨it, hit, hm⟩ := List.mem_flatMap.mp h
  have := (List.mem_replicate.mp hm).2
  exact ⟨it, hit, this.symm⟩

/-- with pairwise different types, the multiplicity of a type is how often it occurs -/
theorem count_expand (L : List Item) (hnd : (L.map typ).Nodup) (it : Item) (hit : it ∈ L) :
    (expand L).count (typ it) = it.rep.toNat := by
  induction L with
  | nil => simp at hit
  | cons b t ih =>
    rw [List.map_cons, List.nodup_cons] at hnd
    rw [expand_cons, List.count_append, List.count_replicate]
    simp only [List.mem_cons] at hit
    rcases hit with hit | hit
    · subst hit
      have hz : (expand t).count (typ it) = 0 := by
        rw [List.count_eq_zero]
        intro hm
        obtain ⟨it', h1, h2⟩ := mem_expand hm
        exact hnd.1 (List.mem_map.mpr ⟨it', h1, h2⟩)
      rw [hz]
      simp [typ]
    · have hne : ¬ ((b.w, b.h) == typ it) = true := by
        intro hh
        have : typ b = typ it := by simpa [typ] using hh
        exact hnd.1 (List.mem_map.mpr ⟨it, hit, this.symm⟩)
      rw [if_neg hne, ih hnd.2 hit]
      simp

/-! ### the layout is a feasible packing -/

theorem typeIdx_eq_iff (W H : Int) (L : List Item) (hnd : (L.map typ).Nodup) (i : Nat) (hi : i < L.length)
    (t : Int × Int) : typeIdx ⟨W, H, L⟩ t = i ↔ typ L[i] = t := by
  unfold typeIdx
  simp only []
  constructor
  · intro h
    have hlt : L.findIdx (fun it => decide (it.w = t.1 ∧ it.h = t.2)) < L.length := by omega
    have := List.findIdx_getElem (w := hlt)
    simp only [h, decide_eq_true_eq] at this
    exact Prod.ext this.1 this.2
  · intro h
    have hp : (fun it : Item => decide (it.w = t.1 ∧ it.h = t.2)) L[i] = true := by
      simp only [decide_eq_true_eq]
      rw [← h]; simp [typ]
    have hle : L.findIdx (fun it => decide (it.w = t.1 ∧ it.h = t.2)) ≤ i := by
      by_contra hc
      have := List.not_of_lt_findIdx (by omega : i < L.findIdx (fun it => decide (it.w = t.1 ∧ it.h = t.2)))
      simp only [] at hp
      rw [hp] at this
      simp at this
    have hlt : L.findIdx (fun it => decide (it.w = t.1 ∧ it.h = t.2)) < L.length := by omega
    have hj := List.findIdx_getElem (w := hlt)
    simp only [decide_eq_true_eq] at hj
    have htyp : typ L[L.findIdx (fun it => decide (it.w = t.1 ∧ it.h = t.2))] = typ L[i] := by
      rw [h]; exact Prod.ext hj.1 hj.2
    have h1 : (L.map typ)[L.findIdx (fun it => decide (it.w = t.1 ∧ it.h = t.2))]'(by simpa using hlt)
        = (L.map typ)[i]'(by simpa using hi) := by
      simpa using htyp
    exact (List.getElem_inj hnd).mp h1

/-- **bridge**: a layout of the decoder's items is a feasible packing of every instance whose
pairwise different item types (with positive multiplicities) stand for the same multiset -/
theorem layout_feasible (W H k : Int) (flat : List PItem) (L : List Item)
    (hlay : Layout W H k flat) (hexp : (expand L).Perm (flat.map PItem.wh))
    (hnd : (L.map typ).Nodup) (hrep : ∀ it ∈ L, 1 ≤ it.rep) :
    Feasible ⟨W, H, L⟩ (layoutRows ⟨W, H, L⟩ flat) k := by
  have hrep0 : ∀ it ∈ L, 0 ≤ it.rep := fun it h => by have := hrep it h; omega
  have hidx : ∀ p ∈ flat, typeIdx ⟨W, H, L⟩ p.wh < L.length := by
    intro p hp
    have hm : p.wh ∈ expand L := hexp.mem_iff.mpr (List.mem_map.mpr ⟨p, hp, rfl⟩)
    obtain ⟨it, hit, htyp⟩ := mem_expand hm
    unfold typeIdx
    apply List.findIdx_lt_length_of_exists
    refine ⟨it, hit, ?_⟩
    simp only [decide_eq_true_eq]
    rw [← htyp]; simp [typ]
  refine ⟨?_, ?_, ?_, ?_, ?_, ?_, ?_⟩
  · rw [nItems_eq_length_expand W H L hrep0, hexp.length_eq]
    simp [layoutRows]
  · intro a ha
    obtain ⟨p, hp, rfl⟩ := List.mem_map.mp ha
    have hlt := hidx p hp
    refine ⟨L[typeIdx ⟨W, H, L⟩ p.wh], ?_, ?_⟩
    · unfold Inst.item?
      simp only []
      rw [if_neg (by omega)]
      have : ((typeIdx ⟨W, H, L⟩ p.wh : Int) + 1 - 1).toNat = typeIdx ⟨W, H, L⟩ p.wh := by omega
      rw [this, List.getElem?_eq_getElem hlt]
    · have := (typeIdx_eq_iff W H L hnd _ hlt p.wh).mp rfl
      have h1 : L[typeIdx ⟨W, H, L⟩ p.wh].w = p.w := congrArg Prod.fst this
      have h2 : L[typeIdx ⟨W, H, L⟩ p.wh].h = p.h := congrArg Prod.snd this
      unfold Row.HasDims
      simp only []
      left
      constructor <;> omega
  · intro a ha
    obtain ⟨p, hp, rfl⟩ := List.mem_map.mp ha
    have := hlay.inside p hp
    unfold PItem.Inside at this
    simp only []
    omega
  · intro i hi
    have hi' : i < L.length := by simpa [Inst.nTypes] using List.mem_range.mp hi
    unfold layoutRows
    rw [List.filter_map, List.length_map, ← List.countP_eq_length_filter]
    have hcount : flat.countP ((fun a : Row => decide (a.id = (i : Int) + 1)) ∘
        (fun p : PItem => (⟨(typeIdx ⟨W, H, L⟩ p.wh : Int) + 1, p.bin, p.x, p.y, p.x + p.w, p.y + p.h⟩ : Row)))
        = (flat.map PItem.wh).count (typ L[i]) := by
      rw [List.count_eq_countP, List.countP_map]
      apply List.countP_congr
      intro p hp
      simp only [Function.comp, decide_eq_true_eq, beq_iff_eq]
      rw [eq_comm (a := p.wh), ← typeIdx_eq_iff W H L hnd i hi' p.wh]
      omega
    rw [hcount, ← hexp.count_eq, count_expand L hnd L[i] (List.getElem_mem hi')]
    have hr := hrep0 L[i] (List.getElem_mem hi')
    simp only []
    rw [List.getD_eq_getElem?_getD, List.getElem?_eq_getElem hi']
    simp only [Option.getD_some]
    omega
  · unfold layoutRows
    rw [List.pairwise_map]
    refine List.Pairwise.imp ?_ hlay.apart
    intro a c hac hb
    have := hac hb
    unfold Row.Disjoint
    simp only []
    omega
  · intro a ha
    obtain ⟨p, hp, rfl⟩ := List.mem_map.mp ha
    have := hlay.inside p hp
    unfold PItem.Inside at this
    simp only []
    omega
  · intro j hj
    have hj' := List.mem_range.mp hj
    obtain ⟨p, hp, hb⟩ := hlay.bins j (by omega)
    exact ⟨_, List.mem_map.mpr ⟨p, hp, rfl⟩, hb⟩

end InstGen
