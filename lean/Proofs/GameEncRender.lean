import Proofs.GameEncMapLoop
namespace GameEnc

/-! ### schedules and their plans -/

theorem free_iff (S : List Slot) (d t : Nat) :
    free S d t = true ↔ ∀ s ∈ S, (s.day == d && s.has t) = false := by
  unfold free daysOf
  simp only [Bool.not_eq_true', List.contains_eq_mem, List.mem_map, List.mem_filter,
    decide_eq_false_iff_not, not_exists, not_and, and_imp]
  constructor
  · intro h s hs
    by_cases hh : s.has t = true
    · have := h s hs hh
      simp [hh, this]
    · simp [hh]
  · intro h s hs hh hd
    have := h s hs
    simp [hh, hd] at this

theorem find_none_iff_free (S : List Slot) (d t : Nat) :
    S.find? (fun s => s.day == d && s.has t) = none ↔ free S d t = true := by
  rw [free_iff, List.find?_eq_none]
  constructor <;> intro h s hs <;> simpa using h s hs

theorem cell_zero_iff (S : List Slot) (d t : Nat) : cellOf S d t = 0 ↔ free S d t = true := by
  rw [← find_none_iff_free]
  unfold cellOf
  cases hf : S.find? (fun s => s.day == d && s.has t) with
  | none => simp
  | some s =>
    simp only [reduceCtorEq, iff_false]
    split <;> omega

def slotVal (s : Slot) (t : Nat) : Int := if s.home = t then (s.away : Int) + 1 else -((s.home : Int) + 1)

theorem cellOf_snoc (S : List Slot) (s : Slot) (d t : Nat) :
    cellOf (S ++ [s]) d t =
      if free S d t = true then (if (s.day == d && s.has t) = true then slotVal s t else 0)
      else cellOf S d t := by
  unfold cellOf
  rw [List.find?_append]
  cases hf : S.find? (fun s => s.day == d && s.has t) with
  | none =>
    have := (find_none_iff_free S d t).mp hf
    simp only [this, if_true, Option.none_or, List.find?_cons, List.find?_nil]
    by_cases hm : (s.day == d && s.has t) = true
    · simp only [hm, if_true]; rfl
    · have hm' : (s.day == d && s.has t) = false := by simpa using hm
      simp [hm']
  | some s0 =>
    have : ¬ free S d t = true := by
      rw [← find_none_iff_free, hf]; simp
    simp [this]

theorem renders_nil (y0 : Plan) (days n : Nat) (hs : Shape y0 days n) : Renders (fill0 y0) [] days n := by
  have hshape : Shape (fill0 y0) days n := by
    unfold fill0
    refine ⟨by rw [List.length_map]; exact hs.1, ?_⟩
    intro row hrow
    obtain ⟨r0, hr0, rfl⟩ := List.mem_map.mp hrow
    rw [List.length_map]; exact hs.2 r0 hr0
  refine ⟨hshape, ?_⟩
  intro d hd t ht
  have hlt : d < y0.length := by rw [hs.1]; exact hd
  have hrow : (y0[d]).length = n := hs.2 _ (List.getElem_mem hlt)
  unfold entry fill0 cellOf
  simp [List.getD_eq_getElem?_getD, List.getElem?_map, List.getElem?_eq_getElem hlt, hrow, ht]

/-- on a rendered plan the kernel's test "both cells are zero" is "both teams are free" -/
theorem openDay_eq_free (y : Plan) (S : List Slot) (days n h a d : Nat) (hr : Renders y S days n)
    (hh : h < n) (ha : a < n) (hd : d < days) :
    openDay y h a d = (free S d h && free S d a) := by
  unfold openDay
  rw [hr.2 d hd h hh, hr.2 d hd a ha, Bool.eq_iff_iff]
  simp only [Bool.and_eq_true, beq_iff_eq, cell_zero_iff]

theorem renders_place (y : Plan) (S : List Slot) (days n h a d : Nat) (hr : Renders y S days n)
    (hh : h < n) (ha : a < n) (hne : h ≠ a) (hd : d < days)
    (fh : free S d h = true) (fa : free S d a = true) :
    Renders (placeAt y d h a) (S ++ [{ day := d, home := h, away := a }]) days n := by
  have hs1 := setEntry_shape y days n d h ((a : Int) + 1) hr.1 hd
  refine ⟨setEntry_shape _ days n d a _ hs1 hd, ?_⟩
  intro d' hd' t' ht'
  unfold placeAt
  rw [entry_setEntry _ days n d a _ hs1 hd ha, entry_setEntry y days n d h _ hr.1 hd hh, cellOf_snoc,
    hr.2 d' hd' t' ht']
  simp only [Slot.has, slotVal]
  by_cases e1 : d' = d
  · subst e1
    by_cases e2 : t' = a
    · subst e2
      have : ¬ h = t' := hne
      simp [fa, this]
    · by_cases e3 : t' = h
      · subst e3
        simp [fh, e2]
      · have g1 : ¬ h = t' := fun h => e3 h.symm
        have g2 : ¬ a = t' := fun h => e2 h.symm
        simp only [e2, e3, and_false, if_false, beq_self_eq_true, Bool.true_and, Bool.or_eq_true, beq_iff_eq, g1, g2, or_self]
        split
        · rename_i hf; exact (cell_zero_iff S d' t').mpr hf
        · rfl
  · have g : ¬ d = d' := fun h => e1 h.symm
    simp only [e1, false_and, if_false, beq_iff_eq, g, Bool.and_eq_true, false_and]
    split
    · rename_i hf; exact (cell_zero_iff S d' t').mpr hf
    · rfl

end GameEnc
