import Model.LowerBound
import Proofs.Area
import Mathlib.Tactic.Ring
import Mathlib.Tactic.Linarith
/-! C03 helper lemmas, part 1: ceiling division, the geometric bound. -/
namespace Pack
open LB

theorem ceilDiv_isCeil (a d : Int) (hd : 0 < d) : IsCeilDiv a d (ceilDiv a d) := by
  unfold IsCeilDiv ceilDiv
  have h1 := Int.mul_ediv_add_emod a d
  have h2 := Int.emod_nonneg a (show d ≠ 0 by omega)
  have h3 := Int.emod_lt_of_pos a hd
  generalize a / d = m at *
  generalize a % d = r at *
  have e1 : m * d = d * m := by ring
  have e2 : (m + 1 - 1) * d = d * m := by ring
  have e3 : (m + 1) * d = d * m + d := by ring
  have e4 : (m - 1) * d = d * m - d := by ring
  simp only
  split
  · rename_i h
    rw [e2, e3]; rw [e1] at h; omega
  · rename_i h
    rw [e4, e1]; rw [e1] at h; omega

/-- `ceilDiv a d` is the least `c` with `a ≤ c·d` -/
theorem ceilDiv_le (a d c : Int) (hd : 0 < d) (h : a ≤ c * d) : ceilDiv a d ≤ c := by
  obtain ⟨h1, _⟩ := ceilDiv_isCeil a d hd
  by_contra hc
  have : c ≤ ceilDiv a d - 1 := by omega
  have : c * d ≤ (ceilDiv a d - 1) * d := Int.mul_le_mul_of_nonneg_right this (by omega)
  omega

theorem ceilDiv_nonneg (a d : Int) (hd : 0 < d) (ha : 0 ≤ a) : 0 ≤ ceilDiv a d := by
  obtain ⟨_, h2⟩ := ceilDiv_isCeil a d hd
  by_contra hc
  have : ceilDiv a d ≤ -1 := by omega
  have : ceilDiv a d * d ≤ (-1) * d := Int.mul_le_mul_of_nonneg_right this (by omega)
  omega

theorem ceilDiv_mono (a b d : Int) (hd : 0 < d) (h : a ≤ b) : ceilDiv a d ≤ ceilDiv b d := by
  apply ceilDiv_le a d _ hd
  have := (ceilDiv_isCeil b d hd).2
  omega

end Pack

/-! ## placed squares (the intermediate object of the DAMV proof) -/
namespace Pack

/-- side length of a placed square -/
def Row.side (a : Row) : Int := a.r - a.l

/-- `P` is a placement of squares (side ≥ 1) into bins `1..k` of size `W × H`, squares of the
same bin pairwise non-overlapping -/
structure SqPacking (W H k : Int) (P : List Row) : Prop where
  square : ∀ a ∈ P, a.t - a.b = a.r - a.l
  pos : ∀ a ∈ P, 1 ≤ a.r - a.l
  inside : ∀ a ∈ P, 0 ≤ a.l ∧ 0 ≤ a.b ∧ a.r ≤ W ∧ a.t ≤ H
  bins : ∀ a ∈ P, 1 ≤ a.bin ∧ a.bin ≤ k
  disj : P.Pairwise (fun a c => a.bin = c.bin → a.Disjoint c)

end Pack
