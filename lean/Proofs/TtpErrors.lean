import Model.TtpErrors
import Proofs.ListLemmas
/-!
Helper lemmas for C07 (core Lean only).

* A  triangular pair index: range and injectivity
* B  refinement of the array-level (`Option`-valued) model to closed forms, for plans in the
     game-plan space and scratch arrays of the allocated sizes (this is also the no-OOB proof)
* C  the closed forms against the declarative specification (streaks = runs, separation =
     gaps of meeting days, pair table = home-game counts)
-/
namespace TtpErrors
open ListLemmas

/-! ## A. the pair index -/

def tri (k : Nat) : Nat := k * (k - 1) / 2

theorem tri_succ (k : Nat) : tri (k + 1) = tri k + k := by
  unfold tri
  cases k with
  | zero => simp
  | succ m =>
    have : (m + 1 + 1) * (m + 1 + 1 - 1) = (m + 1) * (m + 1 - 1) + (m + 1) * 2 := by
      simp only [Nat.add_sub_cancel]
      rw [Nat.mul_comm (m+1+1) (m+1), ← Nat.mul_add]
    rw [this, Nat.add_mul_div_right _ _ (by decide : 0 < 2)]

theorem tri_mono {a b : Nat} (h : a ≤ b) : tri a ≤ tri b := by
  induction h with
  | refl => exact Nat.le_refl _
  | step _ ih => rw [tri_succ]; omega

theorem pairIdx_gt {a b : Nat} (h : b < a) : pairIdx a b = tri a + b := by
  simp [pairIdx, tri, h]

theorem pairIdx_lt' {a b : Nat} (h : a < b) : pairIdx a b = tri b + a := by
  have : ¬ a > b := by omega
  simp [pairIdx, tri, this]

theorem pairIdx_lt {n a b : Nat} (ha : a < n) (hb : b < n) (hab : a ≠ b) : pairIdx a b < tri n := by
  rcases Nat.lt_or_gt_of_ne hab with h | h
  · rw [pairIdx_lt' h]
    have := tri_succ b
    have := tri_mono (show b + 1 ≤ n by omega)
    omega
  · rw [pairIdx_gt h]
    have := tri_succ a
    have := tri_mono (show a + 1 ≤ n by omega)
    omega

theorem tri_add_inj {a b a' b' : Nat} (hb : b < a) (hb' : b' < a') (h : tri a + b = tri a' + b') :
    a = a' ∧ b = b' := by
  rcases Nat.lt_trichotomy a a' with h1 | h1 | h1
  · have := tri_succ a
    have := tri_mono (show a + 1 ≤ a' by omega)
    omega
  · subst h1; exact ⟨rfl, by omega⟩
  · have := tri_succ a'
    have := tri_mono (show a' + 1 ≤ a by omega)
    omega

/-! ## B. refinement to closed forms -/

/-- rows of length `n` with entries in `-n..n` -/
def Shape (n : Nat) (p : Plan) : Prop :=
  ∀ row ∈ p, row.length = n ∧ ∀ v ∈ row, -(n : Int) ≤ v ∧ v ≤ n

def T2Shape (n : Nat) (m : List (List Int)) : Prop := m.length = n ∧ ∀ r ∈ m, r.length = n

theorem entry?_eq_cell {n : Nat} {p : Plan} {d o : Nat} (hs : Shape n p) (hd : d < p.length)
    (ho : o < n) : entry? p d o = some (cell p d o) := by
  have hrow := (hs _ (List.getElem_mem hd)).1
  have ho' : o < (p[d]).length := by omega
  simp [entry?, cell, List.getD_eq_getElem?_getD, List.getElem?_eq_getElem hd,
    List.getElem?_eq_getElem ho']

theorem cell_range {n : Nat} {p : Plan} (hs : Shape n p) (d t : Nat) :
    -(n : Int) ≤ cell p d t ∧ cell p d t ≤ n := by
  unfold cell
  by_cases hd : d < p.length
  · have hrow := hs _ (List.getElem_mem hd)
    by_cases ht : t < (p[d]).length
    · have := hrow.2 _ (List.getElem_mem ht)
      simpa [List.getD_eq_getElem?_getD, List.getElem?_eq_getElem hd, List.getElem?_eq_getElem ht] using this
    · have : (p[d])[t]? = none := List.getElem?_eq_none (by omega)
      simp [List.getD_eq_getElem?_getD, List.getElem?_eq_getElem hd, this]
  · have : p[d]? = none := List.getElem?_eq_none (by omega)
    simp [List.getD_eq_getElem?_getD, this]

theorem col_getD (p : Plan) (t d : Nat) : (col p t).getD d 0 = cell p d t := by
  unfold col cell
  simp only [List.getD_eq_getElem?_getD, List.getElem?_map]
  cases p[d]? <;> simp

theorem col_length (p : Plan) (t : Nat) : (col p t).length = p.length := by simp [col]

theorem col_mem_range {n : Nat} {p : Plan} (hs : Shape n p) (t : Nat) :
    ∀ v ∈ col p t, -(n : Int) ≤ v ∧ v ≤ n := by
  intro v hv
  obtain ⟨d, hd, rfl⟩ := List.getElem_of_mem hv
  have h1 := col_getD p t d
  rw [List.getD_eq_getElem?_getD, List.getElem?_eq_getElem hd] at h1
  simp at h1
  rw [h1]
  exact cell_range hs d t

theorem column?_eq {n : Nat} {p : Plan} (hs : Shape n p) {t : Nat} (ht : t < n) :
    column? p t = some (col p t) := by
  unfold column? col
  induction p with
  | nil => simp
  | cons row rest ih =>
    have hrow := (hs row (by simp)).1
    have ht' : t < row.length := by omega
    have ih' := ih (fun r hr => hs r (by simp [hr]))
    simp [List.mapM_cons, ih', List.getElem?_eq_getElem ht', List.getD_eq_getElem?_getD]

/-- rule 1 on one entry -/
def inconsAt (p : Plan) (t d : Nat) (v : Int) : Int :=
  if v = 0 then 0
  else if v > 0 then (if cell p d (opp v) ≠ -((t : Int) + 1) then 1 else 0)
  else (if cell p d (opp v) ≠ (t : Int) + 1 then 1 else 0)

/-- the streak machine on one entry: new state, rule 4/6 penalty, rule 3/5 penalty -/
def streakStep (c : Cfg) (s : Streak) (v : Int) : Streak × Int × Int :=
  if v = 0 then ((byeStreak c s).1, 0, (byeStreak c s).2)
  else if v > 0 then homeStreak c s else awayStreak c s

/-- the pairing-table accesses of one entry: (index, day) -/
def dayEvents (t d : Nat) (v : Int) : List (Nat × Nat) :=
  if v = 0 then [] else if t = opp v then [] else [(pairIdx t (opp v), d)]

/-- `temp_1` processing of a list of (index, day) events: final table, rule 7 and rule 8 totals -/
def tableFold (c : Cfg) : List Int → List (Nat × Nat) → List Int × Int × Int
  | T, [] => (T, 0, 0)
  | T, e :: es =>
    ((tableFold c (T.set e.1 (touch c (T.getD e.1 (-1)) e.2).1) es).1,
     (touch c (T.getD e.1 (-1)) e.2).2.1 + (tableFold c (T.set e.1 (touch c (T.getD e.1 (-1)) e.2).1) es).2.1,
     (touch c (T.getD e.1 (-1)) e.2).2.2 + (tableFold c (T.set e.1 (touch c (T.getD e.1 (-1)) e.2).1) es).2.2)

def bump2 (m : List (List Int)) (i j : Nat) : List (List Int) :=
  m.set i ((m.getD i []).set j ((m.getD i []).getD j 0 + 1))

def dayT2 (m : List (List Int)) (t : Nat) (v : Int) : List (List Int) :=
  if v > 0 then bump2 m t (opp v) else m

/-- total version of `dayStep` -/
def dayPure (c : Cfg) (p : Plan) (t : Nat) (a : Acc) (d : Nat) (v : Int) : Acc :=
  { s := (streakStep c a.s v).1,
    e := { bye := a.e.bye + (if v = 0 then 1 else 0),
           incons := a.e.incons + inconsAt p t d v,
           streakMax := a.e.streakMax + (streakStep c a.s v).2.1,
           streakMin := a.e.streakMin + (streakStep c a.s v).2.2,
           sepMin := a.e.sepMin + (tableFold c a.t1 (dayEvents t d v)).2.1,
           sepMax := a.e.sepMax + (tableFold c a.t1 (dayEvents t d v)).2.2,
           pairCount := a.e.pairCount, balance := a.e.balance },
    t1 := (tableFold c a.t1 (dayEvents t d v)).1,
    t2 := dayT2 a.t2 t v }

theorem tableFold_length (c : Cfg) (es : List (Nat × Nat)) (T : List Int) :
    (tableFold c T es).1.length = T.length := by
  induction es generalizing T with
  | nil => rfl
  | cons e es ih => simp [tableFold, ih]

theorem bump2_shape {n : Nat} {m : List (List Int)} (h : T2Shape n m) {i : Nat} (hi : i < n) (j : Nat) :
    T2Shape n (bump2 m i j) := by
  obtain ⟨h1, h2⟩ := h
  refine ⟨by simp [bump2, h1], ?_⟩
  intro r hr
  unfold bump2 at hr
  rcases List.mem_or_eq_of_mem_set hr with hr | hr
  · exact h2 r hr
  · subst hr
    have hi' : i < m.length := by omega
    have := h2 _ (List.getElem_mem hi')
    simpa [List.getD_eq_getElem?_getD, List.getElem?_eq_getElem hi'] using this

theorem opp_pos {v : Int} (h : v > 0) : (v - 1).toNat = opp v := by unfold opp; omega
theorem opp_neg {v : Int} (h : v < 0) : (-v - 1).toNat = opp v := by unfold opp; omega
theorem opp_lt {n : Nat} {v : Int} (h0 : v ≠ 0) (h1 : -(n : Int) ≤ v) (h2 : v ≤ n) : opp v < n := by
  unfold opp; omega

theorem incr2?_eq {n : Nat} {m : List (List Int)} (h : T2Shape n m) {i j : Nat} (hi : i < n) (hj : j < n) :
    incr2? m i j = some (bump2 m i j) := by
  obtain ⟨h1, h2⟩ := h
  have hi' : i < m.length := by omega
  have hr := h2 _ (List.getElem_mem hi')
  have hj' : j < (m[i]).length := by omega
  simp [incr2?, bump2, List.getD_eq_getElem?_getD, List.getElem?_eq_getElem hi',
    List.getElem?_eq_getElem hj']

theorem sepStep_eq (c : Cfg) {T : List Int} {k : Nat} (hk : k < T.length) (d : Nat) :
    sepStep c T k d = some (T.set k (touch c (T.getD k (-1)) d).1, (touch c (T.getD k (-1)) d).2.1,
      (touch c (T.getD k (-1)) d).2.2) := by
  simp [sepStep, List.getD_eq_getElem?_getD, List.getElem?_eq_getElem hk]

theorem dayStep_eq (c : Cfg) {n : Nat} {p : Plan} (hs : Shape n p) {t d : Nat} (ht : t < n)
    (hd : d < p.length) {v : Int} (hv : -(n : Int) ≤ v ∧ v ≤ n) (a : Acc)
    (h1 : a.t1.length = tri n) (h2 : T2Shape n a.t2) :
    dayStep c p t a d v = some (dayPure c p t a d v) := by
  unfold dayStep dayPure
  by_cases h0 : v = 0
  · subst h0
    simp [streakStep, inconsAt, dayEvents, tableFold, dayT2]
  · by_cases hp : v > 0
    · have ho := opp_lt h0 hv.1 hv.2
      simp only [h0, hp, if_true, if_false, opp_pos hp, entry?_eq_cell hs hd ho, incr2?_eq h2 ht ho]
      by_cases hto : t = opp v
      · simp [hto, streakStep, inconsAt, dayEvents, tableFold, dayT2, h0, hp]
      · have hk : pairIdx t (opp v) < a.t1.length := by rw [h1]; exact pairIdx_lt ht ho hto
        simp [hto, sepStep_eq c hk, streakStep, inconsAt, dayEvents, tableFold, dayT2, h0, hp]
    · have hn : v < 0 := by omega
      have ho := opp_lt h0 hv.1 hv.2
      simp only [h0, hp, if_false, opp_neg hn, entry?_eq_cell hs hd ho]
      by_cases hto : t = opp v
      · simp [hto, streakStep, inconsAt, dayEvents, tableFold, dayT2, h0, hp]
      · have hk : pairIdx t (opp v) < a.t1.length := by rw [h1]; exact pairIdx_lt ht ho hto
        simp [hto, sepStep_eq c hk, streakStep, inconsAt, dayEvents, tableFold, dayT2, h0, hp]

theorem dayPure_inv (c : Cfg) {n : Nat} (p : Plan) {t d : Nat} (ht : t < n) (v : Int) (a : Acc)
    (h1 : a.t1.length = tri n) (h2 : T2Shape n a.t2) :
    (dayPure c p t a d v).t1.length = tri n ∧ T2Shape n (dayPure c p t a d v).t2 := by
  refine ⟨by simp [dayPure, tableFold_length, h1], ?_⟩
  simp only [dayPure, dayT2]
  split
  · exact bump2_shape h2 ht _
  · exact h2

/-- total version of `foldDays` -/
def foldDaysPure (c : Cfg) (p : Plan) (t : Nat) : Acc → Nat → List Int → Acc
  | a, _, [] => a
  | a, d, v :: vs => foldDaysPure c p t (dayPure c p t a d v) (d + 1) vs

theorem foldDays_eq (c : Cfg) {n : Nat} {p : Plan} (hs : Shape n p) {t : Nat} (ht : t < n)
    (vs : List Int) : ∀ (d : Nat) (a : Acc), d + vs.length ≤ p.length →
    (∀ v ∈ vs, -(n : Int) ≤ v ∧ v ≤ n) → a.t1.length = tri n → T2Shape n a.t2 →
    foldDays c p t a d vs = some (foldDaysPure c p t a d vs) := by
  induction vs with
  | nil => intros; rfl
  | cons v vs ih =>
    intro d a hd hv h1 h2
    simp only [List.length_cons] at hd
    have hv0 := hv v (by simp)
    have hinv := dayPure_inv c p (d := d) ht v a h1 h2
    simp only [foldDays, foldDaysPure, dayStep_eq c hs ht (show d < p.length by omega) hv0 a h1 h2]
    exact ih (d + 1) _ (by omega) (fun w hw => hv w (by simp [hw])) hinv.1 hinv.2

theorem foldDaysPure_inv (c : Cfg) {n : Nat} (p : Plan) {t : Nat} (ht : t < n)
    (vs : List Int) : ∀ (d : Nat) (a : Acc), a.t1.length = tri n → T2Shape n a.t2 →
    (foldDaysPure c p t a d vs).t1.length = tri n ∧ T2Shape n (foldDaysPure c p t a d vs).t2 := by
  induction vs with
  | nil => intro d a h1 h2; exact ⟨h1, h2⟩
  | cons v vs ih =>
    intro d a h1 h2
    have hinv := dayPure_inv c p (d := d) ht v a h1 h2
    exact ih (d + 1) _ hinv.1 hinv.2

/-! ### closed forms of one column -/

def colStreak (c : Cfg) : Streak → List Int → Streak × Int × Int
  | s, [] => (s, 0, 0)
  | s, v :: vs =>
    ((colStreak c (streakStep c s v).1 vs).1,
     (streakStep c s v).2.1 + (colStreak c (streakStep c s v).1 vs).2.1,
     (streakStep c s v).2.2 + (colStreak c (streakStep c s v).1 vs).2.2)

def colEvents (t : Nat) : Nat → List Int → List (Nat × Nat)
  | _, [] => []
  | d, v :: vs => dayEvents t d v ++ colEvents t (d + 1) vs

def colIncons (p : Plan) (t : Nat) : Nat → List Int → Int
  | _, [] => 0
  | d, v :: vs => inconsAt p t d v + colIncons p t (d + 1) vs

def colT2 (m : List (List Int)) (t : Nat) : List Int → List (List Int)
  | [] => m
  | v :: vs => colT2 (dayT2 m t v) t vs

def count0 : List Int → Int
  | [] => 0
  | v :: vs => (if v = 0 then 1 else 0) + count0 vs

theorem tableFold_append (c : Cfg) (es fs : List (Nat × Nat)) (T : List Int) :
    tableFold c T (es ++ fs) =
      ((tableFold c (tableFold c T es).1 fs).1,
       (tableFold c T es).2.1 + (tableFold c (tableFold c T es).1 fs).2.1,
       (tableFold c T es).2.2 + (tableFold c (tableFold c T es).1 fs).2.2) := by
  induction es generalizing T with
  | nil => simp [tableFold]
  | cons e es ih =>
    simp only [List.cons_append, tableFold, ih]
    refine Prod.ext rfl (Prod.ext ?_ ?_) <;> simp <;> omega

def colClosed (c : Cfg) (p : Plan) (t : Nat) (a : Acc) (d : Nat) (vs : List Int) : Acc :=
  { s := (colStreak c a.s vs).1,
    e := { bye := a.e.bye + count0 vs,
           incons := a.e.incons + colIncons p t d vs,
           streakMax := a.e.streakMax + (colStreak c a.s vs).2.1,
           streakMin := a.e.streakMin + (colStreak c a.s vs).2.2,
           sepMin := a.e.sepMin + (tableFold c a.t1 (colEvents t d vs)).2.1,
           sepMax := a.e.sepMax + (tableFold c a.t1 (colEvents t d vs)).2.2,
           pairCount := a.e.pairCount, balance := a.e.balance },
    t1 := (tableFold c a.t1 (colEvents t d vs)).1,
    t2 := colT2 a.t2 t vs }

theorem foldDaysPure_closed (c : Cfg) (p : Plan) (t : Nat) (vs : List Int) :
    ∀ (d : Nat) (a : Acc), foldDaysPure c p t a d vs = colClosed c p t a d vs := by
  induction vs with
  | nil => intro d a; cases a; rename_i s e t1 t2; cases e; simp [foldDaysPure, colClosed, colStreak, count0, colIncons, colEvents, tableFold, colT2]
  | cons v vs ih =>
    intro d a
    simp only [foldDaysPure, ih]
    simp only [colClosed, dayPure, colStreak, count0, colIncons, colEvents, colT2, tableFold_append]
    simp only [Acc.mk.injEq, Errs.mk.injEq]
    refine ⟨trivial, ⟨?_, ?_, ?_, ?_, ?_, ?_, trivial, trivial⟩, trivial, trivial⟩ <;> omega

/-! ### closed form of the loop over the teams -/

def allEvents (p : Plan) (k : Nat) : List (Nat × Nat) :=
  (List.range k).flatMap (fun t => colEvents t 0 (col p t))

def teamsT2 (p : Plan) (k : Nat) (M0 : List (List Int)) : List (List Int) :=
  (List.range k).foldl (fun m t => colT2 m t (col p t)) M0

def rsum (k : Nat) (f : Nat → Int) : Int := ((List.range k).map f).sum

theorem rsum_succ (k : Nat) (f : Nat → Int) : rsum (k + 1) f = rsum k f + f k := by
  simp [rsum, List.range_succ, List.sum_append]

theorem rsum_zero (f : Nat → Int) : rsum 0 f = 0 := by simp [rsum]

def teamsClosed (c : Cfg) (p : Plan) (k : Nat) (T0 : List Int) (M0 : List (List Int)) : G :=
  { e := { bye := rsum k (fun t => count0 (col p t)),
           incons := rsum k (fun t => colIncons p t 0 (col p t)),
           streakMax := rsum k (fun t => (colStreak c Streak.init (col p t)).2.1),
           streakMin := rsum k (fun t => (colStreak c Streak.init (col p t)).2.2
                                         + closeStreak c (colStreak c Streak.init (col p t)).1),
           sepMin := (tableFold c T0 (allEvents p k)).2.1,
           sepMax := (tableFold c T0 (allEvents p k)).2.2,
           pairCount := 0, balance := 0 },
    t1 := (tableFold c T0 (allEvents p k)).1,
    t2 := teamsT2 p k M0 }

theorem teamStep_eq (c : Cfg) {n : Nat} {p : Plan} (hs : Shape n p) {t : Nat} (ht : t < n) (g : G)
    (h1 : g.t1.length = tri n) (h2 : T2Shape n g.t2) :
    teamStep c p g t =
      some { e := { (colClosed c p t ⟨Streak.init, g.e, g.t1, g.t2⟩ 0 (col p t)).e with
                    streakMin := (colClosed c p t ⟨Streak.init, g.e, g.t1, g.t2⟩ 0 (col p t)).e.streakMin
                      + closeStreak c (colClosed c p t ⟨Streak.init, g.e, g.t1, g.t2⟩ 0 (col p t)).s },
             t1 := (colClosed c p t ⟨Streak.init, g.e, g.t1, g.t2⟩ 0 (col p t)).t1,
             t2 := (colClosed c p t ⟨Streak.init, g.e, g.t1, g.t2⟩ 0 (col p t)).t2 } := by
  unfold teamStep
  have hfd := foldDays_eq c hs ht (col p t) 0 ⟨Streak.init, g.e, g.t1, g.t2⟩
    (by simp [col_length]) (col_mem_range hs t) h1 h2
  simp only [column?_eq hs ht, hfd, foldDaysPure_closed]

theorem colT2_shape {n : Nat} {t : Nat} (ht : t < n) (vs : List Int) :
    ∀ (m : List (List Int)), T2Shape n m → T2Shape n (colT2 m t vs) := by
  induction vs with
  | nil => intro m h; exact h
  | cons v vs ih =>
    intro m h
    simp only [colT2]
    apply ih
    unfold dayT2
    split
    · exact bump2_shape h ht _
    · exact h

theorem foldTeams_append (c : Cfg) (p : Plan) (l1 l2 : List Nat) (g : G) :
    foldTeams c p g (l1 ++ l2) = (foldTeams c p g l1).bind (fun g' => foldTeams c p g' l2) := by
  induction l1 generalizing g with
  | nil => simp [foldTeams]
  | cons t ts ih =>
    simp only [List.cons_append, foldTeams]
    cases teamStep c p g t with
    | none => simp
    | some g' => simp [ih]

theorem teamsClosed_inv (c : Cfg) {n : Nat} (p : Plan) (T0 : List Int) (M0 : List (List Int))
    (h1 : T0.length = tri n) (h2 : T2Shape n M0) (k : Nat) (hk : k ≤ n) :
    (teamsClosed c p k T0 M0).t1.length = tri n ∧ T2Shape n (teamsClosed c p k T0 M0).t2 := by
  refine ⟨by simp [teamsClosed, tableFold_length, h1], ?_⟩
  simp only [teamsClosed, teamsT2]
  induction k with
  | zero => simpa using h2
  | succ k ih =>
    rw [List.range_succ, List.foldl_append]
    simp only [List.foldl_cons, List.foldl_nil]
    exact colT2_shape (show k < n by omega) _ _ (ih (by omega))

theorem foldTeams_eq (c : Cfg) {n : Nat} {p : Plan} (hs : Shape n p) (T0 : List Int)
    (M0 : List (List Int)) (h1 : T0.length = tri n) (h2 : T2Shape n M0) (k : Nat) (hk : k ≤ n) :
    foldTeams c p { e := {}, t1 := T0, t2 := M0 } (List.range k) = some (teamsClosed c p k T0 M0) := by
  induction k with
  | zero =>
    simp [foldTeams, teamsClosed, rsum_zero, allEvents, tableFold, teamsT2]
  | succ k ih =>
    have hinv := teamsClosed_inv c p T0 M0 h1 h2 k (by omega)
    rw [List.range_succ, foldTeams_append, ih (by omega)]
    simp only [Option.bind_some, foldTeams,
      teamStep_eq c hs (show k < n by omega) _ hinv.1 hinv.2]
    simp only [teamsClosed, colClosed, rsum_succ, allEvents, List.range_succ, List.flatMap_append,
      List.flatMap_cons, List.flatMap_nil, List.append_nil, tableFold_append, teamsT2,
      List.foldl_append, List.foldl_cons, List.foldl_nil]
    simp only [Option.some.injEq, G.mk.injEq, Errs.mk.injEq]
    refine ⟨⟨?_, ?_, ?_, ?_, ?_, ?_, ?_, ?_⟩, ?_, ?_⟩ <;> first | rfl | omega | trivial

/-! ### the final pass over the pair counts -/

def entry2 (m : List (List Int)) (i j : Nat) : Int := (m.getD i []).getD j 0

theorem entry2?_eq {n : Nat} {m : List (List Int)} (h : T2Shape n m) {i j : Nat} (hi : i < n) (hj : j < n) :
    entry2? m i j = some (entry2 m i j) := by
  obtain ⟨h1, h2⟩ := h
  have hi' : i < m.length := by omega
  have hr := h2 _ (List.getElem_mem hi')
  have hj' : j < (m[i]).length := by omega
  simp [entry2?, entry2, List.getD_eq_getElem?_getD, List.getElem?_eq_getElem hi',
    List.getElem?_eq_getElem hj']

theorem pairRow_eq (gpc : Int) {n : Nat} {m : List (List Int)} (h : T2Shape n m) {i : Nat} (hi : i < n)
    (js : List Nat) (hjs : ∀ j ∈ js, j < n) :
    pairRow gpc m i js =
      some ((js.map fun j => (pairTerm gpc (entry2 m i j) (entry2 m j i)).1).sum,
            (js.map fun j => (pairTerm gpc (entry2 m i j) (entry2 m j i)).2).sum) := by
  induction js with
  | nil => simp [pairRow]
  | cons j js ih =>
    have hj := hjs j (by simp)
    simp [pairRow, entry2?_eq h hi hj, entry2?_eq h hj hi, ih (fun j' hj' => hjs j' (by simp [hj']))]

theorem pairPass_eq (gpc : Int) {n : Nat} {m : List (List Int)} (h : T2Shape n m)
    (is : List Nat) (his : ∀ i ∈ is, i < n) :
    pairPass gpc m is =
      some ((is.map fun i => rsum i fun j => (pairTerm gpc (entry2 m i j) (entry2 m j i)).1).sum,
            (is.map fun i => rsum i fun j => (pairTerm gpc (entry2 m i j) (entry2 m j i)).2).sum) := by
  induction is with
  | nil => simp [pairPass]
  | cons i is ih =>
    have hi := his i (by simp)
    have hr := pairRow_eq gpc h hi (List.range i) (fun j hj => by simp at hj; omega)
    simp [pairPass, hr, ih (fun i' hi' => his i' (by simp [hi'])), rsum]

theorem entry2_bump2 {n : Nat} {m : List (List Int)} (h : T2Shape n m) {i j : Nat} (hi : i < n) (hj : j < n)
    (i' j' : Nat) :
    entry2 (bump2 m i j) i' j' = entry2 m i' j' + (if i = i' ∧ j = j' then 1 else 0) := by
  obtain ⟨h1, h2⟩ := h
  have hi' : i < m.length := by omega
  have hr := h2 _ (List.getElem_mem hi')
  have hj' : j < (m[i]).length := by omega
  have hgi : m.getD i [] = m[i] := by simp [List.getD_eq_getElem?_getD, hi']
  have hgj : (m[i]).getD j 0 = (m[i])[j] := by simp [List.getD_eq_getElem?_getD, hj']
  unfold entry2 bump2
  rw [hgi, hgj]
  by_cases e1 : i = i'
  · subst e1
    have : (m.set i ((m[i]).set j ((m[i])[j] + 1))).getD i [] = (m[i]).set j ((m[i])[j] + 1) := by
      simp [List.getD_eq_getElem?_getD, hi']
    rw [this, hgi]
    by_cases e2 : j = j'
    · subst e2; simp [List.getD_eq_getElem?_getD, hj']
    · simp [List.getD_eq_getElem?_getD, e2]
  · have : (m.set i ((m[i]).set j ((m[i])[j] + 1))).getD i' [] = m.getD i' [] := by
      simp [List.getD_eq_getElem?_getD, e1]
    rw [this]; simp [e1]

theorem entry2_colT2 {n : Nat} {t : Nat} (ht : t < n) (vs : List Int)
    (hv : ∀ v ∈ vs, -(n : Int) ≤ v ∧ v ≤ n) {j : Nat} (_hj : j < n) (i : Nat) :
    ∀ (m : List (List Int)), T2Shape n m →
    entry2 (colT2 m t vs) i j = entry2 m i j + (if i = t then (vs.count ((j : Int) + 1) : Int) else 0) := by
  induction vs with
  | nil => intro m _; simp [colT2]
  | cons v vs ih =>
    intro m hm
    have hv0 := hv v (by simp)
    have ih' := ih (fun w hw => hv w (by simp [hw]))
    simp only [colT2]
    have hshape : T2Shape n (dayT2 m t v) := by
      unfold dayT2; split
      · exact bump2_shape hm ht _
      · exact hm
    rw [ih' _ hshape, List.count_cons]
    unfold dayT2
    by_cases hp : v > 0
    · have ho : opp v < n := opp_lt (by omega) hv0.1 hv0.2
      simp only [hp, if_true, entry2_bump2 hm ht ho]
      by_cases e1 : i = t
      · subst e1
        by_cases e2 : v = (j : Int) + 1
        · have : opp v = j := by unfold opp; omega
          subst e2
          simp [this]; omega
        · have : opp v ≠ j := by unfold opp; omega
          simp [this, e2]
      · have : ¬ t = i := fun h => e1 h.symm
        simp [e1, this]
    · have : v ≠ (j : Int) + 1 := by omega
      simp [hp, this]

theorem entry2_teamsT2 {n : Nat} {p : Plan} (hs : Shape n p) {M0 : List (List Int)} (h2 : T2Shape n M0)
    {i j : Nat} (hj : j < n) (k : Nat) (hk : k ≤ n) :
    entry2 (teamsT2 p k M0) i j = entry2 M0 i j + (if i < k then (homeGames p i j : Int) else 0) := by
  induction k with
  | zero => simp [teamsT2]
  | succ k ih =>
    have hsh : T2Shape n (teamsT2 p k M0) := by
      have := (teamsClosed_inv ⟨0,0,0,0,0,0⟩ p (List.replicate (tri n) 0) M0 (by simp) h2 k (by omega)).2
      simpa [teamsClosed] using this
    have := entry2_colT2 (show k < n by omega) (col p k) (col_mem_range hs k) hj i _ hsh
    unfold teamsT2 at this ⊢
    rw [List.range_succ, List.foldl_append]
    simp only [List.foldl_cons, List.foldl_nil]
    rw [this]
    have ih' := ih (by omega)
    unfold teamsT2 at ih'
    rw [ih']
    unfold homeGames
    by_cases e : i = k
    · subst e; simp
    · by_cases e2 : i < k
      · have : i < k + 1 := by omega
        simp [e, e2, this]
      · have : ¬ i < k + 1 := by omega
        simp [e, e2, this]

/-- the result of the kernel on a plan of the space, in closed form -/
def pureErrs (n rounds : Nat) (c : Cfg) (p : Plan) : Errs :=
  { bye := rsum n (fun t => count0 (col p t)),
    incons := rsum n (fun t => colIncons p t 0 (col p t)),
    streakMax := rsum n (fun t => (colStreak c Streak.init (col p t)).2.1),
    streakMin := rsum n (fun t => (colStreak c Streak.init (col p t)).2.2
                                  + closeStreak c (colStreak c Streak.init (col p t)).1),
    sepMin := (tableFold c (List.replicate (tri n) (-1)) (allEvents p n)).2.1,
    sepMax := (tableFold c (List.replicate (tri n) (-1)) (allEvents p n)).2.2,
    pairCount := rsum n (fun i => rsum i (fun j =>
      (pairTerm rounds (homeGames p i j) (homeGames p j i)).1)),
    balance := rsum n (fun i => rsum i (fun j =>
      (pairTerm rounds (homeGames p i j) (homeGames p j i)).2)) }

theorem rsum_congr {k : Nat} {f g : Nat → Int} (h : ∀ i < k, f i = g i) : rsum k f = rsum k g := by
  unfold rsum
  congr 1
  apply List.map_congr_left
  intro i hi
  exact h i (by simpa using hi)

theorem countErrs?_eq (n rounds : Nat) (c : Cfg) (p : Plan) (t1 : List Int) (t2 : List (List Int))
    (hn : 2 ≤ n) (hp : InSpace n rounds p) (hsc : ScratchOk n t1 t2) :
    countErrs? n p c t1 t2 = some (pureErrs n rounds c p) := by
  obtain ⟨hlen, hrows⟩ := hp
  have hs : Shape n p := hrows
  obtain ⟨s1, s2, s3⟩ := hsc
  have hT0 : t1.map (fun _ => (-1 : Int)) = List.replicate (tri n) (-1) := by
    rw [List.map_const', s1]; rfl
  have hM0 : T2Shape n (t2.map (fun r => r.map (fun _ => (0 : Int)))) := by
    refine ⟨by simp [s2], ?_⟩
    intro r hr
    simp only [List.mem_map] at hr
    obtain ⟨r0, hr0, rfl⟩ := hr
    simp [s3 r0 hr0]
  have hM0z : ∀ i j, entry2 (t2.map (fun r => r.map (fun _ => (0 : Int)))) i j = 0 := by
    intro i j
    unfold entry2
    simp only [List.getD_eq_getElem?_getD, List.getElem?_map]
    cases t2[i]? with
    | none => simp
    | some r => cases h : r[j]? <;> simp [h]
  unfold countErrs?
  simp only [hT0]
  rw [foldTeams_eq c hs _ _ (by simp) hM0 n (Nat.le_refl n)]
  have hn1 : n ≠ 1 := by omega
  have hgpc : p.length / (n - 1) = rounds := by
    rw [hlen]; exact Nat.mul_div_cancel_left _ (by omega)
  have hsh := (teamsClosed_inv c p (List.replicate (tri n) (-1)) _ (by simp) hM0 n (Nat.le_refl n)).2
  simp only [hn1, if_false, hgpc]
  rw [pairPass_eq _ hsh (List.range n) (fun i hi => by simpa using hi)]
  simp only [teamsClosed, pureErrs, Option.some.injEq, Errs.mk.injEq, true_and]
  refine ⟨?_, ?_⟩
  · show rsum n _ = rsum n _
    apply rsum_congr; intro i hi; apply rsum_congr; intro j hj
    rw [entry2_teamsT2 hs hM0 (show j < n by omega) n (Nat.le_refl n),
        entry2_teamsT2 hs hM0 (show i < n by omega) n (Nat.le_refl n), hM0z, hM0z]
    simp [hi, show j < n by omega]
  · show rsum n _ = rsum n _
    apply rsum_congr; intro i hi; apply rsum_congr; intro j hj
    rw [entry2_teamsT2 hs hM0 (show j < n by omega) n (Nat.le_refl n),
        entry2_teamsT2 hs hM0 (show i < n by omega) n (Nat.le_refl n), hM0z, hM0z]
    simp [hi, show j < n by omega]

/-! ### non-negativity of every component, for every input on which the kernel returns -/

def Errs.NonNeg (e : Errs) : Prop :=
  0 ≤ e.bye ∧ 0 ≤ e.incons ∧ 0 ≤ e.streakMax ∧ 0 ≤ e.streakMin ∧ 0 ≤ e.sepMin ∧ 0 ≤ e.sepMax ∧
  0 ≤ e.pairCount ∧ 0 ≤ e.balance

theorem short_nonneg (m l : Int) : 0 ≤ short m l := by unfold short; split <;> omega

theorem byeStreak_nonneg (c : Cfg) (s : Streak) : 0 ≤ (byeStreak c s).2 := by
  unfold byeStreak; split
  · exact short_nonneg _ _
  · split
    · exact short_nonneg _ _
    · simp

theorem homeStreak_nonneg (c : Cfg) (s : Streak) :
    0 ≤ (homeStreak c s).2.1 ∧ 0 ≤ (homeStreak c s).2.2 := by
  unfold homeStreak; split
  · constructor
    · simp only []; split <;> omega
    · simp
  · split
    · exact ⟨by simp, short_nonneg _ _⟩
    · simp

theorem awayStreak_nonneg (c : Cfg) (s : Streak) :
    0 ≤ (awayStreak c s).2.1 ∧ 0 ≤ (awayStreak c s).2.2 := by
  unfold awayStreak; split
  · constructor
    · simp only []; split <;> omega
    · simp
  · split
    · exact ⟨by simp, short_nonneg _ _⟩
    · simp

theorem closeStreak_nonneg (c : Cfg) (s : Streak) : 0 ≤ closeStreak c s := by
  unfold closeStreak; split
  · exact short_nonneg _ _
  · split
    · exact short_nonneg _ _
    · simp

theorem touch_nonneg (c : Cfg) (last : Int) (d : Nat) :
    0 ≤ (touch c last d).2.1 ∧ 0 ≤ (touch c last d).2.2 := by
  by_cases h1 : last ≥ 0 <;> by_cases h2 : last < d <;> by_cases h3 : (d : Int) - last - 1 < c.smin <;>
    by_cases h4 : (d : Int) - last - 1 > c.smax <;> simp [touch, h1, h2, h3, h4] <;> omega

theorem sepStep_nonneg {c : Cfg} {T : List Int} {k d : Nat} {q : List Int × Int × Int}
    (h : sepStep c T k d = some q) : 0 ≤ q.2.1 ∧ 0 ≤ q.2.2 := by
  unfold sepStep at h
  split at h
  · simp at h
  · simp only [Option.some.injEq] at h; subst h; exact touch_nonneg _ _ _

theorem dayStep_nonneg {c : Cfg} {p : Plan} {t : Nat} {a a' : Acc} {d : Nat} {v : Int}
    (h : dayStep c p t a d v = some a') (ha : a.e.NonNeg) : a'.e.NonNeg := by
  have hb := byeStreak_nonneg c a.s
  have hh := homeStreak_nonneg c a.s
  have haw := awayStreak_nonneg c a.s
  obtain ⟨a1, a2, a3, a4, a5, a6, a7, a8⟩ := ha
  unfold dayStep at h
  by_cases h0 : v = 0
  · rw [if_pos h0] at h
    simp only [Option.some.injEq] at h; subst h
    refine ⟨?_, ?_, ?_, ?_, ?_, ?_, ?_, ?_⟩ <;> simp only [] <;> omega
  · rw [if_neg h0] at h
    by_cases hp : v > 0
    · rw [if_pos hp] at h
      simp only [] at h
      cases he : entry? p d (v - 1).toNat with
      | none => rw [he] at h; cases h
      | some other =>
        rw [he] at h; simp only [] at h
        cases hi : incr2? a.t2 t (v - 1).toNat with
        | none => rw [hi] at h; cases h
        | some t2' =>
          rw [hi] at h; simp only [] at h
          by_cases hto : t = (v - 1).toNat
          · rw [if_pos hto] at h
            simp only [Option.some.injEq] at h; subst h
            refine ⟨?_, ?_, ?_, ?_, ?_, ?_, ?_, ?_⟩ <;> simp only [] <;> (try split) <;> omega
          · rw [if_neg hto] at h
            cases hq : sepStep c a.t1 (pairIdx t (v - 1).toNat) d with
            | none => rw [hq] at h; cases h
            | some q =>
              rw [hq] at h; simp only [] at h
              have hq' := sepStep_nonneg hq
              simp only [Option.some.injEq] at h; subst h
              refine ⟨?_, ?_, ?_, ?_, ?_, ?_, ?_, ?_⟩ <;> simp only [] <;> (try split) <;> omega
    · rw [if_neg hp] at h
      simp only [] at h
      cases he : entry? p d (-v - 1).toNat with
      | none => rw [he] at h; cases h
      | some other =>
        rw [he] at h; simp only [] at h
        by_cases hto : t = (-v - 1).toNat
        · rw [if_pos hto] at h
          simp only [Option.some.injEq] at h; subst h
          refine ⟨?_, ?_, ?_, ?_, ?_, ?_, ?_, ?_⟩ <;> simp only [] <;> (try split) <;> omega
        · rw [if_neg hto] at h
          cases hq : sepStep c a.t1 (pairIdx t (-v - 1).toNat) d with
          | none => rw [hq] at h; cases h
          | some q =>
            rw [hq] at h; simp only [] at h
            have hq' := sepStep_nonneg hq
            simp only [Option.some.injEq] at h; subst h
            refine ⟨?_, ?_, ?_, ?_, ?_, ?_, ?_, ?_⟩ <;> simp only [] <;> (try split) <;> omega

theorem foldDays_nonneg {c : Cfg} {p : Plan} {t : Nat} (vs : List Int) :
    ∀ {a a' : Acc} {d : Nat}, foldDays c p t a d vs = some a' → a.e.NonNeg → a'.e.NonNeg := by
  induction vs with
  | nil => intro a a' d h ha; simp [foldDays] at h; subst h; exact ha
  | cons v vs ih =>
    intro a a' d h ha
    simp only [foldDays] at h
    split at h
    · simp at h
    · rename_i a1 h1
      exact ih h (dayStep_nonneg h1 ha)

theorem teamStep_nonneg {c : Cfg} {p : Plan} {g g' : G} {t : Nat}
    (h : teamStep c p g t = some g') (hg : g.e.NonNeg) : g'.e.NonNeg := by
  unfold teamStep at h
  split at h
  · simp at h
  · split at h
    · simp at h
    · rename_i a ha
      simp only [Option.some.injEq] at h; subst h
      have := foldDays_nonneg _ ha hg
      obtain ⟨a1, a2, a3, a4, a5, a6, a7, a8⟩ := this
      have hc := closeStreak_nonneg c a.s
      refine ⟨?_, ?_, ?_, ?_, ?_, ?_, ?_, ?_⟩ <;> simp only [] <;> omega

theorem foldTeams_nonneg {c : Cfg} {p : Plan} (ts : List Nat) :
    ∀ {g g' : G}, foldTeams c p g ts = some g' → g.e.NonNeg → g'.e.NonNeg := by
  induction ts with
  | nil => intro g g' h hg; simp [foldTeams] at h; subst h; exact hg
  | cons t ts ih =>
    intro g g' h hg
    simp only [foldTeams] at h
    split at h
    · simp at h
    · rename_i g1 h1
      exact ih h (teamStep_nonneg h1 hg)

theorem pairTerm_nonneg (gpc ij ji : Int) : 0 ≤ (pairTerm gpc ij ji).1 ∧ 0 ≤ (pairTerm gpc ij ji).2 := by
  unfold pairTerm
  constructor
  · simp only []; omega
  · simp only []; split <;> omega

theorem pairRow_nonneg {gpc : Int} {m : List (List Int)} {i : Nat} (js : List Nat) :
    ∀ {r : Int × Int}, pairRow gpc m i js = some r → 0 ≤ r.1 ∧ 0 ≤ r.2 := by
  induction js with
  | nil => intro r h; simp [pairRow] at h; subst h; simp
  | cons j js ih =>
    intro r h
    simp only [pairRow] at h
    cases h1 : entry2? m i j with
    | none => simp [h1] at h
    | some ij =>
      cases h2 : entry2? m j i with
      | none => simp [h1, h2] at h
      | some ji =>
        simp only [h1, h2] at h
        cases h3 : pairRow gpc m i js with
        | none => simp [h3] at h
        | some r' =>
          simp only [h3, Option.some.injEq] at h; subst h
          have := ih h3
          have := pairTerm_nonneg gpc ij ji
          simp only []; omega

theorem pairPass_nonneg {gpc : Int} {m : List (List Int)} (is : List Nat) :
    ∀ {r : Int × Int}, pairPass gpc m is = some r → 0 ≤ r.1 ∧ 0 ≤ r.2 := by
  induction is with
  | nil => intro r h; simp [pairPass] at h; subst h; simp
  | cons i is ih =>
    intro r h
    simp only [pairPass] at h
    cases h1 : pairRow gpc m i (List.range i) with
    | none => simp [h1] at h
    | some r1 =>
      simp only [h1] at h
      cases h2 : pairPass gpc m is with
      | none => simp [h2] at h
      | some r2 =>
        simp only [h2, Option.some.injEq] at h; subst h
        have := ih h2
        have := pairRow_nonneg _ h1
        simp only []; omega

theorem countErrs?_nonneg {n : Nat} {p : Plan} {c : Cfg} {t1 : List Int} {t2 : List (List Int)} {e : Errs}
    (h : countErrs? n p c t1 t2 = some e) : e.NonNeg := by
  unfold countErrs? at h
  simp only [] at h
  split at h
  · simp at h
  · rename_i g hg
    have hg' := foldTeams_nonneg _ hg (by simp [Errs.NonNeg])
    split at h
    · simp at h
    · split at h
      · simp at h
      · rename_i r hr
        simp only [Option.some.injEq] at h; subst h
        have := pairPass_nonneg _ hr
        obtain ⟨a1, a2, a3, a4, a5, a6, a7, a8⟩ := hg'
        exact ⟨a1, a2, a3, a4, a5, a6, this.1, this.2⟩

theorem scratch_fill (t1 t1' : List Int) (t2 t2' : List (List Int)) (h1 : t1.length = t1'.length)
    (h2 : t2.map List.length = t2'.map List.length) :
    t1.map (fun _ => (-1 : Int)) = t1'.map (fun _ => (-1 : Int)) ∧
    t2.map (fun r => r.map (fun _ => (0 : Int))) = t2'.map (fun r => r.map (fun _ => (0 : Int))) := by
  constructor
  · rw [List.map_const', List.map_const', h1]
  · have : ∀ (m : List (List Int)), m.map (fun r => r.map (fun _ => (0 : Int)))
        = (m.map List.length).map (fun l => List.replicate l (0 : Int)) := by
      intro m; simp [List.map_map, Function.comp_def, List.map_const']
    rw [this t2, this t2', h2]

/-! ## C. closed forms against the specification -/

theorem rsum_nonneg {k : Nat} {f : Nat → Int} (h : ∀ i < k, 0 ≤ f i) : 0 ≤ rsum k f := by
  induction k with
  | zero => simp [rsum_zero]
  | succ k ih =>
    rw [rsum_succ]
    have := ih (fun i hi => h i (by omega))
    have := h k (by omega)
    omega

theorem rsum_eq_zero_iff {k : Nat} {f : Nat → Int} (h : ∀ i < k, 0 ≤ f i) :
    rsum k f = 0 ↔ ∀ i < k, f i = 0 := by
  induction k with
  | zero => simp [rsum_zero]
  | succ k ih =>
    rw [rsum_succ]
    have h1 := rsum_nonneg (k := k) (f := f) (fun i hi => h i (by omega))
    have h2 := h k (by omega)
    have ih' := ih (fun i hi => h i (by omega))
    constructor
    · intro hz i hi
      have hk : rsum k f = 0 := by omega
      by_cases e : i = k
      · subst e; omega
      · exact ih'.mp hk i (by omega)
    · intro hz
      have := ih'.mpr (fun i hi => hz i (by omega))
      have := hz k (by omega)
      omega

theorem rsum_le {k : Nat} {f g : Nat → Int} (h : ∀ i < k, f i ≤ g i) : rsum k f ≤ rsum k g := by
  induction k with
  | zero => simp [rsum_zero]
  | succ k ih =>
    rw [rsum_succ, rsum_succ]
    have := ih (fun i hi => h i (by omega))
    have := h k (by omega)
    omega

theorem rsum_add (k : Nat) (f g : Nat → Int) : rsum k (fun i => f i + g i) = rsum k f + rsum k g := by
  induction k with
  | zero => simp [rsum_zero]
  | succ k ih => simp only [rsum_succ, ih]; omega

theorem rsum_const_zero (k : Nat) : rsum k (fun _ => 0) = 0 := by
  induction k with
  | zero => simp [rsum_zero]
  | succ k ih => simp only [rsum_succ, ih]; omega

/-! ### C1 byes -/

theorem count0_eq (vs : List Int) : count0 vs = (vs.count 0 : Int) := by
  induction vs with
  | nil => simp [count0]
  | cons v vs ih =>
    simp only [count0, ih, List.count_cons]
    by_cases h : v = 0
    · subst h; simp; omega
    · simp [h]

theorem count0_nonneg (vs : List Int) : 0 ≤ count0 vs := by rw [count0_eq]; omega

theorem count0_eq_zero (vs : List Int) : count0 vs = 0 ↔ ∀ v ∈ vs, v ≠ 0 := by
  induction vs with
  | nil => simp [count0]
  | cons v vs ih =>
    have := count0_nonneg vs
    simp only [count0, List.mem_cons, forall_eq_or_imp]
    by_cases h : v = 0
    · simp [h]; omega
    · simp [h, ih]

theorem mem_col {p : Plan} {t : Nat} {v : Int} : v ∈ col p t ↔ ∃ d, d < p.length ∧ v = cell p d t := by
  constructor
  · intro hv
    obtain ⟨d, hd, rfl⟩ := List.getElem_of_mem hv
    refine ⟨d, by simpa [col_length] using hd, ?_⟩
    have h1 := col_getD p t d
    rw [List.getD_eq_getElem?_getD, List.getElem?_eq_getElem hd] at h1
    simpa using h1
  · rintro ⟨d, hd, rfl⟩
    have hd' : d < (col p t).length := by simpa [col_length] using hd
    have h1 := col_getD p t d
    rw [List.getD_eq_getElem?_getD, List.getElem?_eq_getElem hd'] at h1
    simp at h1
    rw [← h1]
    exact List.getElem_mem hd'

theorem bye_zero_iff (n : Nat) (p : Plan) :
    rsum n (fun t => count0 (col p t)) = 0 ↔ NoBye n p := by
  rw [rsum_eq_zero_iff (fun t _ => count0_nonneg _)]
  unfold NoBye
  constructor
  · intro h d hd t ht
    exact (count0_eq_zero _).mp (h t ht) _ (mem_col.mpr ⟨d, hd, rfl⟩)
  · intro h t ht
    rw [count0_eq_zero]
    intro v hv
    obtain ⟨d, hd, rfl⟩ := mem_col.mp hv
    exact h d hd t ht

/-! ### C2 mutual consistency -/

theorem inconsAt_nonneg (p : Plan) (t d : Nat) (v : Int) : 0 ≤ inconsAt p t d v := by
  unfold inconsAt; repeat' split
  all_goals omega

theorem inconsAt_eq_zero (p : Plan) (t d : Nat) (v : Int) :
    inconsAt p t d v = 0 ↔ (v > 0 → cell p d (opp v) = -((t : Int) + 1)) ∧
                            (v < 0 → cell p d (opp v) = (t : Int) + 1) := by
  unfold inconsAt
  by_cases h0 : v = 0
  · subst h0; simp
  · by_cases hp : v > 0
    · have : ¬ v < 0 := by omega
      simp [h0, hp, this]
    · have hn : v < 0 := by omega
      simp [h0, hp, hn]

theorem colIncons_nonneg (p : Plan) (t : Nat) (vs : List Int) : ∀ d, 0 ≤ colIncons p t d vs := by
  induction vs with
  | nil => intro d; simp [colIncons]
  | cons v vs ih => intro d; have := ih (d + 1); have := inconsAt_nonneg p t d v; simp only [colIncons]; omega

theorem colIncons_eq_zero (p : Plan) (t : Nat) (vs : List Int) : ∀ d,
    colIncons p t d vs = 0 ↔ ∀ i, i < vs.length → inconsAt p t (d + i) (vs.getD i 0) = 0 := by
  induction vs with
  | nil => intro d; simp [colIncons]
  | cons v vs ih =>
    intro d
    have h1 := colIncons_nonneg p t vs (d + 1)
    have h2 := inconsAt_nonneg p t d v
    simp only [colIncons]
    constructor
    · intro hz i hi
      cases i with
      | zero => simp; omega
      | succ i =>
        have := (ih (d + 1)).mp (by omega) i (by simpa using hi)
        simpa [Nat.add_assoc, Nat.add_comm 1 i] using this
    · intro hz
      have e0 := hz 0 (by simp)
      simp at e0
      have : colIncons p t (d + 1) vs = 0 := by
        rw [ih (d + 1)]
        intro i hi
        have := hz (i + 1) (by simpa using hi)
        simpa [Nat.add_assoc, Nat.add_comm 1 i] using this
      omega

theorem incons_zero_iff (n : Nat) (p : Plan) :
    rsum n (fun t => colIncons p t 0 (col p t)) = 0 ↔ Consistent n p := by
  rw [rsum_eq_zero_iff (fun t _ => colIncons_nonneg _ _ _ _)]
  unfold Consistent
  constructor
  · intro h d hd t ht
    have := (colIncons_eq_zero p t (col p t) 0).mp (h t ht) d (by simpa [col_length] using hd)
    rw [col_getD, Nat.zero_add] at this
    exact (inconsAt_eq_zero _ _ _ _).mp this
  · intro h t ht
    rw [colIncons_eq_zero]
    intro d hd
    rw [col_getD, Nat.zero_add]
    exact (inconsAt_eq_zero _ _ _ _).mpr (h d (by simpa [col_length] using hd) t ht)

/-! ### C3 the streak machine counts exactly the documented streak violations -/

/-- abstract state of the machine: kind of the open streak and its length -/
def Rep (s : Streak) (σ : Int) (k : Nat) : Prop :=
  (σ = 1 ∧ s.inHome = true ∧ s.inAway = false ∧ s.homeLen = k) ∨
  (σ = -1 ∧ s.inAway = true ∧ s.inHome = false ∧ s.awayLen = k) ∨
  (σ = 0 ∧ s.inHome = false ∧ s.inAway = false)

/-- the part of the "too long" penalty of the open streak that was already charged -/
def already (c : Cfg) (σ : Int) (k : Nat) : Int :=
  if σ = 1 then posPart (k - c.hmax) else if σ = -1 then posPart (k - c.amax) else 0

/-- all streak errors of a column scanned from state `s`, including the closing check -/
def SE (c : Cfg) (s : Streak) (vs : List Int) : Int :=
  (colStreak c s vs).2.1 + (colStreak c s vs).2.2 + closeStreak c (colStreak c s vs).1

def runSum (c : Cfg) (R : List (Int × Nat)) : Int := (R.map (runPenalty c)).sum

theorem SE_cons (c : Cfg) (s : Streak) (v : Int) (vs : List Int) :
    SE c s (v :: vs) = (streakStep c s v).2.1 + (streakStep c s v).2.2 + SE c (streakStep c s v).1 vs := by
  simp only [SE, colStreak]; omega

theorem pushRun_head (σ : Int) (k : Nat) (R : List (Int × Nat)) :
    ∃ j rest, pushRun σ k R = (σ, j) :: rest := by
  cases R with
  | nil => exact ⟨k, [], rfl⟩
  | cons r rest =>
    obtain ⟨s', j⟩ := r
    by_cases h : σ = s'
    · subst h; exact ⟨j + k, rest, by simp [pushRun]⟩
    · exact ⟨k, (s', j) :: rest, by simp [pushRun, h]⟩

theorem pushRun_ne {σ σ' : Int} (h : σ ≠ σ') (k j : Nat) (rest : List (Int × Nat)) :
    pushRun σ k ((σ', j) :: rest) = (σ, k) :: (σ', j) :: rest := by simp [pushRun, h]

theorem pushRun_pushRun (σ : Int) (k : Nat) (R : List (Int × Nat)) :
    pushRun σ k (pushRun σ 1 R) = pushRun σ (k + 1) R := by
  cases R with
  | nil => simp [pushRun]; omega
  | cons r rest =>
    obtain ⟨s', j⟩ := r
    by_cases h : σ = s'
    · subst h; simp [pushRun]; omega
    · simp [pushRun, h]; omega

theorem runPenalty_zero (c : Cfg) (k : Nat) : runPenalty c (0, k) = 0 := by simp [runPenalty]

theorem runSum_push_zero (c : Cfg) (k : Nat) (R : List (Int × Nat)) :
    runSum c (pushRun 0 k R) = runSum c R := by
  cases R with
  | nil => simp [pushRun, runSum, runPenalty]
  | cons r rest =>
    obtain ⟨s', j⟩ := r
    by_cases h : (0 : Int) = s'
    · subst h; simp [pushRun, runSum, runPenalty]
    · simp [pushRun, h, runSum, runPenalty]

theorem runSum_push_ne (c : Cfg) {σ σ' : Int} (h : σ ≠ σ') (k k' : Nat) (R : List (Int × Nat)) :
    runSum c (pushRun σ k (pushRun σ' k' R)) = runPenalty c (σ, k) + runSum c (pushRun σ' k' R) := by
  obtain ⟨j, rest, hr⟩ := pushRun_head σ' k' R
  rw [hr, pushRun_ne h]
  simp [runSum]

theorem kind_cases (v : Int) : (v = 0 ∧ kind v = 0) ∨ (v > 0 ∧ kind v = 1) ∨ (v < 0 ∧ kind v = -1) := by
  unfold kind
  by_cases h0 : v = 0
  · left; subst h0; simp
  · by_cases hp : v > 0
    · right; left; simp [hp]
    · right; right; have hn : v < 0 := by omega
      simp [hp, hn]

theorem streak_runs (c : Cfg) (hh : 1 ≤ c.hmax) (ha : 1 ≤ c.amax) (vs : List Int) :
    ∀ (s : Streak) (σ : Int) (k : Nat), Rep s σ k →
      SE c s vs + already c σ k = runSum c (pushRun σ k (runs vs)) := by
  induction vs with
  | nil =>
    intro s σ k hrep
    rcases hrep with ⟨rfl, h1, h2, h3⟩ | ⟨rfl, h1, h2, h3⟩ | ⟨rfl, h1, h2⟩
    · simp [SE, colStreak, closeStreak, h1, h2, h3, already, runs, pushRun, runSum, runPenalty, short, posPart]
    · simp [SE, colStreak, closeStreak, h1, h3, already, runs, pushRun, runSum, runPenalty, short, posPart]
    · simp [SE, colStreak, closeStreak, h1, h2, already, runs, pushRun, runSum, runPenalty]
  | cons v vs ih =>
    intro s σ k hrep
    rw [SE_cons]
    simp only [runs]
    rcases kind_cases v with ⟨hv, hk⟩ | ⟨hv, hk⟩ | ⟨hv, hk⟩
    · -- a day without a game
      rw [hk]
      subst hv
      rcases hrep with ⟨rfl, h1, h2, h3⟩ | ⟨rfl, h1, h2, h3⟩ | ⟨rfl, h1, h2⟩
      · have hr : Rep (streakStep c s 0).1 0 0 := by
          right; right; simp [streakStep, byeStreak, h1, h2]
        have := ih _ 0 0 hr
        rw [runSum_push_zero] at this
        rw [runSum_push_ne c (by decide : (1 : Int) ≠ 0), runSum_push_zero, ← this]
        simp [streakStep, byeStreak, h1, h2, h3, already, runPenalty, short, posPart]
        split <;> omega
      · have hr : Rep (streakStep c s 0).1 0 0 := by
          right; right; simp [streakStep, byeStreak, h1, h2]
        have := ih _ 0 0 hr
        rw [runSum_push_zero] at this
        rw [runSum_push_ne c (by decide : (-1 : Int) ≠ 0), runSum_push_zero, ← this]
        simp [streakStep, byeStreak, h1, h2, h3, already, runPenalty, short, posPart]
        split <;> omega
      · have hr : Rep (streakStep c s 0).1 0 0 := by
          right; right; simp [streakStep, byeStreak, h1, h2]
        have := ih _ 0 0 hr
        rw [runSum_push_zero] at this
        rw [runSum_push_zero, runSum_push_zero, ← this]
        simp [streakStep, byeStreak, h1, h2, already]
    · -- a home game
      rw [hk]
      have h0 : v ≠ 0 := by omega
      rcases hrep with ⟨rfl, h1, h2, h3⟩ | ⟨rfl, h1, h2, h3⟩ | ⟨rfl, h1, h2⟩
      · have hr : Rep (streakStep c s v).1 1 (k + 1) := by
          left; simp [streakStep, homeStreak, h0, hv, h1, h2, h3]
        have := ih _ 1 (k + 1) hr
        rw [pushRun_pushRun, ← this]
        simp [streakStep, homeStreak, h0, hv, h1, h2, h3, already, posPart]
        split <;> split <;> omega
      · have hr : Rep (streakStep c s v).1 1 1 := by
          left; simp [streakStep, homeStreak, h0, hv, h1, h2]
        have := ih _ 1 1 hr
        rw [runSum_push_ne c (by decide : (-1 : Int) ≠ 1), ← this]
        simp [streakStep, homeStreak, h0, hv, h1, h2, h3, already, runPenalty, short, posPart]
        split <;> split <;> omega
      · have hr : Rep (streakStep c s v).1 1 1 := by
          left; simp [streakStep, homeStreak, h0, hv, h1, h2]
        have := ih _ 1 1 hr
        rw [runSum_push_ne c (by decide : (0 : Int) ≠ 1), ← this]
        simp [streakStep, homeStreak, h0, hv, h1, h2, already, runPenalty, posPart]
        omega
    · -- an away game
      rw [hk]
      have h0 : v ≠ 0 := by omega
      have hnp : ¬ v > 0 := by omega
      rcases hrep with ⟨rfl, h1, h2, h3⟩ | ⟨rfl, h1, h2, h3⟩ | ⟨rfl, h1, h2⟩
      · have hr : Rep (streakStep c s v).1 (-1) 1 := by
          right; left; simp [streakStep, awayStreak, h0, hnp, h1, h2]
        have := ih _ (-1) 1 hr
        rw [runSum_push_ne c (by decide : (1 : Int) ≠ -1), ← this]
        simp [streakStep, awayStreak, h0, hnp, h1, h2, h3, already, runPenalty, short, posPart]
        split <;> split <;> omega
      · have hr : Rep (streakStep c s v).1 (-1) (k + 1) := by
          right; left; simp [streakStep, awayStreak, h0, hnp, h1, h2, h3]
        have := ih _ (-1) (k + 1) hr
        rw [pushRun_pushRun, ← this]
        simp [streakStep, awayStreak, h0, hnp, h1, h2, h3, already, posPart]
        split <;> split <;> omega
      · have hr : Rep (streakStep c s v).1 (-1) 1 := by
          right; left; simp [streakStep, awayStreak, h0, hnp, h1, h2]
        have := ih _ (-1) 1 hr
        rw [runSum_push_ne c (by decide : (0 : Int) ≠ -1), ← this]
        simp [streakStep, awayStreak, h0, hnp, h1, h2, already, runPenalty, posPart]
        omega

theorem streakCol_eq (c : Cfg) (hh : 1 ≤ c.hmax) (ha : 1 ≤ c.amax) (vs : List Int) :
    SE c Streak.init vs = streakCount c vs := by
  have := streak_runs c hh ha vs Streak.init 0 0 (by right; right; simp [Streak.init])
  rw [runSum_push_zero] at this
  simpa [already, streakCount, runSum] using this

theorem posPart_nonneg (x : Int) : 0 ≤ posPart x := by unfold posPart; split <;> omega

theorem posPart_eq_zero (x : Int) : posPart x = 0 ↔ x ≤ 0 := by unfold posPart; split <;> omega

theorem runPenalty_nonneg (c : Cfg) (r : Int × Nat) : 0 ≤ runPenalty c r := by
  unfold runPenalty
  have := posPart_nonneg (c.hmin - r.2); have := posPart_nonneg (r.2 - c.hmax)
  have := posPart_nonneg (c.amin - r.2); have := posPart_nonneg (r.2 - c.amax)
  repeat' split
  all_goals omega

theorem runPenalty_eq_zero (c : Cfg) (r : Int × Nat) :
    runPenalty c r = 0 ↔ (r.1 = 1 → c.hmin ≤ r.2 ∧ (r.2 : Int) ≤ c.hmax) ∧
                         (r.1 = -1 → c.amin ≤ r.2 ∧ (r.2 : Int) ≤ c.amax) := by
  obtain ⟨σ, k⟩ := r
  unfold runPenalty
  have h1 := posPart_nonneg (c.hmin - k); have h2 := posPart_nonneg (k - c.hmax)
  have h3 := posPart_nonneg (c.amin - k); have h4 := posPart_nonneg (k - c.amax)
  have e1 := posPart_eq_zero (c.hmin - k); have e2 := posPart_eq_zero (k - c.hmax)
  have e3 := posPart_eq_zero (c.amin - k); have e4 := posPart_eq_zero (k - c.amax)
  by_cases k1 : σ = 1
  · subst k1
    simp only [if_true]
    constructor
    · intro h; exact ⟨fun _ => by omega, fun hh => by omega⟩
    · intro h; have := h.1 trivial; omega
  · by_cases k2 : σ = -1
    · subst k2
      simp only [if_true]
      constructor
      · intro h; exact ⟨fun hh => by omega, fun _ => by omega⟩
      · intro h; have := h.2 trivial; omega
    · simp [k1, k2]

theorem sum_map_eq_zero_iff {α} (l : List α) (f : α → Int) (h : ∀ a ∈ l, 0 ≤ f a) :
    (l.map f).sum = 0 ↔ ∀ a ∈ l, f a = 0 := by
  induction l with
  | nil => simp
  | cons a t ih =>
    have h1 := h a (by simp)
    have h2 := sum_map_nonneg t f (fun b hb => h b (by simp [hb]))
    have ih' := ih (fun b hb => h b (by simp [hb]))
    simp only [List.map_cons, List.sum_cons, List.mem_cons, forall_eq_or_imp]
    constructor
    · intro hz; exact ⟨by omega, ih'.mp (by omega)⟩
    · intro hz; have := ih'.mpr hz.2; omega

theorem streakCount_nonneg (c : Cfg) (vs : List Int) : 0 ≤ streakCount c vs :=
  sum_map_nonneg _ _ (fun r _ => runPenalty_nonneg c r)

theorem streakCount_eq_zero (c : Cfg) (vs : List Int) : streakCount c vs = 0 ↔ StreaksOk c vs := by
  unfold streakCount StreaksOk
  rw [sum_map_eq_zero_iff _ _ (fun r _ => runPenalty_nonneg c r)]
  constructor
  · intro h r hr; exact (runPenalty_eq_zero c r).mp (h r hr)
  · intro h r hr; exact (runPenalty_eq_zero c r).mpr (h r hr)

/-! ### C4 the pairing table: decomposition by key -/

/-- what happens to one cell of `temp_1` over the list of days on which it is touched -/
def cellFold (c : Cfg) : Int → List Nat → Int × Int × Int
  | last, [] => (last, 0, 0)
  | last, d :: ds =>
    ((cellFold c (touch c last d).1 ds).1,
     (touch c last d).2.1 + (cellFold c (touch c last d).1 ds).2.1,
     (touch c last d).2.2 + (cellFold c (touch c last d).1 ds).2.2)

/-- the days of the events with key `k` -/
def daysOf (k : Nat) (es : List (Nat × Nat)) : List Nat := (es.filter (fun e => e.1 = k)).map (·.2)

theorem rsum_update {N : Nat} {F G : Nat → Int} {k0 : Nat} (hk : k0 < N) (a : Int)
    (h0 : F k0 = a + G k0) (hne : ∀ k, k ≠ k0 → F k = G k) : rsum N F = a + rsum N G := by
  induction N with
  | zero => omega
  | succ N ih =>
    rw [rsum_succ, rsum_succ]
    by_cases e : k0 = N
    · subst e
      have : rsum k0 F = rsum k0 G := rsum_congr (fun i hi => hne i (by omega))
      omega
    · have := ih (by omega)
      have := hne N (fun h => e h.symm)
      omega

theorem tableFold_keyed (c : Cfg) (es : List (Nat × Nat)) :
    ∀ (T : List Int), (∀ e ∈ es, e.1 < T.length) →
    (tableFold c T es).2.1 = rsum T.length (fun k => (cellFold c (T.getD k (-1)) (daysOf k es)).2.1) ∧
    (tableFold c T es).2.2 = rsum T.length (fun k => (cellFold c (T.getD k (-1)) (daysOf k es)).2.2) := by
  induction es with
  | nil =>
    intro T _
    simp [tableFold, daysOf, cellFold, rsum_const_zero]
  | cons e es ih =>
    intro T hT
    obtain ⟨k0, d0⟩ := e
    have hk0 : k0 < T.length := hT (k0, d0) (by simp)
    have ih' := ih (T.set k0 (touch c (T.getD k0 (-1)) d0).1)
      (fun e he => by simpa using hT e (by simp [he]))
    simp only [List.length_set] at ih'
    simp only [tableFold]
    constructor
    · rw [ih'.1]
      symm
      apply rsum_update hk0
      · simp [daysOf, cellFold, List.getD_eq_getElem?_getD, hk0]
      · intro k hk
        have hk' : ¬ k0 = k := fun h => hk h.symm
        simp [daysOf, hk', List.getD_eq_getElem?_getD]
    · rw [ih'.2]
      symm
      apply rsum_update hk0
      · simp [daysOf, cellFold, List.getD_eq_getElem?_getD, hk0]
      · intro k hk
        have hk' : ¬ k0 = k := fun h => hk h.symm
        simp [daysOf, hk', List.getD_eq_getElem?_getD]

theorem rsum_add_range (m k : Nat) (F : Nat → Int) :
    rsum (m + k) F = rsum m F + rsum k (fun b => F (m + b)) := by
  induction k with
  | zero => simp [rsum_zero]
  | succ k ih => rw [← Nat.add_assoc, rsum_succ, rsum_succ, ih]; omega

/-- sum over all table indices = sum over all pairs `b < a < n` -/
theorem rsum_tri (n : Nat) (F : Nat → Int) :
    rsum (tri n) F = rsum n (fun a => rsum a (fun b => F (tri a + b))) := by
  induction n with
  | zero => simp [tri, rsum_zero]
  | succ n ih => rw [rsum_succ, ← ih, tri_succ, rsum_add_range]

/-! ### C4 (continued): the events of a pairing are the meeting days of its two teams -/

/-- days (counted from `d`) on which a schedule lists opponent `o` -/
def md (o : Nat) : Nat → List Int → List Nat
  | _, [] => []
  | d, v :: vs => if v.natAbs = o + 1 then d :: md o (d + 1) vs else md o (d + 1) vs

theorem daysOf_append (k : Nat) (l1 l2 : List (Nat × Nat)) :
    daysOf k (l1 ++ l2) = daysOf k l1 ++ daysOf k l2 := by simp [daysOf]

theorem pairIdx_eq_iff {t o a b : Nat} (hto : t ≠ o) (hab : b < a) :
    pairIdx t o = tri a + b ↔ (t = a ∧ o = b) ∨ (t = b ∧ o = a) := by
  rcases Nat.lt_or_gt_of_ne hto with h | h
  · rw [pairIdx_lt' h]
    constructor
    · intro e; have := tri_add_inj h hab e; omega
    · rintro (⟨rfl, rfl⟩ | ⟨rfl, rfl⟩)
      · omega
      · rfl
  · rw [pairIdx_gt h]
    constructor
    · intro e; have := tri_add_inj h hab e; omega
    · rintro (⟨rfl, rfl⟩ | ⟨rfl, rfl⟩)
      · rfl
      · omega

theorem daysOf_dayEvents {a b : Nat} (hab : b < a) (t d : Nat) (v : Int) :
    daysOf (tri a + b) (dayEvents t d v) =
      if t = b then (if v.natAbs = a + 1 then [d] else [])
      else if t = a then (if v.natAbs = b + 1 then [d] else []) else [] := by
  unfold dayEvents
  by_cases h0 : v = 0
  · subst h0; simp [daysOf]
  · simp only [h0, if_false]
    by_cases hto : t = opp v
    · simp only [hto, if_true, daysOf, List.filter_nil, List.map_nil]
      have e1 : ¬ (opp v = b ∧ v.natAbs = a + 1) := by unfold opp; omega
      have e2 : ¬ (opp v = a ∧ v.natAbs = b + 1) := by unfold opp; omega
      by_cases k1 : opp v = b
      · have : ¬ v.natAbs = a + 1 := fun h => e1 ⟨k1, h⟩
        simp [k1, this]
      · by_cases k2 : opp v = a
        · have : ¬ v.natAbs = b + 1 := fun h => e2 ⟨k2, h⟩
          have hne : ¬ a = b := by omega
          simp [k2, this, hne]
        · simp [k1, k2]
    · simp only [hto, if_false, daysOf, List.filter_cons, List.filter_nil]
      have key := pairIdx_eq_iff hto hab
      have o1 : opp v = a ↔ v.natAbs = a + 1 := by unfold opp; omega
      have o2 : opp v = b ↔ v.natAbs = b + 1 := by unfold opp; omega
      by_cases k1 : t = b
      · subst k1
        have hne : ¬ t = a := by omega
        by_cases k3 : v.natAbs = a + 1
        · have : pairIdx t (opp v) = tri a + t := key.mpr (Or.inr ⟨rfl, o1.mpr k3⟩)
          simp [this, k3]
        · have : ¬ pairIdx t (opp v) = tri a + t := by
            intro h; rcases key.mp h with ⟨h1, _⟩ | ⟨_, h2⟩
            · exact hne h1
            · exact k3 (o1.mp h2)
          simp [this, k3]
      · by_cases k2 : t = a
        · subst k2
          by_cases k3 : v.natAbs = b + 1
          · have : pairIdx t (opp v) = tri t + b := key.mpr (Or.inl ⟨rfl, o2.mpr k3⟩)
            simp [this, k3, k1]
          · have : ¬ pairIdx t (opp v) = tri t + b := by
              intro h; rcases key.mp h with ⟨_, h2⟩ | ⟨h1, _⟩
              · exact k3 (o2.mp h2)
              · exact k1 h1
            simp [this, k3, k1]
        · have : ¬ pairIdx t (opp v) = tri a + b := by
            intro h; rcases key.mp h with ⟨h1, _⟩ | ⟨h1, _⟩
            · exact k2 h1
            · exact k1 h1
          simp [this, k1, k2]

theorem daysOf_colEvents {a b : Nat} (hab : b < a) (t : Nat) (vs : List Int) : ∀ d,
    daysOf (tri a + b) (colEvents t d vs) =
      if t = b then md a d vs else if t = a then md b d vs else [] := by
  induction vs with
  | nil => intro d; simp [colEvents, daysOf, md]
  | cons v vs ih =>
    intro d
    simp only [colEvents, daysOf_append, daysOf_dayEvents hab, ih (d + 1), md]
    by_cases k1 : t = b
    · subst k1; simp only [if_true]; split <;> simp
    · by_cases k2 : t = a
      · subst k2; simp only [k1, if_true, if_false]; split <;> simp
      · simp [k1, k2]

theorem flatMap_two {α} (g : Nat → List α) {a b n : Nat} (hab : b < a) (han : a < n)
    (hg : ∀ t, t ≠ a → t ≠ b → g t = []) : (List.range n).flatMap g = g b ++ g a := by
  have key : ∀ m, (List.range m).flatMap g = (if b < m then g b else []) ++ (if a < m then g a else []) := by
    intro m
    induction m with
    | zero => simp
    | succ m ih =>
      rw [List.range_succ, List.flatMap_append, ih]
      simp only [List.flatMap_cons, List.flatMap_nil, List.append_nil]
      by_cases e1 : m = b
      · subst e1
        have h1 : ¬ a < m := by omega
        have h2 : ¬ a < m + 1 := by omega
        simp [h1, h2]
      · by_cases e2 : m = a
        · subst e2
          simp [hab, show b < m + 1 by omega]
        · rw [hg m e2 e1]
          have h1 : (b < m + 1) = (b < m) := by simp; omega
          have h2 : (a < m + 1) = (a < m) := by simp; omega
          simp [h1, h2]
  rw [key n]
  simp [show b < n by omega, han]

theorem daysOf_allEvents {a b n : Nat} (hab : b < a) (han : a < n) (p : Plan) :
    daysOf (tri a + b) (allEvents p n) = md a 0 (col p b) ++ md b 0 (col p a) := by
  have h1 : daysOf (tri a + b) (allEvents p n) =
      (List.range n).flatMap (fun t => daysOf (tri a + b) (colEvents t 0 (col p t))) := by
    simp [daysOf, allEvents, List.filter_flatMap, List.map_flatMap]
  rw [h1, flatMap_two _ hab han]
  · have hne : ¬ a = b := by omega
    simp [daysOf_colEvents hab, hne]
  · intro t h1 h2
    simp [daysOf_colEvents hab, h1, h2]

theorem md_eq_filter (o : Nat) (vs : List Int) : ∀ d,
    md o d vs = ((List.range vs.length).filter (fun i => (vs.getD i 0).natAbs = o + 1)).map (· + d) := by
  induction vs with
  | nil => intro d; simp [md]
  | cons v vs ih =>
    intro d
    simp only [md, List.length_cons, List.range_succ_eq_map, List.filter_cons, List.getD_cons_zero,
      List.filter_map, ih (d + 1)]
    have hf : ((fun i => decide (((v :: vs).getD i 0).natAbs = o + 1)) ∘ Nat.succ)
        = (fun i => decide ((vs.getD i 0).natAbs = o + 1)) := by
      funext i; simp
    rw [hf]
    have hm : ∀ (l : List Nat), List.map (fun x => x + d) (List.map Nat.succ l) = List.map (fun x => x + (d + 1)) l := by
      intro l; simp only [List.map_map]; apply List.map_congr_left; intro i _; simp; omega
    by_cases h : v.natAbs = o + 1
    · simp [h, hm]
    · simp [h, hm]

theorem md_col (p : Plan) (t o : Nat) : md o 0 (col p t) = meetingDays p t o := by
  rw [md_eq_filter]
  unfold meetingDays
  simp only [col_length, Nat.add_zero, List.map_id', col_getD]

theorem meetingDays_sorted (p : Plan) (t o : Nat) : List.Pairwise (· < ·) (meetingDays p t o) := by
  unfold meetingDays
  exact List.Pairwise.filter _ List.pairwise_lt_range

theorem allEvents_keys {n : Nat} {p : Plan} (hs : Shape n p) (k : Nat) (hk : k ≤ n) :
    ∀ e ∈ allEvents p k, e.1 < tri n := by
  have hcol : ∀ (t : Nat), t < n → ∀ (vs : List Int) (d : Nat), (∀ v ∈ vs, -(n : Int) ≤ v ∧ v ≤ n) →
      ∀ e ∈ colEvents t d vs, e.1 < tri n := by
    intro t ht vs
    induction vs with
    | nil => intro d _ e he; simp [colEvents] at he
    | cons v vs ih =>
      intro d hv e he
      simp only [colEvents, List.mem_append] at he
      rcases he with he | he
      · unfold dayEvents at he
        by_cases h0 : v = 0
        · simp [h0] at he
        · by_cases hto : t = opp v
          · simp [h0, hto] at he
          · simp only [h0, hto, if_false, List.mem_singleton] at he
            subst he
            have hv0 := hv v (by simp)
            exact pairIdx_lt ht (opp_lt h0 hv0.1 hv0.2) hto
      · exact ih (d + 1) (fun w hw => hv w (by simp [hw])) e he
  intro e he
  simp only [allEvents, List.mem_flatMap, List.mem_range] at he
  obtain ⟨t, ht, he⟩ := he
  exact hcol t (by omega) _ 0 (col_mem_range hs t) e he

/-! ### C4 (continued): one cell over sorted meeting days -/

theorem touch_pen (c : Cfg) (hc : c.smin ≤ c.smax) {last : Int} {d : Nat} (h0 : 0 ≤ last) (h1 : last < d) :
    (touch c last d).1 = d ∧ (touch c last d).2.1 + (touch c last d).2.2 = gapPenalty c (d - last - 1) := by
  have g0 : last ≥ 0 := h0
  by_cases h3 : (d : Int) - last - 1 < c.smin <;> by_cases h4 : (d : Int) - last - 1 > c.smax <;>
    simp [touch, g0, h1, h3, h4, gapPenalty, posPart] <;> (repeat' split) <;> omega

theorem touch_neg (c : Cfg) {last : Int} (d : Nat) (h0 : last < 0) : touch c last d = ((d : Int), 0, 0) := by
  have : ¬ last ≥ 0 := by omega
  simp [touch, this]

theorem touch_noop (c : Cfg) {last : Int} {d : Nat} (h0 : (d : Int) ≤ last) : touch c last d = (last, 0, 0) := by
  have g0 : last ≥ 0 := by omega
  have : ¬ last < d := by omega
  simp [touch, g0, this]

theorem touch_ge (c : Cfg) (last : Int) (d : Nat) : last ≤ (touch c last d).1 := by
  by_cases h1 : last ≥ 0 <;> by_cases h2 : last < d <;> by_cases h3 : (d : Int) - last - 1 < c.smin <;>
    by_cases h4 : (d : Int) - last - 1 > c.smax <;> simp [touch, h1, h2, h3, h4] <;> omega

theorem cellFold_ge (c : Cfg) (M : List Nat) : ∀ last, last ≤ (cellFold c last M).1 := by
  induction M with
  | nil => intro last; simp [cellFold]
  | cons m M ih =>
    intro last
    simp only [cellFold]
    have := ih (touch c last m).1
    have := touch_ge c last m
    omega

theorem cellFold_append (c : Cfg) (A B : List Nat) : ∀ last,
    cellFold c last (A ++ B) =
      ((cellFold c (cellFold c last A).1 B).1,
       (cellFold c last A).2.1 + (cellFold c (cellFold c last A).1 B).2.1,
       (cellFold c last A).2.2 + (cellFold c (cellFold c last A).1 B).2.2) := by
  induction A with
  | nil => intro last; simp [cellFold]
  | cons a A ih =>
    intro last
    simp only [List.cons_append, cellFold, ih]
    refine Prod.ext rfl (Prod.ext ?_ ?_) <;> simp <;> omega

theorem cellFold_noop (c : Cfg) (M : List Nat) : ∀ last, (∀ m ∈ M, (m : Int) ≤ last) →
    cellFold c last M = (last, 0, 0) := by
  induction M with
  | nil => intro last _; simp [cellFold]
  | cons m M ih =>
    intro last h
    have h1 := touch_noop c (h m (by simp))
    simp only [cellFold, h1]
    rw [ih last (fun m' hm' => h m' (by simp [hm']))]
    simp

def gapsFrom (last : Int) (M : List Nat) : List Int :=
  if last ≥ 0 then gaps (last.toNat :: M) else gaps M

theorem cellFold_sorted (c : Cfg) (hc : c.smin ≤ c.smax) (M : List Nat) : ∀ last,
    List.Pairwise (· < ·) M → (∀ m ∈ M, last < (m : Int)) →
    (cellFold c last M).2.1 + (cellFold c last M).2.2 = ((gapsFrom last M).map (gapPenalty c)).sum ∧
    ∀ m ∈ M, (m : Int) ≤ (cellFold c last M).1 := by
  induction M with
  | nil => intro last _ _; simp [cellFold, gapsFrom, gaps]
  | cons m M ih =>
    intro last hp hl
    rw [List.pairwise_cons] at hp
    have hlm := hl m (by simp)
    have ihm := ih (m : Int) hp.2 (fun m' hm' => by have := hp.1 m' hm'; omega)
    have hgf : gapsFrom (m : Int) M = gaps (m :: M) := by simp [gapsFrom]
    rw [hgf] at ihm
    simp only [cellFold]
    by_cases h0 : 0 ≤ last
    · have ht := touch_pen c hc h0 hlm
      rw [ht.1]
      refine ⟨?_, ?_⟩
      · have e : gapsFrom last (m :: M) = ((m : Int) - last - 1) :: gaps (m :: M) := by
          have : ((last.toNat : Nat) : Int) = last := by omega
          simp [gapsFrom, h0, gaps, this]
        rw [e]
        simp only [List.map_cons, List.sum_cons]
        omega
      · intro m' hm'
        simp only [List.mem_cons] at hm'
        rcases hm' with rfl | hm'
        · exact cellFold_ge c M _
        · exact ihm.2 m' hm'
    · have ht := touch_neg c m (show last < 0 by omega)
      rw [ht]
      refine ⟨?_, ?_⟩
      · have e : gapsFrom last (m :: M) = gaps (m :: M) := by simp [gapsFrom, h0]
        rw [e]; simp only []; omega
      · intro m' hm'
        simp only [List.mem_cons] at hm'
        rcases hm' with rfl | hm'
        · exact cellFold_ge c M _
        · exact ihm.2 m' hm'

/-- a pairing whose two teams list it on the same (sorted) days: the second team's column
takes the `continue` branch every time, the first one is charged the gap penalties -/
theorem cellFold_twice (c : Cfg) (hc : c.smin ≤ c.smax) (M : List Nat) (hp : List.Pairwise (· < ·) M) :
    (cellFold c (-1) (M ++ M)).2.1 + (cellFold c (-1) (M ++ M)).2.2 = ((gaps M).map (gapPenalty c)).sum := by
  have h1 := cellFold_sorted c hc M (-1) hp (fun m _ => by omega)
  have hg : gapsFrom (-1) M = gaps M := by simp [gapsFrom]
  rw [hg] at h1
  rw [cellFold_append, cellFold_noop c M _ h1.2]
  simp only []
  omega

/-! ### C4 (end): the separation total of a mutually consistent plan -/

theorem meetingDays_symm {n : Nat} {p : Plan} (_hs : Shape n p) (hc : Consistent n p) {a b : Nat}
    (ha : a < n) (hb : b < n) : meetingDays p a b = meetingDays p b a := by
  unfold meetingDays
  apply List.filter_congr
  intro d hd
  have hd' : d < p.length := by simpa using hd
  have key : ∀ x y, x < n → y < n → (cell p d x).natAbs = y + 1 → (cell p d y).natAbs = x + 1 := by
    intro x y hx hy h
    have hcx := hc d hd' x hx
    by_cases hpos : cell p d x > 0
    · have := hcx.1 hpos
      have ho : opp (cell p d x) = y := by unfold opp; omega
      rw [ho] at this; omega
    · have hneg : cell p d x < 0 := by omega
      have := hcx.2 hneg
      have ho : opp (cell p d x) = y := by unfold opp; omega
      rw [ho] at this; omega
  have : ((cell p d a).natAbs = b + 1) ↔ ((cell p d b).natAbs = a + 1) :=
    ⟨key a b ha hb, key b a hb ha⟩
  simp [this]

theorem sepCount_nonneg (c : Cfg) (p : Plan) (t o : Nat) : 0 ≤ sepCount c p t o := by
  unfold sepCount
  apply sum_map_nonneg
  intro g _
  unfold gapPenalty
  have := posPart_nonneg (c.smin - g); have := posPart_nonneg (g - c.smax); omega

theorem sep_total (n rounds : Nat) (c : Cfg) (p : Plan) (hcfg : c.smin ≤ c.smax)
    (hp : InSpace n rounds p) (hc : Consistent n p) :
    (pureErrs n rounds c p).sepMin + (pureErrs n rounds c p).sepMax =
      rsum n (fun a => rsum a (fun b => sepCount c p b a)) := by
  have hs : Shape n p := hp.2
  have hk := tableFold_keyed c (allEvents p n) (List.replicate (tri n) (-1))
    (fun e he => by simpa using allEvents_keys hs n (Nat.le_refl n) e he)
  simp only [pureErrs, hk.1, hk.2, List.length_replicate]
  rw [← rsum_add, rsum_tri]
  apply rsum_congr; intro a ha; apply rsum_congr; intro b hb
  have hlt : tri a + b < tri n := by
    have := tri_succ a; have := tri_mono (show a + 1 ≤ n by omega); omega
  have hget : (List.replicate (tri n) (-1 : Int)).getD (tri a + b) (-1) = -1 := by
    simp [List.getD_eq_getElem?_getD, hlt]
  rw [hget, daysOf_allEvents hb ha p, md_col, md_col, meetingDays_symm hs hc ha (show b < n by omega)]
  exact cellFold_twice c hcfg _ (meetingDays_sorted p b a)

theorem sum_pairs (n : Nat) (f : Nat × Nat → Int) :
    ((pairs n).map f).sum = rsum n (fun i => rsum i (fun j => f (i, j))) := by
  induction n with
  | zero => simp [pairs, rsum_zero]
  | succ n ih =>
    have : pairs (n + 1) = pairs n ++ (List.range n).map (fun j => (n, j)) := by
      simp [pairs, List.range_succ, List.flatMap_append]
    rw [this, List.map_append, List.sum_append, ih, rsum_succ]
    simp [rsum, List.map_map, Function.comp_def]

/-! ### C5 pair counts of a mutually consistent plan -/

theorem home_away {n : Nat} {p : Plan} (hc : Consistent n p) {i j : Nat} (hi : i < n) (hj : j < n) :
    homeGames p j i = awayGames p i j := by
  unfold homeGames awayGames col
  rw [List.count_eq_countP, List.count_eq_countP, List.countP_map, List.countP_map]
  apply List.countP_congr
  intro row hrow
  obtain ⟨d, hd, rfl⟩ := List.getElem_of_mem hrow
  have cellEq : ∀ t, cell p d t = (p[d]).getD t 0 := by
    intro t; simp [cell, List.getD_eq_getElem?_getD, List.getElem?_eq_getElem hd]
  simp only [Function.comp, beq_iff_eq, ← cellEq]
  constructor
  · intro h
    have := (hc d hd j hj).1 (by omega)
    have ho : opp (cell p d j) = i := by unfold opp; omega
    rw [ho] at this; omega
  · intro h
    have := (hc d hd i hi).2 (by omega)
    have ho : opp (cell p d i) = j := by unfold opp; omega
    rw [ho] at this; omega

/-- the closed form of the kernel equals the documented count on mutually consistent plans -/
theorem pureErrs_total_doc (n rounds : Nat) (c : Cfg) (p : Plan) (hh : 1 ≤ c.hmax) (ha : 1 ≤ c.amax)
    (hcfg : c.smin ≤ c.smax) (hp : InSpace n rounds p) (hc : Consistent n p) :
    (pureErrs n rounds c p).total = documentedCount n rounds c p := by
  have hsep := sep_total n rounds c p hcfg hp hc
  have hinc : (pureErrs n rounds c p).incons = 0 := (incons_zero_iff n p).mpr hc
  have hbye : (pureErrs n rounds c p).bye
      = ((List.range n).map (fun t => ((col p t).count 0 : Int))).sum := by
    simp only [pureErrs]; exact rsum_congr (fun t _ => count0_eq _)
  have hstreak : (pureErrs n rounds c p).streakMax + (pureErrs n rounds c p).streakMin
      = ((List.range n).map (fun t => streakCount c (col p t))).sum := by
    simp only [pureErrs]
    rw [← rsum_add]
    apply rsum_congr; intro t _
    have := streakCol_eq c hh ha (col p t)
    unfold SE at this; omega
  have hpc : (pureErrs n rounds c p).pairCount
      = ((pairs n).map (fun ij =>
          ((((homeGames p ij.1 ij.2 : Int) + awayGames p ij.1 ij.2) - rounds).natAbs : Int))).sum := by
    rw [sum_pairs]
    simp only [pureErrs]
    apply rsum_congr; intro i hi; apply rsum_congr; intro j hj
    rw [← home_away hc hi (show j < n by omega)]
    simp [pairTerm]
  have hbal : (pureErrs n rounds c p).balance
      = ((pairs n).map (fun ij =>
          posPart ((((homeGames p ij.1 ij.2 : Int) - homeGames p ij.2 ij.1).natAbs : Int) - 1))).sum := by
    rw [sum_pairs]
    simp only [pureErrs]
    apply rsum_congr; intro i hi; apply rsum_congr; intro j hj
    simp only [pairTerm, posPart]
    split <;> split <;> omega
  have hsep' : rsum n (fun a => rsum a (fun b => sepCount c p b a))
      = ((pairs n).map (fun ij => sepCount c p ij.2 ij.1)).sum := by rw [sum_pairs]
  unfold Errs.total documentedCount
  rw [← hbye, ← hstreak, ← hsep', ← hsep, ← hpc, ← hbal]
  omega

theorem pureErrs_nonneg (n rounds : Nat) (c : Cfg) (p : Plan) (hn : 2 ≤ n) (hp : InSpace n rounds p) :
    (pureErrs n rounds c p).NonNeg := by
  have := countErrs?_eq n rounds c p (List.replicate (n * (n - 1) / 2) 0)
    (List.replicate n (List.replicate n 0)) hn hp
    ⟨by simp, by simp, by intro r hr; rw [List.mem_replicate] at hr; simp [hr.2]⟩
  exact countErrs?_nonneg this

/-! ### the documented count is zero exactly for feasible schedules -/

theorem doc_rsum (n rounds : Nat) (c : Cfg) (p : Plan) :
    documentedCount n rounds c p =
      rsum n (fun t => count0 (col p t)) + rsum n (fun t => streakCount c (col p t))
      + rsum n (fun i => rsum i (fun j => sepCount c p j i))
      + rsum n (fun i => rsum i (fun j =>
          posPart ((((homeGames p i j : Int) - homeGames p j i).natAbs : Int) - 1)))
      + rsum n (fun i => rsum i (fun j =>
          ((((homeGames p i j : Int) + awayGames p i j) - rounds).natAbs : Int))) := by
  unfold documentedCount
  rw [sum_pairs, sum_pairs, sum_pairs]
  have : rsum n (fun t => count0 (col p t)) = ((List.range n).map (fun t => ((col p t).count 0 : Int))).sum :=
    rsum_congr (fun t _ => count0_eq _)
  rw [this]
  rfl

theorem gapPenalty_eq_zero (c : Cfg) (g : Int) : gapPenalty c g = 0 ↔ c.smin ≤ g ∧ g ≤ c.smax := by
  unfold gapPenalty
  have := posPart_nonneg (c.smin - g); have := posPart_nonneg (g - c.smax)
  have := posPart_eq_zero (c.smin - g); have := posPart_eq_zero (g - c.smax)
  omega

theorem sepCount_eq_zero (c : Cfg) (p : Plan) (t o : Nat) : sepCount c p t o = 0 ↔ SeparationOk c p t o := by
  unfold sepCount SeparationOk
  rw [sum_map_eq_zero_iff]
  · constructor
    · intro h g hg; exact (gapPenalty_eq_zero c g).mp (h g hg)
    · intro h g hg; exact (gapPenalty_eq_zero c g).mpr (h g hg)
  · intro g _
    unfold gapPenalty
    have := posPart_nonneg (c.smin - g); have := posPart_nonneg (g - c.smax); omega

theorem doc_zero_iff (n rounds : Nat) (c : Cfg) (p : Plan) :
    documentedCount n rounds c p = 0 ↔
      NoBye n p ∧ (∀ t < n, StreaksOk c (col p t)) ∧ (∀ i < n, ∀ j < i, SeparationOk c p j i) ∧
      (∀ i < n, ∀ j < i, ((homeGames p i j : Int) - homeGames p j i).natAbs ≤ 1 ∧
                         homeGames p i j + awayGames p i j = rounds) := by
  rw [doc_rsum]
  have n1 : 0 ≤ rsum n (fun t => count0 (col p t)) := rsum_nonneg (fun t _ => count0_nonneg _)
  have n2 : 0 ≤ rsum n (fun t => streakCount c (col p t)) := rsum_nonneg (fun t _ => streakCount_nonneg _ _)
  have n3 : 0 ≤ rsum n (fun i => rsum i (fun j => sepCount c p j i)) :=
    rsum_nonneg (fun i _ => rsum_nonneg (fun j _ => sepCount_nonneg _ _ _ _))
  have n4 : 0 ≤ rsum n (fun i => rsum i (fun j =>
      posPart ((((homeGames p i j : Int) - homeGames p j i).natAbs : Int) - 1))) :=
    rsum_nonneg (fun i _ => rsum_nonneg (fun j _ => posPart_nonneg _))
  have n5 : 0 ≤ rsum n (fun i => rsum i (fun j =>
      ((((homeGames p i j : Int) + awayGames p i j) - rounds).natAbs : Int))) :=
    rsum_nonneg (fun i _ => rsum_nonneg (fun j _ => by omega))
  have e1 := bye_zero_iff n p
  have e2 : rsum n (fun t => streakCount c (col p t)) = 0 ↔ ∀ t < n, StreaksOk c (col p t) := by
    rw [rsum_eq_zero_iff (fun t _ => streakCount_nonneg _ _)]
    exact ⟨fun h t ht => (streakCount_eq_zero _ _).mp (h t ht), fun h t ht => (streakCount_eq_zero _ _).mpr (h t ht)⟩
  have e3 : rsum n (fun i => rsum i (fun j => sepCount c p j i)) = 0 ↔ ∀ i < n, ∀ j < i, SeparationOk c p j i := by
    rw [rsum_eq_zero_iff (fun i _ => rsum_nonneg (fun j _ => sepCount_nonneg _ _ _ _))]
    constructor
    · intro h i hi j hj
      exact (sepCount_eq_zero _ _ _ _).mp ((rsum_eq_zero_iff (fun j _ => sepCount_nonneg _ _ _ _)).mp (h i hi) j hj)
    · intro h i hi
      exact (rsum_eq_zero_iff (fun j _ => sepCount_nonneg _ _ _ _)).mpr
        (fun j hj => (sepCount_eq_zero _ _ _ _).mpr (h i hi j hj))
  have e4 : rsum n (fun i => rsum i (fun j =>
      posPart ((((homeGames p i j : Int) - homeGames p j i).natAbs : Int) - 1))) = 0 ↔
      ∀ i < n, ∀ j < i, ((homeGames p i j : Int) - homeGames p j i).natAbs ≤ 1 := by
    rw [rsum_eq_zero_iff (fun i _ => rsum_nonneg (fun j _ => posPart_nonneg _))]
    constructor
    · intro h i hi j hj
      have := (rsum_eq_zero_iff (fun j _ => posPart_nonneg _)).mp (h i hi) j hj
      rw [posPart_eq_zero] at this; omega
    · intro h i hi
      exact (rsum_eq_zero_iff (fun j _ => posPart_nonneg _)).mpr
        (fun j hj => (posPart_eq_zero _).mpr (by have := h i hi j hj; omega))
  have e5 : rsum n (fun i => rsum i (fun j =>
      ((((homeGames p i j : Int) + awayGames p i j) - rounds).natAbs : Int))) = 0 ↔
      ∀ i < n, ∀ j < i, homeGames p i j + awayGames p i j = rounds := by
    rw [rsum_eq_zero_iff (fun i _ => rsum_nonneg (fun j _ => by omega))]
    constructor
    · intro h i hi j hj
      have := (rsum_eq_zero_iff (fun j _ => by omega)).mp (h i hi) j hj
      omega
    · intro h i hi
      exact (rsum_eq_zero_iff (fun j _ => by omega)).mpr (fun j hj => by have := h i hi j hj; omega)
  constructor
  · intro h
    refine ⟨e1.mp (by omega), e2.mp (by omega), e3.mp (by omega), ?_⟩
    intro i hi j hj
    exact ⟨e4.mp (by omega) i hi j hj, e5.mp (by omega) i hi j hj⟩
  · rintro ⟨h1, h2, h3, h4⟩
    have := e1.mpr h1; have := e2.mpr h2; have := e3.mpr h3
    have := e4.mpr (fun i hi j hj => (h4 i hi j hj).1)
    have := e5.mpr (fun i hi j hj => (h4 i hi j hj).2)
    omega

/-- for mutually consistent plans the pair-wise conditions over `j < i` are the symmetric ones -/
theorem feasible_iff_doc_conditions (n rounds : Nat) (c : Cfg) (p : Plan) (hp : InSpace n rounds p)
    (hc : Consistent n p) :
    (NoBye n p ∧ (∀ t < n, StreaksOk c (col p t)) ∧ (∀ i < n, ∀ j < i, SeparationOk c p j i) ∧
      (∀ i < n, ∀ j < i, ((homeGames p i j : Int) - homeGames p j i).natAbs ≤ 1 ∧
                         homeGames p i j + awayGames p i j = rounds)) ↔ FeasiblePlan n rounds c p := by
  have hs : Shape n p := hp.2
  unfold FeasiblePlan
  constructor
  · rintro ⟨h1, h2, h3, h4⟩
    refine ⟨h1, hc, h2, ?_, ?_⟩
    · intro t ht o ho hne
      rcases Nat.lt_or_gt_of_ne hne with h | h
      · exact h3 o ho t h
      · unfold SeparationOk
        rw [meetingDays_symm hs hc ht ho]
        exact h3 t ht o h
    · intro t ht o ho hne
      rcases Nat.lt_or_gt_of_ne hne with h | h
      · have := h4 o ho t h
        have e1 := home_away hc ho ht   -- homeGames p t o = awayGames p o t
        have e2 := home_away hc ht ho   -- homeGames p o t = awayGames p t o
        omega
      · have := h4 t ht o h
        have e2 := home_away hc ht ho
        omega
  · rintro ⟨h1, _, h2, h3, h4⟩
    refine ⟨h1, h2, ?_, ?_⟩
    · intro i hi j hj
      exact h3 j (by omega) i hi (by omega)
    · intro i hi j hj
      have := h4 i hi j (by omega) (by omega)
      have e2 := home_away hc hi (show j < n by omega)
      omega

/-! ## D. the declared upper bound on the class where it holds -/

/-! ### D1 one column: byes + streak violations ≤ number of days -/

def runLen (R : List (Int × Nat)) : Int := (R.map (fun r => (r.2 : Int))).sum
def zeroLen (R : List (Int × Nat)) : Int := (R.map (fun r => if r.1 = 0 then (r.2 : Int) else 0)).sum

theorem runLen_push (σ : Int) (k : Nat) (R : List (Int × Nat)) : runLen (pushRun σ k R) = k + runLen R := by
  cases R with
  | nil => simp [pushRun, runLen]
  | cons r rest =>
    obtain ⟨s', j⟩ := r
    by_cases h : σ = s'
    · subst h; simp [pushRun, runLen]; omega
    · simp [pushRun, h, runLen]

theorem zeroLen_push (σ : Int) (k : Nat) (R : List (Int × Nat)) :
    zeroLen (pushRun σ k R) = (if σ = 0 then (k : Int) else 0) + zeroLen R := by
  cases R with
  | nil => simp [pushRun, zeroLen]
  | cons r rest =>
    obtain ⟨s', j⟩ := r
    by_cases h : σ = s'
    · subst h
      by_cases h0 : σ = 0
      · simp [pushRun, zeroLen, h0]; omega
      · simp [pushRun, zeroLen, h0]
    · simp [pushRun, h, zeroLen]

theorem runs_len (vs : List Int) : runLen (runs vs) = vs.length := by
  induction vs with
  | nil => simp [runs, runLen]
  | cons v vs ih => simp only [runs, runLen_push, ih, List.length_cons]; omega

theorem runs_zero (vs : List Int) : zeroLen (runs vs) = count0 vs := by
  induction vs with
  | nil => simp [runs, zeroLen, count0]
  | cons v vs ih =>
    simp only [runs, zeroLen_push, ih, count0]
    rcases kind_cases v with ⟨hv, hk⟩ | ⟨hv, hk⟩ | ⟨hv, hk⟩
    · subst hv; simp [kind]
    · have : v ≠ 0 := by omega
      simp [hk, this]
    · have : v ≠ 0 := by omega
      simp [hk, this]

theorem pushRun_pos {σ : Int} {k : Nat} (hk : 1 ≤ k) {R : List (Int × Nat)} (hR : ∀ r ∈ R, 1 ≤ r.2) :
    ∀ r ∈ pushRun σ k R, 1 ≤ r.2 := by
  cases R with
  | nil => intro r hr; simp [pushRun] at hr; subst hr; exact hk
  | cons r0 rest =>
    obtain ⟨s', j⟩ := r0
    by_cases h : σ = s'
    · subst h
      intro r hr
      simp only [pushRun, if_true, List.mem_cons] at hr
      rcases hr with rfl | hr
      · simp; omega
      · exact hR r (by simp [hr])
    · intro r hr
      simp only [pushRun, h, if_false, List.mem_cons] at hr
      rcases hr with rfl | rfl | hr
      · exact hk
      · exact hR _ (by simp)
      · exact hR r (by simp [hr])

theorem runs_pos (vs : List Int) : ∀ r ∈ runs vs, 1 ≤ r.2 := by
  induction vs with
  | nil => simp [runs]
  | cons v vs ih => simp only [runs]; exact pushRun_pos (Nat.le_refl 1) ih

theorem runs_ne_nil {vs : List Int} (h : vs ≠ []) : runs vs ≠ [] := by
  cases vs with
  | nil => exact absurd rfl h
  | cons v vs =>
    simp only [runs]
    obtain ⟨j, rest, hr⟩ := pushRun_head (kind v) 1 (runs vs)
    rw [hr]; simp

/-- with both streak minima `≤ 1` a block of `k ≥ 1` days costs at most `k - 1`, and a block of days
without game costs exactly its length in rule-2 errors -/
theorem runPenalty_le (c : Cfg) (h1 : c.hmin ≤ 1) (h2 : 1 ≤ c.hmax) (h3 : c.amin ≤ 1) (h4 : 1 ≤ c.amax)
    (r : Int × Nat) (hr : 1 ≤ r.2) : runPenalty c r ≤ r.2 - 1 := by
  obtain ⟨σ, k⟩ := r
  simp only [runPenalty, posPart]
  simp only [] at hr
  repeat' split
  all_goals omega

theorem col_bound (c : Cfg) (h1 : c.hmin ≤ 1) (h2 : 1 ≤ c.hmax) (h3 : c.amin ≤ 1) (h4 : 1 ≤ c.amax)
    (vs : List Int) :
    count0 vs + streakCount c vs ≤ vs.length ∧ (vs ≠ [] → streakCount c vs ≤ (vs.length : Int) - 1) := by
  have hpos := runs_pos vs
  have key : ∀ (R : List (Int × Nat)), (∀ r ∈ R, 1 ≤ r.2) →
      zeroLen R + runSum c R ≤ runLen R ∧ (R ≠ [] → runSum c R ≤ runLen R - 1) ∧ runSum c R ≤ runLen R := by
    intro R
    induction R with
    | nil => intro _; simp [zeroLen, runSum, runLen]
    | cons r R ih =>
      intro hR
      have hr := hR r (by simp)
      have ih' := ih (fun x hx => hR x (by simp [hx]))
      have hp := runPenalty_le c h1 h2 h3 h4 r hr
      have hz : (if r.1 = 0 then (r.2 : Int) else 0) + runPenalty c r ≤ r.2 := by
        by_cases h0 : r.1 = 0
        · have : runPenalty c r = 0 := by
            obtain ⟨σ, k⟩ := r; simp only [] at h0; subst h0; exact runPenalty_zero c k
          simp [h0, this]
        · simp only [h0, if_false]; omega
      simp only [zeroLen, runSum, runLen, List.map_cons, List.sum_cons] at ih' ⊢
      refine ⟨by omega, fun _ => by omega, by omega⟩
  have hk := key (runs vs) hpos
  rw [runs_len, runs_zero] at hk
  refine ⟨by simpa [streakCount, runSum] using hk.1, fun hne => ?_⟩
  have := hk.2.1 (runs_ne_nil hne)
  simpa [streakCount, runSum] using this

/-! ### D2 one pairing: separation violations ≤ number of meetings -/

theorem gaps_length (M : List Nat) : ((gaps M).length : Int) ≤ M.length := by
  induction M with
  | nil => simp [gaps]
  | cons a M ih =>
    cases M with
    | nil => simp [gaps]
    | cons b M => simp only [gaps, List.length_cons] at ih ⊢; omega

theorem gaps_range (D : Nat) (M : List Nat) (hp : List.Pairwise (· < ·) M) (hD : ∀ m ∈ M, m < D) :
    ∀ g ∈ gaps M, 0 ≤ g ∧ g ≤ (D : Int) - 2 := by
  induction M with
  | nil => simp [gaps]
  | cons a M ih =>
    cases M with
    | nil => simp [gaps]
    | cons b M =>
      rw [List.pairwise_cons] at hp
      intro g hg
      simp only [gaps, List.mem_cons] at hg
      rcases hg with rfl | hg
      · have := hp.1 b (by simp)
        have := hD b (by simp)
        omega
      · exact ih hp.2 (fun m hm => hD m (by simp [hm])) g (by simpa [gaps] using hg)

theorem sepCount_le (c : Cfg) (p : Plan) (t o : Nat) (h1 : c.smin ≤ 1) (h2 : (p.length : Int) - 2 ≤ c.smax) :
    sepCount c p t o ≤ (meetingDays p t o).length := by
  have hr := gaps_range p.length (meetingDays p t o) (meetingDays_sorted p t o)
    (fun m hm => by unfold meetingDays at hm; simp at hm; exact hm.1)
  have hl := gaps_length (meetingDays p t o)
  have key : ∀ (L : List Int), (∀ g ∈ L, 0 ≤ g ∧ g ≤ (p.length : Int) - 2) →
      (L.map (gapPenalty c)).sum ≤ L.length := by
    intro L
    induction L with
    | nil => simp
    | cons g L ih =>
      intro hL
      have hg := hL g (by simp)
      have := ih (fun x hx => hL x (by simp [hx]))
      have : gapPenalty c g ≤ 1 := by
        simp only [gapPenalty, posPart]; repeat' split
        all_goals omega
      simp only [List.map_cons, List.sum_cons, List.length_cons]; omega
  have := key _ hr
  unfold sepCount; omega

theorem md_length (o : Nat) (vs : List Int) : ∀ d,
    (md o d vs).length = vs.count ((o : Int) + 1) + vs.count (-((o : Int) + 1)) := by
  induction vs with
  | nil => intro d; simp [md]
  | cons v vs ih =>
    intro d
    simp only [md, List.count_cons]
    by_cases h : v.natAbs = o + 1
    · simp only [h, if_true, List.length_cons, ih (d + 1)]
      by_cases hp : v = (o : Int) + 1
      · have e : ¬ (o : Int) + 1 = -((o : Int) + 1) := by omega
        subst hp
        simp [e]; omega
      · have hn : v = -((o : Int) + 1) := by omega
        have e : ¬ -((o : Int) + 1) = (o : Int) + 1 := by omega
        subst hn
        simp [e]; omega
    · have e1 : ¬ v = (o : Int) + 1 := by omega
      have e2 : ¬ v = -((o : Int) + 1) := by omega
      simp [h, ih (d + 1), e1, e2]

theorem meetingDays_length (p : Plan) (t o : Nat) :
    (meetingDays p t o).length = homeGames p t o + awayGames p t o := by
  rw [← md_col, md_length]; rfl

/-! ### D3 double counting: every game is seen by both of its teams -/

theorem rsum_comm (m n : Nat) (g : Nat → Nat → Int) :
    rsum m (fun i => rsum n (fun j => g i j)) = rsum n (fun j => rsum m (fun i => g i j)) := by
  induction m with
  | zero => simp [rsum_zero, rsum_const_zero]
  | succ m ih =>
    rw [rsum_succ, ih, ← rsum_add]
    apply rsum_congr; intro j _; rw [rsum_succ]

theorem rsum_indicator (f : Nat → Int) (n : Nat) : ∀ i, i ≤ n →
    rsum i f = rsum n (fun j => if j < i then f j else 0) := by
  induction n with
  | zero => intro i hi; have : i = 0 := by omega
            subst this; simp [rsum_zero]
  | succ n ih =>
    intro i hi
    rw [rsum_succ]
    by_cases e : i = n + 1
    · subst e
      rw [rsum_succ]
      have : rsum n (fun j => if j < n + 1 then f j else 0) = rsum n f :=
        rsum_congr (fun j hj => by simp [show j < n + 1 by omega])
      rw [this]; simp
    · rw [← ih i (by omega)]
      have : ¬ n < i := by omega
      simp [this]

/-- sum over the pairs `j < i < n`, seen from the smaller index -/
theorem rsum_triangle_swap (n : Nat) (f : Nat → Nat → Int) :
    rsum n (fun i => rsum i (fun j => f i j)) =
      rsum n (fun j => rsum n (fun i => if j < i then f i j else 0)) := by
  have : rsum n (fun i => rsum i (fun j => f i j))
      = rsum n (fun i => rsum n (fun j => if j < i then f i j else 0)) :=
    rsum_congr (fun i hi => rsum_indicator (fun j => f i j) n i (by omega))
  rw [this, rsum_comm]

theorem indicator_sum (v : Int) (n : Nat) :
    rsum n (fun o => (if v = (o : Int) + 1 then 1 else 0) + (if v = -((o : Int) + 1) then 1 else 0))
      = if v ≠ 0 ∧ v.natAbs ≤ n then 1 else 0 := by
  induction n with
  | zero =>
    have : ¬ (v ≠ 0 ∧ v.natAbs ≤ 0) := by omega
    simp [rsum_zero]
  | succ n ih =>
    rw [rsum_succ, ih]
    by_cases a1 : v = (n : Int) + 1 <;> by_cases a2 : v = -((n : Int) + 1) <;>
      by_cases a3 : (v ≠ 0 ∧ v.natAbs ≤ n) <;> by_cases a4 : (v ≠ 0 ∧ v.natAbs ≤ n + 1) <;>
      simp only [a1, a2, a3, a4, if_true, if_false] <;> omega

def oppCount (vs : List Int) (o : Nat) : Int := (vs.count ((o : Int) + 1) : Int) + vs.count (-((o : Int) + 1))

theorem oppCount_sum (n : Nat) (vs : List Int) : rsum n (oppCount vs) + count0 vs ≤ vs.length := by
  induction vs with
  | nil =>
    have : oppCount [] = fun _ => 0 := by funext o; simp [oppCount]
    rw [this, rsum_const_zero]; simp [count0]
  | cons v vs ih =>
    have e : rsum n (oppCount (v :: vs)) = rsum n (oppCount vs)
        + rsum n (fun o => (if v = (o : Int) + 1 then 1 else 0) + (if v = -((o : Int) + 1) then 1 else 0)) := by
      rw [← rsum_add]
      apply rsum_congr; intro o _
      simp only [oppCount, List.count_cons, beq_iff_eq]
      repeat' split
      all_goals omega
    rw [e, indicator_sum]
    simp only [count0, List.length_cons]
    by_cases h0 : v = 0
    · have : ¬ (v ≠ 0 ∧ v.natAbs ≤ n) := by omega
      simp only [h0, if_true]; omega
    · simp only [h0, if_false]
      split <;> omega

theorem rsum_const (k : Nat) (x : Int) : rsum k (fun _ => x) = k * x := by
  induction k with
  | zero => simp [rsum_zero]
  | succ k ih =>
    rw [rsum_succ, ih]
    have : ((k + 1 : Nat) : Int) * x = k * x + x := by
      rw [Int.natCast_add, Int.add_mul]; simp
    omega

theorem rsum_tri_const (n : Nat) (x : Int) : rsum n (fun i => rsum i (fun _ => x)) = tri n * x := by
  induction n with
  | zero => simp [rsum_zero, tri]
  | succ n ih =>
    rw [rsum_succ, ih, rsum_const, tri_succ, Int.natCast_add, Int.add_mul]

theorem two_tri (n : Nat) : 2 * tri n = n * (n - 1) := by
  induction n with
  | zero => simp [tri]
  | succ n ih =>
    rw [tri_succ, Nat.mul_add, ih]
    cases n with
    | zero => simp
    | succ m =>
      simp only [Nat.add_sub_cancel]
      rw [Nat.mul_comm 2 (m + 1), ← Nat.mul_add]
      exact Nat.mul_comm _ _

/-! ### D4 the bound -/

theorem oppCount_nonneg (vs : List Int) (o : Nat) : 0 ≤ oppCount vs o := by unfold oppCount; omega

theorem oppCount_col (p : Plan) (t o : Nat) :
    oppCount (col p t) o = (homeGames p t o : Int) + awayGames p t o := rfl

theorem doc_le_upper (n rounds : Nat) (c : Cfg) (p : Plan) (hn : 2 ≤ n) (hr : 1 ≤ rounds)
    (hp : InSpace n rounds p) (hc : Consistent n p) (h1 : c.hmin ≤ 1) (h2 : 1 ≤ c.hmax) (h3 : c.amin ≤ 1)
    (h4 : 1 ≤ c.amax) (h5 : c.smin ≤ 1) (h6 : (((n - 1) * rounds : Nat) : Int) - 2 ≤ c.smax) :
    documentedCount n rounds c p ≤ upperBound n rounds := by
  obtain ⟨hlen, hrows⟩ := hp
  rw [← hlen] at h6
  -- abbreviations
  have hH : ∃ H : Int, H = rsum n (fun i => rsum i (fun j => (homeGames p i j : Int) + homeGames p j i)) := ⟨_, rfl⟩
  obtain ⟨H, hHdef⟩ := hH
  have hcol : ∀ t, ((col p t).length : Int) = p.length := fun t => by rw [col_length]
  -- (i) byes + streaks
  have hA : rsum n (fun t => count0 (col p t)) + rsum n (fun t => streakCount c (col p t)) ≤ n * (p.length : Int) := by
    rw [← rsum_add, ← rsum_const]
    apply rsum_le; intro t _
    have := (col_bound c h1 h2 h3 h4 (col p t)).1
    rw [hcol] at this; exact this
  have hA' : 1 ≤ p.length → rsum n (fun t => streakCount c (col p t)) ≤ n * ((p.length : Int) - 1) := by
    intro hD
    rw [← rsum_const]
    apply rsum_le; intro t _
    have hne : col p t ≠ [] := by
      intro h; have := col_length p t; rw [h] at this; simp at this; omega
    have := (col_bound c h1 h2 h3 h4 (col p t)).2 hne
    rw [hcol] at this; exact this
  have hS2 : 0 ≤ rsum n (fun t => streakCount c (col p t)) := rsum_nonneg (fun t _ => streakCount_nonneg _ _)
  -- (ii) separation
  have hS3 : rsum n (fun i => rsum i (fun j => sepCount c p j i)) ≤ H := by
    rw [hHdef]
    apply rsum_le; intro i hi; apply rsum_le; intro j hj
    have hjn : j < n := by omega
    have := sepCount_le c p j i h5 h6
    rw [meetingDays_length] at this
    have e := home_away hc hjn hi   -- homeGames p i j = awayGames p j i
    omega
  -- (iii) balance
  have hS4 : rsum n (fun i => rsum i (fun j =>
      posPart ((((homeGames p i j : Int) - homeGames p j i).natAbs : Int) - 1))) ≤ H := by
    rw [hHdef]
    apply rsum_le; intro i _; apply rsum_le; intro j _
    simp only [posPart]; split <;> omega
  -- (iv) pair counts
  have hS5 : rsum n (fun i => rsum i (fun j =>
      ((((homeGames p i j : Int) + awayGames p i j) - rounds).natAbs : Int))) ≤ H + tri n * (rounds : Int) := by
    rw [hHdef, ← rsum_tri_const, ← rsum_add]
    apply rsum_le; intro i hi
    rw [← rsum_add]
    apply rsum_le; intro j hj
    have e := home_away hc hi (show j < n by omega)   -- homeGames p j i = awayGames p i j
    omega
  -- (v) every game is seen by both of its teams
  have hV : 2 * H ≤ n * (p.length : Int) - rsum n (fun t => count0 (col p t)) := by
    have e1 : H = rsum n (fun t => rsum n (fun o => if o < t then oppCount (col p t) o else 0)) := by
      rw [hHdef]
      apply rsum_congr; intro i hi
      rw [← rsum_indicator (fun o => oppCount (col p i) o) n i (by omega)]
      apply rsum_congr; intro j hj
      have e := home_away hc hi (show j < n by omega)
      rw [oppCount_col]; omega
    have e2 : H = rsum n (fun t => rsum n (fun o => if t < o then oppCount (col p t) o else 0)) := by
      rw [hHdef, ← rsum_triangle_swap n (fun i j => oppCount (col p j) i)]
      apply rsum_congr; intro i hi; apply rsum_congr; intro j hj
      have e := home_away hc (show j < n by omega) hi
      rw [oppCount_col]; omega
    have e3 : 2 * H = rsum n (fun t => rsum n (fun o =>
        (if o < t then oppCount (col p t) o else 0) + (if t < o then oppCount (col p t) o else 0))) := by
      have : ∀ t, rsum n (fun o => (if o < t then oppCount (col p t) o else 0) + (if t < o then oppCount (col p t) o else 0))
          = rsum n (fun o => if o < t then oppCount (col p t) o else 0)
            + rsum n (fun o => if t < o then oppCount (col p t) o else 0) := fun t => rsum_add _ _ _
      rw [rsum_congr (fun t _ => this t), rsum_add, ← e1, ← e2]; omega
    have e4 : rsum n (fun t => rsum n (fun o =>
        (if o < t then oppCount (col p t) o else 0) + (if t < o then oppCount (col p t) o else 0)))
        ≤ rsum n (fun t => (p.length : Int) - count0 (col p t)) := by
      apply rsum_le; intro t _
      have h := oppCount_sum n (col p t)
      rw [hcol] at h
      have : rsum n (fun o => (if o < t then oppCount (col p t) o else 0) + (if t < o then oppCount (col p t) o else 0))
          ≤ rsum n (oppCount (col p t)) := by
        apply rsum_le; intro o _
        have := oppCount_nonneg (col p t) o
        split <;> split <;> omega
      omega
    have e5 : rsum n (fun t => (p.length : Int) - count0 (col p t))
        = n * (p.length : Int) - rsum n (fun t => count0 (col p t)) := by
      have := rsum_add n (fun t => (p.length : Int) - count0 (col p t)) (fun t => count0 (col p t))
      have h2 : rsum n (fun t => (p.length : Int) - count0 (col p t) + count0 (col p t)) = n * (p.length : Int) := by
        rw [← rsum_const]; apply rsum_congr; intro t _; omega
      omega
    omega
  have hS1 : 0 ≤ rsum n (fun t => count0 (col p t)) := rsum_nonneg (fun t _ => count0_nonneg _)
  -- the arithmetic
  have hT : 2 * ((tri n : Int) * rounds) = n * (p.length : Int) := by
    have := two_tri n
    rw [hlen]
    have e : ((2 * tri n : Nat) : Int) * rounds = ((n * (n - 1) : Nat) : Int) * rounds := by rw [this]
    rw [Int.natCast_mul, Int.natCast_mul] at e
    rw [Int.natCast_mul, ← Int.mul_assoc, ← Int.mul_assoc]
    simpa using e
  have hUB : upperBound n rounds = 4 * ((n : Int) * p.length) - n - 1 := by
    unfold upperBound
    rw [hlen, Int.natCast_mul, Int.natCast_sub (by omega : 1 ≤ n)]
    rw [Int.sub_mul, Int.mul_assoc, Int.mul_comm _ (n : Int)]
    simp
  rw [doc_rsum, hUB]
  have hDpos : 1 ≤ p.length := by
    rw [hlen]; exact Nat.mul_pos (by omega) hr
  by_cases hD2 : 2 ≤ p.length
  · have hX : (n : Int) * 2 ≤ n * (p.length : Int) := by
      have : n * 2 ≤ n * p.length := Nat.mul_le_mul_left n hD2
      have := Int.ofNat_le.mpr this
      simpa [Int.natCast_mul] using this
    omega
  · have hD1 : p.length = 1 := by omega
    have := hA' hDpos
    rw [hD1] at this hV hA hT ⊢
    simp only [Int.natCast_one, Int.sub_self, Int.mul_zero, Int.mul_one] at this hV hA hT ⊢
    omega

end TtpErrors
