import Model.TtpErrors
import Proofs.ListLemmas
/-!
Helper lemmas for C07 (core Lean only).

* A  triangular pair index: range and injectivity
* B  refinement of the array-level (`Option`-valued) model to closed forms, for plans in the
     game-plan space and scratch arrays of the allocated sizes (this is also the no-OOB proof)
* C  the closed forms against the declarative specification (streaks = runs, separation =
     gaps of meeting days, pair table = home-game counts)
-/
namespace TtpErrors
open ListLemmas

/-! ## A. the pair index -/

def tri (k : Nat) : Nat := k * (k - 1) / 2

theorem tri_succ (k : Nat) : tri (k + 1) = tri k + k := by
  unfold tri
  cases k with
  | zero => simp
  | succ m =>
    have : (m + 1 + 1) * (m + 1 + 1 - 1) = (m + 1) * (m + 1 - 1) + (m + 1) * 2 := by
      simp only [Nat.add_sub_cancel]
      rw [Nat.mul_comm (m+1+1) (m+1), ← Nat.mul_add]
    rw [this, Nat.add_mul_div_right _ _ (by decide : 0 < 2)]

theorem tri_mono {a b : Nat} (h : a ≤ b) : tri a ≤ tri b := by
  induction h with
  | refl => exact Nat.le_refl _
  | step _ ih => rw [tri_succ]; omega

theorem pairIdx_gt {a b : Nat} (h : b < a) : pairIdx a b = tri a + b := by
  simp [pairIdx, tri, h]

theorem pairIdx_lt' {a b : Nat} (h : a < b) : pairIdx a b = tri b + a := by
  have : ¬ a > b := by omega
  simp [pairIdx, tri, this]

theorem pairIdx_lt {n a b : Nat} (ha : a < n) (hb : b < n) (hab : a ≠ b) : pairIdx a b < tri n := by
  rcases Nat.lt_or_gt_of_ne hab with h | h
  · rw [pairIdx_lt' h]
    have := tri_succ b
    have := tri_mono (show b + 1 ≤ n by omega)
    omega
  · rw [pairIdx_gt h]
    have := tri_succ a
    have := tri_mono (show a + 1 ≤ n by omega)
    omega

theorem tri_add_inj {a b a' b' : Nat} (hb : b < a) (hb' : b' < a') (h : tri a + b = tri a' + b') :
    a = a' ∧ b = b' := by
  rcases Nat.lt_trichotomy a a' with h1 | h1 | h1
  · have := tri_succ a
    have := tri_mono (show a + 1 ≤ a' by omega)
    omega
  · subst h1; exact ⟨rfl, by omega⟩
  · have := tri_succ a'
    have := tri_mono (show a' + 1 ≤ a by omega)
    omega

/-! ## B. refinement to closed forms -/

/-- rows of length `n` with entries in `-n..n` -/
def Shape (n : Nat) (p : Plan) : Prop :=
  ∀ row ∈ p, row.length = n ∧ ∀ v ∈ row, -(n : Int) ≤ v ∧ v ≤ n

def T2Shape (n : Nat) (m : List (List Int)) : Prop := m.length = n ∧ ∀ r ∈ m, r.length = n

theorem entry?_eq_cell {n : Nat} {p : Plan} {d o : Nat} (hs : Shape n p) (hd : d < p.length)
    (ho : o < n) : entry? p d o = some (cell p d o) := by
  have hrow := (hs _ (List.getElem_mem hd)).1
  have ho' : o < (p[d]).length := by omega
  simp [entry?, cell, List.getD_eq_getElem?_getD, List.getElem?_eq_getElem hd,
    List.getElem?_eq_getElem ho']

theorem cell_range {n : Nat} {p : Plan} (hs : Shape n p) (d t : Nat) :
    -(n : Int) ≤ cell p d t ∧ cell p d t ≤ n := by
  unfold cell
  by_cases hd : d < p.length
  · have hrow := hs _ (List.getElem_mem hd)
    by_cases ht : t < (p[d]).length
    · have := hrow.2 _ (List.getElem_mem ht)
      simpa [List.getD_eq_getElem?_getD, List.getElem?_eq_getElem hd, List.getElem?_eq_getElem ht] using this
    · have : (p[d])[t]? = none := List.getElem?_eq_none (by omega)
      simp [List.getD_eq_getElem?_getD, List.getElem?_eq_getElem hd, this]
  · have : p[d]? = none := List.getElem?_eq_none (by omega)
    simp [List.getD_eq_getElem?_getD, this]

theorem col_getD (p : Plan) (t d : Nat) : (col p t).getD d 0 = cell p d t := by
  unfold col cell
  simp only [List.getD_eq_getElem?_getD, List.getElem?_map]
  cases p[d]? <;> simp

theorem col_length (p : Plan) (t : Nat) : (col p t).length = p.length := by simp [col]

theorem col_mem_range {n : Nat} {p : Plan} (hs : Shape n p) (t : Nat) :
    ∀ v ∈ col p t, -(n : Int) ≤ v ∧ v ≤ n := by
  intro v hv
  obtain ⟨d, hd, rfl⟩ := List.getElem_of_mem hv
  have h1 := col_getD p t d
  rw [List.getD_eq_getElem?_getD, List.getElem?_eq_getElem hd] at h1
  simp at h1
  rw [h1]
  exact cell_range hs d t

theorem column?_eq {n : Nat} {p : Plan} (hs : Shape n p) {t : Nat} (ht : t < n) :
    column? p t = some (col p t) := by
  unfold column? col
  induction p with
  | nil => simp
  | cons row rest ih =>
    have hrow := (hs row (by simp)).1
    have ht' : t < row.length := by omega
    have ih' := ih (fun r hr => hs r (by simp [hr]))
    simp [List.mapM_cons, ih', List.getElem?_eq_getElem ht', List.getD_eq_getElem?_getD]

/-- rule 1 on one entry -/
def inconsAt (p : Plan) (t d : Nat) (v : Int) : Int :=
  if v = 0 then 0
  else if v > 0 then (if cell p d (opp v) ≠ -((t : Int) + 1) then 1 else 0)
  else (if cell p d (opp v) ≠ (t : Int) + 1 then 1 else 0)

/-- the streak machine on one entry: new state, rule 4/6 penalty, rule 3/5 penalty -/
def streakStep (c : Cfg) (s : Streak) (v : Int) : Streak × Int × Int :=
  if v = 0 then ((byeStreak c s).1, 0, (byeStreak c s).2)
  else if v > 0 then homeStreak c s else awayStreak c s

/-- the pairing-table accesses of one entry: (index, day) -/
def dayEvents (t d : Nat) (v : Int) : List (Nat × Nat) :=
  if v = 0 then [] else if t = opp v then [] else [(pairIdx t (opp v), d)]

/-- `temp_1` processing of a list of (index, day) events: final table, rule 7 and rule 8 totals -/
def tableFold (c : Cfg) : List Int → List (Nat × Nat) → List Int × Int × Int
  | T, [] => (T, 0, 0)
  | T, e :: es =>
    ((tableFold c (T.set e.1 (touch c (T.getD e.1 (-1)) e.2).1) es).1,
     (touch c (T.getD e.1 (-1)) e.2).2.1 + (tableFold c (T.set e.1 (touch c (T.getD e.1 (-1)) e.2).1) es).2.1,
     (touch c (T.getD e.1 (-1)) e.2).2.2 + (tableFold c (T.set e.1 (touch c (T.getD e.1 (-1)) e.2).1) es).2.2)

def bump2 (m : List (List Int)) (i j : Nat) : List (List Int) :=
  m.set i ((m.getD i []).set j ((m.getD i []).getD j 0 + 1))

def dayT2 (m : List (List Int)) (t : Nat) (v : Int) : List (List Int) :=
  if v > 0 then bump2 m t (opp v) else m

/-- total version of `dayStep` -/
def dayPure (c : Cfg) (p : Plan) (t : Nat) (a : Acc) (d : Nat) (v : Int) : Acc :=
  { s := (streakStep c a.s v).1,
    e := { bye := a.e.bye + (if v = 0 then 1 else 0),
           incons := a.e.incons + inconsAt p t d v,
           streakMax := a.e.streakMax + (streakStep c a.s v).2.1,
           streakMin := a.e.streakMin + (streakStep c a.s v).2.2,
           sepMin := a.e.sepMin + (tableFold c a.t1 (dayEvents t d v)).2.1,
           sepMax := a.e.sepMax + (tableFold c a.t1 (dayEvents t d v)).2.2,
           pairCount := a.e.pairCount, balance := a.e.balance },
    t1 := (tableFold c a.t1 (dayEvents t d v)).1,
    t2 := dayT2 a.t2 t v }

theorem tableFold_length (c : Cfg) (es : List (Nat × Nat)) (T : List Int) :
    (tableFold c T es).1.length = T.length := by
  induction es generalizing T with
  | nil => rfl
  | cons e es ih => simp [tableFold, ih]

theorem bump2_shape {n : Nat} {m : List (List Int)} (h : T2Shape n m) {i : Nat} (hi : i < n) (j : Nat) :
    T2Shape n (bump2 m i j) := by
  obtain ⟨h1, h2⟩ := h
  refine ⟨by simp [bump2, h1], ?_⟩
  intro r hr
  unfold bump2 at hr
  rcases List.mem_or_eq_of_mem_set hr with hr | hr
  · exact h2 r hr
  · subst hr
    have hi' : i < m.length := by omega
    have := h2 _ (List.getElem_mem hi')
    simpa [List.getD_eq_getElem?_getD, List.getElem?_eq_getElem hi'] using this

theorem opp_pos {v : Int} (h : v > 0) : (v - 1).toNat = opp v := by unfold opp; omega
theorem opp_neg {v : Int} (h : v < 0) : (-v - 1).toNat = opp v := by unfold opp; omega
theorem opp_lt {n : Nat} {v : Int} (h0 : v ≠ 0) (h1 : -(n : Int) ≤ v) (h2 : v ≤ n) : opp v < n := by
  unfold opp; omega

theorem incr2?_eq {n : Nat} {m : List (List Int)} (h : T2Shape n m) {i j : Nat} (hi : i < n) (hj : j < n) :
    incr2? m i j = some (bump2 m i j) := by
  obtain ⟨h1, h2⟩ := h
  have hi' : i < m.length := by omega
  have hr := h2 _ (List.getElem_mem hi')
  have hj' : j < (m[i]).length := by omega
  simp [incr2?, bump2, List.getD_eq_getElem?_getD, List.getElem?_eq_getElem hi',
    List.getElem?_eq_getElem hj']

theorem sepStep_eq (c : Cfg) {T : List Int} {k : Nat} (hk : k < T.length) (d : Nat) :
    sepStep c T k d = some (T.set k (touch c (T.getD k (-1)) d).1, (touch c (T.getD k (-1)) d).2.1,
      (touch c (T.getD k (-1)) d).2.2) := by
  simp [sepStep, List.getD_eq_getElem?_getD, List.getElem?_eq_getElem hk]

theorem dayStep_eq (c : Cfg) {n : Nat} {p : Plan} (hs : Shape n p) {t d : Nat} (ht : t < n)
    (hd : d < p.length) {v : Int} (hv : -(n : Int) ≤ v ∧ v ≤ n) (a : Acc)
    (h1 : a.t1.length = tri n) (h2 : T2Shape n a.t2) :
    dayStep c p t a d v = some (dayPure c p t a d v) := by
  unfold dayStep dayPure
  by_cases h0 : v = 0
  · subst h0
    simp [streakStep, inconsAt, dayEvents, tableFold, dayT2]
  · by_cases hp : v > 0
    · have ho := opp_lt h0 hv.1 hv.2
      simp only [h0, hp, if_true, if_false, opp_pos hp, entry?_eq_cell hs hd ho, incr2?_eq h2 ht ho]
      by_cases hto : t = opp v
      · simp [hto, streakStep, inconsAt, dayEvents, tableFold, dayT2, h0, hp]
      · have hk : pairIdx t (opp v) < a.t1.length := by rw [h1]; exact pairIdx_lt ht ho hto
        simp [hto, sepStep_eq c hk, streakStep, inconsAt, dayEvents, tableFold, dayT2, h0, hp]
    · have hn : v < 0 := by omega
      have ho := opp_lt h0 hv.1 hv.2
      simp only [h0, hp, if_false, opp_neg hn, entry?_eq_cell hs hd ho]
      by_cases hto : t = opp v
      · simp [hto, streakStep, inconsAt, dayEvents, tableFold, dayT2, h0, hp]
      · have hk : pairIdx t (opp v) < a.t1.length := by rw [h1]; exact pairIdx_lt ht ho hto
        simp [hto, sepStep_eq c hk, streakStep, inconsAt, dayEvents, tableFold, dayT2, h0, hp]

theorem dayPure_inv (c : Cfg) {n : Nat} (p : Plan) {t d : Nat} (ht : t < n) (v : Int) (a : Acc)
    (h1 : a.t1.length = tri n) (h2 : T2Shape n a.t2) :
    (dayPure c p t a d v).t1.length = tri n ∧ T2Shape n (dayPure c p t a d v).t2 := by
  refine ⟨by simp [dayPure, tableFold_length, h1], ?_⟩
  simp only [dayPure, dayT2]
  split
  · exact bump2_shape h2 ht _
  · exact h2

/-- total version of `foldDays` -/
def foldDaysPure (c : Cfg) (p : Plan) (t : Nat) : Acc → Nat → List Int → Acc
  | a, _, [] => a
  | a, d, v :: vs => foldDaysPure c p t (dayPure c p t a d v) (d + 1) vs

theorem foldDays_eq (c : Cfg) {n : Nat} {p : Plan} (hs : Shape n p) {t : Nat} (ht : t < n)
    (vs : List Int) : ∀ (d : Nat) (a : Acc), d + vs.length ≤ p.length →
    (∀ v ∈ vs, -(n : Int) ≤ v ∧ v ≤ n) → a.t1.length = tri n → T2Shape n a.t2 →
    foldDays c p t a d vs = some (foldDaysPure c p t a d vs) := by
  induction vs with
  | nil => intros; rfl
  | cons v vs ih =>
    intro d a hd hv h1 h2
    simp only [List.length_cons] at hd
    have hv0 := hv v (by simp)
    have hinv := dayPure_inv c p (d := d) ht v a h1 h2
    simp only [foldDays, foldDaysPure, dayStep_eq c hs ht (show d < p.length by omega) hv0 a h1 h2]
    exact ih (d + 1) _ (by omega) (fun w hw => hv w (by simp [hw])) hinv.1 hinv.2

theorem foldDaysPure_inv (c : Cfg) {n : Nat} (p : Plan) {t : Nat} (ht : t < n)
    (vs : List Int) : ∀ (d : Nat) (a : Acc), a.t1.length = tri n → T2Shape n a.t2 →
    (foldDaysPure c p t a d vs).t1.length = tri n ∧ T2Shape n (foldDaysPure c p t a d vs).t2 := by
  induction vs with
  | nil => intro d a h1 h2; exact ⟨h1, h2⟩
  | cons v vs ih =>
    intro d a h1 h2
    have hinv := dayPure_inv c p (d := d) ht v a h1 h2
    exact ih (d + 1) _ hinv.1 hinv.2

/-! ### closed forms of one column -/

def colStreak (c : Cfg) : Streak → List Int → Streak × Int × Int
  | s, [] => (s, 0, 0)
  | s, v :: vs =>
    ((colStreak c (streakStep c s v).1 vs).1,
     (streakStep c s v).2.1 + (colStreak c (streakStep c s v).1 vs).2.1,
     (streakStep c s v).2.2 + (colStreak c (streakStep c s v).1 vs).2.2)

def colEvents (t : Nat) : Nat → List Int → List (Nat × Nat)
  | _, [] => []
  | d, v :: vs => dayEvents t d v ++ colEvents t (d + 1) vs

def colIncons (p : Plan) (t : Nat) : Nat → List Int → Int
  | _, [] => 0
  | d, v :: vs => inconsAt p t d v + colIncons p t (d + 1) vs

def colT2 (m : List (List Int)) (t : Nat) : List Int → List (List Int)
  | [] => m
  | v :: vs => colT2 (dayT2 m t v) t vs

def count0 : List Int → Int
  | [] => 0
  | v :: vs => (if v = 0 then 1 else 0) + count0 vs

theorem tableFold_append (c : Cfg) (es fs : List (Nat × Nat)) (T : List Int) :
    tableFold c T (es ++ fs) =
      ((tableFold c (tableFold c T es).1 fs).1,
       (tableFold c T es).2.1 + (tableFold c (tableFold c T es).1 fs).2.1,
       (tableFold c T es).2.2 + (tableFold c (tableFold c T es).1 fs).2.2) := by
  induction es generalizing T with
  | nil => simp [tableFold]
  | cons e es ih =>
    simp only [List.cons_append, tableFold, ih]
    refine Prod.ext rfl (Prod.ext ?_ ?_) <;> simp <;> omega

def colClosed (c : Cfg) (p : Plan) (t : Nat) (a : Acc) (d : Nat) (vs : List Int) : Acc :=
  { s := (colStreak c a.s vs).1,
    e := { bye := a.e.bye + count0 vs,
           incons := a.e.incons + colIncons p t d vs,
           streakMax := a.e.streakMax + (colStreak c a.s vs).2.1,
           streakMin := a.e.streakMin + (colStreak c a.s vs).2.2,
           sepMin := a.e.sepMin + (tableFold c a.t1 (colEvents t d vs)).2.1,
           sepMax := a.e.sepMax + (tableFold c a.t1 (colEvents t d vs)).2.2,
           pairCount := a.e.pairCount, balance := a.e.balance },
    t1 := (tableFold c a.t1 (colEvents t d vs)).1,
    t2 := colT2 a.t2 t vs }

theorem foldDaysPure_closed (c : Cfg) (p : Plan) (t : Nat) (vs : List Int) :
    ∀ (d : Nat) (a : Acc), foldDaysPure c p t a d vs = colClosed c p t a d vs := by
  induction vs with
  | nil => intro d a; cases a; rename_i s e t1 t2; cases e; simp [foldDaysPure, colClosed, colStreak, count0, colIncons, colEvents, tableFold, colT2]
  | cons v vs ih =>
    intro d a
    simp only [foldDaysPure, ih]
    simp only [colClosed, dayPure, colStreak, count0, colIncons, colEvents, colT2, tableFold_append]
    simp only [Acc.mk.injEq, Errs.mk.injEq]
    refine ⟨trivial, ⟨?_, ?_, ?_, ?_, ?_, ?_, trivial, trivial⟩, trivial, trivial⟩ <;> omega

/-! ### closed form of the loop over the teams -/

def allEvents (p : Plan) (k : Nat) : List (Nat × Nat) :=
  (List.range k).flatMap (fun t => colEvents t 0 (col p t))

def teamsT2 (p : Plan) (k : Nat) (M0 : List (List Int)) : List (List Int) :=
  (List.range k).foldl (fun m t => colT2 m t (col p t)) M0

def rsum (k : Nat) (f : Nat → Int) : Int := ((List.range k).map f).sum

theorem rsum_succ (k : Nat) (f : Nat → Int) : rsum (k + 1) f = rsum k f + f k := by
  simp [rsum, List.range_succ, List.sum_append]

theorem rsum_zero (f : Nat → Int) : rsum 0 f = 0 := by simp [rsum]

def teamsClosed (c : Cfg) (p : Plan) (k : Nat) (T0 : List Int) (M0 : List (List Int)) : G :=
  { e := { bye := rsum k (fun t => count0 (col p t)),
           incons := rsum k (fun t => colIncons p t 0 (col p t)),
           streakMax := rsum k (fun t => (colStreak c Streak.init (col p t)).2.1),
           streakMin := rsum k (fun t => (colStreak c Streak.init (col p t)).2.2
                                         + closeStreak c (colStreak c Streak.init (col p t)).1),
           sepMin := (tableFold c T0 (allEvents p k)).2.1,
           sepMax := (tableFold c T0 (allEvents p k)).2.2,
           pairCount := 0, balance := 0 },
    t1 := (tableFold c T0 (allEvents p k)).1,
    t2 := teamsT2 p k M0 }

theorem teamStep_eq (c : Cfg) {n : Nat} {p : Plan} (hs : Shape n p) {t : Nat} (ht : t < n) (g : G)
    (h1 : g.t1.length = tri n) (h2 : T2Shape n g.t2) :
    teamStep c p g t =
      some { e := { (colClosed c p t ⟨Streak.init, g.e, g.t1, g.t2⟩ 0 (col p t)).e with
                    streakMin := (colClosed c p t ⟨Streak.init, g.e, g.t1, g.t2⟩ 0 (col p t)).e.streakMin
                      + closeStreak c (colClosed c p t ⟨Streak.init, g.e, g.t1, g.t2⟩ 0 (col p t)).s },
             t1 := (colClosed c p t ⟨Streak.init, g.e, g.t1, g.t2⟩ 0 (col p t)).t1,
             t2 := (colClosed c p t ⟨Streak.init, g.e, g.t1, g.t2⟩ 0 (col p t)).t2 } := by
  unfold teamStep
  have hfd := foldDays_eq c hs ht (col p t) 0 ⟨Streak.init, g.e, g.t1, g.t2⟩
    (by simp [col_length]) (col_mem_range hs t) h1 h2
  simp only [column?_eq hs ht, hfd, foldDaysPure_closed]

theorem colT2_shape {n : Nat} {t : Nat} (ht : t < n) (vs : List Int) :
    ∀ (m : List (List Int)), T2Shape n m → T2Shape n (colT2 m t vs) := by
  induction vs with
  | nil => intro m h; exact h
  | cons v vs ih =>
    intro m h
    simp only [colT2]
    apply ih
    unfold dayT2
    split
    · exact bump2_shape h ht _
    · exact h

theorem foldTeams_append (c : Cfg) (p : Plan) (l1 l2 : List Nat) (g : G) :
    foldTeams c p g (l1 ++ l2) = (foldTeams c p g l1).bind (fun g' => foldTeams c p g' l2) := by
  induction l1 generalizing g with
  | nil => simp [foldTeams]
  | cons t ts ih =>
    simp only [List.cons_append, foldTeams]
    cases teamStep c p g t with
    | none => simp
    | some g' => simp [ih]

theorem teamsClosed_inv (c : Cfg) {n : Nat} (p : Plan) (T0 : List Int) (M0 : List (List Int))
    (h1 : T0.length = tri n) (h2 : T2Shape n M0) (k : Nat) (hk : k ≤ n) :
    (teamsClosed c p k T0 M0).t1.length = tri n ∧ T2Shape n (teamsClosed c p k T0 M0).t2 := by
  refine ⟨by simp [teamsClosed, tableFold_length, h1], ?_⟩
  simp only [teamsClosed, teamsT2]
  induction k with
  | zero => simpa using h2
  | succ k ih =>
    rw [List.range_succ, List.foldl_append]
    simp only [List.foldl_cons, List.foldl_nil]
    exact colT2_shape (show k < n by omega) _ _ (ih (by omega))

theorem foldTeams_eq (c : Cfg) {n : Nat} {p : Plan} (hs : Shape n p) (T0 : List Int)
    (M0 : List (List Int)) (h1 : T0.length = tri n) (h2 : T2Shape n M0) (k : Nat) (hk : k ≤ n) :
    foldTeams c p { e := {}, t1 := T0, t2 := M0 } (List.range k) = some (teamsClosed c p k T0 M0) := by
  induction k with
  | zero =>
    simp [foldTeams, teamsClosed, rsum_zero, allEvents, tableFold, teamsT2]
  | succ k ih =>
    have hinv := teamsClosed_inv c p T0 M0 h1 h2 k (by omega)
    rw [List.range_succ, foldTeams_append, ih (by omega)]
    simp only [Option.bind_some, foldTeams,
      teamStep_eq c hs (show k < n by omega) _ hinv.1 hinv.2]
    simp only [teamsClosed, colClosed, rsum_succ, allEvents, List.range_succ, List.flatMap_append,
      List.flatMap_cons, List.flatMap_nil, List.append_nil, tableFold_append, teamsT2,
      List.foldl_append, List.foldl_cons, List.foldl_nil]
    simp only [Option.some.injEq, G.mk.injEq, Errs.mk.injEq]
    refine ⟨⟨?_, ?_, ?_, ?_, ?_, ?_, ?_, ?_⟩, ?_, ?_⟩ <;> first | rfl | omega | trivial

end TtpErrors
