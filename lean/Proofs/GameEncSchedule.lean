import Proofs.GameEncRender
namespace GameEnc

/-- the predicate `scheduleStep` searches with is "both teams are free" -/
theorem scheduleStep_eq (n days : Nat) (S : List Slot) (g : Int) :
    scheduleStep n days S g =
      match leastDay (fun d => free S d (homeOf n g) && free S d (awayOf n g)) days with
      | some d => S ++ [{ day := d, home := homeOf n g, away := awayOf n g }]
      | none => S := rfl

/-- one game: the kernel's day loop and the specification's step agree -/
theorem renders_step (y : Plan) (S : List Slot) (days n : Nat) (hn : 2 ≤ n) (g : Int) (hr : Renders y S days n) :
    ∃ y', placeGame (homeOf n g : Nat) (awayOf n g : Nat) days 0 y = .ok y' ∧
      Renders y' (scheduleStep n days S g) days n := by
  obtain ⟨hh, ha, hne⟩ := decode_valid n hn g
  rw [placeGame_spec y days n _ _ hr.1 hh ha days 0 (by omega) (fun d' hd' => by omega), scheduleStep_eq,
    leastDay_congr (openDay y (homeOf n g) (awayOf n g))
      (fun d => free S d (homeOf n g) && free S d (awayOf n g)) days
      (fun d hd => openDay_eq_free y S days n _ _ d hr hh ha hd)]
  cases hl : leastDay (fun d => free S d (homeOf n g) && free S d (awayOf n g)) days with
  | none => exact ⟨y, rfl, hr⟩
  | some d =>
    obtain ⟨hd, hf, _⟩ := (leastDay_some _ _ _).mp hl
    simp only [Bool.and_eq_true] at hf
    exact ⟨_, rfl, renders_place y S days n _ _ d hr hh ha hne hd hf.1 hf.2⟩

/-- the whole loop -/
theorem renders_loop (days n : Nat) (hn : 2 ≤ n) (x : List Int) :
    ∀ (y : Plan) (S : List Slot), Renders y S days n →
      ∃ y', gameLoop days (n : Int) x y = .ok y' ∧ Renders y' (x.foldl (scheduleStep n days) S) days n := by
  induction x with
  | nil => intro y S hr; exact ⟨y, rfl, hr⟩
  | cons g xs ih =>
    intro y S hr
    obtain ⟨y1, h1, hr1⟩ := renders_step y S days n hn g hr
    obtain ⟨y2, h2, hr2⟩ := ih y1 _ hr1
    refine ⟨y2, ?_, hr2⟩
    rw [gameLoop_cons days n hn, h1]
    exact h2

/-- the executable schedule satisfies the documented rule -/
theorem earliest_fold (n days : Nat) (x : List Int) :
    ∀ (pre : List Int) (S : List Slot), EarliestSlot n days pre S →
      EarliestSlot n days (pre ++ x) (x.foldl (scheduleStep n days) S) := by
  induction x with
  | nil => intro pre S h; simpa using h
  | cons g xs ih =>
    intro pre S h
    have : pre ++ g :: xs = (pre ++ [g]) ++ xs := by simp
    rw [this, List.foldl_cons]
    apply ih
    rw [scheduleStep_eq]
    cases hl : leastDay (fun d => free S d (homeOf n g) && free S d (awayOf n g)) days with
    | none =>
      have hnone := (leastDay_none _ _).mp hl
      refine EarliestSlot.dropped g h (fun d hd => ?_)
      have := hnone d hd
      revert this
      cases free S d (homeOf n g) <;> cases free S d (awayOf n g) <;> simp
    | some d =>
      obtain ⟨hd, hf, hmin⟩ := (leastDay_some _ _ _).mp hl
      simp only [Bool.and_eq_true] at hf
      refine EarliestSlot.placed g d h hd hf.1 hf.2 (fun d' hd' => ?_)
      have := hmin d' hd'
      revert this
      cases free S d' (homeOf n g) <;> cases free S d' (awayOf n g) <;> simp

/-! ### what every earliest-slot schedule looks like -/

/-- slots are well-formed and no team has two slots on one day -/
def SlotsOK (S : List Slot) (days n : Nat) : Prop :=
  (∀ s ∈ S, s.day < days ∧ s.home < n ∧ s.away < n ∧ s.home ≠ s.away) ∧
  (∀ d t, S.countP (fun s => s.day == d && s.has t) ≤ 1)

theorem earliest_ok (n days : Nat) (hn : 2 ≤ n) (x : List Int) (S : List Slot)
    (h : EarliestSlot n days x S) : SlotsOK S days n := by
  induction h with
  | nil => exact ⟨by simp, by simp⟩
  | @placed x0 S0 g d _ hd fh fa _ ih =>
    obtain ⟨hh, ha, hne⟩ := decode_valid n hn g
    refine ⟨?_, ?_⟩
    · intro s hs
      rcases List.mem_append.mp hs with h | h
      · exact ih.1 s h
      · simp only [List.mem_singleton] at h
        subst h
        exact ⟨hd, hh, ha, hne⟩
    · intro d' t'
      rw [List.countP_append]
      simp only [List.countP_cons, List.countP_nil, Nat.zero_add]
      split
      · rename_i hm
        simp only [Slot.has, Bool.and_eq_true, beq_iff_eq, Bool.or_eq_true] at hm
        obtain ⟨rfl, ht⟩ := hm
        have : free S0 d t' = true := by rcases ht with rfl | rfl <;> assumption
        have hz : List.countP (fun s => s.day == d && s.has t') S0 = 0 :=
          List.countP_eq_zero.mpr (fun s hs => by simp [(free_iff S0 d t').mp this s hs])
        omega
      · exact ih.2 d' t'
  | dropped g _ _ ih => exact ih

theorem earliest_count (n days : Nat) (x : List Int) (S : List Slot) (h : EarliestSlot n days x S) (h' a' : Nat) :
    S.countP (fun s => s.home == h' && s.away == a') ≤ x.countP (IsGame n h' a') := by
  induction h with
  | nil => simp
  | placed g d _ _ _ _ _ ih =>
    rw [List.countP_append, List.countP_append]
    simp only [List.countP_cons, List.countP_nil, Nat.zero_add]
    have e : IsGame n h' a' g = (homeOf n g == h' && awayOf n g == a') := rfl
    rw [e]
    omega
  | dropped g _ _ ih =>
    rw [List.countP_append]
    omega

end GameEnc
