import Proofs.Ibl
/-! Helper lemmas for C01/C14, encoding 2 (first fit over all open bins). Core Lean only. -/
namespace Ibl
open Pack

theorem getElem_mem_take_drop {α} (l : List α) (s e j : Nat) (hj : j < l.length) (hs : s ≤ j) (he : j < e) :
    l[j] ∈ (l.take e).drop s := by
  have h1 : j - s < ((l.take e).drop s).length := by
    simp only [List.length_drop, List.length_take]; omega
  have : ((l.take e).drop s)[j - s] = l[j] := by
    simp only [List.getElem_drop, List.getElem_take]
    congr 1; omega
  rw [← this]
  exact List.getElem_mem h1

/-- an empty window lets every item that fits the bin settle in the bottom-left corner -/
theorem settle_empty_fits (I : Inst) (id w h : Int) (hw1 : 1 ≤ w) (hw2 : w ≤ I.W) (hh1 : 1 ≤ h) (hh2 : h ≤ I.H) :
    (settle (fuelFor (startRow I id w h)) [] (startRow I id w h)).r ≤ I.W ∧
    (settle (fuelFor (startRow I id w h)) [] (startRow I id w h)).t ≤ I.H := by
  have hst := settle_fuelFor_stable [] (startRow I id w h)
    (by unfold startRow; simp only []; omega) (by unfold startRow; simp only []; omega)
  have hs := settled I id w h [] (by simp) hw1 hw2 hh1 (by omega) (fuelFor (startRow I id w h))
  simp only [] at hs
  obtain ⟨_, hl0, hb0, _, _, hwd, hht⟩ := hs
  simp only [minDown, minLeft, List.foldl_nil] at hst
  omega

/-- invariant of encoding 2 after the prefix `xs` has been processed -/
structure Inv2 (I : Inst) (xs : List Int) (st : St2) : Prop where
  ids : st.done.map (·.id) = xs.map (fun v => (v.natAbs : Int))
  inside : ∀ p ∈ st.done, InBin I p
  dims : ∀ p ∈ st.done, ∃ it, I.item? p.id = some it ∧ p.HasDims it
  bins : ∀ p ∈ st.done, 1 ≤ p.bin ∧ p.bin ≤ st.binId
  pw : st.done.Pairwise (fun a c => a.bin = c.bin → a.Disjoint c)
  bpos : 1 ≤ st.binId
  lens : st.starts.length = st.ends.length
  cap : st.binId ≤ max 1 (st.done.length : Int)
  range : ∀ b : Int, 1 ≤ b → b ≤ st.binId →
    ∃ s e, st.starts[(b - 1).toNat]? = some s ∧ st.ends[(b - 1).toNat]? = some e ∧
      0 ≤ s ∧ s ≤ e ∧ e ≤ st.done.length ∧
      ∀ (j : Nat) (hj : j < st.done.length), (st.done[j]).bin = b → s ≤ j ∧ (j : Int) < e
  used : st.done ≠ [] → ∀ j : Nat, (j : Int) + 1 ≤ st.binId → ∃ p ∈ st.done, p.bin = (j : Int) + 1

/-- result of trying the open bins `b, b+1, …, binId` -/
theorem tryBins_spec (I : Inst) (xs : List Int) (st : St2) (hinv : Inv2 I xs st) (id w h : Int)
    (hw1 : 1 ≤ w) (hw2 : w ≤ I.W) (hh1 : 1 ≤ h) (hh2 : h ≤ I.H) (k : Nat) (b : Int)
    (hb1 : 1 ≤ b) (hbk : b + k = st.binId + 1) :
    ∃ res, tryBins I st id w h k b = some res ∧
      (st.done = [] → b = 1 → res ≠ none) ∧
      ∀ row b', res = some (row, b') → b ≤ b' ∧ b' ≤ st.binId ∧ row.bin = b' ∧ InBin I row ∧ row.id = id ∧
        row.r - row.l = w ∧ row.t - row.b = h ∧ ∀ p ∈ st.done, p.bin = b' → p.Disjoint row := by
  induction k generalizing b with
  | zero =>
    refine ⟨none, rfl, ?_, by simp⟩
    intro hd hb
    exfalso
    have := hinv.bpos
    omega
  | succ k ih =>
    obtain ⟨s, e, hs, he, hs0, hse, hel, hcov⟩ := hinv.range b hb1 (by omega)
    unfold tryBins
    rw [hs, he]
    simp only []
    have hwin : window2? st.done s e b
        = some (((st.done.take e.toNat).drop s.toNat).filter (fun p => p.bin = b)) := by
      unfold window2?
      rw [if_neg (by omega)]
    rw [hwin]
    simp only []
    generalize hwdef : ((st.done.take e.toNat).drop s.toNat).filter (fun p => p.bin = b) = win
    have hwin_in : ∀ p ∈ win, InBin I p := by
      intro p hp
      rw [← hwdef] at hp
      exact hinv.inside p (List.mem_of_mem_take (List.mem_of_mem_drop (List.mem_filter.mp hp).1))
    have hcover : ∀ p ∈ st.done, p.bin = b → p ∈ win := by
      intro p hp hpb
      obtain ⟨j, hj, rfl⟩ := List.mem_iff_getElem.mp hp
      have := hcov j hj hpb
      rw [← hwdef]
      apply List.mem_filter.mpr
      refine ⟨getElem_mem_take_drop st.done s.toNat e.toNat j hj (by omega) (by omega), by simpa using hpb⟩
    have hsd := settled I id w h win hwin_in hw1 hw2 hh1 (by omega) (fuelFor (startRow I id w h))
    simp only [] at hsd
    obtain ⟨hcl, hl0, hb0, hrW, hid, hwd, hht⟩ := hsd
    have hemp : win = [] → (settle (fuelFor (startRow I id w h)) win (startRow I id w h)).r ≤ I.W ∧
        (settle (fuelFor (startRow I id w h)) win (startRow I id w h)).t ≤ I.H := by
      intro hw; subst hw; exact settle_empty_fits I id w h hw1 hw2 hh1 hh2
    generalize settle (fuelFor (startRow I id w h)) win (startRow I id w h) = r at *
    by_cases hfit : r.r ≤ I.W ∧ r.t ≤ I.H
    · rw [if_pos hfit]
      refine ⟨_, rfl, by simp, ?_⟩
      intro row b' hrow
      simp only [Option.some.injEq, Prod.mk.injEq] at hrow
      obtain ⟨rfl, rfl⟩ := hrow
      refine ⟨by omega, by omega, rfl, ?_, hid, hwd, hht, ?_⟩
      · unfold InBin Row.Proper; simp only []; omega
      · intro p hp hpb
        have := hcl p (hcover p hp hpb)
        unfold Row.Disjoint at this ⊢
        simp only []
        exact this
    · rw [if_neg hfit]
      obtain ⟨res, h1, h2, h3⟩ := ih (b + 1) (by omega) (by omega)
      refine ⟨res, h1, ?_, ?_⟩
      · intro hd hb
        exfalso
        -- empty packing: the window is empty, so the item fits
        rw [hd] at hwdef
        simp at hwdef
        exact hfit (hemp hwdef)
      · intro row b' hrow
        have := h3 row b' hrow
        refine ⟨by omega, this.2⟩

end Ibl

namespace Ibl
open Pack

theorem getElem_append_singleton_lt {α} (l : List α) (a : α) (j : Nat) (hj : j < l.length) :
    (l ++ [a])[j]'(by simp; omega) = l[j] := by
  simp [List.getElem_append_left hj]

theorem step2_inv (I : Inst) (hv : I.Valid) (xs : List Int) (st : St2) (v : Int) (h : Inv2 I xs st)
    (hv0 : v ≠ 0) (hr : v.natAbs ≤ I.nTypes) (hroom : st.done.length < st.starts.length) :
    ∃ st', step2 I st v = some st' ∧ Inv2 I (xs ++ [v]) st' ∧ st'.starts.length = st.starts.length := by
  obtain ⟨it, w, hh, hd, hit, hor, hw1, hw2, hh1, hh2⟩ := dims?_spec I hv v hv0 hr
  have hbt : ((st.binId.toNat : Nat) : Int) = st.binId := by have := h.bpos; omega
  obtain ⟨res, htry, hfirst, hres⟩ := tryBins_spec I xs st h (v.natAbs : Int) w hh hw1 hw2 hh1 hh2
    st.binId.toNat 1 (by omega) (by omega)
  unfold step2
  rw [hd]
  (try simp only [])
  rw [htry]
  cases res with
  | some rb =>
    obtain ⟨row, b⟩ := rb
    obtain ⟨hb1, hb2, hrb, hin, hid, hwd, hht, hdis⟩ := hres row b rfl
    obtain ⟨s, e, hs, he, hs0, hse, hel, hcov⟩ := h.range b hb1 hb2
    have hidx : (b - 1).toNat < st.ends.length := by
      by_cases hc : (b - 1).toNat < st.ends.length
      · exact hc
      · rw [List.getElem?_eq_none (by omega)] at he
        simp at he
    (try simp only [])
    rw [if_pos hidx]
    refine ⟨_, rfl, ?_, rfl⟩
    refine ⟨?_, ?_, ?_, ?_, ?_, h.bpos, ?_, ?_, ?_, ?_⟩
    · try dsimp only
      simp [h.ids, hid]
    · try dsimp only
      intro p hp
      simp only [List.mem_append, List.mem_singleton] at hp
      rcases hp with hp | rfl
      · exact h.inside p hp
      · exact hin
    · try dsimp only
      intro p hp
      simp only [List.mem_append, List.mem_singleton] at hp
      rcases hp with hp | rfl
      · exact h.dims p hp
      · refine ⟨it, by rw [hid]; exact hit, ?_⟩
        unfold Row.HasDims; omega
    · try dsimp only
      intro p hp
      simp only [List.mem_append, List.mem_singleton] at hp
      rcases hp with hp | rfl
      · exact h.bins p hp
      · omega
    · try dsimp only
      rw [List.pairwise_append]
      refine ⟨h.pw, by simp, ?_⟩
      intro a ha c hc
      simp only [List.mem_singleton] at hc
      subst hc
      intro hab
      exact hdis a ha (by omega)
    · try dsimp only
      simp [h.lens]
    · try dsimp only
      simp only [List.length_append, List.length_singleton]; have := h.cap; omega
    · try dsimp only
      intro b'' hb1'' hb2''
      by_cases hbb : b'' = b
      · subst hbb
        refine ⟨s, (st.done.length : Int) + 1, hs, ?_, hs0, by omega, by simp, ?_⟩
        · rw [List.getElem?_set_self hidx]
        · intro j hj hjb
          simp only [List.length_append, List.length_singleton] at hj
          by_cases hjl : j < st.done.length
          · rw [getElem_append_singleton_lt _ _ _ hjl] at hjb
            have := hcov j hjl hjb
            omega
          · omega
      · obtain ⟨s', e', hs', he', hs0', hse', hel', hcov'⟩ := h.range b'' hb1'' hb2''
        refine ⟨s', e', hs', ?_, hs0', hse', by simp; omega, ?_⟩
        · rw [List.getElem?_set_ne (by omega)]; exact he'
        · intro j hj hjb
          simp only [List.length_append, List.length_singleton] at hj
          by_cases hjl : j < st.done.length
          · rw [getElem_append_singleton_lt _ _ _ hjl] at hjb
            exact hcov' j hjl hjb
          · have hje : j = st.done.length := by omega
            subst hje
            simp at hjb
            omega
    · try dsimp only
      intro _ j hj
      by_cases hne : st.done = []
      · have hcap := h.cap
        rw [hne] at hcap
        simp at hcap
        refine ⟨row, by simp, ?_⟩
        have := h.bpos
        omega
      · obtain ⟨p, hp, hpb⟩ := h.used hne j hj
        exact ⟨p, List.mem_append_left _ hp, hpb⟩
  | none =>
    have hne : st.done ≠ [] := fun hd' => hfirst hd' rfl rfl
    have hlenpos : 0 < st.done.length := List.length_pos_iff.mpr hne
    have hcap : st.binId ≤ st.done.length := by have := h.cap; omega
    have hk1 : st.binId.toNat < st.starts.length := by omega
    have hk2 : st.binId.toNat < st.ends.length := by rw [← h.lens]; exact hk1
    (try simp only [])
    rw [if_pos ⟨hk1, hk2⟩]
    refine ⟨_, rfl, ?_, by simp⟩
    refine ⟨?_, ?_, ?_, ?_, ?_, ?_, ?_, ?_, ?_, ?_⟩
    · try dsimp only
      simp [h.ids]
    · try dsimp only
      intro p hp
      simp only [List.mem_append, List.mem_singleton] at hp
      rcases hp with hp | rfl
      · exact h.inside p hp
      · unfold InBin Row.Proper; (try simp only []); omega
    · try dsimp only
      intro p hp
      simp only [List.mem_append, List.mem_singleton] at hp
      rcases hp with hp | rfl
      · exact h.dims p hp
      · refine ⟨it, hit, ?_⟩
        unfold Row.HasDims; (try simp only []); omega
    · try dsimp only
      intro p hp
      simp only [List.mem_append, List.mem_singleton] at hp
      rcases hp with hp | rfl
      · have := h.bins p hp; (try simp only []); omega
      · (try simp only []); have := h.bpos; omega
    · try dsimp only
      rw [List.pairwise_append]
      refine ⟨h.pw, by simp, ?_⟩
      intro a ha c hc
      simp only [List.mem_singleton] at hc
      subst hc
      intro hab
      (try dsimp only at hab)
      have := h.bins a ha
      omega
    · try dsimp only
      (try simp only []); have := h.bpos; omega
    · try dsimp only
      simp [h.lens]
    · try dsimp only
      simp only [List.length_append, List.length_singleton]; omega
    · try dsimp only
      intro b'' hb1'' hb2''
      (try dsimp only at hb2'')
      by_cases hbb : b'' = st.binId + 1
      · subst hbb
        have hidx : (st.binId + 1 - 1).toNat = st.binId.toNat := by congr 1; omega
        refine ⟨(st.done.length : Int), (st.done.length : Int) + 1, ?_, ?_, by omega, by omega, by simp, ?_⟩
        · (try simp only []); rw [hidx]; simp [List.getElem?_set_self hk1]
        · (try simp only []); rw [hidx]; simp [List.getElem?_set_self hk2]
        · intro j hj hjb
          simp only [List.length_append, List.length_singleton] at hj
          by_cases hjl : j < st.done.length
          · (try dsimp only at hjb)
            rw [getElem_append_singleton_lt _ _ _ hjl] at hjb
            have := h.bins _ (List.getElem_mem hjl)
            omega
          · omega
      · obtain ⟨s', e', hs', he', hs0', hse', hel', hcov'⟩ := h.range b'' hb1'' (by omega)
        have hne' : (b'' - 1).toNat ≠ st.binId.toNat := by omega
        refine ⟨s', e', ?_, ?_, hs0', hse', by simp; omega, ?_⟩
        · (try simp only []); rw [List.getElem?_set_ne (Ne.symm hne')]; exact hs'
        · (try simp only []); rw [List.getElem?_set_ne (Ne.symm hne')]; exact he'
        · intro j hj hjb
          simp only [List.length_append, List.length_singleton] at hj
          (try dsimp only at hjb)
          by_cases hjl : j < st.done.length
          · rw [getElem_append_singleton_lt _ _ _ hjl] at hjb
            exact hcov' j hjl hjb
          · have hje : j = st.done.length := by omega
            subst hje
            simp at hjb
            omega
    · try dsimp only
      intro _ j hj
      (try dsimp only at hj)
      by_cases hjj : (j : Int) + 1 ≤ st.binId
      · obtain ⟨p, hp, hpb⟩ := h.used hne j hjj
        exact ⟨p, List.mem_append_left _ hp, hpb⟩
      · refine ⟨_, List.mem_append_right _ (List.mem_singleton.mpr rfl), ?_⟩
        (try simp only []); omega

end Ibl

namespace Ibl
open Pack

theorem inv2_init (I : Inst) (s0 e0 : List Int) (hl : s0.length = e0.length) (hpos : 0 < s0.length) :
    Inv2 I [] { done := [], starts := s0.set 0 0, ends := e0.set 0 0, binId := 1 } := by
  refine ⟨rfl, by simp, by simp, by simp, by simp, by simp, by simp [hl], by dsimp only; simp only [List.length_nil]; omega, ?_, by simp⟩
  intro b hb1 hb2
  have : b = 1 := by dsimp only at hb2; omega
  subst this
  refine ⟨0, 0, ?_, ?_, by omega, by omega, by simp, by simp⟩
  · simp [List.getElem?_set_self hpos]
  · simp [List.getElem?_set_self (by omega : 0 < e0.length)]

theorem run2_inv (I : Inst) (hv : I.Valid) (rest : List Int) (xs : List Int) (st : St2) (h : Inv2 I xs st)
    (hrest : ∀ v ∈ rest, v ≠ 0 ∧ v.natAbs ≤ I.nTypes) (hroom : st.done.length + rest.length ≤ st.starts.length) :
    ∃ st', run2 I rest st = some st' ∧ Inv2 I (xs ++ rest) st' := by
  induction rest generalizing xs st with
  | nil => exact ⟨st, rfl, by simpa using h⟩
  | cons v t ih =>
    simp only [List.length_cons] at hroom
    obtain ⟨st1, h1, h2, h2l⟩ := step2_inv I hv xs st v h (hrest v (by simp)).1 (hrest v (by simp)).2 (by omega)
    have hlen1 : st1.done.length = st.done.length + 1 := by
      have a := congrArg List.length h2.ids
      have b := congrArg List.length h.ids
      simp at a b
      omega
    obtain ⟨st2, h3, h4⟩ := ih (xs ++ [v]) st1 h2 (fun u hu => hrest u (by simp [hu])) (by omega)
    refine ⟨st2, ?_, by simpa using h4⟩
    simp [run2, h1, h3]

end Ibl
