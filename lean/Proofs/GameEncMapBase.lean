import Proofs.GameEnc
namespace GameEnc

/-! ### arithmetic of the kernel = documented decoding -/

theorem homeOf_cast (n : Nat) (hn : 2 ≤ n) (g : Int) :
    ((homeOf n g : Nat) : Int) = (g / ((n : Int) - 1)) % (n : Int) := by
  unfold homeOf
  have h1 := Int.emod_nonneg (g / ((n : Int) - 1)) (b := (n : Int)) (by omega)
  omega

theorem awayOf_cast (n : Nat) (hn : 2 ≤ n) (g : Int) :
    ((awayOf n g : Nat) : Int) =
      if g % ((n : Int) - 1) ≥ (g / ((n : Int) - 1)) % (n : Int) then g % ((n : Int) - 1) + 1
      else g % ((n : Int) - 1) := by
  have hh := homeOf_cast n hn g
  have h3 := Int.emod_nonneg g (b := (n : Int) - 1) (by omega)
  unfold awayOf
  simp only []
  split <;> split <;> omega

theorem gameLoop_cons (days n : Nat) (hn : 2 ≤ n) (g : Int) (xs : List Int) (y : Plan) :
    gameLoop days (n : Int) (g :: xs) y =
      (placeGame (homeOf n g : Nat) (awayOf n g : Nat) days 0 y >>= fun y' => gameLoop days (n : Int) xs y') := by
  have hd : ((n : Int) - 1) ≠ 0 := by omega
  have hn0 : (n : Int) ≠ 0 := by omega
  rw [homeOf_cast n hn g, awayOf_cast n hn g]
  simp only [gameLoop, floorDiv, pyMod, hd, hn0, if_false, bind, Except.bind,
    Int.fdiv_eq_ediv_of_nonneg g (show (0 : Int) ≤ (n : Int) - 1 by omega),
    Int.fmod_eq_emod_of_nonneg _ (show (0 : Int) ≤ (n : Int) by omega),
    Int.fmod_eq_emod_of_nonneg g (show (0 : Int) ≤ (n : Int) - 1 by omega)]

/-! ### checked accessors on a `days × n` plan -/

def setEntry (y : Plan) (d t : Nat) (v : Int) : Plan := y.set d ((y.getD d []).set t v)

theorem shape_row (y : Plan) (days n d : Nat) (hs : Shape y days n) (hd : d < days) :
    ∃ row, y[d]? = some row ∧ row.length = n ∧ y.getD d [] = row := by
  have hlt : d < y.length := by rw [hs.1]; exact hd
  refine ⟨y[d], List.getElem?_eq_getElem hlt, hs.2 _ (List.getElem_mem hlt), ?_⟩
  simp [List.getD_eq_getElem?_getD, List.getElem?_eq_getElem hlt]

theorem get_ok (y : Plan) (days n d t : Nat) (hs : Shape y days n) (hd : d < days) (ht : t < n) :
    get y d (t : Int) = .ok (entry y d t) := by
  obtain ⟨row, h1, h2, h3⟩ := shape_row y days n d hs hd
  have hlt : t < row.length := by omega
  unfold get entry
  rw [if_neg (by omega), h1, h3]
  simp [List.getElem?_eq_getElem hlt, List.getD_eq_getElem?_getD]

theorem set_ok (y : Plan) (days n d t : Nat) (v : Int) (hs : Shape y days n) (hd : d < days) (ht : t < n) :
    set y d (t : Int) v = .ok (setEntry y d t v) := by
  obtain ⟨row, h1, h2, h3⟩ := shape_row y days n d hs hd
  unfold set setEntry
  rw [if_neg (by omega), h1, h3]
  simp [h2, ht]

theorem setEntry_shape (y : Plan) (days n d t : Nat) (v : Int) (hs : Shape y days n) (hd : d < days) :
    Shape (setEntry y d t v) days n := by
  obtain ⟨row0, h1, h2, h3⟩ := shape_row y days n d hs hd
  unfold setEntry
  refine ⟨by rw [List.length_set]; exact hs.1, ?_⟩
  intro row hrow
  rcases List.mem_or_eq_of_mem_set hrow with h | h
  · exact hs.2 row h
  · subst h
    rw [List.length_set, h3, h2]

theorem entry_setEntry (y : Plan) (days n d t : Nat) (v : Int) (hs : Shape y days n) (hd : d < days) (ht : t < n)
    (d' t' : Nat) : entry (setEntry y d t v) d' t' = if d' = d ∧ t' = t then v else entry y d' t' := by
  obtain ⟨row, h1, h2, h3⟩ := shape_row y days n d hs hd
  unfold entry setEntry
  rw [h3]
  simp only [List.getD_eq_getElem?_getD, List.getElem?_set]
  have hlt : d < y.length := by rw [hs.1]; exact hd
  by_cases hdd : d = d'
  · subst hdd
    simp only [hlt, if_true, Option.getD_some]
    by_cases htt : t = t'
    · subst htt; simp [h2, ht]
    · have : ¬ (t' = t) := fun h => htt h.symm
      simp [htt, this, h1]
  · have : ¬ (d' = d) := fun h => hdd h.symm
    simp [hdd, this]

end GameEnc
