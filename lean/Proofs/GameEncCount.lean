import Proofs.GameEnc
namespace GameEnc

theorem sum_range_succ (f : Nat → Nat) (n : Nat) :
    ((List.range (n + 1)).map f).sum = ((List.range n).map f).sum + f n := by
  rw [List.range_succ, List.map_append, List.sum_append]; simp

theorem sum_range_congr (f g : Nat → Nat) (n : Nat) (h : ∀ i < n, f i = g i) :
    ((List.range n).map f).sum = ((List.range n).map g).sum := by
  congr 1
  apply List.map_congr_left
  intro i hi
  exact h i (List.mem_range.mp hi)

theorem countP_range_congr (p q : Nat → Bool) (n : Nat) (h : ∀ i < n, p i = q i) :
    (List.range n).countP p = (List.range n).countP q := by
  apply List.countP_congr
  intro i hi
  rw [h i (List.mem_range.mp hi)]

/-- counting a point predicate over a range -/
theorem countP_range_dirac (b m : Nat) (q : Nat → Bool) :
    (List.range m).countP (fun j => decide (j = b) && q j) = if b < m ∧ q b = true then 1 else 0 := by
  induction m with
  | zero => simp
  | succ k ih =>
    rw [List.range_succ, List.countP_append, ih]
    by_cases hkb : k = b
    · subst hkb
      by_cases hq : q k = true <;> simp [hq]
    · have : (decide (k = b) && q k) = false := by simp [hkb]
      simp only [List.countP_cons, List.countP_nil, this]
      have hlt : (b < k + 1) ↔ (b < k) := by omega
      simp [hlt]

theorem sum_range_dirac (a n : Nat) (c : Nat → Nat) :
    ((List.range n).map (fun i => if i = a then c i else 0)).sum = if a < n then c a else 0 := by
  induction n with
  | zero => simp
  | succ k ih =>
    rw [sum_range_succ, ih]
    by_cases hka : k = a
    · subst hka; simp
    · simp only [hka, if_false]
      by_cases h1 : a < k
      · have : a < k + 1 := by omega
        simp [h1, this]
      · have : ¬ a < k + 1 := by omega
        simp [h1, this]

/-- number of pairs `j < i < n` with `Q i j` -/
def tri (n : Nat) (Q : Nat → Nat → Bool) : Nat :=
  ((List.range n).map (fun i => (List.range i).countP (fun j => Q i j))).sum

theorem tri_congr (n : Nat) (Q Q' : Nat → Nat → Bool) (h : ∀ i < n, ∀ j < i, Q i j = Q' i j) :
    tri n Q = tri n Q' := by
  unfold tri
  apply sum_range_congr
  intro i hi
  exact countP_range_congr _ _ _ (h i hi)

theorem tri_dirac (n a b : Nat) (hab : b < a) (han : a < n) (q : Nat → Nat → Bool) :
    tri n (fun i j => decide (i = a ∧ j = b) && q i j) = if q a b = true then 1 else 0 := by
  unfold tri
  have : ∀ i < n, (List.range i).countP (fun j => decide (i = a ∧ j = b) && q i j)
      = if i = a then (if q a b = true then 1 else 0) else 0 := by
    intro i _
    by_cases hia : i = a
    · subst hia
      have := countP_range_dirac b i (fun j => q i j)
      simp only [hab, true_and] at this
      simpa using this
    · simp [hia]
  rw [sum_range_congr _ _ n this, sum_range_dirac]
  simp [han]

theorem countP_roundGames (P : Int → Bool) (n rounds r : Nat) :
    (roundGames n rounds r).countP P = tri n (fun i j => P (gcode n (orient rounds r i j) i j)) := by
  unfold roundGames tri
  rw [List.countP_flatMap]
  congr 1
  apply List.map_congr_left
  intro i _
  simp only [Function.comp, List.countP_map]
  rfl

theorem countP_pureGames (P : Int → Bool) (n rounds : Nat) :
    (pureGames n rounds).countP P
      = ((List.range rounds).map (fun r => tri n (fun i j => P (gcode n (orient rounds r i j) i j)))).sum := by
  unfold pureGames
  rw [List.countP_flatMap]
  congr 1
  apply List.map_congr_left
  intro r _
  simp only [Function.comp, countP_roundGames]

/-- what the game predicates say about the code of an oriented pair -/
theorem isGame_gcode (n h a i j : Nat) (o : Bool) (hji : j < i) (hin : i < n) :
    IsGame n h a (gcode n o i j) = if o then (i == h && j == a) else (j == h && i == a) := by
  unfold IsGame gcode
  cases o
  · simp only [Bool.false_eq_true, if_false]
    rw [home_enc n j i (by omega) hin (by omega), away_enc n j i (by omega) hin (by omega)]
  · simp only [if_true]
    rw [home_enc n i j hin (by omega) (by omega), away_enc n i j hin (by omega) (by omega)]

theorem home_gcode (n i j : Nat) (o : Bool) (hji : j < i) (hin : i < n) :
    homeOf n (gcode n o i j) = if o then i else j := by
  unfold gcode
  cases o
  · simp only [Bool.false_eq_true, if_false]
    rw [home_enc n j i (by omega) hin (by omega)]
  · simp only [if_true]
    rw [home_enc n i j hin (by omega) (by omega)]

theorem away_gcode (n i j : Nat) (o : Bool) (hji : j < i) (hin : i < n) :
    awayOf n (gcode n o i j) = if o then j else i := by
  unfold gcode
  cases o
  · simp only [Bool.false_eq_true, if_false]
    rw [away_enc n j i (by omega) hin (by omega)]
  · simp only [if_true]
    rw [away_enc n i j hin (by omega) (by omega)]

end GameEnc
