import Proofs.GameEncMapBase
namespace GameEnc

/-! ### `leastDay` is the least day -/

theorem leastDay_none (p : Nat → Bool) (m : Nat) : leastDay p m = none ↔ ∀ d < m, p d = false := by
  induction m with
  | zero => simp [leastDay]
  | succ k ih =>
    cases hl : leastDay p k with
    | some d0 =>
      simp only [leastDay, hl, reduceCtorEq, false_iff]
      intro h
      have : leastDay p k = none := ih.mpr (fun d hd => h d (by omega))
      rw [this] at hl; cases hl
    | none =>
      have hk := ih.mp hl
      simp only [leastDay, hl]
      by_cases hp : p k = true
      · simp only [hp, if_true, reduceCtorEq, false_iff]
        intro h
        have := h k (by omega)
        rw [hp] at this; cases this
      · have hp' : p k = false := by simpa using hp
        simp only [hp', Bool.false_eq_true, if_false, true_iff]
        intro d hd
        by_cases hdk : d = k
        · subst hdk; exact hp'
        · exact hk d (by omega)

theorem leastDay_some (p : Nat → Bool) (m d : Nat) :
    leastDay p m = some d ↔ d < m ∧ p d = true ∧ ∀ d' < d, p d' = false := by
  induction m generalizing d with
  | zero => simp [leastDay]
  | succ k ih =>
    cases hl : leastDay p k with
    | some d0 =>
      simp only [leastDay, hl, Option.some.injEq]
      obtain ⟨h1, h2, h3⟩ := (ih d0).mp hl
      constructor
      · intro h; subst h; exact ⟨by omega, h2, h3⟩
      · intro ⟨g1, g2, g3⟩
        by_cases hlt : d < d0
        · have := h3 d hlt; rw [g2] at this; cases this
        · by_cases hgt : d0 < d
          · have := g3 d0 hgt; rw [h2] at this; cases this
          · omega
    | none =>
      have hk := (leastDay_none p k).mp hl
      simp only [leastDay, hl]
      by_cases hp : p k = true
      · simp only [hp, if_true, Option.some.injEq]
        constructor
        · intro h; subst h; exact ⟨by omega, hp, hk⟩
        · intro ⟨g1, g2, _⟩
          by_cases hdk : d < k
          · have := hk d hdk; rw [g2] at this; cases this
          · omega
      · have hp' : p k = false := by simpa using hp
        simp only [hp', Bool.false_eq_true, if_false, reduceCtorEq, false_iff]
        intro ⟨g1, g2, _⟩
        by_cases hdk : d < k
        · have := hk d hdk; rw [g2] at this; cases this
        · have : d = k := by omega
          subst this; rw [hp'] at g2; cases g2

theorem leastDay_congr (p q : Nat → Bool) (m : Nat) (h : ∀ d < m, p d = q d) : leastDay p m = leastDay q m := by
  induction m with
  | zero => rfl
  | succ k ih =>
    simp only [leastDay, ih (fun d hd => h d (by omega)), h k (by omega)]

/-! ### the day loop finds the least free day -/

/-- the plan after putting `h` vs `a` on day `d` -/
def placeAt (y : Plan) (d h a : Nat) : Plan :=
  setEntry (setEntry y d h ((a : Int) + 1)) d a (-((h : Int) + 1))

/-- the loop's test: day `d` is not blocked for `h` and `a` -/
def openDay (y : Plan) (h a d : Nat) : Bool := entry y d h == 0 && entry y d a == 0

theorem placeGame_spec (y : Plan) (days n h a : Nat) (hs : Shape y days n) (hh : h < n) (ha : a < n) :
    ∀ k day, day + k = days → (∀ d' < day, openDay y h a d' = false) →
      placeGame (h : Int) (a : Int) k day y =
        .ok (match leastDay (openDay y h a) days with
             | some d => placeAt y d h a
             | none => y) := by
  intro k
  induction k with
  | zero =>
    intro day hday hblocked
    have : leastDay (openDay y h a) days = none :=
      (leastDay_none _ _).mpr (fun d hd => hblocked d (by omega))
    simp [placeGame, this]
  | succ k ih =>
    intro day hday hblocked
    have hd : day < days := by omega
    unfold placeGame
    simp only [get_ok y days n day h hs hd hh, get_ok y days n day a hs hd ha, bind, Except.bind]
    by_cases h1 : entry y day h = 0
    · by_cases h2 : entry y day a = 0
      · have hopen : openDay y h a day = true := by simp [openDay, h1, h2]
        have : leastDay (openDay y h a) days = some day :=
          (leastDay_some _ _ _).mpr ⟨hd, hopen, hblocked⟩
        simp only [h1, h2, ne_eq, not_true_eq_false, if_false, this]
        rw [set_ok y days n day h _ hs hd hh]
        simp only []
        rw [set_ok _ days n day a _ (setEntry_shape y days n day h _ hs hd) hd ha]
        rfl
      · have hclosed : openDay y h a day = false := by simp [openDay, h2]
        simp only [h1, h2, ne_eq, not_true_eq_false, not_false_eq_true, if_false, if_true]
        exact ih (day + 1) (by omega) (fun d' hd' => by
          by_cases e : d' = day
          · subst e; exact hclosed
          · exact hblocked d' (by omega))
    · have hclosed : openDay y h a day = false := by simp [openDay, h1]
      simp only [h1, ne_eq, not_false_eq_true, if_true]
      exact ih (day + 1) (by omega) (fun d' hd' => by
        by_cases e : d' = day
        · subst e; exact hclosed
        · exact hblocked d' (by omega))

end GameEnc
