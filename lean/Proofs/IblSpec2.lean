import Proofs.IblSpec1
/-!
C14 — refinement, part 3: encoding 2 (`decode2?`) computes the documented first-fit packing.
Key step: under the invariant `Inv2`, the index window `[bin_starts[b-1], bin_ends[b-1])` filtered by
`bin == b` is exactly the list of all rows of bin `b` written so far, in placement order.
-/
namespace IblSpec
open Pack Ibl

/-! ### a filtered index window that covers all matching rows is the filtered list -/

theorem filter_take_nil {α} (l : List α) (p : α → Bool) (s : Nat)
    (h : ∀ (j : Nat) (hj : j < l.length), p l[j] = true → s ≤ j) : (l.take s).filter p = [] := by
  rw [List.filter_eq_nil_iff]
  intro a ha hpa
  obtain ⟨j, hm, rfl⟩ := List.mem_take_iff_getElem.mp ha
  have := h j (by omega) hpa
  omega

theorem filter_drop_nil {α} (l : List α) (p : α → Bool) (e : Nat)
    (h : ∀ (j : Nat) (hj : j < l.length), p l[j] = true → j < e) : (l.drop e).filter p = [] := by
  rw [List.filter_eq_nil_iff]
  intro a ha hpa
  obtain ⟨j, hm, rfl⟩ := List.mem_drop_iff_getElem.mp ha
  have := h (e + j) (by omega) hpa
  omega

theorem filter_window {α} (l : List α) (p : α → Bool) (s e : Nat) (hse : s ≤ e)
    (h : ∀ (j : Nat) (hj : j < l.length), p l[j] = true → s ≤ j ∧ j < e) :
    ((l.take e).drop s).filter p = l.filter p := by
  have h1 : l = (l.take s ++ (l.take e).drop s) ++ l.drop e := by
    have a : l.take s = (l.take e).take s := by rw [List.take_take]; congr 1; omega
    rw [a, List.take_append_drop, List.take_append_drop]
  have h2 := filter_take_nil l p s (fun j hj hp => (h j hj hp).1)
  have h3 := filter_drop_nil l p e (fun j hj hp => (h j hj hp).2)
  conv => rhs; rw [h1]
  rw [List.filter_append, List.filter_append, h2, h3]
  simp

/-- **the window of encoding 2 is the bin**: for every open bin `b`, what `__move_down`/`__move_left`
look at — rows `bin_starts[b-1] ≤ j < bin_ends[b-1]` with `y[j].bin == b` — are exactly the rows of bin
`b` placed so far, in placement order -/
theorem window2_eq_bin' (I : Inst) (xs : List Int) (st : St2) (hinv : Inv2 I xs st) (b : Int) (hb1 : 1 ≤ b)
    (hb2 : b ≤ st.binId) (s e : Int) (hs : st.starts[(b - 1).toNat]? = some s)
    (he : st.ends[(b - 1).toNat]? = some e) :
    window2? st.done s e b = some (st.done.filter (fun p => p.bin = b)) := by
  obtain ⟨s', e', hs', he', hs0, hse, hel, hcov⟩ := hinv.range b hb1 hb2
  rw [hs] at hs'; rw [he] at he'
  simp only [Option.some.injEq] at hs' he'
  subst hs' he'
  unfold window2?
  rw [if_neg (by omega)]
  congr 1
  apply filter_window st.done (fun p => decide (p.bin = b)) s.toNat e.toNat (by omega)
  intro j hj hp
  have := hcov j hj (by simpa using hp)
  omega

/-! ### the bins of the spec as filters of the rows written so far -/

/-- bins number `n, n+1, …, n+k-1` of the rows `done` -/
def binsOf (done : List Row) (n k : Nat) : Bins :=
  (List.range' n k).map (fun (m : Nat) => done.filter (fun p => p.bin = (m : Int)))

theorem binsOf_succ (done : List Row) (n k : Nat) :
    binsOf done n (k + 1) = done.filter (fun p => p.bin = (n : Int)) :: binsOf done (n + 1) k := by
  unfold binsOf
  rw [List.range'_succ]
  rfl

theorem binsOf_length (done : List Row) (n k : Nat) : (binsOf done n k).length = k := by
  unfold binsOf; simp

/-- a new row whose bin number is outside the range leaves these bins unchanged -/
theorem binsOf_append_other (done : List Row) (r : Row) (n k : Nat)
    (h : ∀ m : Nat, n ≤ m → m < n + k → r.bin ≠ (m : Int)) : binsOf (done ++ [r]) n k = binsOf done n k := by
  unfold binsOf
  apply List.map_congr_left
  intro m hm
  have hm' := List.mem_range'_1.mp hm
  rw [List.filter_append]
  have : [r].filter (fun p => decide (p.bin = (m : Int))) = [] := by
    simp [h m hm'.1 hm'.2]
  rw [this]; simp

theorem filter_append_same (done : List Row) (r : Row) (m : Int) (h : r.bin = m) :
    (done ++ [r]).filter (fun p => p.bin = m) = done.filter (fun p => p.bin = m) ++ [r] := by
  rw [List.filter_append]
  simp [h]

theorem filter_append_other (done : List Row) (r : Row) (m : Int) (h : r.bin ≠ m) :
    (done ++ [r]).filter (fun p => p.bin = m) = done.filter (fun p => p.bin = m) := by
  rw [List.filter_append]
  simp [h]

/-! ### trying the open bins -/

theorem tryBins_refines (I : Inst) (xs : List Int) (st : St2) (hinv : Inv2 I xs st) (id w h : Int)
    (hw1 : 1 ≤ w) (hw2 : w ≤ I.W) (hh1 : 1 ≤ h) (hh2 : h ≤ I.H) (k n : Nat)
    (hn1 : 1 ≤ n) (hbk : (n : Int) + k = st.binId + 1) :
    ∃ res, tryBins I st id w h k n = some res ∧
      (res = none → firstAccepting I id w h (binsOf st.done n k) n = none) ∧
      ∀ row b', res = some (row, b') →
        firstAccepting I id w h (binsOf st.done n k) n = some (row, binsOf (st.done ++ [row]) n k) ∧
        row.bin = b' ∧ (n : Int) ≤ b' ∧ b' ≤ st.binId := by
  induction k generalizing n with
  | zero =>
    refine ⟨none, rfl, ?_, by simp⟩
    intro _
    simp [binsOf, firstAccepting]
  | succ k ih =>
    obtain ⟨s, e, hs, he, hs0, hse, hel, hcov⟩ := hinv.range n (by omega) (by omega)
    have hwin := window2_eq_bin' I xs st hinv n (by omega) (by omega) s e hs he
    unfold tryBins
    rw [hs, he]
    simp only []
    rw [hwin]
    simp only []
    rw [binsOf_succ]
    unfold firstAccepting
    have hwin_in : ∀ p ∈ st.done.filter (fun p => p.bin = (n : Int)), InBin I p :=
      fun p hp => hinv.inside p (List.mem_filter.mp hp).1
    rw [placeInBin_eq I _ hwin_in id w h hw1 hw2 hh1 (by omega)]
    generalize settle (fuelFor (startRow I id w h)) (st.done.filter (fun p => p.bin = (n : Int)))
      (startRow I id w h) = r
    by_cases hfit : r.r ≤ I.W ∧ r.t ≤ I.H
    · rw [if_pos hfit, if_pos hfit]
      refine ⟨_, rfl, by simp, ?_⟩
      intro row b' hrow
      simp only [Option.some.injEq, Prod.mk.injEq] at hrow
      obtain ⟨rfl, rfl⟩ := hrow
      refine ⟨?_, rfl, by omega, by omega⟩
      simp only []
      rw [binsOf_succ, filter_append_same st.done _ (n : Int) rfl, binsOf_append_other]
      intro m hm1 hm2
      simp only []
      omega
    · rw [if_neg hfit, if_neg hfit]
      obtain ⟨res, h1, h2, h3⟩ := ih (n + 1) (by omega) (by push_cast; omega)
      have hcast : ((n : Int) + 1) = ((n + 1 : Nat) : Int) := by push_cast; rfl
      rw [hcast]
      refine ⟨res, h1, ?_, ?_⟩
      · intro hn
        simp only []
        rw [h2 hn]
      · intro row b' hrow
        obtain ⟨g1, g2, g3, g4⟩ := h3 row b' hrow
        simp only []
        rw [g1]
        refine ⟨?_, g2, by push_cast at g3; omega, g4⟩
        simp only []
        rw [binsOf_succ, filter_append_other st.done row (n : Int) (by push_cast at g3; omega)]

/-- link between the state of encoding 2 and the spec's list of bins -/
def R2 (st : St2) (bins : Bins) : Prop := bins = binsOf st.done 1 st.binId.toNat

theorem step2_refines (I : Inst) (hv : I.Valid) (xs : List Int) (st : St2) (v : Int) (h : Inv2 I xs st)
    (hv0 : v ≠ 0) (hr : v.natAbs ≤ I.nTypes) (hroom : st.done.length < st.starts.length)
    (bins : Bins) (hR : R2 st bins) :
    ∃ st' id w hh, step2 I st v = some st' ∧ Inv2 I (xs ++ [v]) st' ∧ st'.starts.length = st.starts.length ∧
      orient I v = some (id, w, hh) ∧
      st'.done = st.done ++ [(firstFitPlace I bins id w hh).1] ∧ R2 st' (firstFitPlace I bins id w hh).2 := by
  obtain ⟨st', hs, hinv', hlen'⟩ := step2_inv I hv xs st v h hv0 hr hroom
  obtain ⟨it, w, hh, hd, hit, hor, hw1, hw2, hh1, hh2⟩ := dims?_spec I hv v hv0 hr
  refine ⟨st', (v.natAbs : Int), w, hh, hs, hinv', hlen', by rw [orient_eq_dims?]; exact hd, ?_⟩
  have hbp := h.bpos
  have hbt : ((st.binId.toNat : Nat) : Int) = st.binId := by omega
  obtain ⟨res, htry, hnone, hsome⟩ := tryBins_refines I xs st h (v.natAbs : Int) w hh hw1 hw2 hh1 hh2
    st.binId.toNat 1 (by omega) (by omega)
  unfold step2 at hs
  rw [hd] at hs
  simp only [] at hs
  have htry' : tryBins I st (↑v.natAbs) w hh st.binId.toNat 1 = some res := by exact_mod_cast htry
  rw [htry'] at hs
  unfold firstFitPlace
  unfold R2 at hR ⊢
  rw [hR]
  cases res with
  | some rb =>
    obtain ⟨row, b⟩ := rb
    obtain ⟨g1, g2, g3, g4⟩ := hsome row b rfl
    rw [g1]
    simp only [] at hs ⊢
    split at hs
    · simp only [Option.some.injEq] at hs
      subst hs
      exact ⟨rfl, rfl⟩
    · simp at hs
  | none =>
    rw [hnone rfl]
    simp only [] at hs ⊢
    split at hs
    · simp only [Option.some.injEq] at hs
      subst hs
      simp only [openBin, binsOf_length]
      have hrow : (⟨(v.natAbs : Int), ((st.binId.toNat : Nat) : Int) + 1, 0, 0, w, hh⟩ : Row)
          = ⟨(v.natAbs : Int), st.binId + 1, 0, 0, w, hh⟩ := by rw [hbt]
      rw [hrow]
      refine ⟨rfl, ?_⟩
      have ht : (st.binId + 1).toNat = st.binId.toNat + 1 := by omega
      rw [ht]
      unfold binsOf
      rw [List.range'_concat, List.map_append]
      congr 1
      · apply List.map_congr_left
        intro m hm
        have hm' := List.mem_range'_1.mp hm
        rw [filter_append_other]
        simp only []
        omega
      · simp only [List.map_cons, List.map_nil]
        have hc : ((1 + 1 * st.binId.toNat : Nat) : Int) = st.binId + 1 := by push_cast; omega
        rw [hc, filter_append_same st.done _ (st.binId + 1) rfl]
        have : st.done.filter (fun p => decide (p.bin = st.binId + 1)) = [] := by
          rw [List.filter_eq_nil_iff]
          intro a ha hpa
          have := h.bins a ha
          simp only [decide_eq_true_eq] at hpa
          omega
        rw [this]; rfl
    · simp at hs

theorem run2_refines (I : Inst) (hv : I.Valid) (rest : List Int) (xs : List Int) (st : St2) (h : Inv2 I xs st)
    (hrest : ∀ v ∈ rest, v ≠ 0 ∧ v.natAbs ≤ I.nTypes) (hroom : st.done.length + rest.length ≤ st.starts.length)
    (bins : Bins) (hR : R2 st bins) :
    ∃ st' rows, run2 I rest st = some st' ∧ Inv2 I (xs ++ rest) st' ∧
      pack I (firstFitPlace I) bins rest = some (rows, st'.binId) ∧ st'.done = st.done ++ rows ∧
      st'.starts.length = st.starts.length := by
  induction rest generalizing xs st bins with
  | nil =>
    refine ⟨st, [], rfl, by simpa using h, ?_, by simp, rfl⟩
    unfold R2 at hR
    have := h.bpos
    simp only [pack, Option.some.injEq, Prod.mk.injEq, true_and]
    rw [hR, binsOf_length]; omega
  | cons v t ih =>
    simp only [List.length_cons] at hroom
    obtain ⟨st1, id, w, hh, h1, h2, h2l, ho, hdone, hR1⟩ := step2_refines I hv xs st v h (hrest v (by simp)).1
      (hrest v (by simp)).2 (by omega) bins hR
    have hlen1 : st1.done.length = st.done.length + 1 := by rw [hdone]; simp
    obtain ⟨st2, rows, h3, h4, h5, h6, h7⟩ := ih (xs ++ [v]) st1 h2 (fun u hu => hrest u (by simp [hu])) (by omega) _ hR1
    refine ⟨st2, (firstFitPlace I bins id w hh).1 :: rows, ?_, by simpa using h4, ?_, ?_, by omega⟩
    · simp [run2, h1, h3]
    · simp only [pack, ho, h5]
    · rw [h6, hdone]; simp

end IblSpec
