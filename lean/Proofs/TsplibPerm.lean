import Mathlib.Data.List.Perm.Subperm
import Mathlib.Tactic.Ring
import Mathlib.Tactic.Linarith
/-! pigeonhole: a duplicate-free list of `k` numbers below `k` is a permutation of `0..k-1` (C18) -/
namespace Tsplib

theorem perm_range_of_nodup_lt (l : List Nat) (hnd : l.Nodup) (hlt : ∀ x ∈ l, x < l.length) :
    l.Perm (List.range l.length) := by
  apply List.Subperm.perm_of_length_le
  · apply List.subperm_of_subset hnd
    intro x hx
    simpa using hlt x hx
  · simp

/-- one step of the triangular-number count of the UPPER_ROW listing -/
theorem tri_step (m L : Nat) (h : 2 * L = m * (m - 1)) : 2 * (m + L) = (m + 1) * m := by
  cases m with
  | zero => simp at h; omega
  | succ k =>
    simp only [Nat.add_sub_cancel] at h
    nlinarith [h]

/-- arithmetic core of "TSPLIB95's ATT rule is the ceiling": with `r = sqrt(A / B)`, `t = nint(r)` and
`d = t + 1 if t < r else t`, `d` is characterised by `(d-1)² B < A ≤ d² B` -/
theorem att_ceil_arith (A B d : ℕ) (hB : 0 < B) :
    (∃ t, (t = d ∨ t + 1 = d) ∧
        (4 * A < (2 * t + 1) * (2 * t + 1) * B ∧ (t = 0 ∨ (2 * t - 1) * (2 * t - 1) * B ≤ 4 * A)) ∧
        d = if t * t * B < A then t + 1 else t) ↔
      (A ≤ d * d * B ∧ (d = 0 ∨ (d - 1) * (d - 1) * B < A)) := by
  constructor
  · rintro ⟨t, htd, ⟨h1, h2⟩, h3⟩
    rcases htd with rfl | rfl
    · -- t = d
      by_cases hlt : t * t * B < A
      · simp [hlt] at h3
      · refine ⟨by omega, ?_⟩
        rcases t with _ | k
        · exact Or.inl rfl
        · right
          rcases h2 with h2 | h2
          · omega
          · simp only [Nat.add_sub_cancel]
            have e : 2 * (k + 1) - 1 = 2 * k + 1 := by omega
            rw [e] at h2
            nlinarith [h2, hB]
    · -- t + 1 = d
      by_cases hlt : t * t * B < A
      · refine ⟨?_, Or.inr (by simpa using hlt)⟩
        nlinarith [h1, hB]
      · simp [hlt] at h3
  · rintro ⟨h1, h2⟩
    rcases d with _ | k
    · have hA : A = 0 := by simpa using h1
      subst hA
      exact ⟨0, Or.inl rfl, ⟨by simpa using hB, Or.inl rfl⟩, by simp⟩
    · have h2' : k * k * B < A := by
        rcases h2 with h | h
        · omega
        · simpa using h
      by_cases hc : 4 * A < (2 * k + 1) * (2 * k + 1) * B
      · refine ⟨k, Or.inr rfl, ⟨hc, ?_⟩, by simp [h2']⟩
        rcases k with _ | j
        · exact Or.inl rfl
        · right
          have e : 2 * (j + 1) - 1 = 2 * j + 1 := by omega
          rw [e]
          nlinarith [h2', hB]
      · refine ⟨k + 1, Or.inl rfl, ⟨?_, Or.inr ?_⟩, ?_⟩
        · nlinarith [h1, hB]
        · have e : 2 * (k + 1) - 1 = 2 * k + 1 := by omega
          rw [e]; omega
        · have : ¬ (k + 1) * (k + 1) * B < A := by omega
          simp [this]

/-- the characterisation of `nint(sqrt(A / B))` determines the value -/
theorem nint_unique_arith (A B r r' : ℕ)
    (h : 4 * A < (2 * r + 1) * (2 * r + 1) * B ∧ (r = 0 ∨ (2 * r - 1) * (2 * r - 1) * B ≤ 4 * A))
    (h' : 4 * A < (2 * r' + 1) * (2 * r' + 1) * B ∧ (r' = 0 ∨ (2 * r' - 1) * (2 * r' - 1) * B ≤ 4 * A)) :
    r = r' := by
  have key : ∀ a b : ℕ, a < b → 4 * A < (2 * a + 1) * (2 * a + 1) * B →
      (b = 0 ∨ (2 * b - 1) * (2 * b - 1) * B ≤ 4 * A) → False := by
    intro a b hab h1 h2
    rcases h2 with h2 | h2
    · omega
    · obtain ⟨k, rfl⟩ : ∃ k, b = k + 1 := ⟨b - 1, by omega⟩
      have e : 2 * (k + 1) - 1 = 2 * k + 1 := by omega
      rw [e] at h2
      have hak : a ≤ k := by omega
      have : (2 * a + 1) * (2 * a + 1) ≤ (2 * k + 1) * (2 * k + 1) := Nat.mul_le_mul (by omega) (by omega)
      have := Nat.mul_le_mul_right B this
      omega
  rcases Nat.lt_trichotomy r r' with hlt | heq | hgt
  · exact (key r r' hlt h.1 h'.2).elim
  · exact heq
  · exact (key r' r hgt h'.1 h.2).elim

/-- the characterisation of `⌈sqrt(A / B)⌉` determines the value -/
theorem ceil_unique_arith (A B r r' : ℕ)
    (h : A ≤ r * r * B ∧ (r = 0 ∨ (r - 1) * (r - 1) * B < A))
    (h' : A ≤ r' * r' * B ∧ (r' = 0 ∨ (r' - 1) * (r' - 1) * B < A)) : r = r' := by
  have key : ∀ a b : ℕ, a < b → A ≤ a * a * B → (b = 0 ∨ (b - 1) * (b - 1) * B < A) → False := by
    intro a b hab h1 h2
    rcases h2 with h2 | h2
    · omega
    · have hak : a ≤ b - 1 := by omega
      have : a * a ≤ (b - 1) * (b - 1) := Nat.mul_le_mul hak hak
      have := Nat.mul_le_mul_right B this
      omega
  rcases Nat.lt_trichotomy r r' with hlt | heq | hgt
  · exact (key r r' hlt h.1 h'.2).elim
  · exact heq
  · exact (key r' r hgt h'.1 h.2).elim

end Tsplib
