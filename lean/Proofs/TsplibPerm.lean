import Mathlib.Data.List.Perm.Subperm
import Mathlib.Tactic.Ring
import Mathlib.Tactic.Linarith
/-! pigeonhole: a duplicate-free list of `k` numbers below `k` is a permutation of `0..k-1` (C18) -/
namespace Tsplib

theorem perm_range_of_nodup_lt (l : List Nat) (hnd : l.Nodup) (hlt : ∀ x ∈ l, x < l.length) :
    l.Perm (List.range l.length) := by
  apply List.Subperm.perm_of_length_le
  · apply List.subperm_of_subset hnd
    intro x hx
    simpa using hlt x hx
  · simp

/-- one step of the triangular-number count of the UPPER_ROW listing -/
theorem tri_step (m L : Nat) (h : 2 * L = m * (m - 1)) : 2 * (m + L) = (m + 1) * m := by
  cases m with
  | zero => simp at h; omega
  | succ k =>
    simp only [Nat.add_sub_cancel] at h
    nlinarith [h]

end Tsplib
