import Model.IblSpec
import Proofs.Ibl
import Proofs.Ibl2
/-!
C14 — refinement of the array-level decoder model (`Model/Ibl.lean`) to the documented procedure
(`Model/IblSpec.lean`).  Part 1: the two moves and the settle loop.  Core Lean only.
-/
namespace IblSpec
open Pack Ibl

/-! ### `highest`: characterisation as the greatest element -/

theorem highest_ge_wall (w : Int) (l : List Int) : w ≤ highest w l := by
  unfold highest
  induction l generalizing w with
  | nil => simp
  | cons a t ih => simp only [List.foldl_cons]; have := ih (max w a); omega

theorem highest_ge_mem (w : Int) (l : List Int) : ∀ y ∈ l, y ≤ highest w l := by
  unfold highest
  induction l generalizing w with
  | nil => simp
  | cons a t ih =>
    intro y hy
    simp only [List.foldl_cons]
    simp only [List.mem_cons] at hy
    rcases hy with rfl | hy
    · have := highest_ge_wall (max w y) t; unfold highest at this; omega
    · exact ih _ y hy

theorem highest_mem (w : Int) (l : List Int) : highest w l = w ∨ highest w l ∈ l := by
  unfold highest
  induction l generalizing w with
  | nil => simp
  | cons a t ih =>
    simp only [List.foldl_cons, List.mem_cons]
    rcases ih (max w a) with h | h
    · rw [h]; omega
    · exact Or.inr (Or.inr h)

/-- the greatest element of `wall :: stops` is unique -/
theorem eq_highest (w : Int) (l : List Int) (x : Int) (h1 : x = w ∨ x ∈ l) (h2 : w ≤ x)
    (h3 : ∀ y ∈ l, y ≤ x) : x = highest w l := by
  have a := highest_ge_wall w l
  have b := highest_ge_mem w l
  rcases highest_mem w l with h | h
  · rcases h1 with h1 | h1
    · omega
    · have := b x h1; omega
  · have := h3 _ h
    rcases h1 with h1 | h1
    · omega
    · have := b x h1; omega

/-! ### the code's conditional running minimum -/

theorem foldl_condmin {α} (C : α → Prop) [DecidablePred C] (g : α → Int) (l : List α) (init : Int) :
    l.foldl (fun m p => if C p then min m (g p) else m) init ≤ init ∧
    (∀ p ∈ l, C p → l.foldl (fun m p => if C p then min m (g p) else m) init ≤ g p) ∧
    (l.foldl (fun m p => if C p then min m (g p) else m) init = init ∨
      ∃ p ∈ l, C p ∧ l.foldl (fun m p => if C p then min m (g p) else m) init = g p) := by
  induction l generalizing init with
  | nil => simp
  | cons a t ih =>
    simp only [List.foldl_cons]
    by_cases hc : C a
    · rw [if_pos hc]
      obtain ⟨h1, h2, h3⟩ := ih (min init (g a))
      refine ⟨by omega, ?_, ?_⟩
      · intro p hp hcp
        simp only [List.mem_cons] at hp
        rcases hp with rfl | hp
        · omega
        · exact h2 p hp hcp
      · rcases h3 with h3 | ⟨p, hp, hcp, h3⟩
        · by_cases hm : init ≤ g a
          · left; omega
          · right; exact ⟨a, by simp, hc, by omega⟩
        · right; exact ⟨p, by simp [hp], hcp, h3⟩
    · rw [if_neg hc]
      obtain ⟨h1, h2, h3⟩ := ih init
      refine ⟨h1, ?_, ?_⟩
      · intro p hp hcp
        simp only [List.mem_cons] at hp
        rcases hp with rfl | hp
        · exact absurd hcp hc
        · exact h2 p hp hcp
      · rcases h3 with h3 | ⟨p, hp, hcp, h3⟩
        · left; exact h3
        · right; exact ⟨p, by simp [hp], hcp, h3⟩

/-! ### falling -/

/-- the code's minimum of distances is the distance to the spec's maximum of stop levels -/
theorem minDown_eq (win : List Row) (c : Row) : minDown win c = c.b - dropLevel win c := by
  obtain ⟨h1, h2, h3⟩ := foldl_condmin (fun p : Row => p.r > c.l ∧ p.l < c.r ∧ p.b < c.t)
    (fun p => c.b - p.t) win c.b
  have hv : minDown win c = win.foldl (fun m p => if p.r > c.l ∧ p.l < c.r ∧ p.b < c.t
      then min m (c.b - p.t) else m) c.b := rfl
  rw [← hv] at h1 h2 h3
  have : c.b - minDown win c = dropLevel win c := by
    unfold dropLevel
    apply eq_highest
    · rcases h3 with h3 | ⟨p, hp, hcp, h3⟩
      · left; omega
      · right
        simp only [List.mem_map]
        refine ⟨p, ?_, by omega⟩
        unfold below
        simp only [List.mem_filter, decide_eq_true_eq]
        exact ⟨hp, ⟨hcp.1, hcp.2.1⟩, hcp.2.2⟩
    · omega
    · intro y hy
      simp only [List.mem_map] at hy
      obtain ⟨p, hp, rfl⟩ := hy
      unfold below at hp
      simp only [List.mem_filter, decide_eq_true_eq] at hp
      have := h2 p hp.1 ⟨hp.2.1.1, hp.2.1.2, hp.2.2⟩
      omega
  omega

theorem down_eq_dropDown (win : List Row) (c : Row) : c.down (minDown win c) = dropDown win c := by
  rw [minDown_eq]
  show c.down (c.b - dropLevel win c) = moveTo c c.l (dropLevel win c)
  generalize dropLevel win c = y
  cases c
  simp only [Row.down, moveTo, Row.mk.injEq, true_and]
  omega

theorem dropLevel_nonneg (placed : List Row) (c : Row) : 0 ≤ dropLevel placed c := highest_ge_wall _ _

theorem dropDown_b (placed : List Row) (c : Row) : (dropDown placed c).b = dropLevel placed c := rfl
theorem dropDown_l (placed : List Row) (c : Row) : (dropDown placed c).l = c.l := rfl

/-! ### sliding left -/

theorem minLeft_step_eq (c : Row) :
    (fun (m : Int) (p : Row) =>
      if p.l ≥ c.r then m
      else if p.r > c.l ∧ p.l < c.r then (if p.t = c.b then min m (c.r - p.l) else m)
      else if c.t > p.b ∧ c.b < p.t then min m (c.l - p.r)
      else m) =
    (fun (m : Int) (p : Row) =>
      if (¬ p.l ≥ c.r ∧ (((p.r > c.l ∧ p.l < c.r) ∧ p.t = c.b) ∨ (¬ (p.r > c.l ∧ p.l < c.r) ∧ (c.t > p.b ∧ c.b < p.t))))
      then min m (if p.r > c.l ∧ p.l < c.r then c.r - p.l else c.l - p.r) else m) := by
  funext m p
  by_cases h1 : p.l ≥ c.r
  · simp [h1]
  · by_cases h2 : p.r > c.l ∧ p.l < c.r
    · by_cases h3 : p.t = c.b
      · simp [h1, h2, h3]
      · simp [h1, h2, h3]
    · by_cases h3 : c.t > p.b ∧ c.b < p.t
      · simp [h1, h2, h3]
      · simp [h1, h2, h3]

theorem minLeft_eq (win : List Row) (c : Row) (hw : ∀ p ∈ win, p.l < p.r) (hc : c.l < c.r) :
    minLeft win c = c.l - leftLevel win c := by
  have hv : minLeft win c = win.foldl (fun (m : Int) (p : Row) =>
      if (¬ p.l ≥ c.r ∧ (((p.r > c.l ∧ p.l < c.r) ∧ p.t = c.b) ∨ (¬ (p.r > c.l ∧ p.l < c.r) ∧ (c.t > p.b ∧ c.b < p.t))))
      then min m (if p.r > c.l ∧ p.l < c.r then c.r - p.l else c.l - p.r) else m) c.l := by
    unfold minLeft
    rw [minLeft_step_eq c]
  obtain ⟨h1, h2, h3⟩ := foldl_condmin
    (fun p : Row => ¬ p.l ≥ c.r ∧ (((p.r > c.l ∧ p.l < c.r) ∧ p.t = c.b) ∨ (¬ (p.r > c.l ∧ p.l < c.r) ∧ (c.t > p.b ∧ c.b < p.t))))
    (fun p => if p.r > c.l ∧ p.l < c.r then c.r - p.l else c.l - p.r) win c.l
  rw [← hv] at h1 h2 h3
  have : c.l - minLeft win c = leftLevel win c := by
    unfold leftLevel
    apply eq_highest
    · rcases h3 with h3 | ⟨p, hp, hcp, h3⟩
      · left; omega
      · right
        simp only [List.mem_append, List.mem_map]
        obtain ⟨hn, hcase⟩ := hcp
        rcases hcase with ⟨hx, ht⟩ | ⟨hx, hy⟩
        · right
          rw [if_pos hx] at h3
          refine ⟨p, ?_, by omega⟩
          unfold supports
          simp only [List.mem_filter, decide_eq_true_eq]
          exact ⟨hp, ht, hx.1, hx.2⟩
        · left
          rw [if_neg hx] at h3
          refine ⟨p, ?_, by omega⟩
          unfold leftBlockers
          simp only [List.mem_filter, decide_eq_true_eq]
          exact ⟨hp, by omega, hy.2, hy.1⟩
    · omega
    · intro y hy
      simp only [List.mem_append, List.mem_map] at hy
      rcases hy with ⟨p, hp, rfl⟩ | ⟨p, hp, rfl⟩
      · unfold leftBlockers at hp
        simp only [List.mem_filter, decide_eq_true_eq] at hp
        obtain ⟨hp, hpl, hy1, hy2⟩ := hp
        have hpp := hw p hp
        have hx : ¬ (p.r > c.l ∧ p.l < c.r) := by omega
        have := h2 p hp ⟨by omega, Or.inr ⟨hx, hy2, hy1⟩⟩
        rw [if_neg hx] at this
        omega
      · unfold supports at hp
        simp only [List.mem_filter, decide_eq_true_eq] at hp
        obtain ⟨hp, ht, hx1, hx2⟩ := hp
        have hx : p.r > c.l ∧ p.l < c.r := ⟨hx1, hx2⟩
        have := h2 p hp ⟨by omega, Or.inl ⟨hx, ht⟩⟩
        rw [if_pos hx] at this
        omega
  omega

theorem left_eq_slideLeft (win : List Row) (c : Row) (hw : ∀ p ∈ win, p.l < p.r) (hc : c.l < c.r) :
    c.left (minLeft win c) = slideLeft win c := by
  rw [minLeft_eq win c hw hc]
  show c.left (c.l - leftLevel win c) = moveTo c (leftLevel win c) c.b
  generalize leftLevel win c = y
  cases c
  simp only [Row.left, moveTo, Row.mk.injEq, true_and]
  omega

theorem leftLevel_nonneg (placed : List Row) (c : Row) : 0 ≤ leftLevel placed c := highest_ge_wall _ _
theorem slideLeft_l (placed : List Row) (c : Row) : (slideLeft placed c).l = leftLevel placed c := rfl
theorem slideLeft_b (placed : List Row) (c : Row) : (slideLeft placed c).b = c.b := rfl

/-! ### the settle loop -/

theorem settle_eq_settleN (win : List Row) (hw : ∀ p ∈ win, p.l < p.r) (fuel : Nat) (c : Row) (hc : c.l < c.r) :
    settle fuel win c = settleN fuel win c := by
  induction fuel generalizing c with
  | zero => rfl
  | succ n ih =>
    unfold settle settleN
    simp only []
    have hd := minDown_eq win c
    have hl := minLeft_eq win c hw hc
    by_cases h1 : minDown win c > 0
    · rw [if_pos h1, if_pos (show (dropDown win c).b < c.b by rw [dropDown_b]; omega), down_eq_dropDown]
      exact ih _ (by unfold dropDown moveTo; simp only []; omega)
    · rw [if_neg h1, if_neg (show ¬ (dropDown win c).b < c.b by rw [dropDown_b]; omega)]
      by_cases h2 : minLeft win c > 0
      · rw [if_pos h2, if_pos (show (slideLeft win c).l < c.l by rw [slideLeft_l]; omega),
          left_eq_slideLeft win c hw hc]
        exact ih _ (by unfold slideLeft moveTo; simp only []; omega)
      · rw [if_neg h2, if_neg (show ¬ (slideLeft win c).l < c.l by rw [slideLeft_l]; omega)]

/-- neither a fall nor a left slide would move the item -/
def AtRest (placed : List Row) (r : Row) : Prop :=
  ¬ (dropDown placed r).b < r.b ∧ ¬ (slideLeft placed r).l < r.l

theorem settleN_at_rest (placed : List Row) (n : Nat) (c : Row) (h : c.b.toNat + c.l.toNat < n) :
    AtRest placed (settleN n placed c) := by
  induction n generalizing c with
  | zero => omega
  | succ n ih =>
    unfold settleN
    simp only []
    by_cases h1 : (dropDown placed c).b < c.b
    · rw [if_pos h1]
      apply ih
      have := dropLevel_nonneg placed c
      rw [dropDown_b] at h1 ⊢
      rw [dropDown_l]
      omega
    · rw [if_neg h1]
      by_cases h2 : (slideLeft placed c).l < c.l
      · rw [if_pos h2]
        apply ih
        have := leftLevel_nonneg placed c
        rw [slideLeft_l] at h2 ⊢
        rw [slideLeft_b]
        omega
      · rw [if_neg h2]
        exact ⟨h1, h2⟩

theorem settleN_fuel_irrelevant (placed : List Row) (n m : Nat) (c : Row) (h : c.b.toNat + c.l.toNat < n)
    (hm : c.b.toNat + c.l.toNat < m) : settleN m placed c = settleN n placed c := by
  induction n generalizing c m with
  | zero => omega
  | succ n ih =>
    cases m with
    | zero => omega
    | succ m =>
      unfold settleN
      simp only []
      by_cases h1 : (dropDown placed c).b < c.b
      · rw [if_pos h1, if_pos h1]
        have := dropLevel_nonneg placed c
        apply ih <;> (rw [dropDown_b] at h1 ⊢; rw [dropDown_l]; omega)
      · rw [if_neg h1, if_neg h1]
        by_cases h2 : (slideLeft placed c).l < c.l
        · rw [if_pos h2, if_pos h2]
          have := leftLevel_nonneg placed c
          apply ih <;> (rw [slideLeft_l] at h2 ⊢; rw [slideLeft_b]; omega)
        · rw [if_neg h2, if_neg h2]

/-- one move of the documented loop: a fall if it moves the item, otherwise a left slide if it moves it -/
inductive Move (placed : List Row) : Row → Row → Prop
  | down (c : Row) : (dropDown placed c).b < c.b → Move placed c (dropDown placed c)
  | left (c : Row) : ¬ (dropDown placed c).b < c.b → (slideLeft placed c).l < c.l → Move placed c (slideLeft placed c)

inductive Moves (placed : List Row) : Row → Row → Prop
  | refl (c : Row) : Moves placed c c
  | step {a b c : Row} : Move placed a b → Moves placed b c → Moves placed a c

theorem move_deterministic (placed : List Row) (a b b' : Row) (h : Move placed a b) (h' : Move placed a b') : b = b' := by
  cases h with
  | down h1 => cases h' with
    | down _ => rfl
    | left h2 _ => exact absurd h1 h2
  | left h1 h1' => cases h' with
    | down h2 => exact absurd h2 h1
    | left _ _ => rfl

theorem atRest_no_move (placed : List Row) (a b : Row) (hr : AtRest placed a) (h : Move placed a b) : False := by
  cases h with
  | down h1 => exact hr.1 h1
  | left _ h2 => exact hr.2 h2

theorem settleN_moves (placed : List Row) (n : Nat) (c : Row) : Moves placed c (settleN n placed c) := by
  induction n generalizing c with
  | zero => exact Moves.refl c
  | succ n ih =>
    unfold settleN
    simp only []
    by_cases h1 : (dropDown placed c).b < c.b
    · rw [if_pos h1]; exact Moves.step (Move.down c h1) (ih _)
    · rw [if_neg h1]
      by_cases h2 : (slideLeft placed c).l < c.l
      · rw [if_pos h2]; exact Moves.step (Move.left c h1 h2) (ih _)
      · rw [if_neg h2]; exact Moves.refl c

theorem rest_unique (placed : List Row) (c r1 r2 : Row) (h1 : Moves placed c r1) (a1 : AtRest placed r1)
    (h2 : Moves placed c r2) (a2 : AtRest placed r2) : r1 = r2 := by
  induction h1 with
  | refl c =>
    cases h2 with
    | refl => rfl
    | step m _ => exact (atRest_no_move placed _ _ a1 m).elim
  | step m _ ih =>
    cases h2 with
    | refl => exact (atRest_no_move placed _ _ a2 m).elim
    | step m' rest' =>
      have := move_deterministic placed _ _ _ m m'
      subst this
      exact ih a1 rest'

/-! ### orientation -/

theorem orient_eq_dims? (I : Inst) (v : Int) : orient I v = dims? I v := by
  unfold orient dims? Inst.item?
  by_cases h0 : v = 0
  · subst h0; simp
  · by_cases hneg : v < 0
    · have hu : ¬ (-(v + 1) < 0) := by omega
      have hi : ¬ ((v.natAbs : Int) ≤ 0) := by omega
      have e1 : (-(v + 1)).toNat = ((v.natAbs : Int) - 1).toNat := by omega
      simp only [if_pos hneg, if_neg hu, if_neg hi, e1]
      cases I.items[((v.natAbs : Int) - 1).toNat]? with
      | none => rfl
      | some it =>
        simp only []
        have e2 : -(v + 1) + 1 = (v.natAbs : Int) := by omega
        by_cases hf : it.h ≤ I.W ∧ it.w ≤ I.H
        · have : ¬ (it.h > I.W ∨ it.w > I.H) := by omega
          simp [hf, this, e2]
        · have : (it.h > I.W ∨ it.w > I.H) := by omega
          simp [hf, this, e2]
    · have hu : ¬ (v - 1 < 0) := by omega
      have hi : ¬ ((v.natAbs : Int) ≤ 0) := by omega
      have e1 : (v - 1).toNat = ((v.natAbs : Int) - 1).toNat := by omega
      simp only [if_neg hneg, if_neg hu, if_neg hi, e1]
      cases I.items[((v.natAbs : Int) - 1).toNat]? with
      | none => rfl
      | some it =>
        simp only []
        have e2 : v - 1 + 1 = (v.natAbs : Int) := by omega
        by_cases hf : it.w ≤ I.W ∧ it.h ≤ I.H
        · have : ¬ (it.w > I.W ∨ it.h > I.H) := by omega
          simp [hf, this, e2]
        · have : (it.w > I.W ∨ it.h > I.H) := by omega
          simp [hf, this, e2]

end IblSpec
