import Model.TextCsv
import Proofs.Text
/-! helper lemmas for C19 (part 2): sorted key sets, association lists, column titles -/
namespace Csv
open Text

/-! ### order on strings (code point order = lexicographic order on `List Char`) -/

theorem str_lt_irrefl (a : Str) : ¬ a < a := List.lt_irrefl a
theorem str_lt_asymm {a b : Str} (h : a < b) : ¬ b < a := List.lt_asymm h
theorem str_lt_trans {a b c : Str} (h1 : a < b) (h2 : b < c) : a < c := List.lt_trans h1 h2
theorem str_eq_of_not_lt {a b : Str} (h1 : ¬ a < b) (h2 : ¬ b < a) : a = b :=
  List.le_antisymm (List.not_lt.mp h2) (List.not_lt.mp h1)

/-! ### `sorted(set(..))` -/

theorem mem_insKey {k x : Str} {l : List Str} : x ∈ insKey k l ↔ x = k ∨ x ∈ l := by
  induction l with
  | nil => simp [insKey]
  | cons a l ih =>
    simp only [insKey]
    split
    · simp
    · split
      · simp only [List.mem_cons, ih]
        constructor
        · rintro (h | h | h) <;> simp [h]
        · rintro (h | h | h) <;> simp [h]
      · rename_i h1 h2
        have : k = a := str_eq_of_not_lt h1 h2
        subst this
        simp

theorem sorted_insKey {k : Str} {l : List Str} (h : l.Pairwise (· < ·)) : (insKey k l).Pairwise (· < ·) := by
  induction l with
  | nil => simp [insKey]
  | cons a l ih =>
    have hl := (List.pairwise_cons.mp h)
    simp only [insKey]
    split
    · rename_i hka
      refine List.pairwise_cons.mpr ⟨?_, h⟩
      intro x hx
      rcases List.mem_cons.mp hx with rfl | hx
      · exact hka
      · exact str_lt_trans hka (hl.1 x hx)
    · split
      · rename_i _ hak
        refine List.pairwise_cons.mpr ⟨?_, ih hl.2⟩
        intro x hx
        rcases mem_insKey.mp hx with rfl | hx
        · exact hak
        · exact hl.1 x hx
      · exact h

theorem mem_sortedSet {x : Str} {l : List Str} : x ∈ sortedSet l ↔ x ∈ l := by
  induction l with
  | nil => simp [sortedSet]
  | cons a l ih =>
    simp only [sortedSet, List.foldr_cons] at ih ⊢
    rw [mem_insKey, ih]; simp

theorem sorted_sortedSet (l : List Str) : (sortedSet l).Pairwise (· < ·) := by
  induction l with
  | nil => simp [sortedSet]
  | cons a l ih => exact sorted_insKey ih

theorem nodup_of_sorted {l : List Str} (h : l.Pairwise (· < ·)) : l.Nodup := by
  unfold List.Nodup
  exact h.imp (fun {a b} hab e => by subst e; exact str_lt_irrefl _ hab)

/-- inserting into a strictly sorted list an element smaller than all: it goes to the front -/
theorem insKey_lt_all {k : Str} {l : List Str} (h : ∀ x ∈ l, k < x) : insKey k l = k :: l := by
  cases l with
  | nil => rfl
  | cons a l => simp [insKey, h a (by simp)]

/-- a strictly sorted list is a fixed point -/
theorem sortedSet_of_sorted {l : List Str} (h : l.Pairwise (· < ·)) : sortedSet l = l := by
  induction l with
  | nil => rfl
  | cons a l ih =>
    have hl := List.pairwise_cons.mp h
    simp only [sortedSet, List.foldr_cons] at ih ⊢
    rw [ih hl.2, insKey_lt_all hl.1]

/-- strictly sorted lists with the same members are equal -/
theorem sorted_ext {l₁ l₂ : List Str} (h1 : l₁.Pairwise (· < ·)) (h2 : l₂.Pairwise (· < ·))
    (h : ∀ x, x ∈ l₁ ↔ x ∈ l₂) : l₁ = l₂ := by
  induction l₁ generalizing l₂ with
  | nil =>
    cases l₂ with
    | nil => rfl
    | cons b t => exact absurd ((h b).mpr (by simp)) (by simp)
  | cons a s ih =>
    cases l₂ with
    | nil => exact absurd ((h a).mp (by simp)) (by simp)
    | cons b t =>
      have p1 := List.pairwise_cons.mp h1
      have p2 := List.pairwise_cons.mp h2
      have hab : a = b := by
        have ha : a ∈ b :: t := (h a).mp (by simp)
        have hb : b ∈ a :: s := (h b).mpr (by simp)
        rcases List.mem_cons.mp ha with e | ha
        · exact e
        · rcases List.mem_cons.mp hb with e | hb
          · exact e.symm
          · exact absurd (p2.1 a ha) (str_lt_asymm (p1.1 b hb))
      subst hab
      congr 1
      apply ih p1.2 p2.2
      intro x
      constructor
      · intro hx
        have : x ∈ a :: t := (h x).mp (by simp [hx])
        rcases List.mem_cons.mp this with e | hx'
        · subst e; exact absurd (p1.1 x hx) (str_lt_irrefl _)
        · exact hx'
      · intro hx
        have : x ∈ a :: s := (h x).mpr (by simp [hx])
        rcases List.mem_cons.mp this with e | hx'
        · subst e; exact absurd (p2.1 x hx) (str_lt_irrefl _)
        · exact hx'

/-- `sorted(set(l))` only depends on the members of `l` -/
theorem sortedSet_congr {l₁ l₂ : List Str} (h : ∀ x, x ∈ l₁ ↔ x ∈ l₂) : sortedSet l₁ = sortedSet l₂ :=
  sorted_ext (sorted_sortedSet _) (sorted_sortedSet _) (fun x => by rw [mem_sortedSet, mem_sortedSet, h])

/-! ### `sorted(items)` -/

theorem mem_insPair {p x : Str × Nat} {l : List (Str × Nat)} : x ∈ insPair p l ↔ x = p ∨ x ∈ l := by
  induction l with
  | nil => simp [insPair]
  | cons a l ih =>
    simp only [insPair]
    split
    · simp only [List.mem_cons, ih]
      constructor
      · rintro (h | h | h) <;> simp [h]
      · rintro (h | h | h) <;> simp [h]
    · simp

theorem mem_sortPairs {x : Str × Nat} {l : List (Str × Nat)} : x ∈ sortPairs l ↔ x ∈ l := by
  induction l with
  | nil => simp [sortPairs]
  | cons a l ih =>
    simp only [sortPairs, List.foldr_cons] at ih ⊢
    rw [mem_insPair, ih]; simp

theorem length_insPair (p : Str × Nat) (l : List (Str × Nat)) : (insPair p l).length = l.length + 1 := by
  induction l with
  | nil => rfl
  | cons a l ih => simp only [insPair]; split <;> simp [ih]

theorem length_sortPairs (l : List (Str × Nat)) : (sortPairs l).length = l.length := by
  induction l with
  | nil => rfl
  | cons a l ih =>
    simp only [sortPairs, List.foldr_cons] at ih ⊢
    rw [length_insPair, ih]; simp

/-- sorting pairs with distinct keys gives strictly increasing keys -/
theorem sorted_insPair {p : Str × Nat} {l : List (Str × Nat)} (h : (l.map (·.1)).Pairwise (· < ·))
    (hp : p.1 ∉ l.map (·.1)) : ((insPair p l).map (·.1)).Pairwise (· < ·) := by
  induction l with
  | nil => simp [insPair]
  | cons a l ih =>
    simp only [List.map_cons] at h hp
    have hl := List.pairwise_cons.mp h
    have hpa : p.1 ≠ a.1 := fun e => hp (by simp [e])
    have hpl : p.1 ∉ l.map (·.1) := fun e => hp (by simp [e])
    simp only [insPair]
    split
    · rename_i hap
      simp only [List.map_cons]
      refine List.pairwise_cons.mpr ⟨?_, ih hl.2 hpl⟩
      intro x hx
      obtain ⟨q, hq, rfl⟩ := List.mem_map.mp hx
      rcases mem_insPair.mp hq with rfl | hq
      · exact hap
      · exact hl.1 _ (List.mem_map.mpr ⟨q, hq, rfl⟩)
    · rename_i hap
      have hlt : p.1 < a.1 := by
        rcases List.le_iff_lt_or_eq.mp (List.not_lt.mp hap) with h | h
        · exact h
        · exact absurd h hpa
      simp only [List.map_cons]
      refine List.pairwise_cons.mpr ⟨?_, h⟩
      intro x hx
      rcases List.mem_cons.mp hx with rfl | hx
      · exact hlt
      · exact str_lt_trans hlt (hl.1 x hx)

theorem sorted_sortPairs {l : List (Str × Nat)} (h : (l.map (·.1)).Nodup) :
    ((sortPairs l).map (·.1)).Pairwise (· < ·) := by
  induction l with
  | nil => simp [sortPairs]
  | cons a l ih =>
    simp only [List.map_cons, List.nodup_cons] at h
    simp only [sortPairs, List.foldr_cons] at ih ⊢
    apply sorted_insPair (ih h.2)
    intro hm
    obtain ⟨q, hq, he⟩ := List.mem_map.mp hm
    exact h.1 (List.mem_map.mpr ⟨q, mem_sortPairs.mp hq, he⟩)

theorem insPair_lt_all {p : Str × Nat} {l : List (Str × Nat)} (h : ∀ x ∈ l, p.1 < x.1) :
    insPair p l = p :: l := by
  cases l with
  | nil => rfl
  | cons a l => simp [insPair, str_lt_asymm (h a (by simp))]

theorem sortPairs_of_sorted {l : List (Str × Nat)} (h : (l.map (·.1)).Pairwise (· < ·)) : sortPairs l = l := by
  induction l with
  | nil => rfl
  | cons a l ih =>
    simp only [List.map_cons] at h
    have hl := List.pairwise_cons.mp h
    simp only [sortPairs, List.foldr_cons] at ih ⊢
    rw [ih hl.2, insPair_lt_all (fun x hx => hl.1 _ (List.mem_map.mpr ⟨x, hx, rfl⟩))]

/-! ### association lists with strictly increasing keys -/

theorem lookup_eq_none_of_not_mem {β : Type} {m : List (Str × β)} {k : Str} (h : k ∉ m.map (·.1)) :
    m.lookup k = none := by
  rw [List.lookup_eq_none_iff]
  intro p hp
  simp only [bne_iff_ne, ne_eq]
  intro e
  exact h (List.mem_map.mpr ⟨p, hp, e.symm⟩)

theorem lookup_of_mem {β : Type} {m : List (Str × β)} (hs : (m.map (·.1)).Nodup) {p : Str × β} (hp : p ∈ m) :
    m.lookup p.1 = some p.2 := by
  induction m with
  | nil => cases hp
  | cons a m ih =>
    simp only [List.map_cons, List.nodup_cons] at hs
    rcases List.mem_cons.mp hp with rfl | hp'
    · cases p; simp
    · have hne : p.1 ≠ a.1 := fun e => hs.1 (List.mem_map.mpr ⟨p, hp', e⟩)
      cases a with
      | mk ak av =>
        simp only [List.lookup_cons]
        have : (p.1 == ak) = false := by simpa using hne
        rw [this]
        exact ih hs.2 hp'

theorem mem_of_lookup {β : Type} {m : List (Str × β)} {k : Str} {v : β} (h : m.lookup k = some v) :
    (k, v) ∈ m := by
  induction m with
  | nil => simp at h
  | cons a m ih =>
    cases a with
    | mk ak av =>
      simp only [List.lookup_cons] at h
      split at h
      · rename_i he
        have : k = ak := by simpa using he
        cases h; subst this; simp
      · exact List.mem_cons_of_mem _ (ih h)

/-- reading the map back key by key, over a strictly increasing list of keys that contains all of its keys -/
theorem restrict_eq {β : Type} (ks : List Str) (m : List (Str × β)) (hk : ks.Pairwise (· < ·))
    (hm : (m.map (·.1)).Pairwise (· < ·)) (hsub : ∀ p ∈ m, p.1 ∈ ks) :
    ks.filterMap (fun k => (m.lookup k).map (fun v => (k, v))) = m := by
  induction ks generalizing m with
  | nil =>
    cases m with
    | nil => rfl
    | cons p m => exact absurd (hsub p (by simp)) (by simp)
  | cons k ks ih =>
    have hk' := List.pairwise_cons.mp hk
    cases m with
    | nil =>
      have : ∀ ks' : List Str, ks'.filterMap (fun k => (([] : List (Str × β)).lookup k).map (fun v => (k, v))) = [] := by
        intro ks'; induction ks' with
        | nil => rfl
        | cons a t iht => simp
      exact this _
    | cons p m =>
      cases p with
      | mk pk pv =>
        simp only [List.map_cons] at hm
        have hm' := List.pairwise_cons.mp hm
        by_cases hkp : k = pk
        · subst hkp
          have hhead : List.lookup k ((k, pv) :: m) = some pv := by simp
          rw [List.filterMap_cons, hhead]
          simp only [Option.map_some]
          congr 1
          have hrest : ∀ k' ∈ ks, (List.lookup k' ((k, pv) :: m)) = List.lookup k' m := by
            intro k' hk''
            have : k' ≠ k := fun e => str_lt_irrefl _ (e ▸ hk'.1 k' hk'')
            simp only [List.lookup_cons]
            have : (k' == k) = false := by simpa using this
            rw [this]
          have hcongr : ∀ (l : List Str), (∀ k' ∈ l, List.lookup k' ((k, pv) :: m) = List.lookup k' m) →
              l.filterMap (fun k' => (List.lookup k' ((k, pv) :: m)).map (fun v => (k', v))) =
              l.filterMap (fun k' => (List.lookup k' m).map (fun v => (k', v))) := by
            intro l hl
            induction l with
            | nil => rfl
            | cons a t iht =>
              simp only [List.filterMap_cons, hl a (by simp)]
              rw [iht (fun k' hk'' => hl k' (by simp [hk'']))]
          rw [hcongr ks hrest]
          apply ih m hk'.2 hm'.2
          intro q hq
          have := hsub q (by simp [hq])
          rcases List.mem_cons.mp this with e | h
          · exact absurd (e ▸ hm'.1 q.1 (List.mem_map.mpr ⟨q, hq, rfl⟩)) (str_lt_irrefl _)
          · exact h
        · -- `k` is smaller than every key of the map: not in it
          have hpk : pk ∈ ks := by
            have := hsub (pk, pv) (by simp)
            rcases List.mem_cons.mp this with e | h
            · exact absurd e.symm hkp
            · exact h
          have hlt : k < pk := hk'.1 pk hpk
          have hnot : k ∉ ((pk, pv) :: m).map (·.1) := by
            intro hmem
            simp only [List.map_cons, List.mem_cons] at hmem
            rcases hmem with e | hmem
            · exact hkp e
            · exact str_lt_asymm hlt (hm'.1 k hmem)
          simp only [List.filterMap_cons, lookup_eq_none_of_not_mem hnot, Option.map_none]
          apply ih _ hk'.2 (by simpa using hm)
          intro q hq
          have := hsub q hq
          rcases List.mem_cons.mp this with e | h
          · exact absurd (List.mem_map.mpr ⟨q, hq, e⟩) hnot
          · exact h

/-! ### the cell under a title -/

/-- the cell of row `data` in the column titled `k` -/
def cellAt (H data : List Str) (k : Str) : Option Str := (H.zip data).lookup k

theorem cellAt_append (H₁ H₂ D₁ D₂ : List Str) (k : Str) (h : H₁.length = D₁.length) :
    cellAt (H₁ ++ H₂) (D₁ ++ D₂) k = (cellAt H₁ D₁ k).or (cellAt H₂ D₂ k) := by
  unfold cellAt
  rw [List.zip_append h, List.lookup_append]

theorem cellAt_none {H D : List Str} {k : Str} (h : k ∉ H) : cellAt H D k = none := by
  unfold cellAt
  apply lookup_eq_none_of_not_mem
  intro hm
  obtain ⟨p, hp, rfl⟩ := List.mem_map.mp hm
  exact h (List.of_mem_zip hp).1

/-- reading by index = reading by title, for a header without duplicates -/
theorem getElem?_eq_cellAt {H data : List Str} (hn : H.Nodup) {i : Nat} (hi : i < H.length)
    (hl : data.length = H.length) : data[i]? = cellAt H data H[i] := by
  induction H generalizing data i with
  | nil => simp at hi
  | cons a H ih =>
    cases data with
    | nil => simp at hl
    | cons d data =>
      simp only [List.nodup_cons] at hn
      cases i with
      | zero => simp [cellAt]
      | succ j =>
        have hj : j < H.length := by simpa using hi
        have hne : H[j] ≠ a := fun e => hn.1 (e ▸ List.getElem_mem hj)
        have hb : (H[j] == a) = false := by simpa using hne
        simp only [List.getElem?_cons_succ, List.getElem_cons_succ, cellAt, List.zip_cons_cons,
          List.lookup_cons, hb]
        exact ih hn.2 hj (by simpa using hl)

theorem getElem?_of_mem_zipIdx {H data : List Str} (hn : H.Nodup) {k : Str} {i : Nat}
    (hm : (k, i) ∈ H.zipIdx) (hl : data.length = H.length) : data[i]? = cellAt H data k := by
  have := List.mem_zipIdx hm
  simp only [Nat.zero_add, Nat.sub_zero, Nat.zero_le, true_and] at this
  obtain ⟨hi, hk⟩ := this
  rw [hk]
  exact getElem?_eq_cellAt hn hi hl

theorem cellAt_map {α : Type} (ks : List α) (g f : α → Str) (k : α) (hk : k ∈ ks)
    (hinj : ∀ a ∈ ks, g a = g k → f a = f k) : cellAt (ks.map g) (ks.map f) (g k) = some (f k) := by
  induction ks with
  | nil => cases hk
  | cons a ks ih =>
    simp only [cellAt, List.map_cons, List.zip_cons_cons, List.lookup_cons]
    by_cases e : g k = g a
    · have : (g k == g a) = true := by simpa using e
      rw [this]; simp [hinj a (by simp) e.symm]
    · have : (g k == g a) = false := by simpa using e
      rw [this]
      rcases List.mem_cons.mp hk with rfl | hk'
      · exact absurd rfl e
      · exact ih hk' (fun b hb => hinj b (by simp [hb]))

/-- columns made of one group of titles per key (`flatMap`) -/
theorem cellAt_flatMap {α : Type} (ks : List α) (T D : α → List Str) (hlen : ∀ a, (T a).length = (D a).length)
    (k : α) (hk : k ∈ ks) (t : Str) (ht : t ∈ T k)
    (hdisj : ∀ a ∈ ks, t ∈ T a → D a = D k ∧ T a = T k) :
    cellAt (ks.flatMap T) (ks.flatMap D) t = cellAt (T k) (D k) t := by
  induction ks with
  | nil => cases hk
  | cons a ks ih =>
    simp only [List.flatMap_cons]
    rw [cellAt_append _ _ _ _ _ (hlen a)]
    by_cases hta : t ∈ T a
    · obtain ⟨e1, e2⟩ := hdisj a (by simp) hta
      rw [e1, e2]
      have : ∃ v, cellAt (T k) (D k) t = some v := by
        unfold cellAt
        cases hq : (List.lookup t ((T k).zip (D k))) with
        | some v => exact ⟨v, rfl⟩
        | none =>
          rw [List.lookup_eq_none_iff] at hq
          obtain ⟨i, hi, rfl⟩ := List.getElem_of_mem ht
          have hi' : i < (D k).length := by rw [← hlen k]; exact hi
          have := hq ((T k)[i], (D k)[i]) (by
            rw [List.mem_iff_getElem]
            exact ⟨i, by simp only [List.length_zip]; omega, by simp⟩)
          simp at this
      obtain ⟨v, hv⟩ := this
      simp [hv]
    · rw [cellAt_none hta, Option.none_or]
      rcases List.mem_cons.mp hk with rfl | hk'
      · exact absurd ht hta
      · exact ih hk' (fun b hb => hdisj b (by simp [hb]))

/-! ### `csv_write` trims, `csv_read` pads -/

theorem takeWhile_all {α : Type} (p : α → Bool) (l : List α) : ∀ x ∈ l.takeWhile p, p x = true := by
  induction l with
  | nil => simp
  | cons a l ih =>
    intro x hx
    simp only [List.takeWhile_cons] at hx
    split at hx
    · rcases List.mem_cons.mp hx with rfl | hx
      · assumption
      · exact ih x hx
    · cases hx

theorem trimRow_append (cells : List Str) :
    ∃ k, cells = trimRow cells ++ List.replicate k [] ∧ k + (trimRow cells).length = cells.length := by
  unfold trimRow
  generalize hr : cells.reverse = rev
  have hc : cells = rev.reverse := by rw [← hr, List.reverse_reverse]
  have h := List.takeWhile_append_dropWhile (p := fun c : Str => decide (c = [])) (l := rev)
  refine ⟨(rev.takeWhile (fun c : Str => decide (c = []))).length, ?_, ?_⟩
  · rw [hc]
    conv => lhs; rw [← h]
    rw [List.reverse_append]
    congr 1
    rw [List.eq_replicate_iff]
    refine ⟨by simp, fun x hx => ?_⟩
    have := takeWhile_all _ rev x (by simpa using hx)
    simpa using this
  · have h2 := congrArg List.length h
    rw [hc]
    simp only [List.length_append, List.length_reverse] at h2 ⊢
    omega

theorem padRow_trimRow (cells : List Str) (n : Nat) (h : cells.length = n) :
    padRow n (trimRow cells) = some cells := by
  obtain ⟨k, hk, hlen⟩ := trimRow_append cells
  unfold padRow
  have : ¬ (trimRow cells).length > n := by omega
  rw [if_neg this]
  have : n - (trimRow cells).length = k := by omega
  rw [this, ← hk]

end Csv

namespace Csv
open Text

/-! ### column titles -/

theorem dot_mem_scopeKey (o s : Str) : '.' ∈ scopeKey o s := by simp [scopeKey]

theorem scopeKey_inj_left {o o' s : Str} (h : scopeKey o s = scopeKey o' s) : o = o' := by
  unfold scopeKey at h
  exact List.append_cancel_right h

theorem scopeKey_lower_ne_upper (o o' : Str) : scopeKey o sLower ≠ scopeKey o' sUpper := by
  intro h
  unfold scopeKey at h
  have := (List.append_inj' h (by decide)).2
  revert this; decide

theorem split_scopeKey {o s : Str} (ho : '.' ∉ o) (hs : '.' ∉ s) : splitSep '.' (scopeKey o s) = [o, s] := by
  unfold scopeKey
  rw [splitSep_append '.' o s ho, splitSep_token '.' s hs]

theorem splitSep_ne_nil (sep : Char) (s : Str) : splitSep sep s ≠ [] := by
  induction s with
  | nil => simp [splitSep]
  | cons c cs ih =>
    simp only [splitSep]
    split
    · simp
    · split <;> simp

theorem isBoundKey_lower (o : Str) : isBoundKey (scopeKey o sLower) = true := by
  simp only [isBoundKey, Bool.or_eq_true]
  left
  rw [List.isSuffixOf_iff_suffix]
  exact ⟨o ++ ['.'], by simp [scopeKey]⟩

theorem isBoundKey_upper (o : Str) : isBoundKey (scopeKey o sUpper) = true := by
  simp only [isBoundKey, Bool.or_eq_true]
  right
  rw [List.isSuffixOf_iff_suffix]
  exact ⟨o ++ ['.'], by simp [scopeKey]⟩

theorem isBoundKey_name {o : Str} (h : ObjName o) : isBoundKey o = false := h.2.2.2

/-- the titles of an objective are not in the scope of the bin bounds -/
theorem objTitle_not_bins {o t : Str} (ho : ObjName o) (ht : t ∈ objTitles o) :
    ("bins.lowerBound.".toList.isPrefixOf t = false) ∧ t ≠ sBinsLB := by
  obtain ⟨_, hdot, hbins, _⟩ := ho
  have key : ∀ s : Str, '.' ∉ s → ("bins.lowerBound.".toList.isPrefixOf (scopeKey o s) = false) ∧ scopeKey o s ≠ sBinsLB := by
    intro s hs
    constructor
    · cases hp : "bins.lowerBound.".toList.isPrefixOf (scopeKey o s) with
      | false => rfl
      | true =>
        rw [List.isPrefixOf_iff_prefix] at hp
        obtain ⟨rest, hr⟩ := hp
        have h1 := split_scopeKey hdot hs
        rw [← hr] at h1
        have h2 : splitSep '.' ("bins.lowerBound.".toList ++ rest) =
            "bins".toList :: "lowerBound".toList :: splitSep '.' rest := by
          have : "bins.lowerBound.".toList ++ rest = "bins".toList ++ '.' :: ("lowerBound".toList ++ '.' :: rest) := by
            simp
          rw [this, splitSep_append '.' _ _ (by decide), splitSep_append '.' _ _ (by decide)]
        rw [h2] at h1
        have := congrArg List.length h1
        have hne := splitSep_ne_nil '.' rest
        cases hq : splitSep '.' rest with
        | nil => exact absurd hq hne
        | cons a b => rw [hq] at this; simp at this
    · intro he
      have h1 := split_scopeKey hdot hs
      rw [he] at h1
      have h2 : splitSep '.' sBinsLB = ["bins".toList, "lowerBound".toList] := by decide
      rw [h2] at h1
      simp only [List.cons.injEq] at h1
      exact hbins h1.1.symm
  simp only [objTitles, List.mem_cons, List.not_mem_nil, or_false] at ht
  rcases ht with rfl | rfl | rfl
  · exact key sLower (by decide)
  · constructor
    · cases hp : "bins.lowerBound.".toList.isPrefixOf t with
      | false => rfl
      | true =>
        rw [List.isPrefixOf_iff_prefix] at hp
        obtain ⟨rest, hr⟩ := hp
        exact absurd (by rw [← hr]; simp) hdot
    · intro he; rw [he] at hdot; revert hdot; decide
  · exact key sUpper (by decide)

/-- titles of different objectives differ; within one objective the three titles differ -/
theorem objTitles_disjoint {a k t : Str} (ha : ObjName a) (hk : ObjName k) (h1 : t ∈ objTitles a)
    (h2 : t ∈ objTitles k) : a = k := by
  simp only [objTitles, List.mem_cons, List.not_mem_nil, or_false] at h1 h2
  rcases h1 with rfl | rfl | rfl <;> rcases h2 with h2 | h2 | h2
  · exact scopeKey_inj_left h2
  · exact absurd (h2 ▸ dot_mem_scopeKey a sLower) hk.2.1
  · exact absurd h2 (scopeKey_lower_ne_upper a k)
  · exact absurd (h2 ▸ dot_mem_scopeKey k sLower) ha.2.1
  · exact h2
  · exact absurd (h2 ▸ dot_mem_scopeKey k sUpper) ha.2.1
  · exact absurd h2.symm (scopeKey_lower_ne_upper k a)
  · exact absurd (h2 ▸ dot_mem_scopeKey a sUpper) hk.2.1
  · exact scopeKey_inj_left h2

/-- a bin-bound key survives "strip the scope, then re-scope" -/
theorem rescope_strip {k : Str} (h : BBKey k) :
    (if "bins.lowerBound.".toList.isPrefixOf k then some (rescope (k.drop 16))
     else if k = sBinsLB then some (rescope k) else none) = some k := by
  rcases h with rfl | ⟨hp, hne⟩
  · decide
  · rw [if_pos hp]
    congr 1
    unfold rescope
    have hne' : List.drop 16 k ≠ sBinsLB := hne
    rw [if_neg hne']
    rw [List.isPrefixOf_iff_prefix] at hp
    obtain ⟨rest, hr⟩ := hp
    rw [← hr]
    simp [scopeKey, sBinsLB]

end Csv
