import Model.TextCsv
import Proofs.Text
/-! helper lemmas for C19 (part 2): sorted key sets, association lists, column titles -/
namespace Csv
open Text

/-! ### order on strings (code point order = lexicographic order on `List Char`) -/

theorem str_lt_irrefl (a : Str) : ¬ a < a := List.lt_irrefl a
theorem str_lt_asymm {a b : Str} (h : a < b) : ¬ b < a := List.lt_asymm h
theorem str_lt_trans {a b c : Str} (h1 : a < b) (h2 : b < c) : a < c := List.lt_trans h1 h2
theorem str_eq_of_not_lt {a b : Str} (h1 : ¬ a < b) (h2 : ¬ b < a) : a = b :=
  List.le_antisymm (List.not_lt.mp h2) (List.not_lt.mp h1)

/-! ### `sorted(set(..))` -/

theorem mem_insKey {k x : Str} {l : List Str} : x ∈ insKey k l ↔ x = k ∨ x ∈ l := by
  induction l with
  | nil => simp [insKey]
  | cons a l ih =>
    simp only [insKey]
    split
    · simp
    · split
      · simp only [List.mem_cons, ih]
        constructor
        · rintro (h | h | h) <;> simp [h]
        · rintro (h | h | h) <;> simp [h]
      · rename_i h1 h2
        have : k = a := str_eq_of_not_lt h1 h2
        subst this
        simp

theorem sorted_insKey {k : Str} {l : List Str} (h : l.Pairwise (· < ·)) : (insKey k l).Pairwise (· < ·) := by
  induction l with
  | nil => simp [insKey]
  | cons a l ih =>
    have hl := (List.pairwise_cons.mp h)
    simp only [insKey]
    split
    · rename_i hka
      refine List.pairwise_cons.mpr ⟨?_, h⟩
      intro x hx
      rcases List.mem_cons.mp hx with rfl | hx
      · exact hka
      · exact str_lt_trans hka (hl.1 x hx)
    · split
      · rename_i _ hak
        refine List.pairwise_cons.mpr ⟨?_, ih hl.2⟩
        intro x hx
        rcases mem_insKey.mp hx with rfl | hx
        · exact hak
        · exact hl.1 x hx
      · exact h

theorem mem_sortedSet {x : Str} {l : List Str} : x ∈ sortedSet l ↔ x ∈ l := by
  induction l with
  | nil => simp [sortedSet]
  | cons a l ih =>
    simp only [sortedSet, List.foldr_cons] at ih ⊢
    rw [mem_insKey, ih]; simp

theorem sorted_sortedSet (l : List Str) : (sortedSet l).Pairwise (· < ·) := by
  induction l with
  | nil => simp [sortedSet]
  | cons a l ih => exact sorted_insKey ih

theorem nodup_of_sorted {l : List Str} (h : l.Pairwise (· < ·)) : l.Nodup := by
  unfold List.Nodup
  exact h.imp (fun {a b} hab e => by subst e; exact str_lt_irrefl _ hab)

/-- inserting into a strictly sorted list an element smaller than all: it goes to the front -/
theorem insKey_lt_all {k : Str} {l : List Str} (h : ∀ x ∈ l, k < x) : insKey k l = k :: l := by
  cases l with
  | nil => rfl
  | cons a l => simp [insKey, h a (by simp)]

/-- a strictly sorted list is a fixed point -/
theorem sortedSet_of_sorted {l : List Str} (h : l.Pairwise (· < ·)) : sortedSet l = l := by
  induction l with
  | nil => rfl
  | cons a l ih =>
    have hl := List.pairwise_cons.mp h
    simp only [sortedSet, List.foldr_cons] at ih ⊢
    rw [ih hl.2, insKey_lt_all hl.1]

/-- strictly sorted lists with the same members are equal -/
theorem sorted_ext {l₁ l₂ : List Str} (h1 : l₁.Pairwise (· < ·)) (h2 : l₂.Pairwise (· < ·))
    (h : ∀ x, x ∈ l₁ ↔ x ∈ l₂) : l₁ = l₂ := by
  induction l₁ generalizing l₂ with
  | nil =>
    cases l₂ with
    | nil => rfl
    | cons b t => exact absurd ((h b).mpr (by simp)) (by simp)
  | cons a s ih =>
    cases l₂ with
    | nil => exact absurd ((h a).mp (by simp)) (by simp)
    | cons b t =>
      have p1 := List.pairwise_cons.mp h1
      have p2 := List.pairwise_cons.mp h2
      have hab : a = b := by
        have ha : a ∈ b :: t := (h a).mp (by simp)
        have hb : b ∈ a :: s := (h b).mpr (by simp)
        rcases List.mem_cons.mp ha with e | ha
        · exact e
        · rcases List.mem_cons.mp hb with e | hb
          · exact e.symm
          · exact absurd (p2.1 a ha) (str_lt_asymm (p1.1 b hb))
      subst hab
      congr 1
      apply ih p1.2 p2.2
      intro x
      constructor
      · intro hx
        have : x ∈ a :: t := (h x).mp (by simp [hx])
        rcases List.mem_cons.mp this with e | hx'
        · subst e; exact absurd (p1.1 x hx) (str_lt_irrefl _)
        · exact hx'
      · intro hx
        have : x ∈ a :: s := (h x).mpr (by simp [hx])
        rcases List.mem_cons.mp this with e | hx'
        · subst e; exact absurd (p2.1 x hx) (str_lt_irrefl _)
        · exact hx'

/-- `sorted(set(l))` only depends on the members of `l` -/
theorem sortedSet_congr {l₁ l₂ : List Str} (h : ∀ x, x ∈ l₁ ↔ x ∈ l₂) : sortedSet l₁ = sortedSet l₂ :=
  sorted_ext (sorted_sortedSet _) (sorted_sortedSet _) (fun x => by rw [mem_sortedSet, mem_sortedSet, h])

/-! ### `sorted(items)` -/

theorem mem_insPair {p x : Str × Nat} {l : List (Str × Nat)} : x ∈ insPair p l ↔ x = p ∨ x ∈ l := by
  induction l with
  | nil => simp [insPair]
  | cons a l ih =>
    simp only [insPair]
    split
    · simp only [List.mem_cons, ih]
      constructor
      · rintro (h | h | h) <;> simp [h]
      · rintro (h | h | h) <;> simp [h]
    · simp

theorem mem_sortPairs {x : Str × Nat} {l : List (Str × Nat)} : x ∈ sortPairs l ↔ x ∈ l := by
  induction l with
  | nil => simp [sortPairs]
  | cons a l ih =>
    simp only [sortPairs, List.foldr_cons] at ih ⊢
    rw [mem_insPair, ih]; simp

theorem length_insPair (p : Str × Nat) (l : List (Str × Nat)) : (insPair p l).length = l.length + 1 := by
  induction l with
  | nil => rfl
  | cons a l ih => simp only [insPair]; split <;> simp [ih]

theorem length_sortPairs (l : List (Str × Nat)) : (sortPairs l).length = l.length := by
  induction l with
  | nil => rfl
  | cons a l ih =>
    simp only [sortPairs, List.foldr_cons] at ih ⊢
    rw [length_insPair, ih]; simp

/-- sorting pairs with distinct keys gives strictly increasing keys -/
theorem sorted_insPair {p : Str × Nat} {l : List (Str × Nat)} (h : (l.map (·.1)).Pairwise (· < ·))
    (hp : p.1 ∉ l.map (·.1)) : ((insPair p l).map (·.1)).Pairwise (· < ·) := by
  induction l with
  | nil => simp [insPair]
  | cons a l ih =>
    simp only [List.map_cons] at h hp
    have hl := List.pairwise_cons.mp h
    have hpa : p.1 ≠ a.1 := fun e => hp (by simp [e])
    have hpl : p.1 ∉ l.map (·.1) := fun e => hp (by simp [e])
    simp only [insPair]
    split
    · rename_i hap
      simp only [List.map_cons]
      refine List.pairwise_cons.mpr ⟨?_, ih hl.2 hpl⟩
      intro x hx
      obtain ⟨q, hq, rfl⟩ := List.mem_map.mp hx
      rcases mem_insPair.mp hq with rfl | hq
      · exact hap
      · exact hl.1 _ (List.mem_map.mpr ⟨q, hq, rfl⟩)
    · rename_i hap
      have hlt : p.1 < a.1 := by
        rcases List.le_iff_lt_or_eq.mp (List.not_lt.mp hap) with h | h
        · exact h
        · exact absurd h hpa
      simp only [List.map_cons]
      refine List.pairwise_cons.mpr ⟨?_, h⟩
      intro x hx
      rcases List.mem_cons.mp hx with rfl | hx
      · exact hlt
      · exact str_lt_trans hlt (hl.1 x hx)

theorem sorted_sortPairs {l : List (Str × Nat)} (h : (l.map (·.1)).Nodup) :
    ((sortPairs l).map (·.1)).Pairwise (· < ·) := by
  induction l with
  | nil => simp [sortPairs]
  | cons a l ih =>
    simp only [List.map_cons, List.nodup_cons] at h
    simp only [sortPairs, List.foldr_cons] at ih ⊢
    apply sorted_insPair (ih h.2)
    intro hm
    obtain ⟨q, hq, he⟩ := List.mem_map.mp hm
    exact h.1 (List.mem_map.mpr ⟨q, mem_sortPairs.mp hq, he⟩)

theorem insPair_lt_all {p : Str × Nat} {l : List (Str × Nat)} (h : ∀ x ∈ l, p.1 < x.1) :
    insPair p l = p :: l := by
  cases l with
  | nil => rfl
  | cons a l => simp [insPair, str_lt_asymm (h a (by simp))]

theorem sortPairs_of_sorted {l : List (Str × Nat)} (h : (l.map (·.1)).Pairwise (· < ·)) : sortPairs l = l := by
  induction l with
  | nil => rfl
  | cons a l ih =>
    simp only [List.map_cons] at h
    have hl := List.pairwise_cons.mp h
    simp only [sortPairs, List.foldr_cons] at ih ⊢
    rw [ih hl.2, insPair_lt_all (fun x hx => hl.1 _ (List.mem_map.mpr ⟨x, hx, rfl⟩))]

/-! ### association lists with strictly increasing keys -/

theorem lookup_eq_none_of_not_mem {β : Type} {m : List (Str × β)} {k : Str} (h : k ∉ m.map (·.1)) :
    m.lookup k = none := by
  rw [List.lookup_eq_none_iff]
  intro p hp
  simp only [bne_iff_ne, ne_eq]
  intro e
  exact h (List.mem_map.mpr ⟨p, hp, e.symm⟩)

theorem lookup_of_mem {β : Type} {m : List (Str × β)} (hs : (m.map (·.1)).Nodup) {p : Str × β} (hp : p ∈ m) :
    m.lookup p.1 = some p.2 := by
  induction m with
  | nil => cases hp
  | cons a m ih =>
    simp only [List.map_cons, List.nodup_cons] at hs
    rcases List.mem_cons.mp hp with rfl | hp'
    · cases p; simp
    · have hne : p.1 ≠ a.1 := fun e => hs.1 (List.mem_map.mpr ⟨p, hp', e⟩)
      cases a with
      | mk ak av =>
        simp only [List.lookup_cons]
        have : (p.1 == ak) = false := by simpa using hne
        rw [this]
        exact ih hs.2 hp'

theorem mem_of_lookup {β : Type} {m : List (Str × β)} {k : Str} {v : β} (h : m.lookup k = some v) :
    (k, v) ∈ m := by
  induction m with
  | nil => simp at h
  | cons a m ih =>
    cases a with
    | mk ak av =>
      simp only [List.lookup_cons] at h
      split at h
      · rename_i he
        have : k = ak := by simpa using he
        cases h; subst this; simp
      · exact List.mem_cons_of_mem _ (ih h)

/-- reading the map back key by key, over a strictly increasing list of keys that contains all of its keys -/
theorem restrict_eq {β : Type} (ks : List Str) (m : List (Str × β)) (hk : ks.Pairwise (· < ·))
    (hm : (m.map (·.1)).Pairwise (· < ·)) (hsub : ∀ p ∈ m, p.1 ∈ ks) :
    ks.filterMap (fun k => (m.lookup k).map (fun v => (k, v))) = m := by
  induction ks generalizing m with
  | nil =>
    cases m with
    | nil => rfl
    | cons p m => exact absurd (hsub p (by simp)) (by simp)
  | cons k ks ih =>
    have hk' := List.pairwise_cons.mp hk
    cases m with
    | nil =>
      have : ∀ ks' : List Str, ks'.filterMap (fun k => (([] : List (Str × β)).lookup k).map (fun v => (k, v))) = [] := by
        intro ks'; induction ks' with
        | nil => rfl
        | cons a t iht => simp
      exact this _
    | cons p m =>
      cases p with
      | mk pk pv =>
        simp only [List.map_cons] at hm
        have hm' := List.pairwise_cons.mp hm
        by_cases hkp : k = pk
        · subst hkp
          have hhead : List.lookup k ((k, pv) :: m) = some pv := by simp
          rw [List.filterMap_cons, hhead]
          simp only [Option.map_some]
          congr 1
          have hrest : ∀ k' ∈ ks, (List.lookup k' ((k, pv) :: m)) = List.lookup k' m := by
            intro k' hk''
            have : k' ≠ k := fun e => str_lt_irrefl _ (e ▸ hk'.1 k' hk'')
            simp only [List.lookup_cons]
            have : (k' == k) = false := by simpa using this
            rw [this]
          have hcongr : ∀ (l : List Str), (∀ k' ∈ l, List.lookup k' ((k, pv) :: m) = List.lookup k' m) →
              l.filterMap (fun k' => (List.lookup k' ((k, pv) :: m)).map (fun v => (k', v))) =
              l.filterMap (fun k' => (List.lookup k' m).map (fun v => (k', v))) := by
            intro l hl
            induction l with
            | nil => rfl
            | cons a t iht =>
              simp only [List.filterMap_cons, hl a (by simp)]
              rw [iht (fun k' hk'' => hl k' (by simp [hk'']))]
          rw [hcongr ks hrest]
          apply ih m hk'.2 hm'.2
          intro q hq
          have := hsub q (by simp [hq])
          rcases List.mem_cons.mp this with e | h
          · exact absurd (e ▸ hm'.1 q.1 (List.mem_map.mpr ⟨q, hq, rfl⟩)) (str_lt_irrefl _)
          · exact h
        · -- `k` is smaller than every key of the map: not in it
          have hpk : pk ∈ ks := by
            have := hsub (pk, pv) (by simp)
            rcases List.mem_cons.mp this with e | h
            · exact absurd e.symm hkp
            · exact h
          have hlt : k < pk := hk'.1 pk hpk
          have hnot : k ∉ ((pk, pv) :: m).map (·.1) := by
            intro hmem
            simp only [List.map_cons, List.mem_cons] at hmem
            rcases hmem with e | hmem
            · exact hkp e
            · exact str_lt_asymm hlt (hm'.1 k hmem)
          simp only [List.filterMap_cons, lookup_eq_none_of_not_mem hnot, Option.map_none]
          apply ih _ hk'.2 (by simpa using hm)
          intro q hq
          have := hsub q hq
          rcases List.mem_cons.mp this with e | h
          · exact absurd (List.mem_map.mpr ⟨q, hq, e⟩) hnot
          · exact h

/-! ### the cell under a title -/

/-- the cell of row `data` in the column titled `k` -/
def cellAt (H data : List Str) (k : Str) : Option Str := (H.zip data).lookup k

theorem cellAt_append (H₁ H₂ D₁ D₂ : List Str) (k : Str) (h : H₁.length = D₁.length) :
    cellAt (H₁ ++ H₂) (D₁ ++ D₂) k = (cellAt H₁ D₁ k).or (cellAt H₂ D₂ k) := by
  unfold cellAt
  rw [List.zip_append h, List.lookup_append]

theorem cellAt_none {H D : List Str} {k : Str} (h : k ∉ H) : cellAt H D k = none := by
  unfold cellAt
  apply lookup_eq_none_of_not_mem
  intro hm
  obtain ⟨p, hp, rfl⟩ := List.mem_map.mp hm
  exact h (List.of_mem_zip hp).1

/-- reading by index = reading by title, for a header without duplicates -/
theorem getElem?_eq_cellAt {H data : List Str} (hn : H.Nodup) {i : Nat} (hi : i < H.length)
    (hl : data.length = H.length) : data[i]? = cellAt H data H[i] := by
  induction H generalizing data i with
  | nil => simp at hi
  | cons a H ih =>
    cases data with
    | nil => simp at hl
    | cons d data =>
      simp only [List.nodup_cons] at hn
      cases i with
      | zero => simp [cellAt]
      | succ j =>
        have hj : j < H.length := by simpa using hi
        have hne : H[j] ≠ a := fun e => hn.1 (e ▸ List.getElem_mem hj)
        have hb : (H[j] == a) = false := by simpa using hne
        simp only [List.getElem?_cons_succ, List.getElem_cons_succ, cellAt, List.zip_cons_cons,
          List.lookup_cons, hb]
        exact ih hn.2 hj (by simpa using hl)

theorem getElem?_of_mem_zipIdx {H data : List Str} (hn : H.Nodup) {k : Str} {i : Nat}
    (hm : (k, i) ∈ H.zipIdx) (hl : data.length = H.length) : data[i]? = cellAt H data k := by
  have := List.mem_zipIdx hm
  simp only [Nat.zero_add, Nat.sub_zero, Nat.zero_le, true_and] at this
  obtain ⟨hi, hk⟩ := this
  rw [hk]
  exact getElem?_eq_cellAt hn hi hl

theorem cellAt_map {α : Type} (ks : List α) (g f : α → Str) (k : α) (hk : k ∈ ks)
    (hinj : ∀ a ∈ ks, g a = g k → f a = f k) : cellAt (ks.map g) (ks.map f) (g k) = some (f k) := by
  induction ks with
  | nil => cases hk
  | cons a ks ih =>
    simp only [cellAt, List.map_cons, List.zip_cons_cons, List.lookup_cons]
    by_cases e : g k = g a
    · have : (g k == g a) = true := by simpa using e
      rw [this]; simp [hinj a (by simp) e.symm]
    · have : (g k == g a) = false := by simpa using e
      rw [this]
      rcases List.mem_cons.mp hk with rfl | hk'
      · exact absurd rfl e
      · exact ih hk' (fun b hb => hinj b (by simp [hb]))

/-- columns made of one group of titles per key (`flatMap`) -/
theorem cellAt_flatMap {α : Type} (ks : List α) (T D : α → List Str) (hlen : ∀ a, (T a).length = (D a).length)
    (k : α) (hk : k ∈ ks) (t : Str) (ht : t ∈ T k)
    (hdisj : ∀ a ∈ ks, t ∈ T a → D a = D k ∧ T a = T k) :
    cellAt (ks.flatMap T) (ks.flatMap D) t = cellAt (T k) (D k) t := by
  induction ks with
  | nil => cases hk
  | cons a ks ih =>
    simp only [List.flatMap_cons]
    rw [cellAt_append _ _ _ _ _ (hlen a)]
    by_cases hta : t ∈ T a
    · obtain ⟨e1, e2⟩ := hdisj a (by simp) hta
      rw [e1, e2]
      have : ∃ v, cellAt (T k) (D k) t = some v := by
        unfold cellAt
        cases hq : (List.lookup t ((T k).zip (D k))) with
        | some v => exact ⟨v, rfl⟩
        | none =>
          rw [List.lookup_eq_none_iff] at hq
          obtain ⟨i, hi, rfl⟩ := List.getElem_of_mem ht
          have hi' : i < (D k).length := by rw [← hlen k]; exact hi
          have := hq ((T k)[i], (D k)[i]) (by
            rw [List.mem_iff_getElem]
            exact ⟨i, by simp only [List.length_zip]; omega, by simp⟩)
          simp at this
      obtain ⟨v, hv⟩ := this
      simp [hv]
    · rw [cellAt_none hta, Option.none_or]
      rcases List.mem_cons.mp hk with rfl | hk'
      · exact absurd ht hta
      · exact ih hk' (fun b hb => hdisj b (by simp [hb]))

/-! ### `csv_write` trims, `csv_read` pads -/

theorem takeWhile_all {α : Type} (p : α → Bool) (l : List α) : ∀ x ∈ l.takeWhile p, p x = true := by
  induction l with
  | nil => simp
  | cons a l ih =>
    intro x hx
    simp only [List.takeWhile_cons] at hx
    split at hx
    · rcases List.mem_cons.mp hx with rfl | hx
      · assumption
      · exact ih x hx
    · cases hx

theorem trimRow_append (cells : List Str) :
    ∃ k, cells = trimRow cells ++ List.replicate k [] ∧ k + (trimRow cells).length = cells.length := by
  unfold trimRow
  generalize hr : cells.reverse = rev
  have hc : cells = rev.reverse := by rw [← hr, List.reverse_reverse]
  have h := List.takeWhile_append_dropWhile (p := fun c : Str => decide (c = [])) (l := rev)
  refine ⟨(rev.takeWhile (fun c : Str => decide (c = []))).length, ?_, ?_⟩
  · rw [hc]
    conv => lhs; rw [← h]
    rw [List.reverse_append]
    congr 1
    rw [List.eq_replicate_iff]
    refine ⟨by simp, fun x hx => ?_⟩
    have := takeWhile_all _ rev x (by simpa using hx)
    simpa using this
  · have h2 := congrArg List.length h
    rw [hc]
    simp only [List.length_append, List.length_reverse] at h2 ⊢
    omega

theorem padRow_trimRow (cells : List Str) (n : Nat) (h : cells.length = n) :
    padRow n (trimRow cells) = some cells := by
  obtain ⟨k, hk, hlen⟩ := trimRow_append cells
  unfold padRow
  have : ¬ (trimRow cells).length > n := by omega
  rw [if_neg this]
  have : n - (trimRow cells).length = k := by omega
  rw [this, ← hk]

end Csv

namespace Csv
open Text

/-! ### column titles -/

theorem dot_mem_scopeKey (o s : Str) : '.' ∈ scopeKey o s := by simp [scopeKey]

theorem scopeKey_inj_left {o o' s : Str} (h : scopeKey o s = scopeKey o' s) : o = o' := by
  unfold scopeKey at h
  exact List.append_cancel_right h

theorem scopeKey_lower_ne_upper (o o' : Str) : scopeKey o sLower ≠ scopeKey o' sUpper := by
  intro h
  unfold scopeKey at h
  have := (List.append_inj' h (by decide)).2
  revert this; decide

theorem split_scopeKey {o s : Str} (ho : '.' ∉ o) (hs : '.' ∉ s) : splitSep '.' (scopeKey o s) = [o, s] := by
  unfold scopeKey
  rw [splitSep_append '.' o s ho, splitSep_token '.' s hs]

theorem splitSep_ne_nil (sep : Char) (s : Str) : splitSep sep s ≠ [] := by
  induction s with
  | nil => simp [splitSep]
  | cons c cs ih =>
    simp only [splitSep]
    split
    · simp
    · split <;> simp

theorem isBoundKey_lower (o : Str) : isBoundKey (scopeKey o sLower) = true := by
  simp only [isBoundKey, Bool.or_eq_true]
  left
  rw [List.isSuffixOf_iff_suffix]
  exact ⟨o ++ ['.'], by simp [scopeKey]⟩

theorem isBoundKey_upper (o : Str) : isBoundKey (scopeKey o sUpper) = true := by
  simp only [isBoundKey, Bool.or_eq_true]
  right
  rw [List.isSuffixOf_iff_suffix]
  exact ⟨o ++ ['.'], by simp [scopeKey]⟩

theorem isBoundKey_name {o : Str} (h : ObjName o) : isBoundKey o = false := h.2.2.2

theorem sBinsLB_eq : sBinsLB = sBins ++ '.' :: sLower := by decide

/-- the titles of an objective are not in the scope of the bin bounds -/
theorem objTitle_not_bins {o t : Str} (ho : ObjName o) (ht : t ∈ objTitles o) :
    ((sBinsLB ++ ['.']).isPrefixOf t = false) ∧ t ≠ sBinsLB := by
  obtain ⟨_, hdot, hbins, _⟩ := ho
  have hdl : '.' ∉ sLower := by decide
  have hdb : '.' ∉ sBins := by decide
  have key : ∀ s : Str, '.' ∉ s → ((sBinsLB ++ ['.']).isPrefixOf (scopeKey o s) = false) ∧ scopeKey o s ≠ sBinsLB := by
    intro s hs
    constructor
    · cases hp : (sBinsLB ++ ['.']).isPrefixOf (scopeKey o s) with
      | false => rfl
      | true =>
        rw [List.isPrefixOf_iff_prefix] at hp
        obtain ⟨rest, hr⟩ := hp
        have h1 := split_scopeKey hdot hs
        rw [← hr] at h1
        have h2 : splitSep '.' (sBinsLB ++ ['.'] ++ rest) = sBins :: sLower :: splitSep '.' rest := by
          have : sBinsLB ++ ['.'] ++ rest = sBins ++ '.' :: (sLower ++ '.' :: rest) := by
            rw [sBinsLB_eq]; simp
          rw [this, splitSep_append '.' _ _ hdb, splitSep_append '.' _ _ hdl]
        rw [h2] at h1
        have := congrArg List.length h1
        have hne := splitSep_ne_nil '.' rest
        cases hq : splitSep '.' rest with
        | nil => exact absurd hq hne
        | cons a b => rw [hq] at this; simp at this
    · intro he
      have h1 := split_scopeKey hdot hs
      rw [he] at h1
      have h2 : splitSep '.' sBinsLB = [sBins, sLower] := by
        rw [sBinsLB_eq, splitSep_append '.' _ _ hdb, splitSep_token '.' _ hdl]
      rw [h2] at h1
      simp only [List.cons.injEq] at h1
      exact hbins h1.1.symm
  simp only [objTitles, List.mem_cons, List.not_mem_nil, or_false] at ht
  rcases ht with rfl | rfl | rfl
  · exact key sLower hdl
  · constructor
    · cases hp : (sBinsLB ++ ['.']).isPrefixOf t with
      | false => rfl
      | true =>
        rw [List.isPrefixOf_iff_prefix] at hp
        obtain ⟨rest, hr⟩ := hp
        exact absurd (by rw [← hr]; simp) hdot
    · intro he
      rw [he, sBinsLB_eq] at hdot
      exact hdot (by simp)
  · exact key sUpper (by decide)

/-- titles of different objectives differ; within one objective the three titles differ -/
theorem objTitles_disjoint {a k t : Str} (ha : ObjName a) (hk : ObjName k) (h1 : t ∈ objTitles a)
    (h2 : t ∈ objTitles k) : a = k := by
  simp only [objTitles, List.mem_cons, List.not_mem_nil, or_false] at h1 h2
  rcases h1 with rfl | rfl | rfl <;> rcases h2 with h2 | h2 | h2
  · exact scopeKey_inj_left h2
  · exact absurd (h2 ▸ dot_mem_scopeKey a sLower) hk.2.1
  · exact absurd h2 (scopeKey_lower_ne_upper a k)
  · exact absurd (h2 ▸ dot_mem_scopeKey k sLower) ha.2.1
  · exact h2
  · exact absurd (h2 ▸ dot_mem_scopeKey k sUpper) ha.2.1
  · exact absurd h2.symm (scopeKey_lower_ne_upper k a)
  · exact absurd (h2 ▸ dot_mem_scopeKey a sUpper) hk.2.1
  · exact scopeKey_inj_left h2

/-- a bin-bound key survives "strip the scope, then re-scope" -/
theorem rescope_strip {k : Str} (h : BBKey k) : ∃ u, scopeUse sBinsLB k = some u ∧ rescope u = k := by
  unfold scopeUse
  rcases h with hk | ⟨hp, hne⟩
  · have h1 : ¬ ((sBinsLB ++ ['.']).isPrefixOf k = true) := by
      rw [hk, List.isPrefixOf_iff_prefix]
      intro ⟨rest, hr⟩
      have := congrArg List.length hr
      simp at this
    rw [if_neg h1, if_pos hk]
    exact ⟨k, rfl, by simp [rescope, hk]⟩
  · rw [if_pos hp]
    refine ⟨_, rfl, ?_⟩
    unfold rescope
    rw [if_neg hne]
    rw [List.isPrefixOf_iff_prefix] at hp
    obtain ⟨rest, hr⟩ := hp
    rw [← hr]
    simp [scopeKey]

theorem scopeUse_none {k : Str} (h : ((sBinsLB ++ ['.']).isPrefixOf k = false) ∧ k ≠ sBinsLB) :
    scopeUse sBinsLB k = none := by
  unfold scopeUse
  simp [h.1, h.2]

end Csv

namespace Csv
open Text

/-! ### the column dictionary -/

theorem filter_zipIdx_all (l : List Str) (n : Nat) (p : Str → Bool) (h : ∀ x ∈ l, p x = true) :
    (l.zipIdx n).filter (fun c => p c.1) = l.zipIdx n :=
  List.filter_eq_self.mpr (fun c hc => h c.1 (List.fst_mem_of_mem_zipIdx hc))

theorem filter_zipIdx_none (l : List Str) (n : Nat) (p : Str → Bool) (h : ∀ x ∈ l, p x = false) :
    (l.zipIdx n).filter (fun c => p c.1) = [] :=
  List.filter_eq_nil_iff.mpr (fun c hc => by simp [h c.1 (List.fst_mem_of_mem_zipIdx hc)])

theorem map_fst_filter_zipIdx (l : List Str) (n : Nat) (p : Str → Bool) :
    ((l.zipIdx n).filter (fun c => p c.1)).map (·.1) = l.filter p := by
  induction l generalizing n with
  | nil => rfl
  | cons a l ih =>
    simp only [List.zipIdx_cons, List.filter_cons]
    split <;> simp [ih]

theorem csvColumn_mid (X Y : Cols) (k : Str) (i : Nat) (hX : k ∉ X.map (·.1)) (hY : k ∉ Y.map (·.1)) :
    csvColumn (X ++ (k, i) :: Y) k = some (i, X ++ Y) := by
  unfold csvColumn
  rw [List.lookup_append, lookup_eq_none_of_not_mem hX]
  simp only [Option.none_or, List.lookup_cons, beq_self_eq_true, Option.map_some, Option.some.injEq,
    Prod.mk.injEq, true_and]
  rw [List.filter_append, List.filter_cons]
  simp only [bne_self_eq_false, Bool.false_eq_true, if_false]
  congr 1
  · apply List.filter_eq_self.mpr
    intro c hc
    simp only [bne_iff_ne, ne_eq]
    intro e; exact hX (List.mem_map.mpr ⟨c, hc, e⟩)
  · apply List.filter_eq_self.mpr
    intro c hc
    simp only [bne_iff_ne, ne_eq]
    intro e; exact hY (List.mem_map.mpr ⟨c, hc, e⟩)

theorem csvColumns_self (cols : Cols) (hn : (cols.map (·.1)).Nodup) :
    csvColumns cols (cols.map (·.1)) = some (cols, []) := by
  induction cols with
  | nil => rfl
  | cons c cols ih =>
    cases c with
    | mk k i =>
      simp only [List.map_cons, List.nodup_cons] at hn
      simp only [List.map_cons, csvColumns]
      have := csvColumn_mid [] cols k i (by simp) hn.1
      simp only [List.nil_append] at this
      rw [this]
      simp [ih hn.2]

/-! ### the titles of the objectives -/

def boundTitles (o : Str) : List Str := [scopeKey o sLower, scopeKey o sUpper]

theorem filter_bound_titles (ks : List Str) (h : ∀ o ∈ ks, ObjName o) :
    (ks.flatMap objTitles).filter isBoundKey = ks.flatMap boundTitles ∧
    (ks.flatMap objTitles).filter (fun t => !isBoundKey t) = ks := by
  induction ks with
  | nil => exact ⟨rfl, rfl⟩
  | cons o ks ih =>
    obtain ⟨i1, i2⟩ := ih (fun x hx => h x (by simp [hx]))
    have ho := isBoundKey_name (h o (by simp))
    simp only [List.flatMap_cons, List.filter_append, i1, i2]
    simp [objTitles, boundTitles, List.filter_cons, isBoundKey_lower, isBoundKey_upper, ho]

theorem nodup_boundTitles (ks : List Str) (hn : ks.Nodup) (h : ∀ o ∈ ks, ObjName o) :
    (ks.flatMap boundTitles).Nodup := by
  induction ks with
  | nil => simp
  | cons o ks ih =>
    simp only [List.nodup_cons] at hn
    simp only [List.flatMap_cons]
    rw [List.nodup_append]
    refine ⟨?_, ih hn.2 (fun x hx => h x (by simp [hx])), ?_⟩
    · simp only [boundTitles, List.nodup_cons, List.mem_cons, List.not_mem_nil, or_false, not_false_eq_true,
        List.nodup_nil, and_true]
      exact scopeKey_lower_ne_upper o o
    · intro a ha b hb e
      subst e
      obtain ⟨k, hk, hbk⟩ := List.mem_flatMap.mp hb
      have hsub : ∀ x t, t ∈ boundTitles x → t ∈ objTitles x := by
        intro x t ht
        simp only [boundTitles, List.mem_cons, List.not_mem_nil, or_false] at ht
        simp only [objTitles, List.mem_cons, List.not_mem_nil, or_false]
        rcases ht with rfl | rfl <;> simp
      have := objTitles_disjoint (h o (by simp)) (h k (by simp [hk])) (hsub _ _ ha) (hsub _ _ hbk)
      subst this
      exact hn.1 hk

/-- the objective names the reader derives from the sorted bound columns are the writer's objectives -/
theorem namesOfBounds_eq (ks : List Str) (hs : ks.Pairwise (· < ·)) (h : ∀ o ∈ ks, ObjName o)
    (ob : List (Str × Nat)) (hob : ∀ t, t ∈ ob.map (·.1) ↔ t ∈ ks.flatMap boundTitles) :
    namesOfBounds ob = ks := by
  unfold namesOfBounds
  rw [← sortedSet_of_sorted hs]
  apply sortedSet_congr
  intro x
  have hdl : '.' ∉ sLower := by decide
  have hdu : '.' ∉ sUpper := by decide
  constructor
  · intro hx
    obtain ⟨kv, hkv, hf⟩ := List.mem_filterMap.mp hx
    have hmem := (hob kv.1).mp (List.mem_map.mpr ⟨kv, hkv, rfl⟩)
    obtain ⟨o, ho, hto⟩ := List.mem_flatMap.mp hmem
    simp only [boundTitles, List.mem_cons, List.not_mem_nil, or_false] at hto
    have hname := h o ho
    rcases hto with e | e <;> rw [e] at hf
    · rw [split_scopeKey hname.2.1 hdl] at hf
      simp only [hname.1, if_false, Option.some.injEq] at hf
      exact hf ▸ ho
    · rw [split_scopeKey hname.2.1 hdu] at hf
      simp only [hname.1, if_false, Option.some.injEq] at hf
      exact hf ▸ ho
  · intro hx
    have hname := h x hx
    have hmem : scopeKey x sLower ∈ ob.map (·.1) :=
      (hob _).mpr (List.mem_flatMap.mpr ⟨x, hx, by simp [boundTitles]⟩)
    obtain ⟨kv, hkv, he⟩ := List.mem_map.mp hmem
    apply List.mem_filterMap.mpr
    refine ⟨kv, hkv, ?_⟩
    rw [he, split_scopeKey hname.2.1 hdl]
    simp [hname.1]

end Csv

namespace Csv
open Text

/-! ### `CsvReader.__init__` on the writer's header -/

section setup
variable {ER : Type} (C : Codec ER) (rs : List (PRec ER))

/-- the reader state that `__init__` reaches on the writer's header -/
def expReader : PRReader :=
  let A := C.titles (rs.map (·.er))
  let a := A.length
  let B := bbKeys rs
  let Oz := ((objKeys rs).flatMap objTitles).zipIdx (a + 4 + B.length)
  ⟨A.zipIdx, a + 2, a + 3, a + 1, a, B.zipIdx (a + 4),
    sortPairs (Oz.filter (fun c => isBoundKey c.1)), Oz.filter (fun c => !isBoundKey c.1)⟩

theorem fixed_distinct : kNItems ≠ kBinHeight ∧ kNItems ≠ kBinWidth ∧ kNItems ≠ kNDiff ∧
    kNDiff ≠ kBinHeight ∧ kNDiff ≠ kBinWidth ∧ kBinWidth ≠ kBinHeight := by decide

theorem filterMap_all_some {α β : Type} (l : List α) (f : α → Option β) (g : α → β)
    (h : ∀ c ∈ l, f c = some (g c)) : l.filterMap f = l.map g := by
  induction l with
  | nil => rfl
  | cons c l ih => simp [List.filterMap_cons, h c (by simp), ih (fun x hx => h x (by simp [hx]))]

theorem filterMap_all_none {α β : Type} (l : List α) (f : α → Option β)
    (h : ∀ c ∈ l, f c = none) : l.filterMap f = [] := by
  induction l with
  | nil => rfl
  | cons c l ih => simp [List.filterMap_cons, h c (by simp), ih (fun x hx => h x (by simp [hx]))]

/-- the bin-bound selection on a dictionary that holds the bin-bound columns followed by the objective
columns: exactly the bin-bound columns are taken, and re-scoping restores their titles -/
theorem selectScope_bins (Bz Oz : Cols) (hB : ∀ c ∈ Bz, BBKey c.1) (hBne : Bz ≠ [])
    (hO : ∀ c ∈ Oz, ((sBinsLB ++ ['.']).isPrefixOf c.1 = false) ∧ c.1 ≠ sBinsLB)
    (hdis : ∀ c ∈ Oz, c.1 ∉ Bz.map (·.1)) :
    ∃ sel, csvSelectScope (Bz ++ Oz) (some sBinsLB) (fun _ => false) = some (sel, Oz) ∧
      sel.map (fun p => (rescope p.1, p.2)) = Bz := by
  let u : Str → Str := fun k => (scopeUse sBinsLB k).getD k
  have hu : ∀ c ∈ Bz, scopeUse sBinsLB c.1 = some (u c.1) ∧ rescope (u c.1) = c.1 := by
    intro c hc
    obtain ⟨v, hv, hr⟩ := rescope_strip (hB c hc)
    simp only [u, hv, Option.getD_some]
    exact ⟨trivial, hr⟩
  refine ⟨Bz.map (fun c => (u c.1, c.2)), ?_, ?_⟩
  · unfold csvSelectScope
    have hf : (Bz ++ Oz).filter (fun c => !(fun _ : Str => false) c.1) = Bz ++ Oz :=
      List.filter_eq_self.mpr (by simp)
    simp only [hf]
    rw [List.filterMap_append,
      filterMap_all_some Bz _ (fun c => (c.1, u c.1, c.2)) (fun c hc => by simp [(hu c hc).1]),
      filterMap_all_none Oz _ (fun c hc => by simp [scopeUse_none (hO c hc)]), List.append_nil]
    have hne : (Bz.map (fun c => (c.1, u c.1, c.2))).isEmpty = false := by
      cases Bz with
      | nil => exact absurd rfl hBne
      | cons c l => rfl
    simp only [hne, Bool.false_eq_true, if_false, Option.some.injEq, Prod.mk.injEq, List.map_map]
    refine ⟨by simp [Function.comp], ?_⟩
    rw [List.filter_append]
    have hk : List.map ((fun x : Str × Str × Nat => x.1) ∘ fun c : Str × Nat => (c.1, u c.1, c.2)) Bz = Bz.map (·.1) := by
      simp [Function.comp]
    rw [hk]
    have h1 : Bz.filter (fun c => !(Bz.map (·.1)).contains c.1) = [] := by
      apply List.filter_eq_nil_iff.mpr
      intro c hc
      simp only [Bool.not_eq_true', Bool.not_eq_false, List.contains_iff_mem]
      exact List.mem_map.mpr ⟨c, hc, rfl⟩
    have h2 : Oz.filter (fun c => !(Bz.map (·.1)).contains c.1) = Oz := by
      apply List.filter_eq_self.mpr
      intro c hc
      have := hdis c hc
      simp only [Bool.not_eq_true', ← Bool.not_eq_true, List.contains_iff_mem]
      exact this
    rw [h1, h2, List.nil_append]
  · rw [List.map_map]
    have : ∀ l : Cols, (∀ c ∈ l, rescope (u c.1) = c.1) →
        l.map ((fun p : Str × Nat => (rescope p.1, p.2)) ∘ fun c : Str × Nat => (u c.1, c.2)) = l := by
      intro l hl
      induction l with
      | nil => rfl
      | cons c l ih =>
        simp only [List.map_cons, Function.comp, hl c (by simp)]
        rw [show l.map _ = l from ih (fun x hx => hl x (by simp [hx]))]
    exact this Bz (fun c hc => (hu c hc).2)

/-- the selection of the objective-bound columns on a dictionary that holds the objective columns -/
theorem selectScope_bounds (Oz : Cols) (hne : Oz.filter (fun c => isBoundKey c.1) ≠ []) :
    csvSelectScope Oz none (fun s => !isBoundKey s) =
      some (Oz.filter (fun c => isBoundKey c.1), Oz.filter (fun c => !isBoundKey c.1)) := by
  unfold csvSelectScope
  simp only [Bool.not_not]
  have hne' : (List.map (fun c : Str × Nat => (c.1, c.1, c.2)) (Oz.filter (fun c => isBoundKey c.1))).isEmpty = false := by
    cases h : Oz.filter (fun c => isBoundKey c.1) with
    | nil => exact absurd h hne
    | cons c l => rfl
  simp only [hne', Bool.false_eq_true, if_false, Option.some.injEq, Prod.mk.injEq, List.map_map]
  refine ⟨(List.map_congr_left (fun c _ => rfl)).trans (List.map_id _), ?_⟩
  apply List.filter_congr
  intro c hc
  have hk : List.map ((fun x : Str × Str × Nat => x.1) ∘ fun c : Str × Nat => (c.1, c.1, c.2))
      (Oz.filter (fun c => isBoundKey c.1)) = (Oz.filter (fun c => isBoundKey c.1)).map (·.1) := by
    simp [Function.comp]
  rw [hk]
  cases hb : isBoundKey c.1 with
  | true =>
    simp only [Bool.not_true, Bool.not_eq_false', List.contains_iff_mem]
    exact List.mem_map.mpr ⟨c, List.mem_filter.mpr ⟨hc, hb⟩, rfl⟩
  | false =>
    simp only [Bool.not_false, Bool.not_eq_true', ← Bool.not_eq_true, List.contains_iff_mem]
    intro hm
    obtain ⟨b, hbm, he⟩ := List.mem_map.mp hm
    have := (List.mem_filter.mp hbm).2
    rw [he, hb] at this
    cases this

/-- the common first half of both readers' `__init__` on a header `A ++ fixed ++ B ++ O` -/
theorem setupCommon_header (keys A B O : List Str)
    (hn : (A ++ fixedTitles ++ B ++ O).Nodup) (hA : ∀ t ∈ A, t ∈ keys)
    (hdisj : ∀ k ∈ keys, k ∉ fixedTitles ++ B ++ O)
    (hbb : ∀ k ∈ B, BBKey k) (hbne : B ≠ []) (hBsorted : B.Pairwise (· < ·))
    (hObins : ∀ t ∈ O, ((sBinsLB ++ ['.']).isPrefixOf t = false) ∧ t ≠ sBinsLB) :
    setupCommon keys (A ++ fixedTitles ++ B ++ O).zipIdx =
      some ⟨A.zipIdx, A.length + 2, A.length + 3, A.length + 1, A.length, B.zipIdx (A.length + 4),
        O.zipIdx (A.length + 4 + B.length)⟩ := by
  -- disjointness facts from the absence of duplicate titles
  have hn1 := List.nodup_append.mp hn
  have hn2 := List.nodup_append.mp hn1.1
  have hFB : ∀ f ∈ fixedTitles, f ∉ B := fun f hf hb => hn2.2.2 f (by simp [hf]) f hb rfl
  have hFO : ∀ f ∈ fixedTitles, f ∉ O := fun f hf ho => hn1.2.2 f (by simp [hf]) f ho rfl
  have hBO : ∀ b ∈ B, b ∉ O := fun b hb ho => hn1.2.2 b (by simp [hb]) b ho rfl
  have hkF : ∀ f ∈ fixedTitles, f ∉ keys := fun f hf hk => hdisj f hk (by simp [hf])
  have hkB : ∀ b ∈ B, b ∉ keys := fun b hb hk => hdisj b hk (by simp [hb])
  have hkO : ∀ t ∈ O, t ∉ keys := fun t ht hk => hdisj t hk (by simp [ht])
  -- the dictionary, part by part
  have hz : (A ++ fixedTitles ++ B ++ O).zipIdx =
      A.zipIdx ++ fixedTitles.zipIdx A.length ++ B.zipIdx (A.length + 4) ++ O.zipIdx (A.length + 4 + B.length) := by
    simp [List.zipIdx_append, fixedTitles, Nat.add_assoc]
  have cont : ∀ (l : List Str) (n : Nat), (∀ x ∈ l, x ∈ keys) →
      (l.zipIdx n).filter (fun c => keys.contains c.1) = l.zipIdx n ∧
      (l.zipIdx n).filter (fun c => !keys.contains c.1) = [] := by
    intro l n h
    exact ⟨filter_zipIdx_all l n (fun x => keys.contains x) (fun x hx => List.contains_iff_mem.mpr (h x hx)),
      filter_zipIdx_none l n (fun x => !keys.contains x) (fun x hx => by simp [h x hx])⟩
  have ncont : ∀ (l : List Str) (n : Nat), (∀ x ∈ l, x ∉ keys) →
      (l.zipIdx n).filter (fun c => keys.contains c.1) = [] ∧
      (l.zipIdx n).filter (fun c => !keys.contains c.1) = l.zipIdx n := by
    intro l n h
    exact ⟨filter_zipIdx_none l n (fun x => keys.contains x) (fun x hx => by simpa using h x hx),
      filter_zipIdx_all l n (fun x => !keys.contains x) (fun x hx => by simpa using h x hx)⟩
  have fB := ncont B (A.length + 4) hkB
  have fO := ncont O (A.length + 4 + B.length) hkO
  have hBzk : (B.zipIdx (A.length + 4)).map (·.1) = B := List.zipIdx_map_fst _ _
  have hOzk : (O.zipIdx (A.length + 4 + B.length)).map (·.1) = O := List.zipIdx_map_fst _ _
  have hBzne : B.zipIdx (A.length + 4) ≠ [] := by
    cases hB : B with
    | nil => exact absurd hB hbne
    | cons b t => simp [List.zipIdx_cons]
  have hBmem : ∀ c ∈ B.zipIdx (A.length + 4), c.1 ∈ B := fun c hc => List.fst_mem_of_mem_zipIdx hc
  have hOmem : ∀ c ∈ O.zipIdx (A.length + 4 + B.length), c.1 ∈ O := fun c hc => List.fst_mem_of_mem_zipIdx hc
  generalize hBz : B.zipIdx (A.length + 4) = Bz at *
  generalize hOz : O.zipIdx (A.length + 4 + B.length) = Oz at *
  unfold setupCommon
  rw [hz]
  simp only [List.filter_append, (cont A 0 hA).1, (cont A 0 hA).2,
    (ncont fixedTitles A.length hkF).1, (ncont fixedTitles A.length hkF).2,
    fB.1, fB.2, fO.1, fO.2,
    List.append_nil, List.nil_append]
  -- the four fixed columns
  have hFz : fixedTitles.zipIdx A.length =
      [(kBinHeight, A.length), (kBinWidth, A.length + 1), (kNItems, A.length + 2), (kNDiff, A.length + 3)] := by
    simp [fixedTitles, List.zipIdx_cons]
  obtain ⟨d1, d2, d3, d4, d5, d6⟩ := fixed_distinct
  have notin : ∀ f ∈ fixedTitles, f ∉ (Bz ++ Oz).map (·.1) := by
    intro f hf
    rw [List.map_append, hBzk, hOzk, List.mem_append]
    exact fun h => h.elim (hFB f hf) (hFO f hf)
  have s1 := csvColumn_mid [(kBinHeight, A.length), (kBinWidth, A.length + 1)]
    ((kNDiff, A.length + 3) :: (Bz ++ Oz)) kNItems (A.length + 2)
    (by simp [d1, d2]) (by
      simp only [List.map_cons, List.mem_cons, not_or]
      exact ⟨d3, notin kNItems (by simp [fixedTitles])⟩)
  have s2 := csvColumn_mid [(kBinHeight, A.length), (kBinWidth, A.length + 1)]
    (Bz ++ Oz) kNDiff (A.length + 3) (by simp [d4, d5]) (notin kNDiff (by simp [fixedTitles]))
  have s3 := csvColumn_mid [(kBinHeight, A.length)] (Bz ++ Oz) kBinWidth (A.length + 1)
    (by simp [d6]) (notin kBinWidth (by simp [fixedTitles]))
  have s4 := csvColumn_mid [] (Bz ++ Oz) kBinHeight A.length (by simp) (notin kBinHeight (by simp [fixedTitles]))
  rw [hFz]
  simp only [List.cons_append, List.nil_append, List.append_assoc] at s1 s2 s3 s4 ⊢
  rw [s1]; simp only []
  rw [s2]; simp only []
  rw [s3]; simp only []
  rw [s4]; simp only []
  -- the bin bounds
  obtain ⟨sel, hsel, hselr⟩ := selectScope_bins Bz Oz
    (fun c hc => hbb c.1 (hBmem c hc)) hBzne (fun c hc => hObins c.1 (hOmem c hc))
    (fun c hc => by rw [hBzk]; exact fun hb => hBO c.1 hb (hOmem c hc))
  rw [hsel]; simp only []
  rw [hselr, sortPairs_of_sorted (by rw [hBzk]; exact hBsorted)]

theorem length_boundTitles (l : List Str) : (l.flatMap boundTitles).length = 2 * l.length := by
  induction l with
  | nil => rfl
  | cons o t ih =>
    simp only [List.flatMap_cons, List.length_append, ih, boundTitles, List.length_cons, List.length_nil]; omega

/-- the objective-bound selection on a dictionary whose bound-titled columns are the bound titles of `ks` -/
theorem setupBounds_of (Oz : Cols) (ks : List Str) (hone : ks ≠ [])
    (hOBk : (Oz.filter (fun c => isBoundKey c.1)).map (·.1) = ks.flatMap boundTitles) :
    setupBounds Oz = some (sortPairs (Oz.filter (fun c => isBoundKey c.1)), Oz.filter (fun c => !isBoundKey c.1)) := by
  have hOBne : Oz.filter (fun c => isBoundKey c.1) ≠ [] := by
    intro h
    rw [h] at hOBk
    cases hk : ks with
    | nil => exact hone hk
    | cons o t => rw [hk] at hOBk; simp [boundTitles] at hOBk
  unfold setupBounds
  rw [selectScope_bounds Oz hOBne]; simp only []
  have hlenOB : (Oz.filter (fun c => isBoundKey c.1)).length = 2 * ks.length := by
    have := congrArg List.length hOBk
    rw [List.length_map] at this
    rw [this, length_boundTitles]
  rw [length_sortPairs, hlenOB]
  have : ¬ (2 * ks.length % 2 ≠ 0) := by omega
  rw [if_neg this]

theorem namesOfBounds_sorted (Oz : Cols) (ks : List Str) (hKsorted : ks.Pairwise (· < ·)) (hobj : ∀ o ∈ ks, ObjName o)
    (hOBk : (Oz.filter (fun c => isBoundKey c.1)).map (·.1) = ks.flatMap boundTitles) :
    namesOfBounds (sortPairs (Oz.filter (fun c => isBoundKey c.1))) = ks := by
  apply namesOfBounds_eq ks hKsorted hobj
  intro t
  rw [← hOBk]
  constructor
  · intro h
    obtain ⟨q, hq, he⟩ := List.mem_map.mp h
    exact List.mem_map.mpr ⟨q, mem_sortPairs.mp hq, he⟩
  · intro h
    obtain ⟨q, hq, he⟩ := List.mem_map.mp h
    exact List.mem_map.mpr ⟨q, mem_sortPairs.mpr hq, he⟩

/-- `CsvReader.__init__` succeeds on the writer's header and finds every column where the writer put it -/
theorem prSetup_header
    (hn : (prHeader C rs).Nodup)
    (hA : ∀ t ∈ C.titles (rs.map (·.er)), t ∈ C.keys)
    (hdisj : ∀ k ∈ C.keys, k ∉ fixedTitles ++ bbKeys rs ++ (objKeys rs).flatMap objTitles)
    (hbb : ∀ k ∈ bbKeys rs, BBKey k) (hbne : bbKeys rs ≠ [])
    (hobj : ∀ o ∈ objKeys rs, ObjName o) (hone : objKeys rs ≠ []) :
    prSetup C.keys (prHeader C rs).zipIdx = some (expReader C rs) := by
  have hBsorted : (bbKeys rs).Pairwise (· < ·) := sorted_sortedSet _
  have hKsorted : (objKeys rs).Pairwise (· < ·) := sorted_sortedSet _
  have hcommon := setupCommon_header C.keys (C.titles (rs.map (·.er))) (bbKeys rs) ((objKeys rs).flatMap objTitles)
    (by unfold prHeader at hn; exact hn) hA hdisj hbb hbne hBsorted (fun t ht => by
      obtain ⟨o, ho, hto⟩ := List.mem_flatMap.mp ht
      exact objTitle_not_bins (hobj o ho) hto)
  unfold expReader
  generalize hAdef : C.titles (rs.map (·.er)) = A at *
  generalize hBdef : bbKeys rs = B at *
  generalize hKdef : objKeys rs = ks at *
  have hfilt := filter_bound_titles ks hobj
  have hOBk : (((ks.flatMap objTitles).zipIdx (A.length + 4 + B.length)).filter (fun c => isBoundKey c.1)).map (·.1) = ks.flatMap boundTitles := by
    rw [map_fst_filter_zipIdx, ← hfilt.1]
  have hOVk : (((ks.flatMap objTitles).zipIdx (A.length + 4 + B.length)).filter (fun c => !isBoundKey c.1)).map (·.1) = ks := by
    rw [map_fst_filter_zipIdx _ _ (fun t => !isBoundKey t)]
    exact hfilt.2
  generalize hOz : (ks.flatMap objTitles).zipIdx (A.length + 4 + B.length) = Oz at *
  unfold prSetup prHeader
  rw [hAdef, hBdef, hKdef, hcommon]; simp only []
  rw [setupBounds_of Oz ks hone hOBk]; simp only []
  rw [namesOfBounds_sorted Oz ks hKsorted hobj hOBk]
  have hcs := csvColumns_self (Oz.filter (fun c => !isBoundKey c.1)) (by rw [hOVk]; exact nodup_of_sorted hKsorted)
  rw [hOVk] at hcs
  rw [hcs]; simp only []
  have hlenOV : (Oz.filter (fun c => !isBoundKey c.1)).length = ks.length := by
    have := congrArg List.length hOVk
    rwa [List.length_map] at this
  have hlenOB : (Oz.filter (fun c => isBoundKey c.1)).length = 2 * ks.length := by
    have := congrArg List.length hOBk
    rw [List.length_map] at this
    rw [this, length_boundTitles]
  have hnonempty : (Oz.filter (fun c => !isBoundKey c.1)).isEmpty = false := by
    cases hq : Oz.filter (fun c => !isBoundKey c.1) with
    | nil => rw [hq] at hlenOV; cases hk : ks with
      | nil => exact absurd hk hone
      | cons o t => rw [hk] at hlenOV; simp at hlenOV
    | cons c l => rfl
  rw [hnonempty, hlenOV, length_sortPairs, hlenOB]
  simp only [Bool.false_or, ne_eq, not_true_eq_false, decide_false, Bool.false_eq_true, if_false, hOz]

end setup
end Csv

namespace Csv
open Text

/-! ### reading a row the writer produced -/

theorem cellOpt_ne_nil (v : Int) : cellOpt (some v) ≠ [] := showInt_ne_nil v

theorem readMap_spec (data : List Str) (L : List (Str × Nat)) (m : List (Str × Int))
    (h : ∀ p ∈ L, data[p.2]? = some (cellOpt (m.lookup p.1))) :
    readMap data L = some (L.filterMap (fun p => (m.lookup p.1).map (fun v => (p.1, v)))) := by
  induction L with
  | nil => rfl
  | cons p L ih =>
    cases p with
    | mk k i =>
      have hp := h (k, i) (by simp)
      have ih' := ih (fun q hq => h q (by simp [hq]))
      simp only at hp
      simp only [readMap, hp, List.filterMap_cons]
      cases hl : m.lookup k with
      | none => simp [cellOpt, ih']
      | some v =>
        simp only [cellOpt, if_neg (showInt_ne_nil v), parseInt?_showInt, ih', Option.map_some]

theorem readMap_restrict (data : List Str) (L : List (Str × Nat)) (m : List (Str × Int))
    (h : ∀ p ∈ L, data[p.2]? = some (cellOpt (m.lookup p.1)))
    (hL : (L.map (·.1)).Pairwise (· < ·)) (hm : SortedKeys m) (hsub : ∀ p ∈ m, p.1 ∈ L.map (·.1)) :
    readMap data L = some m := by
  rw [readMap_spec data L m h]
  congr 1
  have := restrict_eq (L.map (·.1)) m hL hm hsub
  rw [List.filterMap_map] at this
  exact this

theorem get_part (pre l l' post : List Str) (hlen : l.length = l'.length) {k : Str} {i : Nat}
    (hm : (k, i) ∈ l.zipIdx pre.length) :
    ∃ d, (pre ++ l' ++ post)[i]? = some d ∧ (k, d) ∈ l.zip l' := by
  obtain ⟨h1, h2, h3⟩ := List.mem_zipIdx hm
  have hj : i - pre.length < l'.length := by omega
  refine ⟨l'[i - pre.length], ?_, ?_⟩
  · rw [List.append_assoc, List.getElem?_append_right h1, List.getElem?_append_left hj,
      List.getElem?_eq_getElem hj]
  · rw [List.mem_iff_getElem]
    refine ⟨i - pre.length, by simp only [List.length_zip]; omega, ?_⟩
    simp [h3]

theorem zip_map_self {α : Type} (l : List α) (g f : α → Str) :
    (l.map g).zip (l.map f) = l.map (fun x => (g x, f x)) := by
  induction l with
  | nil => rfl
  | cons a l ih => simp [ih]

theorem zip_flatMap {α : Type} (ks : List α) (T D : α → List Str) (h : ∀ a, (T a).length = (D a).length) :
    (ks.flatMap T).zip (ks.flatMap D) = ks.flatMap (fun a => (T a).zip (D a)) := by
  induction ks with
  | nil => rfl
  | cons a ks ih => simp only [List.flatMap_cons, List.zip_append (h a), ih]

theorem length_flatMap_eq {α : Type} (ks : List α) (T D : α → List Str) (h : ∀ a, (T a).length = (D a).length) :
    (ks.flatMap T).length = (ks.flatMap D).length := by
  induction ks with
  | nil => rfl
  | cons a ks ih => simp only [List.flatMap_cons, List.length_append, ih, h a]

theorem lookup_zipIdx (l : List Str) (hn : l.Nodup) (j : Nat) (hj : j < l.length) :
    (l.zipIdx).lookup l[j] = some j := by
  have hm : (l[j], j) ∈ l.zipIdx := List.mem_zipIdx_iff_getElem?.mpr (by simp [hj])
  have := lookup_of_mem (m := l.zipIdx) (by rw [List.zipIdx_map_fst]; exact hn) hm
  simpa using this

theorem mapM_map_some {α β : Type} (l : List α) (g : α → β) (f : β → Option α)
    (h : ∀ a ∈ l, f (g a) = some a) : (l.map g).mapM f = some l := by
  induction l with
  | nil => rfl
  | cons a l ih =>
    simp [List.mapM_cons, h a (by simp), ih (fun x hx => h x (by simp [hx]))]

end Csv

namespace Csv
open Text

section row
variable {ER : Type} (C : Codec ER) (V : ErView ER) (rs : List (PRec ER))

theorem mem_bbKeys {r : PRec ER} (hr : r ∈ rs) {p : Str × Int} (hp : p ∈ r.binBounds) : p.1 ∈ bbKeys rs := by
  unfold bbKeys
  rw [mem_sortedSet]
  exact List.mem_flatMap.mpr ⟨r, hr, List.mem_map.mpr ⟨p, hp, rfl⟩⟩

theorem mem_objKeys {r : PRec ER} (hr : r ∈ rs) {p : Str × Int} (hp : p ∈ r.objectives) : p.1 ∈ objKeys rs := by
  unfold objKeys
  rw [mem_sortedSet]
  exact List.mem_flatMap.mpr ⟨r, hr, List.mem_map.mpr ⟨p, hp, rfl⟩⟩

theorem of_mem_bbKeys {k : Str} (h : k ∈ bbKeys rs) : ∃ r ∈ rs, ∃ p ∈ r.binBounds, p.1 = k := by
  unfold bbKeys at h
  rw [mem_sortedSet] at h
  obtain ⟨r, hr, hk⟩ := List.mem_flatMap.mp h
  obtain ⟨p, hp, he⟩ := List.mem_map.mp hk
  exact ⟨r, hr, p, hp, he⟩

theorem of_mem_objKeys {k : Str} (h : k ∈ objKeys rs) : ∃ r ∈ rs, ∃ p ∈ r.objectives, p.1 = k := by
  unfold objKeys at h
  rw [mem_sortedSet] at h
  obtain ⟨r, hr, hk⟩ := List.mem_flatMap.mp h
  obtain ⟨p, hp, he⟩ := List.mem_map.mp hk
  exact ⟨r, hr, p, hp, he⟩

theorem length_prRow (D : PRDomain C V rs) {r : PRec ER} (hr : r ∈ rs) :
    (prRow C rs r).length = (prHeader C rs).length := by
  unfold prRow prHeader
  have h1 := D.codec.len r.er (List.mem_map.mpr ⟨r, hr, rfl⟩)
  have h2 := length_flatMap_eq (objKeys rs) (prObjCells r) objTitles (fun a => rfl)
  simp only [List.length_append, h1, List.length_map, h2, fixedTitles, List.length_cons, List.length_nil]

/-- `parse_row` (and the constructor) on a row of the writer returns the record -/
theorem prParseRow_row (D : PRDomain C V rs) {r : PRec ER} (hr : r ∈ rs) :
    prParseRow C V (expReader C rs) (prRow C rs r) = some r := by
  have hcanon := D.canon r hr
  have hobjN : ∀ o ∈ objKeys rs, ObjName o := by
    intro o ho
    obtain ⟨r', hr', p, hp, rfl⟩ := of_mem_objKeys rs ho
    exact D.objName r' hr' p hp
  -- names for the parts
  generalize hAdef : C.titles (rs.map (·.er)) = A
  generalize hRAdef : C.row (rs.map (·.er)) r.er = RA
  have hlenA : RA.length = A.length := by
    rw [← hAdef, ← hRAdef]; exact D.codec.len r.er (List.mem_map.mpr ⟨r, hr, rfl⟩)
  have hAn : A.Nodup := hAdef ▸ D.codec.nodup
  generalize hBdef : bbKeys rs = B
  generalize hKdef : objKeys rs = ks
  have hBsorted : B.Pairwise (· < ·) := hBdef ▸ sorted_sortedSet _
  have hKsorted : ks.Pairwise (· < ·) := hKdef ▸ sorted_sortedSet _
  rw [hKdef] at hobjN
  generalize hRFdef : [showInt r.binH, showInt r.binW, showInt r.nItems, showInt r.nDiff] = RF
  have hlenF : RF.length = 4 := by rw [← hRFdef]; rfl
  have hdata : prRow C rs r = RA ++ RF ++ B.map (fun k => cellOpt (r.binBounds.lookup k)) ++ ks.flatMap (prObjCells r) := by
    unfold prRow; rw [hRAdef, hRFdef, hBdef, hKdef]
  generalize hdat : prRow C rs r = data at *
  -- the embedded record
  have her : C.read (erLookup A.zipIdx data) = some r.er := by
    apply D.codec.back r.er (List.mem_map.mpr ⟨r, hr, rfl⟩)
    · rw [hAdef, hRAdef]
      intro p hp
      obtain ⟨j, hj, hpj⟩ := List.getElem_of_mem hp
      simp only [List.length_zip] at hj
      have hjA : j < A.length := by omega
      have hjR : j < RA.length := by omega
      have hp1 : p = (A[j], RA[j]) := by rw [← hpj]; simp
      rw [hp1]
      simp only [erLookup, lookup_zipIdx A hAn j hjA, Option.bind_some]
      rw [hdata, List.append_assoc, List.append_assoc, List.getElem?_append_left hjR, List.getElem?_eq_getElem hjR]
    · rw [hAdef]
      intro k _ hk
      simp only [erLookup]
      rw [lookup_eq_none_of_not_mem (by rw [List.zipIdx_map_fst]; exact hk)]
      rfl
  -- the four fixed cells
  have hget : ∀ j (hj : j < 4), data[A.length + j]? = RF[j]? := by
    intro j hj
    rw [hdata, List.append_assoc, List.append_assoc, List.getElem?_append_right (by omega),
      List.getElem?_append_left (by omega)]
    congr 1; omega
  have hiN : readInt data (A.length + 2) = some r.nItems := by
    simp only [readInt, hget 2 (by omega), ← hRFdef]
    simp [parseInt?_showInt]
  have hiD : readInt data (A.length + 3) = some r.nDiff := by
    simp only [readInt, hget 3 (by omega), ← hRFdef]
    simp [parseInt?_showInt]
  have hiW : readInt data (A.length + 1) = some r.binW := by
    simp only [readInt, hget 1 (by omega), ← hRFdef]
    simp [parseInt?_showInt]
  have hiH : readInt data A.length = some r.binH := by
    have := hget 0 (by omega)
    simp only [Nat.add_zero] at this
    simp only [readInt, this, ← hRFdef]
    simp [parseInt?_showInt]
  -- the bin bounds
  have hbins : readMap data (B.zipIdx (A.length + 4)) = some r.binBounds := by
    apply readMap_restrict _ _ _ _ (by rw [List.zipIdx_map_fst]; exact hBsorted) hcanon.2.2
      (fun p hp => by rw [List.zipIdx_map_fst, ← hBdef]; exact mem_bbKeys rs hr hp)
    intro p hp
    have hpre : (RA ++ RF).length = A.length + 4 := by simp [hlenA, hlenF]
    obtain ⟨d, hd, hz⟩ := get_part (RA ++ RF) B (B.map (fun k => cellOpt (r.binBounds.lookup k)))
      (ks.flatMap (prObjCells r)) (by simp) (k := p.1) (i := p.2) (by rw [hpre]; exact hp)
    rw [hdata, hd]
    have := zip_map_self B id (fun k => cellOpt (r.binBounds.lookup k))
    simp only [List.map_id] at this
    rw [this] at hz
    obtain ⟨x, _, hx⟩ := List.mem_map.mp hz
    simp only [id, Prod.mk.injEq] at hx
    rw [← hx.2, hx.1]
  -- the objective columns
  have hOcell : ∀ p ∈ (ks.flatMap objTitles).zipIdx (A.length + 4 + B.length),
      ∃ d o, data[p.2]? = some d ∧ o ∈ ks ∧ (p.1, d) ∈ (objTitles o).zip (prObjCells r o) := by
    intro p hp
    have hpre : (RA ++ RF ++ B.map (fun k => cellOpt (r.binBounds.lookup k))).length = A.length + 4 + B.length := by
      simp only [List.length_append, List.length_map, hlenA, hlenF]
    obtain ⟨d, hd, hz⟩ := get_part (RA ++ RF ++ B.map (fun k => cellOpt (r.binBounds.lookup k)))
      (ks.flatMap objTitles) (ks.flatMap (prObjCells r)) []
      (length_flatMap_eq ks objTitles (prObjCells r) (fun a => rfl)) (k := p.1) (i := p.2) (by rw [hpre]; exact hp)
    rw [zip_flatMap ks objTitles (prObjCells r) (fun a => rfl)] at hz
    obtain ⟨o, ho, hzo⟩ := List.mem_flatMap.mp hz
    refine ⟨d, o, ?_, ho, hzo⟩
    rw [hdata, ← hd, List.append_nil]
  have hbounds : readMap data (sortPairs (((ks.flatMap objTitles).zipIdx (A.length + 4 + B.length)).filter
      (fun c => isBoundKey c.1))) = some r.objBounds := by
    have hkeys : ((((ks.flatMap objTitles).zipIdx (A.length + 4 + B.length)).filter
        (fun c => isBoundKey c.1)).map (·.1)) = ks.flatMap boundTitles := by
      rw [map_fst_filter_zipIdx, (filter_bound_titles ks hobjN).1]
    apply readMap_restrict _ _ _ _ _ hcanon.2.1
    · intro p hp
      obtain ⟨q, hq, hor⟩ := D.bounds r hr p hp
      have hqk : q.1 ∈ ks := hKdef ▸ mem_objKeys rs hr hq
      have : p.1 ∈ ks.flatMap boundTitles := by
        apply List.mem_flatMap.mpr
        refine ⟨q.1, hqk, ?_⟩
        simp only [boundTitles, List.mem_cons, List.not_mem_nil, or_false]
        exact hor
      rw [← hkeys] at this
      obtain ⟨c, hc, he⟩ := List.mem_map.mp this
      exact List.mem_map.mpr ⟨c, mem_sortPairs.mpr hc, he⟩
    · intro p hp
      have hp' := List.mem_filter.mp (mem_sortPairs.mp hp)
      obtain ⟨d, o, hd, ho, hz⟩ := hOcell p hp'.1
      rw [hd]
      have hb : isBoundKey p.1 = true := hp'.2
      simp only [objTitles, prObjCells, List.zip_cons_cons, List.zip_nil_right, List.mem_cons,
        Prod.mk.injEq, List.not_mem_nil, or_false] at hz
      rcases hz with ⟨h1, h2⟩ | ⟨h1, h2⟩ | ⟨h1, h2⟩
      · rw [h2, h1]
      · rw [h1, isBoundKey_name (hobjN o ho)] at hb; cases hb
      · rw [h2, h1]
    · apply sorted_sortPairs
      rw [hkeys]
      exact nodup_boundTitles ks (nodup_of_sorted hKsorted) hobjN
  have hobjs : readMap data (((ks.flatMap objTitles).zipIdx (A.length + 4 + B.length)).filter
      (fun c => !isBoundKey c.1)) = some r.objectives := by
    have hkeys : ((((ks.flatMap objTitles).zipIdx (A.length + 4 + B.length)).filter
        (fun c => !isBoundKey c.1)).map (·.1)) = ks := by
      rw [map_fst_filter_zipIdx _ _ (fun t => !isBoundKey t), (filter_bound_titles ks hobjN).2]
    apply readMap_restrict _ _ _ _ (by rw [hkeys]; exact hKsorted) hcanon.1
      (fun p hp => by rw [hkeys, ← hKdef]; exact mem_objKeys rs hr hp)
    intro p hp
    have hp' := List.mem_filter.mp hp
    obtain ⟨d, o, hd, ho, hz⟩ := hOcell p hp'.1
    rw [hd]
    have hb : isBoundKey p.1 = false := by simpa using hp'.2
    simp only [objTitles, prObjCells, List.zip_cons_cons, List.zip_nil_right, List.mem_cons,
      Prod.mk.injEq, List.not_mem_nil, or_false] at hz
    rcases hz with ⟨h1, h2⟩ | ⟨h1, h2⟩ | ⟨h1, h2⟩
    · rw [h1, isBoundKey_lower] at hb; cases hb
    · rw [h2, h1]
    · rw [h1, isBoundKey_upper] at hb; cases hb
  unfold prParseRow expReader
  simp only [hAdef, hBdef, hKdef, her, hiN, hiD, hiW, hiH, hbins, hbounds, hobjs]
  unfold mkPRec
  have hok := D.ok r hr
  cases r
  simp only at hok ⊢
  rw [if_pos hok]

end row
end Csv

namespace Csv
open Text

section final
variable {ER : Type} (C : Codec ER) (V : ErView ER) (rs : List (PRec ER))

theorem objectives_ne_nil_of_ok {r : PRec ER} (h : r.Ok V) : r.objectives ≠ [] := by
  intro he
  unfold PRec.Ok PRec.okB at h
  rw [he] at h
  simp at h

/-- reading back what the writer wrote -/
theorem prRead_prWrite (D : PRDomain C V rs) (t : Table) (hw : prWrite C rs = some t) :
    prRead C V t = some rs := by
  unfold prWrite at hw
  split at hw
  · rename_i hcols
    cases hw
    have hcols' : ∃ cols, colsOf (prHeader C rs) = some cols := Option.isSome_iff_exists.mp hcols
    obtain ⟨cols, hc⟩ := hcols'
    have hnodup : (prHeader C rs).Nodup ∧ cols = (prHeader C rs).zipIdx := by
      unfold colsOf at hc
      split at hc
      · cases hc
      · rename_i hcond
        simp only [Bool.or_eq_true, Bool.not_eq_true', decide_eq_false_iff_not, not_or] at hcond
        cases hc
        exact ⟨Classical.not_not.mp hcond.2, rfl⟩
    obtain ⟨r0, hr0, hbb0⟩ := D.bbSome
    have hbne : bbKeys rs ≠ [] := by
      intro he
      cases hb : r0.binBounds with
      | nil => exact hbb0 hb
      | cons p l =>
        have := mem_bbKeys rs hr0 (p := p) (by rw [hb]; simp)
        rw [he] at this; cases this
    have hone : objKeys rs ≠ [] := by
      intro he
      cases ho : r0.objectives with
      | nil => exact objectives_ne_nil_of_ok V (D.ok r0 hr0) ho
      | cons p l =>
        have := mem_objKeys rs hr0 (p := p) (by rw [ho]; simp)
        rw [he] at this; cases this
    have hsetup := prSetup_header C rs hnodup.1 D.codec.sub D.keysDisj
      (fun k hk => by
        obtain ⟨r, hr, p, hp, rfl⟩ := of_mem_bbKeys rs hk
        exact D.bbKey r hr p hp)
      hbne
      (fun o ho => by
        obtain ⟨r, hr, p, hp, rfl⟩ := of_mem_objKeys rs ho
        exact D.objName r hr p hp)
      hone
    unfold prRead
    simp only [hc, hnodup.2, hsetup]
    apply mapM_map_some
    intro r hr
    rw [padRow_trimRow _ _ (length_prRow C V rs D hr)]
    exact prParseRow_row C V rs D hr
  · cases hw

end final
end Csv

namespace Csv
open Text

/-! ### statistics: the per-objective scoped selection -/

/-- the `(use_key, index)` pairs of the columns of `cols` in scope `sc` -/
def selOf (sc : Str) (cols : Cols) : List (Str × Nat) :=
  cols.filterMap (fun c => (scopeUse sc c.1).map (fun u => (u, c.2)))

theorem selectScope_some (cols : Cols) (sc : Str) (hne : selOf sc cols ≠ []) :
    csvSelectScope cols (some sc) (fun _ => false) =
      some (selOf sc cols, cols.filter (fun c => (scopeUse sc c.1).isNone)) := by
  unfold csvSelectScope
  have hf : cols.filter (fun c => !(fun _ : Str => false) c.1) = cols := List.filter_eq_self.mpr (by simp)
  simp only [hf]
  have hmap : (cols.filterMap (fun c => (scopeUse sc c.1).map (fun u => (c.1, u, c.2)))).map (fun t => (t.2.1, t.2.2))
      = selOf sc cols := by
    unfold selOf
    rw [List.map_filterMap]
    congr 1
    funext c
    cases scopeUse sc c.1 <;> rfl
  have hemp : (cols.filterMap (fun c => (scopeUse sc c.1).map (fun u => (c.1, u, c.2)))).isEmpty = false := by
    cases hq : cols.filterMap (fun c => (scopeUse sc c.1).map (fun u => (c.1, u, c.2))) with
    | nil => rw [hq] at hmap; exact absurd hmap.symm hne
    | cons a l => rfl
  simp only [hemp, Bool.false_eq_true, if_false, hmap, Option.some.injEq, Prod.mk.injEq, true_and]
  apply List.filter_congr
  intro c hc
  have hkeys : ∀ k, k ∈ (cols.filterMap (fun c => (scopeUse sc c.1).map (fun u => (c.1, u, c.2)))).map (·.1) ↔
      ∃ c' ∈ cols, c'.1 = k ∧ (scopeUse sc c'.1).isSome := by
    intro k
    simp only [List.mem_map, List.mem_filterMap, Option.map_eq_some_iff]
    constructor
    · rintro ⟨t, ⟨c', hc', u, hu, rfl⟩, rfl⟩
      exact ⟨c', hc', rfl, by simp [hu]⟩
    · rintro ⟨c', hc', rfl, hs⟩
      obtain ⟨u, hu⟩ := Option.isSome_iff_exists.mp hs
      exact ⟨(c'.1, u, c'.2), ⟨c', hc', u, hu, rfl⟩, rfl⟩
  cases hs : scopeUse sc c.1 with
  | none =>
    have : ¬ c.1 ∈ (cols.filterMap (fun c => (scopeUse sc c.1).map (fun u => (c.1, u, c.2)))).map (·.1) := by
      intro hm
      obtain ⟨c', _, he, hs'⟩ := (hkeys c.1).mp hm
      rw [he, hs] at hs'
      cases hs'
    simp [this]
  | some u =>
    have : c.1 ∈ (cols.filterMap (fun c => (scopeUse sc c.1).map (fun u => (c.1, u, c.2)))).map (·.1) :=
      (hkeys c.1).mpr ⟨c, hc, rfl, by simp [hs]⟩
    simp [this]

end Csv

namespace Csv
open Text

theorem filterMap_filter_of_imp {α β : Type} (l : List α) (p : α → Bool) (g : α → Option β)
    (h : ∀ c ∈ l, (g c).isSome → p c = true) : (l.filter p).filterMap g = l.filterMap g := by
  induction l with
  | nil => rfl
  | cons a l ih =>
    have ih' := ih (fun c hc => h c (by simp [hc]))
    simp only [List.filter_cons]
    cases hp : p a with
    | true => simp only [if_true, List.filterMap_cons, ih']
    | false =>
      have : g a = none := by
        cases hg : g a with
        | none => rfl
        | some v => have := h a (by simp) (by simp [hg]); rw [hp] at this; cases this
      simp [List.filterMap_cons, this, ih']

theorem psSelectObjs_spec (idxN : Nat) (ks : List Str) (cols : Cols) (hnd : ks.Nodup)
    (hne : ∀ o ∈ ks, selOf o cols ≠ [])
    (hdisj : ∀ c ∈ cols, ∀ o ∈ ks, ∀ o' ∈ ks, (scopeUse o c.1).isSome → (scopeUse o' c.1).isSome → o = o')
    (hN : ∀ o ∈ ks, kN ∉ (selOf o cols).map (·.1)) :
    psSelectObjs idxN cols ks = some (ks.map (fun o => (o, selOf o cols ++ [(kN, idxN)]))) := by
  induction ks generalizing cols with
  | nil => rfl
  | cons o os ih =>
    simp only [List.nodup_cons] at hnd
    simp only [psSelectObjs]
    rw [selectScope_some cols o (hne o (by simp))]
    simp only []
    have hc : ((selOf o cols).map (·.1)).contains kN = false := by
      have := hN o (by simp)
      simpa [List.contains_iff_mem] using this
    rw [hc]
    simp only [Bool.false_eq_true, if_false, List.map_cons]
    have hsame : ∀ o' ∈ os, selOf o' (cols.filter (fun c => (scopeUse o c.1).isNone)) = selOf o' cols := by
      intro o' ho'
      unfold selOf
      apply filterMap_filter_of_imp
      intro c hc hs
      cases hq : scopeUse o c.1 with
      | none => rfl
      | some u =>
        have hs' : (scopeUse o' c.1).isSome := by
          cases hz : scopeUse o' c.1 with
          | none => rw [hz] at hs; cases hs
          | some v => rfl
        have := hdisj c hc o (by simp) o' (by simp [ho']) (by simp [hq]) hs'
        subst this
        exact absurd ho' hnd.1
    have ih' := ih (cols.filter (fun c => (scopeUse o c.1).isNone)) hnd.2
      (fun o' ho' => by rw [hsame o' ho']; exact hne o' (by simp [ho']))
      (fun c hc a ha b hb => hdisj c (List.mem_filter.mp hc).1 a (by simp [ha]) b (by simp [hb]))
      (fun o' ho' => by rw [hsame o' ho']; exact hN o' (by simp [ho']))
    rw [ih']
    simp only [Option.map_some, Option.some.injEq, List.cons.injEq, true_and]
    apply List.map_congr_left
    intro o' ho'
    rw [hsame o' ho']

end Csv

namespace Csv
open Text

/-! ### scopes of objective names -/

theorem scopeUse_cases {o t : Str} (h : (scopeUse o t).isSome) : t = o ∨ ∃ x, t = o ++ '.' :: x := by
  unfold scopeUse at h
  split at h
  · rename_i hp
    rw [List.isPrefixOf_iff_prefix] at hp
    obtain ⟨x, hx⟩ := hp
    exact Or.inr ⟨x, by rw [← hx]; simp⟩
  · split at h
    · rename_i he; exact Or.inl he
    · cases h

theorem head_split_of_scope {o t : Str} (hdot : '.' ∉ o) (h : (scopeUse o t).isSome) :
    (splitSep '.' t).head? = some o := by
  rcases scopeUse_cases h with rfl | ⟨x, rfl⟩
  · rw [splitSep_token '.' _ hdot]; rfl
  · rw [splitSep_append '.' _ _ hdot]; rfl

theorem scope_disjoint {o o' t : Str} (ho : ObjName o) (ho' : ObjName o')
    (h : (scopeUse o t).isSome) (h' : (scopeUse o' t).isSome) : o = o' := by
  have h1 := head_split_of_scope ho.2.1 h
  have h2 := head_split_of_scope ho'.2.1 h'
  rw [h1] at h2
  exact Option.some.inj h2

/-- a title in the scope of an objective name is not in the scope of the bin bounds -/
theorem scope_not_bins {o t : Str} (ho : ObjName o) (h : (scopeUse o t).isSome) :
    ((sBinsLB ++ ['.']).isPrefixOf t = false) ∧ t ≠ sBinsLB := by
  have h1 := head_split_of_scope ho.2.1 h
  have hdb : '.' ∉ sBins := by decide
  constructor
  · cases hp : (sBinsLB ++ ['.']).isPrefixOf t with
    | false => rfl
    | true =>
      rw [List.isPrefixOf_iff_prefix] at hp
      obtain ⟨rest, hr⟩ := hp
      have : t = sBins ++ '.' :: (sLower ++ '.' :: rest) := by rw [← hr, sBinsLB_eq]; simp
      rw [this, splitSep_append '.' _ _ hdb] at h1
      exact absurd (Option.some.inj h1).symm ho.2.2.1
  · intro he
    rw [he, sBinsLB_eq, splitSep_append '.' _ _ hdb] at h1
    exact absurd (Option.some.inj h1).symm ho.2.2.1

theorem scopeUse_self_scope (o x : Str) : (scopeUse o (scopeKey o x)).isSome := by
  unfold scopeUse scopeKey
  have : (o ++ ['.']).isPrefixOf (o ++ '.' :: x) = true := by
    rw [List.isPrefixOf_iff_prefix]; exact ⟨x, by simp⟩
  simp [this]

end Csv

namespace Csv
open Text

/-! ### `packing_statistics.CsvReader.__init__` on a header of the writer's shape -/

/-- the titles of one objective in the statistics table: lower bound, the columns of the embedded
statistics writer, upper bound -/
def statTitles (St : Str → List Str) (o : Str) : List Str := [scopeKey o sLower] ++ St o ++ [scopeKey o sUpper]

theorem filter_stat_titles (St : Str → List Str) (ks : List Str)
    (hnb : ∀ o ∈ ks, ∀ t ∈ St o, isBoundKey t = false) :
    (ks.flatMap (statTitles St)).filter isBoundKey = ks.flatMap boundTitles ∧
    (ks.flatMap (statTitles St)).filter (fun t => !isBoundKey t) = ks.flatMap St := by
  induction ks with
  | nil => exact ⟨rfl, rfl⟩
  | cons o ks ih =>
    obtain ⟨i1, i2⟩ := ih (fun x hx => hnb x (by simp [hx]))
    have h1 : (St o).filter isBoundKey = [] :=
      List.filter_eq_nil_iff.mpr (fun t ht => by simp [hnb o (by simp) t ht])
    have h2 : (St o).filter (fun t => !isBoundKey t) = St o :=
      List.filter_eq_self.mpr (fun t ht => by simp [hnb o (by simp) t ht])
    simp only [List.flatMap_cons, List.filter_append, i1, i2, statTitles, h1, h2]
    simp [boundTitles, List.filter_cons, isBoundKey_lower, isBoundKey_upper]

/-- **layout of the statistics reader**: on a header `A ++ fixed ++ B ++ (per objective: lower bound, statistics
columns, upper bound)` the reader's `__init__` takes the embedded columns, the four instance columns, the
bin bounds, then the objective bounds, and only then, per objective name derived from the bounds, the remaining
columns in that objective's scope (plus the `n` column of the end statistics) -/
theorem psSetup_header (keys A B ks : List Str) (St : Str → List Str) (idxN : Nat)
    (hn : (A ++ fixedTitles ++ B ++ ks.flatMap (statTitles St)).Nodup) (hA : ∀ t ∈ A, t ∈ keys)
    (hdisj : ∀ k ∈ keys, k ∉ fixedTitles ++ B ++ ks.flatMap (statTitles St))
    (hbb : ∀ k ∈ B, BBKey k) (hbne : B ≠ []) (hBsorted : B.Pairwise (· < ·))
    (hKsorted : ks.Pairwise (· < ·)) (hobj : ∀ o ∈ ks, ObjName o) (hone : ks ≠ [])
    (hscope : ∀ o ∈ ks, ∀ t ∈ St o, (scopeUse o t).isSome)
    (hnb : ∀ o ∈ ks, ∀ t ∈ St o, isBoundKey t = false)
    (hSne : ∀ o ∈ ks, St o ≠ [])
    (hnoN : ∀ o ∈ ks, kN ∉ (St o).filterMap (scopeUse o))
    (hidx : A.zipIdx.lookup kN = some idxN) :
    psSetup keys (A ++ fixedTitles ++ B ++ ks.flatMap (statTitles St)).zipIdx =
      some ⟨A.zipIdx, A.length + 2, A.length + 3, A.length + 1, A.length, B.zipIdx (A.length + 4),
        sortPairs (((ks.flatMap (statTitles St)).zipIdx (A.length + 4 + B.length)).filter (fun c => isBoundKey c.1)),
        ks.map (fun o => (o, selOf o (((ks.flatMap (statTitles St)).zipIdx (A.length + 4 + B.length)).filter
          (fun c => !isBoundKey c.1)) ++ [(kN, idxN)]))⟩ := by
  have hmemO : ∀ t ∈ ks.flatMap (statTitles St), ∃ o ∈ ks, t ∈ statTitles St o := fun t ht => List.mem_flatMap.mp ht
  have hObins : ∀ t ∈ ks.flatMap (statTitles St), ((sBinsLB ++ ['.']).isPrefixOf t = false) ∧ t ≠ sBinsLB := by
    intro t ht
    obtain ⟨o, ho, hto⟩ := hmemO t ht
    simp only [statTitles, List.mem_append, List.mem_cons, List.not_mem_nil, or_false] at hto
    rcases hto with (rfl | hto) | rfl
    · exact scope_not_bins (hobj o ho) (scopeUse_self_scope o sLower)
    · exact scope_not_bins (hobj o ho) (hscope o ho t hto)
    · exact scope_not_bins (hobj o ho) (scopeUse_self_scope o sUpper)
  have hcommon := setupCommon_header keys A B (ks.flatMap (statTitles St)) hn hA hdisj hbb hbne hBsorted hObins
  have hfilt := filter_stat_titles St ks hnb
  have hOBk : (((ks.flatMap (statTitles St)).zipIdx (A.length + 4 + B.length)).filter (fun c => isBoundKey c.1)).map (·.1)
      = ks.flatMap boundTitles := by
    rw [map_fst_filter_zipIdx, ← hfilt.1]
  have hNBk : (((ks.flatMap (statTitles St)).zipIdx (A.length + 4 + B.length)).filter (fun c => !isBoundKey c.1)).map (·.1)
      = ks.flatMap St := by
    rw [map_fst_filter_zipIdx _ _ (fun t => !isBoundKey t)]
    exact hfilt.2
  generalize hOz : (ks.flatMap (statTitles St)).zipIdx (A.length + 4 + B.length) = Oz at *
  generalize hNB : Oz.filter (fun c => !isBoundKey c.1) = NB at *
  have hNBscope : ∀ c ∈ NB, ∃ o ∈ ks, c.1 ∈ St o := by
    intro c hc
    have : c.1 ∈ ks.flatMap St := by rw [← hNBk]; exact List.mem_map.mpr ⟨c, hc, rfl⟩
    exact List.mem_flatMap.mp this
  -- keys of the selection of one objective
  have hselkeys : ∀ o ∈ ks, ∀ u ∈ (selOf o NB).map (·.1), u ∈ (St o).filterMap (scopeUse o) := by
    intro o ho u hu
    obtain ⟨p, hp, rfl⟩ := List.mem_map.mp hu
    unfold selOf at hp
    obtain ⟨c, hc, hcu⟩ := List.mem_filterMap.mp hp
    obtain ⟨v, hv, rfl⟩ := Option.map_eq_some_iff.mp hcu
    obtain ⟨o', ho', hto'⟩ := hNBscope c hc
    have : o = o' := scope_disjoint (hobj o ho) (hobj o' ho') (by simp [hv]) (hscope o' ho' c.1 hto')
    subst this
    exact List.mem_filterMap.mpr ⟨c.1, hto', hv⟩
  have hselne : ∀ o ∈ ks, selOf o NB ≠ [] := by
    intro o ho
    cases hS : St o with
    | nil => exact absurd hS (hSne o ho)
    | cons t rest =>
      have ht : t ∈ St o := by rw [hS]; simp
      have : t ∈ NB.map (·.1) := by rw [hNBk]; exact List.mem_flatMap.mpr ⟨o, ho, ht⟩
      obtain ⟨c, hc, rfl⟩ := List.mem_map.mp this
      obtain ⟨u, hu⟩ := Option.isSome_iff_exists.mp (hscope o ho c.1 ht)
      intro he
      have : (u, c.2) ∈ selOf o NB := List.mem_filterMap.mpr ⟨c, hc, by simp [hu]⟩
      rw [he] at this; cases this
  unfold psSetup
  rw [hcommon]; simp only [hidx]
  rw [setupBounds_of Oz ks hone hOBk]; simp only [hNB]
  rw [namesOfBounds_sorted Oz ks hKsorted hobj hOBk]
  rw [psSelectObjs_spec idxN ks NB (nodup_of_sorted hKsorted) hselne
    (fun c _ o ho o' ho' h h' => scope_disjoint (hobj o ho) (hobj o' ho') h h')
    (fun o ho hm => hnoN o ho (hselkeys o ho kN hm))]
  simp only []
  have hlenOB : (Oz.filter (fun c => isBoundKey c.1)).length = 2 * ks.length := by
    have := congrArg List.length hOBk
    rw [List.length_map] at this
    rw [this, length_boundTitles]
  have hnonempty : (ks.map (fun o => (o, selOf o NB ++ [(kN, idxN)]))).isEmpty = false := by
    cases hk : ks with
    | nil => exact absurd hk hone
    | cons o t => rfl
  rw [hnonempty, List.length_map, length_sortPairs, hlenOB]
  simp only [Bool.false_or, ne_eq, not_true_eq_false, decide_false, Bool.false_eq_true, if_false]

end Csv

namespace Csv
open Text

/-! ### statistics: header and rows of the writer -/

theorem mapM_all_some {α β : Type} (l : List α) (f : α → Option β) (h : ∀ a ∈ l, (f a).isSome) :
    l.mapM f = some (l.filterMap f) := by
  induction l with
  | nil => rfl
  | cons a l ih =>
    obtain ⟨b, hb⟩ := Option.isSome_iff_exists.mp (h a (by simp))
    simp [List.mapM_cons, hb, ih (fun x hx => h x (by simp [hx])), List.filterMap_cons]

theorem mapM_some_map {α β : Type} (l : List α) (f : α → Option β) (g : α → β)
    (h : ∀ a ∈ l, f a = some (g a)) : l.mapM f = some (l.map g) := by
  induction l with
  | nil => rfl
  | cons a l ih => simp [List.mapM_cons, h a (by simp), ih (fun x hx => h x (by simp [hx]))]

theorem readMapStrict_eq_readMap (data : List Str) (L : List (Str × Nat))
    (h : ∀ p ∈ L, ∃ c, data[p.2]? = some c ∧ c ≠ []) : readMapStrict data L = readMap data L := by
  induction L with
  | nil => rfl
  | cons p L ih =>
    cases p with
    | mk k i =>
      obtain ⟨c, hc, hne⟩ := h (k, i) (by simp)
      simp only at hc
      simp only [readMapStrict, readMap, hc, if_neg hne, ih (fun q hq => h q (by simp [hq]))]

section stat
variable {ES SS : Type} (C : Codec ES) (S : SsCodec SS) (V : EsView ES SS) (rs : List (PSRec ES SS))

/-- every record has every objective of the table, with statistics from the objective's column -/
theorem ps_lookup_obj (D : PSDomain C S V rs) {r : PSRec ES SS} (hr : r ∈ rs) {o : Str} (ho : o ∈ psObjKeys rs) :
    ∃ s, r.objectives.lookup o = some s ∧ s ∈ psCol rs o ∧ (o, s) ∈ r.objectives := by
  have : o ∈ r.objectives.map (·.1) := by rw [D.commonObj r hr]; exact ho
  obtain ⟨p, hp, rfl⟩ := List.mem_map.mp this
  have hl := lookup_of_mem (nodup_of_sorted (D.canon r hr).1) hp
  exact ⟨p.2, hl, List.mem_filterMap.mpr ⟨r, hr, hl⟩, hp⟩

theorem psColumn_eq (D : PSDomain C S V rs) {o : Str} (ho : o ∈ psObjKeys rs) :
    psColumn rs o = some (psCol rs o) := by
  unfold psColumn psCol
  apply mapM_all_some
  intro r hr
  obtain ⟨s, hs, _⟩ := ps_lookup_obj C S V rs D hr ho
  simp [hs]

/-- the titles of the statistics columns of objective `o` in this table -/
def psSt (o : Str) : List Str := S.titles o (psCol rs o)

theorem psHeader_eq (D : PSDomain C S V rs) :
    psHeader C S rs = some (C.titles (rs.map (·.es)) ++ fixedTitles ++ psBbKeys rs ++
      (psObjKeys rs).flatMap (statTitles (psSt S rs))) := by
  unfold psHeader
  rw [mapM_some_map (psObjKeys rs) (psObjTitles S rs) (statTitles (psSt S rs)) (fun o ho => by
    unfold psObjTitles
    rw [psColumn_eq C S V rs D ho]
    rfl)]
  simp only [Option.map_some, List.flatMap_def]

/-- the cells of the columns of objective `o` in the row of record `r` -/
def psCells (r : PSRec ES SS) (o : Str) : List Str :=
  match r.objectives.lookup o with
  | some s => [cellOpt (r.objBounds.lookup (scopeKey o sLower))] ++ S.row o (psCol rs o) s ++
      [cellOpt (r.objBounds.lookup (scopeKey o sUpper))]
  | none => []

theorem psRow_eq (D : PSDomain C S V rs) {r : PSRec ES SS} (hr : r ∈ rs) :
    psRow C S rs r = some (C.row (rs.map (·.es)) r.es ++
      [showInt r.binH, showInt r.binW, showInt r.nItems, showInt r.nDiff] ++
      (psBbKeys rs).map (fun k => cellOpt (r.binBounds.lookup k)) ++
      (psObjKeys rs).flatMap (psCells S rs r)) := by
  unfold psRow
  rw [mapM_some_map (psObjKeys rs) (psObjCells S rs r) (psCells S rs r) (fun o ho => by
    obtain ⟨s, hs, _⟩ := ps_lookup_obj C S V rs D hr ho
    unfold psObjCells psCells
    rw [psColumn_eq C S V rs D ho, hs])]
  simp only [Option.map_some, List.flatMap_def]

theorem length_psCells (D : PSDomain C S V rs) {r : PSRec ES SS} (hr : r ∈ rs) {o : Str} (ho : o ∈ psObjKeys rs) :
    (statTitles (psSt S rs) o).length = (psCells S rs r o).length := by
  obtain ⟨s, hs, hcol, _⟩ := ps_lookup_obj C S V rs D hr ho
  unfold psCells statTitles psSt
  rw [hs]
  simp only [List.length_append, (D.ss o ho).len s hcol, List.length_cons, List.length_nil]

theorem length_flatMap_eq_of_mem {α : Type} (ks : List α) (T D : α → List Str)
    (h : ∀ a ∈ ks, (T a).length = (D a).length) : (ks.flatMap T).length = (ks.flatMap D).length := by
  induction ks with
  | nil => rfl
  | cons a ks ih =>
    simp only [List.flatMap_cons, List.length_append, ih (fun x hx => h x (by simp [hx])), h a (by simp)]

theorem zip_flatMap_of_mem {α : Type} (ks : List α) (T D : α → List Str)
    (h : ∀ a ∈ ks, (T a).length = (D a).length) :
    (ks.flatMap T).zip (ks.flatMap D) = ks.flatMap (fun a => (T a).zip (D a)) := by
  induction ks with
  | nil => rfl
  | cons a ks ih =>
    simp only [List.flatMap_cons, List.zip_append (h a (by simp)), ih (fun x hx => h x (by simp [hx]))]

end stat
end Csv

namespace Csv
open Text

section statrow
variable {ES SS : Type} (C : Codec ES) (S : SsCodec SS) (V : EsView ES SS) (rs : List (PSRec ES SS))

theorem ps_ok_bounds {r : PSRec ES SS} (h : r.Ok V) {q : Str × SS} (hq : q ∈ r.objectives) :
    (∃ lo, r.objBounds.lookup (scopeKey q.1 sLower) = some lo) ∧
    (∃ hi, r.objBounds.lookup (scopeKey q.1 sUpper) = some hi) := by
  unfold PSRec.Ok PSRec.okB at h
  simp only [Bool.and_eq_true, List.all_eq_true] at h
  have := h.1.1.1.1.1.1.1.1.1.2 q hq
  split at this
  · rename_i lo hi h1 h2; exact ⟨⟨lo, h1⟩, ⟨hi, h2⟩⟩
  · cases this

/-- the use-keys of the columns in scope `o` among the statistics columns of all objectives are those of `o`'s own -/
theorem filterMap_scope_flatMap (St : Str → List Str) (ks : List Str) (hnd : ks.Nodup) (hobj : ∀ o ∈ ks, ObjName o)
    (hscope : ∀ o ∈ ks, ∀ t ∈ St o, (scopeUse o t).isSome) {o : Str} (ho : o ∈ ks) :
    (ks.flatMap St).filterMap (scopeUse o) = (St o).filterMap (scopeUse o) := by
  induction ks with
  | nil => cases ho
  | cons a ks ih =>
    simp only [List.nodup_cons] at hnd
    simp only [List.flatMap_cons, List.filterMap_append]
    have hother : ∀ b ∈ a :: ks, b ≠ o → (St b).filterMap (scopeUse o) = [] := by
      intro b hb hne
      apply filterMap_all_none
      intro t ht
      cases hq : scopeUse o t with
      | none => rfl
      | some u =>
        exact absurd (scope_disjoint (hobj o ho) (hobj b hb) (by simp [hq]) (hscope b hb t ht)).symm hne
    by_cases hao : a = o
    · subst hao
      have : (ks.flatMap St).filterMap (scopeUse a) = [] := by
        rw [List.filterMap_flatMap]
        apply List.flatMap_eq_nil_iff.mpr
        intro b hb
        exact hother b (by simp [hb]) (fun e => hnd.1 (e ▸ hb))
      rw [this, List.append_nil]
    · rcases List.mem_cons.mp ho with e | ho'
      · exact absurd e.symm hao
      · rw [hother a (by simp) hao, List.nil_append]
        exact ih hnd.2 (fun x hx => hobj x (by simp [hx])) (fun x hx => hscope x (by simp [hx])) ho'

theorem mem_zip_unique {l : List Str} (hn : l.Nodup) {l' : List Str} {t c d : Str}
    (h1 : (t, c) ∈ l.zip l') (h2 : (t, d) ∈ l.zip l') : c = d := by
  induction l generalizing l' with
  | nil => simp at h1
  | cons a l ih =>
    cases l' with
    | nil => simp at h1
    | cons b l' =>
      simp only [List.nodup_cons] at hn
      simp only [List.zip_cons_cons, List.mem_cons, Prod.mk.injEq] at h1 h2
      rcases h1 with ⟨e1, e2⟩ | h1 <;> rcases h2 with ⟨f1, f2⟩ | h2
      · rw [e2, f2]
      · exact absurd (e1 ▸ (List.of_mem_zip h2).1) hn.1
      · exact absurd (f1 ▸ (List.of_mem_zip h1).1) hn.1
      · exact ih hn.2 h1 h2

end statrow
end Csv

namespace Csv
open Text

section statrow2
variable {ES SS : Type} (C : Codec ES) (S : SsCodec SS) (V : EsView ES SS) (rs : List (PSRec ES SS))

/-- the reader state that `packing_statistics.CsvReader.__init__` reaches on the writer's header -/
def expReaderS (idxN : Nat) : PSReader :=
  let A := C.titles (rs.map (·.es))
  let B := psBbKeys rs
  let ks := psObjKeys rs
  let Oz := (ks.flatMap (statTitles (psSt S rs))).zipIdx (A.length + 4 + B.length)
  ⟨A.zipIdx, A.length + 2, A.length + 3, A.length + 1, A.length, B.zipIdx (A.length + 4),
    sortPairs (Oz.filter (fun c => isBoundKey c.1)),
    ks.map (fun o => (o, selOf o (Oz.filter (fun c => !isBoundKey c.1)) ++ [(kN, idxN)]))⟩

/-- `parse_row` (and the constructor) of the statistics reader on a row of the writer returns the record -/
theorem psParseRow_row (D : PSDomain C S V rs) (idxN : Nat)
    (hidx : (C.titles (rs.map (·.es))).zipIdx.lookup kN = some idxN)
    (hStn : ∀ o ∈ psObjKeys rs, (psSt S rs o).Nodup)
    {r : PSRec ES SS} (hr : r ∈ rs) (data : List Str) (hrow : psRow C S rs r = some data) :
    psParseRow C S V (expReaderS C S rs idxN) data = some r := by
  have hcanon := D.canon r hr
  rw [psRow_eq C S V rs D hr] at hrow
  have hdata := (Option.some.inj hrow).symm
  clear hrow
  -- names for the parts
  generalize hAdef : C.titles (rs.map (·.es)) = A at *
  generalize hRAdef : C.row (rs.map (·.es)) r.es = RA at *
  have hlenA : RA.length = A.length := by
    rw [← hAdef, ← hRAdef]; exact D.codec.len r.es (List.mem_map.mpr ⟨r, hr, rfl⟩)
  have hAn : A.Nodup := hAdef ▸ D.codec.nodup
  have hobjN := D.objName
  have hbbeq := D.commonBB r hr
  have hobjeq := D.commonObj r hr
  have hss := D.ss
  have hlk : ∀ o ∈ psObjKeys rs, ∃ s, r.objectives.lookup o = some s ∧ s ∈ psCol rs o ∧ (o, s) ∈ r.objectives :=
    fun o ho => ps_lookup_obj C S V rs D hr ho
  have hlenCells : ∀ o ∈ psObjKeys rs, (statTitles (psSt S rs) o).length = (psCells S rs r o).length :=
    fun o ho => length_psCells C S V rs D hr ho
  generalize hBdef : psBbKeys rs = B at *
  generalize hKdef : psObjKeys rs = ks at *
  have hBsorted : B.Pairwise (· < ·) := hBdef ▸ sorted_sortedSet _
  have hKsorted : ks.Pairwise (· < ·) := hKdef ▸ sorted_sortedSet _
  generalize hRFdef : [showInt r.binH, showInt r.binW, showInt r.nItems, showInt r.nDiff] = RF at *
  have hlenF : RF.length = 4 := by rw [← hRFdef]; rfl
  -- the embedded record
  have her : C.read (erLookup A.zipIdx data) = some r.es := by
    apply D.codec.back r.es (List.mem_map.mpr ⟨r, hr, rfl⟩)
    · rw [hAdef, hRAdef]
      intro p hp
      obtain ⟨j, hj, hpj⟩ := List.getElem_of_mem hp
      simp only [List.length_zip] at hj
      have hjA : j < A.length := by omega
      have hjR : j < RA.length := by omega
      have hp1 : p = (A[j], RA[j]) := by rw [← hpj]; simp
      rw [hp1]
      simp only [erLookup, lookup_zipIdx A hAn j hjA, Option.bind_some]
      rw [hdata, List.append_assoc, List.append_assoc, List.getElem?_append_left hjR, List.getElem?_eq_getElem hjR]
    · rw [hAdef]
      intro k _ hk
      simp only [erLookup]
      rw [lookup_eq_none_of_not_mem (by rw [List.zipIdx_map_fst]; exact hk)]
      rfl
  -- the four fixed cells
  have hget : ∀ j (hj : j < 4), data[A.length + j]? = RF[j]? := by
    intro j hj
    rw [hdata, List.append_assoc, List.append_assoc, List.getElem?_append_right (by omega),
      List.getElem?_append_left (by omega)]
    congr 1; omega
  have hiN : readInt data (A.length + 2) = some r.nItems := by
    simp only [readInt, hget 2 (by omega), ← hRFdef]
    simp [parseInt?_showInt]
  have hiD : readInt data (A.length + 3) = some r.nDiff := by
    simp only [readInt, hget 3 (by omega), ← hRFdef]
    simp [parseInt?_showInt]
  have hiW : readInt data (A.length + 1) = some r.binW := by
    simp only [readInt, hget 1 (by omega), ← hRFdef]
    simp [parseInt?_showInt]
  have hiH : readInt data A.length = some r.binH := by
    have := hget 0 (by omega)
    simp only [Nat.add_zero] at this
    simp only [readInt, this, ← hRFdef]
    simp [parseInt?_showInt]
  -- the bin bounds (every record has every bin bound of the table)
  have hbbcell : ∀ p ∈ B.zipIdx (A.length + 4), data[p.2]? = some (cellOpt (r.binBounds.lookup p.1)) := by
    intro p hp
    have hpre : (RA ++ RF).length = A.length + 4 := by simp [hlenA, hlenF]
    obtain ⟨d, hd, hz⟩ := get_part (RA ++ RF) B (B.map (fun k => cellOpt (r.binBounds.lookup k)))
      (ks.flatMap (psCells S rs r)) (by simp) (k := p.1) (i := p.2) (by rw [hpre]; exact hp)
    rw [hdata, hd]
    have := zip_map_self B id (fun k => cellOpt (r.binBounds.lookup k))
    simp only [List.map_id] at this
    rw [this] at hz
    obtain ⟨x, _, hx⟩ := List.mem_map.mp hz
    simp only [id, Prod.mk.injEq] at hx
    rw [← hx.2, hx.1]
  have hbins : readMapStrict data (B.zipIdx (A.length + 4)) = some r.binBounds := by
    rw [readMapStrict_eq_readMap]
    · apply readMap_restrict _ _ _ hbbcell (by rw [List.zipIdx_map_fst]; exact hBsorted) hcanon.2.2
        (fun p hp => by rw [List.zipIdx_map_fst, ← hbbeq]; exact List.mem_map.mpr ⟨p, hp, rfl⟩)
    · intro p hp
      refine ⟨_, hbbcell p hp, ?_⟩
      have hpB : p.1 ∈ r.binBounds.map (·.1) := by rw [hbbeq]; exact List.fst_mem_of_mem_zipIdx hp
      obtain ⟨q, hq, he⟩ := List.mem_map.mp hpB
      have := lookup_of_mem (nodup_of_sorted hcanon.2.2) hq
      rw [he] at this
      rw [this]
      exact cellOpt_ne_nil q.2
  -- the objective columns
  have hOcell : ∀ p ∈ (ks.flatMap (statTitles (psSt S rs))).zipIdx (A.length + 4 + B.length),
      ∃ d o, data[p.2]? = some d ∧ o ∈ ks ∧ (p.1, d) ∈ (statTitles (psSt S rs) o).zip (psCells S rs r o) := by
    intro p hp
    have hpre : (RA ++ RF ++ B.map (fun k => cellOpt (r.binBounds.lookup k))).length = A.length + 4 + B.length := by
      simp only [List.length_append, List.length_map, hlenA, hlenF]
    obtain ⟨d, hd, hz⟩ := get_part (RA ++ RF ++ B.map (fun k => cellOpt (r.binBounds.lookup k)))
      (ks.flatMap (statTitles (psSt S rs))) (ks.flatMap (psCells S rs r)) []
      (length_flatMap_eq_of_mem ks _ _ hlenCells) (k := p.1) (i := p.2) (by rw [hpre]; exact hp)
    rw [zip_flatMap_of_mem ks _ _ hlenCells] at hz
    obtain ⟨o, ho, hzo⟩ := List.mem_flatMap.mp hz
    refine ⟨d, o, ?_, ho, hzo⟩
    rw [hdata, ← hd, List.append_nil]
  -- shape of the zipped titles and cells of one objective
  have hzipO : ∀ o ∈ ks, ∃ s, r.objectives.lookup o = some s ∧ s ∈ psCol rs o ∧ (o, s) ∈ r.objectives ∧
      (statTitles (psSt S rs) o).zip (psCells S rs r o) =
        [(scopeKey o sLower, cellOpt (r.objBounds.lookup (scopeKey o sLower)))] ++
        (psSt S rs o).zip (S.row o (psCol rs o) s) ++
        [(scopeKey o sUpper, cellOpt (r.objBounds.lookup (scopeKey o sUpper)))] := by
    intro o ho
    obtain ⟨s, hs, hcol, hmem⟩ := hlk o ho
    refine ⟨s, hs, hcol, hmem, ?_⟩
    unfold statTitles psCells
    rw [hs]
    have hl : (psSt S rs o).length = (S.row o (psCol rs o) s).length := ((hss o ho).len s hcol).symm
    rw [List.zip_append (by simp [hl]), List.zip_append (by simp)]
    rfl
  have hbounds : readMapStrict data (sortPairs (((ks.flatMap (statTitles (psSt S rs))).zipIdx (A.length + 4 + B.length)).filter
      (fun c => isBoundKey c.1))) = some r.objBounds := by
    have hkeys : ((((ks.flatMap (statTitles (psSt S rs))).zipIdx (A.length + 4 + B.length)).filter
        (fun c => isBoundKey c.1)).map (·.1)) = ks.flatMap boundTitles := by
      rw [map_fst_filter_zipIdx, (filter_stat_titles (psSt S rs) ks (fun o ho => (hss o ho).noBound)).1]
    have hcell : ∀ p ∈ sortPairs (((ks.flatMap (statTitles (psSt S rs))).zipIdx (A.length + 4 + B.length)).filter
        (fun c => isBoundKey c.1)), data[p.2]? = some (cellOpt (r.objBounds.lookup p.1)) ∧
        (r.objBounds.lookup p.1).isSome := by
      intro p hp
      have hp' := List.mem_filter.mp (mem_sortPairs.mp hp)
      obtain ⟨d, o, hd, ho, hz⟩ := hOcell p hp'.1
      obtain ⟨s, hs, hcol, hmem, hzip⟩ := hzipO o ho
      have hb : isBoundKey p.1 = true := hp'.2
      have hokb := ps_ok_bounds V (D.ok r hr) hmem
      rw [hzip] at hz
      rw [hd]
      simp only [List.mem_append, List.mem_cons, Prod.mk.injEq, List.not_mem_nil, or_false] at hz
      rcases hz with (⟨h1, h2⟩ | hz) | ⟨h1, h2⟩
      · rw [h2, h1]; obtain ⟨lo, hlo⟩ := hokb.1; exact ⟨rfl, by simp [hlo]⟩
      · have := (hss o ho).noBound p.1 (List.of_mem_zip hz).1
        rw [this] at hb; cases hb
      · rw [h2, h1]; obtain ⟨hi, hhi⟩ := hokb.2; exact ⟨rfl, by simp [hhi]⟩
    rw [readMapStrict_eq_readMap]
    · apply readMap_restrict _ _ _ (fun p hp => (hcell p hp).1) _ hcanon.2.1
      · intro p hp
        obtain ⟨q, hq, hor⟩ := D.bounds r hr p hp
        have hqk : q.1 ∈ ks := by rw [← hobjeq]; exact List.mem_map.mpr ⟨q, hq, rfl⟩
        have : p.1 ∈ ks.flatMap boundTitles := by
          apply List.mem_flatMap.mpr
          refine ⟨q.1, hqk, ?_⟩
          simp only [boundTitles, List.mem_cons, List.not_mem_nil, or_false]
          exact hor
        rw [← hkeys] at this
        obtain ⟨c, hc, he⟩ := List.mem_map.mp this
        exact List.mem_map.mpr ⟨c, mem_sortPairs.mpr hc, he⟩
      · apply sorted_sortPairs
        rw [hkeys]
        exact nodup_boundTitles ks (nodup_of_sorted hKsorted) hobjN
    · intro p hp
      obtain ⟨h1, h2⟩ := hcell p hp
      obtain ⟨v, hv⟩ := Option.isSome_iff_exists.mp h2
      exact ⟨_, h1, by rw [hv]; exact cellOpt_ne_nil v⟩
  -- the statistics of every objective
  generalize hNBdef : ((ks.flatMap (statTitles (psSt S rs))).zipIdx (A.length + 4 + B.length)).filter
      (fun c => !isBoundKey c.1) = NB at *
  have hNBk : NB.map (·.1) = ks.flatMap (psSt S rs) := by
    rw [← hNBdef, map_fst_filter_zipIdx _ _ (fun t => !isBoundKey t)]
    exact (filter_stat_titles (psSt S rs) ks (fun o ho => (hss o ho).noBound)).2
  have hselkeys : ∀ o ∈ ks, (selOf o NB).map (·.1) = (psSt S rs o).filterMap (scopeUse o) := by
    intro o ho
    have : (selOf o NB).map (·.1) = (NB.map (·.1)).filterMap (scopeUse o) := by
      unfold selOf
      rw [List.map_filterMap, List.filterMap_map]
      congr 1
      funext c
      simp only [Function.comp]
      cases scopeUse o c.1 <;> rfl
    rw [this, hNBk]
    exact filterMap_scope_flatMap (psSt S rs) ks (nodup_of_sorted hKsorted) hobjN (fun o ho => (hss o ho).scope) ho
  have hread : ∀ o ∈ ks, ∃ s, r.objectives.lookup o = some s ∧
      S.read o (erLookup (selOf o NB ++ [(kN, idxN)]) data) = some s := by
    intro o ho
    obtain ⟨s, hs, hcol, hmem, hzip⟩ := hzipO o ho
    refine ⟨s, hs, ?_⟩
    have hR := hss o ho
    have hkn : (selOf o NB).lookup kN = none := by
      apply lookup_eq_none_of_not_mem
      rw [hselkeys o ho]; exact hR.noN
    apply hR.back s hcol
    · -- the writer's cells under the use-keys
      intro p hp
      have ht : p.1 ∈ psSt S rs o := (List.of_mem_zip hp).1
      obtain ⟨u, hu⟩ := Option.isSome_iff_exists.mp (hR.scope p.1 ht)
      refine ⟨u, hu, ?_⟩
      have hmemNB : p.1 ∈ NB.map (·.1) := by rw [hNBk]; exact List.mem_flatMap.mpr ⟨o, ho, ht⟩
      obtain ⟨c, hc, hce⟩ := List.mem_map.mp hmemNB
      have hsel : (u, c.2) ∈ selOf o NB := List.mem_filterMap.mpr ⟨c, hc, by rw [hce, hu]; rfl⟩
      have hlook : (selOf o NB ++ [(kN, idxN)]).lookup u = some c.2 := by
        rw [List.lookup_append,
          lookup_of_mem (m := selOf o NB) (by rw [hselkeys o ho]; exact hR.useNodup) hsel]
        rfl
      simp only [erLookup, hlook, Option.bind_some]
      have hcOz : c ∈ (ks.flatMap (statTitles (psSt S rs))).zipIdx (A.length + 4 + B.length) := by
        rw [← hNBdef] at hc; exact (List.mem_filter.mp hc).1
      obtain ⟨d, o', hd, ho', hz⟩ := hOcell c hcOz
      rw [hd]
      -- the column belongs to objective `o`
      obtain ⟨s', hs', _, _, hzip'⟩ := hzipO o' ho'
      rw [hzip', hce] at hz
      have hoo : o' = o := by
        simp only [List.mem_append, List.mem_cons, Prod.mk.injEq, List.not_mem_nil, or_false] at hz
        rcases hz with (⟨h1, _⟩ | hz) | ⟨h1, _⟩
        · have := hR.noBound p.1 ht; rw [h1, isBoundKey_lower] at this; cases this
        · exact scope_disjoint (hobjN o' ho') (hobjN o ho) ((hss o' ho').scope p.1 (List.of_mem_zip hz).1)
            (hR.scope p.1 ht)
        · have := hR.noBound p.1 ht; rw [h1, isBoundKey_upper] at this; cases this
      subst hoo
      rw [hs] at hs'
      cases hs'
      simp only [List.mem_append, List.mem_cons, Prod.mk.injEq, List.not_mem_nil, or_false] at hz
      rcases hz with (⟨h1, _⟩ | hz) | ⟨h1, _⟩
      · have := hR.noBound p.1 ht; rw [h1, isBoundKey_lower] at this; cases this
      · congr 1
        exact mem_zip_unique (hStn o' (hKdef ▸ ho)) hz (by cases p; exact hp)
      · have := hR.noBound p.1 ht; rw [h1, isBoundKey_upper] at this; cases this
    · -- the `n` of the end statistics
      have hlook : (selOf o NB ++ [(kN, idxN)]).lookup kN = some idxN := by
        rw [List.lookup_append, hkn]; simp
      simp only [erLookup, hlook, Option.bind_some]
      have hmemA := mem_of_lookup hidx
      obtain ⟨hi, hk⟩ := List.mem_zipIdx' hmemA
      have hiR : idxN < RA.length := by omega
      rw [hdata, List.append_assoc, List.append_assoc, List.getElem?_append_left hiR]
      have := D.nCell r hr (o, s) hmem
      rw [hAdef, hRAdef] at this
      rw [← this, getElem?_eq_cellAt hAn hi hlenA, ← hk]
      rfl
    · intro u hune hnot
      simp only [erLookup]
      rw [List.lookup_append, lookup_eq_none_of_not_mem (by rw [hselkeys o ho]; exact hnot)]
      have : (u == kN) = false := by simpa using hune
      simp [List.lookup_cons, this]
  have hobjs : (ks.map (fun o => (o, selOf o NB ++ [(kN, idxN)]))).mapM
      (fun o => (S.read o.1 (erLookup o.2 data)).map (fun s => (o.1, s))) = some r.objectives := by
    rw [List.mapM_map]
    have hall : ∀ o ∈ ks, ((fun o : Str × List (Str × Nat) => (S.read o.1 (erLookup o.2 data)).map (fun s => (o.1, s))) ∘
        (fun o => (o, selOf o NB ++ [(kN, idxN)]))) o = (r.objectives.lookup o).map (fun v => (o, v)) := by
      intro o ho
      obtain ⟨s, hs, hrd⟩ := hread o ho
      simp only [Function.comp, hrd, hs, Option.map_some]
    rw [mapM_all_some ks _ (fun o ho => by rw [hall o ho]; obtain ⟨s, hs, _⟩ := hread o ho; simp [hs])]
    congr 1
    have : ks.filterMap ((fun o : Str × List (Str × Nat) => (S.read o.1 (erLookup o.2 data)).map (fun s => (o.1, s))) ∘
        (fun o => (o, selOf o NB ++ [(kN, idxN)]))) = ks.filterMap (fun o => (r.objectives.lookup o).map (fun v => (o, v))) := by
      have : ∀ l : List Str, (∀ o ∈ l, o ∈ ks) → l.filterMap ((fun o : Str × List (Str × Nat) =>
          (S.read o.1 (erLookup o.2 data)).map (fun s => (o.1, s))) ∘ (fun o => (o, selOf o NB ++ [(kN, idxN)]))) =
          l.filterMap (fun o => (r.objectives.lookup o).map (fun v => (o, v))) := by
        intro l hl
        induction l with
        | nil => rfl
        | cons a t iht =>
          simp only [List.filterMap_cons, hall a (hl a (by simp))]
          rw [iht (fun o ho => hl o (by simp [ho]))]
      exact this ks (fun o ho => ho)
    rw [this]
    exact restrict_eq ks r.objectives hKsorted hcanon.1 (fun p hp => by
      rw [← hobjeq]; exact List.mem_map.mpr ⟨p, hp, rfl⟩)
  unfold psParseRow expReaderS
  simp only [hAdef, hBdef, hKdef, hNBdef, her, hiN, hiD, hiW, hiH, hbins, hbounds, hobjs]
  unfold mkPSRec
  have hok := D.ok r hr
  cases r
  simp only at hok ⊢
  rw [if_pos hok]

end statrow2
end Csv

namespace Csv
open Text

section statfinal
variable {ES SS : Type} (C : Codec ES) (S : SsCodec SS) (V : EsView ES SS) (rs : List (PSRec ES SS))

theorem nodup_of_flatMap {α : Type} (ks : List α) (T : α → List Str) (h : (ks.flatMap T).Nodup) :
    ∀ a ∈ ks, (T a).Nodup := by
  induction ks with
  | nil => intro a ha; cases ha
  | cons b ks ih =>
    simp only [List.flatMap_cons] at h
    have h' := List.nodup_append.mp h
    intro a ha
    rcases List.mem_cons.mp ha with rfl | ha
    · exact h'.1
    · exact ih h'.2.1 a ha

theorem ps_objectives_ne_nil {r : PSRec ES SS} (h : r.Ok V) : r.objectives ≠ [] := by
  intro he
  unfold PSRec.Ok PSRec.okB at h
  rw [he] at h
  simp at h

/-- reading back what the statistics writer wrote -/
theorem psRead_psWrite (D : PSDomain C S V rs) (t : Table) (hw : psWrite C S rs = some t) :
    psRead C S V t = some rs := by
  have hhdr := psHeader_eq C S V rs D
  have hrows : rs.mapM (psRow C S rs) = some (rs.map (fun r =>
      C.row (rs.map (·.es)) r.es ++ [showInt r.binH, showInt r.binW, showInt r.nItems, showInt r.nDiff] ++
      (psBbKeys rs).map (fun k => cellOpt (r.binBounds.lookup k)) ++ (psObjKeys rs).flatMap (psCells S rs r))) := by
    have : ∀ l : List (PSRec ES SS), (∀ r ∈ l, r ∈ rs) → l.mapM (psRow C S rs) = some (l.map (fun r =>
        C.row (rs.map (·.es)) r.es ++ [showInt r.binH, showInt r.binW, showInt r.nItems, showInt r.nDiff] ++
        (psBbKeys rs).map (fun k => cellOpt (r.binBounds.lookup k)) ++ (psObjKeys rs).flatMap (psCells S rs r))) := by
      intro l hl
      exact mapM_some_map l _ _ (fun r hr => psRow_eq C S V rs D (hl r hr))
    exact this rs (fun r hr => hr)
  unfold psWrite at hw
  rw [hhdr, hrows] at hw
  simp only at hw
  split at hw
  · rename_i hcond
    cases hw
    simp only [Bool.and_eq_true] at hcond
    obtain ⟨cols, hc⟩ := Option.isSome_iff_exists.mp hcond.1
    have hnodup : (C.titles (rs.map (·.es)) ++ fixedTitles ++ psBbKeys rs ++
        (psObjKeys rs).flatMap (statTitles (psSt S rs))).Nodup ∧
        cols = (C.titles (rs.map (·.es)) ++ fixedTitles ++ psBbKeys rs ++
        (psObjKeys rs).flatMap (statTitles (psSt S rs))).zipIdx := by
      unfold colsOf at hc
      split at hc
      · cases hc
      · rename_i hcnd
        simp only [Bool.or_eq_true, Bool.not_eq_true', decide_eq_false_iff_not, not_or] at hcnd
        cases hc
        exact ⟨Classical.not_not.mp hcnd.2, rfl⟩
    -- a record, one of its objectives, and the `n` column
    have hrsne : rs ≠ [] := by
      intro he
      have := D.bbSome
      rw [he] at this
      exact this rfl
    obtain ⟨r0, hr0⟩ := List.exists_mem_of_ne_nil rs hrsne
    have hobj0 := ps_objectives_ne_nil V (D.ok r0 hr0)
    obtain ⟨p0, hp0⟩ := List.exists_mem_of_ne_nil _ hobj0
    have hone : psObjKeys rs ≠ [] := by
      intro he
      have : p0.1 ∈ psObjKeys rs := by
        rw [← D.commonObj r0 hr0]; exact List.mem_map.mpr ⟨p0, hp0, rfl⟩
      rw [he] at this; cases this
    have hNmem : kN ∈ C.titles (rs.map (·.es)) := by
      have := mem_of_lookup (D.nCell r0 hr0 p0 hp0)
      exact (List.of_mem_zip this).1
    obtain ⟨idxN, hidx⟩ : ∃ i, (C.titles (rs.map (·.es))).zipIdx.lookup kN = some i := by
      cases hq : (C.titles (rs.map (·.es))).zipIdx.lookup kN with
      | some i => exact ⟨i, rfl⟩
      | none =>
        rw [List.lookup_eq_none_iff] at hq
        obtain ⟨j, hj, he⟩ := List.getElem_of_mem hNmem
        have := hq (kN, j) (List.mem_zipIdx_iff_getElem?.mpr (by simp [hj, he]))
        simp at this
    have hss := D.ss
    have hsetup := psSetup_header C.keys (C.titles (rs.map (·.es))) (psBbKeys rs) (psObjKeys rs) (psSt S rs) idxN
      hnodup.1 D.codec.sub D.keysDisj D.bbKey D.bbSome (sorted_sortedSet _) (sorted_sortedSet _) D.objName hone
      (fun o ho => (hss o ho).scope) (fun o ho => (hss o ho).noBound) (fun o ho => (hss o ho).ne)
      (fun o ho => (hss o ho).noN) hidx
    have hStn : ∀ o ∈ psObjKeys rs, (psSt S rs o).Nodup := by
      intro o ho
      have h1 := (List.nodup_append.mp hnodup.1).2.1
      have h2 := nodup_of_flatMap (psObjKeys rs) (statTitles (psSt S rs)) h1 o ho
      unfold statTitles at h2
      exact (List.nodup_append.mp (List.nodup_append.mp h2).1).2.1
    unfold psRead
    simp only [hc, hnodup.2, hsetup]
    rw [List.map_map]
    apply mapM_map_some
    intro r hr
    have hlen : (C.row (rs.map (·.es)) r.es ++ [showInt r.binH, showInt r.binW, showInt r.nItems, showInt r.nDiff] ++
        (psBbKeys rs).map (fun k => cellOpt (r.binBounds.lookup k)) ++ (psObjKeys rs).flatMap (psCells S rs r)).length =
        (C.titles (rs.map (·.es)) ++ fixedTitles ++ psBbKeys rs ++
        (psObjKeys rs).flatMap (statTitles (psSt S rs))).length := by
      have h1 := D.codec.len r.es (List.mem_map.mpr ⟨r, hr, rfl⟩)
      have h2 := length_flatMap_eq_of_mem (psObjKeys rs) _ _ (fun o ho => length_psCells C S V rs D hr ho)
      simp only [List.length_append, h1, List.length_map, h2, fixedTitles, List.length_cons, List.length_nil]
    simp only [Function.comp]
    rw [padRow_trimRow _ _ hlen]
    exact psParseRow_row C S V rs D idxN hidx hStn hr _ (psRow_eq C S V rs D hr)
  · cases hw

end statfinal
end Csv
