import Model.InstGen
import Proofs.ListLemmas
import Mathlib.Tactic.Ring
import Mathlib.Tactic.Linarith
import Mathlib.Tactic.SplitIfs
/-! Helper lemmas of C17, part 1: the two phases of `InstanceDecoder.decode` keep a guillotine
layout (`Layout`), the item count and the area bounds; the search loops terminate. -/
namespace InstGen
open Pack

/-! ### `pmod` -/

theorem pmod_range (t n : Int) (hn : 0 < n) : 0 ≤ pmod t n ∧ pmod t n < n := by
  unfold pmod
  exact ⟨Int.emod_nonneg _ (by omega), Int.emod_lt_of_pos _ hn⟩

theorem pmod_of_range (s n : Int) (h0 : 0 ≤ s) (hs : s < n) : pmod s n = s := by
  unfold pmod
  rw [Int.emod_eq_of_lt h0 hs, Int.add_emod_right, Int.emod_eq_of_lt h0 hs]

theorem pmod_succ (s n : Int) (h0 : 0 ≤ s) (hs : s < n) :
    pmod (s + 1) n = if s + 1 = n then 0 else s + 1 := by
  split
  · rename_i h
    unfold pmod
    rw [h]; simp
  · exact pmod_of_range _ _ (by omega) (by omega)

theorem pmod_pred (s n : Int) (h0 : 0 ≤ s) (hs : s < n) :
    pmod (s + -1) n = if s = 0 then n - 1 else s - 1 := by
  split
  · rename_i h
    subst h
    unfold pmod
    have h1 : (0 + -1 : Int) % n = n - 1 := by
      have : (0 + -1 : Int) = (n - 1) + (-1) * n := by ring
      rw [this, Int.add_mul_emod_self_right, Int.emod_eq_of_lt (by omega) (by omega)]
    rw [h1]
    have : n - 1 + n = (n - 1) + 1 * n := by ring
    rw [this, Int.add_mul_emod_self_right, Int.emod_eq_of_lt (by omega) (by omega)]
  · have := pmod_of_range (s - 1) n (by omega) (by omega)
    simpa [Int.sub_eq_add_neg] using this

/-! ### the walk of a search loop: position after `j` moves -/

/-- number of moves since the search was last at `orig` (one lap = `n` moves) -/
def lapOf (n j : Int) : Int := if j < n then j else if j < 2 * n then j - n else j - 2 * n

theorem lapOf_spec (n j : Int) (hj : 0 ≤ j ∧ j ≤ 2 * n) :
    (j < n ∧ lapOf n j = j) ∨ (n ≤ j ∧ j < 2 * n ∧ lapOf n j = j - n) ∨ (j = 2 * n ∧ lapOf n j = 0) := by
  unfold lapOf
  split_ifs <;> omega

/-- `sel_i` after `j` moves from `orig` in direction `dir` -/
def selOf (n dir orig j : Int) : Int :=
  if dir = 1 then (if orig + lapOf n j < n then orig + lapOf n j else orig + lapOf n j - n)
  else (if 0 ≤ orig - lapOf n j then orig - lapOf n j else orig - lapOf n j + n)

theorem selOf_range (n dir orig j : Int) (ho : 0 ≤ orig ∧ orig < n) (hj : 0 ≤ j ∧ j ≤ 2 * n) :
    0 ≤ selOf n dir orig j ∧ selOf n dir orig j < n := by
  have h := lapOf_spec n j hj
  unfold selOf
  generalize lapOf n j = t at *
  split_ifs <;> omega

theorem selOf_zero (n dir orig : Int) (ho : 0 ≤ orig ∧ orig < n) : selOf n dir orig 0 = orig := by
  have h := lapOf_spec n 0 (by omega)
  unfold selOf
  generalize lapOf n 0 = t at *
  split_ifs <;> omega

theorem selOf_step (n dir orig j : Int) (hd : dir = 1 ∨ dir = -1) (ho : 0 ≤ orig ∧ orig < n)
    (hj : 0 ≤ j ∧ j + 1 ≤ 2 * n) :
    pmod (selOf n dir orig j + dir) n = selOf n dir orig (j + 1) := by
  have hr := selOf_range n dir orig j ho ⟨hj.1, by omega⟩
  have h1 := lapOf_spec n j ⟨hj.1, by omega⟩
  have h2 := lapOf_spec n (j + 1) ⟨by omega, hj.2⟩
  rcases hd with hd | hd
  · subst hd
    rw [pmod_succ _ _ hr.1 hr.2]
    clear hr
    simp only [selOf, if_true]
    generalize lapOf n j = t at *
    generalize lapOf n (j + 1) = t' at *
    split_ifs <;> omega
  · subst hd
    rw [pmod_pred _ _ hr.1 hr.2]
    clear hr
    simp only [selOf, show ¬ ((-1 : Int) = 1) by decide, if_false]
    generalize lapOf n j = t at *
    generalize lapOf n (j + 1) = t' at *
    split_ifs <;> omega

/-- the walk is back at `orig` exactly after one or two full laps -/
theorem selOf_eq_orig (n dir orig j : Int) (ho : 0 ≤ orig ∧ orig < n)
    (hj : 1 ≤ j ∧ j ≤ 2 * n) : selOf n dir orig j = orig ↔ (j = n ∨ j = 2 * n) := by
  have h1 := lapOf_spec n j ⟨by omega, hj.2⟩
  unfold selOf
  generalize lapOf n j = t at *
  split_ifs <;> omega

/-- every index is visited in each lap -/
theorem selOf_cover (n dir orig i : Int) (hd : dir = 1 ∨ dir = -1) (ho : 0 ≤ orig ∧ orig < n)
    (hi : 0 ≤ i ∧ i < n) : ∃ t, 0 ≤ t ∧ t < n ∧ selOf n dir orig t = i ∧ selOf n dir orig (t + n) = i := by
  rcases hd with hd | hd
  · subst hd
    have key : ∀ t, 0 ≤ t → t < n → (orig + t = i ∨ orig + t - n = i) →
        selOf n 1 orig t = i ∧ selOf n 1 orig (t + n) = i := by
      intro t h0 h1 h
      have h1 := lapOf_spec n t ⟨by omega, by omega⟩
      have h2 := lapOf_spec n (t + n) ⟨by omega, by omega⟩
      simp only [selOf, if_true]
      generalize lapOf n t = a at *
      generalize lapOf n (t + n) = b at *
      split_ifs <;> omega
    by_cases hc : orig ≤ i
    · exact ⟨i - orig, by omega, by omega, key _ (by omega) (by omega) (by omega)⟩
    · exact ⟨i - orig + n, by omega, by omega, key _ (by omega) (by omega) (by omega)⟩
  · subst hd
    have key : ∀ t, 0 ≤ t → t < n → (orig - t = i ∨ orig - t + n = i) →
        selOf n (-1) orig t = i ∧ selOf n (-1) orig (t + n) = i := by
      intro t h0 h1 h
      have h1 := lapOf_spec n t ⟨by omega, by omega⟩
      have h2 := lapOf_spec n (t + n) ⟨by omega, by omega⟩
      simp only [selOf, show ¬ ((-1 : Int) = 1) by decide, if_false]
      generalize lapOf n t = a at *
      generalize lapOf n (t + n) = b at *
      split_ifs <;> omega
    by_cases hc : i ≤ orig
    · exact ⟨orig - i, by omega, by omega, key _ (by omega) (by omega) (by omega)⟩
    · exact ⟨orig - i + n, by omega, by omega, key _ (by omega) (by omega) (by omega)⟩

/-! ### phase 1: one cut -/

/-- `r` arises from `items` by one guillotine cut: item `i` keeps `pos` of its size in dimension
`d`, the remainder is appended -/
def IsCut (items r : List PItem) : Prop :=
  ∃ (i : Nat) (a : PItem) (d : Bool) (pos : Int), items[i]? = some a ∧ 0 < pos ∧ pos < a.size d ∧
    r = items.set i (a.setSize d pos) ++ [a.second d pos (a.size d - pos)]

theorem search1_spec {X} (num : Num X) (cutter : X) (n dir orig : Int) :
    ∀ (fuel : Nat) (items : List PItem) (sel : Int) (d : Bool) (r : List PItem),
      search1 num cutter n dir orig fuel items sel d = some r → IsCut items r := by
  intro fuel
  induction fuel with
  | zero => intro items sel d r h; simp [search1] at h
  | succ f ih =>
    intro items sel d r h
    unfold search1 at h
    split at h
    · simp at h
    · split at h
      · simp at h
      · rename_i cur hcur
        simp only [] at h
        split at h
        · rename_i hc
          injection h with h
          exact ⟨sel.toNat, cur, d, _, hcur, hc.2.1, hc.2.2, h.symm⟩
        · exact ih _ _ _ _ h

/-- the item at index `s` has size ≥ 2 in dimension `d` -/
def Cuttable (items : List PItem) (s : Int) (d : Bool) : Prop :=
  ∃ a, items[s.toNat]? = some a ∧ 2 ≤ a.size d

theorem search1_none {X} (num : Num X) (cutter : X) (n dir orig : Int) (d0 : Bool) (items : List PItem)
    (hn : (items.length : Int) = n) (hd : dir = 1 ∨ dir = -1) (ho : 0 ≤ orig ∧ orig < n) :
    ∀ (fuel : Nat) (j : Int), 0 ≤ j → j + fuel = 2 * n →
      search1 num cutter n dir orig fuel items (selOf n dir orig j) (if j < n then d0 else !d0) = none →
      ∀ j', j ≤ j' → j' < 2 * n → ¬ Cuttable items (selOf n dir orig j') (if j' < n then d0 else !d0) := by
  intro fuel
  induction fuel with
  | zero => intro j _ hj _ j' h1 h2; omega
  | succ f ih =>
    intro j hj0 hjf h j' hj' hj'2
    have hr := selOf_range n dir orig j ho ⟨hj0, by omega⟩
    have hlt : (selOf n dir orig j).toNat < items.length := by omega
    obtain ⟨dj, hdj⟩ : ∃ dj, dj = (if j < n then d0 else !d0) := ⟨_, rfl⟩
    rw [← hdj] at h
    unfold search1 at h
    rw [if_neg (by omega), List.getElem?_eq_getElem hlt] at h
    simp only [] at h
    split at h
    · simp at h
    · rename_i hc
      -- the item at step `j` is not cuttable
      have hnot : ¬ Cuttable items (selOf n dir orig j) (if j < n then d0 else !d0) := by
        rw [← hdj]
        intro ⟨a, ha, h2⟩
        rw [List.getElem?_eq_getElem hlt] at ha
        injection ha with ha
        apply hc
        rw [ha]
        have := pmod_range (num.mulTrunc (a.size dj - 1) cutter) (a.size dj - 1) (by omega)
        omega
      by_cases hjj : j' = j
      · rw [hjj]; exact hnot
      · by_cases hlast : j + 1 = 2 * n
        · omega
        · rw [selOf_step n dir orig j hd ho ⟨hj0, by omega⟩] at h
          have hflip : (if selOf n dir orig (j + 1) = orig then !dj
              else dj) = (if j + 1 < n then d0 else !d0) := by
            rw [hdj]
            have := selOf_eq_orig n dir orig (j + 1) ho ⟨by omega, by omega⟩
            by_cases h1 : j + 1 = n
            · rw [if_pos (this.mpr (Or.inl h1)), if_pos (by omega), if_neg (by omega)]
            · rw [if_neg (by intro hh; have := this.mp hh; omega)]
              by_cases h2 : j < n
              · rw [if_pos h2, if_pos (by omega)]
              · rw [if_neg h2, if_neg (by omega)]
          rw [hflip] at h
          exact ih (j + 1) (by omega) (by omega) h j' (by omega) hj'2

theorem search1_some {X} (num : Num X) (cutter : X) (n dir orig : Int) (d0 : Bool) (items : List PItem)
    (hn : (items.length : Int) = n) (hd : dir = 1 ∨ dir = -1) (ho : 0 ≤ orig ∧ orig < n)
    (hex : ∃ (i : Int) (d : Bool), 0 ≤ i ∧ i < n ∧ Cuttable items i d) :
    ∃ r, search1 num cutter n dir orig (2 * n.toNat) items orig d0 = some r := by
  cases hs : search1 num cutter n dir orig (2 * n.toNat) items orig d0 with
  | some r => exact ⟨r, rfl⟩
  | none =>
    exfalso
    obtain ⟨i, d, hi0, hi1, hcut⟩ := hex
    have h0 := selOf_zero n dir orig ho
    have hnone := search1_none num cutter n dir orig d0 items hn hd ho (2 * n.toNat) 0 (by omega)
      (by omega) (by rw [h0, if_pos (by omega)]; exact hs)
    obtain ⟨t, ht0, ht1, hs1, hs2⟩ := selOf_cover n dir orig i hd ho ⟨hi0, hi1⟩
    by_cases hdd : d = d0
    · have := hnone t ht0 (by omega)
      rw [hs1, if_pos ht1, ← hdd] at this
      exact this hcut
    · have := hnone (t + n) (by omega) (by omega)
      rw [hs2, if_neg (by omega)] at this
      have hd' : (!d0) = d := by cases d <;> cases d0 <;> simp_all
      rw [hd'] at this
      exact this hcut

/-! ### layouts are invariant under permutation; replacing one element -/

theorem PItem.Apart.symm {a c : PItem} (h : a.Apart c) : c.Apart a := by
  unfold PItem.Apart at *
  intro hb
  have := h hb.symm
  omega

theorem Layout.perm {W H k : Int} {l₁ l₂ : List PItem} (hp : l₁.Perm l₂) (h : Layout W H k l₁) :
    Layout W H k l₂ := by
  refine ⟨fun p hp' => h.inside p (hp.mem_iff.mpr hp'), ?_, ?_⟩
  · exact (List.Perm.pairwise_iff (fun {x y} hxy => PItem.Apart.symm hxy) hp).mp h.apart
  · intro j hj
    obtain ⟨p, hp1, hp2⟩ := h.bins j hj
    exact ⟨p, hp.mem_iff.mp hp1, hp2⟩

theorem areaSum_perm {l₁ l₂ : List PItem} (hp : l₁.Perm l₂) : areaSum l₁ = areaSum l₂ :=
  ListLemmas.sum_map_perm PItem.area hp

theorem perm_getElem_cons_eraseIdx {α} (l : List α) (i : Nat) (a : α) (h : l[i]? = some a) :
    l.Perm (a :: l.eraseIdx i) := by
  have hi : i < l.length := by
    by_contra hc
    rw [List.getElem?_eq_none (by omega)] at h
    simp at h
  rw [List.getElem?_eq_getElem hi] at h
  injection h with h
  rw [List.eraseIdx_eq_take_drop_succ]
  have hl : l.take i ++ a :: l.drop (i + 1) = l := by
    rw [← h]
    simp
  have := @List.perm_middle _ a (l.take i) (l.drop (i + 1))
  rwa [hl] at this

theorem perm_set_cons_eraseIdx {α} (l : List α) (i : Nat) (b : α) (hi : i < l.length) :
    (l.set i b).Perm (b :: l.eraseIdx i) := by
  rw [List.set_eq_take_append_cons_drop, if_pos hi, List.eraseIdx_eq_take_drop_succ]
  exact List.perm_middle

/-- the list after a phase-1 cut, up to order -/
theorem IsCut.perm {items r : List PItem} (h : IsCut items r) :
    ∃ (a : PItem) (rest : List PItem) (d : Bool) (pos : Int), items.Perm (a :: rest) ∧ 0 < pos ∧ pos < a.size d ∧
      r.Perm (a.setSize d pos :: a.second d pos (a.size d - pos) :: rest) := by
  obtain ⟨i, a, d, pos, hi, h0, h1, hr⟩ := h
  have hlt : i < items.length := by
    by_contra hc
    rw [List.getElem?_eq_none (by omega)] at hi
    simp at hi
  refine ⟨a, items.eraseIdx i, d, pos, perm_getElem_cons_eraseIdx items i a hi, h0, h1, ?_⟩
  rw [hr]
  have h2 := perm_set_cons_eraseIdx items i (a.setSize d pos) hlt
  have h3 : (items.set i (a.setSize d pos) ++ [a.second d pos (a.size d - pos)]).Perm
      ((a.setSize d pos :: items.eraseIdx i) ++ [a.second d pos (a.size d - pos)]) :=
    List.Perm.append_right _ h2
  refine h3.trans ?_
  simp only [List.cons_append]
  refine List.Perm.cons _ ?_
  exact List.perm_append_comm

theorem Layout.cut {W H k : Int} {a : PItem} {rest : List PItem} (d : Bool) (pos : Int)
    (h : Layout W H k (a :: rest)) (h0 : 0 < pos) (h1 : pos < a.size d) :
    Layout W H k (a.setSize d pos :: a.second d pos (a.size d - pos) :: rest) := by
  have ha := h.inside a (by simp)
  have hap := List.pairwise_cons.mp h.apart
  refine ⟨?_, ?_, ?_⟩
  · intro p hp
    simp only [List.mem_cons] at hp
    rcases hp with hp | hp | hp
    · subst hp
      unfold PItem.Inside PItem.setSize PItem.size at *
      cases d <;> simp_all <;> omega
    · subst hp
      unfold PItem.Inside PItem.second PItem.size at *
      cases d <;> simp_all <;> omega
    · exact h.inside p (by simp [hp])
  · refine List.pairwise_cons.mpr ⟨?_, List.pairwise_cons.mpr ⟨?_, hap.2⟩⟩
    · intro c hc
      simp only [List.mem_cons] at hc
      rcases hc with hc | hc
      · subst hc
        unfold PItem.Apart PItem.setSize PItem.second PItem.size at *
        cases d <;> simp_all <;> omega
      · have hac := hap.1 c hc
        intro hb
        have := hac (by cases d <;> simpa [PItem.setSize] using hb)
        unfold PItem.setSize PItem.size PItem.Inside at *
        cases d <;> simp_all <;> omega
    · intro c hc
      have hac := hap.1 c hc
      intro hb
      have := hac (by cases d <;> simpa [PItem.second] using hb)
      unfold PItem.second PItem.size PItem.Inside at *
      cases d <;> simp_all <;> omega
  · intro j hj
    obtain ⟨p, hp1, hp2⟩ := h.bins j hj
    simp only [List.mem_cons] at hp1
    rcases hp1 with hp1 | hp1
    · subst hp1
      refine ⟨p.setSize d pos, by simp, ?_⟩
      unfold PItem.setSize
      cases d <;> simpa using hp2
    · exact ⟨p, by simp [hp1], hp2⟩

theorem Layout.shrink {W H k : Int} {a : PItem} {rest : List PItem} (d : Bool) (pos : Int)
    (h : Layout W H k (a :: rest)) (h0 : 0 < pos) (h1 : pos < a.size d) :
    Layout W H k (a.setSize d (a.size d - pos) :: rest) := by
  have ha := h.inside a (by simp)
  have hap := List.pairwise_cons.mp h.apart
  refine ⟨?_, ?_, ?_⟩
  · intro p hp
    simp only [List.mem_cons] at hp
    rcases hp with hp | hp
    · subst hp
      unfold PItem.Inside PItem.setSize PItem.size at *
      cases d <;> simp_all <;> omega
    · exact h.inside p (by simp [hp])
  · refine List.pairwise_cons.mpr ⟨?_, hap.2⟩
    intro c hc
    have hac := hap.1 c hc
    intro hb
    have := hac (by cases d <;> simpa [PItem.setSize] using hb)
    unfold PItem.setSize PItem.size PItem.Inside at *
    cases d <;> simp_all <;> omega
  · intro j hj
    obtain ⟨p, hp1, hp2⟩ := h.bins j hj
    simp only [List.mem_cons] at hp1
    rcases hp1 with hp1 | hp1
    · subst hp1
      refine ⟨p.setSize d (p.size d - pos), by simp, ?_⟩
      unfold PItem.setSize
      cases d <;> simpa using hp2
    · exact ⟨p, by simp [hp1], hp2⟩

theorem area_cut (a : PItem) (d : Bool) (pos : Int) :
    (a.setSize d pos).area + (a.second d pos (a.size d - pos)).area = a.area := by
  unfold PItem.area PItem.setSize PItem.second PItem.size
  cases d <;> simp <;> ring

theorem area_shrink (a : PItem) (d : Bool) (pos : Int) :
    (a.setSize d (a.size d - pos)).area = a.area - pos * a.size (!d) := by
  unfold PItem.area PItem.setSize PItem.size
  cases d <;> simp <;> ring

/-- a phase-1 cut keeps the layout and the total area and adds one item -/
theorem IsCut.keeps {W H k : Int} {items r : List PItem} (hc : IsCut items r) (h : Layout W H k items) :
    Layout W H k r ∧ areaSum r = areaSum items ∧ r.length = items.length + 1 := by
  obtain ⟨a, rest, d, pos, hp, h0, h1, hr⟩ := hc.perm
  refine ⟨Layout.perm hr.symm (Layout.cut d pos (Layout.perm hp h) h0 h1), ?_, ?_⟩
  · rw [areaSum_perm hr, areaSum_perm hp]
    unfold areaSum
    simp only [List.map_cons, List.sum_cons]
    have := area_cut a d pos
    omega
  · rw [hr.length_eq, hp.length_eq]
    simp

/-! ### phase 1 -/

theorem exists_big_item (items : List PItem) (h : (items.length : Int) < areaSum items) :
    ∃ p ∈ items, 2 ≤ p.area := by
  induction items with
  | nil => simp [areaSum] at h
  | cons a t ih =>
    by_cases ha : 2 ≤ a.area
    · exact ⟨a, by simp, ha⟩
    · have : (t.length : Int) < areaSum t := by
        unfold areaSum at *
        simp only [List.map_cons, List.sum_cons, List.length_cons] at h
        push_cast at h
        omega
      obtain ⟨p, hp, h2⟩ := ih this
      exact ⟨p, by simp [hp], h2⟩

/-- "it must always be possible to split at least one item in at least one direction":
more area than items means some item has a side of length ≥ 2 -/
theorem exists_cuttable (items : List PItem) (hpos : ∀ p ∈ items, 1 ≤ p.w ∧ 1 ≤ p.h)
    (h : (items.length : Int) < areaSum items) :
    ∃ (i : Int) (d : Bool), 0 ≤ i ∧ i < items.length ∧ Cuttable items i d := by
  obtain ⟨p, hp, h2⟩ := exists_big_item items h
  obtain ⟨i, hi⟩ := List.mem_iff_getElem?.mp hp
  have hlt : i < items.length := by
    by_contra hc
    rw [List.getElem?_eq_none (by omega)] at hi
    simp at hi
  have hwh := hpos p hp
  have : 2 ≤ p.w ∨ 2 ≤ p.h := by
    by_contra hc
    have h1 : p.w = 1 := by omega
    have h3 : p.h = 1 := by omega
    unfold PItem.area at h2
    rw [h1, h3] at h2
    omega
  rcases this with hw | hh
  · exact ⟨i, false, by omega, by omega, p, by simpa using hi, by simpa [PItem.size] using hw⟩
  · exact ⟨i, true, by omega, by omega, p, by simpa using hi, by simpa [PItem.size] using hh⟩

/-- invariant of phase 1: `cur_n_items == len(items)`, the items tile the `min_bins` bins -/
structure P1 (sp : Space) (items : List PItem) (cur : Int) : Prop where
  len : (items.length : Int) = cur
  lay : Layout sp.W sp.H sp.minBins items
  area : areaSum items = sp.minBins * (sp.W * sp.H)

theorem phase1_ok {X} (num : Num X) (sp : Space) (hs : SpaceOk sp) :
    ∀ (steps : Nat) (cur : Int) (x : List X) (items : List PItem),
      cur + steps = sp.nItems → 2 * steps ≤ x.length → P1 sp items cur → 1 ≤ cur →
      ∃ items', phase1 num steps cur x items = some (items', x.drop (2 * steps)) ∧
        P1 sp items' sp.nItems := by
  intro steps
  induction steps with
  | zero =>
    intro cur x items hc _ hP _
    refine ⟨items, by simp [phase1], ?_⟩
    have : cur = sp.nItems := by omega
    exact this ▸ hP
  | succ st ih =>
    intro cur x items hc hx hP h1
    match x, hx with
    | selector :: cutter :: xs, hx =>
      unfold phase1
      simp only []
      have hsel := pmod_range (num.mulTrunc cur selector) cur (by omega)
      have hdir : (if num.isNeg selector = true then (-1 : Int) else 1) = 1 ∨
          (if num.isNeg selector = true then (-1 : Int) else 1) = -1 := by
        split <;> simp
      have hex := exists_cuttable items (fun p hp => by
        have := hP.lay.inside p hp
        exact ⟨this.1, this.2.1⟩) (by
          rw [hP.area, hP.len]
          have := hs.nA
          omega)
      rw [hP.len] at hex
      obtain ⟨r, hr⟩ := search1_some num cutter cur _ _ (num.isNonneg cutter) items hP.len hdir hsel hex
      rw [hr]
      have hcut := search1_spec _ _ _ _ _ _ _ _ _ _ hr
      obtain ⟨hl, ha, hlen⟩ := hcut.keeps hP.lay
      have hP' : P1 sp r (cur + 1) := ⟨by rw [hlen]; push_cast; rw [hP.len], hl, by rw [ha, hP.area]⟩
      obtain ⟨items', h1', h2'⟩ := ih (cur + 1) xs r (by push_cast at hc; omega)
        (by simp at hx; omega) hP' (by omega)
      refine ⟨items', ?_, h2'⟩
      simp only []
      rw [h1']
      have : 2 * (st + 1) = 2 * st + 1 + 1 := by omega
      rw [this, List.drop_succ_cons, List.drop_succ_cons]
    | [], hx => simp at hx
    | [_], hx => simp at hx; omega

theorem areaSum_initItems (W H : Int) (k : Nat) : areaSum (initItems W H k) = k * (W * H) := by
  unfold areaSum initItems
  rw [List.map_map]
  have : ∀ l : List Nat, ((l.map ((PItem.area) ∘ fun (j : Nat) => (⟨W, H, (j : Int) + 1, 0, 0⟩ : PItem))).sum
      = (l.length : Int) * (W * H)) := by
    intro l
    induction l with
    | nil => simp
    | cons a t ih =>
      simp only [List.map_cons, List.sum_cons, List.length_cons, ih]
      simp only [Function.comp, PItem.area]
      push_cast
      ring
  rw [this, List.length_range]

theorem layout_initItems (W H : Int) (k : Nat) (hW : 1 ≤ W) (hH : 1 ≤ H) :
    Layout W H k (initItems W H k) := by
  unfold initItems
  refine ⟨?_, ?_, ?_⟩
  · intro p hp
    obtain ⟨j, hj, rfl⟩ := List.mem_map.mp hp
    have := List.mem_range.mp hj
    unfold PItem.Inside
    simp only []
    omega
  · rw [List.pairwise_map]
    refine List.Pairwise.imp ?_ List.pairwise_lt_range
    intro a b hab
    unfold PItem.Apart
    simp only []
    intro h
    omega
  · intro j hj
    refine ⟨⟨W, H, (j : Int) + 1, 0, 0⟩, List.mem_map.mpr ⟨j, List.mem_range.mpr (by omega), rfl⟩, rfl⟩

/-! ### phase 2: one slack cut -/

/-- outcome of one phase-2 step: nothing happened, or item `i` lost `pos` of its size in
dimension `d` and the area account follows, staying at or above `minArea` -/
def IsShrink (minArea : Int) (items : List PItem) (area : Int) (r : List PItem) (area' : Int) : Prop :=
  (r = items ∧ area' = area) ∨
  ∃ (i : Nat) (a : PItem) (d : Bool) (pos : Int), items[i]? = some a ∧ 0 < pos ∧ pos < a.size d ∧
    minArea ≤ area - pos * a.size (!d) ∧
    r = items.set i (a.setSize d (a.size d - pos)) ∧ area' = area - pos * a.size (!d)

theorem search2_spec {X} (num : Num X) (cutter : X) (n dir orig minArea : Int) :
    ∀ (fuel : Nat) (items : List PItem) (area sel : Int) (d : Bool) (step : Nat) (r : List PItem) (area' : Int),
      (∀ p ∈ items, 1 ≤ p.w ∧ 1 ≤ p.h) →
      search2 num cutter n dir orig minArea fuel items area sel d step = some (r, area') →
      IsShrink minArea items area r area' := by
  intro fuel
  induction fuel with
  | zero => intro items area sel d step r area' _ h; simp [search2] at h
  | succ f ih =>
    intro items area sel d step r area' hpos h
    unfold search2 at h
    split at h
    · split at h
      · simp at h
      · split at h
        · simp at h
        · rename_i cur hcur
          simp only [] at h
          split at h
          · simp at h
          · rename_i hother
            split at h
            · rename_i hc
              injection h with h
              injection h with h1 h2
              have hmem : cur ∈ items := List.mem_of_getElem? hcur
              have ho1 : 1 ≤ cur.size (!d) := by
                have := hpos cur hmem
                unfold PItem.size
                cases d <;> simp <;> omega
              obtain ⟨hm, hp0, hp1⟩ := hc
              have hpm := pmod_range (num.mulTrunc (min ((area - minArea) / cur.size (!d)) (cur.size d) - 1) cutter)
                (min ((area - minArea) / cur.size (!d)) (cur.size d) - 1) hm
              refine Or.inr ⟨sel.toNat, cur, d, _, hcur, hp0, hp1, ?_, h1.symm, h2.symm⟩
              have hle : pmod (num.mulTrunc (min ((area - minArea) / cur.size (!d)) (cur.size d) - 1) cutter)
                (min ((area - minArea) / cur.size (!d)) (cur.size d) - 1) + 1
                  ≤ min ((area - minArea) / cur.size (!d)) (cur.size d) - 1 := by omega
              clear hpm
              generalize pmod (num.mulTrunc (min ((area - minArea) / cur.size (!d)) (cur.size d) - 1) cutter)
                (min ((area - minArea) / cur.size (!d)) (cur.size d) - 1) + 1 = pos at *
              have hq : pos + 1 ≤ (area - minArea) / cur.size (!d) := by omega
              have h3 := Int.ediv_mul_le (area - minArea) (b := cur.size (!d)) (by omega)
              have h4 : (pos + 1) * cur.size (!d) ≤ (area - minArea) / cur.size (!d) * cur.size (!d) :=
                Int.mul_le_mul_of_nonneg_right hq (by omega)
              have h5 : (pos + 1) * cur.size (!d) = pos * cur.size (!d) + cur.size (!d) := by ring
              omega
            · split at h
              · exact ih _ _ _ _ _ _ _ hpos h
              · exact ih _ _ _ _ _ _ _ hpos h
    · injection h with h
      injection h with h1 h2
      exact Or.inl ⟨h1.symm, h2.symm⟩

theorem search2_some {X} (num : Num X) (cutter : X) (n dir orig minArea : Int) (d0 : Bool)
    (items : List PItem) (area : Int)
    (hn : (items.length : Int) = n) (hd : dir = 1 ∨ dir = -1) (ho : 0 ≤ orig ∧ orig < n)
    (hpos : ∀ p ∈ items, 1 ≤ p.w ∧ 1 ≤ p.h) :
    ∀ (fuel : Nat) (j : Int), 0 ≤ j → j ≤ 2 * n → 2 * n - j + 1 ≤ fuel →
      ∃ res, search2 num cutter n dir orig minArea fuel items area (selOf n dir orig j)
        (if j < n then d0 else if j < 2 * n then !d0 else d0)
        (if j < n then 0 else if j < 2 * n then 1 else 2) = some res := by
  intro fuel
  induction fuel with
  | zero => intro j h0 h1 h2; omega
  | succ f ih =>
    intro j h0 h1 h2
    obtain ⟨dj, hdj⟩ : ∃ dj, dj = (if j < n then d0 else if j < 2 * n then !d0 else d0) := ⟨_, rfl⟩
    obtain ⟨sj, hsj⟩ : ∃ sj : Nat, sj = (if j < n then 0 else if j < 2 * n then 1 else 2) := ⟨_, rfl⟩
    rw [← hdj, ← hsj]
    unfold search2
    by_cases hlast : j = 2 * n
    · have : ¬ sj < 2 := by rw [hsj, if_neg (by omega), if_neg (by omega)]; omega
      rw [if_neg this]
      exact ⟨_, rfl⟩
    · have hs2 : sj < 2 := by rw [hsj]; split_ifs <;> omega
      have hr := selOf_range n dir orig j ho ⟨h0, h1⟩
      have hlt : (selOf n dir orig j).toNat < items.length := by omega
      rw [if_pos hs2, if_neg (by omega), List.getElem?_eq_getElem hlt]
      simp only []
      have ho1 : ¬ (items[(selOf n dir orig j).toNat].size (!dj) = 0) := by
        have := hpos _ (List.getElem_mem hlt)
        unfold PItem.size
        cases dj <;> simp <;> omega
      rw [if_neg ho1]
      split
      · exact ⟨_, rfl⟩
      · rw [selOf_step n dir orig j hd ho ⟨h0, by omega⟩]
        have horig := selOf_eq_orig n dir orig (j + 1) ho ⟨by omega, by omega⟩
        have hih := ih (j + 1) (by omega) (by omega) (by omega)
        by_cases hback : j + 1 = n ∨ j + 1 = 2 * n
        · rw [if_pos (horig.mpr hback)]
          have e1 : (!dj) = (if j + 1 < n then d0 else if j + 1 < 2 * n then !d0 else d0) := by
            rw [hdj]
            rcases hback with hb | hb
            · rw [if_pos (by omega), if_neg (by omega), if_pos (by omega)]
            · rw [if_neg (by omega), if_pos (by omega), if_neg (by omega), if_neg (by omega)]
              simp
          have e2 : sj + 1 = (if j + 1 < n then 0 else if j + 1 < 2 * n then 1 else 2) := by
            rw [hsj]
            rcases hback with hb | hb
            · rw [if_pos (by omega), if_neg (by omega), if_pos (by omega)]
            · rw [if_neg (by omega), if_pos (by omega), if_neg (by omega), if_neg (by omega)]
          rw [e1, e2]
          exact hih
        · rw [if_neg (by intro hh; exact hback (horig.mp hh))]
          have e1 : dj = (if j + 1 < n then d0 else if j + 1 < 2 * n then !d0 else d0) := by
            rw [hdj]
            split_ifs <;> first | rfl | omega
          have e2 : sj = (if j + 1 < n then 0 else if j + 1 < 2 * n then 1 else 2) := by
            rw [hsj]
            split_ifs <;> first | rfl | omega
          rw [← e1, ← e2] at hih
          exact hih

/-! ### phase 2 -/

/-- invariant of phase 2: the count stays, the layout stays feasible, `current_area` is the
true total area and never drops below `min_area` -/
structure P2 (sp : Space) (n minArea : Int) (items : List PItem) (area : Int) : Prop where
  len : (items.length : Int) = n
  lay : Layout sp.W sp.H sp.minBins items
  acct : areaSum items = area
  ge : minArea ≤ area

theorem IsShrink.keeps {sp : Space} {n minArea area area' : Int} {items r : List PItem}
    (hc : IsShrink minArea items area r area') (h : P2 sp n minArea items area) :
    P2 sp n minArea r area' ∧ area' ≤ area := by
  rcases hc with ⟨h1, h2⟩ | ⟨i, a, d, pos, hi, h0, h1, hge, hr, ha⟩
  · subst h1 h2
    exact ⟨h, by omega⟩
  · have hlt : i < items.length := by
      by_contra hc
      rw [List.getElem?_eq_none (by omega)] at hi
      simp at hi
    have hp1 := perm_getElem_cons_eraseIdx items i a hi
    have hp2 := perm_set_cons_eraseIdx items i (a.setSize d (a.size d - pos)) hlt
    have hmem : a ∈ items := List.mem_of_getElem? hi
    have hother : 1 ≤ a.size (!d) := by
      have := h.lay.inside a hmem
      unfold PItem.Inside at this
      unfold PItem.size
      cases d <;> simp <;> omega
    refine ⟨⟨?_, ?_, ?_, ?_⟩, ?_⟩
    · rw [hr, List.length_set]; exact h.len
    · rw [hr]
      exact Layout.perm hp2.symm (Layout.shrink d pos (Layout.perm hp1 h.lay) h0 h1)
    · rw [hr, areaSum_perm hp2, ha, ← h.acct, areaSum_perm hp1]
      unfold areaSum
      simp only [List.map_cons, List.sum_cons]
      rw [area_shrink]
      omega
    · rw [ha]; exact hge
    · rw [ha]
      have : 0 ≤ pos * a.size (!d) := Int.mul_nonneg (by omega) (by omega)
      omega

theorem phase2_ok {X} (num : Num X) (sp : Space) (n minArea : Int) (hn : 1 ≤ n) :
    ∀ (m : Nat) (x : List X) (items : List PItem) (area : Int), x.length = 2 * m →
      P2 sp n minArea items area →
      ∃ r area', phase2 num n minArea x items area = some r ∧ P2 sp n minArea r area' ∧ area' ≤ area := by
  intro m
  induction m with
  | zero =>
    intro x items area hx hP
    have : x = [] := List.eq_nil_of_length_eq_zero (by omega)
    subst this
    exact ⟨items, area, by simp [phase2], hP, by omega⟩
  | succ m ih =>
    intro x items area hx hP
    match x, hx with
    | selector :: cutter :: xs, hx =>
      unfold phase2
      by_cases hgt : area > minArea
      · rw [if_pos hgt]
        simp only []
        have hsel := pmod_range (num.mulTrunc n selector) n (by omega)
        have hdir : (if num.isNeg selector = true then (-1 : Int) else 1) = 1 ∨
            (if num.isNeg selector = true then (-1 : Int) else 1) = -1 := by
          split <;> simp
        have hpos : ∀ p ∈ items, 1 ≤ p.w ∧ 1 ≤ p.h := fun p hp => by
          have := hP.lay.inside p hp
          exact ⟨this.1, this.2.1⟩
        have hn0 : (0 : Int) < n := by omega
        obtain ⟨res, hres⟩ := search2_some num cutter n (if num.isNeg selector = true then (-1 : Int) else 1)
          (pmod (num.mulTrunc n selector) n) minArea
          (num.isNonneg cutter) items area hP.len hdir hsel hpos (2 * n.toNat + 1) 0 (by omega) (by omega)
          (by push_cast; omega)
        rw [selOf_zero n _ _ hsel] at hres
        simp only [hn0, if_true] at hres
        rw [hres]
        obtain ⟨r, a'⟩ := res
        have hsp := search2_spec _ _ _ _ _ _ _ _ _ _ _ _ _ _ hpos hres
        obtain ⟨hP', hle⟩ := hsp.keeps hP
        obtain ⟨r2, a2, h1, h2, h3⟩ := ih xs r a' (by simp at hx; omega) hP'
        exact ⟨r2, a2, h1, h2, by omega⟩
      · rw [if_neg hgt]
        exact ⟨items, area, rfl, hP, by omega⟩
    | [], hx => simp at hx
    | [_], hx => simp at hx; omega

/-! ### both phases -/

theorem decodeItems_ok {X} (num : Num X) (sp : Space) (hs : SpaceOk sp) (x : List X) (j : Nat)
    (hx : (x.length : Int) = 2 * (sp.nItems - sp.minBins) + 2 * j) :
    ∃ items, decodeItems num sp x = some items ∧ (items.length : Int) = sp.nItems ∧
      Layout sp.W sp.H sp.minBins items ∧
      (sp.minBins - 1) * (sp.W * sp.H) < areaSum items ∧ areaSum items ≤ sp.minBins * (sp.W * sp.H) := by
  have hk := hs.k1
  have hkn := hs.kn
  have hinit : P1 sp (initItems sp.W sp.H sp.minBins.toNat) sp.minBins := by
    refine ⟨?_, ?_, ?_⟩
    · simp [initItems]; omega
    · have := layout_initItems sp.W sp.H sp.minBins.toNat hs.W1 hs.H1
      rwa [Int.toNat_of_nonneg (by omega)] at this
    · rw [areaSum_initItems, Int.toNat_of_nonneg (by omega)]
  obtain ⟨items1, h1, hP1⟩ := phase1_ok num sp hs (sp.nItems - sp.minBins).toNat sp.minBins x _
    (by omega) (by omega) hinit hk
  unfold decodeItems
  rw [h1]
  simp only []
  have hP2 : P2 sp (items1.length : Int) (sp.minBins * (sp.W * sp.H) - sp.W * sp.H + 1) items1
      (sp.minBins * (sp.W * sp.H)) := by
    refine ⟨rfl, hP1.lay, hP1.area, ?_⟩
    have : 1 ≤ sp.W * sp.H := by
      have := Int.mul_le_mul hs.W1 hs.H1 (by omega) (by have := hs.W1; omega)
      omega
    omega
  have hlen : (x.drop (2 * (sp.nItems - sp.minBins).toNat)).length = 2 * j := by
    rw [List.length_drop]; omega
  obtain ⟨r, a', h2, hP2', hle⟩ := phase2_ok num sp (items1.length : Int) _ (by rw [hP1.len]; omega) j _ _ _ hlen hP2
  refine ⟨r, h2, by rw [hP2'.len, hP1.len], hP2'.lay, ?_, ?_⟩
  · have := hP2'.ge
    rw [hP2'.acct]
    have e : (sp.minBins - 1) * (sp.W * sp.H) = sp.minBins * (sp.W * sp.H) - sp.W * sp.H := by ring
    omega
  · rw [hP2'.acct]; exact hle

/-! ### the fuel of the phase-1 search is immaterial once it suffices -/

theorem search1_fuel_succ {X} (num : Num X) (cutter : X) (n dir orig : Int) :
    ∀ (fuel : Nat) (items : List PItem) (sel : Int) (d : Bool) (r : List PItem),
      search1 num cutter n dir orig fuel items sel d = some r →
      search1 num cutter n dir orig (fuel + 1) items sel d = some r := by
  intro fuel
  induction fuel with
  | zero => intro items sel d r h; simp [search1] at h
  | succ f ih =>
    intro items sel d r h
    unfold search1 at h ⊢
    split at h
    · simp at h
    · rename_i hs
      rw [if_neg hs]
      split at h
      · simp at h
      · rename_i cur hcur
        simp only [] at h ⊢
        split at h
        · rename_i hc
          rw [if_pos hc]; exact h
        · rename_i hc
          rw [if_neg hc]; exact ih _ _ _ _ h

theorem search1_fuel_mono {X} (num : Num X) (cutter : X) (n dir orig : Int) (fuel k : Nat)
    (items : List PItem) (sel : Int) (d : Bool) (r : List PItem)
    (h : search1 num cutter n dir orig fuel items sel d = some r) :
    search1 num cutter n dir orig (fuel + k) items sel d = some r := by
  induction k with
  | zero => exact h
  | succ k ih => exact search1_fuel_succ _ _ _ _ _ _ _ _ _ _ ih

end InstGen
