import Model.InstGen
import Proofs.ListLemmas
import Mathlib.Tactic.Ring
import Mathlib.Tactic.Linarith
import Mathlib.Tactic.SplitIfs
/-! Helper lemmas of C17, part 1: the two phases of `InstanceDecoder.decode` keep a guillotine
layout (`Layout`), the item count and the area bounds; the search loops terminate. -/
namespace InstGen
open Pack

/-! ### `pmod` -/

theorem pmod_range (t n : Int) (hn : 0 < n) : 0 ≤ pmod t n ∧ pmod t n < n := by
  unfold pmod
  exact ⟨Int.emod_nonneg _ (by omega), Int.emod_lt_of_pos _ hn⟩

theorem pmod_of_range (s n : Int) (h0 : 0 ≤ s) (hs : s < n) : pmod s n = s := by
  unfold pmod
  rw [Int.emod_eq_of_lt h0 hs, Int.add_emod_right, Int.emod_eq_of_lt h0 hs]

theorem pmod_succ (s n : Int) (h0 : 0 ≤ s) (hs : s < n) :
    pmod (s + 1) n = if s + 1 = n then 0 else s + 1 := by
  split
  · rename_i h
    unfold pmod
    rw [h]; simp
  · exact pmod_of_range _ _ (by omega) (by omega)

theorem pmod_pred (s n : Int) (h0 : 0 ≤ s) (hs : s < n) :
    pmod (s + -1) n = if s = 0 then n - 1 else s - 1 := by
  split
  · rename_i h
    subst h
    unfold pmod
    have h1 : (0 + -1 : Int) % n = n - 1 := by
      have : (0 + -1 : Int) = (n - 1) + (-1) * n := by ring
      rw [this, Int.add_mul_emod_self_right, Int.emod_eq_of_lt (by omega) (by omega)]
    rw [h1]
    have : n - 1 + n = (n - 1) + 1 * n := by ring
    rw [this, Int.add_mul_emod_self_right, Int.emod_eq_of_lt (by omega) (by omega)]
  · have := pmod_of_range (s - 1) n (by omega) (by omega)
    simpa [Int.sub_eq_add_neg] using this

/-! ### the walk of a search loop: position after `j` moves -/

/-- `sel_i` after `j` moves from `orig` in direction `dir` (one lap = `n` moves) -/
def selOf (n dir orig j : Int) : Int :=
  let t := if j < n then j else if j < 2 * n then j - n else j - 2 * n
  if dir = 1 then (if orig + t < n then orig + t else orig + t - n)
  else (if 0 ≤ orig - t then orig - t else orig - t + n)

theorem selOf_range (n dir orig j : Int) (ho : 0 ≤ orig ∧ orig < n) (hj : 0 ≤ j ∧ j ≤ 2 * n) :
    0 ≤ selOf n dir orig j ∧ selOf n dir orig j < n := by
  unfold selOf
  simp only []
  split_ifs <;> omega

theorem selOf_zero (n dir orig : Int) (ho : 0 ≤ orig ∧ orig < n) : selOf n dir orig 0 = orig := by
  unfold selOf
  simp only []
  split_ifs <;> omega

theorem selOf_step (n dir orig j : Int) (hd : dir = 1 ∨ dir = -1) (ho : 0 ≤ orig ∧ orig < n)
    (hj : 0 ≤ j ∧ j + 1 ≤ 2 * n) :
    pmod (selOf n dir orig j + dir) n = selOf n dir orig (j + 1) := by
  have hr := selOf_range n dir orig j ho ⟨hj.1, by omega⟩
  rcases hd with hd | hd
  · subst hd
    rw [pmod_succ _ _ hr.1 hr.2]
    clear hr
    unfold selOf
    simp only []
    split_ifs <;> omega
  · subst hd
    rw [pmod_pred _ _ hr.1 hr.2]
    clear hr
    unfold selOf
    simp only []
    split_ifs <;> omega

/-- the walk is back at `orig` exactly after one or two full laps -/
theorem selOf_eq_orig (n dir orig j : Int) (hd : dir = 1 ∨ dir = -1) (ho : 0 ≤ orig ∧ orig < n)
    (hj : 1 ≤ j ∧ j ≤ 2 * n) : selOf n dir orig j = orig ↔ (j = n ∨ j = 2 * n) := by
  unfold selOf
  simp only []
  rcases hd with hd | hd <;> subst hd <;> split_ifs <;> omega

/-- every index is visited in each lap -/
theorem selOf_cover (n dir orig i : Int) (hd : dir = 1 ∨ dir = -1) (ho : 0 ≤ orig ∧ orig < n)
    (hi : 0 ≤ i ∧ i < n) : ∃ t, 0 ≤ t ∧ t < n ∧ selOf n dir orig t = i ∧ selOf n dir orig (t + n) = i := by
  rcases hd with hd | hd
  · subst hd
    refine ⟨if orig ≤ i then i - orig else i - orig + n, ?_⟩
    unfold selOf
    simp only []
    split_ifs <;> omega
  · subst hd
    refine ⟨if i ≤ orig then orig - i else orig - i + n, ?_⟩
    unfold selOf
    simp only []
    split_ifs <;> omega

end InstGen
