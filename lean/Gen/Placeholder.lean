/-! `Gen/` holds Lean files regenerated from /repo by `harness/translate` on every run. -/
