import Gen.TourLength
import Model.Tsp
import Proofs.LoopGen
/-!
# C05 (tie between source and model) — the generated `tour_length` equals the hand-written model

`Gen/TourLength.lean` is regenerated on every run from the current source of `moptipyapps/tsp/tour_length.py`
(`harness/translate/loop2lean.py`): a shallow embedding of the Python text in the `Option` monad.  The theorem below
says that this text computes exactly what `Tsp.tourLen?` (the model all C05 theorems are about) computes, for ALL
inputs, including the ones on which the model answers `none` (= an access outside an array).
A semantic change of the kernel changes the generated definition and this file stops checking.
-/
namespace C05Gen
open Gen.TourLength

/-- the prelude copy inside the generated file is the reference copy of `Proofs/LoopGen.lean` -/
theorem get1?_eq : @get1? = @LoopGen.get1? := rfl
theorem get2?_eq : @get2? = @LoopGen.get2? := rfl

/-- **generated code = model**, for every matrix (any shape, ragged included) and every tour.  The hand model
speaks about cities as natural numbers, the generated code about Python ints: the tour handed to the generated
code is the model's tour with every city read as an `Int` (`x.map Int.ofNat`).  (The generated code is also
defined on negative entries — numba wraps them — which the model's vocabulary cannot express.)
No well-formedness hypothesis: empty tour (`x[-1]` fails), cities outside the matrix, ragged matrices are all
covered, both sides answer `none` on exactly the same inputs. -/
theorem tour_length_eq_model (d : Tsp.Matrix) (x : List Nat) :
    tour_length d (x.map Int.ofNat) = Tsp.tourLen? d x := by
  unfold tour_length Tsp.tourLen?
  rw [get1?_eq, get2?_eq, LoopGen.get1?_len_sub_one, List.getLast?_map]
  cases x.getLast? with
  | none => rfl
  | some l =>
    simp only [Option.map_some, Option.bind_eq_bind, Option.bind_some]
    generalize (0 : Int) = acc
    induction x generalizing acc l with
    | nil => simp [Tsp.tourLenLoop?]
    | cons c r ih =>
      simp only [List.map_cons, List.forIn_cons, Tsp.tourLenLoop?, Int.ofNat_eq_natCast, LoopGen.get2?_ofNat,
        Tsp.entry?]
      cases (d[l]?).bind (·[c]?) with
      | none => rfl
      | some v => exact ih _ _

/-- the generated function evaluated on a concrete asymmetric instance: 0 → 2 → 1 → 0 costs 2 + 6 + 3 -/
example : tour_length [[0, 1, 2], [3, 0, 4], [5, 6, 0]] [0, 2, 1] = some 11 := by decide
/-- an empty tour: `x[-1]` leaves the array -/
example : tour_length [[0, 1], [1, 0]] [] = none := by decide
/-- a city outside the matrix -/
example : tour_length [[0, 1], [1, 0]] [0, 2] = none := by decide

end C05Gen
