import Proofs.AnnGen
import Proofs.MinAnn
/-!
# C16, part B — neural-network controllers

Clause of the property: *"… neural-network controllers — including dynamically generated
architectures of any depth and width — equal the corresponding network evaluated layer by layer,
and the minimising-network controllers return a finite value inside their search interval."*

Part 1 (`AnnGen`): `make_ann` is a compiler from an architecture `(sd, layers, cd)` to a
straight-line program; the theorems say that *every* program it can emit — any depth, any
widths, any input/output dimension — computes the layered network, declares exactly the number
of parameters it reads, reads each parameter exactly once and never leaves its arrays.

Part 2 (`MinAnn`): the bracketing / golden-section search of `min_ann.py`.
-/
namespace AnnGen

/-! ## the generated program computes the layered network -/

/-- **annGen_refines** (core of the compiler-correctness proof).  For every architecture, every
arithmetic `o = (add, mul, act)`, every parameter vector `θ`, state `s` (one entry per state
dimension) and stale content `out0` of the output array (one entry per control dimension):
whenever the layer-by-layer network is defined on `θ` (i.e. `θ` is long enough), running the
generated program yields exactly its value — in particular no local variable was overwritten
while still needed (the variable-reuse slip), no parameter was read at a wrong position, every
`out[i]` was written, and no index left its array. -/
theorem annGen_refines {K} (o : Ops K) (sd cd : Nat) (layers : List Nat) (θ s out0 ys : List K)
    (hs : s.length = sd) (ho : out0.length = cd)
    (hsp : layered? o layers cd θ s = some ys) :
    run o (annGen sd cd layers) θ s out0 = some ys := by
  -- specification side
  simp only [layered?, layeredRest?, Option.map_eq_some_iff, Option.bind_eq_some_iff] at hsp
  obtain ⟨⟨ys', rest⟩, ⟨⟨h, θ1⟩, hhid, hout⟩, hy⟩ := hsp
  simp only at hy hout
  subst hy
  -- loads
  obtain ⟨e0, hx0, hh0, hnd0, hs0⟩ := genLoads_correct o θ s sd 0 [] (fun _ => none) out0
    (by simp [Holds]) (by simp) (by simp) (by omega)
  have htake : s.take (0 + sd) = s := by rw [Nat.zero_add, ← hs]; exact List.take_length
  rw [htake] at hh0
  -- hidden layers
  have hI : Inv { varsIn := (genLoads sd 0 []).2 } := by
    refine ⟨by simpa using hnd0, ?_⟩
    intro k hk
    simp only [List.append_nil] at hk
    obtain ⟨j, hj⟩ := hs0 _ hk
    cases hj
  obtain ⟨e1, hx1, hh1, hr1⟩ := genHidden_correct o θ s layers { varsIn := (genLoads sd 0 []).2 }
    hI rfl e0 out0 s h θ1 hh0 (by simpa using hhid)
  -- output layer
  rw [hr1] at hout
  obtain ⟨hx2, _⟩ := genOuts_correct o θ s e1 _ h hh1 cd _ [] out0 ys' rest ho hout
  simp only [List.nil_append, List.length_nil] at hx2
  simp [run, annGen, exec_append, hx0, hx1, hx2]

/-- **layered_total**: on a parameter vector of the declared length the specification is defined,
returns one value per control dimension and consumes the vector completely. -/
theorem layered_total {K} (o : Ops K) (sd cd : Nat) (layers : List Nat) (θ s : List K)
    (hs : s.length = sd) (hθ : θ.length = paramCount sd cd layers) :
    ∃ ys, layeredRest? o layers cd θ s = some (ys, []) ∧ ys.length = cd := by
  subst hs
  obtain ⟨ys, rest, h1, h2, h3⟩ := layeredRest?_total o cd layers s θ (by omega)
  have : rest = [] := by
    apply List.eq_nil_of_length_eq_zero
    omega
  subst this
  exact ⟨ys, h1, h2⟩

/-- **annGen_correct** — *"neural-network controllers, including dynamically generated
architectures of any depth and width, equal the corresponding network evaluated layer by layer"*.
For all `sd cd layers`, all arithmetics, all `θ` of the declared length and all states: the run
of the generated program succeeds (no out-of-range index, no unassigned variable) and returns
the layered network's value. -/
theorem annGen_correct {K} (o : Ops K) (sd cd : Nat) (layers : List Nat) (θ s out0 : List K)
    (hs : s.length = sd) (ho : out0.length = cd) (hθ : θ.length = paramCount sd cd layers) :
    ∃ ys, layered? o layers cd θ s = some ys ∧ ys.length = cd ∧
      run o (annGen sd cd layers) θ s out0 = some ys := by
  obtain ⟨ys, h1, h2⟩ := layered_total o sd cd layers θ s hs hθ
  have h3 : layered? o layers cd θ s = some ys := by simp [layered?, h1]
  exact ⟨ys, h3, h2, annGen_refines o sd cd layers θ s out0 ys hs ho h3⟩

/-- the result does not depend on what `out` contained before the call -/
theorem annGen_ignores_stale_out {K} (o : Ops K) (sd cd : Nat) (layers : List Nat)
    (θ s out0 out1 : List K) (hs : s.length = sd) (h0 : out0.length = cd) (h1 : out1.length = cd)
    (hθ : θ.length = paramCount sd cd layers) :
    run o (annGen sd cd layers) θ s out0 = run o (annGen sd cd layers) θ s out1 := by
  obtain ⟨ys, hy, _, hr⟩ := annGen_correct o sd cd layers θ s out0 hs h0 hθ
  obtain ⟨ys', hy', _, hr'⟩ := annGen_correct o sd cd layers θ s out1 hs h1 hθ
  rw [hr, hr', ← hy, ← hy']

/-! ## parameter count and index ranges -/

private theorem annGen_struct (sd cd : Nat) (layers : List Nat) :
    (annGen sd cd layers).paramDims = paramCount sd cd layers ∧
    paramIndices (annGen sd cd layers) = List.range (paramCount sd cd layers) ∧
    ∀ c ∈ (annGen sd cd layers).stmts,
      (∃ x k, c = Stmt.load x k ∧ k < sd) ∨ (∃ x b ts, c = Stmt.neuron x b ts) ∨
      (∃ k m b ts, c = Stmt.out k m b ts ∧ k < cd) := by
  obtain ⟨l1, l2⟩ := genLoads_stmts sd 0 []
  obtain ⟨k, h1, h2, h3, h4⟩ := genHidden_idx (cd := cd) layers { varsIn := (genLoads sd 0 []).2 } rfl
  obtain ⟨o1, o2, o3⟩ := genOuts_idx (genHidden layers { varsIn := (genLoads sd 0 []).2 }).2.varsIn cd 0
    (genHidden layers { varsIn := (genLoads sd 0 []).2 }).2.params
  simp only [List.length_nil, Nat.zero_add] at l1 l2
  simp only [l1] at h3
  simp only [paramCount] at h3
  have hl : (genLoads sd 0 []).1.flatMap Stmt.paramIdx = [] := by
    rw [List.flatMap_eq_nil_iff]
    intro c hc
    obtain ⟨x, j, hj, _⟩ := l2 c hc
    subst hj; rfl
  refine ⟨?_, ?_, ?_⟩
  · simp only [annGen]
    rw [o2, h2]
    simp only [Nat.zero_add]
    omega
  · simp only [paramIndices, annGen, List.flatMap_append]
    rw [hl, h1, o1, h2]
    simp only [List.nil_append, Nat.zero_add]
    have happ := @List.range'_append_1 0 k
      (cd * ((genHidden layers { varsIn := (genLoads sd 0 []).2 }).2.varsIn.length + 2))
    simp only [Nat.zero_add] at happ
    rw [happ, List.range_eq_range', h3]
  · intro c hc
    simp only [annGen, List.mem_append] at hc
    rcases hc with (hc | hc) | hc
    · obtain ⟨x, j, hj, hlt⟩ := l2 c hc
      exact Or.inl ⟨x, j, hj, hlt⟩
    · exact Or.inr (Or.inl (h4 c hc))
    · obtain ⟨j, m, b, ts, hj, _, hlt⟩ := o3 c hc
      exact Or.inr (Or.inr ⟨j, m, b, ts, hj, by omega⟩)

/-- **annGen_paramCount**: the number of parameters `make_ann` passes to `Controller(…)` (its
running counter `params`) is `Σ_layers width·(fan_in+1) + cd·(fan_in_last+2)`. -/
theorem annGen_paramCount (sd cd : Nat) (layers : List Nat) :
    (annGen sd cd layers).paramDims = paramCount sd cd layers :=
  (annGen_struct sd cd layers).1

/-- **annGen_params_each_once**: reading the program top to bottom, the subscripts of `params`
are exactly `0, 1, 2, …, paramDims-1` in this order: every declared parameter is used exactly
once, none is skipped or shared. -/
theorem annGen_params_each_once (sd cd : Nat) (layers : List Nat) :
    paramIndices (annGen sd cd layers) = List.range (annGen sd cd layers).paramDims := by
  rw [annGen_paramCount]; exact (annGen_struct sd cd layers).2.1

/-- **annGen_indices_in_range** (the C13 clause for all generated architectures): every literal
subscript of `state`, `params`, `out` in the generated program is inside the array the
`Controller` contract provides (`state_dims`, `param_dims`, `control_dims` entries). -/
theorem annGen_indices_in_range (sd cd : Nat) (layers : List Nat) :
    ∀ c ∈ (annGen sd cd layers).stmts, c.InRange sd cd (annGen sd cd layers).paramDims := by
  intro c hc
  have hidx : ∀ i ∈ c.paramIdx, i < (annGen sd cd layers).paramDims := by
    intro i hi
    have : i ∈ paramIndices (annGen sd cd layers) := by
      simp only [paramIndices, List.mem_flatMap]
      exact ⟨c, hc, hi⟩
    rw [annGen_params_each_once] at this
    simpa using this
  rcases (annGen_struct sd cd layers).2.2 c hc with ⟨x, k, rfl, hk⟩ | ⟨x, b, ts, rfl⟩ |
    ⟨k, m, b, ts, rfl, hk⟩
  · exact hk
  · refine ⟨hidx b (by simp [Stmt.paramIdx]), ?_⟩
    intro t ht
    exact hidx t.w (by simp only [Stmt.paramIdx, List.mem_cons, List.mem_map]; exact Or.inr ⟨t, ht, rfl⟩)
  · refine ⟨hk, hidx m (by simp [Stmt.paramIdx]), hidx b (by simp [Stmt.paramIdx]), ?_⟩
    intro t ht
    exact hidx t.w (by
      simp only [Stmt.paramIdx, List.mem_cons, List.mem_map]
      exact Or.inr (Or.inr ⟨t, ht, rfl⟩))

/-! ## argument validation, identifiers -/

/-- what `make_ann` accepts: exactly the guard of the two `check_int_range` groups -/
theorem makeAnn?_eq_some {sd cd : Nat} {layers : List Nat} {p : Program}
    (h : makeAnn? sd cd layers = some p) :
    p = annGen sd cd layers ∧ 2 ≤ sd ∧ sd ≤ 100 ∧ 1 ≤ cd ∧ cd ≤ 100 ∧
    (∀ w ∈ layers, 1 ≤ w ∧ w ≤ 64) ∧ 1 ≤ paramCount sd cd layers ∧
    paramCount sd cd layers ≤ 1000 := by
  unfold makeAnn? at h
  split at h
  · rename_i hg
    dsimp only at h
    split at h
    · rename_i hg2
      simp only [Option.some.injEq] at h
      have hsd : (annGen sd cd layers).stateDims = sd := rfl
      rw [hsd, annGen_paramCount] at hg2
      refine ⟨h.symm, hg2.1, hg.2.1, hg.2.2.1, hg.2.2.2.1, ?_, hg2.2.2.2.2.1, hg2.2.2.2.2.2⟩
      intro w hw
      have := hg.2.2.2.2
      rw [List.all_eq_true] at this
      simpa using this w hw
    · simp at h
  · simp at h

theorem paramCount_le (cd : Nat) (hcd : cd ≤ 6) :
    ∀ (layers : List Nat) (sd : Nat), sd ≤ 8 → (∀ w ∈ layers, w ≤ 8) →
      paramCount sd cd layers ≤ layers.length * 72 + 60 := by
  intro layers
  induction layers with
  | nil =>
    intro sd hsd _
    simp only [paramCount, List.length_nil, Nat.zero_mul, Nat.zero_add]
    exact Nat.mul_le_mul hcd (by omega : sd + 2 ≤ 10)
  | cons w ws ih =>
    intro sd hsd hw
    have hw8 : w ≤ 8 := hw w (by simp)
    have := ih w hw8 (fun x hx => hw x (by simp [hx]))
    have h2 : w * (sd + 1) ≤ 8 * 9 := Nat.mul_le_mul hw8 (by omega)
    simp only [paramCount, List.length_cons]
    rw [Nat.succ_mul]
    omega

/-- every architecture in the property's range (`state_dims ∈ 2..6` — the `Controller`
constructor refuses 1 —, `control_dims ∈ 1..6`, at most 3 hidden layers of width 1..8) is
accepted, so the theorems above are about programs that really get generated -/
theorem makeAnn?_accepts_property_range (sd cd : Nat) (layers : List Nat)
    (hsd : 2 ≤ sd ∧ sd ≤ 6) (hcd : 1 ≤ cd ∧ cd ≤ 6) (hl : layers.length ≤ 3)
    (hw : ∀ w ∈ layers, 1 ≤ w ∧ w ≤ 8) :
    makeAnn? sd cd layers = some (annGen sd cd layers) := by
  have hpc := paramCount_le cd hcd.2 layers sd (by omega) (fun w h => (hw w h).2)
  have hpos : 1 ≤ paramCount sd cd layers := by
    cases layers with
    | nil => simp only [paramCount]; exact Nat.mul_pos (by omega) (by omega)
    | cons w ws =>
      simp only [paramCount]
      have : 0 < w * (sd + 1) := Nat.mul_pos (hw w (by simp)).1 (by omega)
      omega
  have h72 : layers.length * 72 ≤ 3 * 72 := Nat.mul_le_mul_right _ hl
  unfold makeAnn?
  have hall : (layers.all fun w => decide (1 ≤ w ∧ w ≤ 64)) = true := by
    rw [List.all_eq_true]
    intro w h
    have := hw w h
    simp; omega
  have hsd' : (annGen sd cd layers).stateDims = sd := rfl
  have hcd' : (annGen sd cd layers).controlDims = cd := rfl
  rw [if_pos (by refine ⟨by omega, by omega, by omega, by omega, hall⟩)]
  simp only [hsd', hcd', annGen_paramCount]
  rw [if_pos (by omega)]

/-- distinct model variables are distinct Python identifiers (so the interpreter's environment,
which is keyed by `Var`, is the Python frame keyed by name) -/
theorem Var.name_injective {x y : Var} (h : x.name = y.name) : x = y := by
  have key : ∀ (c d : Char) (i j : Nat),
      String.singleton c ++ Nat.repr i = String.singleton d ++ Nat.repr j → c = d ∧ i = j := by
    intro c d i j hh
    have := congrArg String.toList hh
    simp only [String.toList_append, String.toList_singleton, List.singleton_append, List.cons.injEq] at this
    exact ⟨this.1, Nat.repr_inj.mp (String.toList_inj.mp this.2)⟩
  cases x <;> cases y
  · have := (key 's' 's' _ _ h).2; subst this; rfl
  · exact absurd (key 's' 'v' _ _ h).1 (by decide)
  · exact absurd (key 'v' 's' _ _ h).1 (by decide)
  · have := (key 'v' 'v' _ _ h).2; subst this; rfl

/-! ## non-vacuity: concrete programs, concrete runs -/

/-- arithmetic of the exact correspondence stream: integers, test activation `x ↦ x³ + x + 1` -/
def intOps : Ops Int := ⟨(· + ·), (· * ·), fun x => x * x * x + x + 1⟩

/-- the hypotheses of `annGen_correct` are satisfiable and the statement has content: a
2-3-2-1 network (two hidden layers; the second layer re-uses `s1`, `s0`) -/
example : (annGen 2 1 [3, 2]).stmts =
    [.load (.s 0) 0, .load (.s 1) 1,
     .neuron (.v 1) 0 [⟨1, .s 0⟩, ⟨2, .s 1⟩],
     .neuron (.v 2) 3 [⟨4, .s 0⟩, ⟨5, .s 1⟩],
     .neuron (.v 3) 6 [⟨7, .s 0⟩, ⟨8, .s 1⟩],
     .neuron (.s 1) 9 [⟨10, .v 1⟩, ⟨11, .v 2⟩, ⟨12, .v 3⟩],
     .neuron (.s 0) 13 [⟨14, .v 1⟩, ⟨15, .v 2⟩, ⟨16, .v 3⟩],
     .out 0 17 18 [⟨19, .s 1⟩, ⟨20, .s 0⟩]] := by decide

example : paramCount 2 1 [3, 2] = 21 ∧ (annGen 2 1 [3, 2]).paramDims = 21 := by decide

example : run intOps (annGen 2 1 [1]) [1, 2, -1, 3, 1, -2] [1, 2] [99] = some [-387] := by decide
example : layered? intOps [1] 1 [1, 2, -1, 3, 1, -2] [1, 2] = some [-387] := by decide

/-- a too short parameter vector or state is an out-of-range access, not a default -/
example : run intOps (annGen 2 1 [1]) [1, 2, -1, 3, 1] [1, 2] [99] = none := by decide
example : run intOps (annGen 2 1 [1]) [1, 2, -1, 3, 1, -2] [1] [99] = none := by decide

/-- the slip the property worries about, as a program: re-using `v1` for the second neuron of a
layer whose inputs are still needed … is *not* what `annGen` emits, and it would be wrong:
the mutant below (second hidden neuron stored in `s0` while `s0` is still an input) differs. -/
example :
    run intOps { (annGen 2 1 [2]) with stmts :=
      [.load (.s 0) 0, .load (.s 1) 1,
       .neuron (.s 0) 0 [⟨1, .s 0⟩, ⟨2, .s 1⟩],
       .neuron (.v 2) 3 [⟨4, .s 0⟩, ⟨5, .s 1⟩],
       .out 0 6 7 [⟨8, .s 0⟩, ⟨9, .v 2⟩]] } [0, 1, 0, 0, 1, 0, 1, 0, 0, 1] [1, 2] [0]
    ≠ run intOps (annGen 2 1 [2]) [0, 1, 0, 0, 1, 0, 1, 0, 0, 1] [1, 2] [0] := by decide

example : makeAnn? 1 1 [] = none ∧ makeAnn? 2 1 [64, 64] = none ∧ makeAnn? 2 1 [0] = none
    ∧ (makeAnn? 3 1 [3, 2]).isSome = true := by decide +kernel

end AnnGen

/-! # Part 2 — the minimising-network controllers -/
namespace MinAnn

variable {K : Type} [Field K] [LinearOrder K] [IsStrictOrderedRing K]

/-- **minAnn_in_interval** — *"the minimising-network controllers return a finite value inside
their search interval"*, for the search skeleton shared by the six kernels, over any linearly
ordered field with exact arithmetic, any objective `f`, any `nextafter` substitutes with
`x ≤ up x`, `dn x ≤ x`, any fuel: if the search returns at all, then the returned control value
`x_best` is one of the points at which the network was evaluated, and every evaluated point —
hence `x_best` — lies in `[C.lo, C.hi]` (`[-1000, 1000]` for the literals of the source, see
`ratConsts_ok`).  **Partial** with respect to the property: exact arithmetic instead of
binary64/fastmath, and termination of the loops is assumed (fuel), not proved. -/
theorem minAnn_in_interval (up dn f : K → K) (C : Consts K) (n : ℕ) (hC : C.Ok n)
    (hup : ∀ x, x ≤ up x) (hdn : ∀ x, dn x ≤ x) (fuel : Nat) (r : S K)
    (h : minAnn (fieldNum up dn) C f fuel = some r) :
    (C.lo ≤ r.xBest ∧ r.xBest ≤ C.hi) ∧ r.xBest ∈ r.evals ∧
    ∀ p ∈ r.evals, C.lo ≤ p ∧ p ≤ C.hi := by
  obtain ⟨t0, g0, _⟩ := init_spec up dn f hC
  obtain ⟨t, _⟩ := outer_spec up dn f hC hup hdn fuel fuel _ r false t0 g0 h
  exact ⟨t.evals_in _ t.best_mem, t.best_mem, t.evals_in⟩

/-- **minAnn_best_of_evaluated**: the returned point is a minimiser of `f` over everything that
was evaluated, and the first estimate `0`, `lo` and `lo + step₀` are always among the evaluated
points (so the result is never worse than the first estimate). -/
theorem minAnn_best_of_evaluated (up dn f : K → K) (C : Consts K) (n : ℕ) (hC : C.Ok n)
    (hup : ∀ x, x ≤ up x) (hdn : ∀ x, dn x ≤ x) (fuel : Nat) (r : S K)
    (h : minAnn (fieldNum up dn) C f fuel = some r) :
    (∀ p ∈ r.evals, f r.xBest ≤ f p) ∧ C.x0 ∈ r.evals ∧ C.lo ∈ r.evals ∧ C.lo2 ∈ r.evals := by
  obtain ⟨t0, g0, p0⟩ := init_spec up dn f hC
  obtain ⟨t, p1⟩ := outer_spec up dn f hC hup hdn fuel fuel _ r false t0 g0 h
  have hsub := (p0.trans p1).subset
  refine ⟨?_, hsub (by simp), hsub (by simp), hsub (by simp)⟩
  intro p hp
  rw [← t.best_val]
  exact t.best_min p hp

/-- the literals of the source satisfy the hypotheses: `-990 + 199·10 = 1000` -/
theorem ratConsts_ok (tol phi : ℚ) (ht : 0 ≤ tol) (hp : 1 ≤ phi) : (ratConsts tol phi).Ok 199 := by
  refine ⟨?_, ?_, ?_, ?_, ?_, ht, hp⟩ <;> simp only [ratConsts] <;> norm_num

/-- the driver's arithmetic is an instance of the arithmetic of the theorem -/
theorem ratNum_eq (eps : ℚ) : ratNum eps = fieldNum (· + eps) (· - eps) := rfl

/-- `minAnn_in_interval` for exactly what the model driver executes -/
theorem minAnn_in_interval_rat (f : ℚ → ℚ) (eps tol phi : ℚ) (he : 0 ≤ eps) (ht : 0 ≤ tol)
    (hp : 1 ≤ phi) (fuel : Nat) (r : S ℚ)
    (h : minAnn (ratNum eps) (ratConsts tol phi) f fuel = some r) :
    -1000 ≤ r.xBest ∧ r.xBest ≤ 1000 := by
  rw [ratNum_eq] at h
  exact (minAnn_in_interval _ _ f _ 199 (ratConsts_ok tol phi ht hp)
    (fun x => by linarith) (fun x => by linarith) fuel r h).1

/-- non-vacuity: with the literals of the source the search does return (fuel 300 is enough
here), after 224 evaluations, at a point within 1/4 of the interior minimum of the objective -/
example : ((minAnn (ratNum (1/1024)) (ratConsts (1/8) (13/8)) (fun z => (z - 3) * (z - 3)) 300).map
    (fun r => (decide (r.xBest - 3 < 1/4 ∧ 3 - r.xBest < 1/4), r.evals.length))) = some (true, 224) := by
  decide +kernel

end MinAnn
