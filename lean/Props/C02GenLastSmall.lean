import Gen.BinCountAndLastSmall
import Props.C02Gen
/-!
# C02 (tie between source and model) — `Gen/BinCountAndLastSmall.lean` equals its hand-written model
(see `Props/C02Gen.lean` for the conversion `mat` and the statements about the model alone)
-/
-- the proofs are re-checked against regenerated text: simp sets are deliberately a superset of what one variant needs
set_option linter.unusedSimpArgs false
set_option linter.unusedVariables false

namespace C02Gen
open Pack (Row)
open LoopGen (OptRel StepRel forIn_map_rel_mem)
open Gen.BinCountAndLastSmall

theorem ls_get2?_eq : @get2? = @LoopGen.get2? := rfl
theorem ls_pyRange_eq : @pyRange = @LoopGen.pyRange := rfl

/-- **`bin_count_and_last_small`: generated code = model**, for every packing and every `bin_area`. -/
theorem bin_count_and_last_small_eq_model (rows : List Row) (binArea : Int) :
    bin_count_and_last_small (mat rows) binArea = some (BinObj.binCountAndLastSmall rows binArea) := by
  unfold bin_count_and_last_small BinObj.binCountAndLastSmall
  simp only [ls_get2?_eq, ls_pyRange_eq, IDX_BIN, IDX_LEFT_X, IDX_RIGHT_X, IDX_BOTTOM_Y, IDX_TOP_Y, mat_length,
    LoopGen.pyRange_zero_ofNat, LoopGen.range_length_eq_zipIdx]
  apply LoopGen.OptRel.eq
  rw [show some (binArea * ((BinObj.lastSmallLoop rows (-1) 0).1 - 1) + (BinObj.lastSmallLoop rows (-1) 0).2)
      = (some (BinObj.lastSmallLoop rows (-1) 0)).bind fun st => some (binArea * (st.1 - 1) + st.2)
      from rfl, lastSmallLoop_eq, ← LoopGen.foldlM_zipIdx_fst _ rows 0]
  refine LoopGen.OptRel.bind (R' := fun b c => c = b) ?_ ?_
  · refine forIn_map_rel_mem _ _ _ _ _ ?_ _ _ rfl
    rintro ⟨a, i⟩ hmem ⟨cb, ca⟩ c hc
    have hc' : c = (cb, ca) := hc
    subst hc'
    have hrow : rows[i]? = some a := List.mem_zipIdx_iff_getElem?.mp hmem
    simp only [get_bin hrow, get_l hrow, get_r hrow, get_b hrow, get_t hrow, lastSmallStep, Option.bind_eq_bind,
      Option.bind_some]
    by_cases h0 : a.bin < cb
    · simp [h0, StepRel]
    · by_cases h1 : a.bin > cb
      · simp [h0, h1, StepRel]
      · by_cases h2 : a.bin = cb <;> simp [h0, h1, h2, StepRel]
  · rintro b c hc
    have hc' : c = b := hc
    subst hc'
    simp [OptRel, Int.add_comm]

/-- the generated function on a concrete packing: the last bin (2) holds a 1 × 1 item, bins have area 9 -/
example : bin_count_and_last_small [[1, 1, 0, 0, 2, 2], [2, 2, 0, 0, 1, 1], [3, 1, 2, 0, 3, 3]] 9 = some (9 * 1 + 1) := by
  decide


end C02Gen
